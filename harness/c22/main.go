// Family c22: flat-state iterators (triedb/pathdb fast + binary, legacy snapshot
// fast) vs coq/PathDB/Iter.v.
package main

import (
	"bytes"
	"fmt"
	"math/big"
	"sort"

	"github.com/ethereum/go-ethereum/common"
	"github.com/ethereum/go-ethereum/core/rawdb"
	"github.com/ethereum/go-ethereum/core/state/snapshot"
	"github.com/ethereum/go-ethereum/core/types"
	"github.com/ethereum/go-ethereum/trie/trienode"
	"github.com/ethereum/go-ethereum/triedb"
	"github.com/ethereum/go-ethereum/triedb/pathdb"
	. "gethverif/harness/hxlib"
)

// ---- case decoding ---------------------------------------------------------

type entry struct {
	k common.Hash
	v []byte // nil = deleted; empty non-nil = adversarial
}
type layerT struct {
	accounts []entry
	storages map[common.Hash][]entry
	storOrd  []common.Hash
}

func hashOf(v Sx) common.Hash {
	b := AsBig(v)
	if b.Sign() < 0 || b.BitLen() > 256 {
		panic("hxlib: hash out of range")
	}
	return common.BigToHash(b)
}

func valOf(v Sx) []byte {
	l := AsList(v)
	if len(l) == 0 {
		return nil
	}
	if len(l) != 1 {
		panic("hxlib: bad value")
	}
	b := AsBytes(l[0])
	if b == nil {
		b = []byte{}
	}
	return b
}

func mapOf(v Sx) []entry {
	var out []entry
	for _, e := range AsList(v) {
		p := AsList(e)
		if len(p) != 2 {
			panic("hxlib: bad entry")
		}
		out = append(out, entry{hashOf(p[0]), valOf(p[1])})
	}
	return out
}

func layerOf(v Sx) layerT {
	p := AsList(v)
	if len(p) != 2 {
		panic("hxlib: bad layer")
	}
	l := layerT{accounts: mapOf(p[0]), storages: map[common.Hash][]entry{}}
	for _, s := range AsList(p[1]) {
		q := AsList(s)
		if len(q) != 2 {
			panic("hxlib: bad storage")
		}
		a := hashOf(q[0])
		if _, dup := l.storages[a]; dup {
			panic("hxlib: duplicate storage account")
		}
		l.storages[a] = mapOf(q[1])
		l.storOrd = append(l.storOrd, a)
	}
	return l
}

func (l layerT) maps() (map[common.Hash][]byte, map[common.Hash]map[common.Hash][]byte) {
	acc := make(map[common.Hash][]byte)
	for _, e := range l.accounts {
		acc[e.k] = e.v
	}
	st := make(map[common.Hash]map[common.Hash][]byte)
	for a, es := range l.storages {
		m := make(map[common.Hash][]byte)
		for _, e := range es {
			m[e.k] = e.v
		}
		st[a] = m
	}
	return acc, st
}

func rootOf(i int) common.Hash { return common.BigToHash(big.NewInt(int64(0x1000 + i))) }

// ---- observation -----------------------------------------------------------

type kv struct {
	k common.Hash
	v []byte
}

type iter interface {
	Next() bool
	Error() error
	Hash() common.Hash
	Release()
}

func drain(it iter, val func() []byte) (out []kv, failed bool) {
	defer it.Release()
	for n := 0; it.Next(); n++ {
		if n > 100000 {
			panic("iterator does not terminate")
		}
		out = append(out, kv{it.Hash(), append([]byte{}, val()...)})
	}
	return out, it.Error() != nil
}

func encOut(out []kv, failed bool, err error) Sx {
	if err != nil || failed {
		return L(I(1), I(2))
	}
	items := make([]Sx, len(out))
	for i, e := range out {
		items[i] = L(Big(new(big.Int).SetBytes(e.k[:])), B(e.v))
	}
	return L(I(0), L(items...))
}

// independent oracle: newest-wins map flatten of the logical layers, sorted
func oracle(layers []layerT, kind int, acct, seek common.Hash) []kv {
	m := map[common.Hash][]byte{}
	for _, l := range layers {
		es := l.accounts
		if kind == 1 {
			es = l.storages[acct]
		}
		for _, e := range es {
			if len(e.v) == 0 {
				delete(m, e.k)
			} else {
				m[e.k] = e.v
			}
		}
	}
	var out []kv
	for k, v := range m {
		if bytes.Compare(k[:], seek[:]) >= 0 {
			out = append(out, kv{k, v})
		}
	}
	sort.Slice(out, func(i, j int) bool { return bytes.Compare(out[i].k[:], out[j].k[:]) < 0 })
	return out
}

func sameKV(a, b []kv) bool {
	if len(a) != len(b) {
		return false
	}
	for i := range a {
		if a[i].k != b[i].k || !bytes.Equal(a[i].v, b[i].v) {
			return false
		}
	}
	return true
}

func checkOut(name string, got []kv, want []kv, canonical bool) string {
	for i := 1; i < len(got); i++ {
		if bytes.Compare(got[i-1].k[:], got[i].k[:]) >= 0 {
			return fmt.Sprintf("%s: output not strictly ascending at %d (%x >= %x)", name, i, got[i-1].k, got[i].k)
		}
	}
	if !canonical {
		// empty non-nil blobs violate the "nil means deleted" contract; only the
		// non-empty part of the output is specified
		var ne []kv
		for _, e := range got {
			if len(e.v) != 0 {
				ne = append(ne, e)
			}
		}
		got = ne
	}
	if !sameKV(got, want) {
		return fmt.Sprintf("%s: output (%d entries) differs from the newest-wins flatten of the layers (%d entries): got %s want %s", name, len(got), len(want), fmtKV(got), fmtKV(want))
	}
	return ""
}

func fmtKV(l []kv) string {
	s := "["
	for i, e := range l {
		if i > 6 {
			s += " ..."
			break
		}
		s += fmt.Sprintf(" %x..%x=%x", e.k[:2], e.k[30:], e.v)
	}
	return s + " ]"
}

func run(c Sx) Result {
	l := AsList(c)
	if len(l) == 3 && AsInt(l[0]) == 2 {
		return runHistory(l)
	}
	if len(l) != 8 {
		panic("hxlib: bad case")
	}
	variant, kind := AsInt(l[0]), AsInt(l[1])
	seek, acct := hashOf(l[2]), hashOf(l[3])
	cc, n, wb := AsInt(l[4]), AsInt(l[5]), AsInt(l[6])
	var layers []layerT
	for _, s := range AsList(l[7]) {
		layers = append(layers, layerOf(s))
	}
	m := len(layers)
	if cc < 0 || cc > m || n < 0 || n > 1000 || variant < 0 || variant > 1 || kind < 0 || kind > 1 {
		panic("hxlib: bad case parameters")
	}
	canonical := true
	overlap := false
	seen := map[common.Hash]int{}
	for _, ly := range layers {
		es := ly.accounts
		if kind == 1 {
			es = ly.storages[acct]
		}
		for _, e := range es {
			if e.v != nil && len(e.v) == 0 {
				canonical = false
			}
			seen[e.k]++
			if seen[e.k] > 1 {
				overlap = true
			}
		}
	}
	// all layers (not just the projected ones) must be canonical for flushes to agree
	for _, ly := range layers {
		for _, e := range ly.accounts {
			if e.v != nil && len(e.v) == 0 {
				canonical = false
			}
		}
		for _, es := range ly.storages {
			for _, e := range es {
				if e.v != nil && len(e.v) == 0 {
					canonical = false
				}
			}
		}
	}
	want := oracle(layers, kind, acct, seek)
	res := Result{}
	head := types.EmptyRootHash
	if m > 0 {
		head = rootOf(m - 1)
	}
	var fails []string
	if variant == 0 {
		cfg := &pathdb.Config{NoAsyncGeneration: true, NoAsyncFlush: wb&2 != 0}
		if wb&1 != 0 {
			cfg.WriteBufferSize = 4 * 1024 * 1024
		}
		db := pathdb.New(rawdb.NewMemoryDatabase(), cfg, false)
		defer db.Close()
		parent := types.EmptyRootHash
		for i, ly := range layers {
			acc, st := ly.maps()
			if err := db.Update(rootOf(i), parent, uint64(i+1), trienode.NewMergedNodeSet(), pathdb.NewStateSetWithOrigin(acc, st, nil, nil, false)); err != nil {
				panic("harness: update failed: " + err.Error())
			}
			parent = rootOf(i)
			if i+1 == cc {
				if err := db.Commit(parent, false); err != nil {
					panic("harness: commit failed: " + err.Error())
				}
			}
		}
		if n > 0 && cc < m {
			if err := db.VerifC22Cap(head, n); err != nil {
				panic("harness: cap failed: " + err.Error())
			}
		}
		var fast, bin []kv
		var ff, bf bool
		var ferr, berr error
		if kind == 0 {
			var it pathdb.AccountIterator
			if it, ferr = db.AccountIterator(head, seek); ferr == nil {
				fast, ff = drain(it, it.Account)
			}
			if it, berr = db.VerifC22BinaryAccountIterator(head, seek); berr == nil {
				bin, bf = drain(it, it.Account)
			}
		} else {
			var it pathdb.StorageIterator
			if it, ferr = db.StorageIterator(head, acct, seek); ferr == nil {
				fast, ff = drain(it, it.Slot)
			}
			if it, berr = db.VerifC22BinaryStorageIterator(head, acct, seek); berr == nil {
				bin, bf = drain(it, it.Slot)
			}
		}
		res.Obs = L(encOut(fast, ff, ferr), encOut(bin, bf, berr))
		if ferr != nil || berr != nil || ff || bf {
			fails = append(fails, fmt.Sprintf("iterator error: %v %v %v %v", ferr, berr, ff, bf))
		} else {
			if s := checkOut("pathdb fast", fast, want, canonical); s != "" {
				fails = append(fails, s)
			}
			if s := checkOut("pathdb binary", bin, want, true); s != "" {
				fails = append(fails, s)
			}
			if canonical && !sameKV(fast, bin) {
				fails = append(fails, "fast and binary iterators disagree")
			}
		}
	} else {
		diskdb := rawdb.NewMemoryDatabase()
		tree, err := snapshot.New(snapshot.Config{CacheSize: 1}, diskdb, triedb.NewDatabase(diskdb, nil), types.EmptyRootHash)
		if err != nil {
			panic("harness: snapshot.New failed: " + err.Error())
		}
		defer tree.Release()
		parent := types.EmptyRootHash
		for i, ly := range layers {
			acc, st := ly.maps()
			if err := tree.Update(rootOf(i), parent, acc, st); err != nil {
				panic("harness: snapshot update failed: " + err.Error())
			}
			parent = rootOf(i)
			if i+1 == cc {
				if err := tree.Cap(parent, 0); err != nil {
					panic("harness: snapshot commit failed: " + err.Error())
				}
			}
		}
		if n > 0 && cc < m {
			if err := tree.Cap(head, n); err != nil {
				panic("harness: snapshot cap failed: " + err.Error())
			}
		}
		var fast []kv
		var ff bool
		var ferr error
		if kind == 0 {
			var it snapshot.AccountIterator
			if it, ferr = tree.AccountIterator(head, seek); ferr == nil {
				fast, ff = drain(it, it.Account)
			}
		} else {
			var it snapshot.StorageIterator
			if it, ferr = tree.StorageIterator(head, acct, seek); ferr == nil {
				fast, ff = drain(it, it.Slot)
			}
		}
		res.Obs = L(encOut(fast, ff, ferr))
		if ferr != nil || ff {
			fails = append(fails, fmt.Sprintf("iterator error: %v %v", ferr, ff))
		} else if s := checkOut("snapshot fast", fast, want, canonical); s != "" {
			fails = append(fails, s)
		}
	}
	if len(fails) > 0 {
		res.Oracle = fmt.Sprint(fails)
	}
	res.Tags = append(res.Tags,
		fmt.Sprintf("variant%d", variant), fmt.Sprintf("kind%d", kind),
		fmt.Sprintf("layers%d", min(m, 12)), fmt.Sprintf("out%d", min(len(want), 8)))
	switch {
	case cc == m:
		res.Tags = append(res.Tags, "diskonly")
	case cc > 0:
		res.Tags = append(res.Tags, "disk+diffs")
	default:
		res.Tags = append(res.Tags, "diffsonly")
	}
	if n > 0 && m-cc > n {
		res.Tags = append(res.Tags, "buffered")
		if variant == 0 && wb&1 == 0 {
			res.Tags = append(res.Tags, "capflushed")
		}
	}
	if !canonical {
		res.Tags = append(res.Tags, "emptyblob")
	}
	if overlap {
		res.Tags = append(res.Tags, "overlap")
	}
	if seek != (common.Hash{}) {
		res.Tags = append(res.Tags, "seek")
	}
	res.NonTrivial = overlap && m >= 2 && len(want) > 0
	return res
}

// ---- generation ------------------------------------------------------------

// a small universe of hashes of different shapes: zero, trailing zeroes
// (TrimRightZeroes in the disk iterators), adjacent values, all-ones, random
func universe(r *Rng, size int) []*big.Int {
	fixed := []*big.Int{
		big.NewInt(0), big.NewInt(1), big.NewInt(2),
		new(big.Int).Lsh(big.NewInt(1), 248),                        // 0x0100..00
		new(big.Int).Lsh(big.NewInt(0x10), 248),                     // 0x1000..00
		new(big.Int).Add(new(big.Int).Lsh(big.NewInt(0x10), 248), big.NewInt(1)),
		new(big.Int).Lsh(big.NewInt(0x1001), 240),                   // 0x100100..00
		new(big.Int).Lsh(big.NewInt(0xff), 8),                       // ..ff00
		new(big.Int).Sub(new(big.Int).Lsh(big.NewInt(1), 256), big.NewInt(1)), // ff..ff
		new(big.Int).Sub(new(big.Int).Lsh(big.NewInt(1), 256), big.NewInt(2)),
		new(big.Int).Lsh(big.NewInt(0x80), 248),
	}
	seenS := map[string]bool{}
	var out []*big.Int
	for len(out) < size {
		var v *big.Int
		if r.Chance(1, 2) {
			v = fixed[r.Intn(len(fixed))]
		} else {
			v = new(big.Int).SetBytes(r.Bytes(32))
			if r.Chance(1, 3) { // clear a random-length tail
				t := r.Intn(31) + 1
				v.Rsh(v, uint(8*t)).Lsh(v, uint(8*t))
			}
		}
		if !seenS[v.String()] {
			seenS[v.String()] = true
			out = append(out, v)
		}
	}
	return out
}

func encVal(v []byte) Sx {
	if v == nil {
		return L()
	}
	return L(B(v))
}

func encMap(m map[string][]byte, keys map[string]*big.Int) Sx {
	var ks []*big.Int
	for s := range m {
		ks = append(ks, keys[s])
	}
	sort.Slice(ks, func(i, j int) bool { return ks[i].Cmp(ks[j]) < 0 })
	items := make([]Sx, len(ks))
	for i, k := range ks {
		items[i] = L(Big(k), encVal(m[k.String()]))
	}
	return L(items...)
}

func genCase(r *Rng, maxLayers int) Sx {
	usize := r.Range(2, 12)
	if r.Chance(1, 6) {
		usize = r.Range(12, 30)
	}
	uni := universe(r, usize)
	keys := map[string]*big.Int{}
	for _, u := range uni {
		keys[u.String()] = u
	}
	accts := uni[:min(3, len(uni))]
	adversarial := r.Chance(1, 8)
	val := func() []byte {
		if adversarial && r.Chance(1, 5) {
			return []byte{}
		}
		return r.Bytes(r.Range(1, 4))
	}
	m := r.Intn(maxLayers + 1)
	if r.Chance(1, 3) {
		m = r.Intn(4)
	}
	// live state tracked so that deletions / destructs hit existing entries often
	liveAcc := map[string]bool{}
	liveSlots := map[string]map[string]bool{}
	var layers []Sx
	for i := 0; i < m; i++ {
		acc := map[string][]byte{}
		st := map[string]map[string][]byte{}
		slot := func(a, k string, v []byte) {
			if st[a] == nil {
				st[a] = map[string][]byte{}
			}
			st[a][k] = v
			if liveSlots[a] == nil {
				liveSlots[a] = map[string]bool{}
			}
			if len(v) == 0 {
				delete(liveSlots[a], k)
			} else {
				liveSlots[a][k] = true
			}
		}
		nops := r.Intn(usize + 2)
		if r.Chance(1, 10) {
			nops = 0
		}
		for j := 0; j < nops; j++ {
			k := uni[r.Intn(len(uni))].String()
			a := accts[r.Intn(len(accts))].String()
			switch r.Intn(10) {
			case 0, 1, 2: // create / modify account
				acc[k] = val()
				liveAcc[k] = true
			case 3: // delete account (existing preferred)
				if !liveAcc[k] && r.Bool() && len(liveAcc) > 0 {
					var ls []string
					for s := range liveAcc {
						ls = append(ls, s)
					}
					sort.Strings(ls)
					k = ls[r.Intn(len(ls))]
				}
				acc[k] = nil
				delete(liveAcc, k)
			case 4, 5, 6: // storage write
				slot(a, k, val())
				if _, ok := acc[a]; !ok || acc[a] == nil {
					acc[a] = val()
					liveAcc[a] = true
				}
			case 7: // storage delete
				slot(a, k, nil)
			case 8: // account destruct: account nil, every known slot nil
				acc[a] = nil
				delete(liveAcc, a)
				for s := range liveSlots[a] {
					slot(a, s, nil)
				}
				if st[a] == nil && r.Bool() {
					st[a] = map[string][]byte{}
				}
			default: // destruct + recreate in the same block
				for s := range liveSlots[a] {
					slot(a, s, nil)
				}
				acc[a] = val()
				liveAcc[a] = true
				for t := r.Intn(3); t > 0; t-- {
					slot(a, uni[r.Intn(len(uni))].String(), val())
				}
			}
		}
		var sts []Sx
		var as []*big.Int
		for a := range st {
			as = append(as, keys[a])
		}
		sort.Slice(as, func(i, j int) bool { return as[i].Cmp(as[j]) < 0 })
		for _, a := range as {
			sts = append(sts, L(Big(a), encMap(st[a.String()], keys)))
		}
		layers = append(layers, L(encMap(acc, keys), L(sts...)))
	}
	// seek
	var seek *big.Int
	switch r.Intn(6) {
	case 0, 1:
		seek = big.NewInt(0)
	case 2:
		seek = new(big.Int).Set(uni[r.Intn(len(uni))])
	case 3:
		seek = new(big.Int).Add(uni[r.Intn(len(uni))], big.NewInt(1))
	case 4:
		seek = new(big.Int).Sub(uni[r.Intn(len(uni))], big.NewInt(1))
	default:
		seek = new(big.Int).SetBytes(r.Bytes(32))
	}
	if seek.Sign() < 0 || seek.BitLen() > 256 {
		seek = big.NewInt(0)
	}
	cc := 0
	switch r.Intn(4) {
	case 0:
		cc = m
	case 1:
		cc = r.Intn(m + 1)
	}
	n := 0
	if r.Bool() {
		n = r.Range(1, 4)
	}
	variant := 0
	if r.Chance(1, 5) {
		variant = 1
	}
	return L(I(int64(variant)), I(int64(r.Intn(2))), Big(seek), Big(accts[r.Intn(len(accts))]),
		I(int64(cc)), I(int64(n)), I(int64(r.Intn(4))), L(layers...))
}

func gen(r *Rng, tier string, emit func(Sx)) {
	n := 2500
	if tier == "thorough" {
		n = 40000
	}
	for i := 0; i < n; i++ {
		emit(genCase(r, 12))
	}
	for i := 0; i < n*3/5; i++ {
		emit(genHistory(r))
	}
}

func main() {
	Main(Family{
		ID: "C22",
		Rule: "random layer stacks (0..12 diff layers over a universe of 2..30 hashes of mixed shapes incl. zero, trailing-zero, adjacent and all-ones hashes, so clashes between layers are frequent): account create/modify/delete, storage write/delete, account destruct (all known slots nil) and destruct+recreate in one block; 1/8 of the cases adversarial (empty non-nil blobs); a Commit after a random prefix of layers (disk-only, disk+diffs, diffs-only), then optionally cap(head, 1..4) which aggregates lower layers into the disk layer's buffer (or flushes them when the write buffer size is 0); random seek (zero, a key, key+-1, random); account and storage iterators; pathdb fast (Database.AccountIterator/StorageIterator) and binary iterators, and the legacy snapshot.Tree fast iterators (1/5 of cases). Non-trivial: >= 2 layers, some key present in >= 2 layers, non-empty expected output; distinct = distinct case line. Plus HISTORY cases (3/5 as many): one pathdb database driven through 4..28 operations over 1..3 accounts and 3..8 slot hashes — Update (mostly slot writes / deletions / destructs on accounts the buffer already tracks), cap(head,1..3) merging lower layers into the disk layer's buffer (2/3 with a large write buffer so nothing flushes; sync and async flush), Commit, and iterations (account and per-account storage, full and seeked, fast and binary, at the head or up to 4 layers below it, down to the disk layer) at random points in between, so iterate / merge-into-buffer / iterate-again sequences are frequent; every enumeration is compared with the reference state of that layer root and with point reads (StateReader.AccountRLP/Storage). Non-trivial history: >= 2 layers, >= 2 iterations, one of them non-empty.",
		Gen: gen,
		Run: run,
	})
}
