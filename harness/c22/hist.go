// Family c22, history cases: one pathdb database driven through a sequence of
// Update / Commit / cap operations with iterations (accounts and per-account
// storage, full and seeked, fast and binary, at the head and at lower layers)
// taken at arbitrary points in between — in particular iterate, merge more
// layers into the disk layer's buffer, iterate again.  Model: coq/PathDB/IterHist.v.
package main

import (
	"bytes"
	"fmt"
	"math/big"
	"sort"

	"github.com/ethereum/go-ethereum/common"
	"github.com/ethereum/go-ethereum/core/rawdb"
	"github.com/ethereum/go-ethereum/core/types"
	"github.com/ethereum/go-ethereum/trie/trienode"
	"github.com/ethereum/go-ethereum/triedb/pathdb"
	. "gethverif/harness/hxlib"
)

// reference state: plain maps, copied per layer root
type refState struct {
	acc  map[common.Hash][]byte
	stor map[common.Hash]map[common.Hash][]byte
}

func (s refState) apply(l layerT) refState {
	n := refState{acc: map[common.Hash][]byte{}, stor: map[common.Hash]map[common.Hash][]byte{}}
	for k, v := range s.acc {
		n.acc[k] = v
	}
	for a, m := range s.stor {
		c := map[common.Hash][]byte{}
		for k, v := range m {
			c[k] = v
		}
		n.stor[a] = c
	}
	for _, e := range l.accounts {
		if len(e.v) == 0 {
			delete(n.acc, e.k)
		} else {
			n.acc[e.k] = e.v
		}
	}
	for a, es := range l.storages {
		if n.stor[a] == nil {
			n.stor[a] = map[common.Hash][]byte{}
		}
		for _, e := range es {
			if len(e.v) == 0 {
				delete(n.stor[a], e.k)
			} else {
				n.stor[a][e.k] = e.v
			}
		}
	}
	return n
}

func (s refState) entries(kind int, acct, seek common.Hash) []kv {
	m := s.acc
	if kind == 1 {
		m = s.stor[acct]
	}
	var out []kv
	for k, v := range m {
		if bytes.Compare(k[:], seek[:]) >= 0 {
			out = append(out, kv{k, v})
		}
	}
	sort.Slice(out, func(i, j int) bool { return bytes.Compare(out[i].k[:], out[j].k[:]) < 0 })
	return out
}

type pointReader interface {
	AccountRLP(hash common.Hash) ([]byte, error)
	Storage(accountHash, storageHash common.Hash) ([]byte, error)
}

func runHistory(l SL) Result {
	if len(l) != 3 {
		panic("hxlib: bad history case")
	}
	wb := AsInt(l[1])
	ops := AsList(l[2])
	cfg := &pathdb.Config{NoAsyncGeneration: true, NoAsyncFlush: wb&2 != 0}
	if wb&1 != 0 {
		cfg.WriteBufferSize = 16 * 1024 * 1024
	}
	db := pathdb.New(rawdb.NewMemoryDatabase(), cfg, false)
	defer db.Close()

	roots := []common.Hash{types.EmptyRootHash} // roots[i] = state after i layers
	refs := []refState{{acc: map[common.Hash][]byte{}, stor: map[common.Hash]map[common.Hash][]byte{}}}
	base := 0 // number of layers inside the disk layer (buffer + disk)
	res := Result{}
	var obs []Sx
	var fails []string
	iters, afterMerge, buffered, lower, nonEmpty := 0, 0, false, false, 0
	iteratedSince := false
	for _, o := range ops {
		p := AsList(o)
		if len(p) == 0 {
			panic("hxlib: bad op")
		}
		m := len(roots) - 1
		switch AsInt(p[0]) {
		case 0:
			if len(p) != 2 {
				panic("hxlib: bad update")
			}
			ly := layerOf(p[1])
			for _, e := range ly.accounts {
				if e.v != nil && len(e.v) == 0 {
					panic("hxlib: empty non-nil blob in a history case")
				}
			}
			for _, es := range ly.storages {
				for _, e := range es {
					if e.v != nil && len(e.v) == 0 {
						panic("hxlib: empty non-nil blob in a history case")
					}
				}
			}
			acc, st := ly.maps()
			root := rootOf(m)
			if err := db.Update(root, roots[m], uint64(m+1), trienode.NewMergedNodeSet(), pathdb.NewStateSetWithOrigin(acc, st, nil, nil, false)); err != nil {
				panic("harness: update failed: " + err.Error())
			}
			roots = append(roots, root)
			refs = append(refs, refs[m].apply(ly))
		case 1:
			if m > base {
				if err := db.Commit(roots[m], false); err != nil {
					panic("harness: commit failed: " + err.Error())
				}
				base = m
				buffered = false
			}
		case 2:
			if len(p) != 2 {
				panic("hxlib: bad cap")
			}
			n := AsInt(p[1])
			if n > 0 && m-base > n {
				if err := db.VerifC22Cap(roots[m], n); err != nil {
					panic("harness: cap failed: " + err.Error())
				}
				base = m - n
				if wb&1 != 0 {
					buffered = true
					if iteratedSince {
						afterMerge++
					}
				}
			}
		case 3:
			if len(p) != 5 {
				panic("hxlib: bad iterate")
			}
			kind := AsInt(p[1])
			acct, seek := hashOf(p[2]), hashOf(p[3])
			skip := AsInt(p[4])
			if kind < 0 || kind > 1 || skip < 0 {
				panic("hxlib: bad iterate parameters")
			}
			idx := m - skip
			if idx < base {
				idx = base
			}
			if idx < m {
				lower = true
			}
			root := roots[idx]
			var fast, bin []kv
			var ff, bf bool
			var ferr, berr error
			if kind == 0 {
				var it pathdb.AccountIterator
				if it, ferr = db.AccountIterator(root, seek); ferr == nil {
					fast, ff = drain(it, it.Account)
				}
				if it, berr = db.VerifC22BinaryAccountIterator(root, seek); berr == nil {
					bin, bf = drain(it, it.Account)
				}
			} else {
				var it pathdb.StorageIterator
				if it, ferr = db.StorageIterator(root, acct, seek); ferr == nil {
					fast, ff = drain(it, it.Slot)
				}
				if it, berr = db.VerifC22BinaryStorageIterator(root, acct, seek); berr == nil {
					bin, bf = drain(it, it.Slot)
				}
			}
			obs = append(obs, L(encOut(fast, ff, ferr), encOut(bin, bf, berr)))
			iters++
			iteratedSince = true
			want := refs[idx].entries(kind, acct, seek)
			if len(want) > 0 {
				nonEmpty++
			}
			tag := fmt.Sprintf("iterate #%d (kind %d, layer %d of %d, base %d)", iters, kind, idx, m, base)
			if ferr != nil || berr != nil || ff || bf {
				fails = append(fails, fmt.Sprintf("%s: iterator error: %v %v %v %v", tag, ferr, berr, ff, bf))
				continue
			}
			if s := checkOut(tag+" fast", fast, want, true); s != "" {
				fails = append(fails, s)
			}
			if s := checkOut(tag+" binary", bin, want, true); s != "" {
				fails = append(fails, s)
			}
			// iterator results agree with point reads of the same state
			sr, err := db.StateReader(root)
			if err != nil {
				fails = append(fails, tag+": no state reader: "+err.Error())
				continue
			}
			pr, ok := sr.(pointReader)
			if !ok {
				panic("harness: state reader has no AccountRLP/Storage")
			}
			read := func(k common.Hash) []byte {
				var b []byte
				var err error
				if kind == 0 {
					b, err = pr.AccountRLP(k)
				} else {
					b, err = pr.Storage(acct, k)
				}
				if err != nil {
					fails = append(fails, fmt.Sprintf("%s: point read of %x failed: %v", tag, k, err))
				}
				return b
			}
			for _, e := range fast {
				if b := read(e.k); !bytes.Equal(b, e.v) {
					fails = append(fails, fmt.Sprintf("%s: fast iterator yields %x=%x but the point read returns %x", tag, e.k, e.v, b))
					break
				}
			}
			for _, e := range want {
				if b := read(e.k); !bytes.Equal(b, e.v) {
					fails = append(fails, fmt.Sprintf("%s: point read of %x returns %x, reference %x", tag, e.k, b, e.v))
					break
				}
			}
		default:
			panic("hxlib: unknown op")
		}
	}
	res.Obs = L(obs...)
	if len(fails) > 0 {
		if len(fails) > 3 {
			fails = fails[:3]
		}
		res.Oracle = fmt.Sprint(fails)
	}
	res.Tags = append(res.Tags, "history", fmt.Sprintf("hops%d", min(len(ops)/4*4, 40)), fmt.Sprintf("hiters%d", min(iters, 10)))
	if afterMerge > 0 {
		res.Tags = append(res.Tags, "iter-merge-iter")
	}
	if buffered {
		res.Tags = append(res.Tags, "hbuffered")
	}
	if lower {
		res.Tags = append(res.Tags, "lower-layer-iter")
	}
	if wb&1 == 0 {
		res.Tags = append(res.Tags, "hzero-buffer")
	}
	res.NonTrivial = iters >= 2 && nonEmpty >= 1 && len(roots) > 2
	return res
}

// ---- generation ------------------------------------------------------------

// histories over few accounts and few slots, so that the same accounts and
// slots are touched again and again: most layers only add / overwrite / delete
// slots of accounts the buffer already tracks
func genHistory(r *Rng) Sx {
	uni := universe(r, r.Range(3, 8))
	keys := map[string]*big.Int{}
	for _, u := range uni {
		keys[u.String()] = u
	}
	accts := uni[:r.Range(1, min(3, len(uni)))]
	val := func() []byte { return r.Bytes(r.Range(1, 3)) }
	liveSlots := map[string]map[string]bool{}
	tracked := map[string]bool{}
	var ops []Sx
	nops := r.Range(4, 28)
	iterOp := func() Sx {
		kind := 1
		if r.Chance(1, 3) {
			kind = 0
		}
		var seek *big.Int
		switch r.Intn(4) {
		case 0, 1:
			seek = big.NewInt(0)
		case 2:
			seek = new(big.Int).Set(uni[r.Intn(len(uni))])
		default:
			seek = new(big.Int).Add(uni[r.Intn(len(uni))], big.NewInt(1))
		}
		if seek.BitLen() > 256 {
			seek = big.NewInt(0)
		}
		skip := 0
		if r.Chance(1, 3) {
			skip = r.Intn(5)
		}
		return L(I(3), I(int64(kind)), Big(accts[r.Intn(len(accts))]), Big(seek), I(int64(skip)))
	}
	for i := 0; i < nops; i++ {
		switch c := r.Intn(20); {
		case c < 9: // update
			acc := map[string][]byte{}
			st := map[string]map[string][]byte{}
			slot := func(a, k string, v []byte) {
				if st[a] == nil {
					st[a] = map[string][]byte{}
				}
				st[a][k] = v
				if liveSlots[a] == nil {
					liveSlots[a] = map[string]bool{}
				}
				if len(v) == 0 {
					delete(liveSlots[a], k)
				} else {
					liveSlots[a][k] = true
				}
			}
			for j := r.Range(1, 3); j > 0; j-- {
				a := accts[r.Intn(len(accts))].String()
				if len(tracked) > 0 && r.Chance(3, 4) { // stay on tracked accounts
					var ts []string
					for t := range tracked {
						ts = append(ts, t)
					}
					sort.Strings(ts)
					a = ts[r.Intn(len(ts))]
				}
				k := uni[r.Intn(len(uni))].String()
				switch r.Intn(8) {
				case 0, 1, 2, 3: // slot write (new slot or overwrite)
					slot(a, k, val())
					acc[a] = val()
				case 4, 5: // slot delete, an existing one preferred
					if len(liveSlots[a]) > 0 && r.Chance(3, 4) {
						var ls []string
						for s := range liveSlots[a] {
							ls = append(ls, s)
						}
						sort.Strings(ls)
						k = ls[r.Intn(len(ls))]
					}
					slot(a, k, nil)
					acc[a] = val()
				case 6: // account only
					acc[uni[r.Intn(len(uni))].String()] = val()
				default: // destruct (+ maybe recreate)
					var ls []string
					for s := range liveSlots[a] {
						ls = append(ls, s)
					}
					sort.Strings(ls)
					for _, s := range ls {
						slot(a, s, nil)
					}
					if r.Bool() {
						acc[a] = nil
					} else {
						acc[a] = val()
						slot(a, uni[r.Intn(len(uni))].String(), val())
					}
				}
				tracked[a] = true
			}
			var as []*big.Int
			for a := range st {
				as = append(as, keys[a])
			}
			sort.Slice(as, func(i, j int) bool { return as[i].Cmp(as[j]) < 0 })
			var sts []Sx
			for _, a := range as {
				sts = append(sts, L(Big(a), encMap(st[a.String()], keys)))
			}
			ops = append(ops, L(I(0), L(encMap(acc, keys), L(sts...))))
		case c < 12: // cap: merge lower layers into the buffer
			ops = append(ops, L(I(2), I(int64(r.Range(1, 3)))))
			if r.Chance(2, 3) {
				ops = append(ops, iterOp())
			}
		case c < 13:
			ops = append(ops, L(I(1)))
		default:
			ops = append(ops, iterOp())
		}
	}
	ops = append(ops, iterOp())
	wb := r.Intn(4)
	if r.Chance(2, 3) {
		wb |= 1 // mostly a large write buffer: nothing flushes on cap
	}
	return L(I(2), I(int64(wb)), L(ops...))
}
