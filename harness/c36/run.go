package main

import (
	"context"
	"errors"
	"fmt"
	"math/big"
	"os"
	"sort"
	"time"

	"github.com/ethereum/go-ethereum/beacon/engine"
	"github.com/ethereum/go-ethereum/common"
	"github.com/ethereum/go-ethereum/common/hexutil"
	"github.com/ethereum/go-ethereum/consensus/beacon"
	"github.com/ethereum/go-ethereum/consensus/ethash"
	"github.com/ethereum/go-ethereum/consensus/misc/eip1559"
	"github.com/ethereum/go-ethereum/consensus/misc/eip4844"
	"github.com/ethereum/go-ethereum/core"
	"github.com/ethereum/go-ethereum/core/rawdb"
	"github.com/ethereum/go-ethereum/core/txpool"
	"github.com/ethereum/go-ethereum/core/txpool/blobpool"
	"github.com/ethereum/go-ethereum/core/txpool/legacypool"
	"github.com/ethereum/go-ethereum/core/types"
	"github.com/ethereum/go-ethereum/core/vm"
	"github.com/ethereum/go-ethereum/eth"
	"github.com/ethereum/go-ethereum/eth/catalyst"
	"github.com/ethereum/go-ethereum/eth/ethconfig"
	"github.com/ethereum/go-ethereum/miner"
	"github.com/ethereum/go-ethereum/node"
	"github.com/ethereum/go-ethereum/p2p"
	"github.com/ethereum/go-ethereum/params"
	"github.com/ethereum/go-ethereum/trie"
	"github.com/holiman/uint256"

	. "gethverif/harness/hxlib"
)

// ---------------------------------------------------------------- builder world

type backend struct {
	chain *core.BlockChain
	pool  *txpool.TxPool
}

func (b *backend) BlockChain() *core.BlockChain { return b.chain }
func (b *backend) TxPool() *txpool.TxPool       { return b.pool }

func newChain(gspec *core.Genesis) *core.BlockChain {
	opts := &core.BlockChainConfig{TrieCleanLimit: 0, TrieDirtyLimit: 16, TrieTimeLimit: 5 * time.Minute, SnapshotLimit: 0,
		ArchiveMode: true, StateScheme: rawdb.HashScheme, NoPrefetch: true}
	chain, err := core.NewBlockChain(rawdb.NewMemoryDatabase(), gspec, beacon.New(ethash.NewFaker()), opts)
	if err != nil {
		panic(fmt.Sprintf("NewBlockChain: %v", err))
	}
	return chain
}

var tmpRoot = func() string {
	if st, err := os.Stat("/dev/shm"); err == nil && st.IsDir() {
		return "/dev/shm"
	}
	return ""
}()

// one scenario: the builder's chain / pools / miner, and (Run only) the two importers
type session struct {
	sc     *scenario
	cfg    *params.ChainConfig
	gspec  *core.Genesis
	chain  *core.BlockChain
	pool   *txpool.TxPool
	miner  *miner.Miner
	dir    string
	txs    []*types.Transaction // by global id
	byHash map[common.Hash]int
	rounds []*built
	stop   string // why later rounds were not built

	impChain *core.BlockChain
	impNode  *node.Node
	impAPI   *catalyst.ConsensusAPI
}

// one round: the run of the real builder and what it produced
type built struct {
	s                   *session
	r                   int
	rd                  *roundSpec
	fork                int // rule set of the block
	addErrs             int
	pendPlain, pendBlob map[common.Address][]*txpool.LazyTransaction
	parent              *types.Header
	block               *types.Block
	receipts            []*types.Receipt
	reverted            []*types.Transaction
	revIdx              []uint32
	envelope            *engine.ExecutionPayloadEnvelope
	empty               *engine.ExecutionPayloadEnvelope
	table               []tableRow
	replayErr           string
	buildErr            error
	maxBlobs            int
	baseFee             *big.Int
	oracle              string
}

type tableRow struct {
	pos, id, class int
	a, b, c        uint64
}

const (
	cOk = iota
	cNonceTooLow
	cNonceTooHigh
	cGasLimitReached
	cTxTypeNotSupported
	cOtherPre
	cOtherPost
)

func classify(err error) int {
	switch {
	case err == nil:
		return cOk
	case errors.Is(err, core.ErrNonceTooLow):
		return cNonceTooLow
	case errors.Is(err, core.ErrNonceTooHigh):
		return cNonceTooHigh
	case errors.Is(err, core.ErrGasLimitReached):
		return cGasLimitReached
	case errors.Is(err, core.ErrTxTypeNotSupported):
		return cTxTypeNotSupported
	case errors.Is(err, core.ErrInsufficientFunds), errors.Is(err, core.ErrIntrinsicGas), errors.Is(err, core.ErrFloorDataGas),
		errors.Is(err, core.ErrInsufficientFundsForTransfer):
		return cOtherPost // fails after the block gas pool was debited
	default:
		return cOtherPre
	}
}

func (s *session) args(rd *roundSpec, parent *types.Header, fork int) *miner.BuildPayloadArgs {
	a := &miner.BuildPayloadArgs{Parent: parent.Hash(), Timestamp: parent.Time + rd.timeDelta, FeeRecipient: coinbase, Random: rd.random,
		Withdrawals: types.Withdrawals{}, BeaconRoot: &rd.beaconRoot, Version: engine.PayloadV3}
	for _, w := range rd.wds {
		a.Withdrawals = append(a.Withdrawals, &types.Withdrawal{Index: w.index, Validator: w.validator, Address: addrs[w.acct], Amount: w.amount})
	}
	if fork == fAmsterdam {
		a.SlotNum = u64p(rd.slot)
		if rd.targetGas != 0 {
			a.TargetGasLimit = u64p(rd.targetGas)
		}
	}
	return a
}

func newSession(sc *scenario) *session {
	s := &session{sc: sc, cfg: sc.config(), byHash: map[common.Hash]int{}}
	s.gspec = genesis(s.cfg, sc.gasLimit)
	s.chain = newChain(s.gspec)
	dir, err := os.MkdirTemp(tmpRoot, "c36-blob-")
	if err != nil {
		panic(err)
	}
	s.dir = dir
	lcfg := legacypool.DefaultConfig
	lcfg.Journal = ""
	lcfg.PriceLimit = 1
	bcfg := blobpool.DefaultConfig
	bcfg.Datadir = dir
	s.pool, err = txpool.New(1, s.chain, []txpool.SubPool{legacypool.New(lcfg, s.chain), blobpool.New(bcfg, s.chain, nil)})
	if err != nil {
		panic(fmt.Sprintf("txpool.New: %v", err))
	}
	mcfg := miner.Config{PendingFeeRecipient: coinbase, GasCeil: sc.gasCeil, GasPrice: new(big.Int).SetUint64(sc.minTip), Recommit: time.Hour,
		MaxBlobsPerBlock: sc.maxBlobsCfg, ExtraData: []byte("c36")}
	s.miner = miner.New(&backend{s.chain, s.pool}, mcfg, s.chain.Engine())
	if len(sc.prio) > 0 {
		var pr []common.Address
		for _, p := range sc.prio {
			pr = append(pr, addrs[p])
		}
		s.miner.SetPrioAddresses(pr)
	}
	return s
}

func (s *session) close() {
	s.pool.Close()
	s.chain.Stop()
	os.RemoveAll(s.dir)
	if s.impChain != nil {
		s.impChain.Stop()
	}
	if s.impNode != nil {
		s.impNode.Close()
	}
}

// runScenario plays all rounds. withImport: evaluate the round-trip oracle per round.
func runScenario(sc *scenario, withImport bool) *session {
	s := newSession(sc)
	for r := range sc.rounds {
		bt := s.buildRound(r)
		s.rounds = append(s.rounds, bt)
		if bt.buildErr != nil {
			s.stop = "build failed"
			break
		}
		if withImport {
			bt.oracle = oracle(bt)
		}
		if r+1 < len(sc.rounds) {
			if _, err := s.chain.InsertChain(types.Blocks{bt.block}); err != nil {
				s.stop = "builder's own chain rejects the block: " + err.Error()
				break
			}
			s.pool.Sync()
		}
	}
	return s
}

// buildRound adds the round's transactions to the pools and builds a payload on the head.
func (s *session) buildRound(r int) *built {
	sc := s.sc
	bt := &built{s: s, r: r, rd: &sc.rounds[r]}
	parent := s.chain.CurrentBlock()
	bt.parent = parent
	headFork := sc.forkAt(s.cfg, parent.Time)
	headRules := s.cfg.Rules(parent.Number, true, parent.Time)
	var direct []*types.Transaction
	for _, spec := range bt.rd.txs {
		id := len(s.txs)
		tx := buildTx(s.cfg, headFork, headRules, id, spec)
		s.txs = append(s.txs, tx)
		if _, dup := s.byHash[tx.Hash()]; !dup {
			s.byHash[tx.Hash()] = id
		}
		if bt.rd.direct != 0 {
			direct = append(direct, tx)
		} else if errs := s.pool.Add([]*types.Transaction{tx}, true); errs[0] != nil {
			bt.addErrs++
		}
	}
	s.pool.Sync()

	number := new(big.Int).Add(parent.Number, common.Big1)
	ts := parent.Time + bt.rd.timeDelta
	bt.fork = sc.forkAt(s.cfg, ts)
	args := s.args(bt.rd, parent, bt.fork)
	if bt.rd.direct != 0 {
		// testing_buildBlock path: generateWork over exactly these transactions
		block, env, err := s.miner.BuildTestingPayload(args, direct, false, []byte("c36"))
		if err != nil {
			bt.buildErr = err
			return bt
		}
		bt.block, bt.envelope = block, env
		bt.maxBlobs = eip4844.MaxBlobsPerBlock(s.cfg, ts)
		return bt
	}
	// what the pools will serve to fillTransactions (same filter as miner/worker.go builds)
	bt.baseFee = eip1559.CalcBaseFee(s.cfg, parent)
	hdr := &types.Header{Number: number, Time: ts, BaseFee: bt.baseFee}
	ebg := eip4844.CalcExcessBlobGas(s.cfg, parent, ts)
	hdr.ExcessBlobGas = &ebg
	filter := txpool.PendingFilter{MinTip: uint256.NewInt(sc.minTip), BaseFee: uint256.MustFromBig(bt.baseFee),
		BlobFee: uint256.MustFromBig(eip4844.CalcBlobFee(s.cfg, hdr))}
	if s.cfg.IsOsaka(number, ts) && !s.cfg.IsAmsterdam(number, ts) {
		filter.GasLimitCap = params.MaxTxGas
	}
	bt.pendPlain, _ = s.pool.Pending(filter)
	filter.BlobTxs = true
	if s.cfg.IsOsaka(number, ts) {
		filter.BlobVersion = types.BlobSidecarVersion1
	}
	bt.pendBlob, _ = s.pool.Pending(filter)
	bt.maxBlobs = eip4844.MaxBlobsPerBlock(s.cfg, ts)
	if sc.maxBlobsCfg != 0 && sc.maxBlobsCfg < bt.maxBlobs {
		bt.maxBlobs = sc.maxBlobsCfg
	}

	payload, err := s.miner.BuildPayload(context.Background(), args, false)
	if err != nil {
		bt.buildErr = err
		return bt
	}
	bt.empty = payload.ResolveEmpty()
	bt.envelope = payload.ResolveFull()
	bt.block, bt.receipts, bt.reverted, bt.revIdx = payload.FullBlockAndReceipts()
	if bt.envelope == nil || bt.block == nil {
		bt.buildErr = errors.New("no full payload")
		return bt
	}
	bt.replay()
	return bt
}

// replay re-runs the miner's attempts (in the miner's order) on a shadow environment to
// obtain the class and the gas-pool charge of every core.ApplyTransaction call.  The shadow
// restores state AND pool after every failed attempt, whatever the transaction type.
func (bt *built) replay() {
	s := bt.s
	statedb, err := s.chain.StateAt(bt.parent)
	if err != nil {
		bt.replayErr = "state: " + err.Error()
		return
	}
	header := types.CopyHeader(bt.block.Header())
	cb := coinbase
	evm := vm.NewEVM(core.NewEVMBlockContext(header, s.chain, &cb), statedb, s.cfg, vm.Config{})
	defer evm.Release()
	core.PreExecution(context.Background(), header.ParentBeaconRoot, bt.parent, s.cfg, evm, header.Number, header.Time)
	gp := core.NewGasPool(header.GasLimit)
	ams := s.cfg.IsAmsterdam(header.Number, header.Time)
	try := func(pos int, tx *types.Transaction, wantOk bool) {
		id, ok := s.byHash[tx.Hash()]
		if !ok {
			bt.replayErr = "unknown tx in block"
			return
		}
		statedb.SetTxContext(tx.Hash(), pos, uint32(pos+1))
		snap, gps := statedb.Snapshot(), gp.Snapshot()
		rem0, ce0, cs0, cu0 := gp.Gas(), gp.CumulativeExecution(), gp.CumulativeState(), gp.CumulativeUsed()
		_, _, err := core.ApplyTransaction(evm, gp, statedb, header, tx)
		row := tableRow{pos: pos, id: id, class: classify(err)}
		if err != nil {
			statedb.RevertToSnapshot(snap)
			gp.Set(gps)
		} else if ams {
			row.a, row.b, row.c = gp.CumulativeExecution()-ce0, gp.CumulativeState()-cs0, gp.CumulativeUsed()-cu0
		} else {
			row.a = gp.CumulativeUsed() - cu0   // gas used
			row.b = tx.Gas() - (rem0 - gp.Gas()) // gas returned to the pool
		}
		if (err == nil) != wantOk && bt.replayErr == "" {
			bt.replayErr = fmt.Sprintf("replay of attempt (pos %d, tx %d) disagrees with the miner: err=%v", pos, id, err)
		}
		bt.table = append(bt.table, row)
	}
	ri := 0
	incl := bt.block.Transactions()
	for k := 0; k <= len(incl); k++ {
		for ri < len(bt.reverted) && int(bt.revIdx[ri]) == k {
			try(k, bt.reverted[ri], false)
			ri++
		}
		if k < len(incl) {
			try(k, incl[k], true)
		}
	}
	if ri != len(bt.reverted) && bt.replayErr == "" {
		bt.replayErr = "reverted index beyond the block"
	}
}

// ---------------------------------------------------------------- record (model input)

func (bt *built) pendSx(m map[common.Address][]*txpool.LazyTransaction) Sx {
	idx := map[common.Address]int{}
	for i, a := range addrs {
		idx[a] = i
	}
	var accts []int
	for a := range m {
		accts = append(accts, idx[a])
	}
	sort.Ints(accts)
	out := SL{}
	for _, ai := range accts {
		l := SL{}
		for _, lz := range m[addrs[ai]] {
			id := bt.s.byHash[lz.Hash]
			tm := int64(0)
			if lz.Tx != nil { // legacypool: the tx's own first-seen time; blobpool: one instant for all
				tm = lz.Time.Unix()*1_000_000 + int64(lz.Time.Nanosecond())
			}
			l = append(l, L(I(int64(id)), U(bt.s.txs[id].Nonce()), Big(lz.GasFeeCap.ToBig()), Big(lz.GasTipCap.ToBig()), I(tm), U(lz.Gas), U(lz.BlobGas)))
		}
		out = append(out, L(I(int64(ai)), l))
	}
	return out
}

func optU(p *uint64) Sx {
	if p == nil {
		return SL{}
	}
	return SL{U(*p)}
}

func bcSx(b *params.BlobConfig) Sx {
	if b == nil {
		return SL{}
	}
	return SL{L(I(int64(b.Target)), I(int64(b.Max)), U(b.UpdateFraction))}
}

// blobHdr: the fork schedule, the blob schedule, the parent's blob fields and the new block's time
func (bt *built) blobHdr() Sx {
	c, p := bt.s.cfg, bt.parent
	bs := c.BlobScheduleConfig
	pb := SL{}
	if p.BaseFee != nil {
		pb = SL{Big(p.BaseFee)}
	}
	return L(L(optU(c.CancunTime), optU(c.PragueTime), optU(c.OsakaTime), optU(c.BPO1Time), optU(c.BPO2Time)),
		L(bcSx(bs.Cancun), bcSx(bs.Prague), bcSx(bs.BPO1), bcSx(bs.BPO2)),
		L(optU(p.ExcessBlobGas), optU(p.BlobGasUsed), pb), U(bt.block.Time()))
}

func (bt *built) record() Sx {
	if bt.rd.direct != 0 {
		return L(I(2))
	}
	if bt.buildErr != nil {
		return L(I(0))
	}
	h := bt.block.Header()
	c := bt.s.cfg
	bi := func(b bool) int64 {
		if b {
			return 1
		}
		return 0
	}
	cfg := L(I(bi(c.IsCancun(h.Number, h.Time))), I(bi(c.IsAmsterdam(h.Number, h.Time))), I(bi(c.IsEIP155(h.Number))),
		I(int64(bt.maxBlobs)), U(h.GasLimit), Big(bt.baseFee), U(uint64(h.Size())+uint64(bt.block.Withdrawals().Size())),
		I(int64(eip4844.MaxBlobsPerBlock(c, h.Time))))
	prio := SL{}
	for _, p := range bt.s.sc.prio {
		prio = append(prio, I(int64(p)))
	}
	// metadata of the transactions the pools serve this round
	need := map[int]bool{}
	for _, m := range []map[common.Address][]*txpool.LazyTransaction{bt.pendPlain, bt.pendBlob} {
		for _, l := range m {
			for _, lz := range l {
				need[bt.s.byHash[lz.Hash]] = true
			}
		}
	}
	meta := SL{}
	for id, tx := range bt.s.txs {
		if !need[id] {
			continue
		}
		nb, isBlob := 0, tx.Type() == types.BlobTxType
		if sc := tx.BlobTxSidecar(); sc != nil {
			nb = len(sc.Blobs)
		}
		meta = append(meta, L(I(int64(id)), U(tx.Gas()), U(tx.BlobGas()), I(int64(nb)), U(tx.Size()), U(tx.WithoutBlobTxSidecar().Size()),
			I(1), I(bi(tx.Protected())), I(bi(isBlob))))
	}
	tab := SL{}
	for _, r := range bt.table {
		tab = append(tab, L(I(int64(r.pos)), I(int64(r.id)), I(int64(r.class)), U(r.a), U(r.b), U(r.c)))
	}
	return L(I(1), cfg, prio, bt.pendSx(bt.pendPlain), bt.pendSx(bt.pendBlob), meta, tab, bt.blobHdr())
}

func (s *session) record() Sx {
	out := SL{}
	for _, bt := range s.rounds {
		out = append(out, bt.record())
	}
	return out
}

// ---------------------------------------------------------------- importers

// insertImporter: InsertChain into the second chain (fresh at round 0, then advanced round by round)
func insertImporter(bt *built) (err error, extra string) {
	s := bt.s
	if s.impChain == nil {
		s.impChain = newChain(s.gspec)
	}
	chain := s.impChain
	if _, err := chain.InsertChain(types.Blocks{bt.block}); err != nil {
		return err, ""
	}
	if chain.CurrentBlock().Hash() != bt.block.Hash() {
		return nil, "importing chain's head is not the built block"
	}
	rs := chain.GetReceiptsByHash(bt.block.Hash())
	h := bt.block.Header()
	if types.DeriveSha(rs, trie.NewStackTrie(nil)) != h.ReceiptHash {
		return nil, "re-executed receipts root differs from header"
	}
	if types.MergeBloom(rs) != h.Bloom {
		return nil, "re-executed bloom differs from header"
	}
	for i, r := range rs {
		if bt.rd.direct != 0 {
			break
		}
		if r.GasUsed != bt.receipts[i].GasUsed || r.Status != bt.receipts[i].Status {
			return nil, fmt.Sprintf("receipt %d differs between builder and importer", i)
		}
	}
	if !chain.HasState(h.Root) {
		return nil, "importer has no state for the header root"
	}
	return nil, ""
}

func newPayloadImporter(bt *built) (status string, err error) {
	s := bt.s
	if s.impAPI == nil {
		n, err := node.New(&node.Config{P2P: p2p.Config{NoDiscovery: true, NoDial: true, ListenAddr: ""}})
		if err != nil {
			return "", fmt.Errorf("node.New: %w", err)
		}
		s.impNode = n
		ecfg := ethconfig.Defaults
		ecfg.Genesis = s.gspec
		ecfg.SyncMode = ethconfig.FullSync
		ecfg.TrieCleanCache, ecfg.TrieDirtyCache, ecfg.SnapshotCache = 0, 16, 0
		ecfg.StateScheme = rawdb.HashScheme
		ecfg.NoPruning = true
		ecfg.TxPool.Journal = ""
		ecfg.BlobPool.Datadir = ""
		ecfg.Miner = miner.DefaultConfig
		svc, err := eth.New(n, &ecfg)
		if err != nil {
			return "", fmt.Errorf("eth.New: %w", err)
		}
		s.impAPI = catalyst.VerifNewConsensusAPI(svc)
	}
	api := s.impAPI
	ed := *bt.envelope.ExecutionPayload
	hashes := []common.Hash{}
	for _, tx := range bt.block.Transactions() {
		hashes = append(hashes, tx.BlobHashes()...)
	}
	reqs := []hexutil.Bytes{}
	for _, r := range bt.envelope.Requests {
		reqs = append(reqs, r)
	}
	var st engine.PayloadStatusV1
	ctx := context.Background()
	switch bt.fork {
	case fCancun:
		st, err = api.NewPayloadV3(ctx, ed, hashes, &bt.rd.beaconRoot)
	case fAmsterdam:
		st, err = api.NewPayloadV5(ctx, ed, hashes, &bt.rd.beaconRoot, reqs)
	default:
		st, err = api.NewPayloadV4(ctx, ed, hashes, &bt.rd.beaconRoot, reqs)
	}
	if err != nil {
		return st.Status, err
	}
	if st.ValidationError != nil {
		return st.Status, errors.New(*st.ValidationError)
	}
	if st.Status == engine.VALID && (st.LatestValidHash == nil || *st.LatestValidHash != bt.block.Hash()) {
		return st.Status, errors.New("latestValidHash is not the built block")
	}
	return st.Status, nil
}

// ---------------------------------------------------------------- oracle

func (bt *built) ids(txs types.Transactions) Sx {
	out := SL{}
	for _, tx := range txs {
		out = append(out, I(int64(bt.s.byHash[tx.Hash()])))
	}
	return out
}

func oracle(bt *built) string {
	msg := oracle1(bt)
	if msg != "" && bt.r > 0 {
		msg += fmt.Sprintf(" [round %d]", bt.r)
	}
	return msg
}

func oracle1(bt *built) string {
	s := bt.s
	h := bt.block.Header()
	// gas / blob limits
	var sum uint64
	for _, r := range bt.receipts {
		sum += r.GasUsed
	}
	if h.GasUsed > h.GasLimit {
		return fmt.Sprintf("header gas used %d > gas limit %d", h.GasUsed, h.GasLimit)
	}
	if bt.fork != fAmsterdam && sum != h.GasUsed && bt.rd.direct == 0 {
		return fmt.Sprintf("sum of receipt gas %d != header gas used %d", sum, h.GasUsed)
	}
	nb := 0
	for _, tx := range bt.block.Transactions() {
		nb += len(tx.BlobHashes())
	}
	if nb > bt.maxBlobs {
		return fmt.Sprintf("%d blobs > max %d", nb, bt.maxBlobs)
	}
	if h.BlobGasUsed == nil || *h.BlobGasUsed != uint64(nb)*params.BlobTxBlobGasPerBlob {
		return "header blob gas used is not blobs * gas per blob"
	}
	if want := eip4844.CalcExcessBlobGas(s.cfg, bt.parent, h.Time); h.ExcessBlobGas == nil || *h.ExcessBlobGas != want {
		have := "nil"
		if h.ExcessBlobGas != nil {
			have = fmt.Sprint(*h.ExcessBlobGas)
		}
		return fmt.Sprintf("header excess blob gas %s is not the importer's value %d", have, want)
	}
	// per-account nonce order
	signer := types.MakeSigner(s.cfg, h.Number, h.Time)
	last := map[common.Address]uint64{}
	for _, tx := range bt.block.Transactions() {
		from, err := types.Sender(signer, tx)
		if err != nil {
			return "included tx without valid sender"
		}
		if n, ok := last[from]; ok && tx.Nonce() <= n {
			return fmt.Sprintf("account %x: nonce %d included after nonce %d", from, tx.Nonce(), n)
		}
		last[from] = tx.Nonce()
	}
	if len(bt.receipts) != len(bt.block.Transactions()) && bt.rd.direct == 0 {
		return "receipts / transactions length mismatch"
	}
	if bt.replayErr != "" {
		return bt.replayErr
	}
	if m := bt.lazyOK(); m != "" {
		return m
	}
	// payload attributes made it into the block
	if h.MixDigest != bt.rd.random || h.ParentBeaconRoot == nil || *h.ParentBeaconRoot != bt.rd.beaconRoot || h.Coinbase != coinbase ||
		len(bt.block.Withdrawals()) != len(bt.rd.wds) || h.Time != bt.parent.Time+bt.rd.timeDelta {
		return "payload attributes not reflected in the built block"
	}
	// import into the second chain
	err, extra := insertImporter(bt)
	if err != nil {
		return "InsertChain rejects the locally built block: " + err.Error()
	}
	if extra != "" {
		return extra
	}
	// the empty payload is a valid block too (checked on a fresh chain holding the earlier rounds)
	if bt.empty != nil && (bt.r == 0 || bt.r == s.sc.switchRound) {
		eb, err := engine.ExecutableDataToBlock(*bt.empty.ExecutionPayload, []common.Hash{}, &bt.rd.beaconRoot, bt.empty.Requests)
		if err != nil {
			return "empty payload does not decode: " + err.Error()
		}
		c := newChain(s.gspec)
		for _, prev := range s.rounds {
			if prev.r < bt.r {
				if _, err := c.InsertChain(types.Blocks{prev.block}); err != nil {
					c.Stop()
					return "fresh chain rejects an earlier round: " + err.Error()
				}
			}
		}
		_, err = c.InsertChain(types.Blocks{eb})
		c.Stop()
		if err != nil {
			return "InsertChain rejects the empty payload: " + err.Error()
		}
	}
	st, err := newPayloadImporter(bt)
	if err != nil {
		return fmt.Sprintf("NewPayload: status %q err %v", st, err)
	}
	if st != engine.VALID {
		return fmt.Sprintf("NewPayload status %q, want VALID", st)
	}
	return ""
}

// chargesWF: every recorded pool charge satisfies the hypotheses the Coq theorems put on
// the execution oracle (legacy: used + returned = tx gas; Amsterdam: execution gas within
// min(gas, MaxTxGas), state gas within gas, receipt gas within their sum).
func (bt *built) chargesWF() bool {
	ams := bt.fork == fAmsterdam
	for _, r := range bt.table {
		if r.class != cOk {
			continue
		}
		gas := bt.s.txs[r.id].Gas()
		if ams {
			if r.a > min(gas, params.MaxTxGas) || r.b > gas || r.c > r.a+r.b {
				return false
			}
		} else if r.a+r.b != gas {
			return false
		}
	}
	return true
}

// lazyOK: the metadata the pools put on the lazy transactions is that of the transaction
func (bt *built) lazyOK() string {
	for _, m := range []map[common.Address][]*txpool.LazyTransaction{bt.pendPlain, bt.pendBlob} {
		for _, l := range m {
			for _, lz := range l {
				tx := bt.s.txs[bt.s.byHash[lz.Hash]]
				if lz.Gas != tx.Gas() || lz.BlobGas != tx.BlobGas() || lz.GasFeeCap.ToBig().Cmp(tx.GasFeeCap()) != 0 || lz.GasTipCap.ToBig().Cmp(tx.GasTipCap()) != 0 {
					return fmt.Sprintf("pool serves lazy metadata that differs from tx %d", bt.s.byHash[lz.Hash])
				}
			}
		}
	}
	return ""
}

func count(m map[common.Address][]*txpool.LazyTransaction) int {
	n := 0
	for _, l := range m {
		n += len(l)
	}
	return n
}

func bucket(n int) int {
	switch {
	case n <= 1:
		return n
	case n <= 4:
		return 2
	case n <= 9:
		return 5
	default:
		return 10
	}
}

// ---------------------------------------------------------------- observation

func runCase(c Sx) Result {
	cl := asList(c)
	if len(cl) != 2 {
		panic("hxlib: case shape")
	}
	sc := parseScenario(cl[0])
	s := runScenario(sc, true)
	defer s.close()
	recOK := String(s.record()) == String(cl[1])
	tagset := map[string]bool{fmt.Sprintf("fork%d", sc.fork): true, fmt.Sprintf("rounds%d", len(sc.rounds)): true}
	if sc.fork2 > sc.fork && sc.switchRound < len(sc.rounds) {
		tagset[fmt.Sprintf("boundary%d-%d", sc.fork, sc.fork2)] = true
	}
	if len(sc.prio) > 0 {
		tagset["prio"] = true
	}
	robs := SL{}
	orc, nt := "", false
	for _, bt := range s.rounds {
		if bt.rd.direct != 0 {
			robs = append(robs, L(I(2)))
			if bt.buildErr != nil {
				tagset["direct-round-refused"] = true // the given transactions were not all valid: not the property
			} else if orc == "" {
				orc = bt.oracle
			}
			continue
		}
		if bt.buildErr != nil {
			robs = append(robs, L(I(0)))
			if orc == "" {
				orc = fmt.Sprintf("BuildPayload failed: %v [round %d]", bt.buildErr, bt.r)
			}
			continue
		}
		if orc == "" {
			orc = bt.oracle
		}
		h := bt.block.Header()
		rev := SL{}
		for i, tx := range bt.reverted {
			rev = append(rev, L(I(int64(s.byHash[tx.Hash()])), I(int64(bt.revIdx[i]))))
		}
		robs = append(robs, L(I(1), Bool(bt.chargesWF()), bt.ids(bt.block.Transactions()), U(h.GasUsed), U(*h.BlobGasUsed), optU(h.ExcessBlobGas), rev))
		// tags
		tagset[fmt.Sprintf("incl%d", bucket(len(bt.block.Transactions())))] = true
		tagset[fmt.Sprintf("rev%d", bucket(len(bt.reverted)))] = true
		tagset[fmt.Sprintf("pend%d", bucket(count(bt.pendPlain)+count(bt.pendBlob)))] = true
		tagset[fmt.Sprintf("blockfork%d", bt.fork)] = true
		if count(bt.pendBlob) > 0 {
			tagset["blobpending"] = true
		}
		if *h.BlobGasUsed > 0 {
			tagset["blobincluded"] = true
		}
		if h.ExcessBlobGas != nil && *h.ExcessBlobGas > 0 {
			tagset["excess>0"] = true
		}
		if len(bt.rd.wds) > 0 {
			tagset["withdrawals"] = true
		}
		if bt.addErrs > 0 {
			tagset["pooladd-rejects"] = true
		}
		for i, r := range bt.table {
			if r.class == cOk {
				continue
			}
			typ := s.txs[r.id].Type()
			tagset[fmt.Sprintf("applyerr%d", r.class)] = true
			tagset[fmt.Sprintf("applyerr%d-type%d", r.class, typ)] = true
			for _, later := range bt.table[i+1:] {
				if later.class == cOk {
					tagset[fmt.Sprintf("applyerr%d-type%d-then-ok", r.class, typ)] = true
					break
				}
			}
		}
		failed := 0
		for _, r := range bt.receipts {
			if r.Status == types.ReceiptStatusFailed {
				failed++
			}
		}
		if failed > 0 {
			tagset["failed-receipts"] = true
		}
		left := count(bt.pendPlain) + count(bt.pendBlob) - len(bt.block.Transactions())
		if left > 0 {
			tagset["not-all-included"] = true
		}
		if len(bt.block.Transactions()) >= 2 && (left > 0 || len(bt.reverted) > 0 || failed > 0 || *h.BlobGasUsed > 0) {
			nt = true
		}
	}
	if orc == "" && s.stop != "" && s.stop != "build failed" && len(s.rounds) < len(sc.rounds) {
		orc = s.stop
	}
	var tags []string
	for t := range tagset {
		tags = append(tags, t)
	}
	return Result{Obs: L(Bool(recOK), robs), Oracle: orc, Tags: tags, NonTrivial: nt}
}
