package main

import (
	"bytes"
	"fmt"
	"os"
	"time"

	"github.com/ethereum/go-ethereum/params"

	. "gethverif/harness/hxlib"
)

// ---------------------------------------------------------------- generator

// generator state carried over the rounds of one scenario
type genState struct {
	sc        *scenario
	nonces    []int
	blobAcct  map[int]bool // the pools reserve an address for one subpool
	plainAcct map[int]bool
	tipSeq    uint64
	nextID    int
}

const baseFee0 = uint64(params.InitialBaseFee) // base fee stays <= this on nearly empty parents

func (g *genState) tip(r *Rng, lo, hi int) uint64 {
	g.tipSeq++
	return uint64(r.Range(lo, hi))*1_000_000 + g.tipSeq*1_000 + uint64(g.nextID%1000)
}

// can account [a] send a transaction of type [typ] (blob vs the rest)?
func (g *genState) okType(a, typ int) bool {
	if typ == 3 {
		return !g.plainAcct[a]
	}
	return !g.blobAcct[a]
}

func (g *genState) mark(a, typ int) {
	if typ == 3 {
		g.blobAcct[a] = true
	} else {
		g.plainAcct[a] = true
	}
}

func (g *genState) setGas(r *Rng, s *txSpec) {
	switch s.kind {
	case kTransfer:
		s.gas = 21000
		s.value = uint64(r.Intn(1000))
	case kAdder, kLog:
		s.gas = uint64(r.Range(60_000, 120_000))
	case kRevert:
		s.gas = uint64(r.Range(50_000, 90_000))
	case kBurn:
		s.gas = uint64(r.Range(25_000, 60_000))
		if r.Chance(1, 2) {
			s.gas = 21_000 + g.sc.gasLimit/uint64(r.Range(3, 8))
		}
	case kCreate:
		s.gas = uint64(r.Range(120_000, 300_000))
	case kCallBump:
		s.gas = uint64(r.Range(100_000, 250_000))
	case kCallSweep:
		s.gas = uint64(r.Range(60_000, 120_000))
	case kBigData:
		if s.dataLen == 0 {
			s.dataLen = r.Range(1, 600)
		}
		s.gas = 21000 + uint64(s.dataLen)*80 + 5000
	}
	if s.typ == 1 {
		s.gas += 5000
	}
	if s.typ == 4 {
		s.gas += 60_000
	}
	if s.typ == 3 {
		if s.nBlobs == 0 {
			s.nBlobs = r.Range(1, 3)
			if r.Chance(1, 6) {
				s.nBlobs = r.Range(4, 6)
			}
		}
		if s.blobFeeCap == 0 {
			s.blobFeeCap = uint64(r.Range(2, 60))
		}
	}
}

func (g *genState) emit(out *[]txSpec, s txSpec, nTx int, r *Rng) {
	s.timeRank = r.Intn(4*nTx + 8)
	*out = append(*out, s)
	g.nextID++
}

// a random transaction in the style of the first delivery
func (g *genState) randomTx(r *Rng, headFork int, adversarial bool) txSpec {
	var s txSpec
	s.authAcct = -1
	s.acct = r.Intn(nPlain)
	if r.Chance(1, 6) {
		s.acct = aBump + r.Intn(4)
	}
	s.typ = []int{0, 1, 2, 2, 2, 3, 4}[r.Intn(7)]
	if s.typ == 4 && headFork < fPrague && !adversarial {
		s.typ = 2
	}
	if !g.okType(s.acct, s.typ) {
		if s.typ == 3 {
			s.typ = 2
		} else {
			s.typ = 3
		}
	}
	g.mark(s.acct, s.typ)
	s.kind = r.Intn(nKinds)
	if s.typ == 3 && s.kind == kCreate {
		s.kind = kTransfer
	}
	if s.kind == kCallBump || s.kind == kCallSweep {
		s.dataLen = r.Intn(2)
	}
	g.setGas(r, &s)
	if s.typ == 4 && r.Chance(3, 4) {
		s.authAcct = r.Intn(nPlain)
		s.authNonce = g.nonces[s.authAcct]
		if r.Chance(1, 5) {
			s.authNonce += r.Range(1, 2)
		}
	}
	if r.Chance(1, 8) { // gas limit larger than what will be left in the block
		s.gas += g.sc.gasLimit / uint64(r.Range(1, 3))
	}
	if adversarial && r.Chance(1, 10) {
		s.gas = uint64(r.Range(1000, 30_000)) // below intrinsic: rejected by the pool
	}
	// fees: mostly above the base fee with distinct tips; sometimes underpriced
	s.tipCap = g.tip(r, 1, 40)
	s.feeCap = 2*baseFee0 + s.tipCap + uint64(r.Intn(3))*baseFee0
	switch r.Intn(12) {
	case 0:
		s.feeCap = baseFee0 - uint64(r.Range(1, int(baseFee0/2))) // fee cap below the base fee
	case 1:
		s.tipCap = uint64(r.Intn(2_000_000)) // tip around the miner's minimum
	case 2:
		s.feeCap = baseFee0*7/8 + uint64(r.Intn(int(baseFee0/4))) // around the next base fee
	}
	if s.tipCap > s.feeCap {
		s.tipCap = s.feeCap
	}
	if s.typ == 3 && r.Chance(1, 10) {
		s.blobFeeCap = 0
	}
	s.nonce = g.nonces[s.acct]
	switch {
	case r.Chance(1, 14):
		s.nonce += r.Range(1, 2) // gap: stays in the pool's queue
	case r.Chance(1, 14) && s.nonce > 0:
		s.nonce-- // replacement attempt
	default:
		g.nonces[s.acct]++
	}
	return s
}

func (g *genState) freePlain(r *Rng, typ int) int {
	for i := 0; i < 16; i++ {
		a := r.Intn(nPlain)
		if g.okType(a, typ) {
			return a
		}
	}
	return -1
}

// good: a well-priced transaction of the given type / kind from account a
func (g *genState) good(r *Rng, a, typ, kind int, tipLo, tipHi int) txSpec {
	s := txSpec{acct: a, typ: typ, kind: kind, authAcct: -1}
	g.mark(a, typ)
	g.setGas(r, &s)
	s.tipCap = g.tip(r, tipLo, tipHi)
	s.feeCap = 3*baseFee0 + s.tipCap
	s.nonce = g.nonces[a]
	g.nonces[a]++
	return s
}

// recipe: a transaction that FAILS when the miner applies it, because a better-paying
// transaction of another sender moved the (delegated) victim's nonce or balance earlier in the
// same block, followed by cheaper transactions that succeed.  Victim type: any the head accepts.
func (g *genState) recipe(r *Rng, headFork int, out *[]txSpec) {
	sweep := r.Bool()
	types := []int{0, 1, 2, 3, 3}
	if headFork >= fPrague {
		types = append(types, 4)
	}
	vtyp := types[r.Intn(len(types))]
	base := aBump
	if sweep {
		base = aSweep
	}
	victim := -1
	for _, k := range []int{r.Intn(2), 0, 1} {
		if g.okType(base+k, vtyp) {
			victim = base + k
			break
		}
	}
	trig := g.freePlain(r, 2)
	if victim < 0 || trig < 0 {
		return
	}
	kind := kCallBump
	if sweep {
		kind = kCallSweep
	}
	t := g.good(r, trig, []int{0, 2, 2}[r.Intn(3)], kind, 60, 80)
	t.dataLen = (victim - base) % 2
	g.emit(out, t, 8, r)
	v := txSpec{acct: victim, typ: vtyp, kind: []int{kTransfer, kAdder, kLog, kBigData}[r.Intn(4)], authAcct: -1}
	g.mark(victim, vtyp)
	g.setGas(r, &v)
	v.tipCap = g.tip(r, 30, 50)
	v.feeCap = 3*baseFee0 + v.tipCap
	v.nonce = g.nonces[victim]
	if !sweep {
		g.nonces[victim]++ // bumped by the trigger
	}
	g.emit(out, v, 8, r)
	for i, n := 0, r.Range(1, 3); i < n; i++ {
		ftyp := []int{0, 1, 2, 2, 3}[r.Intn(5)]
		a := g.freePlain(r, ftyp)
		if a < 0 {
			continue
		}
		g.emit(out, g.good(r, a, ftyp, []int{kTransfer, kAdder, kLog, kRevert}[r.Intn(4)], 2, 20), 8, r)
	}
}

func (g *genState) randomRound(r *Rng, rd *roundSpec, headFork int, nTx int, adversarial bool) {
	for i := 0; i < nTx; i++ {
		g.emit(&rd.txs, g.randomTx(r, headFork, adversarial), nTx, r)
	}
}

func attrs(r *Rng, sc *scenario) roundSpec {
	rd := roundSpec{timeDelta: uint64(r.Range(1, 30)), slot: uint64(r.Range(1, 1000))}
	copy(rd.random[:], r.Bytes(32))
	copy(rd.beaconRoot[:], r.Bytes(32))
	if r.Chance(1, 3) {
		rd.targetGas = sc.gasLimit * uint64(r.Range(1, 4)) / 2
	}
	for i, n := 0, r.Intn(4); i < n; i++ {
		rd.wds = append(rd.wds, wdSpec{uint64(i + 5), uint64(r.Intn(100)), r.Intn(nAcct), uint64(r.Intn(1 << 20))})
	}
	return rd
}

func newScenario(r *Rng, fork int, bigBlocks bool) (*scenario, *genState) {
	sc := &scenario{fork: fork, fork2: fork}
	switch r.Intn(6) {
	case 0:
		sc.gasLimit = uint64(r.Range(30_000, 90_000))
	case 1, 2:
		sc.gasLimit = uint64(r.Range(90_000, 400_000))
	case 3, 4:
		sc.gasLimit = uint64(r.Range(400_000, 2_000_000))
	default:
		sc.gasLimit = 30_000_000
	}
	if bigBlocks && sc.gasLimit < 1_000_000 {
		sc.gasLimit = uint64(r.Range(1_000_000, 4_000_000))
	}
	sc.gasCeil = sc.gasLimit
	if r.Chance(1, 3) {
		sc.gasCeil = sc.gasLimit * uint64(r.Range(1, 3)) / 2
	}
	if sc.gasCeil < 5000 {
		sc.gasCeil = 5000
	}
	sc.minTip = uint64(r.Range(1, 3)) * 1_000_000
	if r.Chance(1, 4) {
		sc.minTip = 1
	}
	if r.Chance(1, 3) && !bigBlocks {
		sc.maxBlobsCfg = r.Range(1, 4)
	}
	if r.Chance(1, 3) {
		for i, n := 0, r.Range(1, 3); i < n; i++ {
			sc.prio = append(sc.prio, r.Intn(nAcct))
		}
	}
	return sc, &genState{sc: sc, nonces: make([]int, nAcct), blobAcct: map[int]bool{}, plainAcct: map[int]bool{}}
}

// amsterdamGuard keeps tiny Amsterdam block gas limits at a modest rate: below ~750k the
// builder can overshoot the EIP-7928 access-list size bound (items <= gasLimit/2000), which it
// never checks: known finding C36-bal-size-not-checked-by-builder (witnesses in corpus/C36).
func amsterdamGuard(r *Rng, sc *scenario) {
	if (sc.fork == fAmsterdam || sc.fork2 == fAmsterdam) && sc.gasLimit < 800_000 && !r.Chance(1, 4) {
		sc.gasLimit += 800_000
		sc.gasCeil = sc.gasLimit
	}
}

// stream 0: random pools, one or two blocks, one rule set
func genRandom(r *Rng, adversarial bool) *scenario {
	sc, g := newScenario(r, r.Intn(nForks), false)
	amsterdamGuard(r, sc)
	nr := 1
	if r.Chance(1, 3) {
		nr = 2
	}
	for i := 0; i < nr; i++ {
		rd := attrs(r, sc)
		n := r.Range(1, 14)
		if adversarial {
			n = r.Range(4, 24)
		}
		g.randomRound(r, &rd, sc.fork, n, adversarial)
		sc.rounds = append(sc.rounds, rd)
	}
	return sc
}

// stream 1: transactions that fail at application time (every transaction type, every rule
// set), followed by transactions that succeed
func genFailures(r *Rng) *scenario {
	sc, g := newScenario(r, r.Intn(nForks), true)
	nr := 1
	if r.Chance(1, 4) {
		nr = 2
	}
	for i := 0; i < nr; i++ {
		rd := attrs(r, sc)
		g.recipe(r, sc.fork, &rd.txs)
		if r.Chance(1, 2) {
			g.recipe(r, sc.fork, &rd.txs)
		}
		g.randomRound(r, &rd, sc.fork, r.Intn(5), false)
		sc.rounds = append(sc.rounds, rd)
	}
	return sc
}

// blob target / maximum per block under a rule set
func blobTargetMax(fork int) (int, int) {
	switch fork {
	case fCancun:
		return 3, 6
	case fPrague, fOsaka:
		return 6, 9
	case fBPO1:
		return 10, 15
	}
	return 14, 21
}

// stream 2: a chain across a fork boundary: a blob-carrying block under the old rules, then
// the first and the second block under the new ones.  The boundary block's pool also holds
// transactions whose gas limit is the exact minimum of the OLD rules.
func genBoundary(r *Rng) *scenario {
	from := r.Intn(nForks - 1)
	sc, g := newScenario(r, from, true)
	sc.fork2 = from + 1
	if r.Chance(1, 5) && from+2 < nForks {
		sc.fork2 = from + 2
	}
	sc.switchRound = 1
	sc.maxBlobsCfg = 0
	if sc.fork2 == fAmsterdam {
		sc.gasLimit, sc.gasCeil = 30_000_000, 30_000_000
	}
	for i := 0; i < 3; i++ {
		rd := attrs(r, sc)
		headFork := from
		if i == 2 {
			headFork = sc.fork2
		}
		if i == 0 && from < fOsaka {
			// before Osaka the pools hand the miner no blob transactions (see buildTx): the
			// blob-carrying parent is built by Miner.BuildTestingPayload from the list itself
			rd.direct = 1
		}
		// blobs: enough to reach the old target in the block before the boundary
		want := r.Range(0, 8)
		if i == 0 { // more blobs than the old target, up to the old maximum
			tgt, mx := blobTargetMax(from)
			want = r.Range(tgt, mx)
			if r.Chance(3, 4) {
				want = r.Range(tgt+1, mx)
			}
		}
		for k := 0; k < 4 && want > 0; k++ {
			a := g.freePlain(r, 3)
			if a < 0 {
				break
			}
			s := g.good(r, a, 3, kTransfer, 20, 60)
			s.nBlobs = min(want, 6)
			if k < 3 && s.nBlobs > 1 && r.Chance(1, 2) {
				s.nBlobs = r.Range(1, s.nBlobs)
			}
			want -= s.nBlobs
			s.blobFeeCap = uint64(r.Range(1000, 5000))
			g.emit(&rd.txs, s, 8, r)
		}
		if i == 1 { // minimum-gas transactions under the old rules
			for k, n := 0, r.Range(1, 3); k < n; k++ {
				typ := []int{0, 2, 3, 1}[r.Intn(4)]
				a := g.freePlain(r, typ)
				if a < 0 {
					continue
				}
				s := g.good(r, a, typ, kBigData, 30, 70)
				s.dataLen = r.Range(40, 400)
				s.tight = 1
				g.emit(&rd.txs, s, 8, r)
			}
		}
		if rd.direct == 0 {
			if r.Chance(1, 3) {
				g.recipe(r, headFork, &rd.txs)
			}
			g.randomRound(r, &rd, headFork, r.Range(1, 5), false)
		}
		sc.rounds = append(sc.rounds, rd)
	}
	return sc
}

func emitCase(sc *scenario, emit func(c Sx)) {
	s := runScenario(sc, false)
	rec := s.record()
	s.close()
	emit(L(sc.sx(), rec))
}

func gen(r *Rng, tier string, emit func(c Sx)) {
	if p := os.Getenv("C36_RECORD_FROM"); p != "" {
		// tool mode: complete hand-written scenarios (one "(scenario ())" per line) with their record
		data, err := os.ReadFile(p)
		if err != nil {
			panic(err)
		}
		for _, line := range bytes.Split(data, []byte("\n")) {
			if len(bytes.TrimSpace(line)) == 0 {
				continue
			}
			c, err := Parse(string(line))
			if err != nil {
				panic(err)
			}
			emitCase(parseScenario(asList(c)[0]), emit)
		}
		return
	}
	r = NewRng(r.U64())
	n := 24
	if tier == "thorough" {
		n = 1200
	}
	if v := os.Getenv("C36_CASES"); v != "" {
		fmt.Sscan(v, &n)
	}
	for i := 0; i < n; i++ {
		rr := r.Fork()
		var sc *scenario
		switch i % 6 {
		case 0, 3:
			sc = genRandom(rr, i%12 == 3)
		case 1, 4:
			sc = genFailures(rr)
		default:
			sc = genBoundary(rr)
		}
		emitCase(sc, emit)
	}
}

func main() {
	Main(Family{
		ID: "C36",
		Rule: "case = (scenario, record). scenario: rule set at genesis in {Cancun, Prague, Osaka, BPO1, BPO2, Amsterdam}, optionally a later rule " +
			"set activating at the block time of a given round (fork boundary incl. blob-schedule changes), block gas limit 30k..30M, miner min tip / " +
			"blob cap / prioritised senders, 1-3 rounds (blocks built one on another), each with payload attributes (0-3 withdrawals, beacon root, " +
			"random, slot, target gas limit) and transaction specs over 12 funded senders (4 with a genesis EIP-7702 delegation whose nonce / balance " +
			"other senders can move): legacy, access-list, dynamic-fee, blob (1-6 blobs, v0/v1 sidecars), set-code; transfers, storage writes, " +
			"reverts, out-of-gas, creates, logs, calldata floors, gas limits above the block limit, nonce gaps, replacements, fee caps / tips around " +
			"base fee and miner tip. Three streams: random pools (every 12th adversarial: pool-invalid txs, set-code before Prague); failure recipes " +
			"(a well-paid trigger makes a later tx of ANY type - legacy/2930/1559/blob/7702 - fail at application time as nonce-too-low or " +
			"insufficient-funds, followed by cheaper txs that succeed; every rule set); fork boundaries (blob-heavy block under the old rules so " +
			"excess blob gas matters, then the first and second block under the new rules, with txs carrying the exact minimum gas of the OLD rules " +
			"that fail intrinsic/floor checks under the new ones). The record (per round: pending maps served by the real pools, tx metadata, fork and " +
			"blob schedule with the parent's blob fields, table of per-(position,tx) ApplyTransaction outcomes from a shadow replay) is recomputed by " +
			"Run and must reproduce. Non-trivial: some round includes >= 2 transactions and (leaves a pending tx out, or reverts an attempted tx out " +
			"of the block, or has a failed receipt, or includes blobs).",
		Gen:         gen,
		Run:         runCase,
		CaseTimeout: 600 * time.Second,
	})
}
