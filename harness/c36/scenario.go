package main

import (
	"math/big"
	"time"

	"github.com/ethereum/go-ethereum/common"
	"github.com/ethereum/go-ethereum/core"
	"github.com/ethereum/go-ethereum/core/types"
	"github.com/ethereum/go-ethereum/crypto/kzg4844"
	"github.com/ethereum/go-ethereum/params"
	"github.com/holiman/uint256"

	. "gethverif/harness/hxlib"
)

// ---------------------------------------------------------------- scenario

type txSpec struct {
	acct, nonce, typ, kind int
	gas                    uint64 // tight != 0: replaced by the exact minimum the pool's head rules accept
	feeCap, tipCap         uint64 // wei
	value                  uint64
	dataLen, nBlobs        int // kCallBump / kCallSweep: dataLen%2 selects the delegated callee
	blobFeeCap             uint64
	timeRank               int
	authAcct, authNonce    int // set-code transactions: authority account / nonce (authAcct<0: none)
	tight                  int
}

type wdSpec struct {
	index, validator uint64
	acct             int
	amount           uint64
}

type roundSpec struct {
	timeDelta          uint64
	random, beaconRoot common.Hash
	slot               uint64
	targetGas          uint64 // 0 = nil
	wds                []wdSpec
	txs                []txSpec
	direct             int // != 0: the block is built by Miner.BuildTestingPayload from exactly these txs (no pools)
}

type scenario struct {
	fork, fork2       int // rule set at genesis; rule sets up to fork2 activate at the time of round [switchRound]'s block
	switchRound       int
	gasLimit, gasCeil uint64
	minTip            uint64
	maxBlobsCfg       int
	prio              []int
	rounds            []roundSpec
}

const (
	kTransfer = iota
	kAdder
	kRevert
	kBurn
	kCreate
	kCallBump
	kCallSweep
	kLog
	kBigData
	nKinds
)

// block time of round r and the activation time of the later rule sets
func (sc *scenario) timeOf(r int) uint64 {
	t := uint64(genTime)
	for i := 0; i <= r && i < len(sc.rounds); i++ {
		t += sc.rounds[i].timeDelta
	}
	return t
}

func (sc *scenario) config() *params.ChainConfig {
	if sc.fork2 <= sc.fork || sc.switchRound >= len(sc.rounds) {
		return chainConfig(sc.fork, sc.fork, 0)
	}
	return chainConfig(sc.fork, sc.fork2, sc.timeOf(sc.switchRound))
}

// forkAt: the rule set id in force at block time t
func (sc *scenario) forkAt(cfg *params.ChainConfig, t uint64) int {
	n := common.Big1
	switch {
	case cfg.IsAmsterdam(n, t):
		return fAmsterdam
	case cfg.BPO2Time != nil && *cfg.BPO2Time <= t:
		return fBPO2
	case cfg.BPO1Time != nil && *cfg.BPO1Time <= t:
		return fBPO1
	case cfg.IsOsaka(n, t):
		return fOsaka
	case cfg.IsPrague(n, t):
		return fPrague
	}
	return fCancun
}

func (s txSpec) sx() Sx {
	return L(I(int64(s.acct)), I(int64(s.nonce)), I(int64(s.typ)), I(int64(s.kind)), U(s.gas), U(s.feeCap), U(s.tipCap), U(s.value),
		I(int64(s.dataLen)), I(int64(s.nBlobs)), U(s.blobFeeCap), I(int64(s.timeRank)), I(int64(s.authAcct)), I(int64(s.authNonce)), I(int64(s.tight)))
}

func (sc *scenario) sx() Sx {
	prio, rounds := SL{}, SL{}
	for _, p := range sc.prio {
		prio = append(prio, I(int64(p)))
	}
	for _, rd := range sc.rounds {
		wds, txs := SL{}, SL{}
		for _, w := range rd.wds {
			wds = append(wds, L(U(w.index), U(w.validator), I(int64(w.acct)), U(w.amount)))
		}
		for _, t := range rd.txs {
			txs = append(txs, t.sx())
		}
		rounds = append(rounds, L(U(rd.timeDelta), B(rd.random[:]), B(rd.beaconRoot[:]), U(rd.slot), U(rd.targetGas), wds, txs, I(int64(rd.direct))))
	}
	return L(I(int64(sc.fork)), I(int64(sc.fork2)), I(int64(sc.switchRound)), U(sc.gasLimit), U(sc.gasCeil), U(sc.minTip),
		I(int64(sc.maxBlobsCfg)), prio, rounds)
}

func asInt(s Sx) int {
	v, ok := s.(SI)
	if !ok || !v.V.IsInt64() {
		panic("hxlib: expected small integer")
	}
	return int(v.V.Int64())
}
func asU64(s Sx) uint64 {
	v, ok := s.(SI)
	if !ok || !v.V.IsUint64() {
		panic("hxlib: expected uint64")
	}
	return v.V.Uint64()
}
func asList(s Sx) SL {
	v, ok := s.(SL)
	if !ok {
		panic("hxlib: expected list")
	}
	return v
}
func asHash(s Sx) common.Hash {
	v, ok := s.(SB)
	if !ok {
		panic("hxlib: expected bytes")
	}
	return common.BytesToHash(v)
}
func clampAcct(a int) int {
	if a < 0 || a >= nAcct {
		panic("hxlib: account index out of range")
	}
	return a
}

func parseScenario(s Sx) *scenario {
	l := asList(s)
	if len(l) != 9 {
		panic("hxlib: scenario shape")
	}
	sc := &scenario{fork: asInt(l[0]), fork2: asInt(l[1]), switchRound: asInt(l[2]), gasLimit: asU64(l[3]), gasCeil: asU64(l[4]),
		minTip: asU64(l[5]), maxBlobsCfg: asInt(l[6])}
	if sc.fork < 0 || sc.fork >= nForks || sc.fork2 < 0 || sc.fork2 >= nForks || sc.switchRound < 0 || sc.switchRound > 8 ||
		sc.gasLimit < 5000 || sc.gasLimit > 1<<40 || sc.maxBlobsCfg < 0 {
		panic("hxlib: scenario range")
	}
	for _, p := range asList(l[7]) {
		sc.prio = append(sc.prio, clampAcct(asInt(p)))
	}
	rl := asList(l[8])
	if len(rl) < 1 || len(rl) > 6 {
		panic("hxlib: rounds range")
	}
	for _, rs := range rl {
		r := asList(rs)
		if len(r) != 8 {
			panic("hxlib: round shape")
		}
		rd := roundSpec{timeDelta: asU64(r[0]), random: asHash(r[1]), beaconRoot: asHash(r[2]), slot: asU64(r[3]), targetGas: asU64(r[4]), direct: asInt(r[7])}
		if rd.timeDelta == 0 || rd.timeDelta > 1<<20 {
			panic("hxlib: round range")
		}
		for _, w := range asList(r[5]) {
			wl := asList(w)
			if len(wl) != 4 {
				panic("hxlib: withdrawal shape")
			}
			rd.wds = append(rd.wds, wdSpec{asU64(wl[0]), asU64(wl[1]), clampAcct(asInt(wl[2])), asU64(wl[3])})
		}
		for _, t := range asList(r[6]) {
			tl := asList(t)
			if len(tl) != 15 {
				panic("hxlib: tx shape")
			}
			ts := txSpec{acct: clampAcct(asInt(tl[0])), nonce: asInt(tl[1]), typ: asInt(tl[2]), kind: asInt(tl[3]), gas: asU64(tl[4]),
				feeCap: asU64(tl[5]), tipCap: asU64(tl[6]), value: asU64(tl[7]), dataLen: asInt(tl[8]), nBlobs: asInt(tl[9]),
				blobFeeCap: asU64(tl[10]), timeRank: asInt(tl[11]), authAcct: asInt(tl[12]), authNonce: asInt(tl[13]), tight: asInt(tl[14])}
			if ts.nonce < 0 || ts.typ < 0 || ts.typ > 4 || ts.kind < 0 || ts.kind >= nKinds || ts.dataLen < 0 || ts.dataLen > 100000 ||
				ts.nBlobs < 0 || ts.nBlobs > 6 || ts.timeRank < 0 || ts.timeRank > 1<<20 || ts.authAcct >= nAcct || ts.authNonce < 0 {
				panic("hxlib: tx range")
			}
			rd.txs = append(rd.txs, ts)
		}
		sc.rounds = append(sc.rounds, rd)
	}
	return sc
}

// buildTx makes the transaction of spec [s] with global id [id]; [headFork]/[headRules] are
// the rules of the pool's head block (sidecar version, tight gas).
func buildTx(cfg *params.ChainConfig, headFork int, headRules params.Rules, id int, s txSpec) *types.Transaction {
	var (
		to    *common.Address
		data  []byte
		value = new(big.Int).SetUint64(s.value)
	)
	word := func(v byte) []byte { b := make([]byte, 32); b[31] = v; return b }
	switch s.kind {
	case kTransfer:
		a := addrs[(s.acct+1+id)%nPlain]
		to = &a
	case kAdder:
		to, data = &adderC, word(byte(id%5))
	case kRevert:
		to = &revertC
	case kBurn:
		to = &burnC
	case kCreate:
		to, data = nil, createInit
	case kCallBump:
		to = &addrs[aBump+s.dataLen%2]
	case kCallSweep:
		to = &addrs[aSweep+s.dataLen%2]
	case kLog:
		to, data = &logC, word(byte(id))
	case kBigData:
		to = &sink
		data = make([]byte, s.dataLen)
		for i := range data {
			data[i] = byte(i*7 + id)
		}
	}
	if (s.typ == 3 || s.typ == 4) && to == nil {
		to, data = &sink, nil
	}
	var (
		al    types.AccessList
		auths []types.SetCodeAuthorization
	)
	if s.typ == 1 {
		al = types.AccessList{{Address: adderC, StorageKeys: []common.Hash{{31: 1}}}}
	}
	if s.typ == 4 && s.authAcct >= 0 {
		a, err := types.SignSetCode(keys[s.authAcct], types.SetCodeAuthorization{ChainID: *uint256.MustFromBig(cfg.ChainID), Address: adderC, Nonce: uint64(s.authNonce)})
		if err != nil {
			panic(err)
		}
		auths = append(auths, a)
	}
	gas := s.gas
	if s.tight != 0 {
		// the smallest gas limit the pool (rules of its head block) accepts
		v := uint256.MustFromBig(value)
		ig, err := core.IntrinsicGas(data, al, auths, addrs[s.acct], to, v, headRules)
		if err == nil {
			gas = ig
			if headRules.IsPrague {
				if fg, err := core.FloorDataGas(headRules, addrs[s.acct], to, v, data, al); err == nil && fg > gas {
					gas = fg
				}
			}
		}
	}
	fee, tip := new(big.Int).SetUint64(s.feeCap), new(big.Int).SetUint64(s.tipCap)
	var inner types.TxData
	switch s.typ {
	case 0:
		inner = &types.LegacyTx{Nonce: uint64(s.nonce), To: to, Value: value, Gas: gas, GasPrice: fee, Data: data}
	case 1:
		inner = &types.AccessListTx{ChainID: cfg.ChainID, Nonce: uint64(s.nonce), To: to, Value: value, Gas: gas, GasPrice: fee, Data: data, AccessList: al}
	case 2:
		inner = &types.DynamicFeeTx{ChainID: cfg.ChainID, Nonce: uint64(s.nonce), To: to, Value: value, Gas: gas, GasFeeCap: fee, GasTipCap: tip, Data: data}
	case 3:
		initBlobs()
		n := s.nBlobs
		if n < 1 {
			n = 1
		}
		var (
			bs []kzg4844.Blob
			cs []kzg4844.Commitment
			ps []kzg4844.Proof
		)
		// this blobpool only admits cell-proof (v1) sidecars, whatever the head's rules; before
		// Osaka the miner asks it for v0 ones, so such txs wait in the pool for the first Osaka block
		version := types.BlobSidecarVersion1
		_ = headFork
		for i := 0; i < n; i++ {
			j := (id + i) % nBlobs
			bs, cs = append(bs, blobs[j]), append(cs, commits[j])
			if version == types.BlobSidecarVersion0 {
				ps = append(ps, proofsV0[j])
			} else {
				ps = append(ps, proofsV1[j]...)
			}
		}
		sc := types.NewBlobTxSidecar(version, bs, cs, ps)
		inner = &types.BlobTx{ChainID: uint256.MustFromBig(cfg.ChainID), Nonce: uint64(s.nonce), To: *to, Value: uint256.MustFromBig(value), Gas: gas,
			GasFeeCap: uint256.MustFromBig(fee), GasTipCap: uint256.MustFromBig(tip), Data: data,
			BlobFeeCap: uint256.NewInt(s.blobFeeCap), BlobHashes: sc.BlobHashes(), Sidecar: sc}
	case 4:
		inner = &types.SetCodeTx{ChainID: uint256.MustFromBig(cfg.ChainID), Nonce: uint64(s.nonce), To: *to, Value: uint256.MustFromBig(value), Gas: gas,
			GasFeeCap: uint256.MustFromBig(fee), GasTipCap: uint256.MustFromBig(tip), Data: data, AuthList: auths}
	}
	tx, err := types.SignNewTx(keys[s.acct], types.LatestSignerForChainID(cfg.ChainID), inner)
	if err != nil {
		panic(err)
	}
	tx.SetTime(time.Unix(1_700_000_000+int64(s.timeRank), int64(id)))
	return tx
}
