// Family c36: blocks built locally are valid blocks (miner/worker.go, miner/payload_building.go,
// core/state_processor.go, core/block_validator.go, eth/catalyst/api.go) vs coq/EVM/Build.v.
//
// A case is (scenario, record).  The scenario is explicit: fork, block gas limit, miner
// configuration, payload attributes (withdrawals, beacon root, random, slot, target gas limit),
// prioritised senders and a list of transaction specs over a fixed genesis (plain EOAs, two
// EOAs that carry an EIP-7702 delegation in genesis, helper contracts).  Run rebuilds a real
// core.BlockChain, a real legacypool + blobpool behind txpool.TxPool and a real miner.Miner,
// fills the pools, calls Miner.BuildPayload and resolves the FULL payload, then imports the
// block (a) into a fresh core.BlockChain with InsertChain and (b) through
// catalyst.NewConsensusAPI(...).NewPayloadV3/V4/V5 of a fresh eth.Ethereum.
//
// The record (computed by Gen by running the same code once, and recomputed + compared by
// Run) is everything the Coq model replays: the two pending maps the pools serve to the
// miner, per-transaction metadata, and the table of per-(position, tx) outcomes of
// core.ApplyTransaction, obtained by replaying the miner's attempts (included transactions +
// Payload.FullBlockAndReceipts' reverted list) on a shadow environment.
package main

import (
	"bytes"
	"context"
	"crypto/ecdsa"
	"errors"
	"fmt"
	"math/big"
	"os"
	"sort"
	"sync"
	"time"

	"github.com/ethereum/go-ethereum/beacon/engine"
	"github.com/ethereum/go-ethereum/common"
	"github.com/ethereum/go-ethereum/common/hexutil"
	"github.com/ethereum/go-ethereum/consensus/beacon"
	"github.com/ethereum/go-ethereum/consensus/ethash"
	"github.com/ethereum/go-ethereum/consensus/misc/eip1559"
	"github.com/ethereum/go-ethereum/consensus/misc/eip4844"
	"github.com/ethereum/go-ethereum/core"
	"github.com/ethereum/go-ethereum/core/rawdb"
	"github.com/ethereum/go-ethereum/core/txpool"
	"github.com/ethereum/go-ethereum/core/txpool/blobpool"
	"github.com/ethereum/go-ethereum/core/txpool/legacypool"
	"github.com/ethereum/go-ethereum/core/types"
	"github.com/ethereum/go-ethereum/core/vm"
	"github.com/ethereum/go-ethereum/crypto"
	"github.com/ethereum/go-ethereum/crypto/kzg4844"
	"github.com/ethereum/go-ethereum/eth"
	"github.com/ethereum/go-ethereum/eth/catalyst"
	"github.com/ethereum/go-ethereum/eth/ethconfig"
	"github.com/ethereum/go-ethereum/miner"
	"github.com/ethereum/go-ethereum/node"
	"github.com/ethereum/go-ethereum/p2p"
	"github.com/ethereum/go-ethereum/params"
	"github.com/ethereum/go-ethereum/trie"
	"github.com/holiman/uint256"

	. "gethverif/harness/hxlib"
)

// ---------------------------------------------------------------- fixed world

const (
	nPlain = 8  // accounts 0..7: plain EOAs
	aBump  = 8  // EOA delegated (in genesis) to bumpC: any call to it bumps ITS nonce (CREATE)
	aSweep = 9  // EOA delegated (in genesis) to sweepC: any call to it sends its balance away
	nAcct  = 10 // accounts with keys
	genTime = 9000
)

const (
	fCancun = iota
	fPrague
	fOsaka
	fBPO1
	fAmsterdam
	nForks
)

var (
	keys  []*ecdsa.PrivateKey
	addrs []common.Address

	coinbase = common.HexToAddress("0xc01babe000000000000000000000000000000001")
	sink     = common.HexToAddress("0x5199000000000000000000000000000000000009")
	adderC   = common.HexToAddress("0xadde000000000000000000000000000000000001")
	revertC  = common.HexToAddress("0x4e7e000000000000000000000000000000000002")
	burnC    = common.HexToAddress("0xb042000000000000000000000000000000000003")
	logC     = common.HexToAddress("0x1099000000000000000000000000000000000004")
	bumpC    = common.HexToAddress("0xb09b000000000000000000000000000000000005")
	sweepC   = common.HexToAddress("0x59ee000000000000000000000000000000000006")

	// sstore(calldata[0], sload(calldata[0]) + 1)
	adderCode = []byte{0x5f, 0x35, 0x80, 0x54, 0x60, 0x01, 0x01, 0x90, 0x55, 0x00}
	// sstore(0,1); revert(0,0)
	revertCode = []byte{0x60, 0x01, 0x5f, 0x55, 0x5f, 0x5f, 0xfd}
	// jumpdest; push0; jump  (burns all gas)
	burnCode = []byte{0x5b, 0x5f, 0x56}
	// log1(0, 0, calldata[0]); stop
	logCode = []byte{0x5f, 0x35, 0x5f, 0x5f, 0xa1, 0x00}
	// create(0,0,0); stop  -- executed in the context of the delegating EOA: nonce+1
	bumpCode = []byte{0x5f, 0x5f, 0x5f, 0xf0, 0x00}
	// call(gas, sink, selfbalance, 0,0,0,0); stop
	sweepCode = append(append([]byte{0x5f, 0x5f, 0x5f, 0x5f, 0x47, 0x73}, sink.Bytes()...), 0x5a, 0xf1, 0x00)
	// init code of a top-level create: sstore(1,0x42); return 1 byte [STOP]
	createInit = []byte{0x60, 0x42, 0x60, 0x01, 0x55, 0x5f, 0x5f, 0x53, 0x60, 0x01, 0x5f, 0xf3}

	blobOnce sync.Once
	blobs    []kzg4844.Blob
	commits  []kzg4844.Commitment
	proofsV0 []kzg4844.Proof
	proofsV1 [][]kzg4844.Proof
)

func init() {
	for i := 0; i < nAcct; i++ {
		var b [32]byte
		b[0], b[31] = 0xc3, byte(i+1)
		b[15] = 0x36
		k, err := crypto.ToECDSA(b[:])
		if err != nil {
			panic(err)
		}
		keys = append(keys, k)
		addrs = append(addrs, crypto.PubkeyToAddress(k.PublicKey))
	}
}

const nBlobs = 2

func initBlobs() {
	blobOnce.Do(func() {
		for i := 0; i < nBlobs; i++ {
			var b kzg4844.Blob
			for j := 0; j < 8; j++ {
				b[j*32+1] = byte(i + 1)
				b[j*32+31] = byte(j + 7*i)
			}
			c, err := kzg4844.BlobToCommitment(&b)
			if err != nil {
				panic(err)
			}
			p, err := kzg4844.ComputeBlobProof(&b, c)
			if err != nil {
				panic(err)
			}
			cp, err := kzg4844.ComputeCellProofs(&b)
			if err != nil {
				panic(err)
			}
			blobs, commits, proofsV0, proofsV1 = append(blobs, b), append(commits, c), append(proofsV0, p), append(proofsV1, cp)
		}
	})
}

func u64p(v uint64) *uint64 { return &v }

func chainConfig(fork int) *params.ChainConfig {
	c := *params.MergedTestChainConfig
	c.ChainID = big.NewInt(1337)
	c.ShanghaiTime, c.CancunTime = u64p(0), u64p(0)
	c.PragueTime, c.OsakaTime, c.BPO1Time, c.AmsterdamTime = nil, nil, nil, nil
	c.BlobScheduleConfig = &params.BlobScheduleConfig{Cancun: params.DefaultCancunBlobConfig, Prague: params.DefaultPragueBlobConfig,
		BPO1: params.DefaultBPO1BlobConfig}
	if fork >= fPrague {
		c.PragueTime = u64p(0)
	}
	if fork >= fOsaka {
		c.OsakaTime = u64p(0)
	}
	if fork == fBPO1 {
		c.BPO1Time = u64p(0)
	}
	if fork == fAmsterdam {
		c.AmsterdamTime = u64p(0)
	}
	return &c
}

func delegation(to common.Address) []byte { return types.AddressToDelegation(to) }

func genesis(fork int, gasLimit uint64) *core.Genesis {
	rich := new(big.Int).Mul(big.NewInt(1000), big.NewInt(params.Ether))
	alloc := types.GenesisAlloc{
		adderC:  {Balance: common.Big0, Code: adderCode},
		revertC: {Balance: common.Big0, Code: revertCode},
		burnC:   {Balance: common.Big0, Code: burnCode},
		logC:    {Balance: common.Big0, Code: logCode},
		bumpC:   {Balance: common.Big0, Code: bumpCode},
		sweepC:  {Balance: common.Big0, Code: sweepCode},

		params.BeaconRootsAddress:          {Nonce: 1, Code: params.BeaconRootsCode, Balance: common.Big0},
		params.HistoryStorageAddress:       {Nonce: 1, Code: params.HistoryStorageCode, Balance: common.Big0},
		params.WithdrawalQueueAddress:      {Nonce: 1, Code: params.WithdrawalQueueCode, Balance: common.Big0},
		params.ConsolidationQueueAddress:   {Nonce: 1, Code: params.ConsolidationQueueCode, Balance: common.Big0},
		params.BuilderDepositAddress:       {Nonce: 1, Code: params.BuilderDepositCode, Balance: common.Big0},
		params.BuilderExitAddress:          {Nonce: 1, Code: params.BuilderExitCode, Balance: common.Big0},
		params.DeterministicFactoryAddress: {Nonce: 1, Code: params.DeterministicFactoryCode, Balance: common.Big0},
	}
	for i := 0; i < nAcct; i++ {
		acc := types.Account{Balance: rich}
		if i == aBump {
			acc.Code = delegation(bumpC)
		}
		if i == aSweep {
			acc.Code = delegation(sweepC)
		}
		alloc[addrs[i]] = acc
	}
	return &core.Genesis{
		Config:     chainConfig(fork),
		Alloc:      alloc,
		ExtraData:  []byte("c36 genesis"),
		Timestamp:  genTime,
		GasLimit:   gasLimit,
		BaseFee:    big.NewInt(params.InitialBaseFee),
		Difficulty: big.NewInt(0),
	}
}

// ---------------------------------------------------------------- scenario

type txSpec struct {
	acct, nonce, typ, kind   int
	gas                      uint64
	feeCap, tipCap           uint64 // wei
	value                    uint64
	dataLen, nBlobs          int
	blobFeeCap               uint64
	timeRank                 int
	authAcct, authNonce      int // set-code transactions: authority account / nonce (authAcct<0: none)
}

type wdSpec struct {
	index, validator uint64
	acct             int
	amount           uint64
}

type scenario struct {
	fork                int
	gasLimit, gasCeil   uint64
	minTip              uint64
	maxBlobsCfg         int
	timeDelta           uint64
	random, beaconRoot  common.Hash
	slot                uint64
	targetGas           uint64 // 0 = nil
	wds                 []wdSpec
	prio                []int
	txs                 []txSpec
}

const (
	kTransfer = iota
	kAdder
	kRevert
	kBurn
	kCreate
	kCallBump
	kCallSweep
	kLog
	kBigData
	nKinds
)

func (s txSpec) sx() Sx {
	return L(I(int64(s.acct)), I(int64(s.nonce)), I(int64(s.typ)), I(int64(s.kind)), U(s.gas), U(s.feeCap), U(s.tipCap), U(s.value),
		I(int64(s.dataLen)), I(int64(s.nBlobs)), U(s.blobFeeCap), I(int64(s.timeRank)), I(int64(s.authAcct)), I(int64(s.authNonce)))
}

func (sc *scenario) sx() Sx {
	var wds, prio, txs SL
	wds, prio, txs = SL{}, SL{}, SL{}
	for _, w := range sc.wds {
		wds = append(wds, L(U(w.index), U(w.validator), I(int64(w.acct)), U(w.amount)))
	}
	for _, p := range sc.prio {
		prio = append(prio, I(int64(p)))
	}
	for _, t := range sc.txs {
		txs = append(txs, t.sx())
	}
	return L(I(int64(sc.fork)), U(sc.gasLimit), U(sc.gasCeil), U(sc.minTip), I(int64(sc.maxBlobsCfg)), U(sc.timeDelta),
		B(sc.random[:]), B(sc.beaconRoot[:]), U(sc.slot), U(sc.targetGas), wds, prio, txs)
}

func asInt(s Sx) int {
	v, ok := s.(SI)
	if !ok || !v.V.IsInt64() {
		panic("hxlib: expected small integer")
	}
	return int(v.V.Int64())
}
func asU64(s Sx) uint64 {
	v, ok := s.(SI)
	if !ok || !v.V.IsUint64() {
		panic("hxlib: expected uint64")
	}
	return v.V.Uint64()
}
func asList(s Sx) SL {
	v, ok := s.(SL)
	if !ok {
		panic("hxlib: expected list")
	}
	return v
}
func asHash(s Sx) common.Hash {
	v, ok := s.(SB)
	if !ok {
		panic("hxlib: expected bytes")
	}
	return common.BytesToHash(v)
}
func clampAcct(a int) int {
	if a < 0 || a >= nAcct {
		panic("hxlib: account index out of range")
	}
	return a
}

func parseScenario(s Sx) *scenario {
	l := asList(s)
	if len(l) != 13 {
		panic("hxlib: scenario shape")
	}
	sc := &scenario{fork: asInt(l[0]), gasLimit: asU64(l[1]), gasCeil: asU64(l[2]), minTip: asU64(l[3]), maxBlobsCfg: asInt(l[4]),
		timeDelta: asU64(l[5]), random: asHash(l[6]), beaconRoot: asHash(l[7]), slot: asU64(l[8]), targetGas: asU64(l[9])}
	if sc.fork < 0 || sc.fork >= nForks || sc.gasLimit < 5000 || sc.gasLimit > 1<<40 || sc.timeDelta == 0 || sc.timeDelta > 1<<20 || sc.maxBlobsCfg < 0 {
		panic("hxlib: scenario range")
	}
	for _, w := range asList(l[10]) {
		wl := asList(w)
		if len(wl) != 4 {
			panic("hxlib: withdrawal shape")
		}
		sc.wds = append(sc.wds, wdSpec{asU64(wl[0]), asU64(wl[1]), clampAcct(asInt(wl[2])), asU64(wl[3])})
	}
	for _, p := range asList(l[11]) {
		sc.prio = append(sc.prio, clampAcct(asInt(p)))
	}
	for _, t := range asList(l[12]) {
		tl := asList(t)
		if len(tl) != 14 {
			panic("hxlib: tx shape")
		}
		ts := txSpec{acct: clampAcct(asInt(tl[0])), nonce: asInt(tl[1]), typ: asInt(tl[2]), kind: asInt(tl[3]), gas: asU64(tl[4]),
			feeCap: asU64(tl[5]), tipCap: asU64(tl[6]), value: asU64(tl[7]), dataLen: asInt(tl[8]), nBlobs: asInt(tl[9]),
			blobFeeCap: asU64(tl[10]), timeRank: asInt(tl[11]), authAcct: asInt(tl[12]), authNonce: asInt(tl[13])}
		if ts.nonce < 0 || ts.typ < 0 || ts.typ > 4 || ts.kind < 0 || ts.kind >= nKinds || ts.dataLen < 0 || ts.dataLen > 100000 ||
			ts.nBlobs < 0 || ts.nBlobs > 6 || ts.timeRank < 0 || ts.timeRank > 1<<20 || ts.authAcct >= nAcct || ts.authNonce < 0 {
			panic("hxlib: tx range")
		}
		sc.txs = append(sc.txs, ts)
	}
	return sc
}

func buildTx(cfg *params.ChainConfig, fork int, id int, s txSpec) *types.Transaction {
	var (
		to    *common.Address
		data  []byte
		value = new(big.Int).SetUint64(s.value)
	)
	word := func(v byte) []byte { b := make([]byte, 32); b[31] = v; return b }
	switch s.kind {
	case kTransfer:
		a := addrs[(s.acct+1+id)%nPlain]
		to = &a
	case kAdder:
		to, data = &adderC, word(byte(id%5))
	case kRevert:
		to = &revertC
	case kBurn:
		to = &burnC
	case kCreate:
		to, data = nil, createInit
	case kCallBump:
		to = &addrs[aBump]
	case kCallSweep:
		to = &addrs[aSweep]
	case kLog:
		to, data = &logC, word(byte(id))
	case kBigData:
		to = &sink
		data = make([]byte, s.dataLen)
		for i := range data {
			data[i] = byte(i*7 + id)
		}
	}
	fee, tip := new(big.Int).SetUint64(s.feeCap), new(big.Int).SetUint64(s.tipCap)
	var inner types.TxData
	switch s.typ {
	case 0:
		inner = &types.LegacyTx{Nonce: uint64(s.nonce), To: to, Value: value, Gas: s.gas, GasPrice: fee, Data: data}
	case 1:
		inner = &types.AccessListTx{ChainID: cfg.ChainID, Nonce: uint64(s.nonce), To: to, Value: value, Gas: s.gas, GasPrice: fee, Data: data,
			AccessList: types.AccessList{{Address: adderC, StorageKeys: []common.Hash{{31: 1}}}}}
	case 2:
		inner = &types.DynamicFeeTx{ChainID: cfg.ChainID, Nonce: uint64(s.nonce), To: to, Value: value, Gas: s.gas, GasFeeCap: fee, GasTipCap: tip, Data: data}
	case 3:
		initBlobs()
		if to == nil {
			to = &sink
		}
		n := s.nBlobs
		if n < 1 {
			n = 1
		}
		var (
			bs []kzg4844.Blob
			cs []kzg4844.Commitment
			ps []kzg4844.Proof
		)
		version := types.BlobSidecarVersion0
		if fork >= fOsaka {
			version = types.BlobSidecarVersion1
		}
		for i := 0; i < n; i++ {
			j := (id + i) % nBlobs
			bs, cs = append(bs, blobs[j]), append(cs, commits[j])
			if version == types.BlobSidecarVersion0 {
				ps = append(ps, proofsV0[j])
			} else {
				ps = append(ps, proofsV1[j]...)
			}
		}
		sc := types.NewBlobTxSidecar(version, bs, cs, ps)
		inner = &types.BlobTx{ChainID: uint256.MustFromBig(cfg.ChainID), Nonce: uint64(s.nonce), To: *to, Value: uint256.MustFromBig(value), Gas: s.gas,
			GasFeeCap: uint256.MustFromBig(fee), GasTipCap: uint256.MustFromBig(tip), Data: data,
			BlobFeeCap: uint256.NewInt(s.blobFeeCap), BlobHashes: sc.BlobHashes(), Sidecar: sc}
	case 4:
		if to == nil {
			to = &sink
		}
		var auths []types.SetCodeAuthorization
		if s.authAcct >= 0 {
			a, err := types.SignSetCode(keys[s.authAcct], types.SetCodeAuthorization{ChainID: *uint256.MustFromBig(cfg.ChainID), Address: adderC, Nonce: uint64(s.authNonce)})
			if err != nil {
				panic(err)
			}
			auths = append(auths, a)
		}
		inner = &types.SetCodeTx{ChainID: uint256.MustFromBig(cfg.ChainID), Nonce: uint64(s.nonce), To: *to, Value: uint256.MustFromBig(value), Gas: s.gas,
			GasFeeCap: uint256.MustFromBig(fee), GasTipCap: uint256.MustFromBig(tip), Data: data, AuthList: auths}
	}
	tx, err := types.SignNewTx(keys[s.acct], types.LatestSignerForChainID(cfg.ChainID), inner)
	if err != nil {
		panic(err)
	}
	tx.SetTime(time.Unix(1_700_000_000+int64(s.timeRank), int64(id)))
	return tx
}

// ---------------------------------------------------------------- builder world

type backend struct {
	chain *core.BlockChain
	pool  *txpool.TxPool
}

func (b *backend) BlockChain() *core.BlockChain { return b.chain }
func (b *backend) TxPool() *txpool.TxPool       { return b.pool }

func newChain(gspec *core.Genesis) *core.BlockChain {
	opts := &core.BlockChainConfig{TrieCleanLimit: 0, TrieDirtyLimit: 16, TrieTimeLimit: 5 * time.Minute, SnapshotLimit: 0,
		ArchiveMode: true, StateScheme: rawdb.HashScheme, NoPrefetch: true}
	chain, err := core.NewBlockChain(rawdb.NewMemoryDatabase(), gspec, beacon.New(ethash.NewFaker()), opts)
	if err != nil {
		panic(fmt.Sprintf("NewBlockChain: %v", err))
	}
	return chain
}

var tmpRoot = func() string {
	if st, err := os.Stat("/dev/shm"); err == nil && st.IsDir() {
		return "/dev/shm"
	}
	return ""
}()

// the run of the real builder and what it produced
type built struct {
	sc       *scenario
	cfg      *params.ChainConfig
	gspec    *core.Genesis
	txs      []*types.Transaction // by id
	byHash   map[common.Hash]int
	addErrs  int
	pendPlain, pendBlob map[common.Address][]*txpool.LazyTransaction
	parent   *types.Header
	block    *types.Block
	receipts []*types.Receipt
	reverted []*types.Transaction
	revIdx   []uint32
	envelope *engine.ExecutionPayloadEnvelope
	empty    *engine.ExecutionPayloadEnvelope
	table    []tableRow
	replayErr string
	buildErr error
	maxBlobs int
	baseFee  *big.Int
}

type tableRow struct {
	pos, id, class int
	a, b, c        uint64
}

const (
	cOk = iota
	cNonceTooLow
	cNonceTooHigh
	cGasLimitReached
	cTxTypeNotSupported
	cOtherPre
	cOtherPost
)

func classify(err error) int {
	switch {
	case err == nil:
		return cOk
	case errors.Is(err, core.ErrNonceTooLow):
		return cNonceTooLow
	case errors.Is(err, core.ErrNonceTooHigh):
		return cNonceTooHigh
	case errors.Is(err, core.ErrGasLimitReached):
		return cGasLimitReached
	case errors.Is(err, core.ErrTxTypeNotSupported):
		return cTxTypeNotSupported
	case errors.Is(err, core.ErrInsufficientFunds), errors.Is(err, core.ErrIntrinsicGas), errors.Is(err, core.ErrFloorDataGas):
		return cOtherPost
	default:
		return cOtherPre
	}
}

func (bt *scenario) args(parent *types.Header) *miner.BuildPayloadArgs {
	a := &miner.BuildPayloadArgs{Parent: parent.Hash(), Timestamp: parent.Time + bt.timeDelta, FeeRecipient: coinbase, Random: bt.random,
		Withdrawals: types.Withdrawals{}, BeaconRoot: &bt.beaconRoot, Version: engine.PayloadV3}
	for _, w := range bt.wds {
		a.Withdrawals = append(a.Withdrawals, &types.Withdrawal{Index: w.index, Validator: w.validator, Address: addrs[w.acct], Amount: w.amount})
	}
	if bt.fork == fAmsterdam {
		a.SlotNum = u64p(bt.slot)
		if bt.targetGas != 0 {
			a.TargetGasLimit = u64p(bt.targetGas)
		}
	}
	return a
}

// build runs the real pools and miner on the scenario. recommit is the miner's Recommit.
func build(sc *scenario, recommit time.Duration) (bt *built, cleanup func()) {
	bt = &built{sc: sc, cfg: chainConfig(sc.fork), byHash: map[common.Hash]int{}}
	bt.gspec = genesis(sc.fork, sc.gasLimit)
	bt.gspec.Config = bt.cfg
	chain := newChain(bt.gspec)
	dir, err := os.MkdirTemp(tmpRoot, "c36-blob-")
	if err != nil {
		panic(err)
	}
	lcfg := legacypool.DefaultConfig
	lcfg.Journal = ""
	lcfg.PriceLimit = 1
	lpool := legacypool.New(lcfg, chain)
	bcfg := blobpool.DefaultConfig
	bcfg.Datadir = dir
	bpool := blobpool.New(bcfg, chain, nil)
	pool, err := txpool.New(1, chain, []txpool.SubPool{lpool, bpool})
	if err != nil {
		panic(fmt.Sprintf("txpool.New: %v", err))
	}
	cleanup = func() {
		pool.Close()
		chain.Stop()
		os.RemoveAll(dir)
	}
	for id, s := range sc.txs {
		tx := buildTx(bt.cfg, sc.fork, id, s)
		bt.txs = append(bt.txs, tx)
		bt.byHash[tx.Hash()] = id
	}
	for _, tx := range bt.txs {
		if errs := pool.Add([]*types.Transaction{tx}, true); errs[0] != nil {
			bt.addErrs++
		}
	}
	pool.Sync()

	parent := chain.CurrentBlock()
	bt.parent = parent
	args := sc.args(parent)
	mcfg := miner.Config{PendingFeeRecipient: coinbase, GasCeil: sc.gasCeil, GasPrice: new(big.Int).SetUint64(sc.minTip), Recommit: recommit,
		MaxBlobsPerBlock: sc.maxBlobsCfg, ExtraData: []byte("c36")}
	m := miner.New(&backend{chain, pool}, mcfg, chain.Engine())
	if len(sc.prio) > 0 {
		var pr []common.Address
		for _, p := range sc.prio {
			pr = append(pr, addrs[p])
		}
		m.SetPrioAddresses(pr)
	}
	// what the pools will serve to fillTransactions (same filter as miner/worker.go builds)
	number := new(big.Int).Add(parent.Number, common.Big1)
	ts := args.Timestamp
	bt.baseFee = eip1559.CalcBaseFee(bt.cfg, parent)
	hdr := &types.Header{Number: number, Time: ts, BaseFee: bt.baseFee}
	ebg := eip4844.CalcExcessBlobGas(bt.cfg, parent, ts)
	hdr.ExcessBlobGas = &ebg
	filter := txpool.PendingFilter{MinTip: uint256.NewInt(sc.minTip), BaseFee: uint256.MustFromBig(bt.baseFee),
		BlobFee: uint256.MustFromBig(eip4844.CalcBlobFee(bt.cfg, hdr))}
	if bt.cfg.IsOsaka(number, ts) && !bt.cfg.IsAmsterdam(number, ts) {
		filter.GasLimitCap = params.MaxTxGas
	}
	bt.pendPlain, _ = pool.Pending(filter)
	filter.BlobTxs = true
	if bt.cfg.IsOsaka(number, ts) {
		filter.BlobVersion = types.BlobSidecarVersion1
	}
	bt.pendBlob, _ = pool.Pending(filter)
	bt.maxBlobs = eip4844.MaxBlobsPerBlock(bt.cfg, ts)
	if sc.maxBlobsCfg != 0 && sc.maxBlobsCfg < bt.maxBlobs {
		bt.maxBlobs = sc.maxBlobsCfg
	}

	payload, err := m.BuildPayload(context.Background(), args, false)
	if err != nil {
		bt.buildErr = err
		return
	}
	bt.empty = payload.ResolveEmpty()
	bt.envelope = payload.ResolveFull()
	bt.block, bt.receipts, bt.reverted, bt.revIdx = payload.FullBlockAndReceipts()
	if bt.envelope == nil || bt.block == nil {
		bt.buildErr = errors.New("no full payload")
		return
	}
	bt.replay(chain)
	return
}

// replay re-runs the miner's attempts (in the miner's order) on a shadow environment to
// obtain the class and the gas-pool charge of every core.ApplyTransaction call.
func (bt *built) replay(chain *core.BlockChain) {
	statedb, err := chain.StateAt(bt.parent)
	if err != nil {
		bt.replayErr = "state: " + err.Error()
		return
	}
	header := types.CopyHeader(bt.block.Header())
	cb := coinbase
	evm := vm.NewEVM(core.NewEVMBlockContext(header, chain, &cb), statedb, bt.cfg, vm.Config{})
	defer evm.Release()
	core.PreExecution(context.Background(), header.ParentBeaconRoot, bt.parent, bt.cfg, evm, header.Number, header.Time)
	gp := core.NewGasPool(header.GasLimit)
	ams := bt.cfg.IsAmsterdam(header.Number, header.Time)
	try := func(pos int, tx *types.Transaction, wantOk bool) {
		id, ok := bt.byHash[tx.Hash()]
		if !ok {
			bt.replayErr = "unknown tx in block"
			return
		}
		statedb.SetTxContext(tx.Hash(), pos, uint32(pos+1))
		snap, gps := statedb.Snapshot(), gp.Snapshot()
		rem0, ce0, cs0, cu0 := gp.Gas(), gp.CumulativeExecution(), gp.CumulativeState(), gp.CumulativeUsed()
		_, _, err := core.ApplyTransaction(evm, gp, statedb, header, tx)
		row := tableRow{pos: pos, id: id, class: classify(err)}
		if err != nil {
			statedb.RevertToSnapshot(snap)
			gp.Set(gps)
		} else if ams {
			row.a, row.b, row.c = gp.CumulativeExecution()-ce0, gp.CumulativeState()-cs0, gp.CumulativeUsed()-cu0
		} else {
			row.a = gp.CumulativeUsed() - cu0       // gas used
			row.b = tx.Gas() - (rem0 - gp.Gas())     // gas returned to the pool
		}
		if (err == nil) != wantOk && bt.replayErr == "" {
			bt.replayErr = fmt.Sprintf("replay of attempt (pos %d, tx %d) disagrees with the miner: err=%v", pos, id, err)
		}
		bt.table = append(bt.table, row)
	}
	ri := 0
	incl := bt.block.Transactions()
	for k := 0; k <= len(incl); k++ {
		for ri < len(bt.reverted) && int(bt.revIdx[ri]) == k {
			try(k, bt.reverted[ri], false)
			ri++
		}
		if k < len(incl) {
			try(k, incl[k], true)
		}
	}
	if ri != len(bt.reverted) && bt.replayErr == "" {
		bt.replayErr = "reverted index beyond the block"
	}
}

// ---------------------------------------------------------------- record (model input)

func (bt *built) pendSx(m map[common.Address][]*txpool.LazyTransaction) Sx {
	idx := map[common.Address]int{}
	for i, a := range addrs {
		idx[a] = i
	}
	var accts []int
	for a := range m {
		accts = append(accts, idx[a])
	}
	sort.Ints(accts)
	out := SL{}
	for _, ai := range accts {
		l := SL{}
		for _, lz := range m[addrs[ai]] {
			id := bt.byHash[lz.Hash]
			tm := int64(0)
			if lz.Tx != nil { // legacypool: the tx's own first-seen time; blobpool: one instant for all
				tm = lz.Time.Unix()*1_000_000 + int64(lz.Time.Nanosecond())
			}
			l = append(l, L(I(int64(id)), U(bt.txs[id].Nonce()), Big(lz.GasFeeCap.ToBig()), Big(lz.GasTipCap.ToBig()), I(tm), U(lz.Gas), U(lz.BlobGas)))
		}
		out = append(out, L(I(int64(ai)), l))
	}
	return out
}

func (bt *built) record() Sx {
	if bt.buildErr != nil {
		return L(I(0))
	}
	h := bt.block.Header()
	bi := func(b bool) int64 {
		if b {
			return 1
		}
		return 0
	}
	cfg := L(I(bi(bt.cfg.IsCancun(h.Number, h.Time))), I(bi(bt.cfg.IsAmsterdam(h.Number, h.Time))), I(bi(bt.cfg.IsEIP155(h.Number))),
		I(int64(bt.maxBlobs)), U(h.GasLimit), Big(bt.baseFee), U(uint64(h.Size())+uint64(bt.block.Withdrawals().Size())))
	prio := SL{}
	for _, p := range bt.sc.prio {
		prio = append(prio, I(int64(p)))
	}
	meta := SL{}
	for id, tx := range bt.txs {
		nb, isBlob := 0, tx.Type() == types.BlobTxType
		if sc := tx.BlobTxSidecar(); sc != nil {
			nb = len(sc.Blobs)
		}
		meta = append(meta, L(I(int64(id)), U(tx.Gas()), U(tx.BlobGas()), I(int64(nb)), U(tx.Size()), U(tx.WithoutBlobTxSidecar().Size()),
			I(1), I(bi(tx.Protected())), I(bi(isBlob))))
	}
	tab := SL{}
	for _, r := range bt.table {
		tab = append(tab, L(I(int64(r.pos)), I(int64(r.id)), I(int64(r.class)), U(r.a), U(r.b), U(r.c)))
	}
	return L(I(1), cfg, prio, bt.pendSx(bt.pendPlain), bt.pendSx(bt.pendBlob), meta, tab)
}

// ---------------------------------------------------------------- importers

func insertFresh(bt *built) (err error, extra string) {
	chain := newChain(bt.gspec)
	defer chain.Stop()
	if _, err := chain.InsertChain(types.Blocks{bt.block}); err != nil {
		return err, ""
	}
	if chain.CurrentBlock().Hash() != bt.block.Hash() {
		return nil, "fresh chain head is not the built block"
	}
	rs := chain.GetReceiptsByHash(bt.block.Hash())
	h := bt.block.Header()
	if types.DeriveSha(rs, trie.NewStackTrie(nil)) != h.ReceiptHash {
		return nil, "re-executed receipts root differs from header"
	}
	if types.MergeBloom(rs) != h.Bloom {
		return nil, "re-executed bloom differs from header"
	}
	var cum uint64
	for i, r := range rs {
		if r.GasUsed != bt.receipts[i].GasUsed || r.Status != bt.receipts[i].Status {
			return nil, fmt.Sprintf("receipt %d differs between builder and importer", i)
		}
		cum += r.GasUsed
	}
	if !chain.HasState(h.Root) {
		return nil, "importer has no state for the header root"
	}
	return nil, ""
}

func newPayloadFresh(bt *built) (status string, err error) {
	n, err := node.New(&node.Config{P2P: p2p.Config{NoDiscovery: true, NoDial: true, ListenAddr: ""}})
	if err != nil {
		return "", fmt.Errorf("node.New: %w", err)
	}
	defer n.Close()
	ecfg := ethconfig.Defaults
	ecfg.Genesis = bt.gspec
	ecfg.SyncMode = ethconfig.FullSync
	ecfg.TrieCleanCache, ecfg.TrieDirtyCache, ecfg.SnapshotCache = 0, 16, 0
	ecfg.StateScheme = rawdb.HashScheme
	ecfg.TxPool.Journal = ""
	ecfg.BlobPool.Datadir = ""
	ecfg.Miner = miner.DefaultConfig
	svc, err := eth.New(n, &ecfg)
	if err != nil {
		return "", fmt.Errorf("eth.New: %w", err)
	}
	api := catalyst.VerifNewConsensusAPI(svc)
	ed := *bt.envelope.ExecutionPayload
	hashes := []common.Hash{}
	for _, tx := range bt.block.Transactions() {
		hashes = append(hashes, tx.BlobHashes()...)
	}
	reqs := []hexutil.Bytes{}
	for _, r := range bt.envelope.Requests {
		reqs = append(reqs, r)
	}
	var st engine.PayloadStatusV1
	ctx := context.Background()
	switch bt.sc.fork {
	case fCancun:
		st, err = api.NewPayloadV3(ctx, ed, hashes, &bt.sc.beaconRoot)
	case fPrague, fOsaka, fBPO1:
		st, err = api.NewPayloadV4(ctx, ed, hashes, &bt.sc.beaconRoot, reqs)
	default:
		st, err = api.NewPayloadV5(ctx, ed, hashes, &bt.sc.beaconRoot, reqs)
	}
	if err != nil {
		return st.Status, err
	}
	if st.Status == engine.VALID && (st.LatestValidHash == nil || *st.LatestValidHash != bt.block.Hash()) {
		return st.Status, errors.New("latestValidHash is not the built block")
	}
	if st.ValidationError != nil {
		return st.Status, errors.New(*st.ValidationError)
	}
	return st.Status, nil
}

// ---------------------------------------------------------------- oracle + observation

func (bt *built) ids(txs types.Transactions) Sx {
	out := SL{}
	for _, tx := range txs {
		out = append(out, I(int64(bt.byHash[tx.Hash()])))
	}
	return out
}

func oracle(bt *built) string {
	h := bt.block.Header()
	// gas / blob limits
	var sum uint64
	for _, r := range bt.receipts {
		sum += r.GasUsed
	}
	if h.GasUsed > h.GasLimit {
		return fmt.Sprintf("header gas used %d > gas limit %d", h.GasUsed, h.GasLimit)
	}
	if bt.sc.fork != fAmsterdam && sum != h.GasUsed {
		return fmt.Sprintf("sum of receipt gas %d != header gas used %d", sum, h.GasUsed)
	}
	nb := 0
	for _, tx := range bt.block.Transactions() {
		nb += len(tx.BlobHashes())
	}
	if nb > bt.maxBlobs {
		return fmt.Sprintf("%d blobs > max %d", nb, bt.maxBlobs)
	}
	if h.BlobGasUsed == nil || *h.BlobGasUsed != uint64(nb)*params.BlobTxBlobGasPerBlob {
		return "header blob gas used is not blobs * gas per blob"
	}
	// per-account nonce order, contiguous from the parent state nonce unless the account's
	// nonce is moved by someone else (delegated accounts / set-code authorities)
	signer := types.MakeSigner(bt.cfg, h.Number, h.Time)
	last := map[common.Address]uint64{}
	for _, tx := range bt.block.Transactions() {
		from, err := types.Sender(signer, tx)
		if err != nil {
			return "included tx without valid sender"
		}
		if n, ok := last[from]; ok && tx.Nonce() <= n {
			return fmt.Sprintf("account %x: nonce %d included after nonce %d", from, tx.Nonce(), n)
		}
		last[from] = tx.Nonce()
	}
	if len(bt.receipts) != len(bt.block.Transactions()) {
		return "receipts / transactions length mismatch"
	}
	if bt.replayErr != "" {
		return bt.replayErr
	}
	if s := bt.lazyOK(); s != "" {
		return s
	}
	// payload attributes made it into the block
	if h.MixDigest != bt.sc.random || h.ParentBeaconRoot == nil || *h.ParentBeaconRoot != bt.sc.beaconRoot || h.Coinbase != coinbase ||
		len(bt.block.Withdrawals()) != len(bt.sc.wds) || h.Time != bt.parent.Time+bt.sc.timeDelta {
		return "payload attributes not reflected in the built block"
	}
	// import into a fresh chain
	t1 := time.Now()
	defer func() {
		if os.Getenv("C36_TIMING") != "" {
			fmt.Fprintf(os.Stderr, "oracle imports %v\n", time.Since(t1))
		}
	}()
	err, extra := insertFresh(bt)
	if os.Getenv("C36_TIMING") != "" {
		fmt.Fprintf(os.Stderr, "insertFresh %v\n", time.Since(t1))
	}
	if err != nil {
		return "InsertChain rejects the locally built block: " + err.Error()
	}
	if extra != "" {
		return extra
	}
	// the empty payload is a valid block too
	if bt.empty != nil {
		eb, err := engine.ExecutableDataToBlock(*bt.empty.ExecutionPayload, []common.Hash{}, &bt.sc.beaconRoot, bt.empty.Requests)
		if err != nil {
			return "empty payload does not decode: " + err.Error()
		}
		c := newChain(bt.gspec)
		_, err = c.InsertChain(types.Blocks{eb})
		c.Stop()
		if err != nil {
			return "InsertChain rejects the empty payload: " + err.Error()
		}
	}
	st, err := newPayloadFresh(bt)
	if err != nil {
		return fmt.Sprintf("NewPayload: status %q err %v", st, err)
	}
	if st != engine.VALID {
		return fmt.Sprintf("NewPayload status %q, want VALID", st)
	}
	return ""
}

func runCase(c Sx) Result {
	cl := asList(c)
	if len(cl) != 2 {
		panic("hxlib: case shape")
	}
	sc := parseScenario(cl[0])
	t0 := time.Now()
	bt, cleanup := build(sc, time.Hour)
	defer cleanup()
	if os.Getenv("C36_TIMING") != "" {
		defer func() { fmt.Fprintf(os.Stderr, "case total %v\n", time.Since(t0)) }()
		fmt.Fprintf(os.Stderr, "build %v\n", time.Since(t0))
	}
	tags := []string{fmt.Sprintf("fork%d", sc.fork)}
	if bt.buildErr != nil {
		return Result{Obs: L(I(0)), Oracle: "BuildPayload failed: " + bt.buildErr.Error(), Tags: tags}
	}
	rec := bt.record()
	recOK := String(rec) == String(cl[1])
	orc := oracle(bt)
	if orc == "" && !recOK && os.Getenv("C36_IGNORE_RECORD") == "" {
		// not a property failure; shows up as a correspondence mismatch through the observation
	}
	h := bt.block.Header()
	rev := SL{}
	for i, tx := range bt.reverted {
		rev = append(rev, L(I(int64(bt.byHash[tx.Hash()])), I(int64(bt.revIdx[i]))))
	}
	bi := func(b bool) Sx { return Bool(b) }
	obs := L(I(1), bi(recOK), bi(bt.chargesWF()), bt.ids(bt.block.Transactions()), U(h.GasUsed), U(*h.BlobGasUsed), rev)
	// tags
	tags = append(tags, fmt.Sprintf("incl%d", bucket(len(bt.block.Transactions()))), fmt.Sprintf("rev%d", bucket(len(bt.reverted))),
		fmt.Sprintf("pend%d", bucket(count(bt.pendPlain)+count(bt.pendBlob))))
	if count(bt.pendBlob) > 0 {
		tags = append(tags, "blobpending")
	}
	if *h.BlobGasUsed > 0 {
		tags = append(tags, "blobincluded")
	}
	if len(sc.prio) > 0 {
		tags = append(tags, "prio")
	}
	if len(sc.wds) > 0 {
		tags = append(tags, "withdrawals")
	}
	if bt.addErrs > 0 {
		tags = append(tags, "pooladd-rejects")
	}
	seen := map[int]bool{}
	for _, r := range bt.table {
		if r.class != cOk && !seen[r.class] {
			seen[r.class] = true
			tags = append(tags, fmt.Sprintf("applyerr%d", r.class))
		}
	}
	failed := 0
	for _, r := range bt.receipts {
		if r.Status == types.ReceiptStatusFailed {
			failed++
		}
	}
	if failed > 0 {
		tags = append(tags, "failed-receipts")
	}
	left := count(bt.pendPlain) + count(bt.pendBlob) - len(bt.block.Transactions())
	if left > 0 {
		tags = append(tags, "not-all-included")
	}
	nt := len(bt.block.Transactions()) >= 2 && (left > 0 || len(bt.reverted) > 0 || failed > 0 || *h.BlobGasUsed > 0)
	return Result{Obs: obs, Oracle: orc, Tags: tags, NonTrivial: nt}
}

// chargesWF: every recorded pool charge satisfies the hypotheses the Coq theorems put on
// the execution oracle (legacy: used + returned = tx gas; Amsterdam: execution gas within
// min(gas, MaxTxGas), state gas within gas, receipt gas within their sum).
func (bt *built) chargesWF() bool {
	h := bt.block.Header()
	ams := bt.cfg.IsAmsterdam(h.Number, h.Time)
	for _, r := range bt.table {
		if r.class != cOk {
			continue
		}
		gas := bt.txs[r.id].Gas()
		if ams {
			if r.a > min(gas, params.MaxTxGas) || r.b > gas || r.c > r.a+r.b {
				return false
			}
		} else if r.a+r.b != gas {
			return false
		}
	}
	return true
}

// lazyOK: the metadata the pools put on the lazy transactions is that of the transaction
func (bt *built) lazyOK() string {
	for _, m := range []map[common.Address][]*txpool.LazyTransaction{bt.pendPlain, bt.pendBlob} {
		for _, l := range m {
			for _, lz := range l {
				tx := bt.txs[bt.byHash[lz.Hash]]
				if lz.Gas != tx.Gas() || lz.BlobGas != tx.BlobGas() || lz.GasFeeCap.ToBig().Cmp(tx.GasFeeCap()) != 0 || lz.GasTipCap.ToBig().Cmp(tx.GasTipCap()) != 0 {
					return fmt.Sprintf("pool serves lazy metadata that differs from tx %d", bt.byHash[lz.Hash])
				}
			}
		}
	}
	return ""
}

func count(m map[common.Address][]*txpool.LazyTransaction) int {
	n := 0
	for _, l := range m {
		n += len(l)
	}
	return n
}

func bucket(n int) int {
	switch {
	case n <= 1:
		return n
	case n <= 4:
		return 2
	case n <= 9:
		return 5
	default:
		return 10
	}
}

// ---------------------------------------------------------------- generator

func genScenario(r *Rng, adversarial bool) *scenario {
	sc := &scenario{fork: r.Intn(nForks)}
	// block gas limit: mostly tiny, so that the block fills up and transactions do not fit
	switch r.Intn(6) {
	case 0:
		sc.gasLimit = uint64(r.Range(30_000, 90_000))
	case 1, 2:
		sc.gasLimit = uint64(r.Range(90_000, 400_000))
	case 3, 4:
		sc.gasLimit = uint64(r.Range(400_000, 2_000_000))
	default:
		sc.gasLimit = 30_000_000
	}
	if sc.fork == fAmsterdam && sc.gasLimit < 800_000 && !r.Chance(1, 4) {
		// Below ~750k the builder can overshoot the EIP-7928 access-list size bound
		// (items <= gasLimit/2000), which it never checks: known finding
		// C36-bal-size-not-checked-by-builder (witnesses in corpus/C36); such limits are
		// kept at a modest rate in the random stream.
		sc.gasLimit += 800_000
	}
	sc.gasCeil = sc.gasLimit
	if r.Chance(1, 3) {
		sc.gasCeil = sc.gasLimit * uint64(r.Range(1, 3)) / 2
	}
	if sc.gasCeil < 5000 {
		sc.gasCeil = 5000
	}
	sc.minTip = uint64(r.Range(1, 3)) * 1_000_000
	if r.Chance(1, 4) {
		sc.minTip = 1
	}
	if r.Chance(1, 3) {
		sc.maxBlobsCfg = r.Range(1, 4)
	}
	sc.timeDelta = uint64(r.Range(1, 30))
	copy(sc.random[:], r.Bytes(32))
	copy(sc.beaconRoot[:], r.Bytes(32))
	sc.slot = uint64(r.Range(1, 1000))
	if r.Chance(1, 3) {
		sc.targetGas = sc.gasLimit * uint64(r.Range(1, 4)) / 2
	}
	for i, n := 0, r.Intn(4); i < n; i++ {
		sc.wds = append(sc.wds, wdSpec{uint64(i + 5), uint64(r.Intn(100)), r.Intn(nAcct), uint64(r.Intn(1 << 20))})
	}
	if r.Chance(1, 3) {
		for i, n := 0, r.Range(1, 3); i < n; i++ {
			sc.prio = append(sc.prio, r.Intn(nAcct))
		}
	}
	baseFee := uint64(params.InitialBaseFee) // next base fee <= this on an empty parent
	nonces := make([]int, nAcct)
	nTx := r.Range(1, 14)
	if adversarial {
		nTx = r.Range(4, 24)
	}
	blobAcct := map[int]bool{} // pools reserve an address for one subpool
	plainAcct := map[int]bool{}
	tipSeq := uint64(0)
	for id := 0; id < nTx; id++ {
		var s txSpec
		s.authAcct = -1
		s.acct = r.Intn(nPlain)
		if r.Chance(1, 6) {
			s.acct = aBump + r.Intn(2)
		}
		s.typ = []int{0, 1, 2, 2, 2, 3, 4}[r.Intn(7)]
		if s.typ == 4 && sc.fork < fPrague && !adversarial {
			s.typ = 2
		}
		if s.typ == 3 && (plainAcct[s.acct] || s.acct >= nPlain) {
			s.typ = 2
		}
		if s.typ != 3 && blobAcct[s.acct] {
			s.typ = 3
		}
		if s.typ == 3 {
			blobAcct[s.acct] = true
		} else {
			plainAcct[s.acct] = true
		}
		s.kind = r.Intn(nKinds)
		if s.typ == 3 && s.kind == kCreate {
			s.kind = kTransfer
		}
		switch s.kind {
		case kTransfer:
			s.gas = 21000
			s.value = uint64(r.Intn(1000))
		case kAdder, kLog:
			s.gas = uint64(r.Range(60_000, 120_000))
		case kRevert:
			s.gas = uint64(r.Range(50_000, 90_000))
		case kBurn:
			s.gas = uint64(r.Range(25_000, 60_000))
			if r.Chance(1, 2) {
				s.gas = 21_000 + sc.gasLimit/uint64(r.Range(3, 8))
			}
		case kCreate:
			s.gas = uint64(r.Range(120_000, 300_000))
		case kCallBump:
			s.gas = uint64(r.Range(100_000, 250_000))
		case kCallSweep:
			s.gas = uint64(r.Range(60_000, 120_000))
		case kBigData:
			s.dataLen = r.Range(1, 600)
			s.gas = 21000 + uint64(s.dataLen)*60 + 5000
		}
		if s.typ == 1 {
			s.gas += 5000
		}
		if s.typ == 4 {
			s.gas += 60_000
			if r.Chance(3, 4) {
				s.authAcct = r.Intn(nPlain)
				s.authNonce = nonces[s.authAcct]
				if r.Chance(1, 5) {
					s.authNonce += r.Range(1, 2)
				}
			}
		}
		if r.Chance(1, 8) { // gas limit larger than what will be left in the block
			s.gas += sc.gasLimit / uint64(r.Range(1, 3))
		}
		if adversarial && r.Chance(1, 10) {
			s.gas = uint64(r.Range(1000, 30_000)) // below intrinsic: rejected by the pool
		}
		// fees: mostly above the base fee with distinct tips; sometimes underpriced
		tipSeq++
		s.tipCap = uint64(r.Range(1, 40))*1_000_000 + tipSeq*1_000 + uint64(id)
		s.feeCap = baseFee + s.tipCap + uint64(r.Intn(3))*baseFee
		switch r.Intn(12) {
		case 0:
			s.feeCap = baseFee - uint64(r.Range(1, int(baseFee/2))) // fee cap below any possible base fee? (base fee can drop 12.5%)
		case 1:
			s.tipCap = uint64(r.Intn(2_000_000)) // tip around the miner's minimum
		case 2:
			s.feeCap = baseFee*7/8 + uint64(r.Intn(int(baseFee/4))) // around the next base fee
		}
		if s.tipCap > s.feeCap {
			s.tipCap = s.feeCap
		}
		if s.typ == 3 {
			s.nBlobs = r.Range(1, 3)
			if r.Chance(1, 6) {
				s.nBlobs = r.Range(4, 6)
			}
			s.blobFeeCap = uint64(r.Range(1, 50))
			if r.Chance(1, 10) {
				s.blobFeeCap = 0
			}
		}
		s.nonce = nonces[s.acct]
		switch {
		case r.Chance(1, 14):
			s.nonce += r.Range(1, 2) // gap: stays in the pool's queue
		case r.Chance(1, 14) && s.nonce > 0:
			s.nonce-- // replacement attempt
		default:
			nonces[s.acct]++
		}
		s.timeRank = r.Intn(4 * nTx)
		sc.txs = append(sc.txs, s)
	}
	return sc
}

func gen(r *Rng, tier string, emit func(c Sx)) {
	if p := os.Getenv("C36_RECORD_FROM"); p != "" {
		// tool mode: complete hand-written scenarios (one "(scenario ())" per line) with their record
		data, err := os.ReadFile(p)
		if err != nil {
			panic(err)
		}
		for _, line := range bytes.Split(data, []byte("\n")) {
			if len(bytes.TrimSpace(line)) == 0 {
				continue
			}
			c, err := Parse(string(line))
			if err != nil {
				panic(err)
			}
			sc := parseScenario(asList(c)[0])
			bt, cleanup := build(sc, time.Hour)
			rec := bt.record()
			cleanup()
			emit(L(sc.sx(), rec))
		}
		return
	}
	r = NewRng(r.U64())
	n := 28
	if tier == "thorough" {
		n = 1500
	}
	if v := os.Getenv("C36_CASES"); v != "" {
		fmt.Sscan(v, &n)
	}
	for i := 0; i < n; i++ {
		sc := genScenario(r.Fork(), i%4 == 3)
		bt, cleanup := build(sc, time.Hour)
		rec := bt.record()
		cleanup()
		emit(L(sc.sx(), rec))
	}
}

var _ = bytes.Equal

func main() {
	Main(Family{
		ID: "C36",
		Rule: "case = (scenario, record). scenario: fork in {Cancun, Prague, Osaka, Osaka+BPO1, Amsterdam}, block gas limit 30k..30M (mostly tiny), " +
			"miner min tip / blob cap / prioritised senders, payload attributes (0-3 withdrawals, beacon root, random, slot, target gas limit), 1-24 " +
			"transaction specs over 10 funded senders (2 with a genesis EIP-7702 delegation whose nonce/balance other senders can move): legacy, " +
			"access-list, dynamic-fee, blob (1-6 blobs, v0/v1 sidecars), set-code (authorities with pending txs); transfers, storage writes, reverts, " +
			"out-of-gas, creates, logs, calldata floors, gas limits above the block limit, nonce gaps, replacements, fee caps / tips around base fee " +
			"and miner tip; every 4th case is the adversarial stream (more txs, pool-invalid ones, set-code before Prague). The record (pending maps " +
			"served by the real pools, tx metadata, table of per-(position,tx) ApplyTransaction outcomes from a shadow replay) is recomputed by Run " +
			"and must reproduce. Non-trivial: >= 2 transactions included and (some pending tx left out, or an attempted tx reverted out of the " +
			"block, or a failed receipt, or blobs included).",
		Gen:         gen,
		Run:         runCase,
		CaseTimeout: 300 * time.Second,
	})
}
