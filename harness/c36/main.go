// Family c36: blocks built locally are valid blocks (miner/worker.go, miner/payload_building.go,
// core/state_processor.go, core/block_validator.go, eth/catalyst/api.go) vs coq/EVM/Build.v.
//
// A case is (scenario, record).  The scenario is explicit: the rule set at genesis, an optional
// later rule set with the ROUND at whose block time it activates (fork boundaries incl. blob
// schedule changes), block gas limit, miner configuration, prioritised senders and 1-3 ROUNDS,
// each with payload attributes (withdrawals, beacon root, random, slot, target gas limit) and
// transaction specs over a fixed genesis (plain EOAs, four EOAs that carry an EIP-7702
// delegation in genesis whose nonce / balance other senders can move, helper contracts).
// Run builds a real core.BlockChain, a real legacypool + blobpool behind txpool.TxPool and a
// real miner.Miner; per round it fills the pools, calls Miner.BuildPayload, resolves the FULL
// payload and imports the block (a) into a second core.BlockChain with InsertChain and (b)
// through catalyst's ConsensusAPI.NewPayloadV3/V4/V5 of a separate eth.Ethereum, then advances
// the builder's chain with it.
//
// The record (computed by Gen by running the same code once, recomputed + compared by Run) is,
// per round, everything the Coq model replays: the two pending maps the pools serve to the
// miner, per-transaction metadata, the parent header's blob fields with the fork schedule, and
// the table of per-(position, tx) outcomes of core.ApplyTransaction, obtained by replaying the
// miner's attempts (included transactions + Payload.FullBlockAndReceipts' reverted list) on a
// shadow environment.
//
// files: main.go (fixed world), scenario.go (case format, tx construction), run.go (builder,
// importers, oracle, record, observation), gen.go (generator, entry point).
package main

import (
	"crypto/ecdsa"
	"math/big"
	"sync"

	"github.com/ethereum/go-ethereum/common"
	"github.com/ethereum/go-ethereum/core"
	"github.com/ethereum/go-ethereum/core/types"
	"github.com/ethereum/go-ethereum/crypto"
	"github.com/ethereum/go-ethereum/crypto/kzg4844"
	"github.com/ethereum/go-ethereum/params"
)

// ---------------------------------------------------------------- fixed world

const (
	nPlain = 8  // accounts 0..7: plain EOAs
	aBump  = 8  // 8, 9: EOAs delegated (in genesis) to bumpC: any call to them bumps THEIR nonce (CREATE)
	aSweep = 10 // 10, 11: EOAs delegated (in genesis) to sweepC: any call to them sends their balance away
	nAcct  = 12 // accounts with keys
	genTime = 9000
)

const (
	fCancun = iota
	fPrague
	fOsaka
	fBPO1
	fBPO2
	fAmsterdam // with BPO1 and BPO2 active
	nForks
)

var (
	keys  []*ecdsa.PrivateKey
	addrs []common.Address

	coinbase = common.HexToAddress("0xc01babe000000000000000000000000000000001")
	sink     = common.HexToAddress("0x5199000000000000000000000000000000000009")
	adderC   = common.HexToAddress("0xadde000000000000000000000000000000000001")
	revertC  = common.HexToAddress("0x4e7e000000000000000000000000000000000002")
	burnC    = common.HexToAddress("0xb042000000000000000000000000000000000003")
	logC     = common.HexToAddress("0x1099000000000000000000000000000000000004")
	bumpC    = common.HexToAddress("0xb09b000000000000000000000000000000000005")
	sweepC   = common.HexToAddress("0x59ee000000000000000000000000000000000006")

	// sstore(calldata[0], sload(calldata[0]) + 1)
	adderCode = []byte{0x5f, 0x35, 0x80, 0x54, 0x60, 0x01, 0x01, 0x90, 0x55, 0x00}
	// sstore(0,1); revert(0,0)
	revertCode = []byte{0x60, 0x01, 0x5f, 0x55, 0x5f, 0x5f, 0xfd}
	// jumpdest; push0; jump  (burns all gas)
	burnCode = []byte{0x5b, 0x5f, 0x56}
	// log1(0, 0, calldata[0]); stop
	logCode = []byte{0x5f, 0x35, 0x5f, 0x5f, 0xa1, 0x00}
	// create(0,0,0); stop  -- executed in the context of the delegating EOA: nonce+1
	bumpCode = []byte{0x5f, 0x5f, 0x5f, 0xf0, 0x00}
	// call(gas, sink, selfbalance, 0,0,0,0); stop
	sweepCode = append(append([]byte{0x5f, 0x5f, 0x5f, 0x5f, 0x47, 0x73}, sink.Bytes()...), 0x5a, 0xf1, 0x00)
	// init code of a top-level create: sstore(1,0x42); return 1 byte [STOP]
	createInit = []byte{0x60, 0x42, 0x60, 0x01, 0x55, 0x5f, 0x5f, 0x53, 0x60, 0x01, 0x5f, 0xf3}

	blobOnce sync.Once
	blobs    []kzg4844.Blob
	commits  []kzg4844.Commitment
	proofsV0 []kzg4844.Proof
	proofsV1 [][]kzg4844.Proof
)

func init() {
	for i := 0; i < nAcct; i++ {
		var b [32]byte
		b[0], b[31] = 0xc3, byte(i+1)
		b[15] = 0x36
		k, err := crypto.ToECDSA(b[:])
		if err != nil {
			panic(err)
		}
		keys = append(keys, k)
		addrs = append(addrs, crypto.PubkeyToAddress(k.PublicKey))
	}
}

const nBlobs = 2

func initBlobs() {
	blobOnce.Do(func() {
		for i := 0; i < nBlobs; i++ {
			var b kzg4844.Blob
			for j := 0; j < 8; j++ {
				b[j*32+1] = byte(i + 1)
				b[j*32+31] = byte(j + 7*i)
			}
			c, err := kzg4844.BlobToCommitment(&b)
			if err != nil {
				panic(err)
			}
			p, err := kzg4844.ComputeBlobProof(&b, c)
			if err != nil {
				panic(err)
			}
			cp, err := kzg4844.ComputeCellProofs(&b)
			if err != nil {
				panic(err)
			}
			blobs, commits, proofsV0, proofsV1 = append(blobs, b), append(commits, c), append(proofsV0, p), append(proofsV1, cp)
		}
	})
}

func u64p(v uint64) *uint64 { return &v }

// chainConfig: rule set [fork] from genesis; the rule sets in (fork, fork2] activate at
// timestamp [switchTime] (fork2 <= fork: no later fork).
func chainConfig(fork, fork2 int, switchTime uint64) *params.ChainConfig {
	c := *params.MergedTestChainConfig
	c.ChainID = big.NewInt(1337)
	c.ShanghaiTime, c.CancunTime = u64p(0), u64p(0)
	c.BlobScheduleConfig = &params.BlobScheduleConfig{Cancun: params.DefaultCancunBlobConfig, Prague: params.DefaultPragueBlobConfig,
		BPO1: params.DefaultBPO1BlobConfig, BPO2: params.DefaultBPO2BlobConfig}
	at := func(id int) *uint64 {
		switch {
		case id <= fork:
			return u64p(0)
		case id <= fork2:
			return u64p(switchTime)
		}
		return nil
	}
	c.PragueTime, c.OsakaTime, c.BPO1Time, c.BPO2Time, c.AmsterdamTime = at(fPrague), at(fOsaka), at(fBPO1), at(fBPO2), at(fAmsterdam)
	return &c
}

func delegation(to common.Address) []byte { return types.AddressToDelegation(to) }

func genesis(cfg *params.ChainConfig, gasLimit uint64) *core.Genesis {
	rich := new(big.Int).Mul(big.NewInt(1000), big.NewInt(params.Ether))
	alloc := types.GenesisAlloc{
		adderC:  {Balance: common.Big0, Code: adderCode},
		revertC: {Balance: common.Big0, Code: revertCode},
		burnC:   {Balance: common.Big0, Code: burnCode},
		logC:    {Balance: common.Big0, Code: logCode},
		bumpC:   {Balance: common.Big0, Code: bumpCode},
		sweepC:  {Balance: common.Big0, Code: sweepCode},

		params.BeaconRootsAddress:          {Nonce: 1, Code: params.BeaconRootsCode, Balance: common.Big0},
		params.HistoryStorageAddress:       {Nonce: 1, Code: params.HistoryStorageCode, Balance: common.Big0},
		params.WithdrawalQueueAddress:      {Nonce: 1, Code: params.WithdrawalQueueCode, Balance: common.Big0},
		params.ConsolidationQueueAddress:   {Nonce: 1, Code: params.ConsolidationQueueCode, Balance: common.Big0},
		params.BuilderDepositAddress:       {Nonce: 1, Code: params.BuilderDepositCode, Balance: common.Big0},
		params.BuilderExitAddress:          {Nonce: 1, Code: params.BuilderExitCode, Balance: common.Big0},
		params.DeterministicFactoryAddress: {Nonce: 1, Code: params.DeterministicFactoryCode, Balance: common.Big0},
	}
	for i := 0; i < nAcct; i++ {
		acc := types.Account{Balance: rich}
		if i >= aBump && i < aSweep {
			acc.Code = delegation(bumpC)
		}
		if i >= aSweep {
			acc.Code = delegation(sweepC)
		}
		alloc[addrs[i]] = acc
	}
	return &core.Genesis{
		Config:     cfg,
		Alloc:      alloc,
		ExtraData:  []byte("c36 genesis"),
		Timestamp:  genTime,
		GasLimit:   gasLimit,
		BaseFee:    big.NewInt(params.InitialBaseFee),
		Difficulty: big.NewInt(0),
	}
}

