// Family c45: node records (p2p/enr, p2p/enode v4 identity scheme) and the discovery v5
// wire codec (p2p/discover/v5wire) vs coq/Net/Enr.v, coq/Net/V5wire.v.
package main

import (
	"bytes"
	"crypto/aes"
	"crypto/cipher"
	"crypto/ecdsa"
	"encoding/binary"
	"errors"
	"fmt"
	"net"
	"sort"
	"strings"

	"github.com/ethereum/go-ethereum/common/mclock"
	"github.com/ethereum/go-ethereum/crypto"
	"github.com/ethereum/go-ethereum/p2p/discover/v5wire"
	"github.com/ethereum/go-ethereum/p2p/enode"
	"github.com/ethereum/go-ethereum/p2p/enr"
	"github.com/ethereum/go-ethereum/rlp"
	. "gethverif/harness/hxlib"
)

// ---------------------------------------------------------------- error classes

// rlp error classes (coq/Rlp/Item.v err_code)
func rlpClass(err error) int64 {
	switch err {
	case rlp.EOL:
		return 1
	case rlp.ErrCanonSize:
		return 4
	case rlp.ErrCanonInt:
		return 5
	case rlp.ErrElemTooLarge:
		return 6
	case rlp.ErrValueTooLarge:
		return 7
	case rlp.ErrExpectedString:
		return 8
	case rlp.ErrExpectedList:
		return 9
	case rlp.VerifErrUintOverflow:
		return 10
	case rlp.VerifErrNotAtEOL:
		return 11
	case rlp.VerifErrNotInList:
		return 12
	case rlp.ErrMoreThanOneValue:
		return 13
	}
	switch err.Error() {
	case "EOF":
		return 2
	case "unexpected EOF":
		return 3
	}
	if msg, ok := rlp.VerifDecodeErrorMsg(err); ok {
		switch msg {
		case "non-canonical size information":
			return 4
		case "non-canonical integer (leading zero bytes)":
			return 5
		case "expected input string or byte":
			return 8
		case "expected input list":
			return 9
		case "input string too long":
			return 10
		case "input list has too many elements":
			return 11
		}
		return 97
	}
	return 98
}

// coq/Net/Enr.v eerr_code
func enrClass(err error) int64 {
	if err == nil {
		return 0
	}
	var ke *enr.KeyError
	if errors.As(err, &ke) {
		return 107
	}
	if err == enr.ErrInvalidSig {
		return 106
	}
	switch err.Error() {
	case "record bigger than 300 bytes":
		return 101
	case "record contains less than two list elements":
		return 102
	case "record contains incomplete k/v pair":
		return 103
	case "record contains duplicate key":
		return 104
	case "record key/value pairs are not sorted by key":
		return 105
	case "invalid public key":
		return 108
	}
	if strings.HasPrefix(err.Error(), "invalid node ID length") {
		return 109
	}
	return rlpClass(err)
}

// coq/Net/V5wire.v v5err_code
func v5Class(err error, flag int) int64 {
	msg := err.Error()
	switch msg {
	case "packet too short":
		return 1
	case "invalid packet header":
		return 2
	case "invalid flag value in header":
		return 3
	case "version of packet header below minimum":
		return 4
	case "message/handshake packet below minimum size":
		return 5
	case "declared auth size is beyond packet length":
		return 6
	case "unexpected auth response, not in handshake":
		return 7
	case "invalid ephemeral pubkey":
		return 8
	case "expected ENR in handshake but none sent":
		return 9
	case "invalid ID nonce signature":
		return 10
	case "message contains no data":
		return 11
	case "cannot decrypt message":
		return 12
	}
	switch {
	case strings.HasPrefix(msg, "invalid auth size"):
		return 13
	case strings.HasPrefix(msg, "header authsize"):
		return 14
	case strings.HasPrefix(msg, "no secp256k1 public key"), strings.HasPrefix(msg, "can't verify ID nonce"):
		return 17
	}
	if flag == 2 {
		return 15 // record in handshake undecodable / invalid / wrong ID
	}
	return 16
}

// ---------------------------------------------------------------- records

type kv struct {
	k string
	v []byte // raw RLP
}

func buildContent(seq interface{}, pairs []kv) []interface{} {
	l := []interface{}{seq}
	for _, p := range pairs {
		l = append(l, p.k, rlp.RawValue(p.v))
	}
	return l
}

func mustEnc(v interface{}) []byte {
	b, err := rlp.EncodeToBytes(v)
	if err != nil {
		panic("hxlib: encode: " + err.Error())
	}
	return b
}

// sign content the way the v4 scheme does; seq may be a uint64 or a raw value
func signContent(key *ecdsa.PrivateKey, content []interface{}) []byte {
	h := crypto.Keccak256(mustEnc(content))
	sig, err := crypto.Sign(h, key)
	if err != nil {
		panic("hxlib: sign: " + err.Error())
	}
	return sig[:64]
}

func buildRecord(sig []byte, content []interface{}) []byte {
	return mustEnc(append([]interface{}{sig}, content...))
}

// independent parse of a record with the raw splitters of package rlp: the signature,
// the hash of the signed content and the "secp256k1" string; ok=false if the shape is
// not that of a record.  Used only to compute the verify bit handed to the model.
func verifyBit(b []byte) bool {
	content, _, err := rlp.SplitList(b)
	if err != nil {
		return false
	}
	sig, rest, err := rlp.SplitString(content)
	if err != nil {
		return false
	}
	hdr := listHeader(len(rest))
	hash := crypto.Keccak256(append(hdr, rest...))
	// skip seq
	_, _, rest2, err := rlp.Split(rest)
	if err != nil {
		return false
	}
	for len(rest2) > 0 {
		k, r, err := rlp.SplitString(rest2)
		if err != nil {
			return false
		}
		fl := frameLen(r) // the value is framed, not validated (as Stream.Raw does)
		if fl < 0 {
			return false
		}
		val, r2 := r[:fl], r[fl:]
		if string(k) == "secp256k1" {
			pk, tail, err := rlp.SplitString(val)
			if err != nil || len(tail) != 0 {
				return false
			}
			return crypto.VerifySignature(pk, hash, sig)
		}
		rest2 = r2
	}
	return false
}

// length of the RLP value frame at the start of b (header + declared content), -1 if short
func frameLen(b []byte) int {
	if len(b) == 0 {
		return -1
	}
	t := int(b[0])
	total := 0
	switch {
	case t < 0x80:
		total = 1
	case t < 0xb8:
		total = 1 + t - 0x80
	case t < 0xc0, t >= 0xf8:
		ll := t - 0xb7
		if t >= 0xf8 {
			ll = t - 0xf7
		}
		if len(b) < 1+ll {
			return -1
		}
		sz := 0
		for _, x := range b[1 : 1+ll] {
			sz = sz<<8 | int(x)
			if sz > 1<<20 {
				return -1
			}
		}
		total = 1 + ll + sz
	default:
		total = 1 + t - 0xc0
	}
	if total > len(b) {
		return -1
	}
	return total
}

func listHeader(n int) []byte {
	if n < 56 {
		return []byte{0xc0 + byte(n)}
	}
	var sz []byte
	for x := n; x > 0; x >>= 8 {
		sz = append([]byte{byte(x)}, sz...)
	}
	return append([]byte{0xf7 + byte(len(sz))}, sz...)
}

func runRecord(l SL) Result {
	b := AsBytes(l[1])
	vbit := AsBool(l[2])
	expect := AsInt(l[3])
	res := Result{}
	var r enr.Record
	err := rlp.DecodeBytes(b, &r)
	if err != nil {
		c := enrClass(err)
		res.Obs = L(I(1), I(c))
		res.Tags = append(res.Tags, fmt.Sprintf("rec-err%d", c))
		if expect == 1 {
			res.Oracle = "honest signed record rejected by rlp.DecodeBytes: " + err.Error()
		}
		res.NonTrivial = len(b) > 40
		return res
	}
	_, nerr := enode.New(enode.ValidSchemes, &r)
	cls := enrClass(nerr)
	re, _ := rlp.EncodeToBytes(&r)
	elems := r.AppendElements(nil)
	fields := mustEnc(append([]interface{}{r.Signature()}, elems...))
	var keys []Sx
	var keystr []string
	for i := 1; i < len(elems); i += 2 {
		keys = append(keys, B([]byte(elems[i].(string))))
		keystr = append(keystr, elems[i].(string))
	}
	hash := crypto.Keccak256(mustEnc(elems))
	res.Obs = L(I(0), I(cls), B(fields), B(re), U(r.Seq()), SL(keys), B(hash))
	res.Tags = append(res.Tags, fmt.Sprintf("rec-ok-cls%d", cls), fmt.Sprintf("rec-len%d", len(b)/50*50), fmt.Sprintf("rec-keys%d", min(len(keystr), 8)))
	res.NonTrivial = true
	// ---- direct property oracle ----
	var fails []string
	if !bytes.Equal(re, b) {
		fails = append(fails, "decoded record re-encodes (EncodeRLP) to different bytes")
	}
	if !bytes.Equal(fields, b) {
		fails = append(fails, "decoded fields re-encode canonically to different bytes")
	}
	if len(b) > enr.SizeLimit {
		fails = append(fails, "record larger than the size limit was decoded")
	}
	if !sort.StringsAreSorted(keystr) {
		fails = append(fails, "decoded record has unsorted keys")
	}
	for i := 1; i < len(keystr); i++ {
		if keystr[i] == keystr[i-1] {
			fails = append(fails, "decoded record has a duplicate key")
			break
		}
	}
	if nerr == nil {
		var pk []byte
		if r.Load(enr.WithEntry("secp256k1", &pk)) != nil || !crypto.VerifySignature(pk, hash, r.Signature()) {
			fails = append(fails, "record accepted by enode.New although its signature does not verify")
		}
		if !vbit {
			fails = append(fails, "record accepted although the independent signature check failed")
		}
		if expect == 0 {
			fails = append(fails, "mutated record accepted")
		}
	} else if expect == 1 {
		fails = append(fails, "honest signed record rejected by enode.New: "+nerr.Error())
	}
	if len(fails) > 0 {
		res.Oracle = strings.Join(fails, "; ")
	}
	return res
}

// ---- generation of records ----

func genKey(r *Rng) *ecdsa.PrivateKey {
	for {
		k, err := crypto.ToECDSA(r.Bytes(32))
		if err == nil {
			return k
		}
	}
}

var seqEdges = []uint64{0, 1, 127, 128, 255, 256, 65535, 65536, 1 << 32, 1<<56 - 1, 1 << 56, 1<<63 - 1, 1 << 63, 1<<64 - 1}

func randKeyName(r *Rng) string {
	pool := []string{"ip", "tcp", "udp", "ip6", "tcp6", "udp6", "eth", "snap", "a", "zz", "secp256k0", "secp256k2", "ie", "idx", "", "\x00", "\xff\xff"}
	if r.Chance(2, 3) {
		return pool[r.Intn(len(pool))]
	}
	n := r.Range(1, 6)
	b := make([]byte, n)
	for i := range b {
		b[i] = byte(r.Range(97, 122))
	}
	return string(b)
}

func randValue(r *Rng, size int) []byte {
	switch r.Intn(6) {
	case 0: // small integer
		return mustEnc(uint64(r.Intn(70000)))
	case 1: // list
		return mustEnc([]interface{}{r.Bytes(r.Intn(4)), uint64(r.Intn(300))})
	case 2: // non-canonical single byte string (accepted by Stream.Raw)
		return []byte{0x81, byte(r.Intn(128))}
	default:
		return mustEnc(r.Bytes(size))
	}
}

type recSpec struct {
	key   *ecdsa.PrivateKey
	seq   uint64
	pairs []kv
}

func sortPairs(p []kv) {
	sort.Slice(p, func(i, j int) bool { return p[i].k < p[j].k })
}

func genSpec(r *Rng) recSpec {
	key := genKey(r)
	sp := recSpec{key: key}
	if r.Chance(1, 2) {
		sp.seq = seqEdges[r.Intn(len(seqEdges))]
	} else {
		sp.seq = r.U64() >> uint(r.Intn(64))
	}
	m := map[string][]byte{
		"id":        mustEnc("v4"),
		"secp256k1": mustEnc(crypto.CompressPubkey(&key.PublicKey)),
	}
	if r.Chance(2, 3) {
		m["ip"] = mustEnc(r.Bytes(4))
	}
	if r.Chance(1, 2) {
		m["udp"] = mustEnc(uint64(r.Intn(65536)))
	}
	if r.Chance(1, 2) {
		m["tcp"] = mustEnc(uint64(r.Intn(65536)))
	}
	n := r.Intn(5)
	for i := 0; i < n; i++ {
		k := randKeyName(r)
		if k == "id" || k == "secp256k1" {
			continue
		}
		m[k] = randValue(r, r.Intn(12))
	}
	for k, v := range m {
		sp.pairs = append(sp.pairs, kv{k, v})
	}
	sortPairs(sp.pairs)
	return sp
}

func (sp recSpec) bytes() []byte {
	c := buildContent(sp.seq, sp.pairs)
	return buildRecord(signContent(sp.key, c), c)
}

// pad the record with a "pad" entry so that its total size is exactly target (if reachable)
func (sp recSpec) padTo(target int) recSpec {
	base := len(sp.bytes())
	for _, p := range sp.pairs {
		if p.k == "pad" {
			return sp
		}
	}
	for n := 0; n < 320; n++ {
		q := recSpec{sp.key, sp.seq, append(append([]kv{}, sp.pairs...), kv{"pad", mustEnc(bytes.Repeat([]byte{0xaa}, n))})}
		sortPairs(q.pairs)
		if l := len(q.bytes()); l == target || (l > target && l > base) {
			return q
		}
	}
	return sp
}

func emitRecord(emit func(Sx), b []byte, expect int) {
	emit(L(I(0), B(b), Bool(verifyBit(b)), I(int64(expect))))
}

// ---- key-order stress: canonical and non-canonical key sequences over boundary keys,
// every one correctly signed by the owner, so canonicity is the ONLY reason to reject ----

var boundaryKeys = []string{
	"", "\x00", "\x00\x00", "\x01", "\x7f", "\x80", "\xff", "\xff\xff", "\xc3\x28", "\xe2\x82",
	"a", "aa", "ab", "abc", "b", "i", "ic", "id\x00", "ida", "ie", "s", "secp256k0", "secp256k1\x00", "secp256k2", "z",
	strings.Repeat("k", 55), strings.Repeat("k", 56), strings.Repeat("k", 57), strings.Repeat("\x00", 56), strings.Repeat("\xff", 60),
}

func basePairs(key *ecdsa.PrivateKey) []kv {
	return []kv{{"id", mustEnc("v4")}, {"secp256k1", mustEnc(crypto.CompressPubkey(&key.PublicKey))}}
}

func signedRecord(key *ecdsa.PrivateKey, seq interface{}, pairs []kv) []byte {
	c := buildContent(seq, pairs)
	return buildRecord(signContent(key, c), c)
}

func strictlySorted(p []kv) bool {
	for i := 1; i < len(p); i++ {
		if p[i-1].k >= p[i].k {
			return false
		}
	}
	return true
}

// emit a signed record with exactly this key sequence; the expectation follows from
// the definition of canonical (strictly ascending keys, <= 300 bytes), not from the code
func emitSigned(emit func(Sx), key *ecdsa.PrivateKey, seq uint64, pairs []kv) {
	b := signedRecord(key, seq, pairs)
	expect, hasID, hasKey := 0, false, false
	for _, p := range pairs {
		hasID = hasID || p.k == "id"
		hasKey = hasKey || p.k == "secp256k1"
	}
	if strictlySorted(pairs) && len(b) <= 300 && hasID && hasKey {
		expect = 1
	}
	emitRecord(emit, b, expect)
}

func smallVal(i int) []byte { return []byte{byte(1 + i%0x7f)} }

// all order violations of one sorted pair list: duplicate at every position (same and
// different value, twice and three times), adjacent swap at every position, rotation
func violations(emit func(Sx), key *ecdsa.PrivateKey, seq uint64, sorted []kv) {
	emitSigned(emit, key, seq, sorted)
	for i := range sorted {
		for _, v := range [][]byte{sorted[i].v, smallVal(i + 40)} {
			q := append(append(append([]kv{}, sorted[:i+1]...), kv{sorted[i].k, v}), sorted[i+1:]...)
			emitSigned(emit, key, seq, q)
		}
		q3 := append(append(append([]kv{}, sorted[:i+1]...), kv{sorted[i].k, smallVal(i)}, kv{sorted[i].k, smallVal(i + 1)}), sorted[i+1:]...)
		emitSigned(emit, key, seq, q3)
		if i+1 < len(sorted) {
			q := append([]kv{}, sorted...)
			q[i], q[i+1] = q[i+1], q[i]
			emitSigned(emit, key, seq, q)
		}
	}
	if len(sorted) >= 2 {
		emitSigned(emit, key, seq, append(append([]kv{}, sorted[1:]...), sorted[0])) // first key moved last
		emitSigned(emit, key, seq, append([]kv{sorted[len(sorted)-1]}, sorted[:len(sorted)-1]...))
	}
}

// deterministic part (same for every seed): every boundary key alone and doubled next to
// id/secp256k1, every adjacent pair of boundary keys in both orders
func genKeyOrderFixed(emit func(Sx)) {
	key, err := crypto.ToECDSA(bytes.Repeat([]byte{0x45}, 32))
	if err != nil {
		panic("hxlib: fixed key")
	}
	for i, k := range boundaryKeys {
		p := append(basePairs(key), kv{k, smallVal(i)})
		sortPairs(p)
		violations(emit, key, uint64(i), p)
	}
	ks := append([]string{}, boundaryKeys...)
	sort.Strings(ks)
	for i := 0; i+1 < len(ks); i++ {
		if len(ks[i])+len(ks[i+1]) > 100 {
			continue
		}
		p := append(basePairs(key), kv{ks[i], smallVal(i)}, kv{ks[i+1], smallVal(i + 1)})
		sortPairs(p)
		violations(emit, key, 1, p)
	}
	// the empty key first, in the middle of nothing else, and many times
	for n := 2; n <= 5; n++ {
		var p []kv
		for j := 0; j < n; j++ {
			p = append(p, kv{"", smallVal(j)})
		}
		emitSigned(emit, key, 7, append(p, basePairs(key)...))
		emitSigned(emit, key, 7, p) // without id/secp256k1: rejected at decode already
	}
	// non-string keys (a list where a key is expected), signed
	for _, rawKey := range [][]byte{{0xc0}, {0xc1, 0x61}, {0xc2, 0x61, 0x62}} {
		for pos := 0; pos <= 2; pos++ {
			base := basePairs(key)
			c := []interface{}{uint64(3)}
			for j := 0; j <= len(base); j++ {
				if j == pos {
					c = append(c, rlp.RawValue(rawKey), rlp.RawValue(smallVal(j)))
				}
				if j < len(base) {
					c = append(c, base[j].k, rlp.RawValue(base[j].v))
				}
			}
			emitRecord(emit, buildRecord(signContent(key, c), c), 0)
		}
	}
	// odd number of k/v items at every position's worth of length, and non-canonical seq
	for n := 0; n <= 2; n++ {
		base := basePairs(key)
		c := buildContent(uint64(9), base[:n])
		c = append(c, "zz")
		emitRecord(emit, buildRecord(signContent(key, c), c), 0)
	}
	for _, raw := range [][]byte{{0x81, 0x00}, {0x81, 0x7f}, {0x82, 0x00, 0x01}, {0x00}, {0xc0}, {0x89, 1, 2, 3, 4, 5, 6, 7, 8, 9}} {
		c := buildContent(rlp.RawValue(raw), basePairs(key))
		emitRecord(emit, buildRecord(signContent(key, c), c), 0)
	}
}

// random part: random subsets of boundary and random keys, one violation at a random
// position (first / middle / last are all reachable) or none
func genKeyOrder(r *Rng, n int, emit func(Sx)) {
	for i := 0; i < n; i++ {
		key := genKey(r)
		m := map[string][]byte{}
		for _, p := range basePairs(key) {
			if !r.Chance(1, 10) {
				m[p.k] = p.v
			}
		}
		cnt := r.Range(1, 5)
		budget := 120
		for j := 0; j < cnt; j++ {
			k := boundaryKeys[r.Intn(len(boundaryKeys))]
			if r.Chance(1, 4) {
				k = randKeyName(r)
			}
			if _, dup := m[k]; dup || len(k) > budget || k == "id" || k == "secp256k1" {
				continue
			}
			budget -= len(k) + 2
			m[k] = smallVal(r.Intn(200))
		}
		var p []kv
		for k, v := range m {
			p = append(p, kv{k, v})
		}
		sortPairs(p)
		seq := seqEdges[r.Intn(len(seqEdges))]
		if len(p) == 0 {
			continue
		}
		pos := []int{0, len(p) - 1, len(p) / 2, r.Intn(len(p))}[r.Intn(4)]
		switch r.Intn(5) {
		case 0:
		case 1, 2: // duplicate at pos
			v := p[pos].v
			if r.Bool() {
				v = smallVal(r.Intn(200))
			}
			p = append(append(append([]kv{}, p[:pos+1]...), kv{p[pos].k, v}), p[pos+1:]...)
		case 3: // adjacent swap at pos
			if pos+1 < len(p) {
				p[pos], p[pos+1] = p[pos+1], p[pos]
			} else if pos > 0 {
				p[pos], p[pos-1] = p[pos-1], p[pos]
			}
		default: // move one key to another place
			a, b := r.Intn(len(p)), r.Intn(len(p))
			p[a], p[b] = p[b], p[a]
		}
		emitSigned(emit, key, seq, p)
	}
}

func genRecords(r *Rng, n int, emit func(Sx)) {
	for i := 0; i < n; i++ {
		sp := genSpec(r)
		if r.Chance(1, 2) { // sizes around the limit
			sp = sp.padTo(r.Range(290, 308))
		}
		b := sp.bytes()
		honest := 2
		if len(b) <= 300 {
			honest = 1
			// cross-check the builder against the real signer on honest records
		} else {
			honest = 0
		}
		c := buildContent(sp.seq, sp.pairs)
		switch r.Intn(22) {
		case 0, 1, 2, 3, 4, 5:
			emitRecord(emit, b, honest)
		case 6: // two pairs swapped, signed over the swapped content
			if len(sp.pairs) >= 2 {
				q := append([]kv{}, sp.pairs...)
				i := r.Intn(len(q) - 1)
				q[i], q[i+1] = q[i+1], q[i]
				c2 := buildContent(sp.seq, q)
				emitRecord(emit, buildRecord(signContent(sp.key, c2), c2), 0)
			}
		case 7: // duplicate key
			q := append([]kv{}, sp.pairs...)
			i := r.Intn(len(q))
			q = append(q[:i+1], append([]kv{{q[i].k, randValue(r, 3)}}, q[i+1:]...)...)
			c2 := buildContent(sp.seq, q)
			emitRecord(emit, buildRecord(signContent(sp.key, c2), c2), 0)
		case 8: // non-canonical seq
			var raw []byte
			switch r.Intn(3) {
			case 0:
				raw = append([]byte{0x82, 0x00}, byte(r.Range(1, 255)))
			case 1:
				raw = []byte{0x81, byte(r.Intn(128))}
			default:
				raw = append([]byte{0x89}, r.Bytes(9)...)
			}
			c2 := buildContent(rlp.RawValue(raw), sp.pairs)
			emitRecord(emit, buildRecord(signContent(sp.key, c2), c2), 0)
		case 9: // trailing bytes after the record
			emitRecord(emit, append(append([]byte{}, b...), r.Bytes(r.Range(1, 3))...), 0)
		case 10: // extra byte inside the list (header adjusted): odd number of k/v elements
			c2 := append(append([]interface{}{}, c...), "zzz")
			emitRecord(emit, buildRecord(signContent(sp.key, c2), c2), 0)
		case 11: // oversized but correctly signed
			q := sp
			q.pairs = append([]kv{}, sp.pairs...)
			for j := range q.pairs {
				if q.pairs[j].k == "pad" {
					q.pairs = append(q.pairs[:j], q.pairs[j+1:]...)
					break
				}
			}
			emitRecord(emit, q.padTo(r.Range(301, 330)).bytes(), 0)
		case 12: // wrong signature
			sig := signContent(sp.key, c)
			switch r.Intn(3) {
			case 0:
				sig[r.Intn(64)] ^= byte(1 << uint(r.Intn(8)))
			case 1:
				sig = signContent(genKey(r), c)
			default:
				sig = sig[:r.Intn(64)]
			}
			emitRecord(emit, buildRecord(sig, c), 0)
		case 13: // signature over different content (seq changed afterwards)
			sig := signContent(sp.key, c)
			c2 := buildContent(sp.seq+1, sp.pairs)
			emitRecord(emit, buildRecord(sig, c2), 0)
		case 14: // fewer than two elements / not a list
			switch r.Intn(3) {
			case 0:
				emitRecord(emit, mustEnc([]interface{}{}), 0)
			case 1:
				emitRecord(emit, mustEnc([]interface{}{r.Bytes(64)}), 0)
			default:
				emitRecord(emit, mustEnc(r.Bytes(r.Intn(80))), 0)
			}
		case 15: // random byte flip anywhere (may or may not stay valid)
			m := append([]byte{}, b...)
			m[r.Intn(len(m))] ^= byte(1 << uint(r.Intn(8)))
			emitRecord(emit, m, 2)
		case 16: // truncation
			emitRecord(emit, b[:r.Intn(len(b))], 0)
		case 17: // scheme / key entries wrong
			q := append([]kv{}, sp.pairs...)
			for j := range q {
				switch {
				case q[j].k == "id" && r.Bool():
					q[j].v = mustEnc([]string{"v5", "", "v4x", "null"}[r.Intn(4)])
				case q[j].k == "secp256k1" && r.Bool():
					pk := crypto.CompressPubkey(&sp.key.PublicKey)
					switch r.Intn(3) {
					case 0:
						q[j].v = mustEnc(pk[:32])
					case 1:
						q[j].v = mustEnc([]interface{}{pk})
					default:
						q[j].v = mustEnc(crypto.FromECDSAPub(&sp.key.PublicKey))
					}
				}
			}
			if r.Chance(1, 4) {
				q = q[1:]
			}
			c2 := buildContent(sp.seq, q)
			emitRecord(emit, buildRecord(signContent(sp.key, c2), c2), 2)
		case 18: // outer list header with a wrong length
			m := append([]byte{}, b...)
			if m[0] >= 0xf8 {
				m[1+int(m[0]-0xf8)] += byte(r.Range(1, 3))
			} else {
				m[0] += byte(r.Range(1, 3))
			}
			emitRecord(emit, m, 0)
		case 19: // value framing broken: last value declares more content than present
			q := append([]kv{}, sp.pairs...)
			q = append(q, kv{"zzzz", []byte{0x85, 1, 2}})
			c2 := []interface{}{sp.seq}
			for _, p := range q {
				c2 = append(c2, p.k, rlp.RawValue(p.v))
			}
			emitRecord(emit, buildRecord(signContent(sp.key, c2), c2), 0)
		case 20: // through the real signer (enode.SignV4 + enr.Record.Set), when it fits
			var rec enr.Record
			rec.SetSeq(sp.seq)
			ok := true
			for _, p := range sp.pairs {
				if p.k == "id" || p.k == "secp256k1" {
					continue
				}
				v := rlp.RawValue(p.v)
				rec.Set(enr.WithEntry(p.k, &v))
			}
			if err := enode.SignV4(&rec, sp.key); err != nil {
				ok = false
			}
			if ok {
				eb, _ := rlp.EncodeToBytes(&rec)
				emitRecord(emit, eb, 1)
			}
		default: // arbitrary bytes
			emitRecord(emit, r.Bytes(r.Intn(120)), 2)
		}
	}
}

// ---------------------------------------------------------------- v5 header layer

var protoID = []byte("discv5")

func maskStream(id enode.ID, iv []byte) cipher.Stream {
	block, err := aes.NewCipher(id[:16])
	if err != nil {
		panic("hxlib: aes")
	}
	return cipher.NewCTR(block, iv)
}

// mask / unmask the header region of a packet in place (AES-CTR is an involution);
// authsize is read from the unmasked static header
func maskPacket(id enode.ID, pkt []byte, masked bool) {
	if len(pkt) < 39 {
		if len(pkt) > 16 {
			maskStream(id, pkt[:16]).XORKeyStream(pkt[16:], pkt[16:])
		}
		return
	}
	s := maskStream(id, pkt[:16])
	var asz int
	if masked {
		s.XORKeyStream(pkt[16:39], pkt[16:39])
		asz = int(binary.BigEndian.Uint16(pkt[37:39]))
	} else {
		asz = int(binary.BigEndian.Uint16(pkt[37:39]))
		s.XORKeyStream(pkt[16:39], pkt[16:39])
	}
	end := 39 + asz
	if end > len(pkt) {
		end = len(pkt)
	}
	s.XORKeyStream(pkt[39:end], pkt[39:end])
}

type hdrInfo struct {
	ok      bool
	flag    int
	authsz  int
	nonce   v5wire.Nonce
	msglen  int
}

// what the destination's checkValid would accept
func parseHeader(id enode.ID, pkt []byte) hdrInfo {
	if len(pkt) < 63 {
		return hdrInfo{}
	}
	c := append([]byte{}, pkt...)
	maskPacket(id, c, true)
	if !bytes.Equal(c[16:22], protoID) {
		return hdrInfo{}
	}
	ver := binary.BigEndian.Uint16(c[22:24])
	flag := int(c[24])
	asz := int(binary.BigEndian.Uint16(c[37:39]))
	rem := len(pkt) - 39
	if ver < 1 || (flag != 1 && rem < 48) || asz > rem {
		return hdrInfo{}
	}
	h := hdrInfo{ok: true, flag: flag, authsz: asz, msglen: rem - asz}
	copy(h.nonce[:], c[25:37])
	return h
}

type nodeEnv struct {
	key  *ecdsa.PrivateKey
	db   *enode.DB
	ln   *enode.LocalNode
	id   enode.ID
	addr string
}

func newNodeEnv(priv []byte, seq uint64, idx int) *nodeEnv {
	key, err := crypto.ToECDSA(priv)
	if err != nil {
		panic("hxlib: bad private key in case")
	}
	db, _ := enode.OpenDB("")
	id := enode.PubkeyToIDV4(&key.PublicKey)
	if seq > 1 {
		db.VerifStoreLocalSeq(id, seq-1)
	}
	ln := enode.NewLocalNode(db, key)
	ln.SetStaticIP(net.IP{127, 0, 0, byte(idx + 1)})
	ln.SetFallbackUDP(30300 + idx)
	return &nodeEnv{key: key, db: db, ln: ln, id: id, addr: fmt.Sprintf("127.0.0.%d:%d", idx+1, 30300+idx)}
}

func obDecode(src enode.ID, n *enode.Node, p v5wire.Packet, err error, flag int, full bool) (Sx, string) {
	if err != nil {
		c := v5Class(err, flag)
		return L(I(1), I(c), B(src[:])), fmt.Sprintf("v5-err%d", c)
	}
	switch q := p.(type) {
	case *v5wire.Unknown:
		if full {
			return L(I(2), B(src[:]), B(q.Nonce[:])), "v5-unknown"
		}
		return L(I(2), B(src[:])), "v5-unknown"
	case *v5wire.Whoareyou:
		if full {
			return L(I(3), B(q.Nonce[:]), B(q.IDNonce[:]), U(q.RecordSeq), B(q.ChallengeData)), "v5-whoareyou"
		}
		return L(I(3), U(q.RecordSeq)), "v5-whoareyou"
	}
	pt := append([]byte{p.Kind()}, mustEnc(p)...)
	if full {
		return L(I(4), B(src[:]), B(pt)), "v5-msg"
	}
	return L(I(4), B(src[:]), Bool(n != nil), B(pt)), "v5-msg"
}

func runHeader(l SL) Result {
	id := AsBytes(l[1])
	input := AsBytes(l[2])
	env := newNodeEnv(AsBytes(l[3]), 0, 0)
	defer env.db.Close()
	if !bytes.Equal(env.id[:], id) {
		panic("hxlib: node id does not match the key")
	}
	codec := v5wire.NewCodec(env.ln, env.key, new(mclock.Simulated), nil)
	pkt := append([]byte{}, input...)
	flag := -1
	if len(pkt) >= 39 {
		flag = int(pkt[24])
	}
	maskPacket(env.id, pkt, false)
	src, n, p, err := codec.Decode(pkt, "127.0.0.9:1")
	ob, tag := obDecode(src, n, p, err, flag, true)
	res := Result{Obs: ob, Tags: []string{"hdr-" + tag}}
	if err == nil {
		switch p.(type) {
		case *v5wire.Unknown, *v5wire.Whoareyou:
		default:
			res.Oracle = "a codec without any session accepted a message packet"
		}
		res.NonTrivial = true
	} else {
		res.NonTrivial = len(input) >= 63
	}
	return res
}

func be16(v int) []byte { return []byte{byte(v >> 8), byte(v)} }

func genHeaders(r *Rng, n int, emit func(Sx)) {
	for i := 0; i < n; i++ {
		key := genKey(r)
		id := enode.PubkeyToIDV4(&key.PublicKey)
		priv := crypto.FromECDSA(key)
		var pkt []byte
		if r.Chance(1, 12) {
			pkt = r.Bytes(r.Intn(140))
		} else {
			flag := r.Intn(3)
			var auth []byte
			switch flag {
			case 0:
				auth = r.Bytes(32)
			case 1:
				auth = r.Bytes(24)
			default:
				sig, pk, rec := r.Range(0, 70), r.Range(0, 40), r.Intn(60)
				if r.Chance(2, 3) {
					sig, pk = 64, 33
				}
				auth = append(r.Bytes(32), byte(sig), byte(pk))
				auth = append(auth, r.Bytes(sig+pk+rec)...)
				if r.Chance(1, 6) {
					auth = auth[:r.Intn(len(auth)+1)]
				}
			}
			if r.Chance(1, 8) {
				auth = r.Bytes(r.Intn(70))
			}
			msg := r.Bytes(r.Intn(60))
			if flag == 1 && r.Chance(3, 4) {
				msg = nil
			}
			proto := append([]byte{}, protoID...)
			ver, asz := 1, len(auth)
			switch r.Intn(14) {
			case 0:
				proto[r.Intn(6)] ^= byte(r.Range(1, 255))
			case 1:
				ver = []int{0, 2, 256, 65535}[r.Intn(4)]
			case 2:
				flag = r.Range(3, 255)
			case 3:
				asz = len(auth) + r.Range(1, 80)
			case 4:
				asz = r.Intn(len(auth) + 1)
			case 5:
				asz = []int{0, 65535, len(auth) + len(msg), len(auth) + len(msg) + 1}[r.Intn(4)]
			}
			pkt = append(pkt, r.Bytes(16)...)
			pkt = append(pkt, proto...)
			pkt = append(pkt, be16(ver)...)
			pkt = append(pkt, byte(flag))
			pkt = append(pkt, r.Bytes(12)...)
			pkt = append(pkt, be16(asz)...)
			pkt = append(pkt, auth...)
			pkt = append(pkt, msg...)
			if r.Chance(1, 10) {
				pkt = pkt[:r.Intn(len(pkt)+1)]
			}
		}
		emit(L(I(1), B(id[:]), B(pkt), B(priv)))
	}
}

// ---------------------------------------------------------------- v5 session layer

type poolPkt struct {
	data   []byte
	dest   int
	sender int
	kind   int // -1 dummy, 0 random, 1 message, 2 whoareyou, 3 handshake
	pt     []byte
	gen    int // id of the session it was sealed under (0 none)
	chal   int // handshake: id of the challenge it answers (0 = none / unknown)
}

type lastW struct {
	w    *v5wire.Whoareyou
	chal int // id of the honest challenge this is an untampered copy of, else 0
}

func parseMsg(pt []byte) v5wire.Packet {
	p, err := v5wire.DecodeMessage(pt[0], pt[1:])
	if err != nil {
		panic("hxlib: bad message in case: " + err.Error())
	}
	return p
}

func runSession(l SL) Result {
	nodesS, msgsS, ops := AsList(l[1]), AsList(l[2]), AsList(l[3])
	n := len(nodesS)
	envs := make([]*nodeEnv, n)
	codecs := make([]*v5wire.Codec, n)
	clock := new(mclock.Simulated)
	for i, ns := range nodesS {
		f := AsList(ns)
		envs[i] = newNodeEnv(AsBytes(f[1]), AsU64(f[2]), i)
		defer envs[i].db.Close()
		rec, _ := rlp.EncodeToBytes(envs[i].ln.Node().Record())
		if !bytes.Equal(envs[i].id[:], AsBytes(f[0])) || !bytes.Equal(rec, AsBytes(f[3])) || envs[i].ln.Node().Seq() != AsU64(f[2]) {
			panic("hxlib: node description does not match the rebuilt local node")
		}
		codecs[i] = v5wire.NewCodec(envs[i].ln, envs[i].key, clock, nil)
	}
	msgs := make([][]byte, len(msgsS))
	for i, m := range msgsS {
		msgs[i] = AsBytes(m)
	}
	var (
		pool    []poolPkt
		lastWs  = make([]*lastW, n)
		sessGen = make([][]int, n) // sessGen[a][b]: id of the session a holds for b
		chal    = make([][]int, n) // chal[a][b]: id of the challenge a has pending for b
		obs     []Sx
		fails   []string
		tags    = map[string]bool{}
		accepted, rejectedTamper, crossRejected int
	)
	for i := range sessGen {
		sessGen[i] = make([]int, n)
		chal[i] = make([]int, n)
	}
	sessOb := func(a, b int) []Sx {
		ok, ctr := codecs[a].VerifSession(envs[b].id, envs[b].addr)
		return []Sx{Opt(ok, U(uint64(ctr))), Bool(codecs[a].CurrentChallenge(envs[b].id, envs[b].addr) != nil)}
	}
	obSent := func(p []byte, dest int, extra []Sx) Sx {
		h := parseHeader(envs[dest].id, p)
		if !h.ok {
			return L(I(-2))
		}
		return SL(append([]Sx{I(int64(h.flag)), I(int64(h.authsz)), I(int64(len(p)))}, extra...))
	}
	idx := func(s Sx) int {
		v := AsInt(s)
		if v < 0 || v >= n {
			panic("hxlib: node index out of range")
		}
		return v
	}
	for _, opS := range ops {
		op := AsList(opS)
		switch AsInt(op[0]) {
		case 0: // send
			f, t, m := idx(op[1]), idx(op[2]), AsInt(op[3])
			if m < 0 || m >= len(msgs) {
				panic("hxlib: message index out of range")
			}
			had, _ := codecs[f].VerifSession(envs[t].id, envs[t].addr)
			enc, _, err := codecs[f].Encode(envs[t].id, envs[t].addr, parseMsg(msgs[m]), nil)
			if err != nil {
				fails = append(fails, "Encode failed: "+err.Error())
				obs = append(obs, L(I(-1), I(1)))
				continue
			}
			p := poolPkt{data: append([]byte{}, enc...), dest: t, sender: f, kind: 0, pt: msgs[m]}
			if had {
				p.kind, p.gen = 1, sessGen[f][t]
			}
			pool = append(pool, p)
			obs = append(obs, obSent(p.data, t, sessOb(f, t)))
			tags[fmt.Sprintf("send-kind%d", p.kind)] = true
		case 1: // deliver
			pk, t, fa := AsInt(op[1]), idx(op[2]), idx(op[3])
			rg, off, xv := AsInt(op[4]), AsInt(op[5]), byte(AsInt(op[6]))
			if pk < 0 || pk >= len(pool) {
				obs = append(obs, L())
				continue
			}
			pp := pool[pk]
			data := append([]byte{}, pp.data...)
			h := parseHeader(envs[pp.dest].id, data)
			tampered := false
			if h.ok && rg != 0 {
				xorAt := func(i int) {
					if i < len(data) {
						data[i] ^= xv
						tampered = true
					}
				}
				switch rg {
				case 1:
					xorAt(off % 16)
				case 2:
					xorAt(16 + off%23)
				case 3:
					if h.authsz > 0 {
						xorAt(39 + off%h.authsz)
					}
				case 4:
					if h.msglen > 0 {
						xorAt(39 + h.authsz + off%h.msglen)
					}
				case 5:
					k := off%40 + 1
					if k > len(data) {
						k = len(data)
					}
					data = data[:len(data)-k]
					tampered = true
				case 6:
					data = append(data, bytes.Repeat([]byte{xv}, off%8+1)...)
					tampered = true
				}
			}
			// the flag as the receiver will see it (for error classification only)
			flag := -1
			if hh := append([]byte{}, data...); len(hh) >= 39 {
				maskPacket(envs[t].id, hh, true)
				flag = int(hh[24])
			}
			src, nd, p, err := codecs[t].Decode(data, envs[fa].addr)
			ob, tag := obDecode(src, nd, p, err, flag, false)
			tags[tag] = true
			obs = append(obs, SL(append([]Sx{ob}, sessOb(t, fa)...)))
			// ---- ground truth / direct oracle ----
			honest := !tampered && t == pp.dest && fa == pp.sender
			isMsg := err == nil && p.Kind() != v5wire.UnknownPacket && p.Kind() != v5wire.WhoareyouPacket
			mustAccept := false
			switch pp.kind {
			case 1:
				mustAccept = honest && pp.gen != 0 && sessGen[t][pp.sender] == pp.gen
			case 3:
				mustAccept = honest && pp.chal != 0 && chal[t][pp.sender] == pp.chal
			}
			if isMsg {
				accepted++
				got := append([]byte{p.Kind()}, mustEnc(p)...)
				switch {
				case tampered:
					fails = append(fails, fmt.Sprintf("tampered packet #%d (region %d) was accepted as a message", pk, rg))
				case t != pp.dest:
					fails = append(fails, fmt.Sprintf("packet #%d built for node %d was accepted by node %d", pk, pp.dest, t))
				case !mustAccept:
					fails = append(fails, fmt.Sprintf("packet #%d accepted outside its session/handshake (replay across sessions or wrong source)", pk))
				case !bytes.Equal(got, pp.pt) || src != envs[pp.sender].id:
					fails = append(fails, fmt.Sprintf("packet #%d decoded to a different message or source", pk))
				}
				if pp.kind == 3 {
					if nd == nil || nd.ID() != envs[pp.sender].id {
						fails = append(fails, "handshake accepted without the sender's node")
					}
					sessGen[t][pp.sender] = pk + 1
				}
			} else {
				if mustAccept {
					fails = append(fails, fmt.Sprintf("honest packet #%d (kind %d) inside its session was not decoded: %v", pk, pp.kind, err))
				}
				if tampered && (pp.kind == 1 || pp.kind == 3) {
					rejectedTamper++
				}
				if !tampered && pp.kind == 1 && pp.gen != 0 && sessGen[t][pp.sender] != pp.gen {
					crossRejected++
				}
			}
			if w, ok := p.(*v5wire.Whoareyou); ok && err == nil {
				lw := &lastW{w: w}
				if pp.kind == 2 && t == pp.dest {
					// WHOAREYOU packets are not authenticated; what matters for the handshake is
					// the challenge data.  It is "the honest challenge" iff it equals the unmasked
					// header of the packet as sent (trailing junk is ignored by the decoder).
					hc := append([]byte{}, pp.data...)
					maskPacket(envs[t].id, hc, true)
					if bytes.Equal(w.ChallengeData, hc) {
						lw.chal = pk + 1
					} else if !tampered {
						fails = append(fails, "WHOAREYOU challenge data is not the unmasked packet")
					}
				}
				lastWs[t] = lw
			}
			// keep the pending-challenge bookkeeping honest
			for b := 0; b < n; b++ {
				if chal[t][b] != 0 && codecs[t].CurrentChallenge(envs[b].id, envs[b].addr) == nil {
					chal[t][b] = 0
				}
			}
		case 2: // whoareyou
			f, t, pk, kn := idx(op[1]), idx(op[2]), AsInt(op[3]), AsInt(op[4])
			var h hdrInfo
			if pk >= 0 && pk < len(pool) {
				h = parseHeader(envs[pool[pk].dest].id, pool[pk].data)
			}
			if !h.ok {
				pool = append(pool, poolPkt{dest: t, sender: f, kind: -1})
				obs = append(obs, L())
				continue
			}
			w := &v5wire.Whoareyou{Nonce: h.nonce}
			copy(w.IDNonce[:], AsBytes(op[5]))
			switch kn {
			case 0:
			case 1:
				w.Node, w.RecordSeq = envs[t].ln.Node(), envs[t].ln.Node().Seq()
			default:
				w.Node, w.RecordSeq = envs[t].ln.Node(), envs[t].ln.Node().Seq()-1
			}
			enc, _, err := codecs[f].Encode(envs[t].id, envs[t].addr, w, nil)
			if err != nil {
				fails = append(fails, "Encode(WHOAREYOU) failed: "+err.Error())
				obs = append(obs, L(I(-1), I(1)))
				continue
			}
			pool = append(pool, poolPkt{data: append([]byte{}, enc...), dest: t, sender: f, kind: 2})
			chal[f][t] = len(pool)
			obs = append(obs, obSent(pool[len(pool)-1].data, t, sessOb(f, t)))
			tags[fmt.Sprintf("whoareyou-knows%d", kn)] = true
		case 3: // handshake
			f, t, m := idx(op[1]), idx(op[2]), AsInt(op[3])
			if m < 0 || m >= len(msgs) {
				panic("hxlib: message index out of range")
			}
			lw := lastWs[f]
			if lw == nil {
				pool = append(pool, poolPkt{dest: t, sender: f, kind: -1})
				obs = append(obs, L())
				continue
			}
			ch := *lw.w
			ch.Node = envs[t].ln.Node()
			enc, _, err := codecs[f].Encode(envs[t].id, envs[t].addr, parseMsg(msgs[m]), &ch)
			if err != nil {
				fails = append(fails, "Encode(handshake) failed: "+err.Error())
				obs = append(obs, L(I(-1), I(1)))
				continue
			}
			p := poolPkt{data: append([]byte{}, enc...), dest: t, sender: f, kind: 3, pt: msgs[m]}
			// it answers the honest challenge only if that challenge was issued by t for f
			if lw.chal != 0 && pool[lw.chal-1].sender == t && pool[lw.chal-1].dest == f {
				p.chal = lw.chal
			}
			pool = append(pool, p)
			sessGen[f][t] = len(pool)
			obs = append(obs, obSent(p.data, t, sessOb(f, t)))
			tags["handshake"] = true
		case 4: // restart
			x := idx(op[1])
			codecs[x] = v5wire.NewCodec(envs[x].ln, envs[x].key, clock, nil)
			lastWs[x] = nil
			for b := 0; b < n; b++ {
				sessGen[x][b], chal[x][b] = 0, 0
			}
			obs = append(obs, L())
			tags["restart"] = true
		default:
			panic("hxlib: unknown op")
		}
	}
	res := Result{Obs: SL(obs)}
	for t := range tags {
		res.Tags = append(res.Tags, t)
	}
	if accepted > 0 {
		res.Tags = append(res.Tags, "sess-accepted")
	}
	if rejectedTamper > 0 {
		res.Tags = append(res.Tags, "sess-tamper-rejected")
	}
	if crossRejected > 0 {
		res.Tags = append(res.Tags, "sess-cross-rejected")
	}
	res.NonTrivial = accepted > 0
	if len(fails) > 0 {
		res.Oracle = strings.Join(fails, "; ")
	}
	return res
}

// ---- generation of sessions ----

func genMsg(r *Rng, recs [][]byte) []byte {
	reqid := r.Bytes(r.Intn(9))
	var p v5wire.Packet
	switch r.Intn(6) {
	case 0:
		p = &v5wire.Ping{ReqID: reqid, ENRSeq: r.U64() >> uint(r.Intn(64))}
	case 1:
		p = &v5wire.Pong{ReqID: reqid, ENRSeq: uint64(r.Intn(1000)), ToIP: net.IP(r.Bytes(4)), ToPort: uint16(r.Intn(65536))}
	case 2:
		d := make([]uint, r.Intn(5))
		for i := range d {
			d[i] = uint(r.Intn(257))
		}
		p = &v5wire.Findnode{ReqID: reqid, Distances: d}
	case 3:
		nd := &v5wire.Nodes{ReqID: reqid, RespCount: uint8(r.Range(1, 5))}
		for i := r.Intn(3); i > 0; i-- {
			var rec enr.Record
			if err := rlp.DecodeBytes(recs[r.Intn(len(recs))], &rec); err != nil {
				panic("hxlib: record")
			}
			nd.Nodes = append(nd.Nodes, &rec)
		}
		p = nd
	case 4:
		p = &v5wire.TalkRequest{ReqID: reqid, Protocol: string(r.Bytes(r.Intn(6))), Message: r.Bytes(r.Intn(40))}
	default:
		p = &v5wire.TalkResponse{ReqID: reqid, Message: r.Bytes(r.Intn(40))}
	}
	return append([]byte{p.Kind()}, mustEnc(p)...)
}

type nodeSet struct {
	nodes []Sx
	recs  [][]byte
}

// node triples are expensive to build (key generation, database, record signing): a
// small pool per generator run is shared by the session scripts
func genNodeSet(r *Rng) nodeSet {
	var ns nodeSet
	for i := 0; i < 3; i++ {
		key := genKey(r)
		seq := uint64(r.Range(2, 300))
		env := newNodeEnv(crypto.FromECDSA(key), seq, i)
		rec, _ := rlp.EncodeToBytes(env.ln.Node().Record())
		ns.nodes = append(ns.nodes, L(B(env.id[:]), B(crypto.FromECDSA(key)), U(env.ln.Node().Seq()), B(rec)))
		ns.recs = append(ns.recs, rec)
		env.db.Close()
	}
	return ns
}

func genSession(r *Rng, ns nodeSet, nops int, emit func(Sx)) {
	const n = 3
	nodes, recs := ns.nodes, ns.recs
	var msgs []Sx
	nm := r.Range(2, 5)
	for i := 0; i < nm; i++ {
		msgs = append(msgs, B(genMsg(r, recs)))
	}
	var ops []Sx
	pool := 0
	type pinfo struct{ sender, dest, kind int }
	var pinfos []pinfo
	add := func(op Sx) { ops = append(ops, op) }
	send := func(f, t int) int {
		add(L(I(0), I(int64(f)), I(int64(t)), I(int64(r.Intn(nm))), B(r.Bytes(8)), B(r.Bytes(12)), B(r.Bytes(16)), B(r.Bytes(20))))
		pinfos = append(pinfos, pinfo{f, t, 0})
		pool++
		return pool - 1
	}
	deliver := func(pk, t, fa int) {
		rg, off, xv := 0, 0, 1
		if r.Chance(1, 4) {
			rg, off, xv = r.Range(1, 6), r.Intn(400), r.Range(1, 255)
		}
		add(L(I(1), I(int64(pk)), I(int64(t)), I(int64(fa)), I(int64(rg)), I(int64(off)), I(int64(xv))))
	}
	deliverHonest := func(pk int) {
		add(L(I(1), I(int64(pk)), I(int64(pinfos[pk].dest)), I(int64(pinfos[pk].sender)), I(0), I(0), I(1)))
	}
	whoareyou := func(f, t, pk int) int {
		add(L(I(2), I(int64(f)), I(int64(t)), I(int64(pk)), I(int64(r.Intn(3))), B(r.Bytes(16)), B(r.Bytes(16))))
		pinfos = append(pinfos, pinfo{f, t, 2})
		pool++
		return pool - 1
	}
	handshake := func(f, t int) int {
		add(L(I(3), I(int64(f)), I(int64(t)), I(int64(r.Intn(nm))), B(r.Bytes(32)), B(r.Bytes(8)), B(r.Bytes(16))))
		pinfos = append(pinfos, pinfo{f, t, 3})
		pool++
		return pool - 1
	}
	lossy := func(f func()) { // a step of an honest flow that may get lost
		if !r.Chance(1, 8) {
			f()
		}
	}
	for len(ops) < nops {
		a := r.Intn(n)
		b := (a + 1 + r.Intn(n-1)) % n
		switch r.Intn(12) {
		case 0, 1, 2, 3: // full honest establishment a -> b, then traffic both ways
			p1 := send(a, b)
			lossy(func() { deliverHonest(p1) })
			p2 := whoareyou(b, a, p1)
			lossy(func() { deliverHonest(p2) })
			p3 := handshake(a, b)
			lossy(func() { deliverHonest(p3) })
			for k := r.Intn(4); k > 0; k-- {
				if r.Bool() {
					deliverHonest(send(a, b))
				} else {
					deliverHonest(send(b, a))
				}
			}
		case 4, 5: // traffic on whatever sessions exist
			deliverHonest(send(a, b))
		case 6: // restart
			add(L(I(4), I(int64(a))))
		case 7, 8: // replay / tamper / wrong destination / wrong source of an old packet
			if pool > 0 {
				pk := r.Intn(pool)
				t, fa := pinfos[pk].dest, pinfos[pk].sender
				switch r.Intn(4) {
				case 0:
					t = r.Intn(n)
				case 1:
					fa = r.Intn(n)
				}
				deliver(pk, t, fa)
			}
		case 9: // tampered copy of a fresh packet, then the original
			p := send(a, b)
			add(L(I(1), I(int64(p)), I(int64(b)), I(int64(a)), I(int64(r.Range(1, 6))), I(int64(r.Intn(400))), I(int64(r.Range(1, 255)))))
			deliverHonest(p)
		case 10: // stray handshake / whoareyou
			if r.Bool() {
				deliver(handshake(a, b), b, a)
			} else if pool > 0 {
				deliver(whoareyou(a, b, r.Intn(pool)), b, a)
			}
		default: // tampered handshake, then the original
			p1 := send(a, b)
			deliverHonest(p1)
			deliverHonest(whoareyou(b, a, p1))
			p3 := handshake(a, b)
			if r.Bool() {
				add(L(I(1), I(int64(p3)), I(int64(b)), I(int64(a)), I(int64(r.Range(1, 6))), I(int64(r.Intn(400))), I(int64(r.Range(1, 255)))))
			}
			deliverHonest(p3)
			deliverHonest(send(b, a))
		}
	}
	emit(L(I(2), SL(nodes), SL(msgs), SL(ops)))
}

// ---------------------------------------------------------------- entry points

func run(c Sx) Result {
	l := AsList(c)
	switch AsInt(l[0]) {
	case 0:
		return runRecord(l)
	case 1:
		return runHeader(l)
	case 2:
		return runSession(l)
	}
	panic("hxlib: unknown case kind")
}

func gen(r *Rng, tier string, emit func(Sx)) {
	r = NewRng(r.U64())
	nrec, nhdr, nsess, nops := 2500, 1200, 200, 40
	if tier == "thorough" {
		nrec, nhdr, nsess, nops = 40000, 15000, 3000, 60
	}
	genKeyOrderFixed(emit)
	genKeyOrder(r, nrec/4, emit)
	genRecords(r, nrec, emit)
	genHeaders(r, nhdr, emit)
	var sets []nodeSet
	for i := 0; i < 8; i++ {
		sets = append(sets, genNodeSet(r))
	}
	for i := 0; i < nsess; i++ {
		genSession(r, sets[r.Intn(len(sets))], nops, emit)
	}
}

func main() {
	Main(Family{
		ID: "C45",
		Rule: "records: random key sets (id, secp256k1, ip, tcp, udp, unknown keys, values of random sizes and shapes, padding to 290..308 bytes, seq boundary values) signed with real keys (own builder and enode.SignV4) and 16 mutation classes plus a key-order stress stream (every boundary key: empty, single bytes, prefixes of each other, 55/56/57-byte and non-UTF8 keys; duplicates and adjacent swaps at every position, each record correctly signed by its owner so that canonicity is the only reason to reject; list-typed keys, odd element counts, non-canonical seq) (unsorted, duplicate, non-canonical seq, trailing bytes, odd element count, oversized, wrong signature, truncation, bit flips, wrong scheme/key entries, broken framing, random bytes); " +
			"v5 header layer: structured unmasked packets of the three kinds with mutated protocol id / version / flag / authsize / lengths, plus random bytes, decoded by a fresh codec; " +
			"v5 session layer: three real codecs (fixed clock) running scripts of honest establishments (random packet, WHOAREYOU, handshake, traffic) with losses, restarts, replays of old packets, deliveries to the wrong node / from the wrong address and byte tampering in every packet region. " +
			"Non-trivial: a record that decodes (or a record input > 40 bytes), a header case of >= 63 bytes, a session script in which at least one message was accepted.",
		Gen: gen,
		Run: run,
	})
}
