// Family c08: trie/proof.go Trie.Prove / VerifyProof (and trie/node.go decodeNode through
// it) vs coq/Trie/Proof.v (with coq/Trie/Hash.v node_enc / decode_node_f and the Coq
// Keccak).  A case holds one or two in-memory tries (insert histories) and queries:
//
//	(0 ti key)          Prove -> the ordered list of (hash, encoding) Puts
//	(1 ti key)          VerifyProof(Hash(), key, Prove(key))
//	(2 ti key db)       VerifyProof(Hash(ti), key, db) for an explicit proof database
//	(3 root key db)     VerifyProof(root, key, db) for an arbitrary root
package main

import (
	"bytes"
	"fmt"
	"os"
	"strings"

	. "gethverif/harness/hxlib"
	"github.com/ethereum/go-ethereum/common"
	"github.com/ethereum/go-ethereum/core/rawdb"
	"github.com/ethereum/go-ethereum/core/types"
	"github.com/ethereum/go-ethereum/crypto"
	"github.com/ethereum/go-ethereum/ethdb/memorydb"
	"github.com/ethereum/go-ethereum/rlp"
	"github.com/ethereum/go-ethereum/trie"
	"github.com/ethereum/go-ethereum/triedb"
)

type put struct{ k, v []byte }

var (
	shrinkMode      = len(os.Args) > 1 && os.Args[1] == "shrink"
	shrinkFirst     = true
	shrinkOnlyKnown bool
)

// recorder is the ethdb.KeyValueWriter handed to Prove: it keeps the Puts in order.
type recorder struct{ puts []put }

func (r *recorder) Put(k, v []byte) error {
	r.puts = append(r.puts, put{common.CopyBytes(k), common.CopyBytes(v)})
	return nil
}
func (r *recorder) Delete(k []byte) error { panic("Prove called Delete") }

func newTrie() *trie.Trie {
	return trie.NewEmpty(triedb.NewDatabase(rawdb.NewMemoryDatabase(), nil))
}

// build applies an insert history (empty value = delete) and returns the trie and the
// reference map (the oracle's notion of "the trie's value").
func build(kvs SL) (*trie.Trie, map[string][]byte) {
	t := newTrie()
	ref := map[string][]byte{}
	for _, e := range kvs {
		p := AsList(e)
		k, v := AsBytes(p[0]), AsBytes(p[1])
		t.MustUpdate(k, v)
		if len(v) == 0 {
			delete(ref, string(k))
		} else {
			ref[string(k)] = v
		}
	}
	return t, ref
}

func prove(t *trie.Trie, key []byte) (puts []put, panicked string) {
	defer func() {
		if e := recover(); e != nil {
			panicked = fmt.Sprint(e)
		}
	}()
	rec := &recorder{}
	if err := t.Prove(key, rec); err != nil {
		return nil, "error: " + err.Error()
	}
	return rec.puts, ""
}

func putsSx(ps []put) Sx {
	l := SL{}
	for _, p := range ps {
		l = append(l, L(B(p.k), B(p.v)))
	}
	return l
}

func sxPuts(v Sx) []put {
	var ps []put
	for _, e := range AsList(v) {
		p := AsList(e)
		ps = append(ps, put{AsBytes(p[0]), AsBytes(p[1])})
	}
	return ps
}

func memdb(ps []put) *memorydb.Database {
	db := memorydb.New()
	for _, p := range ps {
		v := p.v
		if v == nil {
			v = []byte{}
		}
		db.Put(p.k, v)
	}
	return db
}

func hashKeyed(ps []put) bool {
	for _, p := range ps {
		if !bytes.Equal(p.k, crypto.Keccak256(p.v)) {
			return false
		}
	}
	return true
}

var rlpErrs = []struct {
	s string
	c int64
}{
	{"oversized embedded node", 101},
	{"invalid RLP string size", 102},
	{"invalid number of list elements", 100},
	{"rlp: expected String or Byte", 8},
	{"rlp: expected List", 9},
	{"rlp: non-canonical size information", 4},
	{"rlp: non-canonical integer format", 5},
	{"rlp: element is larger than containing list", 6},
	{"rlp: value size exceeds available input length", 7},
	{"unexpected EOF", 3},
}

// classify maps VerifyProof's result to the observable: error strings become classes.
func classify(val []byte, err error) Sx {
	if err == nil {
		return L(I(0), Opt(val != nil, B(val)))
	}
	s := err.Error()
	var i int
	if strings.HasPrefix(s, "proof node ") && strings.HasSuffix(s, "missing") {
		fmt.Sscanf(s, "proof node %d ", &i)
		return L(I(1), I(int64(i)))
	}
	if strings.HasPrefix(s, "bad proof node ") {
		fmt.Sscanf(s, "bad proof node %d:", &i)
		for _, e := range rlpErrs {
			if strings.Contains(s, e.s) {
				return L(I(2), I(int64(i)), I(e.c))
			}
		}
		return L(I(2), I(int64(i)), I(-1))
	}
	return L(I(9))
}

func verify(root common.Hash, key []byte, ps []put) (obs Sx, val []byte, err error, panicked string) {
	defer func() {
		if e := recover(); e != nil {
			panicked = fmt.Sprint(e)
			obs = L(I(3))
		}
	}()
	val, err = trie.VerifyProof(root, key, memdb(ps))
	return classify(val, err), val, err, ""
}

func run(c Sx) Result {
	top := AsList(c)
	var tries []*trie.Trie
	var refs []map[string][]byte
	var roots SL
	maxKeys := 0
	for _, ts := range AsList(top[0]) {
		t, ref := build(AsList(ts))
		tries = append(tries, t)
		refs = append(refs, ref)
		roots = append(roots, B(t.Hash().Bytes()))
		maxKeys = max(maxKeys, len(ref))
	}
	var obs SL
	var fails, known []string
	res := Result{}
	tag := map[string]bool{}
	nval, nerr, nabs := 0, 0, 0
	fail := func(f string, a ...interface{}) {
		if len(fails) < 4 {
			fails = append(fails, fmt.Sprintf(f, a...))
		}
	}
	note := func(o Sx, val []byte, err error) {
		switch {
		case err != nil:
			nerr++
			tag["res:"+String(AsList(o)[0])+func() string {
				if l := AsList(o); len(l) == 3 {
					return "." + String(l[2])
				}
				return ""
			}()] = true
		case val == nil:
			nabs++
			tag["res:absent"] = true
		default:
			nval++
			tag["res:value"] = true
		}
	}
	for qi, q := range AsList(top[1]) {
		l := AsList(q)
		switch AsInt(l[0]) {
		case 0: // Prove
			ti, key := AsInt(l[1]), AsBytes(l[2])
			t, ref := tries[ti], refs[ti]
			ps, pan := prove(t, key)
			if pan != "" {
				obs = append(obs, L(I(-2), I(2)))
				fail("q%d: Prove(%x) failed: %s", qi, key, pan)
				break
			}
			obs = append(obs, L(I(0), putsSx(ps)))
			tag[fmt.Sprintf("prooflen%d", min(len(ps), 8))] = true
			if len(ps) >= 16 {
				tag[fmt.Sprintf("prooflen>=%d", min(len(ps)/16*16, 64))] = true
			}
			if len(ps) == 2*len(key)+1 {
				tag[fmt.Sprintf("proofmax:keylen%d", len(key))] = true // one node per nibble plus the terminator leaf
			}
			if len(ref) == 0 {
				tag["emptytrie"] = true
				if len(ps) != 0 {
					fail("q%d: empty trie, %d proof nodes", qi, len(ps))
				}
				break
			}
			// direct oracle on the proof's shape: a hash chain from the root
			if len(ps) == 0 || !bytes.Equal(ps[0].k, t.Hash().Bytes()) {
				fail("q%d: Prove(%x): first proof node is not the root node", qi, key)
			}
			for i, p := range ps {
				if !bytes.Equal(p.k, crypto.Keccak256(p.v)) {
					fail("q%d: Prove(%x): node %d stored under a key that is not its hash", qi, key, i)
				}
				if i > 0 && len(p.v) < 32 {
					fail("q%d: Prove(%x): embedded node %d emitted", qi, key, i)
				}
				if i > 0 && !bytes.Contains(ps[i-1].v, p.k) {
					fail("q%d: Prove(%x): node %d is not referenced by node %d", qi, key, i, i-1)
				}
			}
		case 1: // Prove + VerifyProof: completeness
			ti, key := AsInt(l[1]), AsBytes(l[2])
			t, ref := tries[ti], refs[ti]
			ps, pan := prove(t, key)
			if pan != "" {
				obs = append(obs, L(I(-2), I(2)))
				fail("q%d: Prove(%x) failed: %s", qi, key, pan)
				break
			}
			o, val, err, vpan := verify(t.Hash(), key, ps)
			obs = append(obs, o)
			if vpan != "" {
				fail("q%d: VerifyProof panicked on the genuine proof of %x: %s", qi, key, vpan)
				break
			}
			note(o, val, err)
			truth, present := ref[string(key)]
			if present {
				tag["genuine:present"] = true
			} else {
				tag["genuine:absent"] = true
			}
			if len(ref) == 0 {
				tag["emptytrie"] = true
			}
			switch {
			case err != nil && len(ref) == 0 && t.Hash() == types.EmptyRootHash && len(ps) == 0 &&
				strings.HasPrefix(err.Error(), "proof node 0 ") && strings.HasSuffix(err.Error(), "missing"):
				// recorded finding: Prove on an empty trie emits no node and VerifyProof(EmptyRootHash, ..)
				// rejects the empty proof instead of returning (nil, nil)
				known = []string{"C08-empty-trie-proof: empty trie (root = EmptyRootHash): Prove emits no node and VerifyProof rejects the genuine (empty) proof of an absent key with 'proof node 0 missing' instead of returning (nil, nil)"}
			case err != nil:
				fail("q%d: genuine proof of %x rejected: %v", qi, key, err)
			case present && !bytes.Equal(val, truth):
				fail("q%d: genuine proof of %x yields %x, trie holds %x", qi, key, val, truth)
			case !present && val != nil:
				fail("q%d: genuine proof of absent key %x yields value %x", qi, key, val)
			}
		case 2, 3: // VerifyProof on an explicit database: soundness, no panic
			var root common.Hash
			var ref map[string][]byte
			if AsInt(l[0]) == 2 {
				ti := AsInt(l[1])
				root, ref = tries[ti].Hash(), refs[ti]
			} else {
				root = common.BytesToHash(AsBytes(l[1]))
				// a raw root that happens to be the root of one of the tries is judged against that trie
				for i, t := range tries {
					if t.Hash() == root && len(refs[i]) > 0 {
						ref = refs[i]
					}
				}
			}
			key, ps := AsBytes(l[2]), sxPuts(l[3])
			o, val, err, vpan := verify(root, key, ps)
			obs = append(obs, o)
			if vpan != "" {
				fail("q%d: VerifyProof panicked: %s", qi, vpan)
				break
			}
			note(o, val, err)
			keyed := hashKeyed(ps)
			if keyed {
				tag["db:keyed"] = true
			} else {
				tag["db:miskeyed"] = true
			}
			tag[fmt.Sprintf("db%d", min(len(ps)/2*2, 12))] = true
			if keyed && ref != nil && err == nil {
				truth, present := ref[string(key)]
				switch {
				case present && !bytes.Equal(val, truth):
					fail("q%d: proof set accepted for %x with value %x, trie holds %x", qi, key, val, truth)
				case !present && val != nil:
					fail("q%d: proof set accepted for absent key %x with value %x", qi, key, val)
				case present && val == nil:
					fail("q%d: proof set proves absence of %x, trie holds %x", qi, key, truth)
				}
			}
		default:
			panic("hxlib: unknown query")
		}
	}
	res.Obs = L(roots, obs)
	// the recorded finding is reported last, so that a message starts with its stable
	// prefix only when nothing else failed
	// While shrinking a case that failed for another reason, the recorded finding does not
	// count as a failure: deleting trie entries must not turn a violation into it.
	if shrinkMode {
		if shrinkFirst {
			shrinkFirst, shrinkOnlyKnown = false, len(fails) == 0
		}
		if !shrinkOnlyKnown {
			known = nil
		}
	}
	fails = append(fails, known...)
	if len(fails) > 0 {
		res.Oracle = strings.Join(fails, " | ")
	}
	for k := range tag {
		res.Tags = append(res.Tags, k)
	}
	res.Tags = append(res.Tags, fmt.Sprintf("keys%d", min(maxKeys/4*4, 24)))
	res.NonTrivial = maxKeys >= 3 && nval >= 1 && nerr >= 1
	_ = nabs
	return res
}

// ---------------------------------------------------------------- generator

func genKey(r *Rng, style int) []byte {
	switch style {
	case 0: // 1-3 byte keys over a 4-symbol alphabet: dense shared prefixes, keys that are prefixes of others
		k := make([]byte, 1+r.Intn(3))
		al := []byte{0x00, 0x01, 0x10, 0x11}
		for i := range k {
			k[i] = al[r.Intn(4)]
		}
		return k
	case 2: // 1-2 byte keys with many different first nibbles (wide root branch)
		k := make([]byte, 1+r.Intn(2))
		al := []byte{0x00, 0x01, 0x10, 0x20, 0x30, 0x31, 0xf0}
		for i := range k {
			k[i] = al[r.Intn(len(al))]
		}
		return k
	case 3: // random 32-byte keys (hashed-key style)
		return r.Bytes(32)
	default: // 32-byte keys sharing long prefixes
		k := make([]byte, 32)
		base := byte(r.Intn(3))
		for i := range k {
			k[i] = base
		}
		p := 28 + r.Intn(4)
		k[p] = byte(r.Intn(4)) << uint(4*r.Intn(2))
		if r.Chance(1, 3) {
			k[31] = byte(r.Intn(256))
		}
		return k
	}
}

func genVal(r *Rng) []byte {
	switch r.Intn(8) {
	case 0:
		return nil // delete
	case 1, 2:
		return r.Bytes(1 + r.Intn(3))
	case 3, 4:
		return r.Bytes(32 + r.Intn(40))
	default:
		return r.Bytes(1 + r.Intn(40))
	}
}

func genTrie(r *Rng, style, n int) SL {
	kvs := SL{}
	for i := 0; i < n; i++ {
		kvs = append(kvs, L(B(genKey(r, style)), B(genVal(r))))
	}
	return kvs
}

func keccakPut(b []byte) put { return put{crypto.Keccak256(b), b} }

// corrupt returns a damaged copy of a node encoding.
func corrupt(r *Rng, b []byte) []byte {
	c := common.CopyBytes(b)
	if len(c) == 0 {
		return []byte{0xc0}
	}
	switch r.Intn(8) {
	case 0: // flip one byte
		c[r.Intn(len(c))] ^= byte(1 + r.Intn(255))
	case 1: // truncate
		c = c[:r.Intn(len(c))]
	case 2: // append garbage
		c = append(c, r.Bytes(1+r.Intn(4))...)
	case 3: // damage the list header
		c[0] = []byte{0x80, 0xc0, 0xc1, 0xf7, 0xf8, 0xf9, 0xb8, 0x7f, 0xff}[r.Intn(9)]
	case 4: // damage the size byte after a long header
		if len(c) > 1 {
			c[1] = byte(r.Intn(256))
		}
	case 5: // turn a 32-byte reference prefix 0xa0 into another string length
		for i := range c {
			if c[i] == 0xa0 {
				c[i] = []byte{0x9f, 0xa1, 0x80, 0x81, 0xb8}[r.Intn(5)]
				break
			}
		}
	case 6: // zero a run
		p := r.Intn(len(c))
		for i := p; i < len(c) && i < p+1+r.Intn(6); i++ {
			c[i] = 0
		}
	default: // flip a byte near the start (key / first children)
		c[r.Intn(min(len(c), 6))] ^= byte(1 << uint(r.Intn(8)))
	}
	return c
}

func enc(v interface{}) []byte {
	b, err := rlp.EncodeToBytes(v)
	if err != nil {
		panic(err)
	}
	return b
}

// crafted builds adversarial nodes that decode (or nearly decode) but are not canonical.
func crafted(r *Rng, key []byte) (root []byte, db []put) {
	hexkey := make([]byte, 0, 2*len(key))
	for _, b := range key {
		hexkey = append(hexkey, b>>4, b&15)
	}
	leafFor := func(rest []byte, val []byte) []interface{} { // compact leaf key over the nibbles [rest]
		ck := []byte{0x20}
		if len(rest)%2 == 1 {
			ck = []byte{0x30 | rest[0]}
			rest = rest[1:]
		}
		for i := 0; i+1 < len(rest); i += 2 {
			ck = append(ck, rest[i]<<4|rest[i+1])
		}
		return []interface{}{ck, val}
	}
	val := r.Bytes(1 + r.Intn(3))
	var top []byte
	switch r.Intn(7) {
	case 0: // chain of empty-key extensions around an embedded leaf (deep embedding)
		var n interface{} = leafFor(hexkey, val)
		if len(enc(n)) >= 32 {
			n = leafFor(nil, val)
		}
		for d := r.Intn(16); d > 0 && len(enc([]interface{}{[]byte{0x00}, n})) < 32; d-- {
			n = []interface{}{[]byte{0x00}, n}
		}
		top = enc([]interface{}{[]byte{0x00}, n})
	case 1: // chain of hashed empty-key extensions
		leaf := enc(leafFor(hexkey, r.Bytes(33)))
		db = append(db, keccakPut(leaf))
		cur := leaf
		for d := 1 + r.Intn(5); d > 0; d-- {
			cur = enc([]interface{}{[]byte{0x00}, crypto.Keccak256(cur)})
			db = append(db, keccakPut(cur))
		}
		top = cur
	case 2: // full node with a value and odd children: strings of wrong size, nested lists
		ch := make([]interface{}, 17)
		for i := range ch {
			ch[i] = []byte{}
		}
		ch[16] = val
		if len(hexkey) > 0 {
			switch r.Intn(4) {
			case 0:
				ch[hexkey[0]] = r.Bytes(31 + 2*r.Intn(2))
			case 1:
				ch[hexkey[0]] = leafFor(hexkey[1:], val)
			case 2:
				ch[hexkey[0]] = []interface{}{[]byte{0x00}, []interface{}{}}
			default:
				ch[hexkey[0]] = []interface{}{r.Bytes(40), val}
			}
		}
		top = enc(ch)
	case 3: // wrong element counts
		n := []int{0, 1, 3, 16, 18}[r.Intn(5)]
		ch := make([]interface{}, n)
		for i := range ch {
			ch[i] = []byte{}
		}
		top = enc(ch)
	case 4: // short node with unusual compact flags, value in place of a reference
		flags := []byte{0x40, 0x5f, 0x80, 0xff, 0x10, 0x2f, 0x00}
		top = enc([]interface{}{[]byte{flags[r.Intn(len(flags))], byte(r.Intn(256))}, val})
	case 5: // leaf whose key is the whole key, empty value
		top = enc(leafFor(hexkey, []byte{}))
	default: // extension with empty compact key
		top = enc([]interface{}{[]byte{}, r.Bytes(32)})
	}
	db = append(db, keccakPut(top))
	return crypto.Keccak256(top), db
}

func shuffle(r *Rng, ps []put) []put {
	out := append([]put{}, ps...)
	for i := len(out) - 1; i > 0; i-- {
		j := r.Intn(i + 1)
		out[i], out[j] = out[j], out[i]
	}
	return out
}

// ---- adversarially deep tries

func getNib(k []byte, i int) byte {
	if i%2 == 0 {
		return k[i/2] >> 4
	}
	return k[i/2] & 15
}

func setNib(k []byte, i int, v byte) {
	if i%2 == 0 {
		k[i/2] = k[i/2]&0x0f | v<<4
	} else {
		k[i/2] = k[i/2]&0xf0 | v
	}
}

// sibling returns a key sharing exactly i nibbles with base (differing at nibble i); the
// bytes after the diverging one are randomised half of the time.
func sibling(r *Rng, base []byte, i int) []byte {
	s := common.CopyBytes(base)
	setNib(s, i, (getNib(base, i)+1+byte(r.Intn(15)))%16)
	if r.Bool() {
		for j := i/2 + 1; j < len(s); j++ {
			s[j] = byte(r.U64())
		}
	}
	return s
}

// third returns a key sharing exactly i nibbles with base whose nibble i differs from both
// base's and sib's: absent, diverging at depth i.
func third(r *Rng, base, sib []byte, i int) []byte {
	t := common.CopyBytes(base)
	for {
		v := byte(r.Intn(16))
		if v != getNib(base, i) && v != getNib(sib, i) {
			setNib(t, i, v)
			return t
		}
	}
}

// deepVal: style 0 = every node hashed (values >= 29 bytes, 29 making the terminator-only
// leaf exactly 32 bytes), 1 = small values (embedded leaves and embedded bottom branches),
// 2 = mixed, 3 = around the 31/32-byte boundary of a terminator-only leaf.
func deepVal(r *Rng, style int) []byte {
	switch style {
	case 0:
		return r.Bytes(29 + r.Intn(12)*r.Intn(2))
	case 1:
		return r.Bytes(1 + r.Intn(3))
	case 3:
		return r.Bytes(27 + r.Intn(4))
	default:
		if r.Bool() {
			return r.Bytes(29 + r.Intn(40))
		}
		return r.Bytes(1 + r.Intn(20))
	}
}

func sampleDepths(r *Rng, total, want int, all bool) []int {
	if all || total <= want {
		out := make([]int, total)
		for i := range out {
			out[i] = i
		}
		return out
	}
	seen := map[int]bool{0: true, 1: true, total - 2: true, total - 1: true}
	for len(seen) < want {
		seen[r.Intn(total)] = true
	}
	var out []int
	for i := 0; i < total; i++ {
		if seen[i] {
			out = append(out, i)
		}
	}
	return out
}

// genDeep emits tries that random histories never reach: combs (a branch at EVERY nibble
// depth of the base key: proofs of 2n+1 nodes for an n-byte key) and two-key tries whose
// root extension has every length up to the maximal 2n-1 nibbles.
func genDeep(r *Rng, tier string, emit func(Sx)) {
	all := tier == "thorough"
	for _, n := range []int{1, 2, 4, 8, 20, 32} {
		for style := 0; style < 4; style++ {
			if !all && n >= 20 && style >= 2 { // the model's Prove re-encodes the subtree at every path node: keep quick light
				continue
			}
			base := r.Bytes(n)
			var kvs SL
			sibs := make([][]byte, 2*n)
			for i := 0; i < 2*n; i++ {
				sibs[i] = sibling(r, base, i)
			}
			order := make([]int, 2*n)
			for i := range order {
				order[i] = i
			}
			for i := len(order) - 1; i > 0; i-- { // insertion order must not matter
				j := r.Intn(i + 1)
				order[i], order[j] = order[j], order[i]
			}
			kvs = append(kvs, L(B(base), B(deepVal(r, style))))
			for _, i := range order {
				kvs = append(kvs, L(B(sibs[i]), B(deepVal(r, style))))
			}
			if style == 2 && r.Bool() { // base inserted last
				kvs = append(kvs[1:], kvs[0])
			}
			// second trie: the comb without its base key (the base is then absent at maximal depth)
			var kvsB SL
			for _, e := range kvs {
				if !bytes.Equal(AsBytes(AsList(e)[0]), base) {
					kvsB = append(kvsB, e)
				}
			}
			var qs SL
			full := true // Prove's node list is compared for the deepest key; the other keys only prove+verify
			ask := func(ti int, k []byte) {
				if full {
					qs = append(qs, L(I(0), I(int64(ti)), B(k)))
				}
				qs = append(qs, L(I(1), I(int64(ti)), B(k)))
			}
			ask(0, base) // the deepest key: 2n+1 proof nodes when nothing embeds
			full = n < 20
			ask(1, base)
			want := 5
			if n >= 20 {
				want = 4
				if all {
					want = 16
				}
			}
			for _, i := range sampleDepths(r, 2*n, want, all && n < 20) {
				ask(0, sibs[i])
				ask(0, third(r, base, sibs[i], i)) // absent, diverging at depth i
				if i+1 < 2*n {
					ask(0, third(r, sibs[i], sibs[i], i+1)) // absent, diverging inside the sibling's leaf key
				}
			}
			ask(0, base[:n-1])                           // proper prefix of the deepest key
			ask(0, append(common.CopyBytes(base), 0x00)) // proper extension
			ask(0, append(common.CopyBytes(base), byte(r.Intn(256)), byte(r.Intn(256))))
			// the maximal proof as an explicit database against both roots, and with its last node dropped
			if A, _ := build(kvs); A != nil {
				if ps, pan := prove(A, base); pan == "" && len(ps) > 0 {
					qs = append(qs, L(I(2), I(0), B(base), putsSx(shuffle(r, ps))), L(I(2), I(1), B(base), putsSx(ps)),
						L(I(2), I(0), B(base), putsSx(ps[:len(ps)-1])))
				}
			}
			emit(L(L(kvs, kvsB), qs))
		}
		// extension chains: {base, sibling_i} has a root extension of i nibbles (maximal: 2n-1)
		depths := sampleDepths(r, 2*n, 6, all)
		for di := 0; di+1 < len(depths) || di == 0; di += 2 {
			i := depths[di]
			j := depths[min(di+1, len(depths)-1)]
			style := r.Intn(4)
			bi, bj := r.Bytes(n), r.Bytes(n)
			si, sj := sibling(r, bi, i), sibling(r, bj, j)
			ta := SL{L(B(bi), B(deepVal(r, style))), L(B(si), B(deepVal(r, style)))}
			tb := SL{L(B(sj), B(deepVal(r, style))), L(B(bj), B(deepVal(r, style)))}
			var qs SL
			ask := func(ti int, k []byte) { qs = append(qs, L(I(0), I(int64(ti)), B(k)), L(I(1), I(int64(ti)), B(k))) }
			for ti, p := range [][3]interface{}{{bi, si, i}, {bj, sj, j}} {
				b, s, d := p[0].([]byte), p[1].([]byte), p[2].(int)
				ask(ti, b)
				ask(ti, s)
				ask(ti, third(r, b, s, d)) // absent at the branch
				if d > 0 {
					ask(ti, third(r, b, b, r.Intn(d))) // absent: diverges inside the extension
				}
				if d+1 < 2*n {
					ask(ti, third(r, b, b, d+1+r.Intn(2*n-d-1))) // absent: diverges inside the leaf key
				}
				ask(ti, b[:n-1])
				ask(ti, append(common.CopyBytes(b), 0x01))
			}
			emit(L(L(ta, tb), qs))
		}
	}
}

func gen(r *Rng, tier string, emit func(Sx)) {
	r = NewRng(r.U64())
	genDeep(r.Fork(), tier, emit)
	n := 450
	if tier == "thorough" {
		n = 6000
	}
	for ci := 0; ci < n; ci++ {
		style := r.Intn(4)
		sizes := []int{0, 1, 2, 3, 5, 8, 12, 20, 30}
		na, nb := sizes[r.Intn(len(sizes))], sizes[r.Intn(len(sizes))]
		if ci%9 != 0 && na == 0 { // the empty trie occasionally only
			na = 6
		}
		ta, tb := genTrie(r, style, na), genTrie(r, style, nb)
		if r.Chance(1, 4) && len(ta) > 1 {
			// B = A with one entry changed: tries sharing most nodes
			tb = append(SL{}, ta...)
			tb[r.Intn(len(tb))] = L(B(genKey(r, style)), B(r.Bytes(1+r.Intn(40))))
		}
		A, refA := build(ta)
		Bt, refB := build(tb)
		var qs SL
		pick := func(ref map[string][]byte, kvs SL) []byte {
			if len(kvs) > 0 && r.Chance(2, 3) {
				return AsBytes(AsList(kvs[r.Intn(len(kvs))])[0]) // mostly present (may have been deleted)
			}
			k := genKey(r, style)
			if r.Chance(1, 4) && len(kvs) > 0 { // an absent neighbour of a present key
				k = AsBytes(AsList(kvs[r.Intn(len(kvs))])[0])
				switch r.Intn(3) {
				case 0:
					k = append(k, byte(r.Intn(256)))
				case 1:
					if len(k) > 1 {
						k = k[:len(k)-1]
					}
				default:
					k[len(k)-1] ^= byte(1 << uint(r.Intn(8)))
				}
			}
			return k
		}
		_ = refA
		_ = refB
		nq := 2 + r.Intn(4)
		for j := 0; j < nq; j++ {
			key := pick(refA, ta)
			qs = append(qs, L(I(0), I(0), B(key)), L(I(1), I(0), B(key)))
			genuine, pan := prove(A, key)
			if pan != "" {
				continue
			}
			other := pick(refB, tb)
			pb, _ := prove(Bt, other)
			pb2, _ := prove(Bt, key)
			switch r.Intn(9) {
			case 0: // (a) the genuine proof as an explicit database, shuffled
				qs = append(qs, L(I(2), I(0), B(key), putsSx(shuffle(r, genuine))))
			case 1: // (b) random deletions
				var d []put
				for _, p := range genuine {
					if !r.Chance(1, 3) {
						d = append(d, p)
					}
				}
				if len(d) == len(genuine) && len(d) > 0 {
					i := r.Intn(len(d))
					d = append(d[:i:i], d[i+1:]...)
				}
				qs = append(qs, L(I(2), I(0), B(key), putsSx(d)))
			case 2: // (c) genuine nodes of another trie added; verified against both roots
				db := shuffle(r, append(append(append([]put{}, genuine...), pb...), pb2...))
				qs = append(qs, L(I(2), I(0), B(key), putsSx(db)), L(I(2), I(1), B(key), putsSx(db)),
					L(I(2), I(1), B(other), putsSx(db)), L(I(2), I(0), B(other), putsSx(db)))
			case 3: // (c') nodes of the other trie only, partially, against root A
				db := append(append([]put{}, pb...), pb2...)
				if len(genuine) > 1 {
					db = append(db, genuine[1+r.Intn(len(genuine)-1)])
				}
				qs = append(qs, L(I(2), I(0), B(key), putsSx(db)))
			case 4: // (d1) a corrupted node added under its own hash, original kept or dropped
				if len(genuine) == 0 {
					break
				}
				i := r.Intn(len(genuine))
				db := append([]put{}, genuine...)
				cb := corrupt(r, genuine[i].v)
				if r.Bool() {
					db[i] = keccakPut(cb)
				} else {
					db = append(db, keccakPut(cb))
				}
				qs = append(qs, L(I(2), I(0), B(key), putsSx(db)))
			case 5: // (d2) corrupted bytes under the ORIGINAL key: a mis-keyed database (no hash check in VerifyProof)
				if len(genuine) == 0 {
					break
				}
				i := r.Intn(len(genuine))
				db := append([]put{}, genuine...)
				db[i] = put{genuine[i].k, corrupt(r, genuine[i].v)}
				qs = append(qs, L(I(2), I(0), B(key), putsSx(db)))
			case 6: // (e) mismatched roots
				var root []byte
				db := append(append([]put{}, genuine...), pb2...)
				switch r.Intn(4) {
				case 0:
					root = r.Bytes(32)
				case 1:
					root = Bt.Hash().Bytes()
				case 2:
					if len(genuine) > 0 {
						root = genuine[r.Intn(len(genuine))].k // an inner node as root
					} else {
						root = r.Bytes(32)
					}
				default:
					root = A.Hash().Bytes()
					if len(root) > 0 {
						root[r.Intn(32)] ^= 1
					}
				}
				qs = append(qs, L(I(3), B(root), B(key), putsSx(db)))
			case 7: // (e') the root node corrupted and re-keyed: the walk starts at a damaged node
				if len(genuine) == 0 {
					break
				}
				db := append([]put{}, genuine...)
				cb := corrupt(r, genuine[0].v)
				db[0] = keccakPut(cb)
				qs = append(qs, L(I(3), B(db[0].k), B(key), putsSx(db)))
			default: // hand-crafted non-canonical nodes
				root, db := crafted(r, key)
				qs = append(qs, L(I(3), B(root), B(key), putsSx(db)))
			}
		}
		// a few queries against trie B as well (present and absent)
		kb := pick(refB, tb)
		qs = append(qs, L(I(0), I(1), B(kb)), L(I(1), I(1), B(kb)))
		emit(L(L(ta, tb), qs))
	}
}

func main() {
	Main(Family{
		ID:   "C08",
		Rule: "deep tries first: for key lengths n in {1,2,4,8,20,32} bytes a comb (base key plus one sibling sharing exactly i nibbles for every i < 2n, random insertion order; values all >= 29 bytes so that every node is hashed and the proof of the base key has the maximal 2n+1 nodes, or 1-3 bytes so that leaves and bottom branches embed, or mixed, or 27-30 bytes around the 32-byte boundary of the terminator-only leaf) with a second trie lacking the base key, queried (Prove node list, Prove+VerifyProof, the maximal proof as explicit database shuffled / against the other root / with its last node dropped) at the base key, siblings, absent keys diverging at sampled (thorough: all, for n <= 8) depths and inside sibling leaf keys, the proper prefix and extensions of the base key; and two-key tries whose root extension has i nibbles for sampled (thorough: all) i up to the maximal 2n-1, queried at both keys and at absent keys diverging inside the extension, at the branch and inside the leaf key. Then each case builds two in-memory tries from random insert/overwrite/delete histories (0-30 entries; keys: 1-3 bytes over a 4-symbol alphabet with keys that are prefixes of others, 1-2 bytes with a wide root branch, 32-byte keys sharing 28+ byte prefixes, or random 32-byte keys; values 1-71 bytes so that node encodings are both embedded (< 32 bytes) and hashed; a quarter of the second tries differ from the first in one entry) and asks, for present keys, deleted keys, random absent keys and absent neighbours of present keys: Prove (the ordered (hash, encoding) Puts), Prove+VerifyProof, and VerifyProof on explicit databases: the genuine proof shuffled, with random deletions, with genuine nodes of the other trie added (against either root), nodes of the other trie only, a corrupted node added/substituted under its own hash, a corrupted node under the original key (mis-keyed database: no oracle, correspondence only), mismatched roots (random, other trie, inner node, bit-flipped), a corrupted re-keyed root node, and hand-crafted non-canonical nodes (nested empty-key extensions, wrong element counts, wrong reference sizes, odd compact flags). Non-trivial: a trie with >= 3 keys, at least one verification returning a value and at least one returning an error; distinct = distinct case line.",
		Gen:  gen,
		Run:  run,
	})
}
