// Family c40: log queries through the log index (core/filtermaps + eth/filters) vs
// coq/Chain/LogIndex.v.  One case = filter-map parameters, the real row/column hash
// tables, and 1..4 stages; a stage = the canonical chain (its logs), a history limit, a
// history cutoff and a batch of queries.  Run builds the REAL chain (core.GenerateChain with
// log-emitting contracts, InsertChain incl. reorgs), runs the REAL indexer over a memory DB
// and answers every query with filters.NewRangeFilter / NewBlockFilter (...).Logs.
package main

import (
	"bytes"
	"context"
	"errors"
	"fmt"
	"math/big"
	"os"
	"strings"
	"time"

	"github.com/ethereum/go-ethereum/common"
	"github.com/ethereum/go-ethereum/consensus/ethash"
	"github.com/ethereum/go-ethereum/core"
	"github.com/ethereum/go-ethereum/core/filtermaps"
	"github.com/ethereum/go-ethereum/core/rawdb"
	"github.com/ethereum/go-ethereum/core/types"
	"github.com/ethereum/go-ethereum/crypto"
	"github.com/ethereum/go-ethereum/eth/filters"
	"github.com/ethereum/go-ethereum/ethdb"
	"github.com/ethereum/go-ethereum/event"
	"github.com/ethereum/go-ethereum/log"
	"github.com/ethereum/go-ethereum/params"
	"github.com/ethereum/go-ethereum/rpc"
	"github.com/ethereum/go-ethereum/triedb"
	. "gethverif/harness/hxlib"
)

// ---------------------------------------------------------------- value universe

const (
	nAddr   = 5  // ids 0..2 emit logs (2 = the two-logs-per-tx contract), 3..4 never do
	nValues = 13 // ids 5 = zero topic, 6..10 topics used on chain, 11..12 never used
	nLayers = 16
)

var (
	key, _  = crypto.HexToECDSA("b71c71a67e1177ad4e901695e1b4b9ee17ae16c6668d313eac2f96dbcda3f291")
	sender  = crypto.PubkeyToAddress(key.PublicKey)
	addrOf  = []common.Address{{0xfe}, {0xff}, {0xfd}, {0x11}, {0x22}}
	topicOf = map[int]common.Hash{}
	idOfAddr  = map[common.Address]int{}
	idOfTopic = map[common.Hash]int{}
)

func init() {
	topicOf[5] = common.Hash{}
	for i := 6; i < nValues; i++ {
		topicOf[i] = common.BytesToHash([]byte(fmt.Sprintf("topic%d", i)))
	}
	for i, a := range addrOf {
		idOfAddr[a] = i
	}
	for i, t := range topicOf {
		idOfTopic[t] = i
	}
}

func valueHash(id int) common.Hash {
	if id < nAddr {
		return filtermaps.VerifAddressValue(addrOf[id])
	}
	return filtermaps.VerifTopicValue(topicOf[id])
}

// logger contract: n = calldatasize/32 topics taken from calldata, LOGn(0,0,topics...).
// double=true additionally emits LOG1(0,0,calldataload(0)).
func loggerCode(double bool) []byte {
	tail := []byte{0x00}
	if double {
		tail = []byte{0x60, 0x00, 0x35, 0x60, 0x00, 0x60, 0x00, 0xa1, 0x00}
	}
	var blocks [5][]byte
	for k := 0; k < 5; k++ {
		b := []byte{0x5b}
		for i := k - 1; i >= 0; i-- {
			b = append(b, 0x60, byte(32*i), 0x35)
		}
		b = append(b, 0x60, 0x00, 0x60, 0x00, byte(0xa0+k))
		b = append(b, tail...)
		blocks[k] = b
	}
	hdrLen := 4 + 5*7 + 1
	dest := hdrLen
	code := []byte{0x36, 0x60, 0x05, 0x1c}
	for k := 0; k < 5; k++ {
		code = append(code, 0x80, 0x60, byte(k), 0x14, 0x60, byte(dest), 0x57)
		dest += len(blocks[k])
	}
	code = append(code, 0x00)
	for k := 0; k < 5; k++ {
		code = append(code, blocks[k]...)
	}
	return code
}

// ---------------------------------------------------------------- case structure

type logT struct {
	tx, idx, addr int
	topics        []int
}
type queryT struct {
	kind       int
	begin, end int64
	number     uint64
	sideLogs   []logT
	addrs      []int
	topics     [][]int
}
type stageT struct {
	history, cutoff uint64
	chain           [][]logT
	queries         []queryT
	race            bool
	trans           *transT // a range query that is RUNNING while the chain moves from the previous stage's chain to this one
}

// transT: the query starts on the previous stage's chain and idle index; right before its
// tick-th environment call (SyncLogIndex and CurrentView calls counted together from 0) the
// chain is switched to this stage's chain and the indexer catches up (WaitIdle) before the
// call proceeds.  trace = per tick the ValidBlocks range reported by SyncLogIndex ((0,0) for
// CurrentView ticks); recorded from the real implementation by the generator.
type transT struct {
	begin, end int64
	addrs      []int
	topics     [][]int
	tick       int
	trace      [][2]uint64
}

func encTrace(tr [][2]uint64) Sx {
	out := SL{}
	for _, e := range tr {
		out = append(out, L(U(e[0]), U(e[1])))
	}
	return out
}
type paramsT struct {
	lvpm, hbits, lmpe, brl, ldiff uint64 // what the model reads
	logMapHeight, groupSize, ratio uint64
}

func encLog(l logT) Sx {
	ts := SL{}
	for _, t := range l.topics {
		ts = append(ts, I(int64(t)))
	}
	return L(I(int64(l.tx)), I(int64(l.idx)), I(int64(l.addr)), ts)
}
func decLog(s Sx) logT {
	l := AsList(s)
	out := logT{tx: AsInt(l[0]), idx: AsInt(l[1]), addr: AsInt(l[2])}
	for _, t := range AsList(l[3]) {
		out.topics = append(out.topics, AsInt(t))
	}
	return out
}
func encInts(v []int) Sx {
	out := SL{}
	for _, x := range v {
		out = append(out, I(int64(x)))
	}
	return out
}
func decInts(s Sx) []int {
	var out []int
	for _, x := range AsList(s) {
		out = append(out, AsInt(x))
	}
	return out
}
func encTopics(t [][]int) Sx {
	out := SL{}
	for _, sub := range t {
		out = append(out, encInts(sub))
	}
	return out
}
func decTopics(s Sx) [][]int {
	out := [][]int{}
	for _, sub := range AsList(s) {
		out = append(out, decInts(sub))
	}
	return out
}
func encLogs(ls []logT) Sx {
	out := SL{}
	for _, l := range ls {
		out = append(out, encLog(l))
	}
	return out
}
func decLogs(s Sx) []logT {
	var out []logT
	for _, l := range AsList(s) {
		out = append(out, decLog(l))
	}
	return out
}
func encQuery(q queryT) Sx {
	switch q.kind {
	case 0:
		return L(I(0), I(q.begin), I(q.end), encInts(q.addrs), encTopics(q.topics))
	case 1:
		return L(I(1), U(q.number), encInts(q.addrs), encTopics(q.topics))
	case 2:
		return L(I(2), encInts(q.addrs), encTopics(q.topics))
	default:
		return L(I(3), U(q.number), encLogs(q.sideLogs), encInts(q.addrs), encTopics(q.topics))
	}
}
func decQuery(s Sx) queryT {
	l := AsList(s)
	q := queryT{kind: AsInt(l[0])}
	switch q.kind {
	case 0:
		q.begin, q.end = AsBig(l[1]).Int64(), AsBig(l[2]).Int64()
		q.addrs, q.topics = decInts(l[3]), decTopics(l[4])
	case 1:
		q.number = AsU64(l[1])
		q.addrs, q.topics = decInts(l[2]), decTopics(l[3])
	case 2:
		q.addrs, q.topics = decInts(l[1]), decTopics(l[2])
	case 3:
		q.number = AsU64(l[1])
		q.sideLogs = decLogs(l[2])
		q.addrs, q.topics = decInts(l[3]), decTopics(l[4])
	default:
		panic("hxlib: bad query kind")
	}
	return q
}
func encStage(s stageT) Sx {
	ch := SL{}
	for _, b := range s.chain {
		ch = append(ch, encLogs(b))
	}
	qs := SL{}
	for _, q := range s.queries {
		qs = append(qs, encQuery(q))
	}
	tr := SL{}
	if s.trans != nil {
		t := s.trans
		tr = SL{L(I(t.begin), I(t.end), encInts(t.addrs), encTopics(t.topics), I(int64(t.tick)), encTrace(t.trace))}
	}
	return L(U(s.history), U(s.cutoff), ch, qs, Bool(s.race), tr)
}
func decStage(s Sx) stageT {
	l := AsList(s)
	st := stageT{history: AsU64(l[0]), cutoff: AsU64(l[1]), race: AsBool(l[4])}
	for _, b := range AsList(l[2]) {
		st.chain = append(st.chain, decLogs(b))
	}
	for _, q := range AsList(l[3]) {
		st.queries = append(st.queries, decQuery(q))
	}
	if len(l) > 5 && len(AsList(l[5])) > 0 {
		t := AsList(AsList(l[5])[0])
		tr := &transT{begin: AsBig(t[0]).Int64(), end: AsBig(t[1]).Int64(), addrs: decInts(t[2]), topics: decTopics(t[3]), tick: AsInt(t[4])}
		for _, e := range AsList(t[5]) {
			ee := AsList(e)
			tr.trace = append(tr.trace, [2]uint64{AsU64(ee[0]), AsU64(ee[1])})
		}
		st.trans = tr
	}
	return st
}

func (p paramsT) goParams() (filtermaps.Params, error) {
	return filtermaps.VerifNewParams(uint(p.logMapHeight), uint(p.hbits+p.lvpm), uint(p.lmpe), uint(p.lvpm), uint32(p.groupSize), uint(p.ratio), uint(p.ldiff))
}

// ---------------------------------------------------------------- layout (Gen only: table sizes)

// number of maps the head renderer produces for this chain (for sizing the tables)
func layoutEnd(chain [][]logT, vpm uint64) uint64 {
	cur := uint64(0)
	for _, b := range chain {
		for _, l := range b {
			n := uint64(len(l.topics) + 1)
			if r := vpm - cur%vpm; n > r {
				cur += r
			}
			cur += n
		}
		cur++ // delimiter
	}
	return cur
}

func buildTables(p paramsT, nmaps uint64) (Sx, Sx) {
	gp, err := p.goParams()
	if err != nil {
		panic("hxlib: bad params " + err.Error())
	}
	vpm := uint64(1) << p.lvpm
	rt, ct := SL{}, SL{}
	for v := 0; v < nValues; v++ {
		h := valueHash(v)
		perLayer := SL{}
		for layer := 0; layer < nLayers; layer++ {
			perMap := SL{}
			for m := uint64(0); m < nmaps; m++ {
				perMap = append(perMap, U(uint64(gp.VerifRowIndex(uint32(m), uint32(layer), h))))
			}
			perLayer = append(perLayer, perMap)
		}
		rt = append(rt, perLayer)
		perLv := SL{}
		for lv := uint64(0); lv < nmaps*vpm; lv++ {
			perLv = append(perLv, U(uint64(gp.VerifColumnIndex(lv, h))))
		}
		ct = append(ct, perLv)
	}
	return rt, ct
}

// ---------------------------------------------------------------- generator

func genTopics(r *Rng, n int) []int {
	out := make([]int, n)
	for i := range out {
		switch {
		case r.Chance(5, 10):
			out[i] = 6 + r.Intn(2) // hot topics: rows overflow
		default:
			out[i] = 6 + r.Intn(5)
		}
	}
	return out
}

// logs of one block from tx specs (contract id, topics); contract 2 emits a second LOG1
func genBlock(r *Rng, heavy bool) []logT {
	ntx := r.Intn(4)
	if heavy {
		ntx = 3 + r.Intn(6)
	}
	if r.Chance(1, 5) {
		ntx = 0
	}
	var logs []logT
	for tx := 0; tx < ntx; tx++ {
		c := r.Intn(3)
		if r.Chance(1, 2) {
			c = 0
		}
		ts := genTopics(r, r.Intn(5))
		logs = append(logs, logT{tx: tx, idx: len(logs), addr: c, topics: ts})
		if c == 2 {
			second := 5
			if len(ts) > 0 {
				second = ts[0]
			}
			logs = append(logs, logT{tx: tx, idx: len(logs), addr: c, topics: []int{second}})
		}
	}
	return logs
}

func sameBlock(a, b []logT) bool { return String(encLogs(a)) == String(encLogs(b)) }

func genFilter(r *Rng) ([]int, [][]int) {
	var addrs []int
	if !r.Chance(3, 10) {
		n := 1 + r.Intn(3)
		for i := 0; i < n; i++ {
			if r.Chance(1, 6) {
				addrs = append(addrs, 3+r.Intn(2))
			} else {
				addrs = append(addrs, r.Intn(3))
			}
		}
	}
	topics := [][]int{}
	np := r.Intn(5)
	if r.Chance(1, 4) {
		np = 0
	}
	for i := 0; i < np; i++ {
		var sub []int
		switch {
		case r.Chance(4, 10):
		case r.Chance(1, 2):
			sub = []int{5 + r.Intn(8)}
		default:
			n := 2 + r.Intn(2)
			for j := 0; j < n; j++ {
				sub = append(sub, 5+r.Intn(8))
			}
		}
		topics = append(topics, sub)
	}
	return addrs, topics
}

func genCase(r *Rng, big bool, adversarial bool, transMode bool) Sx {
	p := paramsT{
		lvpm: uint64(3 + r.Intn(3)), lmpe: uint64(1 + r.Intn(3)), ldiff: uint64(1 + r.Intn(2)),
		logMapHeight: uint64(1 + r.Intn(3)), ratio: uint64(1 + r.Intn(2)),
	}
	// a base row group must not span epochs (tail unindexing deletes whole epochs of rows;
	// Params.sanitize does not check this, the shipped parameter sets satisfy it)
	p.groupSize = uint64(1) << uint64(r.Intn(int(p.lmpe)+1))
	p.hbits = 24 - p.lvpm
	vpm := uint64(1) << p.lvpm
	p.brl = vpm * p.ratio / (uint64(1) << p.logMapHeight)

	n := 6 + r.Intn(40)
	if big {
		n = 40 + r.Intn(60)
	}
	chain := [][]logT{nil}
	heavyRun := 0
	for i := 1; i < n; i++ {
		if heavyRun == 0 && r.Chance(1, 8) {
			heavyRun = 1 + r.Intn(4)
		}
		chain = append(chain, genBlock(r, heavyRun > 0))
		if heavyRun > 0 {
			heavyRun--
		}
	}
	pickHistory := func(head int) uint64 {
		switch r.Intn(4) {
		case 0:
			return 0
		case 1:
			return uint64(1 + r.Intn(head+2))
		default:
			return uint64(1 + r.Intn(head/2+1))
		}
	}
	nst := 1 + r.Intn(4)
	if transMode && nst < 2 {
		nst = 2 + r.Intn(3)
	}
	var stages []stageT
	var old [][]logT // blocks replaced by the latest reorg: (number-indexed) for side block queries
	oldAt := 0
	history := pickHistory(n - 1)
	if transMode {
		// the tail must not move under a running query: after tail unindexing GetBlockLvPointer
		// fails ("log value pointer not found", observed, not repaired) at a point the model -
		// which keeps the full pointer table - does not reproduce (e.g. for match-all filters)
		history = 0
	}


	cutoff := uint64(0)
	for s := 0; s < nst; s++ {
		if s > 0 {
			kind := r.Intn(5)
			if transMode {
				kind = r.Intn(4)
			}
			// (a reorg reaching below the history cutoff would need re-indexing pruned blocks)
			maxDepth := 8
			if kind <= 1 && cutoff != 0 {
				kind = 2
			}
			switch kind {
			case 0, 1: // reorg: replace the last d blocks by a longer fork
				d := 1 + r.Intn(maxDepth)
				if d > len(chain)-1 {
					d = len(chain) - 1
				}
				at := len(chain) - d
				old, oldAt = append([][]logT{}, chain[at:]...), at
				chain = append([][]logT{}, chain[:at]...)
				for i := 0; i < d+1+r.Intn(4); i++ {
					b := genBlock(r, r.Chance(1, 4))
					if i == 0 {
						for sameBlock(b, old[0]) {
							b = genBlock(r, true)
						}
					}
					chain = append(chain, b)
				}
			case 2, 3: // extend
				k := 1 + r.Intn(12)
				for i := 0; i < k; i++ {
					chain = append(chain, genBlock(r, r.Chance(1, 4)))
				}
			default: // restart the indexer with another history limit / set a cutoff
				history = pickHistory(len(chain) - 1)
				if r.Chance(1, 2) {
					cutoff = uint64(r.Intn(len(chain)))
				}
			}
		}
		head := len(chain) - 1
		// queries racing the indexer: only while the tail cannot move (a query racing tail
		// unindexing may fail with "log value pointer not found", reported to the lead)
		st := stageT{history: history, cutoff: cutoff, race: !transMode && s > 0 && history == 0 && cutoff == 0 && r.Chance(1, 2)}
		st.chain = append([][]logT{}, chain...)
		if transMode && s > 0 && r.Chance(5, 6) {
			// a query that is running while the chain moves from the previous stage's chain to
			// this one; filters that match many logs so that the blocks at the boundary matter
			oldHead := len(stages[s-1].chain) - 1
			tr := &transT{begin: int64(r.Intn(oldHead + 1)), end: int64(rpc.LatestBlockNumber), tick: r.Intn(5)}
			if r.Chance(1, 3) {
				tr.begin = 0
			}
			if r.Chance(1, 4) {
				tr.end = int64(r.Intn(oldHead + 1))
				if tr.end < tr.begin {
					tr.begin, tr.end = tr.end, tr.begin
				}
			}
			if r.Chance(1, 12) {
				tr.begin = int64(rpc.LatestBlockNumber)
				tr.end = int64(rpc.LatestBlockNumber)
			}
			switch r.Intn(6) {
			case 0:
			case 1:
				tr.addrs = []int{0}
			case 2:
				tr.addrs = []int{0, 1, 2}
			case 3:
				tr.topics = [][]int{{6, 7}}
			case 4:
				tr.addrs, tr.topics = []int{0, 2}, [][]int{{}, {6, 7, 8}}
			default:
				tr.addrs, tr.topics = genFilter(r)
			}
			st.trans = tr
		}
		nq := 5 + r.Intn(8)
		for i := 0; i < nq; i++ {
			q := queryT{}
			q.addrs, q.topics = genFilter(r)
			switch {
			case r.Chance(1, 10):
				q.kind, q.number = 1, uint64(r.Intn(head+1))
			case r.Chance(1, 30):
				q.kind = 2
			case old != nil && r.Chance(1, 8):
				j := r.Intn(len(old))
				q.kind, q.number, q.sideLogs = 3, uint64(oldAt+j), old[j]
				if oldAt+j <= head && sameBlock(chain[oldAt+j], old[j]) && j == 0 {
					q.kind = 1
				}
			default:
				a, b := r.Intn(head+1), r.Intn(head+1)
				if a > b && !r.Chance(1, 10) {
					a, b = b, a
				}
				q.begin, q.end = int64(a), int64(b)
				if r.Chance(1, 4) {
					q.end = int64(rpc.LatestBlockNumber)
				}
				if r.Chance(1, 12) {
					q.begin = int64(rpc.EarliestBlockNumber)
				}
				if r.Chance(1, 15) {
					q.begin = 0
				}
				if adversarial {
					special := []int64{-1, -2, -3, -4, -5, -6, -9, int64(head) + 1, int64(head) + 5}
					if r.Chance(1, 2) {
						q.begin = special[r.Intn(len(special))]
					}
					if r.Chance(1, 2) {
						q.end = special[r.Intn(len(special))]
					}
				}
			}
			st.queries = append(st.queries, q)
		}
		stages = append(stages, st)
		// a side-block query must not outlive a second reorg at the same heights
		if s > 0 && len(stages) >= 2 {
			// keep [old] only for the stage right after the reorg
		}
	}
	// side blocks are tracked by the harness per height+content; drop stale ones (content may
	// have become canonical again or been replaced twice — harmless: the harness looks them up)
	maxEnd := uint64(0)
	for _, st := range stages {
		if e := layoutEnd(st.chain, vpm); e > maxEnd {
			maxEnd = e
		}
	}
	nmaps := (maxEnd-2)/vpm + 1
	rt, ct := buildTables(p, nmaps)
	mk := func() Sx {
		sts := SL{}
		for _, st := range stages {
			sts = append(sts, encStage(st))
		}
		return L(L(U(p.lvpm), U(p.hbits), U(p.lmpe), U(p.brl), U(p.ldiff)), I(nLayers), rt, ct, sts,
			L(U(p.logMapHeight), U(p.groupSize), U(p.ratio)))
	}
	c := mk()
	if transMode {
		// second pass: the ValidBlocks ranges the running queries get from SyncLogIndex are an
		// input of the model's search session; record them from the real implementation
		recording = true
		r0, _ := runOnce(c)
		recording = false
		obs, ok := r0.Obs.(SL)
		if !ok || len(obs) != len(stages) {
			panic("gen: cannot record the sync trace")
		}
		for i := range stages {
			if stages[i].trans == nil {
				continue
			}
			so := AsList(obs[i])
			to := AsList(so[len(so)-1])
			stages[i].trans.trace = nil
			for _, e := range AsList(to[1]) {
				ee := AsList(e)
				stages[i].trans.trace = append(stages[i].trans.trace, [2]uint64{AsU64(ee[0]), AsU64(ee[1])})
			}
		}
		c = mk()
	}
	return c
}

func gen(r *Rng, tier string, emit func(c Sx)) {
	r = NewRng(r.U64())
	n := 36
	if tier == "thorough" {
		n = 400
	}
	for i := 0; i < n; i++ {
		emit(genCase(r, i%4 == 3, i%5 == 4, i%3 == 1))
	}
}

// ---------------------------------------------------------------- filters.Backend over the real DB

type backend struct {
	db     ethdb.Database
	fm     *filtermaps.FilterMaps
	cutoff uint64
	feed   event.Feed
	// deterministic interleaving of a running query with chain movement: hook(t) runs right
	// before the t-th environment call (SyncLogIndex / CurrentView) of the query
	hook  func(tick int)
	tick  int
	trace [][2]uint64
}

// hookedMatcher wraps the real matcher backend of the running query
type hookedMatcher struct {
	filtermaps.MatcherBackend
	b *backend
}

func (m *hookedMatcher) SyncLogIndex(ctx context.Context) (filtermaps.SyncRange, error) {
	m.b.hook(m.b.tick)
	m.b.tick++
	sr, err := m.MatcherBackend.SyncLogIndex(ctx)
	m.b.trace = append(m.b.trace, [2]uint64{sr.ValidBlocks.First(), sr.ValidBlocks.AfterLast()})
	return sr, err
}

func (b *backend) ChainDb() ethdb.Database            { return b.db }
func (b *backend) ChainConfig() *params.ChainConfig   { return params.TestChainConfig }
func (b *backend) HistoryPruningCutoff() uint64       { return b.cutoff }
func (b *backend) CurrentHeader() *types.Header {
	h, _ := b.HeaderByNumber(context.Background(), rpc.LatestBlockNumber)
	return h
}
func (b *backend) HeaderByNumber(ctx context.Context, nr rpc.BlockNumber) (*types.Header, error) {
	switch nr {
	case rpc.LatestBlockNumber:
		hash := rawdb.ReadHeadBlockHash(b.db)
		num, ok := rawdb.ReadHeaderNumber(b.db, hash)
		if !ok {
			return nil, nil
		}
		return rawdb.ReadHeader(b.db, hash, num), nil
	case rpc.FinalizedBlockNumber, rpc.SafeBlockNumber:
		return nil, errors.New("not found")
	}
	num := uint64(nr)
	return rawdb.ReadHeader(b.db, rawdb.ReadCanonicalHash(b.db, num), num), nil
}
func (b *backend) HeaderByHash(ctx context.Context, hash common.Hash) (*types.Header, error) {
	num, ok := rawdb.ReadHeaderNumber(b.db, hash)
	if !ok {
		return nil, nil
	}
	return rawdb.ReadHeader(b.db, hash, num), nil
}
func (b *backend) GetBody(ctx context.Context, hash common.Hash, number rpc.BlockNumber) (*types.Body, error) {
	if body := rawdb.ReadBody(b.db, hash, uint64(number)); body != nil {
		return body, nil
	}
	return nil, errors.New("block body not found")
}
func (b *backend) GetReceipts(ctx context.Context, hash common.Hash) (types.Receipts, error) {
	if num, ok := rawdb.ReadHeaderNumber(b.db, hash); ok {
		if h := rawdb.ReadHeader(b.db, hash, num); h != nil {
			return rawdb.ReadReceipts(b.db, hash, num, h.Time, params.TestChainConfig), nil
		}
	}
	return nil, nil
}
func (b *backend) GetLogs(ctx context.Context, hash common.Hash, number uint64) ([][]*types.Log, error) {
	return rawdb.ReadLogs(b.db, hash, number), nil
}
func (b *backend) SubscribeNewTxsEvent(ch chan<- core.NewTxsEvent) event.Subscription {
	return b.feed.Subscribe(ch)
}
func (b *backend) SubscribeChainEvent(ch chan<- core.ChainEvent) event.Subscription {
	return b.feed.Subscribe(ch)
}
func (b *backend) SubscribeRemovedLogsEvent(ch chan<- core.RemovedLogsEvent) event.Subscription {
	return b.feed.Subscribe(ch)
}
func (b *backend) SubscribeLogsEvent(ch chan<- []*types.Log) event.Subscription {
	return b.feed.Subscribe(ch)
}
func (b *backend) CurrentView() *filtermaps.ChainView {
	if b.hook != nil {
		b.hook(b.tick)
		b.tick++
		b.trace = append(b.trace, [2]uint64{0, 0})
	}
	h := b.CurrentHeader()
	return filtermaps.NewChainView(b, h.Number.Uint64(), h.Hash())
}
func (b *backend) NewMatcherBackend() filtermaps.MatcherBackend {
	if b.hook != nil {
		return &hookedMatcher{MatcherBackend: b.fm.NewMatcherBackend(), b: b}
	}
	return b.fm.NewMatcherBackend()
}

// filtermaps' blockchain interface
func (b *backend) GetCanonicalHash(number uint64) common.Hash { return rawdb.ReadCanonicalHash(b.db, number) }
func (b *backend) GetHeader(hash common.Hash, number uint64) *types.Header {
	return rawdb.ReadHeader(b.db, hash, number)
}
func (b *backend) GetReceiptsByHash(hash common.Hash) types.Receipts {
	r, _ := b.GetReceipts(context.Background(), hash)
	return r
}
func (b *backend) GetRawReceipts(hash common.Hash, number uint64) types.Receipts {
	return rawdb.ReadRawReceipts(b.db, hash, number)
}

// ---------------------------------------------------------------- the world of one case

type world struct {
	db      ethdb.Database
	gspec   *core.Genesis
	bc      *core.BlockChain
	be      *backend
	sys     *filters.FilterSystem
	gp      filtermaps.Params
	canon   []*types.Block // canonical blocks by number
	spec    [][]logT       // their log specs
	seen    map[uint64][]seenBlock
	fmHist  uint64
	fmCutoff uint64
	signer  types.Signer
}
type seenBlock struct {
	hash common.Hash
	spec string
}

func newWorld(gp filtermaps.Params) *world {
	w := &world{db: rawdb.NewMemoryDatabase(), gp: gp, seen: map[uint64][]seenBlock{}}
	w.gspec = &core.Genesis{
		Config: params.TestChainConfig,
		Alloc: types.GenesisAlloc{
			sender:    {Balance: new(big.Int).Mul(big.NewInt(1000000), big.NewInt(params.Ether))},
			addrOf[0]: {Balance: big.NewInt(0), Code: loggerCode(false)},
			addrOf[1]: {Balance: big.NewInt(0), Code: loggerCode(false)},
			addrOf[2]: {Balance: big.NewInt(0), Code: loggerCode(true)},
		},
		BaseFee: big.NewInt(params.InitialBaseFee),
	}
	if _, err := w.gspec.Commit(w.db, triedb.NewDatabase(w.db, nil), nil); err != nil {
		panic("genesis commit: " + err.Error())
	}
	cfg := core.DefaultConfig().WithStateScheme(rawdb.HashScheme)
	cfg.SnapshotLimit = 0
	cfg.TxLookupLimit = 0
	cfg.NoPrefetch = true
	bc, err := core.NewBlockChain(w.db, w.gspec, ethash.NewFaker(), cfg)
	if err != nil {
		panic("NewBlockChain: " + err.Error())
	}
	w.bc = bc
	w.canon = []*types.Block{bc.Genesis()}
	w.spec = [][]logT{nil}
	w.signer = types.LatestSigner(w.gspec.Config)
	w.be = &backend{db: w.db}
	w.sys = filters.NewFilterSystem(w.be, filters.Config{})
	return w
}

func (w *world) close() {
	if w.be.fm != nil {
		w.be.fm.Stop()
	}
	w.bc.Stop()
}

// txs of a block spec: one tx per distinct tx index (contract and topics of its first log)
func txsOf(b []logT) []logT {
	var out []logT
	for _, l := range b {
		if l.tx == len(out) {
			out = append(out, l)
		}
	}
	return out
}

// setChain makes [chain] canonical: common prefix kept, the rest generated and inserted
func (w *world) setChain(chain [][]logT) {
	p := 0
	for p < len(chain) && p < len(w.spec) && sameBlock(chain[p], w.spec[p]) {
		p++
	}
	if p == 0 {
		panic("hxlib: chain must start with the empty genesis block")
	}
	if p == len(chain) && p == len(w.spec) {
		return
	}
	if len(chain) <= len(w.spec) && p < len(w.spec) {
		panic("hxlib: a stage may only extend the chain or replace a suffix by a longer one")
	}
	newSpecs := chain[p:]
	blocks, _ := core.GenerateChain(w.gspec.Config, w.canon[p-1], ethash.NewFaker(), w.db, len(newSpecs), func(i int, g *core.BlockGen) {
		for _, t := range txsOf(newSpecs[i]) {
			var data []byte
			for _, id := range t.topics {
				data = append(data, topicOf[id].Bytes()...)
			}
			to := addrOf[t.addr]
			tx := types.MustSignNewTx(key, w.signer, &types.LegacyTx{
				Nonce: g.TxNonce(sender), To: &to, Gas: 200000, GasPrice: g.BaseFee(), Data: data,
			})
			g.AddTx(tx)
		}
	})
	if _, err := w.bc.InsertChain(blocks); err != nil {
		panic("InsertChain: " + err.Error())
	}
	headBlk := blocks[len(blocks)-1]
	if w.bc.CurrentBlock().Hash() != headBlk.Hash() {
		if _, err := w.bc.SetCanonical(headBlk); err != nil {
			panic("SetCanonical: " + err.Error())
		}
	}
	w.canon = append(append([]*types.Block{}, w.canon[:p]...), blocks...)
	w.spec = append([][]logT{}, chain...)
	for i, b := range blocks {
		n := uint64(p + i)
		w.seen[n] = append(w.seen[n], seenBlock{b.Hash(), String(encLogs(newSpecs[i]))})
	}
}

// canonical logs of block n straight from the receipts in the DB
func (w *world) dbLogs(hash common.Hash, n uint64) []*types.Log {
	var out []*types.Log
	idx := uint(0)
	for ti, tl := range rawdb.ReadLogs(w.db, hash, n) {
		for _, l := range tl {
			c := *l
			c.BlockNumber, c.BlockHash, c.TxIndex, c.Index = n, hash, uint(ti), idx
			idx++
			out = append(out, &c)
		}
	}
	return out
}

// the receipts in the DB must be what the case says (otherwise the case is malformed)
func (w *world) checkSpec() string {
	for n := range w.spec {
		hash := rawdb.ReadCanonicalHash(w.db, uint64(n))
		if hash != w.canon[n].Hash() {
			return fmt.Sprintf("canonical hash of block %d is not the inserted block", n)
		}
		got := w.dbLogs(hash, uint64(n))
		if len(got) != len(w.spec[n]) {
			return fmt.Sprintf("block %d has %d logs, case says %d", n, len(got), len(w.spec[n]))
		}
		for i, l := range got {
			s := w.spec[n][i]
			ok := int(l.TxIndex) == s.tx && int(l.Index) == s.idx && l.Address == addrOf[s.addr] && len(l.Topics) == len(s.topics)
			for j := 0; ok && j < len(s.topics); j++ {
				ok = l.Topics[j] == topicOf[s.topics[j]]
			}
			if !ok {
				return fmt.Sprintf("block %d log %d differs from the case", n, i)
			}
		}
	}
	return ""
}

func (w *world) filterOf(as []int, ts [][]int) ([]common.Address, [][]common.Hash) {
	var addrs []common.Address
	for _, a := range as {
		if a < 0 || a >= nAddr {
			panic("hxlib: bad address id")
		}
		addrs = append(addrs, addrOf[a])
	}
	topics := [][]common.Hash{}
	for _, sub := range ts {
		var hs []common.Hash
		for _, t := range sub {
			if t < 5 || t >= nValues {
				panic("hxlib: bad topic id")
			}
			hs = append(hs, topicOf[t])
		}
		topics = append(topics, hs)
	}
	if len(topics) > 4 {
		panic("hxlib: too many topic positions")
	}
	return addrs, topics
}

func matches(l *types.Log, addrs []common.Address, topics [][]common.Hash) bool {
	if len(addrs) > 0 {
		found := false
		for _, a := range addrs {
			found = found || a == l.Address
		}
		if !found {
			return false
		}
	}
	if len(topics) > len(l.Topics) {
		return false
	}
	for i, sub := range topics {
		if len(sub) == 0 {
			continue
		}
		found := false
		for _, t := range sub {
			found = found || t == l.Topics[i]
		}
		if !found {
			return false
		}
	}
	return true
}

func errClass(err error) int {
	var pruned interface{ ErrorCode() int }
	switch {
	case err == nil:
		return 0
	case err.Error() == "invalid block range params":
		return 1
	case err.Error() == "block range extends beyond current head block":
		return 2
	case err.Error() == "pending logs are not supported":
		return 3
	case err.Error() == "negative block number", strings.HasSuffix(err.Error(), "header not found"):
		return 4
	case err.Error() == "unknown block":
		return 5
	case errors.As(err, &pruned) && pruned.ErrorCode() == 4444:
		return 6
	}
	return 9
}

func resultObs(logs []*types.Log, err error) Sx {
	if err != nil {
		return L(I(1), I(int64(errClass(err))))
	}
	out := SL{I(0)}
	for _, l := range logs {
		out = append(out, L(U(l.BlockNumber), U(uint64(l.TxIndex)), U(uint64(l.Index))))
	}
	return out
}

func sameLogs(got, want []*types.Log) string {
	if len(got) != len(want) {
		return fmt.Sprintf("returned %d logs, direct scan of the canonical receipts gives %d", len(got), len(want))
	}
	for i := range got {
		g, x := got[i], want[i]
		if g.BlockNumber != x.BlockNumber || g.TxIndex != x.TxIndex || g.Index != x.Index || g.BlockHash != x.BlockHash ||
			g.Address != x.Address || len(g.Topics) != len(x.Topics) {
			return fmt.Sprintf("log #%d is (%d,%d,%d), direct scan gives (%d,%d,%d)", i, g.BlockNumber, g.TxIndex, g.Index, x.BlockNumber, x.TxIndex, x.Index)
		}
		for j := range g.Topics {
			if g.Topics[j] != x.Topics[j] {
				return fmt.Sprintf("log #%d topic %d differs from the receipt", i, j)
			}
		}
	}
	return ""
}

// expected outcome of a range query, computed directly from the DB (independent of the index)
func (w *world) expectRange(q queryT, addrs []common.Address, topics [][]common.Hash, cutoff uint64) ([]*types.Log, int) {
	head := uint64(len(w.canon) - 1)
	if q.begin == -1 || q.end == -1 {
		return nil, 3
	}
	const latest = ^uint64(0)
	res := func(n int64) (uint64, int) {
		switch {
		case n == -2:
			return latest, 0
		case n == -5:
			if cutoff > head {
				return 0, 4
			}
			return cutoff, 0
		case n < 0:
			return 0, 4
		}
		return uint64(n), 0
	}
	b, c := res(q.begin)
	if c != 0 {
		return nil, c
	}
	e, c := res(q.end)
	if c != 0 {
		return nil, c
	}
	if b > e {
		return nil, 1
	}
	if b == latest {
		b = head
	}
	if e == latest {
		e = head
	}
	if b > e {
		return nil, 1
	}
	if e > head {
		return nil, 2
	}
	var out []*types.Log
	for n := b; n <= e; n++ {
		for _, l := range w.dbLogs(w.canon[n].Hash(), n) {
			if matches(l, addrs, topics) {
				out = append(out, l)
			}
		}
	}
	return out, 0
}

// recording is set by the generator's second pass: the embedded traces are still empty
var recording bool

// run executes a case; when the ValidBlocks trace a running query observes differs from the
// trace embedded in the case (the indexer's intermediate range updates are not perfectly
// reproducible), the whole case is re-executed from scratch, up to 10 times, until the
// embedded trace is reproduced.  The direct oracle must hold on every attempt: a failing
// attempt is returned at once.
func run(c Sx) Result {
	var res Result
	for attempt := 0; attempt < 10; attempt++ {
		var mismatch bool
		res, mismatch = runOnce(c)
		if res.Oracle != "" || !mismatch || recording {
			if attempt > 0 {
				res.Tags = append(res.Tags, "trace-retry", fmt.Sprintf("trace-retry%d", attempt))
			}
			return res
		}
	}
	res.Tags = append(res.Tags, "trace-unreproduced")
	return res
}

func sameTrace(a, b [][2]uint64) bool {
	if len(a) != len(b) {
		return false
	}
	for i := range a {
		if a[i] != b[i] {
			return false
		}
	}
	return true
}

func runOnce(c Sx) (Result, bool) {
	traceMismatch := false
	top := AsList(c)
	pl, ex := AsList(top[0]), AsList(top[5])
	p := paramsT{lvpm: AsU64(pl[0]), hbits: AsU64(pl[1]), lmpe: AsU64(pl[2]), brl: AsU64(pl[3]), ldiff: AsU64(pl[4]),
		logMapHeight: AsU64(ex[0]), groupSize: AsU64(ex[1]), ratio: AsU64(ex[2])}
	if p.lvpm > 8 || p.logMapHeight > 8 || p.lmpe > 8 || p.hbits+p.lvpm > 32 || p.ldiff > 8 || p.ratio > 64 {
		panic("hxlib: parameters out of the harness range")
	}
	if p.groupSize > uint64(1)<<p.lmpe {
		panic("hxlib: base row group larger than an epoch (not a supported parameter set)")
	}
	gp, err := p.goParams()
	if err != nil {
		panic("hxlib: params rejected: " + err.Error())
	}
	if uint64(gp.VerifBaseRowLength()) != p.brl || p.brl == 0 {
		panic("hxlib: baseRowLength of the case differs from the derived one")
	}
	var stages []stageT
	for _, s := range AsList(top[4]) {
		stages = append(stages, decStage(s))
	}
	if os.Getenv("C40_DEBUG") != "" {
		log.SetDefault(log.NewLogger(log.NewTerminalHandlerWithLevel(os.Stderr, log.LevelWarn, false)))
	}
	w := newWorld(gp)
	defer w.close()

	res := Result{}
	var fails []string
	fail := func(f string, a ...interface{}) {
		if len(fails) < 4 {
			fails = append(fails, fmt.Sprintf(f, a...))
		}
	}
	tag := map[string]bool{}
	obs := SL{}
	nonTrivial := false
	for si, st := range stages {
		if len(st.chain) < 2 {
			panic("hxlib: a stage needs at least one block after genesis")
		}
		for _, b := range st.chain {
			for _, l := range b {
				if l.addr < 0 || l.addr > 2 || len(l.topics) > 4 {
					panic("hxlib: bad log spec")
				}
				for _, t := range l.topics {
					if t < 5 || t >= nValues {
						panic("hxlib: bad topic id")
					}
				}
			}
		}
		oldLen := len(w.spec)
		var transObs Sx
		if st.trans != nil {
			if si == 0 || w.be.fm == nil || w.fmHist != st.history || w.fmCutoff != st.cutoff || st.race {
				panic("hxlib: a transition query needs a running indexer with unchanged history limit and cutoff")
			}
			tr := st.trans
			addrs, topics := w.filterOf(tr.addrs, tr.topics)
			fired := false
			w.be.tick, w.be.trace = 0, nil
			w.be.hook = func(tick int) {
				if tick != tr.tick || fired {
					return
				}
				fired = true
				w.setChain(st.chain)
				if msg := w.checkSpec(); msg != "" {
					panic("hxlib: " + msg)
				}
				h := uint64(len(w.canon) - 1)
				w.be.fm.SetTarget(filtermaps.NewChainView(w.be, h, w.canon[h].Hash()), st.cutoff, 0)
				w.be.fm.WaitIdle()
			}
			ctx, cancel := context.WithTimeout(context.Background(), 60*time.Second)
			got, gerr := w.sys.NewRangeFilter(tr.begin, tr.end, addrs, topics, 0).Logs(ctx)
			cancel()
			w.be.hook = nil
			trace := w.be.trace
			if !recording && !sameTrace(trace, tr.trace) {
				traceMismatch = true
			}
			if fired {
				tag["trans-fired"] = true
				tag[fmt.Sprintf("trans-tick%d", tr.tick)] = true
			}
			// oracle: exactly the matching logs of the FINAL canonical chain over the requested
			// range - no duplicates, no logs of dropped blocks, none missing - or an error
			want, wantC := w.expectRange(queryT{begin: tr.begin, end: tr.end}, addrs, topics, st.cutoff)
			gc := errClass(gerr)
			switch {
			case gc == 0 && wantC != 0:
				fail("stage %d transition query: returned logs, expected error class %d", si, wantC)
			case gc == 0:
				if msg := sameLogs(got, want); msg != "" {
					fail("stage %d transition query (chain switched before env call %d, fired=%v): %s", si, tr.tick, fired, msg)
				}
				if len(got) > 0 && fired {
					tag["trans-hits"] = true
				}
			default:
				tag["trans-error"] = true
			}
			ro := resultObs(got, gerr)
			if gc != 0 && gc != 1 && gc != 2 && gc != 3 && gc != 4 {
				ro = L(I(1), I(99))
			}
			transObs = L(I(9), encTrace(trace), ro)
		}
		w.setChain(st.chain)
		if msg := w.checkSpec(); msg != "" {
			panic("hxlib: " + msg)
		}
		if si > 0 && len(st.chain) > oldLen && oldLen > 1 && !sameBlock(st.chain[oldLen-1], stages[si-1].chain[oldLen-1]) {
			tag["reorg"] = true
		}
		head := uint64(len(w.canon) - 1)
		w.be.cutoff = st.cutoff
		view := filtermaps.NewChainView(w.be, head, w.canon[head].Hash())
		// the history limit is fixed per FilterMaps instance and a changed cutoff is only acted
		// upon at the next head: both are changed by restarting the indexer on the same DB
		if w.be.fm != nil && (w.fmHist != st.history || w.fmCutoff != st.cutoff) {
			w.be.fm.Stop()
			w.be.fm = nil
			tag["restart"] = true
		}
		if w.be.fm == nil {
			if si == 0 && st.cutoff != 0 {
				panic("hxlib: the first stage must not have a history cutoff (index initialisation from genesis)")
			}
			fm, err := filtermaps.NewFilterMaps(w.db, view, st.cutoff, 0, gp, filtermaps.Config{History: st.history, HashScheme: true})
			if err != nil {
				panic("hxlib: NewFilterMaps: " + err.Error())
			}
			w.be.fm, w.fmHist, w.fmCutoff = fm, st.history, st.cutoff
			fm.Start()
		}
		if st.cutoff != 0 {
			tag["cutoff"] = true
		}
		w.be.fm.SetTarget(view, st.cutoff, 0)
		if !st.race {
			w.be.fm.WaitIdle()
		} else {
			tag["race"] = true
		}

		stObs := SL{nil}
		for qi, q := range st.queries {
			var addrs []common.Address
			for _, a := range q.addrs {
				if a < 0 || a >= nAddr {
					panic("hxlib: bad address id")
				}
				addrs = append(addrs, addrOf[a])
			}
			topics := [][]common.Hash{}
			for _, sub := range q.topics {
				var ts []common.Hash
				for _, t := range sub {
					if t < 5 || t >= nValues {
						panic("hxlib: bad topic id")
					}
					ts = append(ts, topicOf[t])
				}
				topics = append(topics, ts)
			}
			if len(topics) > 4 {
				panic("hxlib: too many topic positions")
			}
			var (
				got   []*types.Log
				gerr  error
				want  []*types.Log
				wantC int
			)
			ctx, cancel := context.WithTimeout(context.Background(), 30*time.Second)
			switch q.kind {
			case 0:
				got, gerr = w.sys.NewRangeFilter(q.begin, q.end, addrs, topics, 0).Logs(ctx)
				want, wantC = w.expectRange(q, addrs, topics, st.cutoff)
				if wantC == 0 && len(addrs) == 0 && len(topics) == 0 {
					tag["matchall"] = true
				}
			case 1, 3:
				var hash common.Hash
				if q.kind == 1 {
					if q.number > head {
						panic("hxlib: block query beyond head")
					}
					hash = w.canon[q.number].Hash()
				} else {
					spec := String(encLogs(q.sideLogs))
					for _, sb := range w.seen[q.number] {
						if sb.spec == spec {
							hash = sb.hash
						}
					}
					if hash == (common.Hash{}) {
						panic("hxlib: side block not found")
					}
					if hash != rawdb.ReadCanonicalHash(w.db, q.number) {
						tag["sideblock"] = true
					}
				}
				got, gerr = w.sys.NewBlockFilter(hash, addrs, topics).Logs(ctx)
				if q.number < st.cutoff {
					wantC = 6
				} else {
					for _, l := range w.dbLogs(hash, q.number) {
						if matches(l, addrs, topics) {
							want = append(want, l)
						}
					}
				}
			case 2:
				got, gerr = w.sys.NewBlockFilter(common.Hash{0xde, 0xad}, addrs, topics).Logs(ctx)
				wantC = 5
			}
			cancel()
			stObs = append(stObs, resultObs(got, gerr))
			// the direct oracle: exactly the matching canonical logs, in order, no duplicates
			if gc := errClass(gerr); gc != wantC {
				fail("stage %d query %d: error class %d (%v), expected %d", si, qi, gc, gerr, wantC)
			} else if gc == 0 {
				if msg := sameLogs(got, want); msg != "" {
					fail("stage %d query %d: %s", si, qi, msg)
				}
				if len(got) > 0 {
					tag["hits"] = true
				}
			} else {
				tag[fmt.Sprintf("err%d", gc)] = true
			}
			for _, sub := range q.topics {
				if len(sub) > 1 {
					tag["alternatives"] = true
				}
			}
		}
		w.be.fm.WaitIdle()
		if w.be.fm.VerifDisabled() {
			// The indexer must never disable itself on a healthy database ("served through the log
			// index" presupposes a live index).  Fixed defect: after a reorg the head renderer
			// picked a cached render snapshot below indexedRange.blocks.First() and treated
			// errUnindexedRange as fatal.  The queries above were answered in that state (by the
			// unindexed fallback); restart the indexer on the same DB so that the following
			// stages still run on a live index.
			fail("stage %d: the indexer disabled itself (log index head rendering failed on a healthy database)", si)
			tag["disabled-restart"] = true
			w.be.fm.Stop()
			fm, err := filtermaps.NewFilterMaps(w.db, view, st.cutoff, 0, gp, filtermaps.Config{History: st.history, HashScheme: true})
			if err != nil {
				panic("hxlib: NewFilterMaps: " + err.Error())
			}
			w.be.fm = fm
			fm.Start()
			fm.SetTarget(view, st.cutoff, 0)
			fm.WaitIdle()
		}
		init, headIdx, bf, ba, mf, ma, tpe, _ := w.be.fm.VerifIndexedRange()
		if w.be.fm.VerifDisabled() {
			fail("stage %d: the indexer went into disabled state (also after a restart)", si)
		}
		if !init || !headIdx || ba != head+1 {
			fail("stage %d: idle indexer does not cover the head (init=%v headIndexed=%v blocks=[%d,%d) head=%d)", si, init, headIdx, bf, ba, head)
		}
		if tpe != 0 {
			tag["tailpartial"] = true
		}
		stObs[0] = L(U(bf), U(ba), U(uint64(mf)), U(uint64(ma)))
		if os.Getenv("C40_DEBUG") != "" {
			fmt.Fprintf(os.Stderr, "stage %d: blocks [%d,%d) maps [%d,%d) tpe %d\n", si, bf, ba, mf, ma, tpe)
			for m := uint32(0); m < ma; m++ {
				n, _, err := rawdb.ReadFilterMapLastBlock(w.db, m)
				fmt.Fprintf(os.Stderr, "  map %d lastBlock %d err=%v\n", m, n, err)
			}
			for n := uint64(0); n <= head; n++ {
				ptr, err := rawdb.ReadBlockLvPointer(w.db, n)
				fmt.Fprintf(os.Stderr, "  block %d ptr %d err=%v nlogs=%d\n", n, ptr, err, len(w.spec[n]))
			}
		}
		if bf > 0 {
			tag["tail>0"] = true
		}
		if ma-mf >= 2 {
			tag["maps>=2"] = true
		}
		if ma >= 8 {
			tag["maps>=8"] = true
		}
		if uint64(mf)>>p.lmpe >= 2 {
			tag["tailepoch>=2"] = true
		}
		// queries whose range is partly below the indexed tail exercise the fallback
		for _, q := range st.queries {
			if q.kind == 0 && q.begin >= 0 && q.end >= 0 && uint64(q.begin) < bf && uint64(q.end) >= bf {
				tag["straddle"] = true
			}
		}
		if tag["hits"] && ma-mf >= 2 {
			nonTrivial = true
		}
		if transObs != nil {
			stObs = append(stObs, transObs)
		}
		obs = append(obs, stObs)
	}
	res.Obs = obs
	res.Oracle = strings.Join(fails, "; ")
	for t := range tag {
		res.Tags = append(res.Tags, t)
	}
	res.NonTrivial = nonTrivial
	return res, traceMismatch
}

var _ = bytes.Equal

func main() {
	Main(Family{
		ID: "c40",
		Rule: "random filter-map parameters (8..32 values per map, 2..8 rows, 2..8 maps per epoch, base row length 1..32 so rows overflow to higher layers), " +
			"real chains of 6..100 blocks built with core.GenerateChain from 3 log-emitting contracts (LOG0..LOG4, one contract emitting two logs per tx, " +
			"5 topics with two hot ones), 1..4 stages per case (extend, reorg replacing up to 8 blocks by a longer fork, indexer restart with another history limit, " +
			"history cutoff, queries racing the indexer), 5..12 queries per stage: address sets (incl. empty, non-emitting), 0..4 topic positions with wild cards and 2..3 alternatives, " +
			"block ranges inside / outside / straddling the indexed range, latest/earliest, block-hash filters on canonical, unknown and reorged-out blocks; " +
			"an adversarial stream uses pending/finalized/safe/negative/future block numbers; every third case has, per stage transition, a query that is RUNNING while the chain moves " +
			"(MatcherBackend.SyncLogIndex and Backend.CurrentView are hooked: right before the chosen call the chain is extended / reorged and the indexer catches up (history 0: the tail does not move); " +
			"filters matching many logs so the blocks at the old head / fork point matter; the ValidBlocks trace is recorded from the implementation in a second generator pass). Non-trivial = at least two maps indexed and some query returned logs.",
		Gen:         gen,
		Run:         run,
		CaseTimeout: 120 * time.Second,
	})
}
