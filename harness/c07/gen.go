package main

import (
	"sort"

	"github.com/ethereum/go-ethereum/common"
	"github.com/ethereum/go-ethereum/crypto"
	. "gethverif/harness/hxlib"
)

func crypto256(b []byte) common.Hash { return crypto.Keccak256Hash(b) }

func genKey(r *Rng, style int) []byte {
	switch style {
	case 0: // 1-3 byte keys over a 4-symbol alphabet: dense shared prefixes, keys that are prefixes of others
		n := 1 + r.Intn(3)
		k := make([]byte, n)
		al := []byte{0x00, 0x01, 0x10, 0x11}
		for i := range k {
			k[i] = al[r.Intn(4)]
		}
		return k
	case 2: // 1-2 byte keys with many different first nibbles (wide root branch)
		n := 1 + r.Intn(2)
		k := make([]byte, n)
		al := []byte{0x00, 0x01, 0x10, 0x20, 0x30, 0x31, 0xf0}
		for i := range k {
			k[i] = al[r.Intn(len(al))]
		}
		return k
	default: // 32-byte keys sharing long prefixes
		k := make([]byte, 32)
		base := byte(r.Intn(3))
		for i := range k {
			k[i] = base
		}
		p := 28 + r.Intn(4)
		k[p] = byte(r.Intn(4)) << uint(4*r.Intn(2))
		if r.Chance(1, 3) {
			k[31] = byte(r.Intn(256))
		}
		return k
	}
}

// values: tiny (embedded leaves), around the 32-byte node boundary, and large
func genVal(r *Rng) []byte {
	switch r.Intn(6) {
	case 0, 1:
		return r.Bytes(1 + r.Intn(3))
	case 2:
		return r.Bytes(32 + r.Intn(9))
	case 3:
		return r.Bytes(20 + r.Intn(14))
	default:
		return r.Bytes(1 + r.Intn(40))
	}
}

// hexPrefix returns a random nibble prefix (possibly the whole key) of a key's hex path
func hexPrefix(r *Rng, k []byte) []byte {
	nib := make([]byte, 0, 2*len(k))
	for _, b := range k {
		nib = append(nib, b>>4, b&15)
	}
	n := r.Intn(len(nib) + 1)
	if len(nib) > 8 && r.Chance(1, 2) {
		// deep paths for long keys: near the point where they diverge
		n = len(nib) - r.Intn(10)
	}
	if r.Chance(1, 8) && n < len(nib) {
		// a path that leaves the trie
		p := append([]byte{}, nib[:n]...)
		return append(p, byte(r.Intn(16)))
	}
	return nib[:n]
}

func keysOf(m map[string][]byte) []string {
	ks := make([]string, 0, len(m))
	for k := range m {
		ks = append(ks, k)
	}
	sort.Strings(ks)
	return ks
}

func genCase(r *Rng, scheme int, style int, big bool) Sx {
	ref := map[string][]byte{}
	ngen := 1 + r.Intn(4)
	var gens SL
	wrote := false
	upd := func(ops *SL, k, v []byte) {
		wrote = true
		*ops = append(*ops, L(I(0), B(k), B(v)))
		if len(v) == 0 {
			delete(ref, string(k))
		} else {
			ref[string(k)] = v
		}
	}
	pick := func() []byte {
		ks := keysOf(ref)
		if len(ks) == 0 || r.Chance(1, 5) {
			return genKey(r, style)
		}
		return []byte(ks[r.Intn(len(ks))])
	}
	tiny := r.Chance(1, 4) // all values tiny: embedded nodes everywhere
	val := func() []byte {
		if tiny {
			return r.Bytes(1 + r.Intn(2))
		}
		return genVal(r)
	}
	for g := 0; g < ngen; g++ {
		var ops SL
		wrote = false
		kind := r.Intn(10)
		if g == 0 {
			kind = 0
		}
		switch {
		case g == 0: // base trie
			n := 1 + r.Intn(24)
			if big {
				n = 100 + r.Intn(60) // > 100 uncommitted updates: parallel committer
			}
			for i := 0; i < n; i++ {
				upd(&ops, genKey(r, style), val())
			}
		case kind == 1: // delete everything
			ks := keysOf(ref)
			r2 := r.Fork()
			sort.Slice(ks, func(i, j int) bool { return r2.Bool() })
			for _, k := range ks {
				upd(&ops, []byte(k), nil)
			}
		case kind == 2: // delete everything, re-insert (same or new values, some keys dropped)
			old := map[string][]byte{}
			for k, v := range ref {
				old[k] = v
			}
			ks := keysOf(ref)
			for _, k := range ks {
				upd(&ops, []byte(k), nil)
			}
			mode := r.Intn(3)
			for _, k := range ks {
				switch {
				case mode == 0 || r.Chance(1, 2):
					upd(&ops, []byte(k), old[k])
				case r.Chance(1, 2):
					upd(&ops, []byte(k), val())
				}
			}
		case kind == 3: // rewrite the same values (dirty = false everywhere) and read
			for _, k := range keysOf(ref) {
				if r.Chance(2, 3) {
					upd(&ops, []byte(k), ref[k])
				} else {
					ops = append(ops, L(I(2), B([]byte(k))))
				}
			}
		case kind == 4: // read only
			n := 1 + r.Intn(6)
			for i := 0; i < n; i++ {
				ops = append(ops, L(I(2), B(pick())))
			}
		case kind == 5: // shrink values so that hashed nodes become embedded, or grow them
			for _, k := range keysOf(ref) {
				if r.Chance(1, 2) {
					if r.Bool() {
						upd(&ops, []byte(k), r.Bytes(1+r.Intn(2)))
					} else {
						upd(&ops, []byte(k), r.Bytes(33+r.Intn(4)))
					}
				}
			}
		case kind == 6: // read nodes by path (some below unresolved nodes), then delete / update below them
			ks := keysOf(ref)
			n := 1 + r.Intn(5)
			for i := 0; i < n && len(ks) > 0; i++ {
				ops = append(ops, L(I(3), B(hexPrefix(r, []byte(ks[r.Intn(len(ks))])))))
			}
			if r.Chance(1, 3) {
				ops = append(ops, L(I(5)))
			}
			m := 1 + r.Intn(4)
			for i := 0; i < m && len(ks) > 0; i++ {
				k := []byte(ks[r.Intn(len(ks))])
				if r.Chance(2, 3) {
					upd(&ops, k, nil)
				} else {
					upd(&ops, k, val())
				}
			}
		default: // random mix
			n := 1 + r.Intn(20)
			for i := 0; i < n; i++ {
				switch r.Intn(8) {
				case 0, 1: // delete an existing (mostly) key
					upd(&ops, pick(), nil)
				case 2: // read
					sel := r.Intn(6)
					if wrote && (sel == 3 || sel == 4) {
						// Prove / NodeIterator call the hasher, which caches hashes in DIRTY nodes;
						// only a later GetNode on such a node could tell (not modelled): these two
						// reads are generated before the first write of a session only
						sel = 0
					}
					switch sel {
					case 0, 1, 2:
						ops = append(ops, L(I(3), B(hexPrefix(r, pick()))))
					case 3:
						ops = append(ops, L(I(4), B(pick())))
					case 4:
						ops = append(ops, L(I(5)))
					default:
						ops = append(ops, L(I(2), B(pick())))
					}
				case 3: // delete a key that is probably absent
					upd(&ops, genKey(r, style), nil)
				case 4: // delete then re-insert the same key
					k := pick()
					v := ref[string(k)]
					upd(&ops, k, nil)
					if len(v) == 0 || r.Bool() {
						v = val()
					}
					upd(&ops, k, v)
				default:
					upd(&ops, pick(), val())
				}
			}
		}
		gens = append(gens, ops)
	}
	return L(I(int64(scheme)), gens)
}

func gen(r *Rng, tier string, emit func(Sx)) {
	r = NewRng(r.U64())
	n := 360
	if tier == "thorough" {
		n = 6000
	}
	for i := 0; i < n; i++ {
		scheme := 1
		if i%3 == 0 {
			scheme = 0
		}
		style := r.Intn(3)
		big := i%60 == 59
		emit(genCase(r, scheme, style, big))
	}
}
