// Family c07: trie.Commit (trie/trie.go, trie/committer.go, trie/tracer.go,
// trie/trienode/node.go) through triedb hash-scheme and path-scheme node databases on
// rawdb.NewMemoryDatabase(), several commit generations, vs coq/Trie/Commit.v.
package main

import (
	"bytes"
	"fmt"
	"sort"

	"github.com/ethereum/go-ethereum/common"
	"github.com/ethereum/go-ethereum/core/rawdb"
	"github.com/ethereum/go-ethereum/core/types"
	"github.com/ethereum/go-ethereum/ethdb"
	"github.com/ethereum/go-ethereum/trie"
	"github.com/ethereum/go-ethereum/trie/trienode"
	"github.com/ethereum/go-ethereum/triedb"
	"github.com/ethereum/go-ethereum/triedb/pathdb"
	. "gethverif/harness/hxlib"
)

func newDB(scheme int) (ethdb.Database, *triedb.Database) {
	disk := rawdb.NewMemoryDatabase()
	if scheme == 0 {
		return disk, triedb.NewDatabase(disk, triedb.HashDefaults)
	}
	conf := *pathdb.Defaults
	conf.NoAsyncFlush = true
	conf.NoAsyncGeneration = true
	return disk, triedb.NewDatabase(disk, &triedb.Config{PathDB: &conf})
}

type kv struct{ k, v []byte }

// dump returns the complete trie-node keyspace of the disk database: (path, blob) of the
// account-trie nodes under the path scheme, (hash, blob) of the legacy nodes under the
// hash scheme; sorted by key.
func dump(disk ethdb.Database, scheme int) []kv {
	var out []kv
	it := disk.NewIterator(nil, nil)
	defer it.Release()
	for it.Next() {
		key, val := it.Key(), it.Value()
		if scheme == 0 {
			if rawdb.IsLegacyTrieNode(key, val) {
				out = append(out, kv{common.CopyBytes(key), common.CopyBytes(val)})
			}
		} else {
			// not rawdb.ResolveAccountTrieNodeKey: it rejects 64-nibble paths, which do occur
			// (a leaf whose sibling differs only in the last nibble of a 32-byte key)
			if bytes.HasPrefix(key, rawdb.TrieNodeAccountPrefix) && hexPath(key[1:]) {
				out = append(out, kv{common.CopyBytes(key[1:]), common.CopyBytes(val)})
			}
		}
	}
	sort.Slice(out, func(i, j int) bool { return bytes.Compare(out[i].k, out[j].k) < 0 })
	return out
}

func hexPath(p []byte) bool {
	for _, b := range p {
		if b > 15 {
			return false
		}
	}
	return len(p) <= 64
}

func dumpSx(d []kv) Sx {
	l := SL{}
	for _, e := range d {
		l = append(l, L(B(e.k), B(e.v)))
	}
	return l
}

func sameDump(a, b []kv) bool {
	if len(a) != len(b) {
		return false
	}
	for i := range a {
		if !bytes.Equal(a[i].k, b[i].k) || !bytes.Equal(a[i].v, b[i].v) {
			return false
		}
	}
	return true
}

func sortedKeys(m map[string][]byte) []string {
	keys := make([]string, 0, len(m))
	for k := range m {
		keys = append(keys, k)
	}
	sort.Strings(keys)
	return keys
}

// fresh builds the content from scratch in a fresh database of the same scheme and
// returns the root and the resulting trie-node keyspace.
func fresh(ref map[string][]byte, scheme int) (common.Hash, []kv, *trienode.NodeSet) {
	disk, db := newDB(scheme)
	defer db.Close()
	t := trie.NewEmpty(db)
	for _, k := range sortedKeys(ref) {
		t.MustUpdate([]byte(k), ref[k])
	}
	root, nodes := t.Commit(false)
	if nodes != nil {
		if err := db.Update(root, types.EmptyRootHash, 1, trienode.NewWithNodeSet(nodes), triedb.NewStateSet()); err != nil {
			panic("fresh Update: " + err.Error())
		}
		if err := db.Commit(root, false); err != nil {
			panic("fresh Commit: " + err.Error())
		}
	}
	return root, dump(disk, scheme), nodes
}

func run(c Sx) Result {
	top := AsList(c)
	scheme := AsInt(top[0])
	gens := AsList(top[1])
	disk, db := newDB(scheme)
	defer db.Close()

	res := Result{}
	ref := map[string][]byte{}
	root := types.EmptyRootHash
	var obs SL
	var fails []string
	fail := func(f string, a ...any) {
		if len(fails) < 4 {
			fails = append(fails, fmt.Sprintf(f, a...))
		}
	}
	nDelEntry, nUpdEntry, nEmbDel, nNil, nDirtyOps, nGen, nGetNode := 0, 0, 0, 0, 0, 0, 0
	tag := map[string]bool{}

gens:
	for gi, g := range gens {
		ops := AsList(g)
		t, err := trie.New(trie.TrieID(root), db)
		if err != nil {
			obs = append(obs, L(I(-2), I(1)))
			fail("gen %d: trie.New(%x): %v", gi, root, err)
			break
		}
		var gets SL
		for _, o := range ops {
			l := AsList(o)
			switch AsInt(l[0]) {
			case 0:
				k, v := AsBytes(l[1]), AsBytes(l[2])
				if err := t.Update(k, v); err != nil {
					obs = append(obs, L(I(-2), I(1)))
					fail("gen %d: Update error: %v", gi, err)
					break gens
				}
				if len(v) == 0 {
					delete(ref, string(k))
				} else {
					ref[string(k)] = v
				}
				nDirtyOps++
			case 2:
				k := AsBytes(l[1])
				v, err := t.Get(k)
				if err != nil {
					obs = append(obs, L(I(-2), I(1)))
					fail("gen %d: Get error: %v", gi, err)
					break gens
				}
				gets = append(gets, Opt(len(v) > 0, B(v)))
				if !bytes.Equal(v, ref[string(k)]) {
					fail("gen %d: Get(%x)=%x, reference map has %x", gi, k, v, ref[string(k)])
				}
			case 3:
				// GetNode by path through whatever is unresolved (as the snap handler does)
				path := AsBytes(l[1])
				if !hexPath(path) {
					panic("hxlib: GetNode path is not a hex path")
				}
				blob, _, err := t.GetNode(trie.VerifHexToCompact(path))
				switch {
				case err != nil:
					gets = append(gets, L(I(2)))
				case len(blob) == 0:
					gets = append(gets, L(I(0)))
				default:
					gets = append(gets, L(I(1), B(blob)))
					if crypto256(blob) == (common.Hash{}) {
						fail("gen %d: GetNode returned an unhashable blob", gi)
					}
				}
				nGetNode++
			case 4:
				// Prove: reads nodes through the reader, must leave the session alone
				k := AsBytes(l[1])
				pdb := rawdb.NewMemoryDatabase()
				if err := t.Prove(k, pdb); err != nil {
					fail("gen %d: Prove(%x): %v", gi, k, err)
				}
			case 5:
				// full node iteration: reads every node, must leave the session alone
				nit, err := t.NodeIterator(nil)
				if err != nil {
					fail("gen %d: NodeIterator: %v", gi, err)
				} else {
					for nit.Next(true) {
					}
					if nit.Error() != nil {
						fail("gen %d: node iteration: %v", gi, nit.Error())
					}
				}
			default:
				panic("hxlib: unknown op")
			}
		}
		before := dump(disk, scheme)
		beforeMap := map[string][]byte{}
		for _, e := range before {
			beforeMap[string(e.k)] = e.v
		}
		// tracer state right before the commit: opTracer.deletes, the paths with a pre-value
		delList := sortedPaths(trie.VerifC07DeletedList(t))
		delNodes := map[string]bool{}
		for _, p := range trie.VerifC07DeletedNodes(t) {
			delNodes[string(p)] = true
		}
		var pvPaths [][]byte
		for p := range t.Witness() {
			pvPaths = append(pvPaths, []byte(p))
		}
		pvList := sortedPaths(pvPaths)
		newRoot, nodes := t.Commit(false)
		nGen++

		// ---- observables: node set ----
		var nsx Sx
		if nodes == nil {
			nsx = L(I(0))
			nNil++
		} else {
			paths := make([]string, 0, len(nodes.Nodes))
			for p := range nodes.Nodes {
				paths = append(paths, p)
			}
			sort.Strings(paths)
			var l SL
			for _, p := range paths {
				n := nodes.Nodes[p]
				prev := nodes.Origins[p]
				if n.IsDeleted() {
					l = append(l, L(B([]byte(p)), I(1), B(prev)))
					nDelEntry++
					// oracle: a deletion carries the blob that was stored at that path
					if len(prev) == 0 {
						fail("gen %d: deletion at path %x carries no previous value", gi, p)
					}
					if scheme == 1 && !bytes.Equal(prev, beforeMap[p]) {
						fail("gen %d: deletion at path %x carries prev %x, store had %x", gi, p, prev, beforeMap[p])
					}
				} else {
					l = append(l, L(B([]byte(p)), I(0), B(n.Hash.Bytes()), B(n.Blob), B(prev)))
					nUpdEntry++
					if scheme == 1 && !bytes.Equal(prev, beforeMap[p]) {
						fail("gen %d: update at path %x carries prev %x, store had %x", gi, p, prev, beforeMap[p])
					}
					if crypto256(n.Blob) != n.Hash {
						fail("gen %d: node at path %x: hash field is not the hash of the blob", gi, p)
					}
				}
			}
			nsx = L(I(1), l)
		}
		// ---- apply ----
		if nodes != nil && newRoot != root {
			if err := db.Update(newRoot, root, uint64(gi+1), trienode.NewWithNodeSet(nodes), triedb.NewStateSet()); err != nil {
				obs = append(obs, L(I(-2), I(4)))
				fail("gen %d: triedb.Update: %v", gi, err)
				break
			}
			if err := db.Commit(newRoot, false); err != nil {
				obs = append(obs, L(I(-2), I(5)))
				fail("gen %d: triedb.Commit: %v", gi, err)
				break
			}
		}
		after := dump(disk, scheme)
		obs = append(obs, L(gets, B(newRoot.Bytes()), nsx, dumpSx(after), delList, pvList))

		// ---- direct oracle ----
		// (1) the returned root is the root of the content built from scratch
		wantRoot, freshDump, _ := fresh(ref, scheme)
		if newRoot != wantRoot {
			fail("gen %d: committed root %x, content built from scratch has root %x", gi, newRoot, wantRoot)
		}
		// (2) reopening at the new root reads exactly the new contents
		if len(ref) == 0 {
			if newRoot != types.EmptyRootHash {
				fail("gen %d: empty content but root %x", gi, newRoot)
			}
		}
		t2, err := trie.New(trie.TrieID(newRoot), db)
		if err != nil {
			fail("gen %d: reopen at new root %x: %v", gi, newRoot, err)
		} else {
			keys := sortedKeys(ref)
			for _, k := range keys {
				v, err := t2.Get([]byte(k))
				if err != nil {
					fail("gen %d: reopened trie Get(%x): %v", gi, k, err)
					break
				}
				if !bytes.Equal(v, ref[k]) {
					fail("gen %d: reopened trie Get(%x)=%x want %x", gi, k, v, ref[k])
					break
				}
			}
			nit, err := t2.NodeIterator(nil)
			if err != nil {
				fail("gen %d: NodeIterator: %v", gi, err)
			} else {
				it := trie.NewIterator(nit)
				i := 0
				for it.Next() {
					if i >= len(keys) || string(it.Key) != keys[i] || !bytes.Equal(it.Value, ref[keys[i]]) {
						fail("gen %d: reopened trie iterates unexpected entry %d (%x,%x)", gi, i, it.Key, it.Value)
						break
					}
					i++
				}
				if it.Err != nil {
					fail("gen %d: reopened trie iteration: %v", gi, it.Err)
				} else if i != len(keys) {
					fail("gen %d: reopened trie iterates %d of %d entries", gi, i, len(keys))
				}
			}
		}
		// (3) path scheme: the keyspace is exactly that of the content built from scratch
		//     (no stale node, none missing); hash scheme: every node of the fresh build is present
		if scheme == 1 {
			if !sameDump(after, freshDump) {
				fail("gen %d: path-scheme keyspace differs from a from-scratch build: %s", gi, diffDump(after, freshDump))
			}
		} else {
			am := map[string][]byte{}
			for _, e := range after {
				am[string(e.k)] = e.v
			}
			for _, e := range freshDump {
				if !bytes.Equal(am[string(e.k)], e.v) {
					fail("gen %d: hash-scheme store misses node %x of the new trie", gi, e.k)
					break
				}
			}
		}
		// embedded-node deletions: deletion entries emitted by committer.store, not by deletedNodes
		if nodes != nil {
			for p, n := range nodes.Nodes {
				if n.IsDeleted() && !delNodes[p] {
					nEmbDel++
				}
			}
		}
		root = newRoot
	}
	// (4) streaming builder: the nodes emitted by the stack trie for the final content equal
	//     the nodes committed by a regular trie for the same content (prefix-free key sets only)
	if len(fails) == 0 && len(ref) > 0 {
		keys := sortedKeys(ref)
		same := true
		for _, k := range keys {
			if len(k) != len(keys[0]) {
				same = false
			}
		}
		if same && len(keys[0]) > 0 { // StackTrie does not accept the empty key
			emitted := map[string][]byte{}
			st := trie.NewStackTrie(func(path []byte, hash common.Hash, blob []byte) {
				emitted[string(path)] = common.CopyBytes(blob)
				if crypto256(blob) != hash {
					fail("stack trie emitted node %x with a hash that is not the hash of its blob", path)
				}
			})
			for _, k := range keys {
				st.Update([]byte(k), ref[k])
			}
			sroot := st.Hash()
			froot, _, fnodes := fresh(ref, 1)
			if sroot != froot {
				fail("stack trie root %x differs from trie root %x", sroot, froot)
			}
			if fnodes == nil || len(fnodes.Nodes) != len(emitted) {
				fail("stack trie emitted %d nodes, trie committed a different number", len(emitted))
			} else {
				for p, n := range fnodes.Nodes {
					if !bytes.Equal(emitted[p], n.Blob) {
						fail("stack trie node at path %x differs from the committed node", p)
						break
					}
				}
			}
			tag["stacktrie"] = true
		}
	}
	res.Obs = obs
	if len(fails) > 0 {
		res.Oracle = fmt.Sprint(fails)
	}
	tag[fmt.Sprintf("scheme%d", scheme)] = true
	tag[fmt.Sprintf("gens%d", len(gens))] = true
	tag[fmt.Sprintf("final%d", min(len(ref)/4*4, 24))] = true
	if nDelEntry > 0 {
		tag["deletion"] = true
	}
	if nEmbDel > 0 {
		tag["embedded-deletion"] = true
	}
	if nNil > 0 {
		tag["nil-set"] = true
	}
	if nGetNode > 0 {
		tag["getnode"] = true
	}
	for t := range tag {
		res.Tags = append(res.Tags, t)
	}
	res.NonTrivial = nGen >= 2 && nUpdEntry >= 3 && nDirtyOps >= 4
	return res
}

func sortedPaths(ps [][]byte) SL {
	sort.Slice(ps, func(i, j int) bool { return bytes.Compare(ps[i], ps[j]) < 0 })
	l := SL{}
	for _, p := range ps {
		l = append(l, B(p))
	}
	return l
}

func diffDump(a, b []kv) string {
	am, bm := map[string][]byte{}, map[string][]byte{}
	for _, e := range a {
		am[string(e.k)] = e.v
	}
	for _, e := range b {
		bm[string(e.k)] = e.v
	}
	var s []string
	for k, v := range am {
		if w, ok := bm[k]; !ok {
			s = append(s, fmt.Sprintf("stale node at path %x", k))
		} else if !bytes.Equal(v, w) {
			s = append(s, fmt.Sprintf("wrong node at path %x", k))
		}
	}
	for k := range bm {
		if _, ok := am[k]; !ok {
			s = append(s, fmt.Sprintf("missing node at path %x", k))
		}
	}
	sort.Strings(s)
	if len(s) > 3 {
		s = s[:3]
	}
	return fmt.Sprint(s)
}

func main() {
	Main(Family{
		ID:   "c07",
		Rule: "histories of 1-4 trie sessions (trie.New at the current root, Update/Delete/Get, Commit, triedb.Update+Commit, reopen) over one rawdb memory database through triedb with the hash scheme and the path scheme; keys of three styles (1-3 byte keys over a 4-symbol alphabet incl. keys that are prefixes of others, 1-2 byte keys with wide first nibbles, 32-byte keys sharing long prefixes); values of 1-3, 1-40 and 32-40 bytes so that nodes cross the 32-byte embedding boundary in both directions; GetNode(path) / Prove / full NodeIterator reads interleaved with the updates (reads through unresolved nodes before Update/Delete+Commit on the same trie instance); sessions of kinds random-mix / read-a-path-then-delete / delete-everything / delete-everything-and-reinsert (same or new values) / rewrite-same-values / read-only; non-trivial: >= 2 sessions, >= 3 written nodes, >= 4 updates",
		Gen:  gen,
		Run:  run,
	})
}
