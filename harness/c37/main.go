// Family c37: eth/gasestimator.Estimate vs coq/Gas/Estimator.v.
//
// A case is ( params prog table ): params are the Estimate-level inputs, prog describes the
// contract program / chain fork the Go side rebuilds on an in-memory state, table is the real
// EVM's answer (core.ApplyMessage on a state copy, executed by this harness independently of
// gasestimator.execute/run) at every gas limit the real Estimate probed when the case was
// generated.  The Coq model replays Estimate against that table; observables are the result
// (estimate or error class) and the exact probe sequence.
package main

import (
	"context"
	"errors"
	"fmt"
	"math"
	"math/big"
	"os"
	"sort"
	"strings"

	"github.com/ethereum/go-ethereum/common"
	"github.com/ethereum/go-ethereum/consensus"
	"github.com/ethereum/go-ethereum/consensus/beacon"
	"github.com/ethereum/go-ethereum/consensus/ethash"
	"github.com/ethereum/go-ethereum/core"
	"github.com/ethereum/go-ethereum/core/state"
	"github.com/ethereum/go-ethereum/core/tracing"
	"github.com/ethereum/go-ethereum/core/types"
	"github.com/ethereum/go-ethereum/core/vm"
	"github.com/ethereum/go-ethereum/eth/gasestimator"
	"github.com/ethereum/go-ethereum/params"
	"github.com/holiman/uint256"
	. "gethverif/harness/hxlib"
)

// ---------------------------------------------------------------- bytecode builder

type asm struct {
	code   []byte
	labels map[string]int
	fix    map[int]string
}

func newAsm() *asm { return &asm{labels: map[string]int{}, fix: map[int]string{}} }
func (a *asm) op(b ...byte) *asm {
	a.code = append(a.code, b...)
	return a
}
func (a *asm) push(v uint64) *asm {
	if v == 0 {
		return a.op(0x60, 0x00)
	}
	var bs []byte
	for x := v; x > 0; x >>= 8 {
		bs = append([]byte{byte(x)}, bs...)
	}
	a.code = append(a.code, byte(0x5f+len(bs)))
	a.code = append(a.code, bs...)
	return a
}
func (a *asm) pushLabel(l string) *asm {
	a.code = append(a.code, 0x61, 0, 0)
	a.fix[len(a.code)-2] = l
	return a
}
func (a *asm) label(l string) *asm {
	a.labels[l] = len(a.code)
	return a.op(0x5b)
}
func (a *asm) bytes() []byte {
	out := append([]byte{}, a.code...)
	for pos, l := range a.fix {
		t := a.labels[l]
		out[pos], out[pos+1] = byte(t>>8), byte(t)
	}
	return out
}

const (
	opSTOP, opLT, opGT, opISZERO          = 0x00, 0x10, 0x11, 0x15
	opPOP, opSSTORE, opJUMP, opJUMPI      = 0x50, 0x55, 0x56, 0x57
	opGAS, opDUP1, opSWAP1, opSUB         = 0x5a, 0x80, 0x90, 0x03
	opCALL, opRETURN, opREVERT, opINVALID = 0xf1, 0xf3, 0xfd, 0xfe
	opCALLDATALOAD                        = 0x35
)

// burn: a counting loop of n iterations (constant gas per iteration)
func (a *asm) burn(n uint64, tag string) *asm {
	a.push(n).label("L" + tag).op(opDUP1, opISZERO).pushLabel("E" + tag).op(opJUMPI)
	a.push(1).op(opSWAP1, opSUB).pushLabel("L" + tag).op(opJUMP)
	return a.label("E" + tag).op(opPOP)
}

// fail: failMode 0 = INVALID (consumes all gas), 1 = REVERT with 4 bytes of data, 2 = REVERT empty
func (a *asm) fail(mode int) *asm {
	switch mode {
	case 0:
		return a.op(opINVALID)
	case 1:
		return a.push(4).push(0).op(opREVERT)
	default:
		return a.push(0).push(0).op(opREVERT)
	}
}

var (
	sender   = common.HexToAddress("0x00000000000000000000000000000000000a11ce")
	eoaDest  = common.HexToAddress("0x0000000000000000000000000000000000000b0b")
	mainAddr = common.HexToAddress("0x000000000000000000000000000000000000c0de")
	coinbase = common.HexToAddress("0x00000000000000000000000000000000000c01b5")
)

func helperAddr(i int) common.Address {
	return common.BytesToAddress([]byte{0xc1, byte(i)})
}

// ---------------------------------------------------------------- scenario

// prog = (kind fork a b c mode dataLen)
type prog struct {
	kind    int
	fork    int // 0 London..Shanghai, 1 Cancun+Prague, 2 Osaka, 3 Amsterdam
	a, b, c uint64
	mode    int
	dataLen int
}

type scenario struct {
	pr       prog
	hdrGas   uint64
	callGas  uint64
	feeCap   *uint256.Int
	gasPrice *uint256.Int
	tip      *uint256.Int
	balance  *uint256.Int
	value    *uint256.Int // nil allowed
	nblobs   int
	blobCap  *uint256.Int
	gasCap   uint64
	erNum    uint64 // ErrorRatio = erNum / 2^erK
	erK      uint64
	skipTx   bool
}

type built struct {
	cfg      *params.ChainConfig
	header   *types.Header
	st       *state.StateDB
	to       *common.Address
	data     []byte
	codeSize int
	mono     bool // the program is gas-monotone and fails below the gas it uses
}

func newU64(v uint64) *uint64 { return &v }

func configFor(fork int) *params.ChainConfig {
	c := *params.MergedTestChainConfig
	c.BlobScheduleConfig = &params.BlobScheduleConfig{
		Cancun: params.DefaultCancunBlobConfig, Prague: params.DefaultPragueBlobConfig,
	}
	switch fork {
	case 0:
		c.CancunTime, c.PragueTime, c.OsakaTime = nil, nil, nil
		c.BlobScheduleConfig = nil
	case 1:
		c.OsakaTime = nil
	case 2:
	case 3:
		c.AmsterdamTime = newU64(0)
	}
	return &c
}

func build(sc *scenario) *built {
	b := &built{cfg: configFor(sc.pr.fork)}
	b.header = &types.Header{
		Number: big.NewInt(1), Time: 10, Difficulty: big.NewInt(0), GasLimit: sc.hdrGas,
		BaseFee: big.NewInt(10), Coinbase: coinbase,
	}
	if sc.pr.fork >= 1 {
		b.header.ExcessBlobGas, b.header.BlobGasUsed = newU64(0), newU64(0)
	}
	st, err := state.New(types.EmptyRootHash, state.NewDatabaseForTesting())
	if err != nil {
		panic(err)
	}
	st.SetBalance(sender, sc.balance, tracing.BalanceChangeUnspecified)
	st.SetBalance(eoaDest, uint256.NewInt(1), tracing.BalanceChangeUnspecified)
	setCode := func(a common.Address, code []byte) {
		st.SetNonce(a, 1, tracing.NonceChangeUnspecified)
		st.SetCode(a, code, tracing.CodeChangeUnspecified)
	}
	p := sc.pr
	to := mainAddr
	b.to = &to
	b.data = make([]byte, p.dataLen)
	for i := range b.data {
		b.data[i] = byte(1 + (i*7+int(p.a))%255)
	}
	var code []byte
	switch p.kind {
	case 0: // plain transfer to an account without code
		to = eoaDest
		b.mono = true
	case 1: // constant-gas loop
		code = newAsm().burn(p.a, "a").op(opSTOP).bytes()
		b.mono = true
	case 2: // succeeds iff gasleft >= a at the check (gas-dependent, but monotone)
		code = newAsm().burn(p.b, "a").op(opGAS).push(p.a).op(opGT).pushLabel("F").op(opJUMPI).
			burn(p.c, "b").op(opSTOP).label("F").fail(p.mode).bytes()
		b.mono = true
	case 3: // window: gasleft < a fails, < b ok, < c fails, else ok (non-monotone)
		code = newAsm().op(opGAS).
			op(opDUP1).push(p.a).op(opGT).pushLabel("F").op(opJUMPI).
			op(opDUP1).push(p.b).op(opGT).pushLabel("OK").op(opJUMPI).
			op(opDUP1).push(p.c).op(opGT).pushLabel("F").op(opJUMPI).
			label("OK").op(opSTOP).label("F").fail(p.mode).bytes()
	case 4: // always fails, or fails iff first calldata word is non-zero
		if p.a == 0 {
			code = newAsm().burn(p.b, "a").fail(p.mode).bytes()
		} else {
			code = newAsm().push(0).op(opCALLDATALOAD).pushLabel("F").op(opJUMPI).
				burn(p.b, "a").op(opSTOP).label("F").fail(p.mode).bytes()
		}
		b.mono = true
	case 5: // chain of c nested CALLs forwarding all gas, each requiring success; innermost burns a
		depth := int(p.c)
		for i := depth; i >= 0; i-- {
			as := newAsm()
			if i == depth {
				as.burn(p.a, "a").op(opSTOP)
			} else {
				as.burn(p.b, "a")
				as.push(0).push(0).push(0).push(0).push(0).push(new(big.Int).SetBytes(helperAddr(i + 1).Bytes()).Uint64())
				if p.mode == 0 {
					as.op(opGAS)
				} else {
					as.push(p.a*30 + 5000) // explicit gas request, capped at 63/64 of what is left
				}
				as.op(opCALL, opISZERO).pushLabel("F").op(opJUMPI).op(opSTOP).label("F").fail(2)
			}
			if i == 0 {
				code = as.bytes()
			} else {
				setCode(helperAddr(i), as.bytes())
			}
		}
		b.mono = true
	case 6: // clear a storage slots (refunds: used < peak), then burn b
		as := newAsm()
		for i := uint64(0); i < p.a; i++ {
			st.SetState(mainAddr, common.BigToHash(big.NewInt(int64(i+1))), common.BigToHash(big.NewInt(7)))
			as.push(0).push(i + 1).op(opSSTORE)
		}
		code = as.burn(p.b, "a").op(opSTOP).bytes()
		b.mono = true
	case 7: // burner: forwards all gas to a callee that wastes it, ignores the failure (used depends on gas)
		setCode(helperAddr(1), newAsm().op(opINVALID).bytes())
		code = newAsm().push(0).push(0).push(0).push(0).push(0).
			push(new(big.Int).SetBytes(helperAddr(1).Bytes()).Uint64()).op(opGAS).op(opCALL, opPOP).
			burn(p.a, "a").op(opSTOP).bytes()
	case 8: // contract creation: init code burns a and returns b bytes of (zero) code
		b.to = nil
		b.data = newAsm().burn(p.a, "a").push(p.b).push(0).op(opRETURN).bytes()
		b.mono = true
	case 9: // calldata-heavy call to a trivial contract (EIP-7623 floor from Prague on)
		code = newAsm().op(opSTOP).bytes()
		b.mono = true
	default:
		panic("hxlib: unknown program kind")
	}
	if code != nil {
		setCode(mainAddr, code)
	}
	if b.to != nil && *b.to == mainAddr {
		b.codeSize = len(code)
	}
	rules := b.cfg.Rules(b.header.Number, true, b.header.Time)
	root, err := st.Commit(rules, 0)
	if err != nil {
		panic(err)
	}
	if st, err = state.New(root, st.Database()); err != nil {
		panic(err)
	}
	b.st = st
	return b
}

func (sc *scenario) message(b *built, gas uint64) *core.Message {
	m := &core.Message{
		From: sender, To: b.to, GasLimit: gas, Data: b.data,
		GasPrice: sc.gasPrice.Clone(), GasFeeCap: sc.feeCap.Clone(), GasTipCap: sc.tip.Clone(),
		SkipNonceChecks: true, SkipTransactionChecks: sc.skipTx,
	}
	if sc.value != nil {
		m.Value = sc.value.Clone()
	}
	if sc.nblobs > 0 {
		for i := 0; i < sc.nblobs; i++ {
			m.BlobHashes = append(m.BlobHashes, common.Hash{0x01, byte(i)})
		}
		m.BlobGasFeeCap = sc.blobCap.Clone()
	}
	return m
}

// ---------------------------------------------------------------- chain context (probe recorder)

type chainCtx struct {
	cfg    *params.ChainConfig
	eng    consensus.Engine
	call   *core.Message
	probes *[]uint64
	limit  int // > 0: abort (panic) after this many probes; used by wrapdemo only
}

func (c *chainCtx) Config() *params.ChainConfig                 { return c.cfg }
func (c *chainCtx) CurrentHeader() *types.Header                { return nil }
func (c *chainCtx) GetHeader(common.Hash, uint64) *types.Header { return nil }
func (c *chainCtx) GetHeaderByNumber(uint64) *types.Header      { return nil }
func (c *chainCtx) GetHeaderByHash(common.Hash) *types.Header   { return nil }

// Engine is called exactly once per gasestimator.run (core.NewEVMBlockContext), after execute
// has stored the probed gas limit into the message: that is the recording point.
func (c *chainCtx) Engine() consensus.Engine {
	if c.probes != nil {
		*c.probes = append(*c.probes, c.call.GasLimit)
		if c.limit > 0 && len(*c.probes) > c.limit {
			panic("probe limit reached")
		}
	}
	return c.eng
}

var engine = beacon.New(ethash.NewFaker())

// ---------------------------------------------------------------- the EVM oracle, independent of gasestimator

type answer struct {
	kind, cls   int // kind: 0 intrinsic, 1 gas limit too high, 2 consensus error cls, 3 ok, 4 oog, 5 vm error cls
	used, peak  uint64
}

func consensusClass(err error) int {
	switch {
	case errors.Is(err, core.ErrInsufficientFundsForTransfer):
		return 2
	case errors.Is(err, core.ErrInsufficientFunds):
		return 1
	case errors.Is(err, core.ErrFloorDataGas):
		return 3
	case errors.Is(err, core.ErrFeeCapTooLow):
		return 4
	case errors.Is(err, core.ErrTipAboveFeeCap):
		return 5
	case errors.Is(err, core.ErrBlobFeeCapTooLow):
		return 6
	case errors.Is(err, vm.ErrMaxInitCodeSizeExceeded):
		return 7
	}
	return 9
}

func vmClass(err error) int {
	if errors.Is(err, vm.ErrExecutionReverted) {
		return 2
	}
	return 3
}

func runAt(sc *scenario, b *built, gas uint64) answer {
	msg := sc.message(b, gas)
	bctx := core.NewEVMBlockContext(b.header, &chainCtx{cfg: b.cfg, eng: engine}, nil)
	if msg.GasPrice.Sign() == 0 {
		bctx.BaseFee = new(big.Int)
	}
	if msg.BlobGasFeeCap != nil && msg.BlobGasFeeCap.BitLen() == 0 {
		bctx.BlobBaseFee = new(big.Int)
	}
	evm := vm.NewEVM(bctx, b.st.Copy(), b.cfg, vm.Config{NoBaseFee: true})
	defer evm.Release()
	res, err := core.ApplyMessage(evm, msg, nil)
	if err != nil {
		switch {
		case errors.Is(err, core.ErrIntrinsicGas):
			return answer{kind: 0}
		case errors.Is(err, core.ErrGasLimitTooHigh):
			return answer{kind: 1}
		}
		return answer{kind: 2, cls: consensusClass(err)}
	}
	switch {
	case res.Err == nil:
		return answer{kind: 3, used: res.UsedGas, peak: res.MaxUsedGas}
	case errors.Is(res.Err, vm.ErrOutOfGas):
		return answer{kind: 4, used: res.UsedGas, peak: res.MaxUsedGas}
	}
	return answer{kind: 5, cls: vmClass(res.Err), used: res.UsedGas, peak: res.MaxUsedGas}
}

// ---------------------------------------------------------------- the implementation under test

type estOut struct {
	class  int
	val    uint64
	probes []uint64
}

func (sc *scenario) ratio() float64 {
	return math.Ldexp(float64(sc.erNum), -int(sc.erK))
}

func estimate(sc *scenario, b *built) estOut {
	var probes []uint64
	call := sc.message(b, sc.callGas)
	opts := &gasestimator.Options{
		Config: b.cfg, Header: b.header, State: b.st, ErrorRatio: sc.ratio(),
		Chain: &chainCtx{cfg: b.cfg, eng: engine, call: call, probes: &probes},
	}
	r, _, err := gasestimator.Estimate(context.Background(), call, opts, sc.gasCap)
	out := estOut{probes: probes}
	switch {
	case err == nil:
		out.class, out.val = 0, r
	case err == core.ErrInsufficientFundsForTransfer:
		out.class = 1
	case err == core.ErrInsufficientFunds:
		out.class = 2
	case strings.HasPrefix(err.Error(), "gas required exceeds allowance ("):
		out.class = 5
		fmt.Sscanf(err.Error(), "gas required exceeds allowance (%d)", &out.val)
	case strings.HasPrefix(err.Error(), "failed with "):
		out.class, out.val = 3, uint64(consensusClass(err))
	default:
		out.class, out.val = 4, uint64(vmClass(err))
	}
	return out
}

// ---------------------------------------------------------------- case encoding

func optU(v *uint256.Int) Sx {
	if v == nil {
		return L()
	}
	return L(Big(v.ToBig()))
}

func (sc *scenario) encode(b *built, table Sx) Sx {
	p := sc.pr
	ps := L(U(sc.hdrGas), U(sc.callGas), Bool(p.fork >= 1), Bool(p.fork >= 2), Bool(p.fork >= 3),
		optU(sc.feeCap), optU(sc.gasPrice), Big(sc.balance.ToBig()), optU(sc.value),
		I(int64(sc.nblobs)), Big(sc.blobCap.ToBig()), U(sc.gasCap),
		I(int64(len(b.data))), Bool(b.to == nil), I(int64(b.codeSize)), U(sc.erNum), U(sc.erK))
	pg := L(I(int64(p.kind)), I(int64(p.fork)), U(p.a), U(p.b), U(p.c), I(int64(p.mode)), I(int64(p.dataLen)),
		Big(sc.tip.ToBig()), Bool(sc.skipTx))
	return L(ps, pg, table)
}

func u256(v Sx) *uint256.Int {
	x, over := uint256.FromBig(AsBig(v))
	if over || AsBig(v).Sign() < 0 {
		panic("hxlib: value does not fit uint256")
	}
	return x
}

func optOf(v Sx) *uint256.Int {
	l := AsList(v)
	if len(l) == 0 {
		return nil
	}
	return u256(l[0])
}

func small(v Sx, max int64) uint64 {
	x := AsBig(v)
	if x.Sign() < 0 || !x.IsInt64() || x.Int64() > max {
		panic("hxlib: program parameter out of range")
	}
	return x.Uint64()
}

func u64of(v Sx) uint64 {
	x := AsBig(v)
	if x.Sign() < 0 || !x.IsUint64() {
		panic("hxlib: not a uint64")
	}
	return x.Uint64()
}

func decode(c Sx) (*scenario, *built) {
	l := AsList(c)
	if len(l) != 3 {
		panic("hxlib: case must be (params prog table)")
	}
	ps, pg := AsList(l[0]), AsList(l[1])
	if len(ps) != 17 || len(pg) != 9 {
		panic("hxlib: bad params/prog arity")
	}
	sc := &scenario{
		hdrGas: u64of(ps[0]), callGas: u64of(ps[1]),
		feeCap: optOf(ps[5]), gasPrice: optOf(ps[6]), balance: u256(ps[7]), value: optOf(ps[8]),
		nblobs: int(small(ps[9], 64)), blobCap: u256(ps[10]), gasCap: u64of(ps[11]),
		erNum: u64of(ps[15]), erK: small(ps[16], 1000),
		tip: u256(pg[7]), skipTx: AsBool(pg[8]),
	}
	if sc.feeCap == nil || sc.gasPrice == nil {
		panic("hxlib: nil fee fields are not executable by the EVM")
	}
	if sc.erNum >= 1<<53 {
		panic("hxlib: error ratio mantissa too large")
	}
	sc.pr = prog{kind: int(small(pg[0], 9)), fork: int(small(pg[1], 3)),
		a: small(pg[2], 1<<40), b: small(pg[3], 1<<40), c: small(pg[4], 1<<40),
		mode: int(small(pg[5], 2)), dataLen: int(small(pg[6], 5000))}
	if sc.pr.kind == 5 && sc.pr.c > 4 || sc.pr.kind == 6 && sc.pr.a > 40 || sc.pr.kind == 8 && sc.pr.b > 30000 {
		panic("hxlib: program parameter out of range")
	}
	for _, n := range []uint64{sc.pr.a, sc.pr.b, sc.pr.c} {
		if (sc.pr.kind != 2 && sc.pr.kind != 3) && n > 200000 {
			panic("hxlib: loop count out of range")
		}
	}
	if sc.pr.kind == 2 && (sc.pr.b > 200000 || sc.pr.c > 200000) {
		panic("hxlib: loop count out of range")
	}
	if sc.hdrGas >= 1<<63 || sc.callGas >= 1<<63 {
		panic("hxlib: gas limits at or above 2^63 are outside the stated guard")
	}
	b := build(sc)
	// derived fields must agree with the scenario
	p := sc.pr
	if AsBool(ps[2]) != (p.fork >= 1) || AsBool(ps[3]) != (p.fork >= 2) || AsBool(ps[4]) != (p.fork >= 3) ||
		AsInt(ps[12]) != len(b.data) || AsBool(ps[13]) != (b.to == nil) || AsInt(ps[14]) != b.codeSize {
		panic("hxlib: derived params disagree with prog")
	}
	return sc, b
}

func makeTable(sc *scenario, b *built, gases []uint64) Sx {
	seen := map[uint64]bool{}
	var gs []uint64
	for _, g := range gases {
		if !seen[g] {
			seen[g] = true
			gs = append(gs, g)
		}
	}
	sort.Slice(gs, func(i, j int) bool { return gs[i] < gs[j] })
	var rows SL
	for _, g := range gs {
		a := runAt(sc, b, g)
		rows = append(rows, L(U(g), I(int64(a.kind)), I(int64(a.cls)), U(a.used), U(a.peak)))
	}
	return rows
}

// ---------------------------------------------------------------- Run: implementation + direct oracle

func blobCost(sc *scenario) *big.Int {
	if sc.pr.fork < 1 || sc.nblobs == 0 {
		return new(big.Int)
	}
	x := big.NewInt(int64(sc.nblobs) * params.BlobTxBlobGasPerBlob)
	return x.Mul(x, sc.blobCap.ToBig())
}

// allowanceCap computes, independently of the estimator, the largest gas limit every cap of
// the property allows; ok=false when the sender cannot even pay value + blob cost.
func allowanceCap(sc *scenario) (cap uint64, ok bool) {
	cap = sc.hdrGas
	if sc.callGas >= params.TxGas {
		cap = sc.callGas
	}
	if sc.pr.fork == 2 && cap > params.MaxTxGas {
		cap = params.MaxTxGas
	}
	if !sc.feeCap.IsZero() {
		avail := sc.balance.ToBig()
		if sc.value != nil {
			avail.Sub(avail, sc.value.ToBig())
		}
		avail.Sub(avail, blobCost(sc))
		if avail.Sign() <= 0 {
			return 0, false
		}
		avail.Div(avail, sc.feeCap.ToBig())
		if avail.IsUint64() && avail.Uint64() < cap {
			cap = avail.Uint64()
		}
	}
	if sc.gasCap != 0 && sc.gasCap < cap {
		cap = sc.gasCap
	}
	return cap, true
}

func run(c Sx) Result {
	sc, b := decode(c)
	out := estimate(sc, b)
	res := Result{}
	var pr SL
	for _, g := range out.probes {
		pr = append(pr, U(g))
	}
	res.Obs = L(I(int64(out.class)), U(out.val), pr)
	res.Tags = []string{fmt.Sprintf("kind%d", sc.pr.kind), fmt.Sprintf("fork%d", sc.pr.fork),
		fmt.Sprintf("class%d", out.class)}
	if out.class == 3 || out.class == 4 {
		res.Tags = append(res.Tags, fmt.Sprintf("class%d_%d", out.class, out.val))
	}
	if sc.erNum != 0 {
		res.Tags = append(res.Tags, "ratio")
	}
	if !sc.feeCap.IsZero() {
		res.Tags = append(res.Tags, "feecap")
	}
	if sc.nblobs > 0 {
		res.Tags = append(res.Tags, "blobs")
	}
	if sc.gasCap != 0 {
		res.Tags = append(res.Tags, "gascap")
	}
	if sc.value == nil {
		res.Tags = append(res.Tags, "nilvalue")
	}
	np := len(out.probes)
	res.Tags = append(res.Tags, fmt.Sprintf("probes%s", map[bool]string{true: "_ge10", false: fmt.Sprint(np)}[np >= 10]))
	res.NonTrivial = np >= 3 || (out.class >= 3 && np >= 1)

	// ---- the property, checked directly on the implementation
	var fails []string
	plain := len(b.data) == 0 && b.to != nil && b.codeSize == 0
	cap, funded := allowanceCap(sc)
	switch out.class {
	case 0:
		r := out.val
		if a := runAt(sc, b, r); a.kind != 3 {
			fails = append(fails, fmt.Sprintf("estimate %d does not let the call succeed (kind %d cls %d)", r, a.kind, a.cls))
		}
		if !funded || r > cap {
			// (formerly exempted for the plain-transfer shortcut answering 21000 above the cap;
			// repaired in /repo 10bd791e6e — now a failure)
			tag := ""
			if plain && r == params.TxGas {
				tag = " [shortcut_above_cap]"
			}
			fails = append(fails, fmt.Sprintf("estimate %d exceeds the allowance cap %d (funded=%v)%s", r, cap, funded, tag))
		}
		if b.mono && r > 0 {
			if sc.erNum == 0 {
				if a := runAt(sc, b, r-1); a.kind == 3 {
					tag := ""
					if plain && r == params.TxGas && sc.pr.fork == 3 {
						tag = " [shortcut_not_minimal_amsterdam]" // repaired in /repo 2d92053e8d
					}
					fails = append(fails, fmt.Sprintf("errorRatio 0, monotone program: %d also succeeds, estimate %d is not minimal%s", r-1, r, tag))
				}
				res.Tags = append(res.Tags, "minimal_checked")
			} else if ratio := sc.ratio(); ratio < 1 {
				// (r-lo)/r < ratio for a failing lo, and the program is monotone: floor(r*(1-ratio))-1 must fail
				g := uint64(float64(r) * (1 - ratio))
				if g >= 2 && g-1 < r {
					if a := runAt(sc, b, g-1); a.kind == 3 {
						fails = append(fails, fmt.Sprintf("errorRatio %g: %d succeeds, estimate %d overshoots by more than the ratio", ratio, g-1, r))
					}
					res.Tags = append(res.Tags, "ratio_checked")
				}
			}
		}
	case 4, 5:
		if funded {
			if a := runAt(sc, b, cap); a.kind == 3 {
				fails = append(fails, fmt.Sprintf("call succeeds at the allowance cap %d but Estimate failed with class %d", cap, out.class))
			}
		}
	case 3:
		if funded {
			if a := runAt(sc, b, cap); a.kind == 3 {
				fails = append(fails, fmt.Sprintf("call succeeds at the allowance cap %d but Estimate bailed out (class %d)", cap, out.val))
			}
		}
	case 1, 2:
		if funded {
			fails = append(fails, "Estimate reports insufficient funds although balance > value + blob cost")
		}
	}
	if np > 140 {
		fails = append(fails, fmt.Sprintf("%d probes: more than the logarithmic bound", np))
	}
	if len(fails) > 0 {
		res.Oracle = strings.Join(fails, "; ")
	}
	return res
}

func valueOf(sc *scenario) *big.Int {
	if sc.value == nil {
		return new(big.Int)
	}
	return sc.value.ToBig()
}

// ---------------------------------------------------------------- Gen

func emitScenario(sc *scenario, emit func(Sx)) {
	defer func() {
		if e := recover(); e != nil {
			// the scenario is still emitted (with an empty table) so that Run reports on it
			b := build(sc)
			emit(sc.encode(b, SL{}))
		}
	}()
	b := build(sc)
	out := estimate(sc, b)
	emit(sc.encode(b, makeTable(sc, b, out.probes)))
}

var ratios = [][2]uint64{{0, 0}, {0, 0}, {0, 0}, {0, 0}, {0, 0}, {0, 0}, {0, 0}, {0, 0}, {0, 0}, {0, 0}, {0, 0}, {1, 1}, {1, 2}, {1, 3}, {1, 6}, {3, 1}, {1, 30}, {1, 0}, {2, 0}, {3, 5}}

func randScenario(r *Rng) *scenario {
	sc := &scenario{skipTx: !r.Chance(1, 6)}
	p := &sc.pr
	p.fork = r.Intn(4)
	p.kind = []int{0, 0, 1, 1, 2, 2, 2, 3, 3, 4, 5, 5, 5, 6, 6, 7, 8, 9}[r.Intn(18)]
	p.mode = r.Intn(3)
	if r.Chance(2, 3) {
		p.dataLen = r.Intn(40)
	}
	switch p.kind {
	case 0:
		p.dataLen = 0
		if r.Chance(1, 8) {
			p.dataLen = 1 + r.Intn(8) // data to an EOA: not the shortcut
		}
	case 1:
		p.a = uint64(r.Intn(3000))
	case 2:
		p.a = uint64(r.Intn(200000))
		if r.Chance(1, 4) {
			p.a = uint64(r.Intn(40000000))
		}
		p.b, p.c = uint64(r.Intn(300)), uint64(r.Intn(300))
	case 3:
		p.a = uint64(r.Intn(100000))
		p.b = p.a + uint64(r.Intn(100000))
		p.c = p.b + uint64(r.Intn(200000))
	case 4:
		p.a = uint64(r.Intn(2))
		p.b = uint64(r.Intn(500))
		if p.a == 1 {
			p.dataLen = []int{0, 32, 40}[r.Intn(3)]
		}
	case 5:
		p.a, p.b, p.c = uint64(r.Intn(4000)), uint64(r.Intn(50)), uint64(1+r.Intn(3))
		p.mode = r.Intn(2)
	case 6:
		p.a, p.b = uint64(1+r.Intn(12)), uint64(r.Intn(800))
	case 7:
		p.a = uint64(r.Intn(500))
	case 8:
		p.a, p.b = uint64(r.Intn(2000)), uint64(r.Intn(600))
		p.dataLen = 0
	case 9:
		p.dataLen = 50 + r.Intn(1500)
	}
	// gas limits
	sc.hdrGas = []uint64{30_000_000, 30_000_000, 60_000_000, 1_000_000, 30_000_000, 36_000_000, 45_000_000, 100_000}[r.Intn(8)]
	switch r.Intn(6) {
	case 0:
		sc.callGas = uint64(r.Intn(21000)) // below TxGas: ignored
	case 1:
		sc.callGas = 21000 + uint64(r.Intn(400000))
	case 2:
		sc.callGas = math.MaxUint64 / 2 // the RPC default when no gas cap is configured
	case 3:
		sc.callGas = uint64(r.Intn(1 << 30))
	}
	switch r.Intn(8) {
	case 0, 1:
		sc.gasCap = 50_000_000
	case 2:
		sc.gasCap = 21000 + uint64(r.Intn(300000))
	case 3:
		sc.gasCap = uint64(r.Intn(30000)) // possibly below the intrinsic gas
	}
	// fees: header base fee is 10
	sc.feeCap, sc.gasPrice, sc.tip = uint256.NewInt(0), uint256.NewInt(0), uint256.NewInt(0)
	switch r.Intn(6) {
	case 0, 1: // all zero: no funds cap
	case 2: // legacy style
		x := uint256.NewInt(uint64(10 + r.Intn(1000)))
		if r.Chance(1, 10) {
			x = uint256.NewInt(uint64(r.Intn(10))) // below the base fee
		}
		sc.feeCap, sc.gasPrice, sc.tip = x, x.Clone(), x.Clone()
	default: // 1559 style
		f := uint64(10 + r.Intn(5000))
		t := uint64(r.Intn(int(f) + 1))
		if r.Chance(1, 12) {
			t = f + 1 + uint64(r.Intn(5))
		}
		sc.feeCap, sc.tip = uint256.NewInt(f), uint256.NewInt(t)
		gp := t + 10
		if gp > f {
			gp = f
		}
		sc.gasPrice = uint256.NewInt(gp)
		if r.Chance(1, 15) { // enormous fee cap: allowance 0
			sc.feeCap = new(uint256.Int).Lsh(uint256.NewInt(1), uint(100+r.Intn(150)))
			sc.gasPrice = uint256.NewInt(gp)
		}
	}
	if !r.Chance(1, 10) {
		sc.value = uint256.NewInt(0)
		if r.Chance(1, 2) {
			sc.value = uint256.NewInt(uint64(r.Intn(1_000_000)))
		}
	}
	sc.blobCap = uint256.NewInt(0)
	if p.fork >= 1 && b2i(r.Chance(1, 6)) == 1 && p.kind != 8 {
		sc.nblobs = 1 + r.Intn(3)
		sc.blobCap = uint256.NewInt(uint64(1 + r.Intn(50)))
		if r.Chance(1, 8) {
			sc.blobCap = uint256.NewInt(0)
		}
	}
	// balance: usually around value + blob cost + k*feeCap for an interesting k
	base := new(big.Int).Add(valueOf(sc), blobCost(sc))
	var k uint64
	switch r.Intn(10) {
	case 0:
		k = uint64(r.Intn(21001))
	case 1:
		k = 21000 + uint64(r.Intn(3000))
	case 2, 3, 4:
		k = 21000 + uint64(r.Intn(400000))
	case 5, 6:
		k = 1 << 40
	case 7, 8:
		k = uint64(r.Intn(60_000_000))
	case 9:
		k = 0
	}
	fc := sc.feeCap.ToBig()
	if fc.BitLen() > 64 {
		fc = big.NewInt(1000)
	}
	bal := new(big.Int).Add(base, new(big.Int).Mul(new(big.Int).SetUint64(k), fc))
	if r.Chance(1, 3) {
		bal.Add(bal, big.NewInt(int64(r.Intn(5000))))
	}
	if r.Chance(1, 25) {
		bal.Sub(base, big.NewInt(int64(r.Intn(3)))) // cannot pay value + blob cost
		if bal.Sign() < 0 {
			bal.SetInt64(0)
		}
	}
	if sc.feeCap.IsZero() && r.Chance(1, 2) {
		bal.Add(base, big.NewInt(int64(r.Intn(100))))
	}
	sc.balance = uint256.MustFromBig(bal)
	rt := ratios[r.Intn(len(ratios))]
	sc.erNum, sc.erK = rt[0], rt[1]
	if r.Chance(1, 10) {
		sc.erNum, sc.erK = 0x1eb851eb851eb8, 59 // 0.015, the ratio eth_estimateGas uses
	}
	return sc
}

func b2i(b bool) int {
	if b {
		return 1
	}
	return 0
}

func handPicked() []*scenario {
	z := func() *uint256.Int { return uint256.NewInt(0) }
	base := func(kind, fork int) *scenario {
		return &scenario{pr: prog{kind: kind, fork: fork}, hdrGas: 30_000_000, feeCap: z(), gasPrice: z(), tip: z(),
			balance: uint256.NewInt(1 << 60), value: z(), blobCap: z(), skipTx: true}
	}
	var out []*scenario
	// the witness of C37_legacy_estimate_le_gascap_refuted: gasCap 10000, plain transfer (formerly -> 21000)
	s := base(0, 2)
	s.gasCap = 10000
	out = append(out, s)
	// same with a header gas limit below TxGas
	s = base(0, 1)
	s.hdrGas = 5000
	out = append(out, s)
	// the former Amsterdam finding: a plain transfer under EIP-2780 needs less than 21000
	s = base(0, 3)
	out = append(out, s)
	s = base(0, 3)
	s.value = uint256.NewInt(12345)
	out = append(out, s)
	// plain transfer whose funds allow 20000 gas only: the EVM refuses the shortcut
	s = base(0, 2)
	s.feeCap, s.gasPrice, s.tip = uint256.NewInt(100), uint256.NewInt(100), uint256.NewInt(100)
	s.value = uint256.NewInt(5)
	s.balance = uint256.NewInt(5 + 20000*100)
	out = append(out, s)
	// exactly enough for 21000
	s = base(0, 2)
	s.feeCap, s.gasPrice, s.tip = uint256.NewInt(100), uint256.NewInt(100), uint256.NewInt(100)
	s.value = uint256.NewInt(5)
	s.balance = uint256.NewInt(5 + 21000*100)
	out = append(out, s)
	// balance == value (and the zero/zero case): ErrInsufficientFundsForTransfer before any probe
	s = base(1, 2)
	s.feeCap, s.gasPrice, s.tip = uint256.NewInt(100), uint256.NewInt(100), uint256.NewInt(100)
	s.value, s.balance = uint256.NewInt(7), uint256.NewInt(7)
	out = append(out, s)
	s = base(1, 2)
	s.feeCap, s.gasPrice, s.tip = uint256.NewInt(100), uint256.NewInt(100), uint256.NewInt(100)
	s.balance = z()
	out = append(out, s)
	// Osaka cap vs Amsterdam (no cap) with the RPC default gas 2^63-1
	for _, f := range []int{1, 2, 3} {
		s = base(1, f)
		s.pr.a = 100
		s.callGas = math.MaxUint64 / 2
		out = append(out, s)
		s = base(2, f)
		s.pr.a = 20_000_000 // needs more than MaxTxGas
		s.callGas = math.MaxUint64 / 2
		out = append(out, s)
	}
	// 63/64 rule, depth 3, ratio 0 and 0.015
	for _, rt := range [][2]uint64{{0, 0}, {0x1eb851eb851eb8, 59}} {
		s = base(5, 2)
		s.pr.a, s.pr.b, s.pr.c = 3000, 10, 3
		s.erNum, s.erK = rt[0], rt[1]
		out = append(out, s)
	}
	// refunds
	s = base(6, 2)
	s.pr.a, s.pr.b = 10, 100
	out = append(out, s)
	// blobs: cost exactly the balance
	s = base(1, 2)
	s.feeCap, s.gasPrice, s.tip = uint256.NewInt(100), uint256.NewInt(100), uint256.NewInt(100)
	s.nblobs, s.blobCap = 2, uint256.NewInt(3)
	s.balance = uint256.NewInt(2 * params.BlobTxBlobGasPerBlob * 3)
	out = append(out, s)
	return out
}

func gen(r *Rng, tier string, emit func(Sx)) {
	for _, sc := range handPicked() {
		emitScenario(sc, emit)
	}
	n := 4000
	if tier == "thorough" {
		n = 60000
	}
	for i := 0; i < n; i++ {
		emitScenario(randScenario(r), emit)
	}
}

// wrapdemo replays the witness of C37_estimate_terminates_unguarded_refuted on the real code:
// requested gas 2^64-1 (no RPC gas cap, pre-Osaka rules) and a monotone program that needs
// nearly all of it.  The probe recorder aborts the run after 5000 probes.
func wrapdemo() {
	z := uint256.NewInt(0)
	sc := &scenario{pr: prog{kind: 2, fork: 1, a: 0xF000000000000000, mode: 2}, hdrGas: 30_000_000,
		callGas: math.MaxUint64, feeCap: z, gasPrice: z.Clone(), tip: z.Clone(), balance: uint256.NewInt(1 << 60),
		value: z.Clone(), blobCap: z.Clone(), skipTx: true}
	b := build(sc)
	var probes []uint64
	call := sc.message(b, sc.callGas)
	opts := &gasestimator.Options{Config: b.cfg, Header: b.header, State: b.st,
		Chain: &chainCtx{cfg: b.cfg, eng: engine, call: call, probes: &probes, limit: 5000}}
	func() {
		defer func() {
			if e := recover(); e != nil {
				fmt.Println("aborted:", e)
			}
		}()
		r, _, err := gasestimator.Estimate(context.Background(), call, opts, 0)
		fmt.Println("Estimate returned", r, err)
	}()
	fmt.Println("probes made:", len(probes))
	for i, g := range probes {
		if i < 3 || (i >= 46 && i < 56) || i >= len(probes)-4 {
			fmt.Printf("  probe %d: gas %d (%.4f * 2^63)\n", i, g, float64(g)/float64(1<<63))
		}
	}
}

func main() {
	if len(os.Args) > 1 && os.Args[1] == "wrapdemo" {
		wrapdemo()
		return
	}
	Main(Family{
		ID: "C37",
		Rule: "corpus/C37: the witnesses of the two repaired findings; then hand-picked edge scenarios (gas cap / header limit below 21000 with a plain transfer, plain transfers under Amsterdam, funds for exactly 20000/21000 gas, balance == value, Osaka cap vs Amsterdam with the RPC default gas 2^63-1, 63/64 nesting depth 3, refunds, blob cost == balance) followed by random scenarios: program kind (plain transfer, constant loop, GAS-threshold, GAS-window [non-monotone], reverting/invalid, nested CALL chain depth 1-3 forwarding all or a fixed amount of gas, SSTORE-clearing with refunds, all-gas burner [non-monotone], contract creation, calldata-heavy) x fork (Shanghai, Prague, Osaka, Amsterdam) x header/call gas x gas cap (0, 50M, near the need, below 21000) x fee style (zero, legacy, 1559, tip above cap, below base fee, enormous fee cap) x value (nil, 0, random) x blobs x balance placed around value+blob cost+k*feeCap x error ratio (0, 0.015, dyadic ratios, >=1). Each case carries the real EVM's answers (core.ApplyMessage run by the harness, independent of gasestimator.execute) at every gas limit the real Estimate probed. Non-trivial: Estimate made >= 3 probes, or failed after at least one probe; distinct = distinct case line.",
		Gen:  gen,
		Run:  run,
	})
}
