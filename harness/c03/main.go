// Family c03: the signer layer of core/types/transaction_signing.go + crypto
// (Sign / Ecrecover / SigToPub / VerifySignature / ValidateSignatureValues) vs
// coq/Crypto/Signer.v.  The abstract signature scheme of the model is instantiated
// by DATA carried in each case (what crypto.Sign / crypto.Ecrecover returned), see
// coq/Run/C03.v for the case and observation formats.
//
// The same package is built a second time with CGO_ENABLED=0 (hx_c03_nocgo, built
// on demand next to this binary) and every case is also run there: the two secp256k1
// backends must produce the same observables.
package main

import (
	"bufio"
	"bytes"
	"crypto/ecdsa"
	"errors"
	"fmt"
	"io"
	"math/big"
	"os"
	"os/exec"
	"path/filepath"
	"strings"
	"sync"

	"github.com/ethereum/go-ethereum/common"
	"github.com/ethereum/go-ethereum/core/types"
	"github.com/ethereum/go-ethereum/crypto"
	"github.com/ethereum/go-ethereum/params"
	"github.com/holiman/uint256"

	. "gethverif/harness/hxlib"
)

var (
	secpN  = crypto.S256().Params().N
	halfN  = new(big.Int).Rsh(secpN, 1)
	two256 = new(big.Int).Lsh(big.NewInt(1), 256)
	two64  = new(big.Int).Lsh(big.NewInt(1), 64)
	big1   = big.NewInt(1)
)

func bi(v int64) *big.Int { return big.NewInt(v) }

// ---------------------------------------------------------------- specs <-> Sx

type txSpec struct {
	Ty               int
	Chain, V, R, S   *big.Int
	Nonce, Gas       uint64
	Price, FeeCap    *big.Int
	To               *common.Address
	Value            *big.Int
	Data             []byte
	Access           types.AccessList
	BlobFeeCap       *big.Int
	BlobHashes       []common.Hash
	Auth             []types.SetCodeAuthorization
}

func (sp *txSpec) clone() *txSpec {
	c := *sp
	c.Chain, c.V, c.R, c.S = new(big.Int).Set(sp.Chain), new(big.Int).Set(sp.V), new(big.Int).Set(sp.R), new(big.Int).Set(sp.S)
	c.Price, c.FeeCap, c.Value, c.BlobFeeCap = new(big.Int).Set(sp.Price), new(big.Int).Set(sp.FeeCap), new(big.Int).Set(sp.Value), new(big.Int).Set(sp.BlobFeeCap)
	if sp.To != nil {
		a := *sp.To
		c.To = &a
	}
	c.Data = append([]byte{}, sp.Data...)
	c.Access = nil
	for _, t := range sp.Access {
		c.Access = append(c.Access, types.AccessTuple{Address: t.Address, StorageKeys: append([]common.Hash{}, t.StorageKeys...)})
	}
	c.BlobHashes = append([]common.Hash{}, sp.BlobHashes...)
	c.Auth = append([]types.SetCodeAuthorization{}, sp.Auth...)
	return &c
}

func (sp *txSpec) sx() Sx {
	to := L()
	if sp.To != nil {
		to = L(B(sp.To[:]))
	}
	acc := SL{}
	for _, t := range sp.Access {
		ks := SL{}
		for _, k := range t.StorageKeys {
			ks = append(ks, B(k[:]))
		}
		acc = append(acc, L(B(t.Address[:]), ks))
	}
	bhs := SL{}
	for _, h := range sp.BlobHashes {
		bhs = append(bhs, B(h[:]))
	}
	auth := SL{}
	for _, a := range sp.Auth {
		auth = append(auth, L(Big(a.ChainID.ToBig()), B(a.Address[:]), U(a.Nonce), I(int64(a.V)), Big(a.R.ToBig()), Big(a.S.ToBig())))
	}
	return L(I(int64(sp.Ty)), Big(sp.Chain), Big(sp.V), Big(sp.R), Big(sp.S),
		L(U(sp.Nonce), Big(sp.Price), Big(sp.FeeCap), U(sp.Gas), to, Big(sp.Value), B(sp.Data), acc, Big(sp.BlobFeeCap), bhs, auth))
}

func shape(msg string) { panic("hxlib: " + msg) }

func asU64(v Sx) uint64 {
	b := AsBig(v)
	if b.Sign() < 0 || b.BitLen() > 64 {
		shape("uint64 field out of range")
	}
	return b.Uint64()
}
func asNat(v Sx) *big.Int {
	b := AsBig(v)
	if b.Sign() < 0 {
		shape("negative payload field")
	}
	return b
}
func asAddr(v Sx) common.Address {
	b := AsBytes(v)
	if len(b) != 20 {
		shape("address length")
	}
	return common.BytesToAddress(b)
}
func asHash(v Sx) common.Hash {
	b := AsBytes(v)
	if len(b) != 32 {
		shape("hash length")
	}
	return common.BytesToHash(b)
}
func u256(b *big.Int) *uint256.Int {
	if b.Sign() < 0 || b.BitLen() > 256 {
		shape("uint256 field out of range")
	}
	return uint256.MustFromBig(b)
}

func parseTx(v Sx) *txSpec {
	l := AsList(v)
	if len(l) != 6 {
		shape("tx shape")
	}
	p := AsList(l[5])
	if len(p) != 11 {
		shape("payload shape")
	}
	sp := &txSpec{Ty: AsInt(l[0]), Chain: AsBig(l[1]), V: AsBig(l[2]), R: AsBig(l[3]), S: AsBig(l[4]),
		Nonce: asU64(p[0]), Price: asNat(p[1]), FeeCap: asNat(p[2]), Gas: asU64(p[3]), Value: asNat(p[5]),
		Data: AsBytes(p[6]), BlobFeeCap: asNat(p[8])}
	if sp.Ty < 0 || sp.Ty > 4 {
		shape("tx type")
	}
	if to := AsList(p[4]); len(to) == 1 {
		a := asAddr(to[0])
		sp.To = &a
	} else if len(to) != 0 {
		shape("to shape")
	}
	for _, e := range AsList(p[7]) {
		el := AsList(e)
		if len(el) != 2 {
			shape("access tuple")
		}
		t := types.AccessTuple{Address: asAddr(el[0]), StorageKeys: []common.Hash{}}
		for _, k := range AsList(el[1]) {
			t.StorageKeys = append(t.StorageKeys, asHash(k))
		}
		sp.Access = append(sp.Access, t)
	}
	for _, h := range AsList(p[9]) {
		sp.BlobHashes = append(sp.BlobHashes, asHash(h))
	}
	for _, e := range AsList(p[10]) {
		el := AsList(e)
		if len(el) != 6 {
			shape("auth shape")
		}
		vv := asU64(el[3])
		if vv > 255 {
			shape("auth v")
		}
		sp.Auth = append(sp.Auth, types.SetCodeAuthorization{ChainID: *u256(asNat(el[0])), Address: asAddr(el[1]),
			Nonce: asU64(el[2]), V: uint8(vv), R: *u256(asNat(el[4])), S: *u256(asNat(el[5]))})
	}
	if sp.Ty >= 3 && sp.To == nil {
		shape("blob/setcode tx needs a To")
	}
	return sp
}

func (sp *txSpec) build() *types.Transaction {
	cp := func(b *big.Int) *big.Int { return new(big.Int).Set(b) }
	switch sp.Ty {
	case 0:
		return types.NewTx(&types.LegacyTx{Nonce: sp.Nonce, GasPrice: cp(sp.Price), Gas: sp.Gas, To: sp.To, Value: cp(sp.Value),
			Data: sp.Data, V: cp(sp.V), R: cp(sp.R), S: cp(sp.S)})
	case 1:
		return types.NewTx(&types.AccessListTx{ChainID: cp(sp.Chain), Nonce: sp.Nonce, GasPrice: cp(sp.Price), Gas: sp.Gas, To: sp.To,
			Value: cp(sp.Value), Data: sp.Data, AccessList: sp.Access, V: cp(sp.V), R: cp(sp.R), S: cp(sp.S)})
	case 2:
		return types.NewTx(&types.DynamicFeeTx{ChainID: cp(sp.Chain), Nonce: sp.Nonce, GasTipCap: cp(sp.Price), GasFeeCap: cp(sp.FeeCap),
			Gas: sp.Gas, To: sp.To, Value: cp(sp.Value), Data: sp.Data, AccessList: sp.Access, V: cp(sp.V), R: cp(sp.R), S: cp(sp.S)})
	case 3:
		return types.NewTx(&types.BlobTx{ChainID: u256(sp.Chain), Nonce: sp.Nonce, GasTipCap: u256(sp.Price), GasFeeCap: u256(sp.FeeCap),
			Gas: sp.Gas, To: *sp.To, Value: u256(sp.Value), Data: sp.Data, AccessList: sp.Access, BlobFeeCap: u256(sp.BlobFeeCap),
			BlobHashes: sp.BlobHashes, V: u256(sp.V), R: u256(sp.R), S: u256(sp.S)})
	case 4:
		return types.NewTx(&types.SetCodeTx{ChainID: u256(sp.Chain), Nonce: sp.Nonce, GasTipCap: u256(sp.Price), GasFeeCap: u256(sp.FeeCap),
			Gas: sp.Gas, To: *sp.To, Value: u256(sp.Value), Data: sp.Data, AccessList: sp.Access, AuthList: sp.Auth,
			V: u256(sp.V), R: u256(sp.R), S: u256(sp.S)})
	}
	shape("tx type")
	return nil
}

// withSig returns the spec of a signed transaction (payload of sp, chain/V/R/S of tx).
func (sp *txSpec) withSig(tx *types.Transaction) *txSpec {
	c := sp.clone()
	v, r, s := tx.RawSignatureValues()
	c.V, c.R, c.S = v, r, s
	if sp.Ty != 0 {
		c.Chain = tx.ChainId()
	}
	return c
}

type signerSpec struct {
	Kind  int // 0 frontier 1 homestead 2 eip155 3 modern
	Fork  int // 0 berlin 1 london 2 cancun 3 prague
	Chain *big.Int
}

func (s signerSpec) sx() Sx {
	switch s.Kind {
	case 0, 1:
		return L(I(int64(s.Kind)))
	case 2:
		return L(I(2), Big(s.Chain))
	}
	return L(I(3), I(int64(s.Fork)), Big(s.Chain))
}

func parseSigner(v Sx) signerSpec {
	l := AsList(v)
	if len(l) == 0 {
		shape("signer shape")
	}
	k := AsInt(l[0])
	switch {
	case (k == 0 || k == 1) && len(l) == 1:
		return signerSpec{Kind: k, Chain: new(big.Int)}
	case k == 2 && len(l) == 2:
		return signerSpec{Kind: 2, Chain: AsBig(l[1])}
	case k == 3 && len(l) == 3:
		f := AsInt(l[1])
		if f < 0 || f > 3 {
			shape("fork")
		}
		return signerSpec{Kind: 3, Fork: f, Chain: AsBig(l[2])}
	}
	shape("signer shape")
	return signerSpec{}
}

func (s signerSpec) mk() types.Signer {
	switch s.Kind {
	case 0:
		return types.FrontierSigner{}
	case 1:
		return types.HomesteadSigner{}
	case 2:
		return types.NewEIP155Signer(new(big.Int).Set(s.Chain))
	}
	if s.Chain.Sign() <= 0 {
		shape("modern signer needs a positive chain id")
	}
	c := new(big.Int).Set(s.Chain)
	switch s.Fork {
	case 0:
		return types.NewEIP2930Signer(c)
	case 1:
		return types.NewLondonSigner(c)
	case 2:
		return types.NewCancunSigner(c)
	}
	return types.NewPragueSigner(c)
}

// supports: which transaction types a signer accepts, written from the EIPs
// (2930 = Berlin, 1559 = London, 4844 = Cancun, 7702 = Prague), not from the code.
func (s signerSpec) supports(ty int) bool {
	if s.Kind != 3 {
		return ty == 0
	}
	return ty <= 1 || ty <= s.Fork+1
}

func (s signerSpec) hasChain() bool { return s.Kind >= 2 }

// describe a Signer value returned by MakeSigner / LatestSigner
func describe(s types.Signer) Sx {
	switch v := s.(type) {
	case types.FrontierSigner:
		return L(I(0))
	case types.HomesteadSigner:
		return L(I(1))
	case types.EIP155Signer:
		return L(I(2), Big(v.ChainID()))
	}
	tt, chain, legacy, ok := types.VerifModernSignerFields(s)
	if !ok {
		return L(I(99))
	}
	fork := int64(-1)
	switch tt {
	case [2]uint64{0b11, 0}:
		fork = 0
	case [2]uint64{0b111, 0}:
		fork = 1
	case [2]uint64{0b1111, 0}:
		fork = 2
	case [2]uint64{0b11111, 0}:
		fork = 3
	}
	if l, ok := legacy.(types.EIP155Signer); !ok || l.ChainID().Cmp(chain) != 0 || fork < 0 {
		return L(I(98), U(tt[0]), U(tt[1]), Big(chain), describe(legacy))
	}
	return L(I(3), I(fork), Big(chain))
}

// ---------------------------------------------------------------- implementation calls

func classify(err error) int64 {
	switch {
	case err == nil:
		return 0
	case errors.Is(err, types.ErrInvalidSig):
		return 1
	case errors.Is(err, types.ErrTxTypeNotSupported):
		return 2
	case errors.Is(err, types.ErrInvalidChainId):
		return 3
	case errors.Is(err, types.ErrUnexpectedProtection):
		return 5
	}
	return 4
}

type sres struct {
	class int64 // 0 ok, 1.. error class, 6 panic "overflow", 8 other panic
	addr  common.Address
}

func (r sres) sx() Sx {
	if r.class == 0 {
		return L(I(0), B(r.addr[:]))
	}
	return L(I(r.class))
}
func (r sres) String() string { return String(r.sx()) }

func panicClass(e any) int64 {
	if fmt.Sprint(e) == "overflow" {
		return 6
	}
	return 8
}

func senderOf(sg types.Signer, tx *types.Transaction) (r sres) {
	defer func() {
		if e := recover(); e != nil {
			r = sres{class: panicClass(e)}
		}
	}()
	a, err := sg.Sender(tx)
	if err != nil {
		return sres{class: classify(err)}
	}
	return sres{addr: a}
}

func signTx(tx *types.Transaction, sg types.Signer, key *ecdsa.PrivateKey) (out *types.Transaction, class int64) {
	defer func() {
		if e := recover(); e != nil {
			out, class = nil, panicClass(e)
		}
	}()
	stx, err := types.SignTx(tx, sg, key)
	if err != nil {
		return nil, classify(err)
	}
	return stx, 0
}

func sig65(r, s *big.Int, v byte) []byte {
	if r.Sign() < 0 || s.Sign() < 0 || r.BitLen() > 256 || s.BitLen() > 256 {
		return nil
	}
	sig := make([]byte, 65)
	r.FillBytes(sig[:32])
	s.FillBytes(sig[32:64])
	sig[64] = v
	return sig
}

// ecrecoverAddr: crypto.Ecrecover on (hash, r||s||v) -> address, independent of core/types
func ecrecoverAddr(h common.Hash, r, s *big.Int, v byte) (common.Address, bool) {
	sig := sig65(r, s, v)
	if sig == nil {
		return common.Address{}, false
	}
	pub, err := crypto.Ecrecover(h[:], sig)
	if err != nil || len(pub) != 65 || pub[0] != 4 {
		return common.Address{}, false
	}
	return common.BytesToAddress(crypto.Keccak256(pub[1:])[12:]), true
}

// recEntries: the recover-table rows (hash r s v result) for v in {0,1}
func recEntries(tbl SL, seen map[string]bool, h common.Hash, r, s *big.Int) SL {
	if sig65(r, s, 0) == nil {
		return tbl
	}
	for v := byte(0); v < 2; v++ {
		k := fmt.Sprintf("%x/%x/%x/%d", h, r, s, v)
		if seen[k] {
			continue
		}
		seen[k] = true
		a, ok := ecrecoverAddr(h, r, s, v)
		res := L()
		if ok {
			res = L(B(a[:]))
		}
		tbl = append(tbl, L(B(h[:]), Big(r), Big(s), I(int64(v)), res))
	}
	return tbl
}

func inRange(x *big.Int) bool { return x.Cmp(big1) >= 0 && x.Cmp(secpN) < 0 }

// specSender: what Sender must return, written from the yellow paper / EIP-2 /
// EIP-155 / EIP-2718 rules (NOT from transaction_signing.go): the allowed error
// classes, or class 0 with the address crypto.Ecrecover gives for the signer's hash.
func specSender(ss signerSpec, sg types.Signer, sp *txSpec, tx *types.Transaction) (classes []int64, addr common.Address) {
	if !ss.supports(sp.Ty) {
		return []int64{2}, addr
	}
	rsOK := func(homestead bool) bool {
		return inRange(sp.R) && inRange(sp.S) && (!homestead || sp.S.Cmp(halfN) <= 0)
	}
	rec := func(h common.Hash, recid byte) ([]int64, common.Address) {
		a, ok := ecrecoverAddr(h, sp.R, sp.S, recid)
		if !ok {
			return []int64{4}, a
		}
		return []int64{0}, a
	}
	if sp.Ty == 0 {
		av := sp.V
		if av.Cmp(bi(27)) == 0 || av.Cmp(bi(28)) == 0 {
			if !rsOK(ss.Kind != 0) {
				return []int64{1}, addr
			}
			return rec(types.HomesteadSigner{}.Hash(tx), byte(av.Uint64()-27))
		}
		if !ss.hasChain() {
			return []int64{1}, addr
		}
		if sp.V.Cmp(bi(35)) >= 0 {
			c := new(big.Int).Sub(sp.V, bi(35))
			recid := byte(c.Bit(0))
			c.Rsh(c, 1)
			if c.Cmp(ss.Chain) != 0 {
				return []int64{3}, addr
			}
			if !rsOK(true) {
				return []int64{1}, addr
			}
			return rec(sg.Hash(tx), recid)
		}
		return []int64{1, 3}, addr // V outside {27,28} and below 35 (or negative): any rejection
	}
	if sp.Chain.Cmp(ss.Chain) != 0 {
		return []int64{3}, addr
	}
	if sp.V.Sign() != 0 && sp.V.Cmp(big1) != 0 {
		return []int64{1}, addr
	}
	if !rsOK(true) {
		return []int64{1}, addr
	}
	return rec(sg.Hash(tx), byte(sp.V.Uint64()))
}

func checkSpec(what string, ss signerSpec, sg types.Signer, sp *txSpec, tx *types.Transaction, got sres, fails *[]string) {
	if sp.V.Sign() < 0 {
		// a negative V cannot come from the wire (RLP / JSON); recoverPlain and isProtectedV look at
		// |V| (big.Int.Uint64 / BitLen), which the model transcribes; the rules say nothing here
		return
	}
	classes, addr := specSender(ss, sg, sp, tx)
	ok := false
	for _, c := range classes {
		if c == got.class && (c != 0 || addr == got.addr) {
			ok = true
		}
	}
	if !ok {
		*fails = append(*fails, fmt.Sprintf("%s: Sender returned %v, the signing rules give class %v addr %x", what, got, classes, addr))
	}
}

// tamperings: copies of a signed spec with exactly one signed field changed
func tamperings(sp *txSpec) map[string]*txSpec {
	out := map[string]*txSpec{}
	mod := func(name string, f func(c *txSpec)) {
		c := sp.clone()
		f(c)
		out[name] = c
	}
	mod("nonce", func(c *txSpec) { c.Nonce ^= 1 })
	mod("gas", func(c *txSpec) { c.Gas ^= 1 })
	mod("value", func(c *txSpec) { c.Value.Xor(c.Value, big1) })
	mod("data", func(c *txSpec) { c.Data = append(c.Data, 0) })
	mod("to", func(c *txSpec) {
		if c.To == nil {
			c.To = &common.Address{}
		} else if c.Ty < 3 && *c.To == (common.Address{}) {
			c.To = nil
		} else {
			c.To[19] ^= 1
		}
	})
	mod("price", func(c *txSpec) { c.Price.Xor(c.Price, big1) })
	if sp.Ty >= 2 {
		mod("feecap", func(c *txSpec) { c.FeeCap.Xor(c.FeeCap, big1) })
	}
	if sp.Ty >= 1 {
		mod("access", func(c *txSpec) {
			c.Access = append(c.Access, types.AccessTuple{Address: common.Address{1}, StorageKeys: []common.Hash{}})
		})
		if len(sp.Access) > 0 {
			mod("accesskey", func(c *txSpec) {
				c.Access[0].StorageKeys = append(c.Access[0].StorageKeys, common.Hash{})
			})
		}
	}
	if sp.Ty == 3 {
		mod("blobfeecap", func(c *txSpec) { c.BlobFeeCap.Xor(c.BlobFeeCap, big1) })
		mod("blobhashes", func(c *txSpec) { c.BlobHashes = append(c.BlobHashes, common.Hash{1}) })
	}
	if sp.Ty == 4 {
		mod("auth", func(c *txSpec) { c.Auth = append(c.Auth, types.SetCodeAuthorization{Nonce: 7}) })
		if len(sp.Auth) > 0 {
			mod("authfield", func(c *txSpec) { c.Auth[0].V ^= 1 })
		}
	}
	return out
}

func sameKindOtherChain(ss signerSpec) signerSpec {
	o := ss
	o.Chain = new(big.Int).Add(ss.Chain, big1)
	return o
}

// ---------------------------------------------------------------- Run

func runInner(c Sx) (res Result, extra string) {
	l := AsList(c)
	if len(l) == 0 {
		shape("empty case")
	}
	var fails []string
	defer func() {
		if len(fails) > 0 {
			res.Oracle = strings.Join(fails, " | ")
		}
	}()
	switch AsInt(l[0]) {
	case 0: // SignTx then Sender
		if len(l) != 7 {
			shape("kind 0 shape")
		}
		sp, ss, ss2 := parseTx(l[1]), parseSigner(l[2]), parseSigner(l[4])
		keyb := AsBytes(l[3])
		key, err := crypto.ToECDSA(keyb)
		if err != nil {
			shape("bad key")
		}
		want := crypto.PubkeyToAddress(key.PublicKey)
		sg, sg2 := ss.mk(), ss2.mk()
		tx := sp.build()
		h := sg.Hash(tx)
		stx, class := signTx(tx, sg, key)
		res.Tags = append(res.Tags, fmt.Sprintf("ty%d", sp.Ty), fmt.Sprintf("sign-signer%d.%d", ss.Kind, ss.Fork), fmt.Sprintf("signclass%d", class), "chainbits"+bitsTag(ss.Chain))
		// the property's guard, from the rules: the signer supports the type, a typed tx
		// names no other chain, the chain id fits the tx's uint256 field, EIP-155 needs a chain id
		guard := ss.supports(sp.Ty) && (sp.Ty == 0 || sp.Chain.Sign() == 0 || sp.Chain.Cmp(ss.Chain) == 0) &&
			(sp.Ty < 3 || ss.Chain.Cmp(two256) < 0) && (!ss.hasChain() || ss.Chain.Sign() > 0)
		if stx == nil {
			res.Obs = L(B(h[:]), L(I(class)), L(), L())
			if guard {
				fails = append(fails, fmt.Sprintf("SignTx failed (class %d) although signer, type and chain ids are compatible", class))
			}
			if !ss.supports(sp.Ty) && class != 2 {
				fails = append(fails, fmt.Sprintf("SignTx on an unsupported type gave class %d, want ErrTxTypeNotSupported", class))
			}
			return
		}
		ssp := sp.withSig(stx)
		got2 := senderOf(sg2, stx)
		h2 := sg2.Hash(stx)
		res.Obs = L(B(h[:]), L(I(0), Big(stx.ChainId()), Big(ssp.V), Big(ssp.R), Big(ssp.S)), B(h2[:]), got2.sx())
		res.Tags = append(res.Tags, fmt.Sprintf("rec-signer%d.%d", ss2.Kind, ss2.Fork), fmt.Sprintf("senderclass%d", got2.class))
		extra = fmt.Sprintf("%x", h2)
		// (1) inverse
		got := senderOf(sg, stx)
		if guard {
			res.NonTrivial = true
			res.Tags = append(res.Tags, "roundtrip")
			if got.class != 0 || got.addr != want {
				fails = append(fails, fmt.Sprintf("Sender(SignTx(tx)) = %v, key address %x", got, want))
			}
			if a, err := types.Sender(sg, stx); err != nil || a != want {
				fails = append(fails, "types.Sender (caching entry point) disagrees with signer.Sender")
			}
			if a, err := types.Sender(sg, stx); err != nil || a != want {
				fails = append(fails, "types.Sender second (cached) call disagrees")
			}
			// the cache must not leak to a different signer
			if a, err := types.Sender(sg2, stx); (err == nil) != (got2.class == 0) || (err == nil && a != got2.addr) {
				fails = append(fails, "types.Sender with another signer returned the cached sender of the first")
			}
		} else if ss.Kind == 2 && ss.Chain.Sign() == 0 && sp.Ty == 0 {
			// the refutation witness of C03_sender_sign_eip155_chain0_refuted, replayed on the real code
			res.Tags = append(res.Tags, "eip155-chain0")
			if got.class != 0 || got.addr != want {
				res.Tags = append(res.Tags, "eip155-chain0-sender-differs-from-key")
			}
		}
		checkSpec("signed tx under the recovering signer", ss2, sg2, ssp, stx, got2, &fails)
		// (2) the signature hash does not depend on V, R, S
		if sg.Hash(stx) != h {
			fails = append(fails, "signature hash changed when V,R,S were set")
		}
		other := ssp.clone()
		other.V, other.R, other.S = bi(1), bi(12345), bi(67890)
		if sg.Hash(other.build()) != h {
			fails = append(fails, "signature hash depends on V,R,S")
		}
		if !guard {
			return
		}
		// (3) tampering with any signed field changes the recovered sender or fails
		for name, tsp := range tamperings(ssp) {
			if r := senderOf(sg, tsp.build()); r.class == 0 && r.addr == want {
				fails = append(fails, "changing signed field '"+name+"' leaves the recovered sender unchanged")
			}
		}
		// (4) strictness on the signed tx
		mut := func(f func(m *txSpec)) sres { m := ssp.clone(); f(m); return senderOf(sg, m.build()) }
		flipV := func(m *txSpec) { // other recovery id: typed 0<->1, legacy 27<->28, eip155 35+2c <-> 36+2c
			switch {
			case m.Ty != 0:
				m.V.Xor(m.V, big1)
			case m.V.Cmp(bi(28)) <= 0: // 27 <-> 28
				m.V.SetInt64(55 - m.V.Int64())
			default: // 35+2c <-> 36+2c
				d := new(big.Int).Sub(m.V, bi(35))
				if d.Bit(0) == 0 {
					m.V.Add(m.V, big1)
				} else {
					m.V.Sub(m.V, big1)
				}
			}
		}
		hi := mut(func(m *txSpec) { m.S.Sub(secpN, m.S); flipV(m) }) // the malleated twin: a valid ECDSA signature of the same key
		if ss.Kind == 0 {
			if hi.class != 0 || hi.addr != want {
				fails = append(fails, fmt.Sprintf("Frontier signer must accept the high-s twin and recover the same key, got %v", hi))
			}
		} else if hi.class != 1 {
			fails = append(fails, fmt.Sprintf("high-s twin not rejected with ErrInvalidSig: %v", hi))
		}
		for name, f := range map[string]func(m *txSpec){
			"r=0": func(m *txSpec) { m.R.SetInt64(0) }, "s=0": func(m *txSpec) { m.S.SetInt64(0) },
			"r=n": func(m *txSpec) { m.R.Set(secpN) }, "s=n": func(m *txSpec) { m.S.Set(secpN) },
			"s=n/2+1": func(m *txSpec) { m.S.Add(halfN, big1) },
		} {
			want1 := name != "s=n/2+1" || ss.Kind != 0
			if r := mut(f); (r.class == 1) != want1 {
				fails = append(fails, fmt.Sprintf("%s: got %v, ErrInvalidSig expected=%v", name, r, want1))
			}
		}
		if r := mut(func(m *txSpec) { m.S.Set(halfN) }); r.class == 1 {
			fails = append(fails, "s = n/2 rejected (must be the largest accepted s)")
		}
		if r := mut(func(m *txSpec) { m.V.Add(m.V, bi(2)) }); r.class == 0 {
			// typed: 2/3; legacy unprotected: 29/30; eip155: chain id + 1
			fails = append(fails, fmt.Sprintf("V+2 accepted: %v", r))
		}
		if r := mut(flipV); r.class == 0 && r.addr == want {
			fails = append(fails, "flipping the recovery id leaves the sender unchanged")
		}
		// (5) wrong chain
		if ss.hasChain() {
			o := sameKindOtherChain(ss)
			r := senderOf(o.mk(), stx)
			if r.class != 3 {
				fails = append(fails, fmt.Sprintf("signer with chain id+1 did not return ErrInvalidChainId: %v", r))
			}
		}
		// (6) unsupported type per signer
		for _, o := range allSigners(ss.Chain) {
			if o.Chain.Sign() <= 0 && o.Kind == 3 {
				continue
			}
			r := senderOf(o.mk(), stx)
			if (r.class == 2) != !o.supports(sp.Ty) {
				fails = append(fails, fmt.Sprintf("signer %s on tx type %d: %v", String(o.sx()), sp.Ty, r))
			}
		}
		return
	case 1: // Sender on a tx with arbitrary V, R, S
		if len(l) != 4 {
			shape("kind 1 shape")
		}
		sp, ss := parseTx(l[1]), parseSigner(l[2])
		sg := ss.mk()
		tx := sp.build()
		h := sg.Hash(tx)
		got := senderOf(sg, tx)
		res.Obs = L(Bool(tx.Protected()), Big(tx.ChainId()), B(h[:]), got.sx())
		res.Tags = append(res.Tags, "raw", fmt.Sprintf("ty%d", sp.Ty), fmt.Sprintf("rec-signer%d.%d", ss.Kind, ss.Fork), fmt.Sprintf("senderclass%d", got.class))
		if sp.V.Sign() < 0 {
			res.Tags = append(res.Tags, "negative-v")
			if got.class == 0 { // C03_admissible_v_negative_refuted on the real code
				res.Tags = append(res.Tags, "negative-v-accepted")
			}
		}
		res.NonTrivial = true
		checkSpec("raw tx", ss, sg, sp, tx, got, &fails)
		if a, err := types.Sender(sg, tx); (err == nil) != (got.class == 0) || (err == nil && a != got.addr) {
			fails = append(fails, "types.Sender disagrees with signer.Sender")
		}
		return
	case 2, 8, 9: // crypto level: ValidateSignatureValues + Ecrecover / SigToPub / VerifySignature (8: vs Crypto/Secp.v)
		if len(l) != 5 {
			shape("kind 2 shape")
		}
		v, r, s, hash := AsBig(l[1]), AsBig(l[2]), AsBig(l[3]), AsBytes(l[4])
		if v.Sign() < 0 || v.Cmp(bi(255)) > 0 || len(hash) != 32 {
			shape("kind 2 v/hash")
		}
		vb := byte(v.Uint64())
		vf, vh := crypto.ValidateSignatureValues(vb, r, s, false), crypto.ValidateSignatureValues(vb, r, s, true)
		res.Obs = L(Bool(vf), Bool(vh))
		kind := AsInt(l[0])
		if kind == 9 || kind == 8 {
			res.Obs = L() // kind 8: replaced below when Ecrecover succeeds
		}
		res.Tags = append(res.Tags, "crypto", fmt.Sprintf("validF%v", vf), fmt.Sprintf("validH%v", vh), fmt.Sprintf("v%d", min(int(vb), 29)))
		res.NonTrivial = true
		if vf != (inRange(r) && inRange(s) && vb <= 1) || vh != (vf && s.Cmp(halfN) <= 0) {
			fails = append(fails, "ValidateSignatureValues differs from the range rules")
		}
		sig := sig65(r, s, vb)
		if sig == nil {
			extra = "unencodable"
			return
		}
		pub, err := crypto.Ecrecover(hash, sig)
		pk, err2 := crypto.SigToPub(hash, sig)
		if (err == nil) != (err2 == nil) || (err == nil && !bytes.Equal(crypto.FromECDSAPub(pk), pub)) {
			fails = append(fails, "Ecrecover and SigToPub disagree")
		}
		if isCgo { // third oracle: the textbook curve of refcurve.go (run once, in the parent build)
			rp, rok := refRecover(hash, r, s, vb)
			if rok != (err == nil) || (rok && !bytes.Equal(rp, pub)) {
				fails = append(fails, fmt.Sprintf("Ecrecover (err=%v, %x) differs from the reference curve (ok=%v, %x)", err, pub, rok, rp))
			}
		}
		if err != nil {
			extra = "recover-fail"
			res.Tags = append(res.Tags, "recover-fail")
			if vf && vb <= 1 {
				// possible: r is not the x coordinate of a curve point
				res.Tags = append(res.Tags, "valid-range-but-unrecoverable")
			}
			return
		}
		if len(pub) != 65 || pub[0] != 4 {
			fails = append(fails, "Ecrecover returned a malformed key")
			return
		}
		if kind == 8 {
			res.Obs = L(L(Big(new(big.Int).SetBytes(pub[1:33])), Big(new(big.Int).SetBytes(pub[33:65]))))
			res.Tags = append(res.Tags, "coq-curve")
		}
		ver := crypto.VerifySignature(pub, hash, sig[:64])
		verC := crypto.VerifySignature(crypto.CompressPubkey(pk), hash, sig[:64])
		extra = fmt.Sprintf("pub=%x ver=%v verC=%v", pub, ver, verC)
		res.Tags = append(res.Tags, "recover-ok", fmt.Sprintf("verify%v", ver))
		// a recovered key verifies (r,s) exactly when s is in the lower half (malleability rule)
		if lowS := s.Cmp(halfN) <= 0; ver != lowS || verC != lowS {
			fails = append(fails, fmt.Sprintf("VerifySignature(recovered key)=%v/%v but s<=n/2 is %v", ver, verC, lowS))
		}
		if vb > 3 {
			fails = append(fails, fmt.Sprintf("backends disagree on recovery id: Ecrecover accepted recovery id %d (cgo=%v)", vb, isCgo))
		}
		return
	case 3: // crypto.Sign round trip
		if len(l) != 3 {
			shape("kind 3 shape")
		}
		hash, keyb := AsBytes(l[1]), AsBytes(l[2])
		key, err := crypto.ToECDSA(keyb)
		if err != nil || len(hash) != 32 {
			shape("bad key/hash")
		}
		res.Obs = L()
		res.Tags = append(res.Tags, "sign")
		res.NonTrivial = true
		sig, err := crypto.Sign(hash, key)
		if err != nil || len(sig) != 65 {
			fails = append(fails, fmt.Sprintf("crypto.Sign failed: %v", err))
			return
		}
		extra = fmt.Sprintf("sig=%x", sig)
		r, s := new(big.Int).SetBytes(sig[:32]), new(big.Int).SetBytes(sig[32:64])
		if !crypto.ValidateSignatureValues(sig[64], r, s, true) {
			fails = append(fails, "crypto.Sign produced values rejected by ValidateSignatureValues(homestead)")
		}
		pub, err := crypto.Ecrecover(hash, sig)
		if err != nil || !bytes.Equal(pub, crypto.FromECDSAPub(&key.PublicKey)) {
			fails = append(fails, "Ecrecover(Sign(h,k)) != pub(k)")
		}
		if !crypto.VerifySignature(crypto.FromECDSAPub(&key.PublicKey), hash, sig[:64]) {
			fails = append(fails, "VerifySignature(pub(k), h, Sign(h,k)) = false")
		}
		if isCgo {
			if !bytes.Equal(refPub(key.D), crypto.FromECDSAPub(&key.PublicKey)) {
				fails = append(fails, "public key of the private key differs from the reference curve")
			}
			if !refVerify(crypto.FromECDSAPub(&key.PublicKey), hash, r, s) {
				fails = append(fails, "reference curve rejects crypto.Sign's signature")
			}
		}
		h2 := append([]byte{}, hash...)
		h2[0] ^= 1
		if crypto.VerifySignature(crypto.FromECDSAPub(&key.PublicKey), h2, sig[:64]) {
			fails = append(fails, "signature verifies for a different hash")
		}
		return
	case 4, 5, 6: // MakeSigner / LatestSigner / LatestSignerForChainID
		res.NonTrivial = true
		var sgv types.Signer
		func() {
			defer func() {
				if e := recover(); e != nil {
					if strings.HasPrefix(fmt.Sprint(e), "hxlib:") {
						panic(e)
					}
					sgv = nil
				}
			}()
			switch AsInt(l[0]) {
			case 4:
				if len(l) != 4 {
					shape("kind 4 shape")
				}
				cfg := parseCfg(l[1])
				var num *big.Int
				if n := AsList(l[2]); len(n) == 1 {
					num = AsBig(n[0])
				}
				sgv = types.MakeSigner(cfg, num, asU64(l[3]))
			case 5:
				if len(l) != 2 {
					shape("kind 5 shape")
				}
				sgv = types.LatestSigner(parseCfg(l[1]))
			default:
				if len(l) != 2 {
					shape("kind 6 shape")
				}
				var c *big.Int
				if n := AsList(l[1]); len(n) == 1 {
					c = AsBig(n[0])
				}
				sgv = types.LatestSignerForChainID(c)
			}
		}()
		if sgv == nil {
			res.Obs = L()
			res.Tags = append(res.Tags, "config", "ctor-panic")
		} else {
			d := describe(sgv)
			res.Obs = L(d)
			res.Tags = append(res.Tags, "config", "signer"+String(AsList(d)[0]))
		}
		return
	case 7: // deriveChainId / isProtectedV / sanityCheckSignature
		if len(l) != 5 {
			shape("kind 7 shape")
		}
		v, r, s, mp := AsBig(l[1]), AsBig(l[2]), AsBig(l[3]), AsBool(l[4])
		d := types.VerifDeriveChainId(v)
		p := types.VerifIsProtectedV(v)
		cl := classify(types.VerifSanityCheckSignature(v, r, s, mp))
		res.Obs = L(Big(d), Bool(p), I(cl))
		res.Tags = append(res.Tags, "vparse", fmt.Sprintf("sanity%d", cl), "vbits"+bitsTag(v))
		res.NonTrivial = true
		// v_roundtrip on the implementation: for v >= 35, v = 35 + 2*chain + parity
		if v.Cmp(bi(35)) >= 0 {
			back := new(big.Int).Lsh(d, 1)
			back.Add(back, bi(35))
			back.Add(back, big.NewInt(int64(new(big.Int).Sub(v, bi(35)).Bit(0))))
			if back.Cmp(v) != 0 {
				fails = append(fails, fmt.Sprintf("deriveChainId(%v)=%v does not invert v = 35+2c+parity", v, d))
			}
			for recid := int64(0); recid < 2; recid++ {
				vv := new(big.Int).Lsh(d, 1)
				vv.Add(vv, bi(35+recid))
				if types.VerifDeriveChainId(vv).Cmp(d) != 0 {
					fails = append(fails, "deriveChainId(35+2c+recid) != c")
				}
			}
		}
		return
	}
	shape("unknown case kind")
	return
}

func bitsTag(x *big.Int) string {
	switch n := x.BitLen(); {
	case n == 0:
		return "0"
	case n <= 8:
		return "<=8"
	case n <= 63:
		return "<=63"
	case n <= 64:
		return "64"
	case n <= 256:
		return "65-256"
	default:
		return ">256"
	}
}

func allSigners(chain *big.Int) []signerSpec {
	out := []signerSpec{{Kind: 0, Chain: new(big.Int)}, {Kind: 1, Chain: new(big.Int)}, {Kind: 2, Chain: chain}}
	for f := 0; f < 4; f++ {
		out = append(out, signerSpec{Kind: 3, Fork: f, Chain: chain})
	}
	return out
}

func parseCfg(v Sx) *params.ChainConfig {
	l := AsList(v)
	if len(l) != 7 {
		shape("cfg shape")
	}
	ob := func(x Sx) *big.Int {
		if n := AsList(x); len(n) == 1 {
			return AsBig(n[0])
		} else if len(n) != 0 {
			shape("cfg option")
		}
		return nil
	}
	ot := func(x Sx) *uint64 {
		if n := AsList(x); len(n) == 1 {
			u := asU64(n[0])
			return &u
		} else if len(n) != 0 {
			shape("cfg option")
		}
		return nil
	}
	return &params.ChainConfig{ChainID: ob(l[0]), HomesteadBlock: ob(l[1]), EIP155Block: ob(l[2]), BerlinBlock: ob(l[3]),
		LondonBlock: ob(l[4]), CancunTime: ot(l[5]), PragueTime: ot(l[6])}
}

// ---------------------------------------------------------------- the second backend

type child struct {
	mu  sync.Mutex
	cmd *exec.Cmd
	in  io.WriteCloser
	out *bufio.Reader
	err error
}

var (
	theChild  child
	childOnce sync.Once
)

func findHarnessDir(from string) (string, error) {
	if r := os.Getenv("VERIF_ROOT"); r != "" {
		return filepath.Join(r, "harness"), nil
	}
	d := from
	for i := 0; i < 8; i++ {
		if _, err := os.Stat(filepath.Join(d, "harness", "go.mod")); err == nil {
			return filepath.Join(d, "harness"), nil
		}
		d = filepath.Dir(d)
	}
	if _, err := os.Stat("/verif/harness/go.mod"); err == nil {
		return "/verif/harness", nil
	}
	return "", errors.New("cannot locate the harness module")
}

// startChild builds and starts hx_c03_nocgo.
func startChild() {
	exe, err := os.Executable()
	if err != nil {
		theChild.err = err
		return
	}
	dir := filepath.Dir(exe)
	out := filepath.Join(dir, "hx_c03_nocgo")
	// always rebuilt (the go build cache makes this cheap): a change confined to files of the
	// !cgo build (crypto/signature_nocgo.go) leaves this cgo binary, and its mtime, untouched
	{
		hdir, err := findHarnessDir(dir)
		if err != nil {
			theChild.err = err
			return
		}
		args := []string{"build"}
		if _, err := os.Stat(filepath.Join(dir, "go.mod")); err == nil {
			args = append(args, "-modfile="+filepath.Join(dir, "go.mod")) // VERIF_REPO scratch-worktree run
		}
		tmp := fmt.Sprintf("%s.%d", out, os.Getpid())
		args = append(args, "-tags", "verif", "-o", tmp, "./c03")
		cmd := exec.Command("go", args...)
		cmd.Dir = hdir
		for _, e := range os.Environ() {
			if strings.HasPrefix(e, "GOTOOLCHAIN=") || strings.HasPrefix(e, "GOSUMDB=") || strings.HasPrefix(e, "CGO_ENABLED=") ||
				strings.HasPrefix(e, "GOFLAGS=") || strings.HasPrefix(e, "GOPROXY=") {
				continue
			}
			cmd.Env = append(cmd.Env, e)
		}
		cmd.Env = append(cmd.Env, "CGO_ENABLED=0", "GOFLAGS=-mod=mod", "GOPROXY=off")
		if o, err := cmd.CombinedOutput(); err != nil {
			os.Remove(tmp)
			msg := string(o)
			if len(msg) > 600 {
				msg = msg[len(msg)-600:]
			}
			theChild.err = fmt.Errorf("go build CGO_ENABLED=0 failed: %v: %s", err, strings.ReplaceAll(msg, "\n", " ; "))
			return
		}
		if err := os.Rename(tmp, out); err != nil {
			theChild.err = err
			return
		}
	}
	cmd := exec.Command(out, "child")
	cmd.Stderr = os.Stderr
	in, err := cmd.StdinPipe()
	if err != nil {
		theChild.err = err
		return
	}
	so, err := cmd.StdoutPipe()
	if err != nil {
		theChild.err = err
		return
	}
	if err := cmd.Start(); err != nil {
		theChild.err = err
		return
	}
	theChild.cmd, theChild.in, theChild.out = cmd, in, bufio.NewReaderSize(so, 1<<20)
}

func askChild(line string) (string, error) {
	childOnce.Do(startChild)
	theChild.mu.Lock()
	defer theChild.mu.Unlock()
	if theChild.err != nil {
		return "", theChild.err
	}
	if _, err := io.WriteString(theChild.in, line+"\n"); err != nil {
		theChild.err = err
		return "", err
	}
	s, err := theChild.out.ReadString('\n')
	if err != nil {
		theChild.err = fmt.Errorf("nocgo child died: %v", err)
		return "", theChild.err
	}
	return strings.TrimRight(s, "\n"), nil
}

func obsText(r Result) string {
	if r.Obs == nil {
		return "!nil"
	}
	return String(r.Obs)
}

// childLine: what the two builds must agree on for one case
func childLine(c Sx) (line string) {
	defer func() {
		if e := recover(); e != nil {
			line = "!panic " + strings.ReplaceAll(fmt.Sprint(e), "\n", " ")
		}
	}()
	r, extra := runInner(c)
	// the recovery-id finding is reported by the parent from the comparison, not twice
	or := r.Oracle
	return obsText(r) + "\t" + extra + "\t" + strings.ReplaceAll(or, "\t", " ")
}

func childMain() {
	sc := bufio.NewScanner(os.Stdin)
	sc.Buffer(make([]byte, 1<<20), 1<<28)
	w := bufio.NewWriter(os.Stdout)
	for sc.Scan() {
		c, err := Parse(sc.Text())
		if err != nil {
			fmt.Fprintln(w, "!parse")
		} else {
			fmt.Fprintln(w, childLine(c))
		}
		w.Flush()
	}
}

func run(c Sx) Result {
	res, extra := runInner(c)
	if !isCgo {
		res.Tags = append(res.Tags, "backend-nocgo-only")
		return res
	}
	add := func(m string) {
		if res.Oracle == "" {
			res.Oracle = m
		} else {
			res.Oracle += " | " + m
		}
	}
	reply, err := askChild(String(c))
	if err != nil {
		add("CGO_ENABLED=0 backend unavailable: " + err.Error())
		return res
	}
	parts := strings.SplitN(reply, "\t", 3)
	if len(parts) != 3 {
		add("nocgo child: " + reply)
		return res
	}
	res.Tags = append(res.Tags, "both-backends")
	if parts[0] != obsText(res) || parts[1] != extra {
		k := AsInt(AsList(c)[0])
		if k == 9 || k == 2 || k == 8 {
			add(fmt.Sprintf("backends disagree on recovery id / crypto result: cgo {%s %s} nocgo {%s %s}", obsText(res), extra, parts[0], parts[1]))
		} else {
			add(fmt.Sprintf("cgo and nocgo backends disagree: cgo {%s %s} nocgo {%s %s}", obsText(res), extra, parts[0], parts[1]))
		}
	} else if parts[2] != "" && parts[2] != res.Oracle {
		add("nocgo build: " + parts[2])
	}
	return res
}

func main() {
	if len(os.Args) >= 2 && os.Args[1] == "child" {
		childMain()
		return
	}
	Main(Family{
		ID:   "C03",
		Rule: rule,
		Gen:  gen,
		Run:  run,
	})
}
