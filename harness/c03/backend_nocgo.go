//go:build !cgo

package main

// built with CGO_ENABLED=0: the decred pure-Go backend of /repo/crypto
const isCgo = false
