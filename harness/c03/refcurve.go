package main

// A third, independent secp256k1: textbook affine arithmetic on math/big, written
// from SEC 2 / SEC 1 4.1.6 (public key recovery) only.  It shares no code with
// libsecp256k1 (cgo backend) or decred (CGO_ENABLED=0 backend) and is used by the
// oracle of the crypto-level cases as a reference for Ecrecover / VerifySignature /
// the public key of a private key.  Slow and not constant time: a test oracle.

import "math/big"

var (
	refP, _  = new(big.Int).SetString("fffffffffffffffffffffffffffffffffffffffffffffffffffffffefffffc2f", 16)
	refN, _  = new(big.Int).SetString("fffffffffffffffffffffffffffffffebaaedce6af48a03bbfd25e8cd0364141", 16)
	refGx, _ = new(big.Int).SetString("79be667ef9dcbbac55a06295ce870b07029bfcdb2dce28d959f2815b16f81798", 16)
	refGy, _ = new(big.Int).SetString("483ada7726a3c4655da4fbfc0e1108a8fd17b448a68554199c47d08ffb10d4b8", 16)
)

type refPoint struct {
	x, y *big.Int // nil, nil = the point at infinity
}

func (p refPoint) inf() bool { return p.x == nil }

func refOnCurve(x, y *big.Int) bool {
	l := new(big.Int).Mul(y, y)
	r := new(big.Int).Mul(x, x)
	r.Mul(r, x)
	r.Add(r, big.NewInt(7))
	return l.Sub(l, r).Mod(l, refP).Sign() == 0
}

func refAdd(a, b refPoint) refPoint {
	if a.inf() {
		return b
	}
	if b.inf() {
		return a
	}
	var lam *big.Int
	if a.x.Cmp(b.x) == 0 {
		if new(big.Int).Add(a.y, b.y).Mod(new(big.Int).Add(a.y, b.y), refP).Sign() == 0 {
			return refPoint{}
		}
		// tangent: 3x^2 / 2y
		num := new(big.Int).Mul(a.x, a.x)
		num.Mul(num, big.NewInt(3))
		den := new(big.Int).Lsh(a.y, 1)
		den.ModInverse(den.Mod(den, refP), refP)
		lam = num.Mul(num, den)
	} else {
		num := new(big.Int).Sub(b.y, a.y)
		den := new(big.Int).Sub(b.x, a.x)
		den.ModInverse(den.Mod(den, refP), refP)
		lam = num.Mul(num, den)
	}
	lam.Mod(lam, refP)
	x := new(big.Int).Mul(lam, lam)
	x.Sub(x, a.x).Sub(x, b.x).Mod(x, refP)
	y := new(big.Int).Sub(a.x, x)
	y.Mul(y, lam).Sub(y, a.y).Mod(y, refP)
	return refPoint{x, y}
}

func refMul(k *big.Int, p refPoint) refPoint {
	acc := refPoint{}
	for i := k.BitLen() - 1; i >= 0; i-- {
		acc = refAdd(acc, acc)
		if k.Bit(i) == 1 {
			acc = refAdd(acc, p)
		}
	}
	return acc
}

// refRecover: SEC 1 4.1.6 with recovery id v = (x overflow bit << 1) | y parity
func refRecover(hash []byte, r, s *big.Int, v byte) (pub []byte, ok bool) {
	if v > 3 || r.Sign() <= 0 || s.Sign() <= 0 || r.Cmp(refN) >= 0 || s.Cmp(refN) >= 0 {
		return nil, false
	}
	x := new(big.Int).Set(r)
	if v&2 != 0 {
		x.Add(x, refN)
	}
	if x.Cmp(refP) >= 0 {
		return nil, false
	}
	y2 := new(big.Int).Mul(x, x)
	y2.Mul(y2, x).Add(y2, big.NewInt(7)).Mod(y2, refP)
	e := new(big.Int).Add(refP, big.NewInt(1))
	e.Rsh(e, 2)
	y := new(big.Int).Exp(y2, e, refP)
	if new(big.Int).Exp(y, big.NewInt(2), refP).Cmp(y2) != 0 {
		return nil, false // x is not the abscissa of a curve point
	}
	if byte(y.Bit(0)) != v&1 {
		y.Sub(refP, y)
	}
	R := refPoint{x, y}
	z := new(big.Int).SetBytes(hash)
	rinv := new(big.Int).ModInverse(r, refN)
	u1 := new(big.Int).Mul(z, rinv)
	u1.Neg(u1).Mod(u1, refN)
	u2 := new(big.Int).Mul(s, rinv)
	u2.Mod(u2, refN)
	Q := refAdd(refMul(u1, refPoint{refGx, refGy}), refMul(u2, R))
	if Q.inf() {
		return nil, false
	}
	pub = make([]byte, 65)
	pub[0] = 4
	Q.x.FillBytes(pub[1:33])
	Q.y.FillBytes(pub[33:65])
	return pub, true
}

// refVerify: plain ECDSA verification (no low-s rule) of (r,s) over hash for an uncompressed key
func refVerify(pub, hash []byte, r, s *big.Int) bool {
	if len(pub) != 65 || pub[0] != 4 || r.Sign() <= 0 || s.Sign() <= 0 || r.Cmp(refN) >= 0 || s.Cmp(refN) >= 0 {
		return false
	}
	Q := refPoint{new(big.Int).SetBytes(pub[1:33]), new(big.Int).SetBytes(pub[33:65])}
	if !refOnCurve(Q.x, Q.y) {
		return false
	}
	z := new(big.Int).SetBytes(hash)
	w := new(big.Int).ModInverse(s, refN)
	u1 := new(big.Int).Mul(z, w)
	u1.Mod(u1, refN)
	u2 := new(big.Int).Mul(r, w)
	u2.Mod(u2, refN)
	P := refAdd(refMul(u1, refPoint{refGx, refGy}), refMul(u2, Q))
	if P.inf() {
		return false
	}
	return new(big.Int).Mod(P.x, refN).Cmp(r) == 0
}

func refPub(d *big.Int) []byte {
	Q := refMul(d, refPoint{refGx, refGy})
	pub := make([]byte, 65)
	pub[0] = 4
	Q.x.FillBytes(pub[1:33])
	Q.y.FillBytes(pub[33:65])
	return pub
}
