//go:build cgo

package main

// built with the libsecp256k1 (cgo) backend of /repo/crypto
const isCgo = true
