package main

import (
	"crypto/ecdsa"
	"math/big"
	"sort"

	"github.com/ethereum/go-ethereum/common"
	"github.com/ethereum/go-ethereum/core/types"
	"github.com/ethereum/go-ethereum/crypto"
	"github.com/holiman/uint256"

	. "gethverif/harness/hxlib"
)

const rule = "kind 0 (SignTx then Sender): the full sweep tx type {legacy, access list, dynamic fee, blob, set code} x signer {Frontier, Homestead, EIP155, Berlin, London, Cancun, Prague} x chain id {1, 1337, 2^63, 2^64+5, a 200-bit value} with a fresh random key each, then random combinations (typed-tx chain field 0 / equal / different, recovering signer equal or different, EIP155 chain id 0, chain id 2^256+7 for the uint256-typed txs, keys 1 and n-1); " +
	"kind 1 (Sender on arbitrary V,R,S): validly signed txs mutated by the high-s twin, s in {n/2, n/2+1, 0, 1, n-1, n}, r in {0, 1, n-1, n, 2^256-1, >2^256}, V variants (other parity, +2, 0/1 vs 27/28 swapped, other chain, 2^64 offsets, negative), chain field changes, payload tampering, fully random V,R,S, under the same / chain+1 / a random signer; " +
	"kind 2/9 (crypto level): (hash,r,s,v) from real signatures and the same boundary values with v in {0,1,2,3,27,28,255} (kind 9: recovery ids 4..7) through ValidateSignatureValues, Ecrecover, SigToPub, VerifySignature; kind 3: crypto.Sign round trips; kind 8: a handful of Ecrecover inputs also evaluated by the executable Coq curve Crypto/Secp.v; kinds 4-6: MakeSigner/LatestSigner/LatestSignerForChainID on random fork configurations; kind 7: deriveChainId/isProtectedV/sanityCheckSignature on boundary V. " +
	"Every case is run in the cgo build and in a CGO_ENABLED=0 build of the same harness and the observables compared; Ecrecover, the public key of a private key and crypto.Sign's signatures are also compared with a textbook big.Int secp256k1 (refcurve.go) as a third oracle. The recover/sign tables in a case are computed by the generator with crypto.Sign/crypto.Ecrecover. " +
	"Non-trivial: a kind-0 case whose guard holds (sign+recover evaluated, plus tamper/strictness probes), every kind 1,2,3,7,9 case and every config case; distinct = distinct case line."

var chainIDs = []*big.Int{
	bi(1), bi(1337), new(big.Int).Lsh(bi(1), 63), new(big.Int).Add(two64, bi(5)),
	new(big.Int).Add(new(big.Int).Lsh(bi(1), 199), bi(0x1234567)),
}
var hugeChain = new(big.Int).Add(two256, bi(7))

func randBig(r *Rng, maxBits int) *big.Int {
	bits := r.Intn(maxBits + 1)
	if bits == 0 {
		return new(big.Int)
	}
	b := new(big.Int).SetBytes(r.Bytes((bits + 7) / 8))
	return b.Rsh(b, uint((8-bits%8)%8))
}

func randAddr(r *Rng) common.Address { return common.BytesToAddress(r.Bytes(20)) }
func randHash(r *Rng) common.Hash    { return common.BytesToHash(r.Bytes(32)) }

func randU64(r *Rng) uint64 {
	switch r.Intn(5) {
	case 0:
		return uint64(r.Intn(3))
	case 1:
		return ^uint64(0) - uint64(r.Intn(2))
	case 2:
		return uint64(r.Intn(200))
	}
	return r.U64() >> uint(r.Intn(64))
}

func randKey(r *Rng) *ecdsa.PrivateKey {
	var d *big.Int
	switch r.Intn(40) {
	case 0:
		d = bi(1)
	case 1:
		d = new(big.Int).Sub(secpN, big1)
	default:
		d = new(big.Int).SetBytes(r.Bytes(32))
		d.Mod(d, new(big.Int).Sub(secpN, big1))
		d.Add(d, big1)
	}
	k, err := crypto.ToECDSA(d.FillBytes(make([]byte, 32)))
	if err != nil {
		panic(err)
	}
	return k
}

func keyBytes(k *ecdsa.PrivateKey) []byte { return k.D.FillBytes(make([]byte, 32)) }

func randAccess(r *Rng) types.AccessList {
	var al types.AccessList
	for i, n := 0, r.Intn(3); i < n; i++ {
		t := types.AccessTuple{Address: randAddr(r), StorageKeys: []common.Hash{}}
		for j, m := 0, r.Intn(3); j < m; j++ {
			t.StorageKeys = append(t.StorageKeys, randHash(r))
		}
		al = append(al, t)
	}
	return al
}

// randSpec: an unsigned transaction of type ty with arbitrary (in-range) V, R, S
func randSpec(r *Rng, ty int, chain *big.Int) *txSpec {
	sp := &txSpec{Ty: ty, Chain: new(big.Int).Set(chain), V: bi(int64(r.Intn(40))), R: randBig(r, 256), S: randBig(r, 256),
		Nonce: randU64(r), Gas: randU64(r), Price: randBig(r, 256), FeeCap: new(big.Int), Value: randBig(r, 256), BlobFeeCap: new(big.Int)}
	if r.Chance(1, 3) {
		sp.V, sp.R, sp.S = new(big.Int), new(big.Int), new(big.Int)
	}
	if ty >= 3 || r.Chance(4, 5) {
		a := randAddr(r)
		if r.Chance(1, 10) {
			a = common.Address{}
		}
		sp.To = &a
	}
	switch r.Intn(4) {
	case 0:
	case 1:
		sp.Data = r.Bytes(1)
	case 2:
		sp.Data = r.Bytes(r.Intn(70))
	default:
		sp.Data = r.Bytes(r.Intn(300))
	}
	if sp.Data == nil {
		sp.Data = []byte{}
	}
	if ty >= 1 {
		sp.Access = randAccess(r)
	}
	if ty >= 2 {
		sp.FeeCap = randBig(r, 256)
	}
	if ty == 3 {
		sp.BlobFeeCap = randBig(r, 256)
		for i, n := 0, r.Intn(3); i < n; i++ {
			sp.BlobHashes = append(sp.BlobHashes, randHash(r))
		}
	}
	if ty == 4 {
		for i, n := 0, r.Intn(3); i < n; i++ {
			sp.Auth = append(sp.Auth, types.SetCodeAuthorization{ChainID: *uint256.MustFromBig(randBig(r, 256)), Address: randAddr(r),
				Nonce: randU64(r), V: uint8(r.Intn(256)), R: *uint256.MustFromBig(randBig(r, 256)), S: *uint256.MustFromBig(randBig(r, 256))})
		}
	}
	return sp
}

func sigParts(sig []byte) (r, s *big.Int, recid int64) {
	return new(big.Int).SetBytes(sig[:32]), new(big.Int).SetBytes(sig[32:64]), int64(sig[64])
}

// case (0 tx signer key signer' SIGN REC)
func emitSign(emit func(Sx), sp *txSpec, ss signerSpec, key *ecdsa.PrivateKey, ss2 signerSpec) {
	tx := sp.build()
	sg, sg2 := ss.mk(), ss2.mk()
	h := sg.Hash(tx)
	sig, err := crypto.Sign(h[:], key)
	if err != nil {
		panic(err)
	}
	r, s, recid := sigParts(sig)
	signTbl := L(L(B(h[:]), Big(r), Big(s), I(recid)))
	rec := SL{}
	if stx, _ := signTx(tx, sg, key); stx != nil {
		ssp := sp.withSig(stx)
		seen := map[string]bool{}
		rec = recEntries(rec, seen, sg2.Hash(stx), ssp.R, ssp.S)
		rec = recEntries(rec, seen, types.HomesteadSigner{}.Hash(stx), ssp.R, ssp.S)
	}
	emit(L(I(0), sp.sx(), ss.sx(), B(keyBytes(key)), ss2.sx(), signTbl, rec))
}

// case (1 tx signer REC)
func emitRaw(emit func(Sx), sp *txSpec, ss signerSpec) {
	tx := sp.build()
	sg := ss.mk()
	seen := map[string]bool{}
	rec := recEntries(SL{}, seen, sg.Hash(tx), sp.R, sp.S)
	rec = recEntries(rec, seen, types.HomesteadSigner{}.Hash(tx), sp.R, sp.S)
	emit(L(I(1), sp.sx(), ss.sx(), rec))
}

func randSigner(r *Rng, chain *big.Int) signerSpec {
	s := allSigners(chain)
	return s[r.Intn(len(s))]
}

func supportingSigner(r *Rng, ty int, chain *big.Int) signerSpec {
	for {
		if s := randSigner(r, chain); s.supports(ty) {
			return s
		}
	}
}

func boundaryRS(r *Rng) *big.Int {
	switch r.Intn(12) {
	case 0:
		return new(big.Int)
	case 1:
		return bi(1)
	case 2:
		return new(big.Int).Set(halfN)
	case 3:
		return new(big.Int).Add(halfN, big1)
	case 4:
		return new(big.Int).Sub(secpN, big1)
	case 5:
		return new(big.Int).Set(secpN)
	case 6:
		return new(big.Int).Add(secpN, big1)
	case 7:
		return new(big.Int).Sub(two256, big1)
	case 8:
		return new(big.Int).Sub(halfN, big1)
	}
	return randBig(r, 256)
}

func clampU256(sp *txSpec) {
	if sp.Ty < 3 {
		return
	}
	for _, x := range []*big.Int{sp.V, sp.R, sp.S, sp.Chain} {
		if x.Sign() < 0 {
			x.Neg(x)
		}
		if x.BitLen() > 256 {
			x.Mod(x, two256)
		}
	}
}

func mutate(r *Rng, sp *txSpec, ss signerSpec) {
	flip := func() {
		switch {
		case sp.Ty != 0:
			sp.V.Xor(sp.V, big1)
		case sp.V.Cmp(bi(28)) <= 0:
			sp.V.SetInt64(55 - sp.V.Int64())
		default:
			if new(big.Int).Sub(sp.V, bi(35)).Bit(0) == 0 {
				sp.V.Add(sp.V, big1)
			} else {
				sp.V.Sub(sp.V, big1)
			}
		}
	}
	switch r.Intn(12) {
	case 0: // untouched, valid
	case 1: // high-s twin
		sp.S.Sub(secpN, sp.S)
		flip()
	case 2:
		sp.S = boundaryRS(r)
	case 3:
		sp.R = boundaryRS(r)
	case 4: // beyond 2^256 / negative (big.Int-typed txs only; clamped for uint256 ones)
		x := new(big.Int).Add(two256, randBig(r, 64))
		if r.Bool() {
			x = bi(-int64(r.Intn(5)) - 1)
		}
		if r.Bool() {
			sp.R = x
		} else {
			sp.S = x
		}
	case 5: // V variants
		vs := []*big.Int{bi(0), bi(1), bi(2), bi(3), bi(26), bi(27), bi(28), bi(29), bi(34), bi(35), bi(36), bi(255), bi(256), bi(283),
			new(big.Int).Add(two64, bi(27)), new(big.Int).Add(two64, bi(28)), new(big.Int).Add(two64, sp.V), new(big.Int).Sub(two64, big1),
			new(big.Int).Add(sp.V, bi(2)), new(big.Int).Sub(sp.V, bi(2)), new(big.Int).Add(sp.V, bi(256)), new(big.Int).Neg(sp.V), bi(-27), bi(-28), bi(-1),
			new(big.Int).Add(new(big.Int).Lsh(ss.Chain, 1), bi(35)), new(big.Int).Add(new(big.Int).Lsh(ss.Chain, 1), bi(36)),
			new(big.Int).Add(new(big.Int).Lsh(ss.Chain, 1), bi(37)), new(big.Int).Add(new(big.Int).Lsh(ss.Chain, 1), bi(8))}
		sp.V = new(big.Int).Set(vs[r.Intn(len(vs))])
	case 6:
		flip()
	case 7: // chain field
		switch r.Intn(3) {
		case 0:
			sp.Chain.Add(sp.Chain, big1)
		case 1:
			sp.Chain.SetInt64(0)
		default:
			sp.Chain = new(big.Int).Set(chainIDs[r.Intn(len(chainIDs))])
		}
	case 8: // payload tamper
		t := tamperings(sp)
		names := make([]string, 0, len(t))
		for n := range t {
			names = append(names, n)
		}
		sort.Strings(names)
		k := r.Intn(len(names))
		*sp = *t[names[k]]
	case 9: // everything random
		sp.R, sp.S = boundaryRS(r), boundaryRS(r)
		sp.V = bi(int64(r.Intn(40)))
	case 10: // swap r and s
		sp.R, sp.S = sp.S, sp.R
	default: // r+1
		sp.R.Add(sp.R, big1)
	}
	clampU256(sp)
}

func randCfgOpt(r *Rng, max int) Sx {
	if r.Chance(1, 3) {
		return L()
	}
	return L(I(int64(r.Intn(max))))
}

func gen(r0 *Rng, tier string, emit func(Sx)) {
	r := NewRng(r0.U64())
	mult := 1
	if tier == "thorough" {
		mult = 10
	}
	// --- the full sweep: type x signer x chain id
	for rep := 0; rep < mult; rep++ {
		for ty := 0; ty <= 4; ty++ {
			for _, chain := range chainIDs {
				for _, ss := range allSigners(chain) {
					txChain := new(big.Int)
					if rep%2 == 1 {
						txChain = chain
					}
					emitSign(emit, randSpec(r, ty, txChain), ss, randKey(r), ss)
				}
			}
		}
	}
	// --- adversarial fixed points
	for ty := 0; ty <= 4; ty++ {
		// chain id above 2^256: BlobTx truncates, SetCodeTx panics in MustFromBig
		emitSign(emit, randSpec(r, ty, new(big.Int)), signerSpec{Kind: 3, Fork: 3, Chain: hugeChain}, randKey(r), signerSpec{Kind: 3, Fork: 3, Chain: hugeChain})
	}
	emitSign(emit, randSpec(r, 0, new(big.Int)), signerSpec{Kind: 2, Chain: new(big.Int)}, randKey(r), signerSpec{Kind: 2, Chain: new(big.Int)})
	emitSign(emit, randSpec(r, 0, new(big.Int)), signerSpec{Kind: 2, Chain: new(big.Int)}, randKey(r), signerSpec{Kind: 1, Chain: new(big.Int)})
	// --- random sign/recover combinations
	for i := 0; i < 500*mult; i++ {
		chain := chainIDs[r.Intn(len(chainIDs))]
		ty := r.Intn(5)
		var ss signerSpec
		if r.Chance(5, 6) {
			ss = supportingSigner(r, ty, chain)
		} else {
			ss = randSigner(r, chain)
		}
		if r.Chance(1, 40) && ss.Kind == 2 {
			ss.Chain = new(big.Int)
		}
		txChain := new(big.Int)
		switch r.Intn(10) {
		case 0, 1, 2, 3:
			txChain = chain
		case 4:
			txChain = chainIDs[r.Intn(len(chainIDs))]
		}
		ss2 := ss
		switch r.Intn(6) {
		case 0:
			ss2 = randSigner(r, chain)
		case 1:
			ss2 = randSigner(r, chainIDs[r.Intn(len(chainIDs))])
		}
		emitSign(emit, randSpec(r, ty, txChain), ss, randKey(r), ss2)
	}
	// --- Sender on mutated signed transactions
	for i := 0; i < 1500*mult; i++ {
		chain := chainIDs[r.Intn(len(chainIDs))]
		if r.Chance(1, 8) {
			chain = bi(int64(1 + r.Intn(120))) // small chain ids: V fits a byte / wraps in byte arithmetic
		}
		ty := r.Intn(5)
		ss := supportingSigner(r, ty, chain)
		sp := randSpec(r, ty, chain)
		key := randKey(r)
		stx, _ := signTx(sp.build(), ss.mk(), key)
		if stx == nil {
			continue
		}
		ssp := sp.withSig(stx)
		mutate(r, ssp, ss)
		ss2 := ss
		switch r.Intn(8) {
		case 0:
			ss2 = sameKindOtherChain(ss)
		case 1:
			ss2 = randSigner(r, chain)
		}
		emitRaw(emit, ssp, ss2)
	}
	// --- crypto level
	vset := []int64{0, 1, 2, 3, 27, 28, 255}
	for i := 0; i < 700*mult; i++ {
		hash := r.Bytes(32)
		key := randKey(r)
		sig, err := crypto.Sign(hash, key)
		if err != nil {
			panic(err)
		}
		rr, s, recid := sigParts(sig)
		v := recid
		kind := int64(2)
		switch r.Intn(10) {
		case 0: // the malleated twin
			s.Sub(secpN, s)
			v ^= 1
		case 1:
			s = boundaryRS(r)
		case 2:
			rr = boundaryRS(r)
		case 3:
			rr, s = boundaryRS(r), boundaryRS(r)
		case 4:
			v = vset[r.Intn(len(vset))]
		case 5:
			v ^= 1
		case 6: // out of the 32-byte range / negative: ValidateSignatureValues only
			rr = new(big.Int).Add(two256, randBig(r, 40))
			if r.Bool() {
				s = bi(-int64(r.Intn(3)) - 1)
			}
		case 7: // recovery ids 4..7 (decred's "compressed key" codes)
			v = recid + 4 + 2*int64(r.Intn(2))
			kind = 9
		case 8:
			hash[r.Intn(32)] ^= 1 << uint(r.Intn(8))
		}
		emit(L(I(kind), I(v), Big(rr), Big(s), B(hash)))
	}
	// --- a few Ecrecover cases against the executable Coq curve (slow: ~1-3 s each in the model)
	for i := 0; i < 4*mult; i++ {
		hash := r.Bytes(32)
		sig, err := crypto.Sign(hash, randKey(r))
		if err != nil {
			panic(err)
		}
		rr, s, v := sigParts(sig)
		switch i % 4 {
		case 1: // the other recovery id
			v ^= 1
		case 2: // malleated twin
			s.Sub(secpN, s)
			v ^= 1
		case 3: // random r: about half are not abscissas of curve points
			rr = randBig(r, 256)
			if rr.Sign() == 0 {
				rr = bi(1)
			}
		}
		emit(L(I(8), I(v), Big(rr), Big(s), B(hash)))
	}
	for i := 0; i < 150*mult; i++ {
		hash := r.Bytes(32)
		if r.Chance(1, 10) {
			hash = make([]byte, 32)
		}
		emit(L(I(3), B(hash), B(keyBytes(randKey(r)))))
	}
	// --- signer construction from configurations
	for i := 0; i < 300*mult; i++ {
		var chain Sx = L()
		switch r.Intn(8) {
		case 0:
		case 1:
			chain = L(I(0))
		case 2:
			chain = L(I(-1))
		default:
			chain = L(Big(chainIDs[r.Intn(len(chainIDs))]))
		}
		cfg := L(chain, randCfgOpt(r, 12), randCfgOpt(r, 12), randCfgOpt(r, 12), randCfgOpt(r, 12), randCfgOpt(r, 12), randCfgOpt(r, 12))
		switch r.Intn(6) {
		case 0:
			emit(L(I(5), cfg))
		case 1:
			emit(L(I(6), chain))
		default:
			emit(L(I(4), cfg, randCfgOpt(r, 16), I(int64(r.Intn(16)))))
		}
	}
	// --- V parsing
	for i := 0; i < 500*mult; i++ {
		var v *big.Int
		switch r.Intn(8) {
		case 0:
			v = bi(int64(r.Intn(300)))
		case 1:
			v = new(big.Int).Add(new(big.Int).Lsh(chainIDs[r.Intn(len(chainIDs))], 1), bi(int64(33+r.Intn(6))))
		case 2:
			v = new(big.Int).Add(two64, bi(int64(r.Intn(80))-40))
		case 3:
			v = new(big.Int).Add(new(big.Int).Lsh(bi(1), 63), bi(int64(r.Intn(80))-40))
		case 4:
			v = randBig(r, 300)
		case 5:
			v = bi(-int64(r.Intn(300)))
		case 6:
			v = new(big.Int).Neg(new(big.Int).Add(two64, bi(int64(r.Intn(80))-40)))
		default:
			v = new(big.Int).Add(new(big.Int).Lsh(bi(int64(r.Intn(200))), 1), bi(int64(35+r.Intn(2))))
		}
		emit(L(I(7), Big(v), Big(boundaryRS(r)), Big(boundaryRS(r)), Bool(r.Bool())))
	}
}
