package main

import (
	"math/big"

	. "gethverif/harness/hxlib"
	"github.com/ethereum/go-ethereum/common"
	"github.com/ethereum/go-ethereum/crypto"
)

// ---------------------------------------------------------------------------
// ether-specific statements

// init code that self-destructs at once: beneficiary 0 = itself, otherwise the given address
func sdInit(ben *big.Int) []byte {
	a := newAsm()
	if ben == nil {
		a.op(0x30)
	} else {
		a.push(ben)
	}
	a.op(0xff)
	return a.bytes()
}

// init code that deploys a runtime which self-destructs to [ben] (nil = itself) when called
func sdRuntimeInit(ben *big.Int) []byte {
	rt := newAsm()
	if ben == nil {
		rt.op(0x30)
	} else {
		rt.push(ben)
	}
	rt.op(0xff)
	code := rt.bytes()
	a := newAsm()
	chunk := make([]byte, 32)
	copy(chunk, code)
	a.op(0x7f)
	a.op(chunk...)
	a.pushU(0)
	a.op(0x52)
	a.pushU(uint64(len(code)))
	a.pushU(0)
	a.op(0xf3)
	return a.bytes()
}

func (g *pgen) fresh() *big.Int { return big.NewInt(int64(0x7000 + g.r.Intn(6))) }

func (g *pgen) anyAddr() *big.Int {
	switch g.r.Intn(4) {
	case 0:
		return g.fresh()
	default:
		return g.addr()
	}
}

func (g *pgen) smallValue() *big.Int {
	if g.r.Chance(1, 6) {
		return new(big.Int)
	}
	return big.NewInt(int64(1 + g.r.Intn(60)))
}

func (g *pgen) etherStmt() {
	r, a := g.r, g.a
	switch r.Intn(9) {
	case 0, 1: // plain value call
		a.pushU(0)
		a.pushU(0)
		a.pushU(0)
		a.pushU(0)
		a.push(g.smallValue())
		a.push(g.anyAddr())
		a.op(0x5a, 0xf1, 0x50)
	case 2: // CALLCODE / DELEGATECALL into another contract (value stays)
		a.pushU(0)
		a.pushU(0)
		a.pushU(0)
		a.pushU(0)
		if r.Bool() {
			a.push(g.smallValue())
			a.push(g.addr())
			a.op(0x5a, 0xf2, 0x50)
		} else {
			a.push(g.addr())
			a.op(0x5a, 0xf4, 0x50)
		}
	case 3, 4: // creation with endowment whose init code self-destructs
		var ben *big.Int
		switch r.Intn(3) {
		case 0:
			ben = nil
		case 1:
			ben = g.addr()
		default:
			ben = g.fresh()
		}
		init := sdInit(ben)
		if r.Chance(1, 3) {
			init = sdRuntimeInit(ben)
		}
		g.storeBlob(init)
		if r.Bool() {
			a.pushU(uint64(len(init)))
			a.pushU(0)
			a.push(g.smallValue())
			a.op(0xf0)
		} else {
			a.pushU(uint64(r.Intn(3)))
			a.pushU(uint64(len(init)))
			a.pushU(0)
			a.push(g.smallValue())
			a.op(0xf5)
		}
		// send more ether to what was created (possibly already self-destructed), call it
		if r.Chance(2, 3) {
			a.op(0x80) // DUP1
			a.pushU(0)
			a.pushU(0)
			a.pushU(0)
			a.pushU(0)
			a.push(g.smallValue())
			a.op(0x85) // DUP6: the address
			a.op(0x5a, 0xf1, 0x50)
		}
		a.op(0x50)
	case 5: // value transfer and then revert of an inner frame: call self with a flag? use a failing callee
		a.pushU(0)
		a.pushU(0)
		a.pushU(0)
		a.pushU(0)
		a.push(g.smallValue())
		a.push(g.addr())
		a.pushU(uint64(100 + r.Intn(3000))) // little gas: the callee likely fails
		a.op(0xf1, 0x50)
	case 6: // BALANCE / SELFBALANCE reads
		a.op(0x47, 0x50)
		a.push(g.anyAddr())
		a.op(0x31, 0x50)
	case 7: // storage write (refunds interact with gas used)
		a.push(g.sval())
		a.push(g.key())
		a.op(0x55)
	default:
		g.stmt()
	}
}

func etherProgram(r *Rng, w *world, wild bool) []byte {
	g := &pgen{r: r, a: newAsm(), w: w, wild: wild}
	n := 1 + r.Intn(6)
	for i := 0; i < n; i++ {
		if r.Chance(3, 4) {
			g.etherStmt()
		} else {
			g.stmt()
		}
	}
	switch r.Intn(8) {
	case 0: // self-destruct of a pre-existing contract (EIP-6780: only moves the balance)
		if r.Bool() {
			g.a.op(0x30)
		} else {
			g.a.push(g.anyAddr())
		}
		g.a.op(0xff)
	case 1:
		g.a.pushU(0)
		g.a.pushU(0)
		g.a.op(0xfd) // revert everything
	case 2:
		g.a.op(0xfe)
	default:
		g.a.op(0x00)
	}
	return g.a.bytes()
}

// ---------------------------------------------------------------------------
// cases

func big64(v uint64) *big.Int { return new(big.Int).SetUint64(v) }

func genCase(r *Rng, wild bool) bcase {
	var t bcase
	coinbase := big.NewInt(0xcb01)
	if r.Chance(1, 10) {
		coinbase = big.NewInt(0xee01) // the first sender is the fee recipient
	}
	t.fork = []int{0, 0, 1, 2}[r.Intn(4)]
	basefee := big.NewInt(int64(r.Intn(1000)))
	if r.Chance(1, 8) {
		basefee = new(big.Int)
	}
	t.env = []*big.Int{coinbase, big.NewInt(int64(1000 + r.Intn(1000))), big.NewInt(int64(1 + r.Intn(600))),
		new(big.Int).SetBytes(r.Bytes(32)), big.NewInt(int64(8000000 + r.Intn(20000000))), big.NewInt(1),
		basefee, big.NewInt(int64(1 + r.Intn(50)))}
	eoas := []*big.Int{big.NewInt(0xee01), big.NewInt(0xee02), big.NewInt(0xee03), big.NewInt(0xee04)}
	ncon := 2 + r.Intn(3)
	w := &world{}
	var caddrs []*big.Int
	for i := 0; i < ncon; i++ {
		caddrs = append(caddrs, big.NewInt(int64(0x1000+i)))
	}
	w.addrs = append(w.addrs, caddrs...)
	w.addrs = append(w.addrs, caddrs...)
	w.addrs = append(w.addrs, eoas[0], eoas[1], coinbase, big.NewInt(4), big.NewInt(0x2222))
	nonces := map[int]uint64{}
	for i, e := range eoas {
		bal := new(big.Int).Add(pow2(uint(60+r.Intn(20))), big.NewInt(int64(r.Intn(1000))))
		if r.Chance(1, 8) {
			bal = big.NewInt(int64(r.Intn(40000000))) // may not afford the gas
		}
		n := uint64(r.Intn(3))
		nonces[i] = n
		t.pre = append(t.pre, acct{addr: e, balance: bal, nonce: n})
	}
	for i := 0; i < ncon; i++ {
		code := etherProgram(r, w, wild)
		if wild && r.Chance(1, 4) && len(code) > 0 {
			code[r.Intn(len(code))] = byte(r.U64())
		}
		ac := acct{addr: caddrs[i], balance: big.NewInt(int64(r.Intn(500))), nonce: 1, code: code}
		for k := 0; k < 4; k++ {
			if r.Chance(1, 3) {
				ac.slots = append(ac.slots, [2]*big.Int{big.NewInt(int64(k)), big.NewInt(int64(1 + r.Intn(3)))})
			}
		}
		t.pre = append(t.pre, ac)
	}
	if r.Chance(1, 3) {
		t.pre = append(t.pre, acct{addr: big.NewInt(0x2222), balance: big.NewInt(int64(r.Intn(5))), nonce: uint64(r.Intn(2))})
	}
	if r.Chance(1, 4) && coinbase.Int64() == 0xcb01 {
		t.pre = append(t.pre, acct{addr: coinbase, balance: big.NewInt(int64(r.Intn(100)))})
	}
	ntx := 1 + r.Intn(5)
	var createdAddrs []*big.Int // addresses that earlier creation transactions of this block give birth to
	for i := 0; i < ntx; i++ {
		s := r.Intn(len(eoas))
		x := txn{typ: []int{0, 0, 1, 2, 2, 2}[r.Intn(6)], from: eoas[s], nonce: nonces[s], blobfeecap: new(big.Int)}
		nonces[s]++
		tip := big.NewInt(int64(r.Intn(200)))
		x.feecap = new(big.Int).Add(basefee, big.NewInt(int64(r.Intn(300))))
		if x.typ < 2 {
			tip = new(big.Int).Set(x.feecap)
		} else if tip.Cmp(x.feecap) > 0 {
			tip = new(big.Int).Set(x.feecap)
		}
		x.tipcap = tip
		x.value = new(big.Int)
		if r.Chance(1, 2) {
			x.value = big.NewInt(int64(r.Intn(100000)))
		}
		switch r.Intn(12) {
		case 0:
			x.gas = uint64(21000 + r.Intn(3000))
		case 1:
			x.gas = uint64(20000 + r.Intn(40000))
		default:
			x.gas = uint64(60000 + r.Intn(900000))
		}
		switch r.Intn(8) {
		case 0: // creation: endowment + self-destructing or random init code
			x.to = nil
			switch r.Intn(4) {
			case 0:
				x.data = sdInit(nil)
			case 1:
				x.data = sdInit(w.addrs[r.Intn(len(w.addrs))])
			case 2:
				x.data = sdRuntimeInit(nil)
			default:
				g := &pgen{r: r, a: newAsm(), w: w, wild: wild}
				x.data = g.initcode()
			}
			if x.gas < 80000 {
				x.gas += 100000
			}
			createdAddrs = append(createdAddrs, new(big.Int).SetBytes(crypto.CreateAddress(common.BigToAddress(x.from), x.nonce).Bytes()))
		case 1: // plain transfer
			x.to = []*big.Int{eoas[r.Intn(4)], big.NewInt(0x2222), big.NewInt(int64(0x7000 + r.Intn(6))), coinbase}[r.Intn(4)]
			x.data = r.Bytes(r.Intn(30))
		default:
			x.to = caddrs[r.Intn(ncon)]
			x.data = r.Bytes(r.Intn(70))
		}
		if x.to != nil && len(createdAddrs) > 0 && r.Chance(1, 3) {
			x.to = createdAddrs[r.Intn(len(createdAddrs))] // a contract born earlier in this block
		}
		if x.typ >= 1 && r.Chance(1, 2) {
			ac := access{addr: caddrs[r.Intn(ncon)]}
			for k := r.Intn(3); k > 0; k-- {
				ac.keys = append(ac.keys, big.NewInt(int64(r.Intn(4))))
			}
			x.al = append(x.al, ac)
		}
		if x.to != nil && r.Chance(1, 10) { // blob transaction
			x.typ = 3
			x.tipcap = tip
			for k := 1 + r.Intn(2); k > 0; k-- {
				h := r.Bytes(32)
				h[0] = 1
				x.hashes = append(x.hashes, new(big.Int).SetBytes(h))
			}
			x.blobfeecap = new(big.Int).Add(t.env[7], big.NewInt(int64(r.Intn(20))))
		}
		// defects
		switch r.Intn(40) {
		case 0:
			x.nonce += uint64(1 + r.Intn(2))
		case 1:
			if x.nonce > 0 {
				x.nonce--
			}
		case 2:
			if basefee.Sign() > 0 {
				x.feecap = new(big.Int).Sub(basefee, big.NewInt(1))
				if x.tipcap.Cmp(x.feecap) > 0 {
					x.tipcap = new(big.Int).Set(x.feecap)
				}
			}
		case 3:
			if x.typ >= 2 {
				x.tipcap = new(big.Int).Add(x.feecap, big.NewInt(1))
			}
		case 4:
			x.gas = uint64(r.Intn(21000))
		case 5:
			x.value = pow2(90)
		case 6:
			x.gas = t.env[4].Uint64() + 1
		}
		t.txs = append(t.txs, x)
	}
	t.split = 1 << 20
	if len(t.txs) >= 2 && r.Chance(1, 4) {
		t.split = 1 + r.Intn(len(t.txs)-1) // two blocks
	}
	for i := r.Intn(4); i > 0; i-- {
		to := []*big.Int{eoas[r.Intn(4)], caddrs[r.Intn(ncon)], big.NewInt(int64(0x7000 + r.Intn(6))), coinbase}[r.Intn(4)]
		t.ws = append(t.ws, [2]*big.Int{to, big.NewInt(int64(r.Intn(5000)))})
	}
	return t
}

func gen(r *Rng, tier string, emit func(Sx)) {
	r = NewRng(r.U64())
	n, nLife := 240, 60
	if tier == "thorough" {
		n, nLife = 5000, 2000
	}
	// contract life cycles across transactions and blocks, systematically and at random
	systematicLives(r.Fork(), func(t bcase) { emit(t.sx()) })
	for i := 0; i < nLife; i++ {
		rr := r.Fork()
		emit(buildLife(rr, randomLife(rr)).sx())
	}
	for i := 0; i < n; i++ {
		t := genCase(r.Fork(), i%6 == 5)
		o := execute(t, modelFork[t.fork%3])
		if o.overrun || o.steps > 200000 {
			continue
		}
		emit(t.sx())
	}
}
