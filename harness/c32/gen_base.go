// Program grammar copied from family c27 (harness/c27/gen.go): assembler, operand and statement generators.
package main

import (
	"math/big"

	. "gethverif/harness/hxlib"
)

// ---------------------------------------------------------------------------
// a tiny assembler with labels

type asm struct {
	code   []byte
	fix    map[int]int // position of a PUSH2 immediate -> label
	labels map[int]int
	nlab   int
}

func newAsm() *asm { return &asm{fix: map[int]int{}, labels: map[int]int{}} }

func (a *asm) op(b ...byte)  { a.code = append(a.code, b...) }
func (a *asm) newLabel() int { a.nlab++; return a.nlab }
func (a *asm) pushLabel(l int) {
	a.code = append(a.code, 0x61, 0, 0)
	a.fix[len(a.code)-2] = l
}
func (a *asm) label(l int) { a.labels[l] = len(a.code); a.op(0x5b) }
func (a *asm) push(v *big.Int) {
	b := v.Bytes()
	if len(b) > 32 {
		b = b[len(b)-32:]
	}
	if len(b) == 0 {
		a.op(0x60, 0)
		return
	}
	a.op(byte(0x5f + len(b)))
	a.op(b...)
}
func (a *asm) pushU(v uint64) { a.push(new(big.Int).SetUint64(v)) }
func (a *asm) bytes() []byte {
	out := append([]byte{}, a.code...)
	for pos, l := range a.fix {
		t := a.labels[l]
		out[pos], out[pos+1] = byte(t>>8), byte(t)
	}
	return out
}

var two = big.NewInt(2)

func pow2(k uint) *big.Int { return new(big.Int).Lsh(big.NewInt(1), k) }

// ---------------------------------------------------------------------------
// program generator

type world struct {
	addrs    []*big.Int // addresses worth mentioning: contracts, origin, coinbase, identity precompile, a stranger
	lastInit []byte
}

type pgen struct {
	r     *Rng
	a     *asm
	w     *world
	h     int // tracked operand-stack height (best effort)
	depth int // nesting of generated sub-programs (initcode)
	wild  bool
}

func (g *pgen) word() *big.Int {
	r := g.r
	switch r.Intn(12) {
	case 0:
		return new(big.Int)
	case 1, 2, 3:
		return big.NewInt(int64(r.Intn(40)))
	case 4:
		return new(big.Int).Sub(pow2(256), big.NewInt(int64(1+r.Intn(3))))
	case 5:
		return pow2(255)
	case 6:
		return new(big.Int).Add(pow2(uint(r.Intn(257))%256), big.NewInt(int64(r.Intn(3)-1+1)))
	case 7:
		return g.addr()
	case 8:
		return big.NewInt(int64(r.Intn(300)))
	default:
		return new(big.Int).SetBytes(r.Bytes(1 + r.Intn(32)))
	}
}

func (g *pgen) addr() *big.Int {
	if g.r.Chance(1, 12) {
		return new(big.Int).SetBytes(g.r.Bytes(20))
	}
	return g.w.addrs[g.r.Intn(len(g.w.addrs))]
}

// memory offset: usually small, sometimes near 2^32 / 2^64 / huge
func (g *pgen) moff() *big.Int {
	r := g.r
	switch r.Intn(40) {
	case 0:
		return new(big.Int).Add(pow2(32), big.NewInt(int64(r.Intn(64)-32)))
	case 1:
		return new(big.Int).Add(pow2(64), big.NewInt(int64(r.Intn(64)-33)))
	case 2:
		return new(big.Int).Sub(pow2(256), big.NewInt(int64(1+r.Intn(40))))
	case 3:
		return big.NewInt(int64(r.Intn(70000)))
	case 4, 5:
		return big.NewInt(int64(r.Intn(2000)))
	default:
		return big.NewInt(int64(r.Intn(200)))
	}
}

func (g *pgen) msize() *big.Int {
	r := g.r
	switch r.Intn(40) {
	case 0:
		return new(big.Int).Add(pow2(32), big.NewInt(int64(r.Intn(8)-4)))
	case 1:
		return new(big.Int).Add(pow2(64), big.NewInt(int64(r.Intn(8)-5)))
	case 2:
		return new(big.Int).Sub(pow2(256), big.NewInt(int64(1+r.Intn(40))))
	case 3, 4:
		return big.NewInt(int64(r.Intn(3000)))
	case 5, 6, 7:
		return new(big.Int)
	default:
		return big.NewInt(int64(r.Intn(100)))
	}
}

func (g *pgen) key() *big.Int { return big.NewInt(int64(g.r.Intn(4))) }
func (g *pgen) sval() *big.Int {
	if g.r.Chance(2, 5) {
		return new(big.Int)
	}
	return big.NewInt(int64(1 + g.r.Intn(3)))
}

// pops the result of an expression statement most of the time
func (g *pgen) settle(pushed int) {
	for i := 0; i < pushed; i++ {
		if g.h < 12 && g.r.Chance(1, 4) {
			g.h++
		} else {
			g.a.op(0x50)
		}
	}
}

func (g *pgen) gasArg() {
	r := g.r
	switch r.Intn(8) {
	case 0:
		g.a.pushU(0)
	case 1:
		g.a.pushU(uint64(r.Intn(3000)))
	case 2:
		g.a.pushU(uint64(r.Intn(100000)))
	case 3:
		g.a.push(new(big.Int).Sub(pow2(256), big.NewInt(1)))
	default:
		g.a.op(0x5a) // GAS
	}
}

func (g *pgen) value() *big.Int {
	if g.r.Chance(3, 5) {
		return new(big.Int)
	}
	if g.r.Chance(1, 8) {
		return pow2(uint(60 + g.r.Intn(100)))
	}
	return big.NewInt(int64(g.r.Intn(50)))
}

// code that writes [blob] to memory at 0 (32-byte chunks)
func (g *pgen) storeBlob(blob []byte) {
	for off := 0; off < len(blob); off += 32 {
		chunk := make([]byte, 32)
		copy(chunk, blob[off:])
		g.a.op(0x7f)
		g.a.op(chunk...)
		g.a.pushU(uint64(off))
		g.a.op(0x52)
	}
}

// initcode: either deploys a small runtime, or is an arbitrary generated program
func (g *pgen) initcode() []byte {
	r := g.r
	sub := &pgen{r: r, a: newAsm(), w: g.w, depth: g.depth + 1, wild: g.wild}
	if g.w.lastInit != nil && r.Chance(1, 4) {
		return g.w.lastInit // same initcode again: CREATE2 address collisions
	}
	defer func() { g.w.lastInit = sub.a.bytes() }()
	if r.Chance(1, 14) { // code at / just above the size limit (24576)
		sub.a.pushU(uint64(24575 + r.Intn(3)))
		sub.a.pushU(0)
		sub.a.op(0xf3)
		return sub.a.bytes()
	}
	switch r.Intn(6) {
	case 0: // arbitrary program
		sub.program(2 + r.Intn(5))
		return sub.a.bytes()
	case 1: // empty
		return nil
	case 2: // returns code starting with 0xEF
		sub.a.pushU(0xef)
		sub.a.pushU(0)
		sub.a.op(0x53)
		sub.a.pushU(uint64(1 + r.Intn(3)))
		sub.a.pushU(0)
		sub.a.op(0xf3)
		return sub.a.bytes()
	default:
		rt := &pgen{r: r, a: newAsm(), w: g.w, depth: g.depth + 1, wild: g.wild}
		rt.program(1 + r.Intn(4))
		code := rt.a.bytes()
		if len(code) > 90 {
			code = code[:90]
		}
		if r.Chance(1, 8) {
			sub.program(1 + r.Intn(2)) // constructor side effects
			for ; sub.h > 0; sub.h-- {
				sub.a.op(0x50)
			}
		}
		sub.storeBlob(code)
		sub.a.pushU(uint64(len(code)))
		sub.a.pushU(0)
		sub.a.op(0xf3)
		return sub.a.bytes()
	}
}

var binops = []byte{0x01, 0x02, 0x03, 0x04, 0x05, 0x06, 0x07, 0x0a, 0x0b, 0x10, 0x11, 0x12, 0x13, 0x14, 0x16, 0x17, 0x18, 0x1a, 0x1b, 0x1c, 0x1d}
var env0ops = []byte{0x30, 0x32, 0x33, 0x34, 0x36, 0x38, 0x3a, 0x3d, 0x41, 0x42, 0x43, 0x44, 0x45, 0x46, 0x47, 0x48, 0x4a, 0x58, 0x59, 0x5a, 0x5f}

func (g *pgen) stmt() {
	r, a := g.r, g.a
	switch x := r.Intn(100); {
	case x < 14: // binary arithmetic / comparison / bitwise
		op := binops[r.Intn(len(binops))]
		a.push(g.word())
		if op == 0x0b || op == 0x1a || (op >= 0x1b && op <= 0x1d) { // small first operand is the interesting one
			a.pushU(uint64(r.Intn(300)))
		} else if op == 0x0a && r.Chance(1, 2) { // EXP base on top
			a.pushU(uint64(r.Intn(5)))
		} else {
			a.push(g.word())
		}
		a.op(op)
		g.settle(1)
	case x < 17: // unary
		a.push(g.word())
		a.op([]byte{0x15, 0x19, 0x1e}[r.Intn(3)])
		g.settle(1)
	case x < 20: // ternary
		a.push(g.word())
		a.push(g.word())
		a.push(g.word())
		a.op(byte(0x08 + r.Intn(2)))
		g.settle(1)
	case x < 25: // environment
		a.op(env0ops[r.Intn(len(env0ops))])
		g.settle(1)
	case x < 29: // env1 / account reads
		switch r.Intn(7) {
		case 0:
			a.push(g.moff())
			a.op(0x35)
		case 1:
			a.pushU(uint64(r.Intn(400)))
			a.op(0x40)
		case 2:
			a.pushU(uint64(r.Intn(4)))
			a.op(0x49)
		case 3:
			a.push(g.key())
			a.op(0x5c)
		case 4:
			a.push(g.addr())
			a.op(0x31)
		case 5:
			a.push(g.addr())
			a.op(0x3b)
		default:
			a.push(g.addr())
			a.op(0x3f)
		}
		g.settle(1)
	case x < 37: // memory
		switch r.Intn(6) {
		case 0:
			a.push(g.moff())
			a.op(0x51)
			g.settle(1)
		case 1, 2:
			a.push(g.word())
			a.push(g.moff())
			a.op(0x52)
		case 3:
			a.push(g.word())
			a.push(g.moff())
			a.op(0x53)
		case 4:
			a.push(g.msize())
			a.push(g.moff())
			a.push(g.moff())
			a.op(0x5e)
		default:
			a.push(g.msize())
			a.push(g.moff())
			a.op(0x20)
			g.settle(1)
		}
	case x < 42: // copies
		switch r.Intn(4) {
		case 0, 1, 2:
			a.push(g.msize())
			a.push(g.moff())
			a.push(g.moff())
			a.op([]byte{0x37, 0x39, 0x37, 0x39, 0x3e}[r.Intn(5)])
		default:
			a.push(g.msize())
			a.push(g.moff())
			a.push(g.moff())
			a.push(g.addr())
			a.op(0x3c)
		}
	case x < 50: // storage
		switch r.Intn(5) {
		case 0, 1:
			a.push(g.sval())
			a.push(g.key())
			a.op(0x55)
		case 2:
			a.push(g.key())
			a.op(0x54)
			g.settle(1)
		case 3:
			a.push(g.sval())
			a.push(g.key())
			a.op(0x5d)
		default:
			a.push(g.key())
			a.op(0x5c)
			g.settle(1)
		}
	case x < 54: // log
		n := r.Intn(5)
		for i := 0; i < n; i++ {
			a.push(g.word())
		}
		a.push(g.msize())
		a.push(g.moff())
		a.op(byte(0xa0 + n))
	case x < 58: // dup / swap
		n := 1 + r.Intn(16)
		if g.h >= n || g.wild || r.Chance(1, 30) {
			if r.Bool() {
				a.op(byte(0x80 + n - 1))
				if g.h >= n {
					g.h++
					g.settle(1)
					g.h--
				}
			} else if g.h >= n+1 || g.wild || r.Chance(1, 30) {
				a.op(byte(0x90 + n - 1))
			}
		}
	case x < 64: // if / else
		if g.depth > 3 {
			return
		}
		lElse, lEnd := a.newLabel(), a.newLabel()
		a.push(g.word())
		if r.Bool() {
			a.op(0x15)
		}
		a.pushLabel(lElse)
		a.op(0x57)
		h0 := g.h
		g.depth++
		g.block(1 + r.Intn(3))
		g.fixHeight(h0)
		a.pushLabel(lEnd)
		a.op(0x56)
		a.label(lElse)
		g.block(r.Intn(3))
		g.fixHeight(h0)
		g.depth--
		a.label(lEnd)
	case x < 68: // counted loop
		if g.depth > 2 {
			return
		}
		n := 1 + r.Intn(5)
		if r.Chance(1, 12) {
			n = 20 + r.Intn(200)
		}
		lTop := a.newLabel()
		a.pushU(uint64(n))
		g.h++
		a.label(lTop)
		h0 := g.h
		g.depth += 2
		g.block(1 + r.Intn(3))
		g.fixHeight(h0)
		g.depth -= 2
		a.pushU(1)
		a.op(0x90, 0x03) // SWAP1 SUB: counter-1
		a.op(0x80)       // DUP1
		a.pushLabel(lTop)
		a.op(0x57)
		a.op(0x50)
		g.h--
	case x < 80: // call family
		kind := []byte{0xf1, 0xf1, 0xf2, 0xf4, 0xfa}[r.Intn(5)]
		if r.Chance(1, 3) { // calldata for the callee
			a.push(g.word())
			a.pushU(0)
			a.op(0x52)
		}
		a.push(g.msize()) // retSize
		a.push(g.moff())  // retOffset
		a.push(g.msize()) // inSize
		a.push(g.moff())  // inOffset
		if kind == 0xf1 || kind == 0xf2 {
			a.push(g.value())
		}
		if r.Chance(1, 10) {
			a.op(0x30) // self
		} else {
			a.push(g.addr())
		}
		g.gasArg()
		a.op(kind)
		g.settle(1)
		if r.Chance(1, 3) {
			a.op(0x3d)
			g.settle(1)
		}
		if r.Chance(1, 4) {
			a.pushU(uint64(r.Intn(34)))
			a.pushU(uint64(r.Intn(3)))
			a.push(g.moff())
			a.op(0x3e)
		}
	case x < 86: // create / create2
		if g.depth > 1 {
			return
		}
		init := g.initcode()
		g.storeBlob(init)
		ln := uint64(len(init))
		if r.Chance(1, 12) {
			ln = uint64(r.Intn(60000))
		}
		if r.Bool() {
			a.pushU(ln)
			a.pushU(0)
			a.push(g.value())
			a.op(0xf0)
		} else {
			a.pushU(uint64(r.Intn(3)))
			a.pushU(ln)
			a.pushU(0)
			a.push(g.value())
			a.op(0xf5)
		}
		if r.Chance(1, 2) { // call what was created
			a.op(0x80)
			a.pushU(0)
			a.pushU(0)
			a.pushU(0)
			a.pushU(0)
			a.pushU(0)
			a.op(0x85) // DUP6: the address
			a.op(0x5a, 0xf1)
			a.op(0x50)
		}
		g.settle(1)
	case x < 88: // pc-relative oddities, jumpdest, raw push widths
		switch r.Intn(3) {
		case 0:
			a.op(0x5b)
		case 1:
			n := 1 + r.Intn(32)
			a.op(byte(0x5f + n))
			a.op(r.Bytes(n)...)
			g.settle(1)
		default:
			a.push(g.word())
			a.op(0x56) // wild jump
		}
	case x < 93: // terminators
		if g.depth == 0 && !r.Chance(1, 4) {
			return
		}
		switch r.Intn(7) {
		case 0, 1:
			a.push(g.msize())
			a.push(g.moff())
			a.op(0xf3)
		case 2, 3:
			a.push(g.msize())
			a.push(g.moff())
			a.op(0xfd)
		case 4:
			a.op(0x00)
		case 5:
			a.op(0xfe)
		default:
			a.push(g.addr())
			a.op(0xff)
		}
	case x < 95: // raw bytes
		if g.wild || r.Chance(1, 3) {
			a.op(r.Bytes(1 + r.Intn(4))...)
		}
	default:
		a.push(g.word())
		g.settle(1)
	}
}

func (g *pgen) fixHeight(h0 int) {
	for g.h > h0 {
		g.a.op(0x50)
		g.h--
	}
	for g.h < h0 {
		g.a.pushU(0)
		g.h++
	}
}

func (g *pgen) block(n int) {
	for i := 0; i < n; i++ {
		g.stmt()
	}
}

func (g *pgen) program(n int) {
	g.block(n)
	if g.r.Chance(1, 2) {
		g.a.push(g.msize())
		g.a.push(g.moff())
		g.a.op([]byte{0xf3, 0xf3, 0xfd}[g.r.Intn(3)])
	}
}
