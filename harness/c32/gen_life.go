package main

import (
	"math/big"

	. "gethverif/harness/hxlib"
	"github.com/ethereum/go-ethereum/common"
	"github.com/ethereum/go-ethereum/crypto"
)

// ---------------------------------------------------------------------------
// contract life cycles across transactions and blocks (EIP-6780 and its neighbours):
// a contract is created in transaction A -- by an EOA or by a factory contract, constructor with
// or without an SSTORE, with or without endowment -- and executes SELFDESTRUCT (naming itself,
// an existing account or a fresh account) in its constructor, later in transaction A, in a
// later transaction B of the same block, or in the next block; afterwards it is called again
// with value.

type lifeSpec struct {
	ctorSstore bool
	endow      uint64
	ben        int  // 0 itself, 1 an existing account, 2 a fresh account
	when       int  // 0 in the constructor, 1 later in tx A (factory calls it), 2 tx B same block, 3 next block
	factory    bool // created by a contract instead of an EOA (forced for when == 1)
	again      int  // 0 nothing, 1 called again with value in the same block as the destruct, 2 in a further block
}

func benAddr(ben int) *big.Int {
	switch ben {
	case 1:
		return big.NewInt(0x2222)
	case 2:
		return big.NewInt(0x7007)
	}
	return nil
}

// runtime: SELFDESTRUCT to ben (nil = ADDRESS)
func sdRuntime(ben *big.Int) []byte {
	a := newAsm()
	if ben == nil {
		a.op(0x30)
	} else {
		a.push(ben)
	}
	a.op(0xff)
	return a.bytes()
}

// constructor: [SSTORE(1,1)] then either self-destruct at once or deploy the runtime
func lifeInit(sp lifeSpec) []byte {
	a := newAsm()
	if sp.ctorSstore {
		a.pushU(1)
		a.pushU(1)
		a.op(0x55)
	}
	if sp.when == 0 {
		a.op(sdRuntime(benAddr(sp.ben))...)
		return a.bytes()
	}
	rt := sdRuntime(benAddr(sp.ben))
	chunk := make([]byte, 32)
	copy(chunk, rt)
	a.op(0x7f)
	a.op(chunk...)
	a.pushU(0)
	a.op(0x52)
	a.pushU(uint64(len(rt)))
	a.pushU(0)
	a.op(0xf3)
	return a.bytes()
}

// factory: CREATE(endow, init) and, if callNow, CALL the new contract in the same transaction
func factoryCode(init []byte, endow uint64, callNow bool) []byte {
	a := newAsm()
	for off := 0; off < len(init); off += 32 {
		chunk := make([]byte, 32)
		copy(chunk, init[off:])
		a.op(0x7f)
		a.op(chunk...)
		a.pushU(uint64(off))
		a.op(0x52)
	}
	a.pushU(uint64(len(init)))
	a.pushU(0)
	a.pushU(endow)
	a.op(0xf0)
	if callNow {
		a.pushU(0)
		a.pushU(0)
		a.pushU(0)
		a.pushU(0)
		a.pushU(0)
		a.op(0x85) // DUP6: the new address
		a.op(0x5a, 0xf1, 0x50)
	}
	a.op(0x50, 0x00)
	return a.bytes()
}

func buildLife(r *Rng, sp lifeSpec) bcase {
	var t bcase
	coinbase := big.NewInt(0xcb01)
	basefee := big.NewInt(int64(r.Intn(500)))
	t.fork = []int{0, 0, 1, 2}[r.Intn(4)]
	t.env = []*big.Int{coinbase, big.NewInt(int64(1000 + r.Intn(1000))), big.NewInt(int64(1 + r.Intn(600))),
		new(big.Int).SetBytes(r.Bytes(32)), big.NewInt(30000000), big.NewInt(1), basefee, big.NewInt(int64(1 + r.Intn(50)))}
	eoa1, eoa2 := big.NewInt(0xee01), big.NewInt(0xee02)
	t.pre = append(t.pre, acct{addr: eoa1, balance: pow2(70), nonce: uint64(r.Intn(3))},
		acct{addr: eoa2, balance: pow2(70), nonce: 0},
		acct{addr: big.NewInt(0x2222), balance: big.NewInt(int64(r.Intn(5))), nonce: 1})
	if sp.when == 1 {
		sp.factory = true
	}
	init := lifeInit(sp)
	fee := new(big.Int).Add(basefee, big.NewInt(int64(1+r.Intn(50))))
	mk := func(from *big.Int, nonce uint64, to *big.Int, value uint64, data []byte) txn {
		return txn{typ: 2, from: from, nonce: nonce, gas: 400000, feecap: fee, tipcap: big.NewInt(int64(r.Intn(20))),
			to: to, value: big64(value), data: data, blobfeecap: new(big.Int)}
	}
	n1 := t.pre[0].nonce
	var created *big.Int
	if sp.factory {
		fa := big.NewInt(0x1800)
		t.pre = append(t.pre, acct{addr: fa, balance: big64(sp.endow + 7), nonce: 1, code: factoryCode(init, sp.endow, sp.when == 1)})
		created = new(big.Int).SetBytes(crypto.CreateAddress(common.BigToAddress(fa), 1).Bytes())
		t.txs = append(t.txs, mk(eoa1, n1, fa, 0, nil))
	} else {
		created = new(big.Int).SetBytes(crypto.CreateAddress(common.BigToAddress(eoa1), n1).Bytes())
		t.txs = append(t.txs, mk(eoa1, n1, nil, sp.endow, init))
	}
	n1++
	t.split = 1 << 20
	if sp.when >= 2 {
		// the destructing call, with some value on top
		t.txs = append(t.txs, mk(eoa2, 0, created, uint64(r.Intn(3)), nil))
		if sp.when == 3 {
			t.split = 1
		}
	}
	switch sp.again {
	case 1:
		t.txs = append(t.txs, mk(eoa1, n1, created, uint64(1+r.Intn(9)), nil))
	case 2:
		if t.split > len(t.txs) {
			t.split = len(t.txs)
		}
		t.txs = append(t.txs, mk(eoa1, n1, created, uint64(1+r.Intn(9)), nil))
	}
	if r.Chance(1, 3) {
		t.ws = append(t.ws, [2]*big.Int{created, big.NewInt(int64(1 + r.Intn(9)))})
	}
	return t
}

func systematicLives(r *Rng, emit func(bcase)) {
	for _, ss := range []bool{false, true} {
		for _, endow := range []uint64{0, 5000} {
			for ben := 0; ben < 3; ben++ {
				for when := 0; when < 4; when++ {
					for _, fac := range []bool{false, true} {
						if fac && when == 0 || !fac && when == 1 {
							continue
						}
						sp := lifeSpec{ctorSstore: ss, endow: endow, ben: ben, when: when, factory: fac, again: (ben + when) % 3}
						emit(buildLife(r, sp))
					}
				}
			}
		}
	}
}

func randomLife(r *Rng) lifeSpec {
	return lifeSpec{ctorSstore: r.Bool(), endow: []uint64{0, 0, 1, 5000}[r.Intn(4)], ben: r.Intn(3), when: r.Intn(4),
		factory: r.Bool(), again: r.Intn(3)}
}
