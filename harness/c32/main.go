// Family c32: ether is conserved by block execution.
//
// Implementation side: core.ApplyTransactionWithEVM (= core.ApplyMessage + Finalise, the
// per-transaction step of the state processor: buyGas, execution, refund, fee payment) on a
// hooked StateDB, followed by the withdrawals of consensus/beacon.Finalize, under every rule set
// Frontier .. Bogota.  Compared with the transaction / block level of the execution specification
// (coq/EVM/Tx.v, Block.v) and the accounting definitions of coq/EVM/Ether.v under Cancun / Prague /
// Osaka; for all rule sets a model-independent oracle checks the balance-sum equation and the
// per-transaction fee flows (for rule sets beyond the model the oracle alone decides).
package main

import (
	"errors"
	"fmt"
	"math/big"
	"sort"
	"strings"
	"time"

	. "gethverif/harness/hxlib"
	"github.com/ethereum/go-ethereum/common"
	"github.com/ethereum/go-ethereum/consensus/beacon"
	"github.com/ethereum/go-ethereum/consensus/ethash"
	"github.com/ethereum/go-ethereum/core"
	"github.com/ethereum/go-ethereum/core/state"
	"github.com/ethereum/go-ethereum/core/tracing"
	"github.com/ethereum/go-ethereum/core/types"
	"github.com/ethereum/go-ethereum/core/types/bal"
	"github.com/ethereum/go-ethereum/core/vm"
	"github.com/ethereum/go-ethereum/crypto"
	"github.com/ethereum/go-ethereum/params"
	"github.com/holiman/uint256"
)

// ---------------------------------------------------------------------------
// rule sets

var forkNames = []string{"Frontier", "Homestead", "TangerineWhistle", "SpuriousDragon", "Byzantium",
	"Constantinople", "Petersburg", "Istanbul", "Berlin", "London", "Shanghai", "Cancun", "Prague",
	"Osaka", "Amsterdam", "Bogota"}

const (
	lvBerlin    = 8
	lvLondon    = 9
	lvShanghai  = 10
	lvCancun    = 11
	lvPrague    = 12
	lvOsaka     = 13
	lvAmsterdam = 14
)

// chainConfig activates the first level+1 forks at genesis (London comes with the merge).
func chainConfig(level int) *params.ChainConfig {
	z := func() *big.Int { return new(big.Int) }
	t := func() *uint64 { v := uint64(0); return &v }
	c := &params.ChainConfig{ChainID: big.NewInt(1)}
	if level >= 1 {
		c.HomesteadBlock = z()
	}
	if level >= 2 {
		c.EIP150Block = z()
	}
	if level >= 3 {
		c.EIP155Block, c.EIP158Block = z(), z()
	}
	if level >= 4 {
		c.ByzantiumBlock = z()
	}
	if level >= 5 {
		c.ConstantinopleBlock = z()
		if level == 5 {
			c.PetersburgBlock = big.NewInt(1 << 40)
		}
	}
	if level >= 6 {
		c.PetersburgBlock = z()
	}
	if level >= 7 {
		c.IstanbulBlock, c.MuirGlacierBlock = z(), z()
	}
	if level >= 8 {
		c.BerlinBlock = z()
	}
	if level >= 9 {
		c.LondonBlock = z()
		c.TerminalTotalDifficulty = z()
	}
	if level >= 10 {
		c.ShanghaiTime = t()
	}
	if level >= 11 {
		c.CancunTime = t()
		c.BlobScheduleConfig = &params.BlobScheduleConfig{Cancun: params.DefaultCancunBlobConfig, Prague: params.DefaultPragueBlobConfig}
	}
	if level >= 12 {
		c.PragueTime = t()
	}
	if level >= 13 {
		c.OsakaTime = t()
	}
	if level >= 14 {
		c.AmsterdamTime = t()
	}
	if level >= 15 {
		c.BogotaTime = t()
	}
	return c
}

// ---------------------------------------------------------------------------
// case

type acct struct {
	addr    *big.Int
	balance *big.Int
	nonce   uint64
	code    []byte
	slots   [][2]*big.Int
}

type access struct {
	addr *big.Int
	keys []*big.Int
}

type txn struct {
	typ        int
	from       *big.Int
	nonce      uint64
	gas        uint64
	feecap     *big.Int
	tipcap     *big.Int
	to         *big.Int // nil = creation
	value      *big.Int
	data       []byte
	al         []access
	blobfeecap *big.Int
	hashes     []*big.Int
}

type bcase struct {
	fork int
	env  []*big.Int // coinbase timestamp number prevrandao gaslimit chainid basefee blobbasefee
	ws   [][2]*big.Int
	pre  []acct
	txs  []txn
	// the first [split] transactions form a first block (no withdrawals), the state is committed
	// and reopened, the rest and the withdrawals form a second block; split >= len(txs): one block
	split int
}

func bi(s Sx) *big.Int { return AsBig(s) }

func parseCase(c Sx) bcase {
	l := AsList(c)
	var t bcase
	t.fork = int(AsInt(l[0]))
	for _, e := range AsList(l[1]) {
		t.env = append(t.env, bi(e))
	}
	if len(t.env) != 8 {
		panic("hxlib: env needs 8 fields")
	}
	for _, w := range AsList(l[2]) {
		wl := AsList(w)
		t.ws = append(t.ws, [2]*big.Int{bi(wl[0]), bi(wl[1])})
	}
	for _, a := range AsList(l[3]) {
		al := AsList(a)
		x := acct{addr: bi(al[0]), balance: bi(al[1]), nonce: bi(al[2]).Uint64(), code: AsBytes(al[3])}
		for _, s := range AsList(al[4]) {
			sl := AsList(s)
			x.slots = append(x.slots, [2]*big.Int{bi(sl[0]), bi(sl[1])})
		}
		t.pre = append(t.pre, x)
	}
	for _, x := range AsList(l[4]) {
		xl := AsList(x)
		tx := txn{typ: int(AsInt(xl[0])), from: bi(xl[1]), nonce: bi(xl[2]).Uint64(), gas: bi(xl[3]).Uint64(),
			feecap: bi(xl[4]), tipcap: bi(xl[5]), value: bi(xl[7]), data: AsBytes(xl[8]), blobfeecap: bi(xl[10])}
		if tl := AsList(xl[6]); len(tl) == 1 {
			tx.to = bi(tl[0])
		}
		for _, a := range AsList(xl[9]) {
			al := AsList(a)
			ac := access{addr: bi(al[0])}
			for _, k := range AsList(al[1]) {
				ac.keys = append(ac.keys, bi(k))
			}
			tx.al = append(tx.al, ac)
		}
		for _, h := range AsList(xl[11]) {
			tx.hashes = append(tx.hashes, bi(h))
		}
		if tx.gas > 1<<32 {
			panic("hxlib: gas limit outside the generated range")
		}
		t.txs = append(t.txs, tx)
	}
	if t.env[4].BitLen() > 40 {
		panic("hxlib: block gas limit outside the generated range")
	}
	t.split = 1 << 20
	if len(l) > 5 {
		t.split = int(AsInt(l[5]))
	}
	return t
}

func (t bcase) sx() Sx {
	var ev, ws, pre, txs SL
	for _, e := range t.env {
		ev = append(ev, Big(e))
	}
	for _, w := range t.ws {
		ws = append(ws, L(Big(w[0]), Big(w[1])))
	}
	for _, a := range t.pre {
		var sl SL
		for _, s := range a.slots {
			sl = append(sl, L(Big(s[0]), Big(s[1])))
		}
		pre = append(pre, L(Big(a.addr), Big(a.balance), U(a.nonce), B(a.code), sl))
	}
	for _, x := range t.txs {
		to := SL{}
		if x.to != nil {
			to = SL{Big(x.to)}
		}
		var al, hs SL
		for _, a := range x.al {
			var ks SL
			for _, k := range a.keys {
				ks = append(ks, Big(k))
			}
			al = append(al, L(Big(a.addr), ks))
		}
		for _, h := range x.hashes {
			hs = append(hs, Big(h))
		}
		txs = append(txs, L(I(int64(x.typ)), Big(x.from), U(x.nonce), U(x.gas), Big(x.feecap), Big(x.tipcap), to,
			Big(x.value), B(x.data), al, Big(x.blobfeecap), hs))
	}
	if t.split < len(t.txs) {
		return L(I(int64(t.fork)), ev, ws, pre, txs, I(int64(t.split)))
	}
	return L(I(int64(t.fork)), ev, ws, pre, txs)
}

func addrOf(b *big.Int) common.Address  { return common.BigToAddress(b) }
func addrBig(a common.Address) *big.Int { return new(big.Int).SetBytes(a.Bytes()) }

// ---------------------------------------------------------------------------

func vmErrClass(err error) int64 {
	var su *vm.ErrStackUnderflow
	var so *vm.ErrStackOverflow
	var io *vm.ErrInvalidOpCode
	switch {
	case err == nil:
		return 0
	case errors.Is(err, vm.ErrExecutionReverted):
		return 1
	case errors.Is(err, vm.ErrOutOfGas), errors.Is(err, vm.ErrGasUintOverflow):
		return 2
	case errors.As(err, &su):
		return 3
	case errors.As(err, &so):
		return 4
	case errors.Is(err, vm.ErrInvalidJump):
		return 5
	case errors.As(err, &io):
		return 6
	case errors.Is(err, vm.ErrWriteProtection):
		return 7
	case errors.Is(err, vm.ErrReturnDataOutOfBounds):
		return 8
	case errors.Is(err, vm.ErrDepth):
		return 9
	case errors.Is(err, vm.ErrInsufficientBalance):
		return 10
	case errors.Is(err, vm.ErrContractAddressCollision):
		return 11
	case errors.Is(err, vm.ErrMaxCodeSizeExceeded):
		return 12
	case errors.Is(err, vm.ErrInvalidCode):
		return 13
	case errors.Is(err, vm.ErrCodeStoreOutOfGas):
		return 14
	case errors.Is(err, vm.ErrNonceUintOverflow):
		return 15
	}
	return 16
}

func txErrClass(err error) int64 {
	switch {
	case errors.Is(err, core.ErrNonceTooHigh):
		return 1
	case errors.Is(err, core.ErrNonceTooLow):
		return 2
	case errors.Is(err, core.ErrTipAboveFeeCap):
		return 6
	case errors.Is(err, core.ErrFeeCapTooLow):
		return 7
	case errors.Is(err, core.ErrGasLimitReached):
		return 14
	case errors.Is(err, core.ErrInsufficientFundsForTransfer):
		return 18
	case errors.Is(err, core.ErrInsufficientFunds):
		return 15
	case errors.Is(err, core.ErrIntrinsicGas):
		return 16
	case errors.Is(err, core.ErrFloorDataGas):
		return 17
	}
	return 99
}

var backing = state.NewDatabaseForTesting()

func buildState(t bcase) *state.StateDB {
	st, err := state.New(types.EmptyRootHash, backing)
	if err != nil {
		panic("hxlib: state.New: " + err.Error())
	}
	for _, a := range t.pre {
		ad := addrOf(a.addr)
		st.CreateAccount(ad)
		st.SetNonce(ad, a.nonce, tracing.NonceChangeUnspecified)
		st.SetBalance(ad, uint256.MustFromBig(a.balance), tracing.BalanceChangeUnspecified)
		if len(a.code) > 0 {
			st.SetCode(ad, a.code, tracing.CodeChangeUnspecified)
		}
		for _, s := range a.slots {
			st.SetState(ad, common.BigToHash(s[0]), common.BigToHash(s[1]))
		}
	}
	root, err := st.Commit(params.Rules{}, 0)
	if err != nil {
		panic("hxlib: commit: " + err.Error())
	}
	st2, err := state.New(root, backing)
	if err != nil {
		panic("hxlib: reopen: " + err.Error())
	}
	return st2
}

type fakeChain struct{ cfg *params.ChainConfig }

func (f fakeChain) Config() *params.ChainConfig                 { return f.cfg }
func (f fakeChain) CurrentHeader() *types.Header                { return nil }
func (f fakeChain) GetHeader(common.Hash, uint64) *types.Header { return nil }
func (f fakeChain) GetHeaderByNumber(uint64) *types.Header      { return nil }
func (f fakeChain) GetHeaderByHash(common.Hash) *types.Header   { return nil }

type txOut struct {
	included bool
	class    int64 // rejection class / status class
	gasUsed  uint64
}

type runOut struct {
	txs          []txOut
	totalPre     *big.Int
	totalPost    *big.Int
	minted       *big.Int
	burnt        *big.Int
	destroyed    *big.Int
	accounts     SL
	viol         []string
	steps        int
	overrun      bool
	panicked     string
	nSelfd       int
	nCreate      int
	nValue       int
	nFailedTx    int
	twoBlocks    bool
	destroyedTxs int
	sdOld, sdNew int // transactions in which an older / a just created contract executed SELFDESTRUCT
}

const stepBudget = 3000000

type budgetExceeded struct{}

func mulU(a uint64, b *big.Int) *big.Int { return new(big.Int).Mul(new(big.Int).SetUint64(a), b) }

// execute runs the block under rule set [level]
func execute(t bcase, level int) (out runOut) {
	cfg := chainConfig(level)
	st := buildState(t)
	cand := map[common.Address]bool{addrOf(t.env[0]): true}
	for _, a := range t.pre {
		cand[addrOf(a.addr)] = true
	}
	bad := func(s string) {
		if len(out.viol) < 3 {
			out.viol = append(out.viol, s)
		}
	}
	// per-transaction accumulators fed by the hooks
	byReason := map[tracing.BalanceChangeReason]*big.Int{}
	selfd := 0
	hooks := &tracing.Hooks{
		OnBalanceChange: func(a common.Address, prev, new_ *big.Int, reason tracing.BalanceChangeReason) {
			cand[a] = true
			if byReason[reason] == nil {
				byReason[reason] = new(big.Int)
			}
			byReason[reason].Add(byReason[reason], new(big.Int).Sub(new_, prev))
		},
		OnEnter: func(depth int, typ byte, from, to common.Address, input []byte, gas uint64, value *big.Int) {
			cand[from], cand[to] = true, true
			switch vm.OpCode(typ) {
			case vm.SELFDESTRUCT:
				selfd++
				out.nSelfd++
			case vm.CREATE, vm.CREATE2:
				out.nCreate++
			}
			if value != nil && value.Sign() > 0 && depth > 0 {
				out.nValue++
			}
		},
		OnOpcode: func(pc uint64, op byte, gas, cost uint64, scope tracing.OpContext, rData []byte, depth int, err error) {
			out.steps++
			if out.steps > stepBudget {
				panic(budgetExceeded{})
			}
		},
	}
	sum := func() *big.Int {
		s := new(big.Int)
		for a := range cand {
			s.Add(s, st.GetBalance(a).ToBig())
		}
		return s
	}
	defer func() {
		if e := recover(); e != nil {
			if _, ok := e.(budgetExceeded); ok {
				out.overrun = true
				return
			}
			out.panicked = fmt.Sprint(e)
		}
	}()

	number := new(big.Int).Set(t.env[2])
	rnd := common.BigToHash(t.env[3])
	header := &types.Header{Number: number, Time: t.env[1].Uint64(), GasLimit: t.env[4].Uint64(),
		Coinbase: addrOf(t.env[0]), Difficulty: new(big.Int)}
	bctx := vm.BlockContext{
		CanTransfer: core.CanTransfer,
		Transfer:    core.Transfer,
		GetHash: func(n uint64) common.Hash {
			return crypto.Keccak256Hash(common.BigToHash(new(big.Int).SetUint64(n)).Bytes())
		},
		Coinbase:    addrOf(t.env[0]),
		BlockNumber: number,
		Time:        t.env[1].Uint64(),
		Difficulty:  new(big.Int),
		GasLimit:    t.env[4].Uint64(),
	}
	baseFee := new(big.Int)
	if level >= lvLondon {
		baseFee = new(big.Int).Set(t.env[6])
		bctx.BaseFee = baseFee
		bctx.Random = &rnd
		header.BaseFee = baseFee
	} else {
		bctx.Difficulty = big.NewInt(1)
		header.Difficulty = big.NewInt(1)
	}
	if level >= lvCancun {
		bctx.BlobBaseFee = new(big.Int).Set(t.env[7])
	}
	hooked := state.NewHookedState(st, hooks)
	evm := vm.NewEVM(bctx, hooked, cfg, vm.Config{Tracer: hooks})
	defer func() { evm.Release() }()
	rules := evm.GetRules()
	gp := core.NewGasPool(t.env[4].Uint64())
	blockHash := common.Hash{0xb1}
	// per-transaction bookkeeping for the EIP-6780 oracle
	createdTx := map[common.Address]bool{}
	sdByCreated, sdByOld := 0, 0
	hooks.OnEnter = func(depth int, typ byte, from, to common.Address, input []byte, gas uint64, value *big.Int) {
		cand[from], cand[to] = true, true
		switch vm.OpCode(typ) {
		case vm.SELFDESTRUCT:
			selfd++
			out.nSelfd++
			if createdTx[from] {
				sdByCreated++
			} else {
				sdByOld++
			}
		case vm.CREATE, vm.CREATE2:
			out.nCreate++
			createdTx[to] = true
		}
		if value != nil && value.Sign() > 0 && depth > 0 {
			out.nValue++
		}
	}

	out.totalPre = sum()
	out.burnt, out.destroyed = new(big.Int), new(big.Int)
	running := new(big.Int).Set(out.totalPre)
	for i, x := range t.txs {
		if i == t.split && i > 0 {
			// block boundary: finalise, commit, reopen the state from the database, new EVM, new gas pool
			st.Finalise(rules)
			root, err := st.Commit(rules, number.Uint64())
			if err != nil {
				bad("commit at the block boundary: " + err.Error())
				break
			}
			if st, err = state.New(root, backing); err != nil {
				bad("reopen at the block boundary: " + err.Error())
				break
			}
			evm.Release()
			hooked = state.NewHookedState(st, hooks)
			evm = vm.NewEVM(bctx, hooked, cfg, vm.Config{Tracer: hooks})
			gp = core.NewGasPool(t.env[4].Uint64())
			if s2 := sum(); s2.Cmp(running) != 0 {
				bad(fmt.Sprintf("commit / reopen at the block boundary moved the balance sum from %v to %v", running, s2))
			}
			out.twoBlocks = true
		}
		// the message of this transaction under this rule set
		price := new(big.Int).Set(x.feecap)
		if level >= lvLondon {
			if p := new(big.Int).Add(baseFee, x.tipcap); p.Cmp(price) < 0 {
				price = p
			}
		}
		msg := &core.Message{From: addrOf(x.from), Nonce: x.nonce, Value: uint256.MustFromBig(x.value), GasLimit: x.gas,
			GasPrice: uint256.MustFromBig(price), GasFeeCap: uint256.MustFromBig(x.feecap), GasTipCap: uint256.MustFromBig(x.tipcap),
			Data: x.data}
		var to *common.Address
		if x.to != nil {
			a := addrOf(x.to)
			to = &a
			msg.To = to
		}
		var al types.AccessList
		if level >= lvBerlin {
			for _, a := range x.al {
				tup := types.AccessTuple{Address: addrOf(a.addr)}
				for _, k := range a.keys {
					tup.StorageKeys = append(tup.StorageKeys, common.BigToHash(k))
				}
				al = append(al, tup)
			}
			if x.typ >= 1 && al == nil {
				al = types.AccessList{}
			}
			msg.AccessList = al
		}
		blobFee := new(big.Int)
		if level >= lvCancun && len(x.hashes) > 0 && x.typ == 3 {
			for _, h := range x.hashes {
				msg.BlobHashes = append(msg.BlobHashes, common.BigToHash(h))
			}
			msg.BlobGasFeeCap = uint256.MustFromBig(x.blobfeecap)
			blobFee = mulU(uint64(len(x.hashes))*params.BlobTxBlobGasPerBlob, t.env[7])
		}
		var tx *types.Transaction
		if x.typ >= 2 && level >= lvLondon {
			tx = types.NewTx(&types.DynamicFeeTx{ChainID: big.NewInt(1), Nonce: x.nonce, GasTipCap: x.tipcap, GasFeeCap: x.feecap,
				Gas: x.gas, To: to, Value: x.value, Data: x.data, AccessList: al})
		} else {
			tx = types.NewTx(&types.LegacyTx{Nonce: x.nonce, GasPrice: x.feecap, Gas: x.gas, To: to, Value: x.value, Data: x.data})
		}
		for k := range byReason {
			delete(byReason, k)
		}
		selfd, sdByCreated, sdByOld = 0, 0, 0
		for k := range createdTx {
			delete(createdTx, k)
		}
		codeBefore := map[common.Address]common.Hash{}
		if level >= lvCancun {
			for a := range cand {
				if h := st.GetCodeHash(a); h != (common.Hash{}) && h != types.EmptyCodeHash {
					codeBefore[a] = h
				}
			}
		}
		st.SetTxContext(tx.Hash(), i, uint32(i+1))
		snap := st.Snapshot()
		gpCopy := gp.Snapshot()
		receipt, _, err := core.ApplyTransactionWithEVM(msg, gp, st, number, blockHash, bctx.Time, tx, evm)
		if err != nil {
			st.RevertToSnapshot(snap)
			gp.Set(gpCopy)
			out.txs = append(out.txs, txOut{false, txErrClass(err), 0})
			if s := sum(); s.Cmp(running) != 0 {
				bad(fmt.Sprintf("tx %d rejected (%v) but the balance sum moved from %v to %v", i, err, running, s))
			}
			continue
		}
		used := receipt.GasUsed
		statusClass := int64(0)
		if receipt.Status != types.ReceiptStatusSuccessful {
			out.nFailedTx++
			statusClass = -1 // the class is taken from the execution result below
		}
		out.txs = append(out.txs, txOut{true, statusClass, used})
		// --- the oracle for this transaction
		get := func(r tracing.BalanceChangeReason) *big.Int {
			if v := byReason[r]; v != nil {
				return v
			}
			return new(big.Int)
		}
		tip := new(big.Int).Set(price)
		burn := new(big.Int)
		if level >= lvLondon {
			tip.Sub(price, baseFee)
			burn = mulU(used, baseFee)
		}
		burn.Add(burn, blobFee)
		if used > x.gas {
			bad(fmt.Sprintf("tx %d used %d gas of %d", i, used, x.gas))
		}
		wantBuy := new(big.Int).Neg(new(big.Int).Add(mulU(x.gas, price), blobFee))
		if g := get(tracing.BalanceDecreaseGasBuy); g.Cmp(wantBuy) != 0 {
			bad(fmt.Sprintf("tx %d: sender paid %v up front, want %v (gas %d * price %v + blob fee %v)", i, g, wantBuy, x.gas, price, blobFee))
		}
		if used <= x.gas {
			wantRet := mulU(x.gas-used, price)
			if g := get(tracing.BalanceIncreaseGasReturn); g.Cmp(wantRet) != 0 {
				bad(fmt.Sprintf("tx %d: sender got %v back for unused gas, want %v", i, g, wantRet))
			}
		}
		wantTip := mulU(used, tip)
		if g := get(tracing.BalanceIncreaseRewardTransactionFee); g.Cmp(wantTip) != 0 {
			bad(fmt.Sprintf("tx %d: coinbase received %v, want gas used %d * tip %v = %v", i, g, used, tip, wantTip))
		}
		after := sum()
		d := new(big.Int).Sub(running, after)
		d.Sub(d, burn)
		if d.Sign() < 0 {
			bad(fmt.Sprintf("tx %d created %v wei: balance sum %v -> %v with %v burnt as fees", i, new(big.Int).Neg(d), running, after, burn))
		} else if d.Sign() > 0 && selfd == 0 {
			bad(fmt.Sprintf("tx %d lost %v wei without any SELFDESTRUCT: balance sum %v -> %v with %v burnt as fees", i, d, running, after, burn))
		}
		// EIP-6780 (Cancun+): only a contract created in this very transaction can be removed or
		// can burn ether by SELFDESTRUCT; every account that had code when the transaction started
		// still has that code afterwards
		if level >= lvCancun {
			for a, h := range codeBefore {
				if h2 := st.GetCodeHash(a); h2 != h {
					bad(fmt.Sprintf("tx %d: account %s had code before the transaction and lost / changed it (%x -> %x) although it was not created in this transaction", i, a.Hex(), h[:4], h2[:4]))
				}
			}
			if d.Sign() > 0 && sdByCreated == 0 {
				bad(fmt.Sprintf("tx %d lost %v wei but no contract created in this transaction executed SELFDESTRUCT (%d by older contracts)", i, d, sdByOld))
			}
		}
		if level >= lvAmsterdam && d.Sign() != 0 {
			bad(fmt.Sprintf("tx %d lost %v wei under Amsterdam rules (EIP-8246: SELFDESTRUCT burns nothing)", i, d))
		}
		if d.Sign() > 0 {
			out.destroyedTxs++
		}
		if sdByOld > 0 {
			out.sdOld++
		}
		if sdByCreated > 0 {
			out.sdNew++
		}
		out.burnt.Add(out.burnt, burn)
		out.destroyed.Add(out.destroyed, d)
		running = after
	}
	// withdrawals through the consensus engine (Shanghai+)
	out.minted = new(big.Int)
	if level >= lvShanghai && len(t.ws) > 0 {
		var ws []*types.Withdrawal
		for i, w := range t.ws {
			cand[addrOf(w[0])] = true
			ws = append(ws, &types.Withdrawal{Index: uint64(i), Validator: 1, Address: addrOf(w[0]), Amount: w[1].Uint64()})
			out.minted.Add(out.minted, new(big.Int).Mul(w[1], big.NewInt(params.GWei)))
		}
		running = sum() // the new candidates
		engine := beacon.New(ethash.NewFaker())
		engine.Finalize(fakeChain{cfg}, header, hooked, &types.Body{Withdrawals: ws}, uint32(len(t.txs)+1), bal.NewConstructionBlockAccessList())
		after := sum()
		if new(big.Int).Sub(after, running).Cmp(out.minted) != 0 {
			bad(fmt.Sprintf("withdrawals minted %v wei, want %v", new(big.Int).Sub(after, running), out.minted))
		}
	}
	st.Finalise(rules)
	out.totalPost = sum()
	// block_conservation on the implementation
	want := new(big.Int).Add(out.totalPre, out.minted)
	want.Sub(want, out.burnt)
	want.Sub(want, out.destroyed)
	if want.Cmp(out.totalPost) != 0 {
		bad(fmt.Sprintf("block: total %v + minted %v - burnt %v - destroyed %v = %v but the post-state holds %v",
			out.totalPre, out.minted, out.burnt, out.destroyed, want, out.totalPost))
	}
	// the candidate set is complete: a real dump of the committed state holds the same sum
	root, err := st.Commit(rules, number.Uint64())
	if err != nil {
		bad("commit: " + err.Error())
	} else if st3, err := state.New(root, backing); err != nil {
		bad("reopen: " + err.Error())
	} else {
		dump := st3.RawDump(&state.DumpConfig{SkipCode: true, SkipStorage: true})
		tot := new(big.Int)
		for _, a := range dump.Accounts {
			b, _ := new(big.Int).SetString(a.Balance, 10)
			tot.Add(tot, b)
		}
		if tot.Cmp(out.totalPost) != 0 {
			bad(fmt.Sprintf("state dump holds %v wei but the observed accounts hold %v", tot, out.totalPost))
		}
		var as []common.Address
		for a := range cand {
			as = append(as, a)
		}
		sort.Slice(as, func(i, j int) bool { return as[i].Cmp(as[j]) < 0 })
		for _, a := range as {
			b, n, c := st3.GetBalance(a), st3.GetNonce(a), st3.GetCodeSize(a)
			if b.IsZero() && n == 0 && c == 0 {
				continue
			}
			out.accounts = append(out.accounts, L(Big(addrBig(a)), Big(b.ToBig()), U(n)))
		}
	}
	return
}

var modelFork = []int{lvCancun, lvPrague, lvOsaka}

// the status class of a failed included transaction needs the execution error: re-derive it with
// ApplyMessage-level information is not kept in the receipt, so a failed transaction is reported
// as "failed" (class 1 = any failure) on both sides
func statusObs(x txOut) Sx {
	if !x.included {
		return L(I(0), I(x.class))
	}
	s := int64(0)
	if x.class != 0 {
		s = 1
	}
	return L(I(1), I(s), U(x.gasUsed))
}

func run(c Sx) Result {
	t := parseCase(c)
	res := Result{}
	var fails []string
	ml := modelFork[t.fork%3]
	var main runOut
	for level := range forkNames {
		o := execute(t, level)
		if o.overrun {
			panic("hxlib: step budget exceeded")
		}
		nm := forkNames[level]
		if o.panicked != "" {
			fails = append(fails, "panic under "+nm+": "+o.panicked)
			if level == ml {
				res.Obs = L(I(-2))
			}
			continue
		}
		for _, v := range o.viol {
			fails = append(fails, nm+": "+v)
		}
		if level == ml {
			main = o
			var txs SL
			for _, x := range o.txs {
				txs = append(txs, statusObs(x))
			}
			res.Obs = L(txs, Big(o.totalPre), Big(o.totalPost), Big(o.minted), Big(o.burnt), Big(o.destroyed), o.accounts)
		}
	}
	if len(fails) > 0 {
		if len(fails) > 3 {
			fails = fails[:3]
		}
		res.Oracle = strings.Join(fails, " | ")
	}
	res.Tags = append(res.Tags, "fork"+forkNames[ml], fmt.Sprintf("txs%d", len(t.txs)))
	inc := 0
	for _, x := range main.txs {
		if x.included {
			inc++
			if x.class != 0 {
				res.Tags = append(res.Tags, "failedtx")
			}
		} else {
			res.Tags = append(res.Tags, fmt.Sprintf("rejected%d", x.class))
		}
	}
	if main.nSelfd > 0 {
		res.Tags = append(res.Tags, "selfdestruct")
	}
	if main.destroyed != nil && main.destroyed.Sign() > 0 {
		res.Tags = append(res.Tags, "destroyed")
	}
	if main.nCreate > 0 {
		res.Tags = append(res.Tags, "create")
	}
	if main.nValue > 0 {
		res.Tags = append(res.Tags, "innervalue")
	}
	if len(t.ws) > 0 {
		res.Tags = append(res.Tags, "withdrawals")
	}
	if main.twoBlocks {
		res.Tags = append(res.Tags, "twoblocks")
	}
	if main.sdOld > 0 {
		res.Tags = append(res.Tags, "selfdestruct-by-older-contract")
	}
	if main.sdNew > 0 {
		res.Tags = append(res.Tags, "selfdestruct-by-new-contract")
	}
	res.NonTrivial = inc > 0
	return res
}

func main() {
	Main(Family{
		ID: "C32",
		Rule: "blocks of 1-5 transactions (legacy, access-list, dynamic-fee and blob transactions; value-moving calls, creations with endowment, plain transfers; " +
			"some with wrong nonce, fee cap below base fee, tip above fee cap, insufficient funds, too little gas) from 4 EOAs against 2-4 contracts whose programs (grammar of family c27 plus ether-specific statements) " +
			"move value by CALL to EOAs / contracts / fresh addresses, CREATE / CREATE2 with endowment whose init code self-destructs to itself / to another account / to a fresh account or deploys a self-destructing runtime, " +
			"SELFDESTRUCT to self / other / fresh account, value transfer followed by REVERT, value sent to an account that self-destructed earlier in the same transaction; random base fee (incl. 0), tips, blob base fee; 0-3 withdrawals. " +
			"Life-cycle stream: a contract created in transaction A by an EOA or a factory contract (constructor with / without SSTORE, with / without endowment) executes SELFDESTRUCT (to itself / an existing / a fresh account) in its constructor, later in A, in a later transaction B of the same block or in the next block (optional block split: commit, reopen, new EVM and gas pool) and is called again with value (systematic and random); in the random stream later transactions also target contracts born earlier in the block and a quarter of the multi-transaction cases span two blocks. " +
			"EIP-6780 oracle (Cancun+): an account that had code when a transaction started keeps that code; ether is destroyed only in a transaction in which a contract created in that transaction executed SELFDESTRUCT; under Amsterdam no ether is destroyed. " +
			"Model comparison under Cancun / Prague / Osaka: per transaction rejection class or (failed?, gas used), sum of balances before and after, wei minted, fees burnt (from the receipts), ether destroyed (implementation: total_pre + minted - burnt - total_post; model: Ether.loop_destroyed from its definition) and (address, balance, nonce) of every account. " +
			"Oracle under all 16 rule sets Frontier..Bogota (beyond Cancun/Prague/Osaka the oracle alone decides): per transaction, from the OnBalanceChange hook by reason, sender pays exactly gas limit * price + blob fee up front, gets back (gas limit - gas used) * price, coinbase receives gas used * tip; " +
			"the sum of balances over all observed accounts drops by exactly gas used * base fee + blob fee + destroyed with destroyed >= 0 and = 0 when no SELFDESTRUCT ran; a rejected transaction moves nothing; withdrawals mint amount * 10^9; block equation total' = total + minted - burnt - destroyed; " +
			"the committed state's full dump holds the same sum. Non-trivial: at least one transaction was included; distinct = distinct case line.",
		Gen:         gen,
		CaseTimeout: 60 * time.Second,
		Run:         run,
	})
}
