// Family c35: header fee and gas arithmetic (consensus/misc/gaslimit.go, eip1559, eip4844,
// core/state_transition.go IntrinsicGas/FloorDataGas) vs coq/Gas/FeesImpl.v.
// The direct oracle is an independent math/big re-computation of the EIP formulas.
package main

import (
	"fmt"
	"math/big"
	"runtime"
	"strings"

	"github.com/ethereum/go-ethereum/common"
	"github.com/ethereum/go-ethereum/consensus/misc"
	"github.com/ethereum/go-ethereum/consensus/misc/eip1559"
	"github.com/ethereum/go-ethereum/consensus/misc/eip4844"
	"github.com/ethereum/go-ethereum/core"
	"github.com/ethereum/go-ethereum/core/types"
	"github.com/ethereum/go-ethereum/params"
	"github.com/holiman/uint256"

	. "gethverif/harness/hxlib"
)

// ---------------------------------------------------------------- encoding

func optBig(v *big.Int) Sx {
	if v == nil {
		return L()
	}
	return L(Big(v))
}
func optU64(v *uint64) Sx {
	if v == nil {
		return L()
	}
	return L(U(*v))
}
func asOptBig(s Sx) *big.Int {
	l := AsList(s)
	if len(l) == 0 {
		return nil
	}
	return AsBig(l[0])
}
func asOptU64(s Sx) *uint64 {
	l := AsList(s)
	if len(l) == 0 {
		return nil
	}
	v := AsU64(l[0])
	return &v
}

// hdr ::= (number gasLimit gasUsed time baseFee:opt excessBlobGas:opt blobGasUsed:opt)
func encHdr(h *types.Header) Sx {
	return L(Big(h.Number), U(h.GasLimit), U(h.GasUsed), U(h.Time), optBig(h.BaseFee), optU64(h.ExcessBlobGas), optU64(h.BlobGasUsed))
}
func decHdr(s Sx) *types.Header {
	l := AsList(s)
	return &types.Header{Number: AsBig(l[0]), GasLimit: AsU64(l[1]), GasUsed: AsU64(l[2]), Time: AsU64(l[3]),
		BaseFee: asOptBig(l[4]), ExcessBlobGas: asOptU64(l[5]), BlobGasUsed: asOptU64(l[6])}
}

func encBC(bc *params.BlobConfig) Sx {
	if bc == nil {
		return L()
	}
	return L(L(I(int64(bc.Target)), I(int64(bc.Max)), U(bc.UpdateFraction)))
}
func decBC(s Sx) *params.BlobConfig {
	l := AsList(s)
	if len(l) == 0 {
		return nil
	}
	t := AsList(l[0])
	return &params.BlobConfig{Target: int(AsBig(t[0]).Int64()), Max: int(AsBig(t[1]).Int64()), UpdateFraction: AsU64(t[2])}
}

// cfg ::= (london cancun prague osaka bpo1..bpo5 schedule:opt((cancun prague bpo1..bpo5)))
func encCfg(c *params.ChainConfig) Sx {
	sched := L()
	if s := c.BlobScheduleConfig; s != nil {
		sched = L(L(encBC(s.Cancun), encBC(s.Prague), encBC(s.BPO1), encBC(s.BPO2), encBC(s.BPO3), encBC(s.BPO4), encBC(s.BPO5)))
	}
	return L(optBig(c.LondonBlock), optU64(c.CancunTime), optU64(c.PragueTime), optU64(c.OsakaTime),
		optU64(c.BPO1Time), optU64(c.BPO2Time), optU64(c.BPO3Time), optU64(c.BPO4Time), optU64(c.BPO5Time), sched)
}
func decCfg(s Sx) *params.ChainConfig {
	l := AsList(s)
	c := &params.ChainConfig{ChainID: big.NewInt(1), LondonBlock: asOptBig(l[0]), CancunTime: asOptU64(l[1]), PragueTime: asOptU64(l[2]),
		OsakaTime: asOptU64(l[3]), BPO1Time: asOptU64(l[4]), BPO2Time: asOptU64(l[5]), BPO3Time: asOptU64(l[6]),
		BPO4Time: asOptU64(l[7]), BPO5Time: asOptU64(l[8])}
	if sl := AsList(l[9]); len(sl) == 1 {
		e := AsList(sl[0])
		c.BlobScheduleConfig = &params.BlobScheduleConfig{Cancun: decBC(e[0]), Prague: decBC(e[1]), BPO1: decBC(e[2]),
			BPO2: decBC(e[3]), BPO3: decBC(e[4]), BPO4: decBC(e[5]), BPO5: decBC(e[6])}
	}
	return c
}

func resOk(v *big.Int) Sx  { return L(I(0), Big(v)) }
func resErr(c int64) Sx    { return L(I(1), I(c)) }
func resPanic(c int64) Sx  { return L(I(2), I(c)) }
func resOkU(v uint64) Sx   { return L(I(0), U(v)) }

// guard runs f and maps the expected panics of the implementation to classes:
// 1 nil dereference, 2 division by zero, 3 explicit panic("..."); anything else is re-raised.
func guard(f func() Sx) (out Sx) {
	defer func() {
		if e := recover(); e != nil {
			switch v := e.(type) {
			case runtime.Error:
				msg := v.Error()
				switch {
				case strings.Contains(msg, "nil pointer"):
					out = resPanic(1)
				case strings.Contains(msg, "divide by zero"):
					out = resPanic(2)
				default:
					panic(e)
				}
			case string:
				if strings.Contains(v, "division by zero") {
					out = resPanic(2)
				} else {
					out = resPanic(3)
				}
			default:
				panic(e)
			}
		}
	}()
	return f()
}

func errClass1559(err error) int64 {
	if err == nil {
		return 0
	}
	m := err.Error()
	switch {
	case strings.HasPrefix(m, "invalid gas limit: have"):
		return 1
	case strings.HasPrefix(m, "invalid gas limit below"):
		return 2
	case strings.HasPrefix(m, "header is missing baseFee"):
		return 3
	case strings.HasPrefix(m, "parent header is missing baseFee"):
		return 4
	case strings.HasPrefix(m, "invalid baseFee"):
		return 5
	}
	return 99
}

// ---------------------------------------------------------------- the specification, in math/big

var (
	b0    = big.NewInt(0)
	b1    = big.NewInt(1)
	two63 = new(big.Int).Lsh(b1, 63)
	two64 = new(big.Int).Lsh(b1, 64)
)

func bu(v uint64) *big.Int       { return new(big.Int).SetUint64(v) }
func bi(v int64) *big.Int        { return big.NewInt(v) }
func add(a, b *big.Int) *big.Int { return new(big.Int).Add(a, b) }
func sub(a, b *big.Int) *big.Int { return new(big.Int).Sub(a, b) }
func mul(a, b *big.Int) *big.Int { return new(big.Int).Mul(a, b) }
func fdiv(a, b *big.Int) *big.Int { // floor division, b > 0
	return new(big.Int).Div(a, b)
}

// EIP-1559 gas limit validity as a class (bounds first): 0 valid, 1 out of bounds, 2 below minimum
func specGasLimitClass(p, h *big.Int) int64 {
	q := fdiv(p, bi(1024))
	if !(h.Cmp(add(p, q)) < 0 && h.Cmp(sub(p, q)) > 0) {
		return 1
	}
	if h.Cmp(bi(5000)) < 0 {
		return 2
	}
	return 0
}

// EIP-1559 base fee of the child of a post-fork parent; target must be > 0 unless used == target
func specBaseFee(limit, used, bf *big.Int) *big.Int {
	target := fdiv(limit, bi(2))
	switch used.Cmp(target) {
	case 0:
		return new(big.Int).Set(bf)
	case 1:
		d := fdiv(fdiv(mul(bf, sub(used, target)), target), bi(8))
		if d.Cmp(b1) < 0 {
			d = b1
		}
		return add(bf, d)
	default:
		d := fdiv(fdiv(mul(bf, sub(target, used)), target), bi(8))
		return sub(bf, d)
	}
}

// EIP-4844 fake_exponential (one division by denominator*i per iteration)
func specFakeExp(factor, numerator, denominator *big.Int) *big.Int {
	i := int64(1)
	output := new(big.Int)
	accum := mul(factor, denominator)
	for accum.Sign() > 0 {
		output = add(output, accum)
		accum = fdiv(mul(accum, numerator), mul(denominator, bi(i)))
		i++
	}
	return fdiv(output, denominator)
}

// EIP-4844 / EIP-7918 calc_excess_blob_gas in unbounded integers
func specExcess(osaka bool, target, max, uf, excess, used, baseFee *big.Int) *big.Int {
	tg := mul(target, bi(131072))
	sum := add(excess, used)
	if sum.Cmp(tg) < 0 {
		return new(big.Int)
	}
	if osaka {
		fee := specFakeExp(b1, excess, uf)
		if mul(bi(8192), baseFee).Cmp(mul(bi(131072), fee)) > 0 {
			return add(excess, fdiv(mul(used, sub(max, target)), max))
		}
	}
	return sub(sum, tg)
}

// the schedule entry of the most recent activated fork that has one
func specActive(c *params.ChainConfig, time uint64) *params.BlobConfig {
	if c.BlobScheduleConfig == nil || c.LondonBlock == nil {
		return nil
	}
	s := c.BlobScheduleConfig
	type ent struct {
		t  *uint64
		bc *params.BlobConfig
	}
	for _, e := range []ent{{c.BPO5Time, s.BPO5}, {c.BPO4Time, s.BPO4}, {c.BPO3Time, s.BPO3}, {c.BPO2Time, s.BPO2},
		{c.BPO1Time, s.BPO1}, {c.PragueTime, s.Prague}, {c.CancunTime, s.Cancun}} {
		if e.t != nil && e.bc != nil && *e.t <= time {
			return e.bc
		}
	}
	return nil
}

type txArgs struct {
	data        []byte
	al          types.AccessList // nil or not
	auth        []types.SetCodeAuthorization
	from        common.Address
	to          *common.Address
	value       *uint256.Int
	rules       params.Rules
	create      bool
	self        bool
	hasValue    bool
	z, nz       int64
	addrs, keys int64
}

func specBase2780(a *txArgs) int64 {
	g := int64(12000)
	if a.self {
	} else if a.create {
		g += 9000 + 3000
	} else {
		g += 3000
	}
	if a.hasValue && !a.self && !a.create {
		g += 6000
	}
	return g
}

func specIntrinsic(a *txArgs) *big.Int {
	r := a.rules
	var g *big.Int
	switch {
	case r.IsAmsterdam:
		g = bi(specBase2780(a))
	case a.create && r.IsHomestead:
		g = bi(21000 + 32000)
	default:
		g = bi(21000)
	}
	per := int64(25000)
	if r.IsAmsterdam {
		per = 7816
	}
	g = add(g, mul(bi(int64(len(a.auth))), bi(per)))
	nzc := int64(68)
	if r.IsIstanbul {
		nzc = 16
	}
	g = add(g, add(mul(bi(a.nz), bi(nzc)), mul(bi(a.z), bi(4))))
	if a.create && r.IsShanghai {
		g = add(g, mul(bi(2), bi((a.z+a.nz+31)/32)))
	}
	if r.IsAmsterdam {
		g = add(g, add(mul(bi(a.addrs), bi(2900+20*4*16)), mul(bi(a.keys), bi(2000+32*4*16))))
	} else {
		g = add(g, add(mul(bi(a.addrs), bi(2400)), mul(bi(a.keys), bi(1900))))
	}
	return g
}

func specFloor(a *txArgs) *big.Int {
	if a.rules.IsAmsterdam {
		tokens := 4*(a.z+a.nz) + a.addrs*20*4 + a.keys*32*4
		return add(bi(specBase2780(a)), mul(bi(16), bi(tokens)))
	}
	return add(bi(21000), mul(bi(10), bi(a.z+4*a.nz)))
}

// ---------------------------------------------------------------- run

func isOk(s Sx) (*big.Int, bool) {
	l := AsList(s)
	if len(l) == 2 && AsInt(l[0]) == 0 {
		return AsBig(l[1]), true
	}
	return nil, false
}

func fits64(v *big.Int) bool { return v.Sign() >= 0 && v.Cmp(two64) < 0 }

func run(c Sx) Result {
	l := AsList(c)
	res := Result{}
	var fails []string
	failf := func(f string, a ...any) { fails = append(fails, fmt.Sprintf(f, a...)) }
	// the one verified, recorded deviation (known_findings.json id C35-gaslimit-int64-wrap): with
	// |parent-header| >= 2^63 the int64 subtraction in VerifyGaslimit wraps and the implementation accepts
	// a gas limit the unbounded EIP-1559 rule rejects (or vice versa).  Reported with a stable prefix and a
	// constant text, and only when nothing else failed on the case.
	known := ""
	switch AsInt(l[0]) {
	case 0: // VerifyGaslimit
		p, h := AsU64(l[1]), AsU64(l[2])
		cls := errClass1559(misc.VerifyGaslimit(p, h))
		res.Obs = I(cls)
		d := new(big.Int).Abs(sub(bu(p), bu(h)))
		if d.Cmp(two63) < 0 {
			res.Tags = append(res.Tags, "gl:guard")
			if want := specGasLimitClass(bu(p), bu(h)); want != cls {
				failf("VerifyGaslimit(%d,%d) class %d, specification %d", p, h, cls, want)
			}
			res.NonTrivial = p >= 1024
		} else {
			// |parent-header| >= 2^63: the int64 subtraction wraps; only model = implementation is compared
			res.Tags = append(res.Tags, "gl:beyond-guard")
			if want := specGasLimitClass(bu(p), bu(h)); (want == 0) != (cls == 0) {
				res.Tags = append(res.Tags, "gl:int64-wrap-verdict-differs")
				known = "C35-gaslimit-int64-wrap: VerifyGaslimit with |parent-header| >= 2^63: the int64 subtraction wraps and the verdict differs from the unbounded EIP-1559 gas-limit rule"
			} else if want != cls {
				res.Tags = append(res.Tags, "gl:beyond-guard-class-differs")
			}
		}
		res.Tags = append(res.Tags, fmt.Sprintf("gl:class%d", cls))
	case 1: // CalcBaseFee + VerifyEIP1559Header
		cfg, parent, hdr := decCfg(l[1]), decHdr(l[2]), decHdr(l[3])
		calc := guard(func() Sx { return resOk(eip1559.CalcBaseFee(cfg, parent)) })
		ver := guard(func() Sx { return resOkU(uint64(errClass1559(eip1559.VerifyEIP1559Header(cfg, parent, hdr)))) })
		res.Obs = L(calc, ver)
		london := cfg.LondonBlock != nil && cfg.LondonBlock.Cmp(parent.Number) <= 0
		limit, used := bu(parent.GasLimit), bu(parent.GasUsed)
		target := fdiv(limit, bi(2))
		var expected *big.Int
		if !london {
			res.Tags = append(res.Tags, "bf:pre-london")
			expected = bi(1000000000)
		} else if parent.BaseFee != nil && parent.BaseFee.Sign() >= 0 && (target.Sign() > 0 || used.Sign() == 0) {
			res.Tags = append(res.Tags, "bf:guard")
			expected = specBaseFee(limit, used, parent.BaseFee)
		}
		if expected != nil {
			got, ok := isOk(calc)
			if !ok || got.Cmp(expected) != 0 {
				failf("CalcBaseFee = %v, specification %v", String(calc), expected)
			} else if london {
				bf := parent.BaseFee
				delta := new(big.Int).Abs(sub(got, bf))
				eighth := fdiv(bf, bi(8))
				switch used.Cmp(target) {
				case 1:
					res.Tags = append(res.Tags, "bf:up")
					if got.Cmp(add(bf, b1)) < 0 {
						failf("base fee did not increase above target")
					}
					if used.Cmp(mul(target, bi(2))) <= 0 {
						bound := eighth
						if bound.Cmp(b1) < 0 {
							bound = b1
						}
						if delta.Cmp(bound) > 0 {
							failf("base fee step %v exceeds max(parent/8,1)", delta)
						}
					} else {
						res.Tags = append(res.Tags, "bf:used>2*target")
					}
				case -1:
					res.Tags = append(res.Tags, "bf:down")
					if got.Cmp(bf) > 0 || delta.Cmp(eighth) > 0 {
						failf("base fee decrease %v exceeds parent/8", delta)
					}
				default:
					res.Tags = append(res.Tags, "bf:equal")
				}
				res.NonTrivial = used.Cmp(target) != 0 && bf.Sign() > 0
			}
			// VerifyEIP1559Header against the specification, where the int64 guard holds
			pgl := bu(parent.GasLimit)
			if !london {
				pgl = mul(pgl, bi(2))
			}
			if parent.GasLimit <= params.MaxGasLimit && hdr.GasLimit <= params.MaxGasLimit {
				if new(big.Int).Abs(sub(pgl, bu(hdr.GasLimit))).Cmp(two63) < 0 {
					want := specGasLimitClass(pgl, bu(hdr.GasLimit))
					if want == 0 {
						switch {
						case hdr.BaseFee == nil:
							want = 3
						case hdr.BaseFee.Cmp(expected) != 0:
							want = 5
						}
					}
					if got, ok := isOk(ver); !ok || got.Int64() != want {
						failf("VerifyEIP1559Header = %v, specification class %d", String(ver), want)
					}
					res.Tags = append(res.Tags, fmt.Sprintf("v1559:class%d", want))
				} else {
					// capped limits, yet |2*parent - header| >= 2^63 at the London transition block
					res.Tags = append(res.Tags, "v1559:transition-beyond-guard")
				}
			}
		} else {
			res.Tags = append(res.Tags, "bf:outside-guard")
		}
		{ // the int64 wrap reached through VerifyEIP1559Header (doubled parent at the transition, uncapped genesis limit)
			pgl := bu(parent.GasLimit)
			if !london {
				pgl = mul(pgl, bi(2))
			}
			if fits64(pgl) && new(big.Int).Abs(sub(pgl, bu(hdr.GasLimit))).Cmp(two63) >= 0 {
				want := specGasLimitClass(pgl, bu(hdr.GasLimit))
				got, ok := isOk(ver)
				implRejects := ok && (got.Int64() == 1 || got.Int64() == 2)
				if (want != 0) != implRejects {
					res.Tags = append(res.Tags, "v1559:int64-wrap-verdict-differs")
					known = "C35-gaslimit-int64-wrap: VerifyEIP1559Header with |parentGasLimit-header| >= 2^63: the int64 subtraction in VerifyGaslimit wraps and the gas-limit verdict differs from the unbounded EIP-1559 rule"
				}
			}
		}
		res.Tags = append(res.Tags, "calc:"+String(AsList(calc)[0]))
	case 2, 3, 6: // CalcExcessBlobGas / CalcBlobFee / calcExcessBlobGas
		kind := AsInt(l[0])
		var (
			osaka  bool
			bc     *params.BlobConfig
			parent *types.Header
			out    Sx
		)
		switch kind {
		case 2:
			cfg := decCfg(l[1])
			parent = decHdr(l[2])
			t := AsU64(l[3])
			out = guard(func() Sx { return resOkU(eip4844.CalcExcessBlobGas(cfg, parent, t)) })
			bc = specActive(cfg, t)
			osaka = cfg.LondonBlock != nil && cfg.OsakaTime != nil && *cfg.OsakaTime <= t
			if bc == nil {
				res.Tags = append(res.Tags, "blob:no-config")
				if String(out) != String(resPanic(3)) {
					failf("CalcExcessBlobGas without an active blob schedule entry did not panic: %s", String(out))
				}
			}
		case 3:
			cfg := decCfg(l[1])
			hdr := decHdr(l[2])
			out = guard(func() Sx { return resOk(eip4844.CalcBlobFee(cfg, hdr)) })
			bc = specActive(cfg, hdr.Time)
			if bc == nil {
				res.Tags = append(res.Tags, "blob:no-config")
				if String(out) != String(resPanic(3)) {
					failf("CalcBlobFee without an active blob schedule entry did not panic: %s", String(out))
				}
			} else if hdr.ExcessBlobGas != nil && bc.UpdateFraction > 0 {
				want := specFakeExp(b1, bu(*hdr.ExcessBlobGas), bu(bc.UpdateFraction))
				if got, ok := isOk(out); !ok || got.Cmp(want) != 0 {
					failf("CalcBlobFee = %s, specification %v", String(out), want)
				}
				res.Tags = append(res.Tags, "blobfee:guard")
				res.NonTrivial = *hdr.ExcessBlobGas >= bc.UpdateFraction
			}
			res.Obs = out
			res.Tags = append(res.Tags, "blobfee:"+String(AsList(out)[0]))
			goto done
		case 6:
			osaka = AsBool(l[1])
			bc = decBC(L(l[2]))
			parent = decHdr(l[3])
			ebc := eip4844.BlobConfig{Target: bc.Target, Max: bc.Max, UpdateFraction: bc.UpdateFraction}
			out = guard(func() Sx { return resOkU(eip4844.VerifCalcExcessBlobGas(osaka, ebc, parent)) })
		}
		res.Obs = out
		res.Tags = append(res.Tags, "excess:"+String(AsList(out)[0]))
		if bc != nil {
			var e, u uint64
			ok := true
			if parent.ExcessBlobGas != nil {
				if parent.BlobGasUsed == nil {
					ok = false
				} else {
					e, u = *parent.ExcessBlobGas, *parent.BlobGasUsed
				}
			}
			t, m := bi(int64(bc.Target)), bi(int64(bc.Max))
			ok = ok && fits64(add(bu(e), bu(u))) && bc.Target >= 0 && fits64(mul(t, bi(131072)))
			if osaka {
				ok = ok && parent.BaseFee != nil && bc.UpdateFraction > 0 && bc.Max > 0 && bc.Target <= bc.Max &&
					fits64(mul(bu(u), sub(m, t)))
			}
			if ok {
				res.Tags = append(res.Tags, "excess:guard")
				if osaka {
					res.Tags = append(res.Tags, "excess:osaka")
				}
				want := specExcess(osaka, t, m, bu(bc.UpdateFraction), bu(e), bu(u), parent.BaseFee)
				if got, isok := isOk(out); !isok || got.Cmp(want) != 0 {
					failf("excess blob gas = %s, specification %v", String(out), want)
				}
				res.NonTrivial = want.Sign() > 0
			} else {
				res.Tags = append(res.Tags, "excess:outside-guard")
			}
		}
	case 4: // fakeExponential
		f, n, d := AsBig(l[1]), AsBig(l[2]), AsBig(l[3])
		out := guard(func() Sx { return resOk(eip4844.VerifFakeExponential(f, n, d)) })
		res.Obs = out
		if d.Sign() > 0 && n.Sign() >= 0 {
			res.Tags = append(res.Tags, "fe:guard")
			want := specFakeExp(f, n, d)
			if got, ok := isOk(out); !ok || got.Cmp(want) != 0 {
				failf("fakeExponential = %s, specification %v", String(out), want)
			}
			res.NonTrivial = f.Sign() > 0 && n.Cmp(d) >= 0
		} else if d.Sign() == 0 {
			res.Tags = append(res.Tags, "fe:zero-den")
			if String(out) != String(resPanic(2)) {
				failf("fakeExponential with zero denominator: %s", String(out))
			}
		} else {
			res.Tags = append(res.Tags, "fe:negative")
		}
	case 5: // IntrinsicGas + FloorDataGas
		a := &txArgs{data: AsBytes(l[1])}
		if al := AsList(l[2]); len(al) == 1 {
			a.al = types.AccessList{}
			for _, k := range AsList(al[0]) {
				a.al = append(a.al, types.AccessTuple{StorageKeys: make([]common.Hash, AsInt(k))})
			}
		}
		if au := AsList(l[3]); len(au) == 1 {
			a.auth = make([]types.SetCodeAuthorization, AsInt(au[0]))
		}
		a.from = common.BytesToAddress(AsBytes(l[4]))
		if to := AsList(l[5]); len(to) == 1 {
			t := common.BytesToAddress(AsBytes(to[0]))
			a.to = &t
		}
		if v := AsList(l[6]); len(v) == 1 {
			a.value, _ = uint256.FromBig(AsBig(v[0]))
		}
		rl := AsList(l[7])
		a.rules = params.Rules{IsHomestead: AsBool(rl[0]), IsIstanbul: AsBool(rl[1]), IsShanghai: AsBool(rl[2]), IsAmsterdam: AsBool(rl[3])}
		a.create = a.to == nil
		a.self = a.to != nil && *a.to == a.from
		a.hasValue = a.value != nil && !a.value.IsZero()
		for _, b := range a.data {
			if b == 0 {
				a.z++
			} else {
				a.nz++
			}
		}
		a.addrs = int64(len(a.al))
		for _, t := range a.al {
			a.keys += int64(len(t.StorageKeys))
		}
		enc := func(g uint64, err error) Sx {
			if err != nil {
				if err == core.ErrGasUintOverflow {
					return resErr(1)
				}
				return resErr(99)
			}
			return resOkU(g)
		}
		ig := guard(func() Sx { return enc(core.IntrinsicGas(a.data, a.al, a.auth, a.from, a.to, a.value, a.rules)) })
		fl := guard(func() Sx { return enc(core.FloorDataGas(a.rules, a.from, a.to, a.value, a.data, a.al)) })
		res.Obs = L(ig, fl)
		wi, wf := specIntrinsic(a), specFloor(a)
		if got, ok := isOk(ig); !ok || got.Cmp(wi) != 0 {
			failf("IntrinsicGas = %s, specification %v", String(ig), wi)
		}
		if got, ok := isOk(fl); !ok || got.Cmp(wf) != 0 {
			failf("FloorDataGas = %s, specification %v", String(fl), wf)
		}
		res.NonTrivial = len(a.data) > 0 || a.addrs > 0 || len(a.auth) > 0
		tg := func(b bool, s string) {
			if b {
				res.Tags = append(res.Tags, s)
			}
		}
		tg(a.create, "ig:create")
		tg(a.self, "ig:self")
		tg(a.hasValue, "ig:value")
		tg(a.al != nil, "ig:al")
		tg(a.auth != nil, "ig:auth")
		tg(a.rules.IsAmsterdam, "ig:amsterdam")
		tg(a.rules.IsShanghai, "ig:shanghai")
		tg(a.rules.IsIstanbul, "ig:istanbul")
		tg(len(a.data) == 0, "ig:nodata")
		tg(len(a.data) > 1000, "ig:data>1000")
	default:
		panic("hxlib: unknown case kind")
	}
done:
	if len(fails) > 0 {
		res.Oracle = strings.Join(fails, "; ")
	} else if known != "" {
		res.Oracle = known
	}
	return res
}

// ---------------------------------------------------------------- gen

const m63 = uint64(1) << 63

var gasGrid = []uint64{0, 1, 2, 3, 1023, 1024, 1025, 2047, 2048, 4999, 5000, 5001, 5004, 5005, 5006, 10000,
	8_000_000, 30_000_000, 30_000_001, 36_000_000, 1<<32 - 1, 1 << 32, 1<<62 - 1, 1 << 62, 1<<62 + 1,
	m63 - 1025, m63 - 2, m63 - 1, m63, m63 + 1, m63 + 5000, 3 << 62, ^uint64(0) - 5001, ^uint64(0) - 5000, ^uint64(0) - 1, ^uint64(0)}

func randU64(r *Rng) uint64 {
	switch r.Intn(6) {
	case 0:
		return gasGrid[r.Intn(len(gasGrid))]
	case 1:
		return r.U64() >> uint(r.Intn(64))
	case 2:
		return uint64(r.Intn(100_000_000))
	case 3:
		return m63 - 2000 + uint64(r.Intn(4000))
	case 4:
		return ^uint64(0) - uint64(r.Intn(10000))
	}
	return r.U64()
}

func near(r *Rng, v uint64) uint64 {
	d := uint64(r.Intn(3))
	if r.Bool() {
		return v + d
	}
	return v - d
}

func u64p(v uint64) *uint64 { return &v }

func testCfg(london *big.Int) *params.ChainConfig {
	return &params.ChainConfig{ChainID: big.NewInt(1), LondonBlock: london}
}

var bcPool = []*params.BlobConfig{params.DefaultCancunBlobConfig, params.DefaultPragueBlobConfig, params.DefaultBPO1BlobConfig,
	params.DefaultBPO2BlobConfig, params.DefaultBPO3BlobConfig, params.DefaultBPO4BlobConfig,
	{Target: 1, Max: 2, UpdateFraction: 1000}, {Target: 0, Max: 1, UpdateFraction: 5007716}, {Target: 3, Max: 3, UpdateFraction: 3338477}}

func blobCfgs(r *Rng) []*params.ChainConfig {
	out := []*params.ChainConfig{params.MainnetChainConfig, params.SepoliaChainConfig, params.HoleskyChainConfig, params.HoodiChainConfig,
		params.AllEthashProtocolChanges, params.MergedTestChainConfig, params.TestChainConfig, params.AllDevChainProtocolChanges}
	for i := 0; i < 24; i++ {
		c := &params.ChainConfig{ChainID: big.NewInt(1), LondonBlock: big.NewInt(0)}
		if r.Chance(1, 12) {
			c.LondonBlock = nil
		}
		t := uint64(r.Intn(50))
		next := func() *uint64 {
			if r.Chance(1, 6) {
				return nil
			}
			t += uint64(r.Intn(40))
			return u64p(t)
		}
		c.CancunTime, c.PragueTime, c.OsakaTime = next(), next(), next()
		c.BPO1Time, c.BPO2Time, c.BPO3Time, c.BPO4Time, c.BPO5Time = next(), next(), next(), next(), next()
		if r.Chance(1, 5) { // out-of-order activation times
			c.BPO2Time, c.PragueTime = c.PragueTime, c.BPO2Time
		}
		if !r.Chance(1, 10) {
			pick := func() *params.BlobConfig {
				if r.Chance(1, 5) {
					return nil
				}
				return bcPool[r.Intn(len(bcPool))]
			}
			c.BlobScheduleConfig = &params.BlobScheduleConfig{Cancun: pick(), Prague: pick(), BPO1: pick(), BPO2: pick(), BPO3: pick(), BPO4: pick(), BPO5: pick()}
		}
		out = append(out, c)
	}
	return out
}

func forkTimes(c *params.ChainConfig) []uint64 {
	ts := []uint64{0, 1, 1 << 40, ^uint64(0)}
	for _, p := range []*uint64{c.CancunTime, c.PragueTime, c.OsakaTime, c.BPO1Time, c.BPO2Time, c.BPO3Time, c.BPO4Time, c.BPO5Time} {
		if p != nil {
			ts = append(ts, *p, *p+1)
			if *p > 0 {
				ts = append(ts, *p-1)
			}
		}
	}
	return ts
}

var ruleSets = [][4]bool{ // homestead istanbul shanghai amsterdam : the historical progression
	{false, false, false, false}, {true, false, false, false}, {true, true, false, false}, {true, true, true, false}, {true, true, true, true}}

func bsx(b bool) Sx { return Bool(b) }

func gen(r *Rng, tier string, emit func(Sx)) {
	scale := 1
	if tier == "thorough" {
		scale = 12
	}
	// ---- kind 0: VerifyGaslimit, full boundary grid + limit±1 + random
	for _, p := range gasGrid {
		for _, h := range gasGrid {
			emit(L(I(0), U(p), U(h)))
		}
		q := p / 1024
		for _, h := range []uint64{p + q, p + q - 1, p + q + 1, p - q, p - q + 1, p - q - 1, p} {
			emit(L(I(0), U(p), U(h)))
		}
	}
	for i := 0; i < 3000*scale; i++ {
		p := randU64(r)
		var h uint64
		switch r.Intn(4) {
		case 0:
			h = randU64(r)
		case 1:
			h = near(r, p+p/1024)
		case 2:
			h = near(r, p-p/1024)
		default:
			h = p - p/1024 + uint64(r.Intn(int(min(2*(p/1024)+1, 1<<30))))
		}
		emit(L(I(0), U(p), U(h)))
	}
	// ---- kind 1: CalcBaseFee / VerifyEIP1559Header
	londons := []*big.Int{nil, big.NewInt(0), big.NewInt(5), big.NewInt(100)}
	baseFees := func() *big.Int {
		switch r.Intn(10) {
		case 0:
			return nil
		case 1:
			return big.NewInt(int64(r.Intn(20)))
		case 2:
			return big.NewInt(1000000000)
		case 3:
			return new(big.Int).SetUint64(r.U64())
		case 4:
			return new(big.Int).Lsh(big.NewInt(int64(r.Intn(1000)+1)), uint(r.Intn(200)))
		case 5:
			if r.Chance(1, 4) {
				return big.NewInt(-int64(r.Intn(1000000))) // malformed: negative base fee
			}
			return big.NewInt(7)
		}
		return big.NewInt(int64(r.Intn(2_000_000_000_000)))
	}
	for i := 0; i < 5000*scale; i++ {
		cfg := testCfg(londons[r.Intn(len(londons))])
		pn := int64(r.Intn(8))
		if r.Bool() {
			pn = 95 + int64(r.Intn(10))
		}
		limit := randU64(r)
		if r.Chance(1, 2) {
			limit = uint64(5000 + r.Intn(60_000_000))
		}
		target := limit / 2
		var used uint64
		switch r.Intn(8) {
		case 0:
			used = 0
		case 1:
			used = target
		case 2:
			used = near(r, target)
		case 3:
			used = near(r, limit)
		case 4:
			used = limit
		case 5:
			used = randU64(r)
		default:
			if limit+1 != 0 {
				used = r.U64() % (limit + 1)
			} else {
				used = r.U64()
			}
		}
		parent := &types.Header{Number: big.NewInt(pn), GasLimit: limit, GasUsed: used, BaseFee: baseFees()}
		hdr := &types.Header{Number: big.NewInt(pn + 1), Time: 1}
		pgl := limit
		if cfg.LondonBlock == nil || cfg.LondonBlock.Cmp(parent.Number) > 0 {
			pgl = limit * 2
		}
		switch r.Intn(5) {
		case 0:
			hdr.GasLimit = randU64(r)
		case 1:
			hdr.GasLimit = near(r, pgl+pgl/1024)
		case 2:
			hdr.GasLimit = near(r, pgl-pgl/1024)
		default:
			hdr.GasLimit = pgl
		}
		// header base fee: mostly what the real CalcBaseFee returns (so class 0 is reached), else off by one / nil / random
		var exp *big.Int
		func() {
			defer func() { recover() }()
			exp = eip1559.CalcBaseFee(cfg, parent)
		}()
		switch r.Intn(6) {
		case 0:
			hdr.BaseFee = nil
		case 1:
			hdr.BaseFee = baseFees()
		case 2:
			if exp != nil {
				hdr.BaseFee = new(big.Int).Add(exp, big.NewInt(int64(r.Intn(3)-1)))
			}
		default:
			hdr.BaseFee = exp
		}
		emit(L(I(1), encCfg(cfg), encHdr(parent), encHdr(hdr)))
	}
	// the London transition with capped limits and |2*parent - header| >= 2^63
	emit(L(I(1), encCfg(testCfg(big.NewInt(1))), encHdr(&types.Header{Number: big.NewInt(0), GasLimit: params.MaxGasLimit}),
		encHdr(&types.Header{Number: big.NewInt(1), GasLimit: 5000, BaseFee: big.NewInt(params.InitialBaseFee)})))
	// ---- kinds 2, 3: CalcExcessBlobGas / CalcBlobFee over real and synthetic fork schedules
	cfgs := blobCfgs(r)
	for i := 0; i < 5000*scale; i++ {
		cfg := cfgs[r.Intn(len(cfgs))]
		ts := forkTimes(cfg)
		t := ts[r.Intn(len(ts))]
		if r.Chance(1, 2) {
			t = uint64(100 + r.Intn(300)) // mostly after the synthetic schedules' activation times
		}
		bc := specActive(cfg, t)
		uf, tgt, mx := uint64(3338477), 3, 6
		if bc != nil {
			uf, tgt, mx = bc.UpdateFraction, bc.Target, bc.Max
		}
		osaka := cfg.LondonBlock != nil && cfg.OsakaTime != nil && *cfg.OsakaTime <= t
		// excess: fakeExponential needs ~ excess/uf + log iterations on e^(excess/uf)-sized numbers: keep the ratio small
		// wherever the fee is evaluated
		smallExcess := func() uint64 {
			switch r.Intn(5) {
			case 0:
				return uint64(r.Intn(3)) * 131072
			case 1:
				if v := near(r, uint64(tgt)*131072); v < 1<<40 { // no wrap below zero
					return v
				}
				return 0
			case 2:
				return uint64(r.Intn(40)) * uf / 3
			case 3:
				if r.Chance(1, 12) {
					return uint64(r.Intn(160)) * uf
				}
				return uint64(r.Intn(30)) * uf
			}
			return uint64(r.Intn(int(min(uf*30, 1<<40))))
		}
		if r.Chance(2, 5) { // CalcBlobFee
			hdr := &types.Header{Number: big.NewInt(10), Time: t, ExcessBlobGas: u64p(smallExcess())}
			if r.Chance(1, 15) {
				hdr.ExcessBlobGas = nil
			}
			emit(L(I(3), encCfg(cfg), encHdr(hdr)))
			continue
		}
		parent := &types.Header{Number: big.NewInt(9), Time: t - 1, BaseFee: baseFees()}
		if !r.Chance(1, 12) {
			e := smallExcess()
			if !osaka && r.Chance(1, 3) {
				e = randU64(r) // pre-Osaka the fee is not evaluated: any uint64 (wrap-around of excess+used)
			}
			var u uint64
			switch r.Intn(5) {
			case 0:
				u = uint64(r.Intn(mx+2)) * 131072
			case 1:
				u = uint64(tgt) * 131072
			case 2:
				u = near(r, uint64(tgt)*131072-e)
			case 3:
				u = randU64(r)
			default:
				u = uint64(r.Intn(mx*131072 + 2))
			}
			parent.ExcessBlobGas, parent.BlobGasUsed = u64p(e), u64p(u)
			if r.Chance(1, 25) {
				parent.BlobGasUsed = nil
			}
		}
		if osaka && parent.BaseFee != nil && r.Chance(1, 2) {
			// straddle the EIP-7918 reserve-price threshold: 8192*baseFee ~ 131072*blobfee
			e := uint64(0)
			if parent.ExcessBlobGas != nil {
				e = *parent.ExcessBlobGas
			}
			if uf > 0 {
				fee := specFakeExp(b1, bu(e), bu(uf))
				parent.BaseFee = add(mul(fee, bi(16)), bi(int64(r.Intn(5)-2)))
				if parent.BaseFee.Sign() < 0 {
					parent.BaseFee = big.NewInt(0)
				}
			}
		}
		emit(L(I(2), encCfg(cfg), encHdr(parent), U(t)))
	}
	// ---- kind 6: calcExcessBlobGas with adversarial blob configs (zero / negative / inverted)
	for i := 0; i < 1500*scale; i++ {
		bc := *bcPool[r.Intn(len(bcPool))]
		switch r.Intn(8) {
		case 0:
			bc.Max = 0
		case 1:
			bc.Target, bc.Max = bc.Max, bc.Target
		case 2:
			bc.Target = -r.Intn(3)
		case 3:
			bc.UpdateFraction = 0
		case 4:
			bc.Max = int(^uint(0)>>1) - r.Intn(2)
		case 5:
			bc.Target = 1<<47 - r.Intn(3) // target*2^17 wraps
		}
		uf := max(bc.UpdateFraction, 1)
		e := uint64(r.Intn(50)) * uf / 2
		u := uint64(r.Intn(30)) * 131072
		if r.Chance(1, 4) {
			u = randU64(r)
		}
		parent := &types.Header{Number: big.NewInt(9), BaseFee: baseFees(), ExcessBlobGas: u64p(e), BlobGasUsed: u64p(u)}
		if r.Chance(1, 20) {
			parent.ExcessBlobGas, parent.BlobGasUsed = nil, nil
		}
		emit(L(I(6), bsx(r.Chance(3, 4)), AsList(encBC(&bc))[0], encHdr(parent)))
	}
	// ---- kind 4: fakeExponential
	for i := 0; i < 1500*scale; i++ {
		var f, n, d *big.Int
		d = big.NewInt(int64(r.Intn(1000) + 1))
		switch r.Intn(6) {
		case 0:
			d = big.NewInt(int64(bcPool[r.Intn(6)].UpdateFraction))
		case 1:
			d = new(big.Int).SetUint64(r.U64()>>uint(r.Intn(60)) + 1)
		}
		ratio := r.Intn(25)
		if r.Chance(1, 25) {
			ratio = r.Intn(200)
		}
		n = add(mul(d, bi(int64(ratio))), new(big.Int).Rem(bu(r.U64()), d))
		f = big.NewInt(1)
		switch r.Intn(6) {
		case 0:
			f = big.NewInt(int64(r.Intn(5)))
		case 1:
			f = big.NewInt(1000000000)
		}
		switch r.Intn(25) { // malformed stream
		case 0:
			d = big.NewInt(0)
		case 1:
			d = new(big.Int).Neg(d)
		case 2:
			n = new(big.Int).Neg(n)
		case 3:
			f = new(big.Int).Neg(f)
		case 4:
			f, d = new(big.Int).Neg(f), new(big.Int).Neg(d)
		}
		emit(L(I(4), Big(f), Big(n), Big(d)))
	}
	// ---- kind 5: IntrinsicGas / FloorDataGas
	for i := 0; i < 5000*scale; i++ {
		ln := r.Intn(40)
		switch r.Intn(8) {
		case 0:
			ln = 0
		case 1:
			ln = r.Intn(3000)
		case 2:
			ln = 31 + r.Intn(3) + 32*r.Intn(4)
		case 3:
			if r.Chance(1, 10) {
				ln = 49152 + r.Intn(90000)
			}
		}
		data := r.Bytes(ln)
		switch r.Intn(4) {
		case 0:
			for j := range data {
				if r.Chance(3, 4) {
					data[j] = 0
				}
			}
		case 1:
			for j := range data {
				data[j] = 0
			}
		case 2:
			for j := range data {
				data[j] |= 1
			}
		}
		al := L()
		if !r.Chance(1, 3) {
			var ks []Sx
			for j := r.Intn(6) * r.Intn(6); j > 0; j-- {
				ks = append(ks, I(int64(r.Intn(4)*r.Intn(4))))
			}
			al = L(SL(ks))
		}
		auth := L()
		if r.Chance(1, 2) {
			auth = L(I(int64(r.Intn(4) * r.Intn(8))))
		}
		from := r.Bytes(20)
		to := L()
		switch r.Intn(4) {
		case 0:
			to = L(B(from))
		case 1, 2:
			to = L(B(r.Bytes(20)))
		}
		value := L()
		switch r.Intn(3) {
		case 0:
			value = L(I(0))
		case 1:
			value = L(Big(new(big.Int).Lsh(big.NewInt(int64(r.Intn(100)+1)), uint(r.Intn(240)))))
		}
		rs := ruleSets[r.Intn(len(ruleSets))]
		if r.Chance(1, 4) {
			rs = [4]bool{r.Bool(), r.Bool(), r.Bool(), r.Bool()}
		}
		emit(L(I(5), B(data), al, auth, B(from), to, value, L(bsx(rs[0]), bsx(rs[1]), bsx(rs[2]), bsx(rs[3]))))
	}
}

func main() {
	Main(Family{
		ID: "C35",
		Rule: "VerifyGaslimit on the full boundary grid {0,1,1023..1025,4999..5001,2^62,2^63-1,2^63,2^63+1,2^64-1,..}^2 plus parent±parent/1024±1 and random pairs; " +
			"CalcBaseFee/VerifyEIP1559Header on random pre/post-London parents (gasUsed at 0, target±2, limit±2, random; base fee nil/0..19/1e9/uint64/2^200/negative; header limit at the bounds, header base fee = expected, ±1, nil, random); " +
			"CalcExcessBlobGas/CalcBlobFee over the params chain configs (mainnet, sepolia, holesky, hoodi, test configs) and 24 synthetic fork schedules (missing/out-of-order times, missing entries, BPO1-5 variants) at every fork time ±1, excess/used at the target boundaries and straddling the EIP-7918 reserve price; " +
			"calcExcessBlobGas with adversarial blob configs (max 0, inverted, negative target, zero update fraction); fakeExponential incl. zero/negative arguments; " +
			"IntrinsicGas/FloorDataGas over data lengths 0..140k with varied zero density, nil/empty/non-empty access and authorization lists, creation/self-transfer/value, the 5 historical rule sets plus arbitrary flag combinations. " +
			"Non-trivial: the case lies inside the stated guards (so the math/big specification was compared) and is non-degenerate (parent limit >= 1024; gasUsed != target with positive base fee; positive excess result; excess >= update fraction; numerator >= denominator; non-empty data/access/auth list).",
		Gen: gen,
		Run: run,
	})
}
