// Family c14: StateDB.IntermediateRoot / Commit / state.New / Copy on a real state.StateDB over
// triedb (hash and path scheme, snapshot tree / pathdb flat readers on and off, prefetcher on
// and off, triedb.Commit to disk or layers kept in memory) vs coq/State/Commit.v.
//
// case = ( cfg ( block.. ) ), see coq/Run/C14.v for the encoding.
//   cfg bits: 1 = path scheme, 2 = snapshot tree attached, 4 = prefetcher, 8 = triedb.Commit after
//   every block, 16 = snapshot tree capped to 0 diff layers after every block
package main

import (
	"fmt"
	"math/big"
	"sort"
	"strings"

	"github.com/ethereum/go-ethereum/common"
	"github.com/ethereum/go-ethereum/core/rawdb"
	"github.com/ethereum/go-ethereum/core/state"
	"github.com/ethereum/go-ethereum/core/state/snapshot"
	"github.com/ethereum/go-ethereum/core/tracing"
	"github.com/ethereum/go-ethereum/core/types"
	"github.com/ethereum/go-ethereum/params"
	"github.com/ethereum/go-ethereum/triedb"
	"github.com/ethereum/go-ethereum/triedb/hashdb"
	"github.com/ethereum/go-ethereum/triedb/pathdb"
	. "gethverif/harness/hxlib"
)

const (
	cfgPath = 1 << iota
	cfgSnap
	cfgPrefetch
	cfgDisk
	cfgCap
)

// ---------------------------------------------------------------------------
// decoded case

type item struct {
	kind int // 0 op, 1 intermediate root, 2 copy of the main state, 3 copy of a live side branch
	o    op
	swap bool
	from int // kind 3: index of the live side branch that is copied
	ops  []op
	mode int // side branch: 0 hashed at block end, 1 committed before main, 2 committed after main, 3 committed at once
}

type block struct {
	rules int
	items []item
}

func decodeOp(e Sx) op {
	f := AsList(e)
	if len(f) == 0 {
		panic("hxlib: empty op")
	}
	o := op{tag: AsInt(f[0]), dst: -1, v: new(big.Int)}
	need := func(n int) {
		if len(f) != n+1 {
			panic("hxlib: bad op arity")
		}
	}
	switch o.tag {
	case opCreateAccount, opCreateContract, opSelfDestruct, opSelfDestruct6780, opAddAddress:
		need(1)
		o.a = AsInt(f[1])
	case opAddBalance, opSubBalance, opSetBalance, opSetNonce, opSetCode, opAddLog:
		need(2)
		o.a, o.v = AsInt(f[1]), AsBig(f[2])
	case opSetState, opSetTransient:
		need(3)
		o.a, o.k, o.v = AsInt(f[1]), AsInt(f[2]), AsBig(f[3])
	case opAddSlot:
		need(2)
		o.a, o.k = AsInt(f[1]), AsInt(f[2])
	case opAddRefund, opSubRefund, opRevert:
		need(1)
		o.v = AsBig(f[1])
	case opSnapshot:
		need(0)
	case opFinalise:
		need(1)
		o.rules = AsInt(f[1])
	case opTxStart:
		need(7)
		o.th, o.ti, o.rules, o.sender, o.coinbase = AsInt(f[1]), AsInt(f[2]), AsInt(f[3]), AsInt(f[4]), AsInt(f[5])
		d := AsList(f[6])
		if len(d) > 0 {
			o.dst = AsInt(d[0])
		}
		for _, e := range AsList(f[7]) {
			p := AsList(e)
			if len(p) != 2 {
				panic("hxlib: bad access list entry")
			}
			ae := alEntry{addr: AsInt(p[0])}
			for _, s := range AsList(p[1]) {
				ae.slots = append(ae.slots, AsInt(s))
			}
			o.al = append(o.al, ae)
		}
	default:
		panic("hxlib: unknown op tag")
	}
	if o.v.Sign() < 0 || o.a < 0 || o.a > 255 || o.k < 0 || o.k > 255 {
		panic("hxlib: negative or oversized argument")
	}
	if (o.tag == opSetCode && o.v.Cmp(big.NewInt(7)) > 0) || o.v.BitLen() > 256 {
		panic("hxlib: oversized value")
	}
	// the observed universe is addresses 1..4 x slots 0..3 (dumps, reopen, fresh rebuild)
	switch o.tag {
	case opCreateAccount, opCreateContract, opSelfDestruct, opSelfDestruct6780, opAddBalance, opSubBalance, opSetBalance,
		opSetNonce, opSetCode, opSetState:
		if o.a < 1 || o.a > 4 || o.k > 3 {
			panic("hxlib: address/slot outside the observed universe")
		}
	}
	if (o.tag == opSetNonce || o.tag == opAddRefund || o.tag == opSubRefund) && o.v.BitLen() > 64 {
		panic("hxlib: oversized uint64")
	}
	return o
}

func decodeCase(c Sx) (int, []block) {
	l := AsList(c)
	if len(l) != 2 {
		panic("hxlib: case must be (cfg blocks)")
	}
	cfg := AsInt(l[0])
	var blocks []block
	for _, be := range AsList(l[1]) {
		bf := AsList(be)
		if len(bf) != 2 {
			panic("hxlib: block must be (rules items)")
		}
		b := block{rules: AsInt(bf[0])}
		if b.rules < 0 || b.rules > 15 {
			panic("hxlib: bad rules")
		}
		for _, ie := range AsList(bf[1]) {
			f := AsList(ie)
			if len(f) == 0 {
				panic("hxlib: empty item")
			}
			it := item{kind: AsInt(f[0])}
			switch it.kind {
			case 0:
				if len(f) != 2 {
					panic("hxlib: bad op item")
				}
				it.o = decodeOp(f[1])
			case 1:
				if len(f) != 1 {
					panic("hxlib: bad ir item")
				}
			case 2, 3:
				if len(f) != 4 {
					panic("hxlib: bad copy item")
				}
				if it.kind == 2 {
					sw := AsInt(f[1])
					if sw != 0 && sw != 1 {
						panic("hxlib: bad swap")
					}
					it.swap = sw == 1
				} else {
					it.from = AsInt(f[1])
					if it.from < 0 || it.from > 8 {
						panic("hxlib: bad side index")
					}
				}
				for _, oe := range AsList(f[2]) {
					it.ops = append(it.ops, decodeOp(oe))
				}
				it.mode = AsInt(f[3])
				if it.mode < 0 || it.mode > 3 {
					panic("hxlib: bad side mode")
				}
			default:
				panic("hxlib: unknown item kind")
			}
			b.items = append(b.items, it)
		}
		blocks = append(blocks, b)
	}
	return cfg, blocks
}

func encodeItem(it item) Sx {
	switch it.kind {
	case 0:
		return L(I(0), encodeOp(it.o))
	case 1:
		return L(I(1))
	default:
		ops := SL{}
		for _, o := range it.ops {
			ops = append(ops, encodeOp(o))
		}
		if it.kind == 3 {
			return L(I(3), I(int64(it.from)), ops, I(int64(it.mode)))
		}
		return L(I(2), I(b2i(it.swap)), ops, I(int64(it.mode)))
	}
}

func encodeCase(cfg int, blocks []block) Sx {
	bs := SL{}
	for _, b := range blocks {
		its := SL{}
		for _, it := range b.items {
			its = append(its, encodeItem(it))
		}
		bs = append(bs, L(I(int64(b.rules)), its))
	}
	return L(I(int64(cfg)), bs)
}

// ---------------------------------------------------------------------------
// the implementation under test

type env struct {
	cfg    int
	disk   interface{ Close() error }
	tdb    *triedb.Database
	snaps  *snapshot.Tree
	codedb *state.CodeDB
	sdb    *state.MPTDatabase
}

func newEnv(cfg int) *env {
	disk := rawdb.NewMemoryDatabase()
	var tdb *triedb.Database
	if cfg&cfgPath != 0 {
		pc := *pathdb.Defaults
		pc.NoAsyncFlush = true
		pc.NoAsyncGeneration = true
		pc.TrieCleanSize = 0
		pc.StateCleanSize = 0
		tdb = triedb.NewDatabase(disk, &triedb.Config{PathDB: &pc})
	} else {
		tdb = triedb.NewDatabase(disk, &triedb.Config{HashDB: &hashdb.Config{CleanCacheSize: 0}})
	}
	e := &env{cfg: cfg, disk: disk, tdb: tdb}
	e.codedb = state.NewCodeDB(disk)
	e.sdb = state.NewMPTDatabase(tdb, e.codedb)
	if cfg&cfgSnap != 0 {
		snaps, err := snapshot.New(snapshot.Config{CacheSize: 1, AsyncBuild: false}, disk, tdb, types.EmptyRootHash)
		if err != nil {
			panic(err)
		}
		e.snaps = snaps
		e.sdb.WithSnapshot(snaps)
	}
	return e
}

func (e *env) close() {
	e.tdb.Close()
	e.disk.Close()
}

// persistent getters only (what a reopened state can know)
func pdumpImpl(st *state.StateDB, fails *[]string) Sx {
	out := SL{}
	for _, ai := range dumpAddrs {
		a := addrOf(ai)
		code := st.GetCode(a)
		cid := len(code)
		if string(code) != string(codeOf(cid)) {
			cid = 999
		}
		if st.GetCodeSize(a) != len(code) {
			*fails = append(*fails, fmt.Sprintf("GetCodeSize(%d)=%d but len(GetCode)=%d", ai, st.GetCodeSize(a), len(code)))
		}
		hid, ok := codeHashID[st.GetCodeHash(a)]
		if !ok {
			hid = 998
		}
		out = append(out, I(b2i(st.Exist(a))), I(b2i(st.Empty(a))), Big(st.GetBalance(a).ToBig()), U(st.GetNonce(a)),
			I(int64(cid)), I(int64(hid)))
		for _, k := range dumpSlots {
			h := hashOf(k)
			out = append(out, Big(st.GetState(a, h).Big()), Big(st.GetCommittedState(a, h).Big()))
		}
	}
	if err := st.Error(); err != nil {
		*fails = append(*fails, "StateDB.Error: "+err.Error())
	}
	return out
}

// errClass maps a Commit / New error to the model's classes
func errClass(err error) int {
	switch {
	case strings.Contains(err.Error(), "unexpected storage wiping"):
		return 4
	case strings.Contains(err.Error(), "missing trie node"), strings.Contains(err.Error(), "missing node"):
		return 1
	case strings.Contains(err.Error(), "code is not found"):
		return 3
	}
	return 9
}
func serr(c int) Sx { return L(I(-2), I(int64(c))) }

// freshRoot rebuilds the state seen through the getters of st in a fresh hash-scheme database
// and returns its root: the root must depend on the observable state only
func freshRoot(st *state.StateDB) common.Hash {
	disk := rawdb.NewMemoryDatabase()
	tdb := triedb.NewDatabase(disk, &triedb.Config{HashDB: &hashdb.Config{CleanCacheSize: 0}})
	defer disk.Close()
	defer tdb.Close()
	f, err := state.New(types.EmptyRootHash, state.NewMPTDatabase(tdb, nil))
	if err != nil {
		panic(err)
	}
	for _, ai := range dumpAddrs {
		a := addrOf(ai)
		if !st.Exist(a) {
			continue
		}
		f.CreateAccount(a)
		f.SetNonce(a, st.GetNonce(a), tracing.NonceChangeUnspecified)
		f.SetBalance(a, st.GetBalance(a), tracing.BalanceChangeUnspecified)
		if code := st.GetCode(a); len(code) > 0 {
			f.SetCode(a, code, tracing.CodeChangeUnspecified)
		}
		for _, k := range dumpSlots {
			f.SetState(a, hashOf(k), st.GetState(a, hashOf(k)))
		}
	}
	root, err := f.Commit(params.Rules{}, 0)
	if err != nil {
		panic(err)
	}
	return root
}

// guardedApply enforces the API contract the EVM establishes (Journal.v op_ok): CreateAccount only
// on a non-existent account ("otherwise it will be silently overwritten ... consensus bug").
func guardedApply(st *state.StateDB, o op) int {
	if o.tag == opCreateAccount && st.Exist(addrOf(o.a)) {
		panic("hxlib: CreateAccount over an existing account (outside the API contract)")
	}
	return applyOp(st, o)
}

type side struct {
	st   *state.StateDB
	dump string
	mode int
}

func run(c Sx) Result {
	cfg, blocks := decodeCase(c)
	e := newEnv(cfg)
	defer e.close()
	res := Result{}
	var fails []string
	tags := map[string]bool{}
	tags[fmt.Sprintf("cfg-scheme-%s", map[bool]string{false: "hash", true: "path"}[cfg&cfgPath != 0])] = true
	if cfg&cfgSnap != 0 {
		tags["cfg-snapshot"] = true
	}
	if cfg&cfgPrefetch != 0 {
		tags["cfg-prefetcher"] = true
	}
	if cfg&cfgDisk != 0 {
		tags["cfg-triedb-commit"] = true
	}
	if cfg&cfgCap != 0 {
		tags["cfg-snap-cap0"] = true
	}
	fail := func(format string, a ...any) {
		if len(fails) < 4 {
			fails = append(fails, fmt.Sprintf(format, a...))
		}
	}
	obs := SL{}
	root := types.EmptyRootHash
	seen := map[common.Hash]bool{root: true}
	nOps, nCopies, nIR, nBlocksDone, nRecreate, flatReads := 0, 0, 0, 0, 0, 0
	destructedEver := map[int]bool{}
blocks:
	for bi, b := range blocks {
		rules := rulesOf(b.rules)
		tags[fmt.Sprintf("rules%x", b.rules)] = true
		st, err := state.New(root, e.sdb)
		if err != nil {
			obs = append(obs, L(serr(errClass(err))))
			fail("block %d: state.New(%x): %v", bi, root, err)
			break
		}
		if cfg&cfgPrefetch != 0 {
			st.StartPrefetcher("verif", nil)
		}
		bobs := SL{}
		var sides []*side
		parent := root
		layered := cfg&(cfgPath|cfgSnap) != 0
		seenBlock := map[common.Hash]bool{}
		// IntermediateRoot, Commit into the shared database, state.New(root) through every reader
		commitAndVerify := func(cst *state.StateDB, who string) (SL, common.Hash, bool) {
			co := SL{}
			root1 := cst.IntermediateRoot(rules)
			pre := pdumpImpl(cst, &fails)
			co = append(co, B(root1[:]), pre)
			if layered && root1 != parent && seenBlock[root1] {
				// a sibling branch of this block committed this very root: nothing to add to the layer tree
				tags["root-shared-with-sibling"] = true
				co = append(co, I(4))
				st2, err := state.New(root1, e.sdb)
				if err != nil {
					fail("block %d %s: state.New(%x) at a sibling's root: %v", bi, who, root1, err)
					return append(co, serr(errClass(err))), root1, false
				}
				post := pdumpImpl(st2, &fails)
				if String(post) != String(pre) {
					fail("block %d %s: getters at the sibling's root differ from the pre-commit getters: %s", bi, who, diffAt(String(post), String(pre)))
				}
				return append(co, post), root1, true
			}
			if layered && root1 != parent && seen[root1] {
				// layer trees are keyed by root: a chain revisiting an earlier root cannot be represented
				tags["root-revisited-stop"] = true
				return append(co, I(3)), root1, false
			}
			root2, err := cst.Commit(rules, uint64(bi+1))
			if err != nil {
				cl := errClass(err)
				tags[fmt.Sprintf("commit-error-%d", cl)] = true
				if cl != 4 {
					fail("block %d %s: Commit: %v", bi, who, err)
				}
				return append(co, serr(cl)), root1, false
			}
			co = append(co, B(root2[:]))
			if root1 != root2 {
				fail("block %d %s: Commit root %x != IntermediateRoot %x", bi, who, root2, root1)
			}
			seen[root2] = true
			seenBlock[root2] = true
			st2, err := state.New(root2, e.sdb)
			if err != nil {
				fail("block %d %s: state.New(%x) after Commit: %v", bi, who, root2, err)
				return append(co, serr(errClass(err))), root2, false
			}
			post := pdumpImpl(st2, &fails)
			co = append(co, post)
			if String(post) != String(pre) {
				fail("block %d %s: reopened getters differ from the pre-commit getters: %s", bi, who, diffAt(String(post), String(pre)))
			}
			if tr, err := state.VerifNewMPTTrieReader(root2, e.tdb); err != nil {
				fail("block %d %s: trie reader: %v", bi, who, err)
			} else if st3, err := state.NewWithReader(root2, e.sdb, state.VerifNewReader(e.codedb.Reader(), tr)); err != nil {
				fail("block %d %s: NewWithReader(trie): %v", bi, who, err)
			} else if d := pdumpImpl(st3, &fails); String(d) != String(pre) {
				fail("block %d %s: trie-reader getters differ from the pre-commit getters: %s", bi, who, diffAt(String(d), String(pre)))
			}
			var flat state.StateReader
			if cfg&cfgPath != 0 {
				if r, err := e.tdb.StateReader(root2); err == nil {
					flat = state.VerifNewFlatReader(r)
				} else {
					fail("block %d %s: pathdb state reader: %v", bi, who, err)
				}
			} else if e.snaps != nil {
				if s := e.snaps.Snapshot(root2); s != nil {
					flat = state.VerifNewFlatReader(s)
				} else if root2 != parent {
					fail("block %d %s: no snapshot layer for the committed root", bi, who)
				}
			}
			if flat != nil {
				flatReads++
				tags["flat-reader"] = true
				if st4, err := state.NewWithReader(root2, e.sdb, state.VerifNewReader(e.codedb.Reader(), flat)); err != nil {
					fail("block %d %s: NewWithReader(flat): %v", bi, who, err)
				} else if d := pdumpImpl(st4, &fails); String(d) != String(pre) {
					fail("block %d %s: flat-reader getters differ from the pre-commit getters: %s", bi, who, diffAt(String(d), String(pre)))
				}
			}
			if fr := freshRoot(st2); fr != root2 {
				fail("block %d %s: root %x differs from the root %x of a fresh build of the same observable state", bi, who, root2, fr)
			}
			return co, root2, true
		}
		destructedBlock := map[int]bool{}
		existedAtStart := map[int]bool{}
		for _, ai := range dumpAddrs {
			existedAtStart[ai] = st.Exist(addrOf(ai))
		}
		for _, it := range b.items {
			switch it.kind {
			case 0:
				w := guardedApply(st, it.o)
				bobs = append(bobs, I(int64(w)))
				nOps++
				tags[opNames[it.o.tag]] = true
				if it.o.tag == opFinalise {
					for _, ai := range dumpAddrs {
						if existedAtStart[ai] && !st.Exist(addrOf(ai)) {
							destructedBlock[ai] = true
							destructedEver[ai] = true
						}
						if destructedBlock[ai] && st.Exist(addrOf(ai)) {
							tags["destruct-recreate-same-block"] = true
							nRecreate++
						} else if destructedEver[ai] && st.Exist(addrOf(ai)) {
							tags["destruct-recreate-across-blocks"] = true
						}
					}
				}
			case 1:
				r1 := st.IntermediateRoot(rules)
				bobs = append(bobs, L(B(r1[:]), pdumpImpl(st, &fails)))
				nIR++
				tags["mid-block-intermediate-root"] = true
			case 2, 3:
				// src is copied; keep = the branch that stays in place, sd = the new side branch
				src := st
				if it.kind == 3 {
					if it.from >= len(sides) {
						panic("hxlib: copy of a side branch that does not exist")
					}
					src = sides[it.from].st
					tags["copy-of-copy"] = true
				}
				cp := src.Copy()
				keep, sd := src, cp
				if it.kind == 2 && it.swap {
					keep, sd = cp, src
					tags["copy-becomes-main"] = true
				}
				before := String(dumpImpl(keep, &fails))
				outs := SL{}
				for _, o := range it.ops {
					outs = append(outs, I(int64(guardedApply(sd, o))))
				}
				ds := dumpImpl(sd, &fails)
				dm := dumpImpl(keep, &fails)
				if String(dm) != before {
					fail("block %d: mutating one side of a Copy changed the other state: %s", bi, diffAt(String(dm), before))
				}
				bobs = append(bobs, L(outs, ds, dm))
				if it.kind == 2 {
					st = keep
				} else {
					sides[it.from].st = keep
				}
				nCopies++
				tags["copy"] = true
				tags[fmt.Sprintf("side-mode%d", it.mode)] = true
				if len(it.ops) > 0 {
					tags["copy-mutated"] = true
				}
				if it.mode == 3 {
					co, _, _ := commitAndVerify(sd, "side branch committed at once")
					bobs = append(bobs, co)
					if d := String(dumpImpl(keep, &fails)); d != String(dm) {
						fail("block %d: committing one side of a Copy changed the other state: %s", bi, diffAt(d, String(dm)))
					}
					for i, o := range sides {
						if d := String(dumpImpl(o.st, &fails)); d != o.dump {
							fail("block %d: side branch %d changed when another branch was committed: %s", bi, i, diffAt(d, o.dump))
						}
					}
				} else {
					sides = append(sides, &side{st: sd, dump: String(ds), mode: it.mode})
				}
			}
		}
		checkSides := func(when string) {
			for i, sd := range sides {
				if sd.st == nil {
					continue
				}
				if d := String(dumpImpl(sd.st, &fails)); d != sd.dump {
					fail("block %d: side branch %d changed %s: %s", bi, i, when, diffAt(d, sd.dump))
				}
			}
		}
		// side branches before the main state: untouched by what the other branches did; hashed or committed
		for i, sd := range sides {
			checkSides("while the other branches were mutated or committed")
			switch sd.mode {
			case 0:
				r := sd.st.IntermediateRoot(rules)
				if err := sd.st.Error(); err != nil {
					fail("block %d: side branch %d: %v", bi, i, err)
				}
				bobs = append(bobs, B(r[:]))
				sd.st = nil
			case 1:
				co, _, _ := commitAndVerify(sd.st, fmt.Sprintf("side branch %d (before main)", i))
				bobs = append(bobs, co)
				sd.st = nil
			}
		}
		mo, root2, ok := commitAndVerify(st, "main")
		bobs = append(bobs, mo...)
		if !ok {
			obs = append(obs, bobs)
			break blocks
		}
		for i, sd := range sides {
			if sd.mode != 2 {
				continue
			}
			checkSides("when the main state was committed")
			co, _, _ := commitAndVerify(sd.st, fmt.Sprintf("side branch %d (after main)", i))
			bobs = append(bobs, co)
			sd.st = nil
		}
		if cfg&cfgDisk != 0 && root2 != root {
			if err := e.tdb.Commit(root2, false); err != nil {
				fail("block %d: triedb.Commit: %v", bi, err)
			}
		}
		if cfg&cfgCap != 0 && e.snaps != nil && e.snaps.Snapshot(root2) != nil {
			if err := e.snaps.Cap(root2, 0); err != nil && !strings.Contains(err.Error(), "is disk layer") {
				fail("block %d: snapshot Cap: %v", bi, err)
			}
		}
		if cfg&(cfgDisk|cfgCap) != 0 { // once more, from the flattened database
			if st5, err := state.New(root2, e.sdb); err != nil {
				fail("block %d: state.New(%x) after flattening: %v", bi, root2, err)
			} else if d := pdumpImpl(st5, &fails); String(d) != String(mo[1]) {
				fail("block %d: getters after flattening differ from the pre-commit getters: %s", bi, diffAt(String(d), String(mo[1])))
			}
		}
		if root2 == root {
			tags["empty-state-update"] = true
		}
		root = root2
		nBlocksDone++
		obs = append(obs, bobs)
	}
	res.Obs = obs
	tags[fmt.Sprintf("blocks%d", nBlocksDone)] = true
	tags[fmt.Sprintf("copies%d", min(nCopies, 4))] = true
	for t := range tags {
		res.Tags = append(res.Tags, t)
	}
	sort.Strings(res.Tags)
	res.NonTrivial = nBlocksDone >= 2 && nOps >= 10
	if len(fails) > 0 {
		res.Oracle = fmt.Sprint(fails)
	}
	_ = nIR
	_ = nRecreate
	_ = flatReads
	return res
}

// ---------------------------------------------------------------------------
// generator

func (r *ref) clone() *ref {
	d := &ref{cur: r.cur.copy(), next: r.next, sticky: r.sticky, th: r.th, ti: r.ti}
	for _, s := range r.stack {
		d.stack = append(d.stack, rSnap{s.id, s.core.copy()})
	}
	return d
}

func (g *guardState) clone() *guardState {
	d := &guardState{originOK: map[int]bool{}, unguarded: g.unguarded}
	for k, v := range g.originOK {
		d.originOK[k] = v
	}
	return d
}

// guardFromRef recomputes originOK at a block boundary: the committed state is the reference state
func guardFromRef(rf *ref) *guardState {
	g := &guardState{originOK: map[int]bool{}}
	for a := 0; a < 256; a++ {
		g.originOK[a] = true
	}
	for a, x := range rf.cur.accts {
		hasStor := false
		for _, v := range x.stor {
			if v.Sign() != 0 {
				hasStor = true
			}
		}
		g.originOK[a] = x.nonce == 0 && x.code == 0 && !hasStor
	}
	return g
}

type genCtx struct {
	r  *Rng
	rf *ref
	g  *guardState
	rs int
	tx int
}

func (c *genCtx) emit(o op) op {
	if o.v == nil {
		o.v = new(big.Int)
	}
	c.g.before(c.rf, o)
	before := map[int]bool{}
	for a := range c.rf.cur.accts {
		before[a] = true
	}
	c.rf.step(o)
	c.g.after(before, c.rf, o)
	return o
}

// randOp produces zero, one or two ops (as in harness/c13), all inside the guards
func (c *genCtx) randOps() []op {
	r, rf, g, rs := c.r, c.rf, c.g, c.rs
	var out []op
	em := func(o op) { out = append(out, c.emit(o)) }
	a, k := r.Range(1, 4), r.Intn(4)
	use6780 := rs&8 != 0
	switch r.Intn(26) {
	case 0:
		if rf.cur.accts[a] == nil {
			em(op{tag: opCreateAccount, a: a})
		}
	case 1:
		x := rf.cur.accts[a]
		switch {
		case x == nil:
		case rs&2 != 0 && !g.originOK[a]:
		default:
			em(op{tag: opCreateContract, a: a})
			em(op{tag: opSetNonce, a: a, v: big.NewInt(1)})
		}
	case 2, 3:
		v := randWord(r)
		if r.Chance(1, 3) {
			v = new(big.Int)
		}
		em(op{tag: opAddBalance, a: a, v: v})
	case 4:
		em(op{tag: opSubBalance, a: a, v: randWord(r)})
	case 5:
		em(op{tag: opSetBalance, a: a, v: randWord(r)})
	case 6:
		em(op{tag: opSetNonce, a: a, v: randU64(r)})
	case 7:
		em(op{tag: opSetCode, a: a, v: big.NewInt(int64(r.Intn(4)))})
	case 8, 9, 10, 11, 12:
		em(op{tag: opSetState, a: a, k: k, v: randWord(r)})
	case 13:
		em(op{tag: opSetTransient, a: a, k: k, v: randWord(r)})
	case 14, 15:
		if use6780 {
			em(op{tag: opSelfDestruct6780, a: a})
		} else {
			em(op{tag: opSelfDestruct, a: a})
		}
	case 16:
		em(op{tag: opAddAddress, a: a})
	case 17:
		em(op{tag: opAddSlot, a: a, k: k})
	case 18:
		em(op{tag: opAddRefund, v: randU64(r)})
	case 19:
		em(op{tag: opAddLog, a: a, v: big.NewInt(int64(r.Intn(200)))})
	case 20, 21, 22:
		if len(rf.stack) < 5 {
			em(op{tag: opSnapshot})
		}
	default:
		if len(rf.stack) > 0 {
			pick := rf.stack[len(rf.stack)-1]
			if r.Chance(1, 3) {
				pick = rf.stack[r.Intn(len(rf.stack))]
			}
			em(op{tag: opRevert, v: big.NewInt(int64(pick.id))})
		}
	}
	return out
}

// fixNewContracts: every new contract has been touched by tx end (evm.create sets the nonce)
func (c *genCtx) fixNewContracts() []op {
	var fix []int
	for a, x := range c.rf.cur.accts {
		if x.created && !(c.rf.cur.touched[a] || (c.rf.sticky && a == ripemd)) {
			fix = append(fix, a)
		}
	}
	sort.Ints(fix)
	var out []op
	for _, a := range fix {
		out = append(out, c.emit(op{tag: opSetNonce, a: a, v: big.NewInt(1)}))
	}
	return out
}

func (c *genCtx) txStart() op {
	r := c.r
	tx := c.tx
	c.tx++
	start := op{tag: opTxStart, th: tx%5 + 1, ti: tx, rules: c.rs, sender: r.Range(1, 4), coinbase: r.Range(1, 4), dst: -1}
	if r.Bool() {
		start.dst = r.Range(1, 4)
	}
	for n := r.Intn(2); n > 0; n-- {
		e := alEntry{addr: r.Range(1, 4)}
		for m := r.Intn(3); m > 0; m-- {
			e.slots = append(e.slots, r.Intn(4))
		}
		start.al = append(start.al, e)
	}
	return c.emit(start)
}

// scripted transactions that make the interesting interactions frequent
func (c *genCtx) scriptedTx(kind int, a int) []op {
	r := c.r
	var out []op
	em := func(o op) { out = append(out, c.emit(o)) }
	x := c.rf.cur.accts[a]
	switch kind {
	case 0: // populate: contract-like account with storage
		if x == nil {
			em(op{tag: opCreateAccount, a: a})
		}
		em(op{tag: opSetNonce, a: a, v: big.NewInt(int64(1 + r.Intn(3)))})
		em(op{tag: opSetBalance, a: a, v: randWord(r)})
		em(op{tag: opSetCode, a: a, v: big.NewInt(int64(1 + r.Intn(3)))})
		for k := 0; k < 4; k++ {
			if r.Chance(2, 3) {
				em(op{tag: opSetState, a: a, k: k, v: big.NewInt(int64(1 + r.Intn(5)))})
			}
		}
	case 1: // destruct an existing account (pre-Cancun: raw SELFDESTRUCT)
		if x != nil && c.rs&8 == 0 {
			em(op{tag: opSelfDestruct, a: a})
		}
	case 2: // (re)create with different storage
		if x == nil {
			em(op{tag: opCreateAccount, a: a})
			if c.rs&2 == 0 || c.g.originOK[a] {
				em(op{tag: opCreateContract, a: a})
			}
			em(op{tag: opSetNonce, a: a, v: big.NewInt(1)})
			em(op{tag: opAddBalance, a: a, v: big.NewInt(int64(r.Intn(3)))})
			for n := r.Intn(3); n > 0; n-- {
				em(op{tag: opSetState, a: a, k: r.Intn(4), v: big.NewInt(int64(6 + r.Intn(3)))})
			}
			if r.Bool() {
				em(op{tag: opSetCode, a: a, v: big.NewInt(int64(1 + r.Intn(3)))})
			}
		}
	case 3: // 6780: create and destroy inside one transaction
		if x == nil && c.rs&8 != 0 {
			em(op{tag: opCreateAccount, a: a})
			em(op{tag: opCreateContract, a: a})
			em(op{tag: opSetNonce, a: a, v: big.NewInt(1)})
			em(op{tag: opSetState, a: a, k: r.Intn(4), v: big.NewInt(9)})
			if r.Bool() {
				em(op{tag: opAddBalance, a: a, v: big.NewInt(int64(r.Intn(3)))})
			}
			em(op{tag: opSelfDestruct6780, a: a})
		}
	case 4: // write slots and write them back (uncommittedStorage bookkeeping)
		if x != nil {
			k := r.Intn(4)
			old := new(big.Int).Set(sval(x.stor, k))
			em(op{tag: opSetState, a: a, k: k, v: big.NewInt(int64(11 + r.Intn(3)))})
			if r.Bool() {
				out = append(out, c.fixNewContracts()...)
				em(op{tag: opFinalise, rules: c.rs})
				out = append(out, c.txStart()) // transaction boundary inside the script
			}
			em(op{tag: opSetState, a: a, k: k, v: old})
		}
	case 5: // clear slots
		if x != nil {
			for k := 0; k < 4; k++ {
				if r.Bool() {
					em(op{tag: opSetState, a: a, k: k, v: new(big.Int)})
				}
			}
		}
	}
	return out
}

func genCase(r *Rng, big_ bool) Sx {
	cfg := r.Intn(32)
	if cfg&cfgCap != 0 && (cfg&cfgSnap == 0) {
		cfg &^= cfgCap
	}
	ri := r.Intn(len(ruleSets))
	if r.Chance(1, 3) {
		ri = r.Intn(2) // storage wiping needs pre-Cancun rules
	}
	c := &genCtx{r: r, rf: newRef(nil), g: newGuard(nil), rs: ruleSets[ri]}
	nblocks := r.Range(1, 5)
	if big_ {
		nblocks = r.Range(4, 8)
	}
	var blocks []block
	for bi := 0; bi < nblocks; bi++ {
		if bi > 0 && r.Chance(1, 6) && ri < len(ruleSets)-1 {
			ri++
			c.rs = ruleSets[ri]
		}
		c.g = guardFromRef(c.rf)
		c.rf.cur.logs = nil
		b := block{rules: c.rs}
		add := func(ops []op) {
			for _, o := range ops {
				b.items = append(b.items, item{kind: 0, o: o})
			}
		}
		ntx := r.Range(1, 5)
		sidesLeft := 3
		var live []*genCtx
		addCopy := func() {
			sidesLeft--
			var it item
			var sc *genCtx
			if len(live) > 0 && r.Chance(1, 4) {
				i := r.Intn(len(live))
				it, sc = c.copyItem(live[i], i)
			} else {
				it, sc = c.copyItem(nil, 0)
			}
			b.items = append(b.items, it)
			if it.mode != 3 {
				live = append(live, sc)
			}
		}
		addDiverge := func() {
			sidesLeft--
			its, sc := c.diverge()
			b.items = append(b.items, its...)
			for _, it := range its {
				if it.kind == 2 && it.mode != 3 {
					live = append(live, sc)
				}
			}
		}
		for t := 0; t < ntx; t++ {
			if t > 0 || r.Chance(4, 5) {
				add([]op{c.txStart()})
			} else {
				c.tx++
			}
			if r.Chance(2, 5) || (bi == 0 && t == 0) {
				kind := r.Intn(6)
				if bi == 0 && t == 0 {
					kind = 0
				}
				add(c.scriptedTx(kind, r.Range(1, 4)))
			}
			nops := r.Range(1, 7)
			for n := 0; n < nops; n++ {
				add(c.randOps())
				if sidesLeft > 0 && r.Chance(1, 25) { // copy in the middle of a transaction
					addCopy()
				}
				if sidesLeft > 0 && r.Chance(1, 30) {
					addDiverge()
				}
			}
			add(c.fixNewContracts())
			add([]op{c.emit(op{tag: opFinalise, rules: c.rs})})
			if r.Chance(1, 5) {
				b.items = append(b.items, item{kind: 1})
			}
			if sidesLeft > 0 && r.Chance(1, 6) { // copy between transactions
				addCopy()
			}
			if sidesLeft > 0 && r.Chance(1, 6) {
				addDiverge()
			}
		}
		// the harness finalises what is left at the end of the block (IntermediateRoot with this block's rules):
		// do the same in the reference, explicitly, so that no touched/dirty marks leak into the next block
		// (whose rules may differ)
		add(c.fixNewContracts())
		add([]op{c.emit(op{tag: opFinalise, rules: c.rs})})
		blocks = append(blocks, b)
	}
	return encodeCase(cfg, blocks)
}

// copyItem: a copy (of the main state, or of the live side branch from when src != nil) whose side branch is
// mutated by ops generated against a clone of the reference; returns the generator context of the side branch
func (c *genCtx) copyItem(src *genCtx, from int) (item, *genCtx) {
	it := item{kind: 2, swap: c.r.Chance(1, 3), mode: []int{0, 1, 1, 2, 2, 3, 3, 3}[c.r.Intn(8)]}
	base := c
	if src != nil {
		it.kind, it.swap, it.from = 3, false, from
		base = src
	}
	sc := &genCtx{r: c.r, rf: base.rf.clone(), g: base.g.clone(), rs: c.rs, tx: c.tx}
	for n := c.r.Intn(6); n > 0; n-- {
		it.ops = append(it.ops, sc.randOps()...)
	}
	if c.r.Chance(1, 3) {
		it.ops = append(it.ops, sc.scriptedTx(c.r.Intn(6), c.r.Range(1, 4))...)
	}
	if c.r.Chance(1, 3) {
		it.ops = append(it.ops, sc.fixNewContracts()...)
		it.ops = append(it.ops, sc.emit(op{tag: opFinalise, rules: c.rs}))
	}
	return it, sc
}

// diverge: the main state touches account a, is copied, and the two branches continue differently on the
// same account: the side branch writes slot k (and is committed before, after or long before the main state),
// the main state reads it, writes exactly the same value, another value, or another slot
func (c *genCtx) diverge() ([]item, *genCtx) {
	r := c.r
	a, k := r.Range(1, 4), r.Intn(4)
	v := big.NewInt(int64(21 + r.Intn(4)))
	var out []item
	emitMain := func(o op) { out = append(out, item{kind: 0, o: c.emit(o)}) }
	switch r.Intn(3) { // make the object live in the main state
	case 0:
		emitMain(op{tag: opSetState, a: a, k: (k + 1) % 4, v: big.NewInt(int64(31 + r.Intn(3)))})
	case 1:
		emitMain(op{tag: opAddBalance, a: a, v: big.NewInt(1)})
	default:
		emitMain(op{tag: opSetState, a: a, k: k, v: big.NewInt(int64(41 + r.Intn(3)))})
	}
	if r.Bool() {
		for _, o := range c.fixNewContracts() {
			out = append(out, item{kind: 0, o: o})
		}
		emitMain(op{tag: opFinalise, rules: c.rs})
	}
	it := item{kind: 2, swap: r.Chance(1, 3), mode: []int{1, 2, 3, 3}[r.Intn(4)]}
	sc := &genCtx{r: r, rf: c.rf.clone(), g: c.g.clone(), rs: c.rs, tx: c.tx}
	it.ops = append(it.ops, sc.emit(op{tag: opSetState, a: a, k: k, v: v}))
	if r.Bool() {
		it.ops = append(it.ops, sc.emit(op{tag: opSetState, a: a, k: (k + 2) % 4, v: big.NewInt(int64(51 + r.Intn(3)))}))
	}
	for n := r.Intn(3); n > 0; n-- {
		it.ops = append(it.ops, sc.randOps()...)
	}
	out = append(out, it)
	switch r.Intn(5) {
	case 0: // the main state only reads
	case 1, 2: // exactly the value the side branch commits
		emitMain(op{tag: opSetState, a: a, k: k, v: v})
	case 3:
		emitMain(op{tag: opSetState, a: a, k: k, v: big.NewInt(int64(61 + r.Intn(3)))})
	default:
		emitMain(op{tag: opSetState, a: a, k: (k + 3) % 4, v: v})
	}
	return out, sc
}

func gen(r *Rng, tier string, emit func(Sx)) {
	r = NewRng(r.U64())
	n := 320
	if tier == "thorough" {
		n = 6000
	}
	for i := 0; i < n; i++ {
		emit(genCase(r.Fork(), i%5 == 4))
	}
	// malformed / adversarial stream: API misuse the guards exclude, commit errors
	for i := 0; i < n/20; i++ {
		emit(genAdversarial(r.Fork()))
	}
}

// genAdversarial: destruct accounts with storage under Cancun rules (Commit must fail with
// "unexpected storage wiping"), raw SelfDestruct under Amsterdam, invalid revert ids
func genAdversarial(r *Rng) Sx {
	cfg := r.Intn(16)
	c := &genCtx{r: r, rf: newRef(nil), g: newGuard(nil), rs: ruleSets[1]}
	var blocks []block
	b := block{rules: c.rs}
	for _, o := range c.scriptedTx(0, 1) {
		b.items = append(b.items, item{kind: 0, o: o})
	}
	b.items = append(b.items, item{kind: 0, o: c.emit(op{tag: opFinalise, rules: c.rs})})
	blocks = append(blocks, b)
	c.rs = ruleSets[2+r.Intn(2)]
	c.g = guardFromRef(c.rf)
	b = block{rules: c.rs}
	b.items = append(b.items, item{kind: 0, o: c.txStart()})
	switch r.Intn(3) {
	case 0:
		b.items = append(b.items, item{kind: 0, o: c.emit(op{tag: opCreateContract, a: 1})},
			item{kind: 0, o: c.emit(op{tag: opSetNonce, a: 1, v: big.NewInt(1)})},
			item{kind: 0, o: c.emit(op{tag: opSelfDestruct6780, a: 1})})
	case 1:
		b.items = append(b.items, item{kind: 0, o: c.emit(op{tag: opSetBalance, a: 1, v: new(big.Int)})},
			item{kind: 0, o: c.emit(op{tag: opSelfDestruct, a: 1})})
	default:
		b.items = append(b.items, item{kind: 0, o: c.emit(op{tag: opSnapshot})},
			item{kind: 0, o: c.emit(op{tag: opSetState, a: 1, k: 0, v: big.NewInt(77)})},
			item{kind: 0, o: c.emit(op{tag: opRevert, v: big.NewInt(5)})},
			item{kind: 0, o: c.emit(op{tag: opRevert, v: big.NewInt(0)})})
	}
	b.items = append(b.items, item{kind: 0, o: c.emit(op{tag: opFinalise, rules: c.rs})})
	blocks = append(blocks, b)
	b = block{rules: c.rs}
	b.items = append(b.items, item{kind: 0, o: c.txStart()}, item{kind: 0, o: c.emit(op{tag: opAddBalance, a: 2, v: big.NewInt(1)})},
		item{kind: 0, o: c.emit(op{tag: opFinalise, rules: c.rs})})
	blocks = append(blocks, b)
	return encodeCase(cfg, blocks)
}

func main() {
	Main(Family{
		ID: "C14",
		Rule: "chains of 1-5 blocks (every fifth case 4-8) from the empty state over addresses 1..4 x slots 0..3; each block is state.New(previous root) " +
			"followed by 1-5 transactions (SetTxContext+Prepare, 1-7 random StateDB calls as in C13 incl. nested snapshots/reverts, Finalise) mixed with scripted " +
			"transactions (populate a contract with storage, SELFDESTRUCT an existing account, re-create it with different storage in the same or a later " +
			"transaction/block, EIP-6780 create+destroy in one transaction, write a slot and write it back across a transaction boundary, clear slots), " +
			"IntermediateRoot between transactions (1 in 5), up to 3 Copy() per block taken between or in the middle of transactions " +
			"(of the main state or of a live side branch: copies of copies) whose side branch is mutated independently (1 in 3 the copy continues as the main state) and is then " +
			"only hashed at block end, or COMMITTED into the same database and reopened before the main state, after it, or at once while the main state carries on; scripted divergence: " +
			"touch an account, copy, the side branch writes a slot and commits, the main state reads that slot / writes exactly the same value / another value / another slot; " +
			"then IntermediateRoot, Commit, state.New(root) for the main state. Rule sets {pre-158, 158, Cancun/6780, Amsterdam}, " +
			"possibly advancing between blocks. cfg = scheme {hash, path} x snapshot tree x prefetcher x triedb.Commit per block x snapshot cap. " +
			"Adversarial stream (5%): destruct of an account with storage under Cancun/Amsterdam rules (Commit must fail: unexpected storage wiping), invalid revert ids. " +
			"Non-trivial: at least 2 committed blocks and 10 calls; distinct = distinct case line.",
		Gen: gen,
		Run: run,
	})
}
