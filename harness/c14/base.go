// base.go: op encoding, the naive reference account model, guards, applyOp and the getter
// dump, copied from harness/c13/main.go (family c13) for use by family c14.
package main

import (
	"fmt"
	"math/big"
	"sort"

	"github.com/ethereum/go-ethereum/common"
	"github.com/ethereum/go-ethereum/core/state"
	"github.com/ethereum/go-ethereum/core/tracing"
	"github.com/ethereum/go-ethereum/core/types"
	"github.com/ethereum/go-ethereum/crypto"
	"github.com/ethereum/go-ethereum/params"
	"github.com/holiman/uint256"
	. "gethverif/harness/hxlib"
)

const (
	opCreateAccount = iota
	opCreateContract
	opAddBalance
	opSubBalance
	opSetBalance
	opSetNonce
	opSetCode
	opSetState
	opSetTransient
	opSelfDestruct
	opSelfDestruct6780
	opAddAddress
	opAddSlot
	opAddRefund
	opSubRefund
	opAddLog
	opSnapshot
	opRevert
	opFinalise
	opTxStart
)

var opNames = []string{"createAccount", "createContract", "addBalance", "subBalance", "setBalance", "setNonce",
	"setCode", "setState", "setTransient", "selfDestruct", "selfDestruct6780", "addAddress", "addSlot",
	"addRefund", "subRefund", "addLog", "snapshot", "revert", "finalise", "txStart"}

var (
	w256   = new(big.Int).Lsh(big.NewInt(1), 256)
	w64    = new(big.Int).Lsh(big.NewInt(1), 64)
	ripemd = 3
)

func addrOf(a int) common.Address { return common.BytesToAddress([]byte{byte(a)}) }
func hashOf(k int) common.Hash    { return common.BytesToHash([]byte{byte(k)}) }
func wordOf(v *big.Int) common.Hash {
	return common.BigToHash(v)
}
func codeOf(c int) []byte {
	b := make([]byte, c)
	for i := range b {
		b[i] = byte(0xC0 + c)
	}
	return b
}

var codeHashID = map[common.Hash]int{}

func init() {
	for c := 0; c < 8; c++ {
		codeHashID[crypto.Keccak256Hash(codeOf(c))] = c + 1
	}
	codeHashID[common.Hash{}] = 0
}

func rulesOf(bits int) params.Rules {
	return params.Rules{IsEIP158: bits&1 != 0, IsAmsterdam: bits&2 != 0, IsEIP2929: bits&4 != 0, IsShanghai: bits&8 != 0,
		IsBerlin: bits&4 != 0, IsCancun: bits&8 != 0}
}

// ---------------------------------------------------------------------------
// decoded case

type dbAcct struct {
	addr  int
	nonce uint64
	bal   *big.Int
	code  int
	stor  [][2]*big.Int // slot, value
}

type alEntry struct {
	addr  int
	slots []int
}

type op struct {
	tag              int
	a, k             int
	v                *big.Int // value / amount / nonce / gas / id / data
	rules            int
	th, ti           int
	sender, coinbase int
	dst              int // -1 = none
	al               []alEntry
}

func encodeOp(o op) Sx {
	switch o.tag {
	case opCreateAccount, opCreateContract, opSelfDestruct, opSelfDestruct6780, opAddAddress:
		return L(I(int64(o.tag)), I(int64(o.a)))
	case opAddBalance, opSubBalance, opSetBalance, opSetNonce, opSetCode, opAddLog:
		return L(I(int64(o.tag)), I(int64(o.a)), Big(o.v))
	case opSetState, opSetTransient:
		return L(I(int64(o.tag)), I(int64(o.a)), I(int64(o.k)), Big(o.v))
	case opAddSlot:
		return L(I(int64(o.tag)), I(int64(o.a)), I(int64(o.k)))
	case opAddRefund, opSubRefund, opRevert:
		return L(I(int64(o.tag)), Big(o.v))
	case opSnapshot:
		return L(I(int64(o.tag)))
	case opFinalise:
		return L(I(int64(o.tag)), I(int64(o.rules)))
	case opTxStart:
		dst := SL{}
		if o.dst >= 0 {
			dst = SL{I(int64(o.dst))}
		}
		al := SL{}
		for _, e := range o.al {
			ks := SL{}
			for _, k := range e.slots {
				ks = append(ks, I(int64(k)))
			}
			al = append(al, L(I(int64(e.addr)), ks))
		}
		return L(I(int64(o.tag)), I(int64(o.th)), I(int64(o.ti)), I(int64(o.rules)), I(int64(o.sender)), I(int64(o.coinbase)), dst, al)
	}
	panic("hxlib: encodeOp")
}

// ---------------------------------------------------------------------------
// the naive reference implementation (the oracle): whole-state copies

type rAcct struct {
	nonce   uint64
	bal     *big.Int
	code    int
	stor    map[int]*big.Int
	cstor   map[int]*big.Int
	created bool
	sd      bool
}

func newRAcct() *rAcct {
	return &rAcct{bal: new(big.Int), stor: map[int]*big.Int{}, cstor: map[int]*big.Int{}}
}
func (x *rAcct) empty() bool { return x.nonce == 0 && x.bal.Sign() == 0 && x.code == 0 }
func (x *rAcct) copy() *rAcct {
	y := &rAcct{nonce: x.nonce, bal: new(big.Int).Set(x.bal), code: x.code, created: x.created, sd: x.sd,
		stor: map[int]*big.Int{}, cstor: map[int]*big.Int{}}
	for k, v := range x.stor {
		y.stor[k] = v
	}
	for k, v := range x.cstor {
		y.cstor[k] = v
	}
	return y
}

type rLog struct{ th, ti, idx, addr, data int }

type rCore struct {
	accts   map[int]*rAcct
	touched map[int]bool
	tstor   map[[2]int]*big.Int
	alA     map[int]bool
	alS     map[[2]int]bool
	refund  *big.Int
	logs    []rLog
}

func (c *rCore) copy() *rCore {
	d := &rCore{accts: map[int]*rAcct{}, touched: map[int]bool{}, tstor: map[[2]int]*big.Int{}, alA: map[int]bool{},
		alS: map[[2]int]bool{}, refund: new(big.Int).Set(c.refund), logs: append([]rLog{}, c.logs...)}
	for a, x := range c.accts {
		d.accts[a] = x.copy()
	}
	for a := range c.touched {
		d.touched[a] = true
	}
	for k, v := range c.tstor {
		d.tstor[k] = v
	}
	for a := range c.alA {
		d.alA[a] = true
	}
	for k := range c.alS {
		d.alS[k] = true
	}
	return d
}

type rSnap struct {
	id   int
	core *rCore
}

type ref struct {
	cur    *rCore
	stack  []rSnap
	next   int
	sticky bool
	th, ti int
}

func newRef(db []dbAcct) *ref {
	c := &rCore{accts: map[int]*rAcct{}, touched: map[int]bool{}, tstor: map[[2]int]*big.Int{}, alA: map[int]bool{},
		alS: map[[2]int]bool{}, refund: new(big.Int)}
	for _, d := range db {
		x := newRAcct()
		x.nonce, x.bal, x.code = d.nonce, new(big.Int).Set(d.bal), d.code
		for _, sv := range d.stor {
			if sv[1].Sign() != 0 {
				x.stor[int(sv[0].Int64())] = sv[1]
				x.cstor[int(sv[0].Int64())] = sv[1]
			}
		}
		c.accts[d.addr] = x
	}
	return &ref{cur: c}
}

func (r *ref) getOrNew(a int) *rAcct {
	x := r.cur.accts[a]
	if x == nil {
		x = newRAcct()
		r.cur.accts[a] = x
		r.cur.touched[a] = true
	}
	return x
}

func sval(m map[int]*big.Int, k int) *big.Int {
	if v, ok := m[k]; ok {
		return v
	}
	return new(big.Int)
}

// step returns 0 none / 1 panic / id+2
func (r *ref) step(o op) int {
	c := r.cur
	switch o.tag {
	case opCreateAccount:
		c.accts[o.a] = newRAcct()
		c.touched[o.a] = true
	case opCreateContract:
		x := c.accts[o.a]
		if x == nil {
			return 1
		}
		x.created = true
	case opAddBalance:
		x := r.getOrNew(o.a)
		if o.v.Sign() == 0 {
			if x.empty() {
				c.touched[o.a] = true
				if o.a == ripemd {
					r.sticky = true
				}
			}
		} else {
			x.bal = new(big.Int).Mod(new(big.Int).Add(x.bal, o.v), w256)
			c.touched[o.a] = true
		}
	case opSubBalance:
		x := r.getOrNew(o.a)
		if o.v.Sign() != 0 {
			x.bal = new(big.Int).Mod(new(big.Int).Sub(x.bal, o.v), w256)
			c.touched[o.a] = true
		}
	case opSetBalance:
		x := r.getOrNew(o.a)
		x.bal = new(big.Int).Set(o.v)
		c.touched[o.a] = true
	case opSetNonce:
		x := r.getOrNew(o.a)
		x.nonce = o.v.Uint64()
		c.touched[o.a] = true
	case opSetCode:
		x := r.getOrNew(o.a)
		x.code = int(o.v.Int64())
		c.touched[o.a] = true
	case opSetState:
		x := r.getOrNew(o.a)
		if sval(x.stor, o.k).Cmp(o.v) != 0 {
			x.stor[o.k] = new(big.Int).Set(o.v)
			c.touched[o.a] = true
		}
	case opSetTransient:
		key := [2]int{o.a, o.k}
		if o.v.Sign() == 0 {
			delete(c.tstor, key)
		} else {
			c.tstor[key] = new(big.Int).Set(o.v)
		}
	case opSelfDestruct:
		if x := c.accts[o.a]; x != nil && !x.sd {
			x.sd = true
			c.touched[o.a] = true
		}
	case opSelfDestruct6780:
		if x := c.accts[o.a]; x != nil && x.created && !x.sd {
			x.sd = true
			c.touched[o.a] = true
		}
	case opAddAddress:
		c.alA[o.a] = true
	case opAddSlot:
		c.alA[o.a] = true
		c.alS[[2]int{o.a, o.k}] = true
	case opAddRefund:
		c.refund = new(big.Int).Mod(new(big.Int).Add(c.refund, o.v), w64)
	case opSubRefund:
		if o.v.Cmp(c.refund) > 0 {
			return 1
		}
		c.refund = new(big.Int).Sub(c.refund, o.v)
	case opAddLog:
		c.logs = append(c.logs, rLog{r.th, r.ti, len(c.logs), o.a, int(o.v.Int64())})
	case opSnapshot:
		id := r.next
		r.next++
		r.stack = append(r.stack, rSnap{id, c.copy()})
		return id + 2
	case opRevert:
		for i := len(r.stack) - 1; i >= 0; i-- {
			if o.v.IsInt64() && int64(r.stack[i].id) == o.v.Int64() {
				r.cur = r.stack[i].core
				r.stack = r.stack[:i]
				return 0
			}
		}
		return 1
	case opFinalise:
		is158, isAms := o.rules&1 != 0, o.rules&2 != 0
		for a, x := range c.accts {
			touched := c.touched[a] || (r.sticky && a == ripemd)
			switch {
			case x.sd:
				if isAms && x.bal.Sign() != 0 {
					y := newRAcct()
					y.bal = x.bal
					c.accts[a] = y
				} else {
					delete(c.accts, a)
				}
			case is158 && touched && x.empty():
				delete(c.accts, a)
			default:
				x.cstor = map[int]*big.Int{}
				for k, v := range x.stor {
					x.cstor[k] = v
				}
				x.created = false
			}
		}
		c.touched = map[int]bool{}
		c.refund = new(big.Int)
		r.stack = nil
		r.next = 0
		r.sticky = false
	case opTxStart:
		r.th, r.ti = o.th, o.ti
		if o.rules&4 != 0 {
			c.alA = map[int]bool{o.sender: true}
			c.alS = map[[2]int]bool{}
			if o.dst >= 0 {
				c.alA[o.dst] = true
			}
			for _, e := range o.al {
				c.alA[e.addr] = true
				for _, k := range e.slots {
					c.alS[[2]int{e.addr, k}] = true
				}
			}
			if o.rules&8 != 0 {
				c.alA[o.coinbase] = true
			}
		}
		c.tstor = map[[2]int]*big.Int{}
	}
	return 0
}

func b2i(b bool) int64 {
	if b {
		return 1
	}
	return 0
}

var dumpAddrs = []int{1, 2, 3, 4}
var dumpSlots = []int{0, 1, 2, 3}
var dumpHashes = []int{1, 2, 3, 4, 5}

func (r *ref) dump() Sx {
	c := r.cur
	out := SL{}
	for _, a := range dumpAddrs {
		x := c.accts[a]
		if x == nil {
			out = append(out, I(0), I(1), I(0), I(0), I(0), I(0), I(0), I(0))
		} else {
			out = append(out, I(1), I(b2i(x.empty())), Big(x.bal), U(x.nonce), I(int64(x.code)), I(int64(x.code+1)),
				I(b2i(x.sd)), I(b2i(x.created)))
		}
		out = append(out, I(b2i(c.alA[a])))
		for _, k := range dumpSlots {
			st, cst := new(big.Int), new(big.Int)
			if x != nil {
				st, cst = sval(x.stor, k), sval(x.cstor, k)
			}
			ts := new(big.Int)
			if v, ok := c.tstor[[2]int{a, k}]; ok {
				ts = v
			}
			out = append(out, Big(st), Big(cst), Big(ts), I(b2i(c.alS[[2]int{a, k}])))
		}
	}
	out = append(out, Big(c.refund))
	for _, th := range dumpHashes {
		ls := SL{}
		for _, l := range c.logs {
			if l.th == th {
				ls = append(ls, L(I(int64(l.ti)), I(int64(l.idx)), I(int64(l.addr)), I(int64(l.data))))
			}
		}
		out = append(out, ls)
	}
	return out
}

// guard bookkeeping in reference terms (see Journal.v op_ok): the histories on which
// the reference is the specification
type guardState struct {
	originOK  map[int]bool // committed account absent or blank (nonce 0, no code, no storage), or deleted in this block
	unguarded string
}

func newGuard(db []dbAcct) *guardState {
	g := &guardState{originOK: map[int]bool{}}
	for a := 0; a < 256; a++ {
		g.originOK[a] = true
	}
	for _, d := range db {
		hasStor := false
		for _, sv := range d.stor {
			if sv[1].Sign() != 0 {
				hasStor = true
			}
		}
		g.originOK[d.addr] = d.nonce == 0 && d.code == 0 && !hasStor
	}
	return g
}

// before executes the guard check of op o on reference state r (before the op)
func (g *guardState) before(r *ref, o op) {
	if g.unguarded != "" {
		return
	}
	switch o.tag {
	case opCreateAccount:
		if r.cur.accts[o.a] != nil {
			g.unguarded = "createAccount-over-existing"
		}
	case opTxStart:
		if len(r.stack) != 0 || len(r.cur.touched) != 0 {
			g.unguarded = "txStart-mid-tx"
		}
	case opFinalise:
		for a, x := range r.cur.accts {
			touched := r.cur.touched[a] || (r.sticky && a == ripemd)
			if x.created && !touched {
				g.unguarded = "newContract-untouched-at-finalise"
			}
			if o.rules&2 != 0 && x.sd && x.bal.Sign() != 0 && !g.originOK[a] {
				g.unguarded = "amsterdam-selfdestruct-nonblank-origin"
			}
		}
	}
}

func (g *guardState) after(rBefore map[int]bool, r *ref, o op) {
	if o.tag == opFinalise {
		for a := range rBefore {
			if r.cur.accts[a] == nil {
				g.originOK[a] = true
			}
		}
	}
}

// ---------------------------------------------------------------------------
// the implementation

func catchPanic(f func()) (panicked bool) {
	defer func() {
		if recover() != nil {
			panicked = true
		}
	}()
	f()
	return false
}

// applyOp runs one op on the real StateDB: 0 none / 1 panic / id+2
func applyOp(st *state.StateDB, o op) int {
	a := addrOf(o.a)
	switch o.tag {
	case opCreateAccount:
		st.CreateAccount(a)
	case opCreateContract:
		if catchPanic(func() { st.CreateContract(a) }) { // nil dereference when the account does not exist
			return 1
		}
	case opAddBalance:
		st.AddBalance(a, uint256.MustFromBig(o.v), tracing.BalanceChangeUnspecified)
	case opSubBalance:
		st.SubBalance(a, uint256.MustFromBig(o.v), tracing.BalanceChangeUnspecified)
	case opSetBalance:
		st.SetBalance(a, uint256.MustFromBig(o.v), tracing.BalanceChangeUnspecified)
	case opSetNonce:
		st.SetNonce(a, o.v.Uint64(), tracing.NonceChangeUnspecified)
	case opSetCode:
		st.SetCode(a, codeOf(int(o.v.Int64())), tracing.CodeChangeUnspecified)
	case opSetState:
		st.SetState(a, hashOf(o.k), wordOf(o.v))
	case opSetTransient:
		st.SetTransientState(a, hashOf(o.k), wordOf(o.v))
	case opSelfDestruct:
		st.SelfDestruct(a)
	case opSelfDestruct6780: // the guard of vm.opSelfdestruct6780
		if st.IsNewContract(a) {
			st.SelfDestruct(a)
		}
	case opAddAddress:
		st.AddAddressToAccessList(a)
	case opAddSlot:
		st.AddSlotToAccessList(a, hashOf(o.k))
	case opAddRefund:
		st.AddRefund(o.v.Uint64())
	case opSubRefund:
		if catchPanic(func() { st.SubRefund(o.v.Uint64()) }) {
			return 1
		}
	case opAddLog:
		st.AddLog(&types.Log{Address: a, Data: []byte{byte(o.v.Int64())}})
	case opSnapshot:
		return st.Snapshot() + 2
	case opRevert:
		id := int(^uint(0) >> 1)
		if o.v.IsInt64() {
			id = int(o.v.Int64())
		}
		if catchPanic(func() { st.RevertToSnapshot(id) }) {
			return 1
		}
	case opFinalise:
		st.Finalise(rulesOf(o.rules))
	case opTxStart:
		st.SetTxContext(hashOf(o.th), o.ti, uint32(o.ti+1))
		var dst *common.Address
		if o.dst >= 0 {
			d := addrOf(o.dst)
			dst = &d
		}
		var al types.AccessList
		for _, e := range o.al {
			t := types.AccessTuple{Address: addrOf(e.addr)}
			for _, k := range e.slots {
				t.StorageKeys = append(t.StorageKeys, hashOf(k))
			}
			al = append(al, t)
		}
		st.Prepare(rulesOf(o.rules), addrOf(o.sender), addrOf(o.coinbase), dst, nil, al)
	}
	return 0
}

func dumpImpl(st *state.StateDB, fails *[]string) Sx {
	out := SL{}
	for _, ai := range dumpAddrs {
		a := addrOf(ai)
		code := st.GetCode(a)
		cid := len(code)
		if string(code) != string(codeOf(cid)) {
			cid = 999
		}
		if st.GetCodeSize(a) != len(code) {
			*fails = append(*fails, fmt.Sprintf("GetCodeSize(%d)=%d but len(GetCode)=%d", ai, st.GetCodeSize(a), len(code)))
		}
		hid, ok := codeHashID[st.GetCodeHash(a)]
		if !ok {
			hid = 998
		}
		out = append(out, I(b2i(st.Exist(a))), I(b2i(st.Empty(a))), Big(st.GetBalance(a).ToBig()), U(st.GetNonce(a)),
			I(int64(cid)), I(int64(hid)), I(b2i(st.HasSelfDestructed(a))), I(b2i(st.IsNewContract(a))),
			I(b2i(st.AddressInAccessList(a))))
		for _, k := range dumpSlots {
			h := hashOf(k)
			ap, sp := st.SlotInAccessList(a, h)
			if ap != st.AddressInAccessList(a) {
				*fails = append(*fails, "SlotInAccessList.addressPresent != AddressInAccessList")
			}
			cur, com := st.GetStateAndCommittedState(a, h)
			if cur != st.GetState(a, h) || com != st.GetCommittedState(a, h) {
				*fails = append(*fails, "GetStateAndCommittedState disagrees with GetState/GetCommittedState")
			}
			out = append(out, Big(st.GetState(a, h).Big()), Big(st.GetCommittedState(a, h).Big()),
				Big(st.GetTransientState(a, h).Big()), I(b2i(sp)))
		}
	}
	out = append(out, U(st.GetRefund()))
	total := 0
	for _, th := range dumpHashes {
		ls := SL{}
		for _, l := range st.GetLogs(hashOf(th), 0, common.Hash{}, 0) {
			d := 0
			if len(l.Data) > 0 {
				d = int(l.Data[0])
			}
			if l.TxHash != hashOf(th) {
				*fails = append(*fails, "log filed under the wrong tx hash")
			}
			ls = append(ls, L(I(int64(l.TxIndex)), I(int64(l.Index)), I(int64(l.Address[19])), I(int64(d))))
			total++
		}
		out = append(out, ls)
	}
	all := st.Logs()
	if !sort.SliceIsSorted(all, func(i, j int) bool { return all[i].Index < all[j].Index }) {
		*fails = append(*fails, "Logs() not sorted by index")
	}
	for i, l := range all {
		if int(l.Index) != i {
			*fails = append(*fails, fmt.Sprintf("Logs()[%d].Index=%d: indices are not 0..n-1", i, l.Index))
			break
		}
	}
	return out
}

// diffAt shows the first differing region of two dumps
func diffAt(a, b string) string {
	i := 0
	for i < len(a) && i < len(b) && a[i] == b[i] {
		i++
	}
	lo := max(0, i-30)
	return fmt.Sprintf("@%d impl[...%s] ref[...%s]", i, a[lo:min(len(a), i+30)], b[lo:min(len(b), i+30)])
}

// ---------------------------------------------------------------------------
// generator

var ruleSets = []int{0, 1, 1 | 4 | 8, 1 | 2 | 4 | 8} // pre-158, 158, Cancun (6780 discipline), Amsterdam

func randWord(r *Rng) *big.Int {
	switch r.Intn(10) {
	case 0:
		return new(big.Int)
	case 1:
		return new(big.Int).Sub(w256, big.NewInt(int64(1+r.Intn(3))))
	case 2:
		return new(big.Int).SetBytes(r.Bytes(32))
	default:
		return big.NewInt(int64(r.Intn(6)))
	}
}

func randU64(r *Rng) *big.Int {
	switch r.Intn(8) {
	case 0:
		return new(big.Int).Sub(w64, big.NewInt(int64(1+r.Intn(3))))
	case 1:
		return new(big.Int).SetUint64(r.U64())
	default:
		return big.NewInt(int64(r.Intn(5)))
	}
}

func genDB(r *Rng) []dbAcct {
	var db []dbAcct
	for a := 1; a <= 4; a++ {
		if !r.Chance(3, 5) {
			continue
		}
		d := dbAcct{addr: a, bal: new(big.Int)}
		switch r.Intn(4) {
		case 0: // empty account (pre-EIP-158 leftover)
		case 1: // balance only
			d.bal = randWord(r)
		case 2: // EOA-like
			d.nonce = randU64(r).Uint64()
			d.bal = randWord(r)
		default: // contract
			d.nonce = uint64(1 + r.Intn(3))
			d.bal = randWord(r)
			d.code = 1 + r.Intn(3)
			for k := 0; k < 4; k++ {
				if r.Bool() {
					v := randWord(r)
					if v.Sign() != 0 {
						d.stor = append(d.stor, [2]*big.Int{big.NewInt(int64(k)), v})
					}
				}
			}
		}
		if r.Chance(1, 8) { // storage without code (possible pre-7610)
			d.stor = append(d.stor[:0], [2]*big.Int{big.NewInt(int64(r.Intn(4))), big.NewInt(int64(1 + r.Intn(5)))})
		}
		db = append(db, d)
	}
	return db
}

func encodeDB(db []dbAcct) Sx {
	out := SL{}
	for _, d := range db {
		st := SL{}
		for _, sv := range d.stor {
			st = append(st, L(Big(sv[0]), Big(sv[1])))
		}
		out = append(out, L(I(int64(d.addr)), U(d.nonce), Big(d.bal), I(int64(d.code)), st))
	}
	return out
}

// genHistory produces one history; guarded=true keeps every op inside the guards
// (the reference is then the specification); guarded=false may step outside
// (CreateContract never followed by a touch, raw SelfDestruct under Amsterdam rules).