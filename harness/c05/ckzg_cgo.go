//go:build cgo

package main

import (
	"encoding/json"
	"errors"
	"os"
	"path/filepath"
	"sync"

	gokzg4844 "github.com/crate-crypto/go-eth-kzg"
	ckzg4844 "github.com/ethereum/c-kzg-4844/v2/bindings/go"
	"github.com/ethereum/go-ethereum/common/hexutil"
	"github.com/ethereum/go-ethereum/crypto/kzg4844"
)

// bin/check builds with `-tags verif` only, so geth's own ckzg wrapper
// (crypto/kzg4844/kzg4844_ckzg_cgo.go, build tag `ckzg`) is not compiled in and
// kzg4844.UseCKZG(true) reports "unavailable".  The C library is therefore driven
// through its Go bindings directly, initialised exactly as ckzgInit does, from the
// trusted setup file of the checked tree.
var (
	ckzgOnce sync.Once
	ckzgErr  error
)

func ckzgLoad() {
	repo := os.Getenv("VERIF_REPO")
	if repo == "" {
		repo = "/repo"
	}
	config, err := os.ReadFile(filepath.Join(repo, "crypto", "kzg4844", "trusted_setup.json"))
	if err != nil {
		ckzgErr = err
		return
	}
	params := new(gokzg4844.JSONTrustedSetup)
	if err = json.Unmarshal(config, params); err != nil {
		ckzgErr = err
		return
	}
	g1Lag := make([]byte, len(params.SetupG1Lagrange)*(len(params.SetupG1Lagrange[0])-2)/2)
	for i, g1 := range params.SetupG1Lagrange {
		copy(g1Lag[i*(len(g1)-2)/2:], hexutil.MustDecode(g1))
	}
	g1s := make([]byte, len(params.SetupG1Monomial)*(len(params.SetupG1Monomial[0])-2)/2)
	for i, g1 := range params.SetupG1Monomial {
		copy(g1s[i*(len(g1)-2)/2:], hexutil.MustDecode(g1))
	}
	g2s := make([]byte, len(params.SetupG2)*(len(params.SetupG2[0])-2)/2)
	for i, g2 := range params.SetupG2 {
		copy(g2s[i*(len(g2)-2)/2:], hexutil.MustDecode(g2))
	}
	ckzgErr = ckzg4844.LoadTrustedSetup(g1s, g1Lag, g2s, 6)
}

var errInvalid = errors.New("invalid proof")

func ckzgBackend() (kzgBackend, bool) {
	ckzgOnce.Do(ckzgLoad)
	if ckzgErr != nil {
		return kzgBackend{}, false
	}
	return kzgBackend{
		name: "ckzg",
		verifyProof: func(c kzg4844.Commitment, z kzg4844.Point, y kzg4844.Claim, p kzg4844.Proof) error {
			ok, err := ckzg4844.VerifyKZGProof(ckzg4844.Bytes48(c), ckzg4844.Bytes32(z), ckzg4844.Bytes32(y), ckzg4844.Bytes48(p))
			if err != nil {
				return err
			}
			if !ok {
				return errInvalid
			}
			return nil
		},
		verifyBlob: func(b *kzg4844.Blob, c kzg4844.Commitment, p kzg4844.Proof) error {
			ok, err := ckzg4844.VerifyBlobKZGProof((*ckzg4844.Blob)(b), ckzg4844.Bytes48(c), ckzg4844.Bytes48(p))
			if err != nil {
				return err
			}
			if !ok {
				return errInvalid
			}
			return nil
		},
		toCommitment: func(b *kzg4844.Blob) (kzg4844.Commitment, error) {
			c, err := ckzg4844.BlobToKZGCommitment((*ckzg4844.Blob)(b))
			return kzg4844.Commitment(c), err
		},
		computeProof: func(b *kzg4844.Blob, z kzg4844.Point) (kzg4844.Proof, kzg4844.Claim, error) {
			p, y, err := ckzg4844.ComputeKZGProof((*ckzg4844.Blob)(b), ckzg4844.Bytes32(z))
			return kzg4844.Proof(p), kzg4844.Claim(y), err
		},
		computeBProof: func(b *kzg4844.Blob, c kzg4844.Commitment) (kzg4844.Proof, error) {
			p, err := ckzg4844.ComputeBlobKZGProof((*ckzg4844.Blob)(b), ckzg4844.Bytes48(c))
			return kzg4844.Proof(p), err
		},
	}, true
}
