//go:build !cgo

package main

// without cgo the C library cannot be linked: only go-eth-kzg runs
func ckzgBackend() (kzgBackend, bool) { return kzgBackend{}, false }
