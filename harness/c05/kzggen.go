package main

import (
	"math/big"

	. "gethverif/harness/hxlib"
	"github.com/ethereum/go-ethereum/crypto/kzg4844"
)

func fe(v *big.Int) []byte { return v.FillBytes(make([]byte, 32)) }

func randFe(r *Rng) []byte {
	v := new(big.Int).SetBytes(r.Bytes(32))
	return fe(v.Mod(v, blsR))
}

// non-canonical scalars: >= r
func badFe(r *Rng) []byte {
	switch r.Intn(4) {
	case 0:
		return fe(blsR)
	case 1:
		return fe(new(big.Int).Add(blsR, big.NewInt(int64(1+r.Intn(9)))))
	case 2:
		return ones(32)
	}
	v := new(big.Int).Add(new(big.Int).SetBytes(randFe(r)), blsR) // same residue + r
	if v.BitLen() > 256 {
		return ones(32)
	}
	return fe(v)
}

// malformed compressed points derived from a valid one
func badG1c(r *Rng, good []byte) []byte {
	p := cp(good)
	switch r.Intn(7) {
	case 0:
		p[0] &^= 0x80 // compression bit clear
	case 1:
		p[0] |= 0x40 // infinity bit with a non-zero body
	case 2:
		p = make([]byte, 48)
		p[0] = 0xe0 // infinity with the sign bit
	case 3:
		p = make([]byte, 48)
		p[0] = 0xc0
		p[47] = 1 // infinity with a non-zero body
	case 4:
		p[0] = 0x9f // x >= p
		for i := 1; i < 48; i++ {
			p[i] = 0xff
		}
	case 5:
		x := new(big.Int).Add(blsP, big.NewInt(int64(r.Intn(3)))) // x = p, p+1, p+2
		xb := x.FillBytes(make([]byte, 48))
		xb[0] |= 0x80
		p = xb
	default:
		p = make([]byte, 48) // all zero: compression bit clear
	}
	return p
}

func genBlob(r *Rng, sparse bool) *kzg4844.Blob {
	b := new(kzg4844.Blob)
	for i := 0; i < 4096; i++ {
		if sparse && !r.Chance(1, 64) {
			continue
		}
		copy(b[32*i:], randFe(r))
	}
	return b
}

func genKzg(r *Rng, thorough bool, emit func(Sx)) {
	nblobs := 2
	if thorough {
		nblobs = 6
	}
	inf := make([]byte, 48)
	inf[0] = 0xc0
	for bi := 0; bi < nblobs; bi++ {
		blob := genBlob(r, bi%2 == 1)
		if bi == 2 {
			blob = new(kzg4844.Blob) // the zero polynomial: commitment and proofs are infinity
		}
		commit, err := kzg4844.BlobToCommitment(blob)
		if err != nil {
			continue
		}
		emit(L(I(9), B(blob[:])))
		bproof, err := kzg4844.ComputeBlobProof(blob, commit)
		if err != nil {
			continue
		}
		emit(L(I(8), B(blob[:]), B(commit[:]), B(bproof[:])))
		// corrupted blob proofs
		emit(L(I(8), B(blob[:]), B(bproof[:]), B(commit[:])))            // swapped
		emit(L(I(8), B(blob[:]), B(badG1c(r, commit[:])), B(bproof[:]))) // malformed commitment
		emit(L(I(8), B(blob[:]), B(commit[:]), B(badG1c(r, bproof[:])))) // malformed proof
		bad := *blob
		copy(bad[32*r.Intn(4096):], badFe(r))
		emit(L(I(8), B(bad[:]), B(commit[:]), B(bproof[:]))) // blob element >= r
		emit(L(I(9), B(bad[:])))
		emit(L(I(10), B(bad[:]), B(randFe(r))))
		emit(L(I(10), B(blob[:]), B(badFe(r)))) // evaluation point >= r
		// point evaluations
		npts := 3
		for k := 0; k < npts; k++ {
			z := randFe(r)
			if k == 0 {
				z = fe(big.NewInt(int64(r.Intn(3)))) // 0, 1, 2
			}
			emit(L(I(10), B(blob[:]), B(z)))
			proof, claim, err := kzg4844.ComputeProof(blob, kzg4844.Point(z))
			if err != nil {
				continue
			}
			emit(L(I(7), B(commit[:]), B(z), B(claim[:]), B(proof[:])))
			// semantic corruptions (well-formed but wrong)
			emit(L(I(7), B(commit[:]), B(z), B(randFe(r)), B(proof[:])))
			emit(L(I(7), B(commit[:]), B(randFe(r)), B(claim[:]), B(proof[:])))
			emit(L(I(7), B(proof[:]), B(z), B(claim[:]), B(commit[:])))
			emit(L(I(7), B(inf), B(z), B(claim[:]), B(proof[:])))
			emit(L(I(7), B(commit[:]), B(z), B(claim[:]), B(inf)))
			flip := cp(proof[:])
			flip[0] ^= 0x20 // other square root: a valid point, the wrong one
			emit(L(I(7), B(commit[:]), B(z), B(claim[:]), B(flip)))
			// syntactic corruptions
			emit(L(I(7), B(commit[:]), B(badFe(r)), B(claim[:]), B(proof[:])))
			emit(L(I(7), B(commit[:]), B(z), B(badFe(r)), B(proof[:])))
			emit(L(I(7), B(badG1c(r, commit[:])), B(z), B(claim[:]), B(proof[:])))
			emit(L(I(7), B(commit[:]), B(z), B(claim[:]), B(badG1c(r, proof[:]))))
			rnd := r.Bytes(48)
			rnd[0] |= 0x80
			rnd[0] &^= 0x40
			emit(L(I(7), B(rnd), B(z), B(claim[:]), B(proof[:]))) // random x: usually not on the curve
		}
	}
	// infinity commitment and proof with claim 0 is a valid statement about the zero polynomial
	emit(L(I(7), B(inf), B(fe(big.NewInt(5))), B(fe(big.NewInt(0))), B(inf)))
	emit(L(I(7), B(inf), B(fe(big.NewInt(5))), B(fe(big.NewInt(1))), B(inf)))
	n := 30
	if thorough {
		n = 300
	}
	for i := 0; i < n; i++ {
		c, p := r.Bytes(48), r.Bytes(48)
		if r.Bool() {
			c[0] |= 0x80
			p[0] |= 0x80
		}
		z, y := randFe(r), randFe(r)
		if r.Chance(1, 4) {
			z = r.Bytes(32)
		}
		if r.Chance(1, 4) {
			y = r.Bytes(32)
		}
		emit(L(I(7), B(c), B(z), B(y), B(p)))
	}
}
