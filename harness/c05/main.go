// Family c05: alternative cryptographic backends agree.
//
//	BLAKE2b F : blake2b.F / the 0x09 precompile forced through fAVX2, fAVX, fSSE4 and
//	            fGeneric (crypto/blake2b/verif_export_c05.go) vs coq/Crypto/Blake2b.v
//	BN254     : 0x06/0x07/0x08 precompiles and the gnark, cloudflare and google backends
//	            (three-way diff) vs coq/Crypto/Bn254.v (decoding, G1 add/mul results)
//	KZG       : kzg4844 (go-eth-kzg) vs c-kzg-4844 (cgo, when it links) — differential;
//	            coq/Crypto/KzgInput.v contributes the syntactic must-reject classes
package main

import (
	"bytes"
	"encoding/binary"
	"fmt"
	"math/big"
	"strings"

	. "gethverif/harness/hxlib"
	gnarkbn "github.com/consensys/gnark-crypto/ecc/bn254"
	"github.com/consensys/gnark-crypto/ecc/bn254/fp"
	"github.com/ethereum/go-ethereum/common"
	"github.com/ethereum/go-ethereum/core/vm"
	"github.com/ethereum/go-ethereum/crypto/blake2b"
	cloudflare "github.com/ethereum/go-ethereum/crypto/bn256/cloudflare"
	gnark "github.com/ethereum/go-ethereum/crypto/bn256/gnark"
	google "github.com/ethereum/go-ethereum/crypto/bn256/google"
	"github.com/ethereum/go-ethereum/crypto/kzg4844"
)

func cp(b []byte) []byte { return append([]byte{}, b...) }

func precompile(n byte) vm.PrecompiledContract {
	return vm.PrecompiledContractsCancun[common.BytesToAddress([]byte{n})]
}

// safely runs f, mapping a panic to an error text
func safe(f func()) (pan string) {
	defer func() {
		if e := recover(); e != nil {
			pan = fmt.Sprint(e)
		}
	}()
	f()
	return ""
}

// ---------------------------------------------------------------- BLAKE2b

type blakePath struct {
	name            string
	avx2, avx, sse4 bool
}

var hwAVX2, hwAVX, hwSSE4 = blake2b.VerifGetFlags()

// the implementations this CPU can execute
func blakePaths() []blakePath {
	var ps []blakePath
	if hwAVX2 {
		ps = append(ps, blakePath{"avx2", true, hwAVX, hwSSE4})
	}
	if hwAVX {
		ps = append(ps, blakePath{"avx", false, true, hwSSE4})
	}
	if hwSSE4 {
		ps = append(ps, blakePath{"sse4", false, false, true})
	}
	ps = append(ps, blakePath{"generic", false, false, false})
	return ps
}

func withPath(p blakePath, f func()) {
	defer blake2b.VerifSetFlags(hwAVX2, hwAVX, hwSSE4)
	blake2b.VerifSetFlags(p.avx2, p.avx, p.sse4)
	f()
}

func blakeClass(err error) int64 {
	switch {
	case strings.Contains(err.Error(), "length"):
		return 1
	case strings.Contains(err.Error(), "final flag"):
		return 2
	}
	return 7
}

func resObs(out []byte, err error, class func(error) int64) Sx {
	if err != nil {
		return L(I(1), I(class(err)))
	}
	return L(I(0), B(out))
}

func runBlakePrecompile(input []byte) Result {
	res := Result{}
	var fails []string
	pc := precompile(9)
	out0, err0 := pc.Run(cp(input))
	res.Obs = resObs(out0, err0, blakeClass)
	// the property: every executable path gives the same bytes / the same decision
	for _, p := range blakePaths() {
		var out []byte
		var err error
		if pan := safe(func() { withPath(p, func() { out, err = pc.Run(cp(input)) }) }); pan != "" {
			fails = append(fails, "panic on path "+p.name+": "+pan)
			continue
		}
		if (err == nil) != (err0 == nil) || !bytes.Equal(out, out0) {
			fails = append(fails, fmt.Sprintf("path %s gives %x/%v, default path gives %x/%v", p.name, out, err, out0, err0))
		}
		res.Tags = append(res.Tags, "blake-"+p.name)
	}
	wantOK := len(input) == 213 && input[212] <= 1
	if wantOK != (err0 == nil) {
		fails = append(fails, "blake2F input validation: accepted/rejected wrongly")
	}
	if err0 == nil {
		if len(out0) != 64 {
			fails = append(fails, "blake2F output is not 64 bytes")
		}
		// the generic reference called directly must agree as well
		var h [8]uint64
		var m [16]uint64
		for i := range h {
			h[i] = binary.LittleEndian.Uint64(input[4+8*i:])
		}
		for i := range m {
			m[i] = binary.LittleEndian.Uint64(input[68+8*i:])
		}
		var flag uint64
		if input[212] == 1 {
			flag = ^uint64(0)
		}
		rounds := binary.BigEndian.Uint32(input[0:4])
		blake2b.VerifFGeneric(&h, &m, binary.LittleEndian.Uint64(input[196:]), binary.LittleEndian.Uint64(input[204:]), flag, uint64(rounds))
		ref := make([]byte, 64)
		for i := range h {
			binary.LittleEndian.PutUint64(ref[8*i:], h[i])
		}
		if !bytes.Equal(ref, out0) {
			fails = append(fails, fmt.Sprintf("fGeneric gives %x, precompile gives %x", ref, out0))
		}
		res.NonTrivial = true
		switch {
		case rounds == 0:
			res.Tags = append(res.Tags, "rounds0")
		case rounds <= 12:
			res.Tags = append(res.Tags, fmt.Sprintf("rounds%d", rounds))
		case rounds < 1<<12:
			res.Tags = append(res.Tags, "rounds<2^12")
		case rounds < 1<<16:
			res.Tags = append(res.Tags, "rounds<2^16")
		default:
			res.Tags = append(res.Tags, "rounds>=2^16")
		}
		res.Tags = append(res.Tags, fmt.Sprintf("final%d", input[212]))
	} else {
		res.Tags = append(res.Tags, fmt.Sprintf("blake-reject%d", blakeClass(err0)))
	}
	if len(fails) > 0 {
		res.Oracle = strings.Join(fails, "; ")
	}
	return res
}

func runBlakeDirect(l []Sx) Result {
	res := Result{Tags: []string{"blake-direct"}}
	hs, ms := AsList(l[1]), AsList(l[2])
	if len(hs) != 8 || len(ms) != 16 {
		panic("hxlib: blake direct case needs 8 + 16 words")
	}
	var h [8]uint64
	var m [16]uint64
	for i := range h {
		h[i] = AsBig(hs[i]).Uint64()
	}
	for i := range m {
		m[i] = AsBig(ms[i]).Uint64()
	}
	c0, c1, flag, rounds := AsBig(l[3]).Uint64(), AsBig(l[4]).Uint64(), AsBig(l[5]).Uint64(), AsBig(l[6]).Uint64()
	hg := h
	blake2b.VerifFGeneric(&hg, &m, c0, c1, flag, rounds)
	out := make([]Sx, 8)
	for i := range hg {
		out[i] = U(hg[i])
	}
	res.Obs = L(I(0), L(out...))
	res.NonTrivial = true
	var fails []string
	if rounds >= 1<<63 {
		res.Tags = append(res.Tags, "rounds>=2^63")
	}
	// where the exported F can express the call, every path must give the same words
	if (flag == 0 || flag == ^uint64(0)) && rounds < 1<<22 {
		for _, p := range blakePaths() {
			hp := h
			withPath(p, func() { blake2b.F(&hp, m, [2]uint64{c0, c1}, flag != 0, uint32(rounds)) })
			if hp != hg {
				fails = append(fails, fmt.Sprintf("F on path %s gives %x, fGeneric gives %x", p.name, hp, hg))
			}
		}
		res.Tags = append(res.Tags, "blake-direct-allpaths")
	}
	if len(fails) > 0 {
		res.Oracle = strings.Join(fails, "; ")
	}
	return res
}

// ---------------------------------------------------------------- BN254

// error class of a decoding error, per backend wording: 1 size, 2 coordinate >= p,
// 3 not on curve, 4 not in the subgroup (gnark only; the others report 3), 7 unknown
func bnClass(err error) int64 {
	s := err.Error()
	switch {
	case strings.Contains(s, "size"), strings.Contains(s, "not enough data"), strings.Contains(s, "bad elliptic curve pairing size"):
		return 1
	case strings.Contains(s, "invalid fp.Element encoding"), strings.Contains(s, "coordinate exceeds modulus"), strings.Contains(s, "coordinate equals modulus"):
		return 2
	case strings.Contains(s, "not on curve"), strings.Contains(s, "malformed point"):
		return 3
	case strings.Contains(s, "subgroup"):
		return 4
	}
	return 7
}

func getData(data []byte, start, size int) []byte {
	if start > len(data) {
		start = len(data)
	}
	end := start + size
	if end > len(data) {
		end = len(data)
	}
	out := make([]byte, size)
	copy(out, data[start:end])
	return out
}

type bnBackend struct {
	name    string
	decG1   func(b []byte) (interface{}, error)
	decG2   func(b []byte) (interface{}, error)
	encG1   func(p interface{}) []byte
	encG2   func(p interface{}) []byte
	add     func(a, b interface{}) []byte
	mul     func(a interface{}, k *big.Int) []byte
	pairing func(g1s, g2s []interface{}) bool
}

var bnBackends = []bnBackend{
	{
		name:  "gnark",
		decG1: func(b []byte) (interface{}, error) { p := new(gnark.G1); _, err := p.Unmarshal(b); return p, err },
		decG2: func(b []byte) (interface{}, error) { p := new(gnark.G2); _, err := p.Unmarshal(b); return p, err },
		encG1: func(p interface{}) []byte { return p.(*gnark.G1).Marshal() },
		encG2: func(p interface{}) []byte { return p.(*gnark.G2).Marshal() },
		add: func(a, b interface{}) []byte {
			r := new(gnark.G1)
			r.Add(a.(*gnark.G1), b.(*gnark.G1))
			return r.Marshal()
		},
		mul: func(a interface{}, k *big.Int) []byte {
			r := new(gnark.G1)
			r.ScalarMult(a.(*gnark.G1), k)
			return r.Marshal()
		},
		pairing: func(g1s, g2s []interface{}) bool {
			var a []*gnark.G1
			var b []*gnark.G2
			for i := range g1s {
				a = append(a, g1s[i].(*gnark.G1))
				b = append(b, g2s[i].(*gnark.G2))
			}
			return gnark.PairingCheck(a, b)
		},
	},
	{
		name:  "cloudflare",
		decG1: func(b []byte) (interface{}, error) { p := new(cloudflare.G1); _, err := p.Unmarshal(b); return p, err },
		decG2: func(b []byte) (interface{}, error) { p := new(cloudflare.G2); _, err := p.Unmarshal(b); return p, err },
		encG1: func(p interface{}) []byte { return p.(*cloudflare.G1).Marshal() },
		encG2: func(p interface{}) []byte { return p.(*cloudflare.G2).Marshal() },
		add: func(a, b interface{}) []byte {
			r := new(cloudflare.G1)
			r.Add(a.(*cloudflare.G1), b.(*cloudflare.G1))
			return r.Marshal()
		},
		mul: func(a interface{}, k *big.Int) []byte {
			r := new(cloudflare.G1)
			r.ScalarMult(a.(*cloudflare.G1), k)
			return r.Marshal()
		},
		pairing: func(g1s, g2s []interface{}) bool {
			var a []*cloudflare.G1
			var b []*cloudflare.G2
			for i := range g1s {
				a = append(a, g1s[i].(*cloudflare.G1))
				b = append(b, g2s[i].(*cloudflare.G2))
			}
			return cloudflare.PairingCheck(a, b)
		},
	},
	{
		name:  "google",
		decG1: func(b []byte) (interface{}, error) { p := new(google.G1); _, err := p.Unmarshal(b); return p, err },
		decG2: func(b []byte) (interface{}, error) { p := new(google.G2); _, err := p.Unmarshal(b); return p, err },
		encG1: func(p interface{}) []byte { return p.(*google.G1).Marshal() },
		encG2: func(p interface{}) []byte { return p.(*google.G2).Marshal() },
		add: func(a, b interface{}) []byte {
			r := new(google.G1)
			r.Add(a.(*google.G1), b.(*google.G1))
			return r.Marshal()
		},
		mul: func(a interface{}, k *big.Int) []byte {
			r := new(google.G1)
			r.ScalarMult(a.(*google.G1), k)
			return r.Marshal()
		},
		pairing: func(g1s, g2s []interface{}) bool {
			var a []*google.G1
			var b []*google.G2
			for i := range g1s {
				a = append(a, g1s[i].(*google.G1))
				b = append(b, g2s[i].(*google.G2))
			}
			return google.PairingCheck(a, b)
		},
	},
}

type bnOut struct {
	out   []byte
	class int64 // 0 = accepted
	pan   string
}

func (o bnOut) String() string {
	if o.pan != "" {
		return "panic:" + o.pan
	}
	if o.class != 0 {
		return fmt.Sprintf("reject(%d)", o.class)
	}
	return fmt.Sprintf("%x", o.out)
}

// the three precompile bodies of contracts.go, re-expressed over one backend
func bnRun(be bnBackend, op int, input []byte) (o bnOut) {
	o.pan = safe(func() {
		switch op {
		case 2:
			x, err := be.decG1(getData(input, 0, 64))
			if err != nil {
				o.class = bnClass(err)
				return
			}
			y, err := be.decG1(getData(input, 64, 64))
			if err != nil {
				o.class = bnClass(err)
				return
			}
			o.out = be.add(x, y)
		case 3:
			x, err := be.decG1(getData(input, 0, 64))
			if err != nil {
				o.class = bnClass(err)
				return
			}
			o.out = be.mul(x, new(big.Int).SetBytes(getData(input, 64, 32)))
		case 4:
			if len(input)%192 != 0 {
				o.class = 1
				return
			}
			var g1s, g2s []interface{}
			for i := 0; i < len(input); i += 192 {
				c, err := be.decG1(input[i : i+64])
				if err != nil {
					o.class = bnClass(err)
					return
				}
				t, err := be.decG2(input[i+64 : i+192])
				if err != nil {
					o.class = bnClass(err)
					return
				}
				g1s = append(g1s, c)
				g2s = append(g2s, t)
			}
			o.out = make([]byte, 32)
			if be.pairing(g1s, g2s) {
				o.out[31] = 1
			}
		}
	})
	return
}

// classes 3 and 4 are one class for cloudflare/google G2 decoding
func lump(c int64) int64 {
	if c == 4 {
		return 3
	}
	return c
}

func runBn(op int, input []byte, withResult bool) Result {
	res := Result{}
	var fails []string
	names := map[int]string{2: "bnadd", 3: "bnmul", 4: "bnpair"}
	// the real precompile (gnark on amd64/arm64, google elsewhere)
	var pout []byte
	var perr error
	if pan := safe(func() { pout, perr = precompile(byte(op + 4)).Run(cp(input)) }); pan != "" {
		fails = append(fails, "precompile panicked: "+pan)
	}
	outs := make([]bnOut, len(bnBackends))
	for i, be := range bnBackends {
		outs[i] = bnRun(be, op, cp(input))
		if outs[i].pan != "" {
			fails = append(fails, be.name+" panicked: "+outs[i].pan)
		}
	}
	for i := 1; i < len(outs); i++ {
		if (outs[i].class == 0) != (outs[0].class == 0) || !bytes.Equal(outs[i].out, outs[0].out) || lump(outs[i].class) != lump(outs[0].class) {
			fails = append(fails, fmt.Sprintf("%s: %v but %s: %v", bnBackends[0].name, outs[0], bnBackends[i].name, outs[i]))
		}
	}
	if (perr == nil) != (outs[0].class == 0) || !bytes.Equal(pout, outs[0].out) {
		fails = append(fails, fmt.Sprintf("precompile gives %x/%v, backend %s gives %v", pout, perr, bnBackends[0].name, outs[0]))
	}
	// observables, from the real precompile
	switch {
	case op == 4:
		// the modelled decision: first size/coordinate/curve failure in input order;
		// a subgroup failure is not modelled and does not stop the scan
		obs := L(I(0))
		if len(input)%192 != 0 {
			obs = L(I(1), I(1))
		} else {
			be := bnBackends[0]
		scan:
			for i := 0; i < len(input); i += 192 {
				if _, err := be.decG1(input[i : i+64]); err != nil {
					obs = L(I(1), I(bnClass(err)))
					break scan
				}
				if _, err := be.decG2(input[i+64 : i+192]); err != nil && bnClass(err) != 4 {
					obs = L(I(1), I(bnClass(err)))
					break scan
				} else if err != nil {
					res.Tags = append(res.Tags, "g2-not-in-subgroup")
				}
			}
		}
		res.Obs = obs
		if perr == nil {
			res.Tags = append(res.Tags, fmt.Sprintf("pairing-result%d-pairs%d", pout[31], min(len(input)/192, 4)))
			res.NonTrivial = len(input) > 0
		}
	case !withResult:
		if perr != nil {
			res.Obs = L(I(1), I(bnClass(perr)))
		} else {
			res.Obs = L(I(0))
			res.NonTrivial = true
		}
	default:
		res.Obs = resObs(pout, perr, bnClass)
		res.NonTrivial = perr == nil
	}
	if perr != nil {
		res.Tags = append(res.Tags, fmt.Sprintf("%s-reject%d", names[op], bnClass(perr)))
	} else {
		res.Tags = append(res.Tags, names[op]+"-ok")
		if op != 4 && bytes.Equal(pout, make([]byte, 64)) {
			res.Tags = append(res.Tags, names[op]+"-infinity")
		}
		if op == 3 {
			k := new(big.Int).SetBytes(getData(input, 64, 32))
			switch {
			case k.BitLen() <= 16:
				res.Tags = append(res.Tags, "scalar<=16bit")
			case k.Cmp(bnOrder) >= 0:
				res.Tags = append(res.Tags, "scalar>=order")
			default:
				res.Tags = append(res.Tags, "scalar-big")
			}
		}
		if op != 4 {
			// results must be valid encodings again
			for _, be := range bnBackends {
				if _, err := be.decG1(pout); err != nil {
					fails = append(fails, "result does not decode with "+be.name)
				}
			}
		}
	}
	if !withResult && op == 3 {
		res.Tags = append(res.Tags, "bnmul-differential-only")
	}
	if len(fails) > 0 {
		res.Oracle = strings.Join(fails, "; ")
	}
	return res
}

func runBnDecode(g2 bool, buf []byte) Result {
	res := Result{}
	var fails []string
	type dec struct {
		class int64
		enc   []byte
		pan   string
	}
	ds := make([]dec, len(bnBackends))
	for i, be := range bnBackends {
		d := &ds[i]
		d.pan = safe(func() {
			var p interface{}
			var err error
			if g2 {
				p, err = be.decG2(cp(buf))
			} else {
				p, err = be.decG1(cp(buf))
			}
			if err != nil {
				d.class = bnClass(err)
				return
			}
			if g2 {
				d.enc = be.encG2(p)
			} else {
				d.enc = be.encG1(p)
			}
		})
		if d.pan != "" {
			fails = append(fails, be.name+" panicked: "+d.pan)
		}
	}
	for i := 1; i < len(ds); i++ {
		if lump(ds[i].class) != lump(ds[0].class) || !bytes.Equal(ds[i].enc, ds[0].enc) {
			fails = append(fails, fmt.Sprintf("%s: class %d enc %x but %s: class %d enc %x", bnBackends[0].name, ds[0].class, ds[0].enc, bnBackends[i].name, ds[i].class, ds[i].enc))
		}
	}
	d := ds[0]
	n := 64
	kind := "g1dec"
	if g2 {
		n, kind = 128, "g2dec"
	}
	if d.class == 0 {
		if len(buf) >= n && !bytes.Equal(d.enc, buf[:n]) {
			fails = append(fails, "Marshal(Unmarshal(b)) != b")
		}
		res.NonTrivial = true
	}
	switch {
	case !g2 && d.class == 0:
		res.Obs = L(I(0), B(d.enc))
	case !g2:
		res.Obs = L(I(1), I(d.class))
	case d.class == 0 && bytes.Equal(d.enc, make([]byte, 128)):
		res.Obs = L(I(0), I(0))
	case d.class == 0 || d.class == 4:
		res.Obs = L(I(0), I(1))
	default:
		res.Obs = L(I(1), I(d.class))
	}
	res.Tags = append(res.Tags, fmt.Sprintf("%s-class%d", kind, d.class))
	if len(fails) > 0 {
		res.Oracle = strings.Join(fails, "; ")
	}
	return res
}

// ---------------------------------------------------------------- KZG

var blsR, _ = new(big.Int).SetString("52435875175126190479447740508185965837690552500527637822603658699938581184513", 10)
var blsP, _ = new(big.Int).SetString("4002409555221667393417789825735904156556882819939007885332058136124031650490837864442687629129015664037894272559787", 10)
var bnOrder, _ = new(big.Int).SetString("21888242871839275222246405745257275088548364400416034343698204186575808495617", 10)
var bnP, _ = new(big.Int).SetString("21888242871839275222246405745257275088696311157297823662689037894645226208583", 10)

func feCanonical(b []byte) bool { return len(b) == 32 && new(big.Int).SetBytes(b).Cmp(blsR) < 0 }

func g1cWellformed(b []byte) bool {
	if len(b) != 48 {
		return false
	}
	if b[0]&0x80 == 0 {
		return false
	}
	if b[0]&0x40 != 0 {
		return b[0] == 0xc0 && bytes.Equal(b[1:], make([]byte, 47))
	}
	x := cp(b)
	x[0] &= 0x1f
	return new(big.Int).SetBytes(x).Cmp(blsP) < 0
}

func blobCanonical(b []byte) bool {
	if len(b) != 131072 {
		return false
	}
	for i := 0; i < len(b); i += 32 {
		if !feCanonical(b[i : i+32]) {
			return false
		}
	}
	return true
}

// outcome of one KZG call on one backend: accepted + output bytes, or rejected
type kzgOut struct {
	ok  bool
	out []byte
	pan string
}

func (o kzgOut) String() string {
	if o.pan != "" {
		return "panic:" + o.pan
	}
	if !o.ok {
		return "reject"
	}
	return fmt.Sprintf("ok:%x", o.out)
}

type kzgBackend struct {
	name          string
	verifyProof   func(c kzg4844.Commitment, z kzg4844.Point, y kzg4844.Claim, p kzg4844.Proof) error
	verifyBlob    func(b *kzg4844.Blob, c kzg4844.Commitment, p kzg4844.Proof) error
	toCommitment  func(b *kzg4844.Blob) (kzg4844.Commitment, error)
	computeProof  func(b *kzg4844.Blob, z kzg4844.Point) (kzg4844.Proof, kzg4844.Claim, error)
	computeBProof func(b *kzg4844.Blob, c kzg4844.Commitment) (kzg4844.Proof, error)
}

var gokzgBackend = kzgBackend{
	name:          "gokzg",
	verifyProof:   kzg4844.VerifyProof,
	verifyBlob:    kzg4844.VerifyBlobProof,
	toCommitment:  kzg4844.BlobToCommitment,
	computeProof:  kzg4844.ComputeProof,
	computeBProof: kzg4844.ComputeBlobProof,
}

func kzgBackends() []kzgBackend {
	bs := []kzgBackend{gokzgBackend}
	if b, ok := ckzgBackend(); ok {
		bs = append(bs, b)
	}
	return bs
}

func runKzg(kind int, l []Sx) Result {
	res := Result{}
	var fails []string
	var class int64
	bs := kzgBackends()
	outs := make([]kzgOut, len(bs))
	need := func(i, n int) []byte {
		b := AsBytes(l[i])
		if len(b) != n {
			panic("hxlib: kzg case field has the wrong size")
		}
		return b
	}
	switch kind {
	case 7:
		c, z, y, p := need(1, 48), need(2, 32), need(3, 32), need(4, 48)
		switch {
		case !g1cWellformed(c):
			class = 1
		case !feCanonical(z):
			class = 2
		case !feCanonical(y):
			class = 3
		case !g1cWellformed(p):
			class = 4
		}
		for i, be := range bs {
			o := &outs[i]
			o.pan = safe(func() {
				o.ok = be.verifyProof(kzg4844.Commitment(c), kzg4844.Point(z), kzg4844.Claim(y), kzg4844.Proof(p)) == nil
			})
		}
		res.Tags = append(res.Tags, "kzg-verifyproof")
	case 8:
		b, c, p := need(1, 131072), need(2, 48), need(3, 48)
		switch {
		case !blobCanonical(b):
			class = 6
		case !g1cWellformed(c):
			class = 1
		case !g1cWellformed(p):
			class = 4
		}
		blob := new(kzg4844.Blob)
		copy(blob[:], b)
		for i, be := range bs {
			o := &outs[i]
			o.pan = safe(func() { o.ok = be.verifyBlob(blob, kzg4844.Commitment(c), kzg4844.Proof(p)) == nil })
		}
		res.Tags = append(res.Tags, "kzg-verifyblob")
	case 9:
		b := need(1, 131072)
		if !blobCanonical(b) {
			class = 6
		}
		blob := new(kzg4844.Blob)
		copy(blob[:], b)
		for i, be := range bs {
			o := &outs[i]
			o.pan = safe(func() {
				c, err := be.toCommitment(blob)
				o.ok, o.out = err == nil, c[:]
			})
		}
		res.Tags = append(res.Tags, "kzg-commit")
	case 10:
		b, z := need(1, 131072), need(2, 32)
		switch {
		case !blobCanonical(b):
			class = 6
		case !feCanonical(z):
			class = 2
		}
		blob := new(kzg4844.Blob)
		copy(blob[:], b)
		for i, be := range bs {
			o := &outs[i]
			o.pan = safe(func() {
				p, y, err := be.computeProof(blob, kzg4844.Point(z))
				o.ok, o.out = err == nil, append(p[:], y[:]...)
				if err == nil {
					// a computed proof must verify against the commitment
					c, err2 := be.toCommitment(blob)
					if err2 != nil || be.verifyProof(c, kzg4844.Point(z), y, p) != nil {
						fails = append(fails, be.name+": ComputeProof output does not verify")
					}
				}
			})
		}
		res.Tags = append(res.Tags, "kzg-computeproof")
	}
	for i := range outs {
		if outs[i].pan != "" {
			fails = append(fails, bs[i].name+" panicked: "+outs[i].pan)
		}
		if !outs[i].ok {
			outs[i].out = nil
		}
		if i > 0 && (outs[i].ok != outs[0].ok || !bytes.Equal(outs[i].out, outs[0].out)) {
			fails = append(fails, fmt.Sprintf("%s: %v but %s: %v", bs[0].name, outs[0], bs[i].name, outs[i]))
		}
		if class != 0 && outs[i].ok {
			fails = append(fails, fmt.Sprintf("%s accepted a non-canonical input (class %d)", bs[i].name, class))
		}
	}
	if outs[0].ok {
		res.Obs = L(I(0))
		res.Tags = append(res.Tags, "kzg-accept")
	} else {
		res.Obs = L(I(class))
		res.Tags = append(res.Tags, fmt.Sprintf("kzg-reject-class%d", class))
	}
	res.Tags = append(res.Tags, fmt.Sprintf("kzg-backends%d", len(bs)))
	res.NonTrivial = len(bs) > 1 || outs[0].ok
	if len(fails) > 0 {
		res.Oracle = strings.Join(fails, "; ")
	}
	return res
}

// ---------------------------------------------------------------- dispatch

func run(c Sx) Result {
	l := AsList(c)
	kind := int(AsInt(l[0]))
	switch kind {
	case 0:
		return runBlakePrecompile(AsBytes(l[1]))
	case 1:
		if len(l) != 7 {
			panic("hxlib: blake direct case shape")
		}
		return runBlakeDirect(l)
	case 2, 3, 4:
		return runBn(kind, AsBytes(l[1]), true)
	case 11:
		return runBn(3, AsBytes(l[1]), false)
	case 5:
		return runBnDecode(false, AsBytes(l[1]))
	case 6:
		return runBnDecode(true, AsBytes(l[1]))
	case 7, 8, 9, 10:
		return runKzg(kind, l)
	}
	panic("hxlib: unknown case kind")
}

// ---------------------------------------------------------------- generators

func be32(v *big.Int) []byte { return v.FillBytes(make([]byte, 32)) }

func randScalar(r *Rng) *big.Int { return new(big.Int).SetBytes(r.Bytes(32)) }

// a random valid G1 point: k*G, or (x, sqrt(x^3+3)) found by trial
func genG1(r *Rng) []byte {
	if r.Bool() {
		k := randScalar(r)
		return new(cloudflare.G1).ScalarBaseMult(k).Marshal()
	}
	for {
		var x, y, rhs fp.Element
		x.SetBytes(r.Bytes(32))
		rhs.Square(&x).Mul(&rhs, &x)
		var three fp.Element
		three.SetUint64(3)
		rhs.Add(&rhs, &three)
		if y.Sqrt(&rhs) == nil {
			continue
		}
		if r.Bool() {
			y.Neg(&y)
		}
		xb, yb := x.Bytes(), y.Bytes()
		return append(xb[:], yb[:]...)
	}
}

func genG2(r *Rng) []byte {
	return new(cloudflare.G2).ScalarBaseMult(randScalar(r)).Marshal()
}

// a point on the twist that is (almost surely) NOT in the order-r subgroup
func genG2OffSubgroup(r *Rng) []byte {
	var b2 gnarkbn.E2
	b2.A0.SetUint64(9)
	b2.A1.SetUint64(1)
	b2.Inverse(&b2)
	var three fp.Element
	three.SetUint64(3)
	b2.MulByElement(&b2, &three)
	for {
		var x, y, rhs gnarkbn.E2
		x.A0.SetBytes(r.Bytes(32))
		x.A1.SetBytes(r.Bytes(32))
		rhs.Square(&x).Mul(&rhs, &x).Add(&rhs, &b2)
		if rhs.Legendre() != 1 {
			continue
		}
		y.Sqrt(&rhs)
		xa1, xa0, ya1, ya0 := x.A1.Bytes(), x.A0.Bytes(), y.A1.Bytes(), y.A0.Bytes()
		out := append([]byte{}, xa1[:]...)
		out = append(out, xa0[:]...)
		out = append(out, ya1[:]...)
		return append(out, ya0[:]...)
	}
}

// damage a 32-byte coordinate at offset off
func corruptCoord(r *Rng, buf []byte, off int) {
	switch r.Intn(4) {
	case 0:
		copy(buf[off:], be32(bnP)) // = p
	case 1:
		copy(buf[off:], be32(new(big.Int).Add(bnP, big.NewInt(int64(1+r.Intn(5)))))) // p + small
	case 2:
		for i := 0; i < 32; i++ {
			buf[off+i] = 0xff
		}
	default:
		v := new(big.Int).Add(new(big.Int).SetBytes(buf[off:off+32]), bnP) // same residue, non-canonical
		if v.BitLen() <= 256 {
			copy(buf[off:], be32(v))
		} else {
			buf[off] = 0xff
		}
	}
}

func genG1Any(r *Rng) []byte {
	switch r.Intn(10) {
	case 0:
		return make([]byte, 64) // infinity
	case 1:
		p := genG1(r) // off curve: y + 1
		p[63] ^= 1
		return p
	case 2:
		p := genG1(r)
		corruptCoord(r, p, 32*r.Intn(2))
		return p
	case 3:
		return r.Bytes(64)
	case 4:
		p := make([]byte, 64) // (1, 2) the generator, or (1, p-2)
		p[31] = 1
		if r.Bool() {
			p[63] = 2
		} else {
			copy(p[32:], be32(new(big.Int).Sub(bnP, big.NewInt(2))))
		}
		return p
	}
	return genG1(r)
}

func genG2Any(r *Rng) []byte {
	switch r.Intn(10) {
	case 0:
		return make([]byte, 128)
	case 1:
		p := genG2(r)
		p[127] ^= 1
		return p
	case 2:
		p := genG2(r)
		corruptCoord(r, p, 32*r.Intn(4))
		return p
	case 3:
		return r.Bytes(128)
	case 4, 5:
		return genG2OffSubgroup(r)
	}
	return genG2(r)
}

func blakeInput(rounds uint32, h, m []byte, t0, t1 uint64, final byte) []byte {
	in := make([]byte, 213)
	binary.BigEndian.PutUint32(in, rounds)
	copy(in[4:], h)
	copy(in[68:], m)
	binary.LittleEndian.PutUint64(in[196:], t0)
	binary.LittleEndian.PutUint64(in[204:], t1)
	in[212] = final
	return in
}

func ones(n int) []byte { return bytes.Repeat([]byte{0xff}, n) }

func pickU64(r *Rng) uint64 {
	switch r.Intn(5) {
	case 0:
		return 0
	case 1:
		return ^uint64(0)
	case 2:
		return 128
	}
	return r.U64()
}

func words(r *Rng, n int) Sx {
	out := make([]Sx, n)
	for i := range out {
		out[i] = U(pickU64(r))
	}
	return L(out...)
}

func gen(r0 *Rng, tier string, emit func(Sx)) {
	r := NewRng(r0.U64())
	thorough := tier == "thorough"
	scale := 1
	if thorough {
		scale = 12
	}

	// ---- BLAKE2b: boundary round counts x {random, all-ones} x t x final
	for _, rounds := range []uint32{0, 1, 9, 10, 11, 12, 13, 20, 21, 100} {
		for _, final := range []byte{0, 1} {
			emit(L(I(0), B(blakeInput(rounds, r.Bytes(64), r.Bytes(128), pickU64(r), pickU64(r), final))))
			emit(L(I(0), B(blakeInput(rounds, ones(64), ones(128), ^uint64(0), ^uint64(0), final))))
			emit(L(I(0), B(blakeInput(rounds, make([]byte, 64), make([]byte, 128), 0, 0, final))))
		}
	}
	for i := 0; i < 150*scale; i++ {
		rounds := uint32(r.Intn(64))
		if r.Chance(1, 10) {
			rounds = uint32(r.Intn(700))
		}
		emit(L(I(0), B(blakeInput(rounds, r.Bytes(64), r.Bytes(128), pickU64(r), pickU64(r), byte(r.Intn(2))))))
	}
	bigRounds := []uint32{1 << 12, 1<<12 + 7, 1 << 16}
	if thorough {
		bigRounds = append(bigRounds, 1<<16+1, 1<<18+3, 1<<20)
	}
	for _, rounds := range bigRounds {
		emit(L(I(0), B(blakeInput(rounds, r.Bytes(64), r.Bytes(128), r.U64(), r.U64(), byte(r.Intn(2))))))
	}
	// input validation: wrong lengths, bad final flag
	for _, n := range []int{0, 1, 4, 212, 214, 426} {
		emit(L(I(0), B(r.Bytes(n))))
	}
	for i := 0; i < 20*scale; i++ {
		in := blakeInput(uint32(r.Intn(13)), r.Bytes(64), r.Bytes(128), r.U64(), r.U64(), byte(2+r.Intn(254)))
		if r.Chance(1, 3) {
			in = r.Bytes(r.Intn(300))
		}
		emit(L(I(0), B(in)))
	}
	// the generic function directly: raw flag words, 64-bit round counts
	for i := 0; i < 40*scale; i++ {
		flag := pickU64(r)
		rounds := uint64(r.Intn(40))
		switch r.Intn(8) {
		case 0:
			rounds = 1<<63 + uint64(r.Intn(3)) // int(rounds) < 0: no rounds at all
		case 1:
			rounds = ^uint64(0)
		}
		emit(L(I(1), words(r, 8), words(r, 16), U(pickU64(r)), U(pickU64(r)), U(flag), U(rounds)))
	}

	// ---- BN254 decoding
	for i := 0; i < 120*scale; i++ {
		b := genG1Any(r)
		if r.Chance(1, 12) {
			b = b[:r.Intn(64)] // short
		} else if r.Chance(1, 12) {
			b = append(b, r.Bytes(1+r.Intn(5))...) // trailing bytes are ignored by Unmarshal
		}
		emit(L(I(5), B(b)))
	}
	for i := 0; i < 40*scale; i++ {
		b := genG2Any(r)
		if r.Chance(1, 12) {
			b = b[:r.Intn(128)]
		}
		emit(L(I(6), B(b)))
	}
	// ---- BN254 add (result also against the Coq model)
	for i := 0; i < 60*scale; i++ {
		a, b := genG1Any(r), genG1Any(r)
		switch r.Intn(8) {
		case 0:
			b = cp(a) // doubling
		case 1: // P + (-P)
			b = cp(a)
			y := new(big.Int).SetBytes(a[32:])
			if y.Sign() != 0 && y.Cmp(bnP) < 0 {
				copy(b[32:], be32(new(big.Int).Sub(bnP, y)))
			}
		}
		in := append(cp(a), b...)
		if r.Chance(1, 10) {
			in = in[:r.Intn(len(in))] // short input is zero-padded
		} else if r.Chance(1, 10) {
			in = append(in, r.Bytes(7)...)
		}
		emit(L(I(2), B(in)))
	}
	// ---- BN254 scalar multiplication
	orderPlus := func(d int64) *big.Int { return new(big.Int).Add(bnOrder, big.NewInt(d)) }
	smallScalars := 24 * scale
	for i := 0; i < smallScalars; i++ {
		k := big.NewInt(int64(r.Intn(1 << 8)))
		if i < 4 {
			k = big.NewInt(int64(i))
		}
		emit(L(I(3), B(append(genG1Any(r), be32(k)...))))
	}
	bigScalars := []*big.Int{bnOrder, new(big.Int).SetBytes(ones(32))}
	if thorough {
		bigScalars = append(bigScalars, orderPlus(1), orderPlus(-1), randScalar(r), randScalar(r), randScalar(r), new(big.Int).Lsh(big.NewInt(1), 255))
	}
	for _, k := range bigScalars {
		emit(L(I(3), B(append(genG1(r), be32(k)...))))
	}
	// full-size scalars, three-way differential only
	for i := 0; i < 150*scale; i++ {
		var k *big.Int
		switch r.Intn(6) {
		case 0:
			k = orderPlus(int64(r.Intn(5)) - 2)
		case 1:
			k = new(big.Int).SetBytes(ones(32))
		case 2:
			k = new(big.Int).Lsh(big.NewInt(1), uint(r.Intn(256)))
		default:
			k = randScalar(r)
		}
		in := append(genG1Any(r), be32(k)...)
		if r.Chance(1, 10) {
			in = in[:r.Intn(len(in))]
		}
		emit(L(I(11), B(in)))
	}
	// ---- BN254 pairing (slow: few cases)
	emit(L(I(4), B(nil)))
	for i := 0; i < 6*scale; i++ { // e(aG, bH) * e(-abG, H) = 1
		a, b := randScalar(r), randScalar(r)
		ab := new(big.Int).Mul(a, b)
		p1 := new(cloudflare.G1).ScalarBaseMult(a)
		q1 := new(cloudflare.G2).ScalarBaseMult(b)
		p2 := new(cloudflare.G1).ScalarBaseMult(ab.Mod(ab, bnOrder))
		p2.Neg(p2)
		q2 := new(cloudflare.G2).ScalarBaseMult(big.NewInt(1))
		in := append(append(append(p1.Marshal(), q1.Marshal()...), p2.Marshal()...), q2.Marshal()...)
		if i%3 == 2 { // break the relation: result false
			in = append(append(append(p1.Marshal(), q1.Marshal()...), p1.Marshal()...), q2.Marshal()...)
		}
		emit(L(I(4), B(in)))
	}
	for i := 0; i < 30*scale; i++ {
		n := 1 + r.Intn(3)
		var in []byte
		for j := 0; j < n; j++ {
			if r.Chance(3, 4) {
				in = append(in, genG1(r)...)
			} else {
				in = append(in, genG1Any(r)...)
			}
			if r.Chance(3, 4) {
				in = append(in, genG2(r)...)
			} else {
				in = append(in, genG2Any(r)...)
			}
		}
		if r.Chance(1, 10) {
			in = in[:len(in)-1-r.Intn(100)] // not a multiple of 192
		}
		emit(L(I(4), B(in)))
	}

	// ---- KZG
	genKzg(r, thorough, emit)
}

func main() {
	Main(Family{
		ID: "C05",
		Rule: "BLAKE2b F: precompile inputs with rounds in {0,1,9,10,11,12,13,20,21,100} x {random, all-ones, zero h/m/t} x final 0/1, random rounds < 700, rounds 2^12, 2^12+7, 2^16 (thorough: up to 2^20), wrong lengths, final flag bytes 2..255, and fGeneric called directly with raw flag words and 64-bit round counts (>= 2^63 included). " +
			"BN254: G1/G2 decoding of valid points (k*G and x -> sqrt), infinity, off-curve, coordinates = p / p+small / all-ones / residue+p, twist points outside the subgroup, random bytes, short and over-long buffers; Add incl. doubling and P+(-P), short/long inputs; ScalarMul with scalars 0..3, < 2^8, order, 2^256-1 against the model (thorough: order+-1, random 256-bit, 2^255) and full-size scalars three-way only; Pairing: empty input, bilinearity relations that hold / are broken, random pairs with malformed members, lengths not a multiple of 192. " +
			"KZG: valid (commitment, z, y, proof) and blob proofs computed from random and sparse blobs, then corrupted: scalars = r, r+1, 2^256-1, compressed points with the compression bit clear, infinity bit with garbage, x >= p, wrong sign bit, swapped proof/commitment, blob with an element = r. " +
			"Non-trivial: a case the implementation accepted (a result was produced and compared), or any KZG case when two backends ran; distinct = distinct case line.",
		Gen: gen,
		Run: run,
	})
}
