package main

import (
	"fmt"

	ckzg4844 "github.com/ethereum/c-kzg-4844/v2/bindings/go"
	"github.com/ethereum/go-ethereum/crypto/blake2b"
	"github.com/ethereum/go-ethereum/crypto/kzg4844"
)

func main() {
	fmt.Println(blake2b.VerifGetFlags())
	var b kzg4844.Blob
	c, err := kzg4844.BlobToCommitment(&b)
	fmt.Printf("%x %v\n", c, err)
	_, err = ckzg4844.BlobToKZGCommitment((*ckzg4844.Blob)(&b))
	fmt.Println(err)
}
