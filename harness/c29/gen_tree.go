package main

import (
	"math/big"

	. "gethverif/harness/hxlib"
)

// ---------------------------------------------------------------------------
// (a) call trees with nested static contexts.
//
// Contracts N0 (0x1000) .. N4 (0x1004): level i does [optional pre-call action], calls level i+1
// by a chosen kind with an explicit gas allowance, and AFTER the call returned attempts state
// writes (every writing opcode, in random order), then stops.  The kinds contain at least one
// STATICCALL and usually a second one below it (STATICCALL issued from a static context), mixed
// with CALL / DELEGATECALL / CALLCODE levels that inherit the flag.  The leaf may be a contract,
// an empty account or a precompile.

const (
	wSstore = iota
	wTstore
	wLog
	wCreate
	wCallValue
	wCreate2
	wSelfdestruct
	nWrites
)

var writeNames = []string{"sstore", "tstore", "log", "create", "callvalue", "create2", "selfdestruct"}

// one write attempt; everything it pushes is consumed (SELFDESTRUCT ends the frame)
func emitWrite(a *asm, r *Rng, kind int) {
	switch kind {
	case wSstore:
		a.pushU(uint64(1 + r.Intn(5)))
		a.pushU(uint64(r.Intn(4)))
		a.op(0x55)
	case wTstore:
		a.pushU(uint64(1 + r.Intn(5)))
		a.pushU(uint64(r.Intn(4)))
		a.op(0x5d)
	case wLog:
		n := r.Intn(3)
		for i := 0; i < n; i++ {
			a.pushU(uint64(r.Intn(9)))
		}
		a.pushU(uint64(r.Intn(33)))
		a.pushU(0)
		a.op(byte(0xa0 + n))
	case wCreate:
		a.pushU(0)
		a.pushU(0)
		a.pushU(0)
		a.op(0xf0, 0x50)
	case wCreate2:
		a.pushU(uint64(r.Intn(3)))
		a.pushU(0)
		a.pushU(0)
		a.pushU(0)
		a.op(0xf5, 0x50)
	case wCallValue:
		a.pushU(0)
		a.pushU(0)
		a.pushU(0)
		a.pushU(0)
		a.pushU(1)
		a.pushU(uint64(0x2222 + r.Intn(2)))
		a.pushU(30000)
		a.op(0xf1, 0x50)
	default:
		a.pushU(uint64(0x2222 + r.Intn(2)))
		a.op(0xff)
	}
}

func emitCall(a *asm, kind byte, target *big.Int, gas uint64, value uint64) {
	a.pushU(0) // retSize
	a.pushU(0) // retOffset
	a.pushU(0) // inSize
	a.pushU(0) // inOffset
	if kind == 0xf1 || kind == 0xf2 {
		a.pushU(value)
	}
	a.push(target)
	a.pushU(gas)
	a.op(kind)
}

// treeSpec fixes a tree; used by the random generator and by the systematic corpus
type treeSpec struct {
	kinds    []byte  // kinds[i]: how level i calls level i+1 (len = depth-1)
	leaf     int     // 0: contract that stops, 1: empty account, 2: identity precompile, 3: contract that reverts
	leafKind byte    // how the last level calls the leaf (0 = no leaf call)
	writes   [][]int // writes[i]: write attempts of level i after its call returned
	pre      []int   // pre[i] >= 0: a write attempt of level i BEFORE its call
	keepFlag []bool  // level i stores the success flag of its call at slot 7 (a write!) -- only on non-static levels
}

func buildTree(r *Rng, sp treeSpec) tcase {
	var t tcase
	origin := big.NewInt(0xee01)
	coinbase := big.NewInt(0xcb01)
	t.fork = []int{0, 0, 1, 2}[r.Intn(4)]
	t.env = []*big.Int{origin, big.NewInt(int64(r.Intn(100))), coinbase, big.NewInt(int64(1000 + r.Intn(1000))),
		big.NewInt(int64(r.Intn(600))), new(big.Int).SetBytes(r.Bytes(32)), big.NewInt(1),
		big.NewInt(int64(r.Intn(1000))), big.NewInt(int64(1 + r.Intn(50)))}
	t.pre = append(t.pre, acct{addr: origin, balance: pow2(70), nonce: uint64(r.Intn(3))})
	depth := len(sp.kinds) + 1
	leafAddr := big.NewInt(0x1000 + int64(depth))
	switch sp.leaf {
	case 1:
		leafAddr = big.NewInt(0x5555)
	case 2:
		leafAddr = big.NewInt(4)
	}
	for i := 0; i < depth; i++ {
		a := newAsm()
		if sp.pre[i] >= 0 {
			emitWrite(a, r, sp.pre[i])
		}
		below := uint64(depth - i)
		if i < depth-1 {
			emitCall(a, sp.kinds[i], big.NewInt(0x1000+int64(i)+1), 120000*below, 0)
		} else if sp.leafKind != 0 {
			emitCall(a, sp.leafKind, leafAddr, 40000, 0)
		} else {
			a.pushU(1)
		}
		if sp.keepFlag[i] {
			a.pushU(7)
			a.op(0x55)
		} else {
			a.op(0x50)
		}
		for _, w := range sp.writes[i] {
			emitWrite(a, r, w)
		}
		a.op(0x00)
		ac := acct{addr: big.NewInt(0x1000 + int64(i)), balance: big.NewInt(int64(50 + r.Intn(100))), nonce: 1, code: a.bytes()}
		for k := 0; k < 4; k++ {
			if r.Chance(1, 2) {
				ac.slots = append(ac.slots, [2]*big.Int{big.NewInt(int64(k)), big.NewInt(int64(1 + r.Intn(5)))})
			}
		}
		t.pre = append(t.pre, ac)
	}
	if sp.leaf == 0 || sp.leaf == 3 {
		code := []byte{0x00}
		if sp.leaf == 3 {
			code = []byte{0x60, 0x00, 0x60, 0x00, 0xfd}
		}
		t.pre = append(t.pre, acct{addr: leafAddr, balance: big.NewInt(1), nonce: 1, code: code})
	}
	t.pre = append(t.pre, acct{addr: big.NewInt(0x2222), balance: big.NewInt(3), nonce: 0})
	t.to = big.NewInt(0x1000)
	t.value = new(big.Int)
	t.data = nil
	t.gas = 120000*uint64(depth+1) + 400000
	return t
}

func randomTree(r *Rng) treeSpec {
	depth := 3 + r.Intn(3) // 3..5 levels
	var sp treeSpec
	callKinds := []byte{0xf1, 0xf2, 0xf4, 0xfa}
	first := r.Intn(depth - 1) // the level that opens the static context
	for i := 0; i < depth-1; i++ {
		k := callKinds[r.Intn(4)]
		if i == first {
			k = 0xfa
		} else if i > first && r.Chance(1, 2) {
			k = 0xfa // STATICCALL issued from a static context
		}
		sp.kinds = append(sp.kinds, k)
	}
	sp.leaf = r.Intn(4)
	sp.leafKind = []byte{0xfa, 0xfa, 0xf1, 0xf4, 0}[r.Intn(5)]
	for i := 0; i < depth; i++ {
		var ws []int
		perm := []int{wSstore, wTstore, wLog, wCreate, wCallValue, wCreate2}
		for j := len(perm) - 1; j > 0; j-- {
			k := r.Intn(j + 1)
			perm[j], perm[k] = perm[k], perm[j]
		}
		n := r.Intn(4)
		ws = append(ws, perm[:n]...)
		if r.Chance(1, 8) {
			ws = append(ws, wSelfdestruct)
		}
		sp.writes = append(sp.writes, ws)
		p := -1
		if r.Chance(1, 8) {
			p = r.Intn(nWrites - 1)
		}
		sp.pre = append(sp.pre, p)
		sp.keepFlag = append(sp.keepFlag, i <= first && r.Chance(1, 2))
	}
	return sp
}

// the systematic family: root CALLs level 1 normally, levels 1.. are entered by STATICCALL, the
// chosen level attempts the chosen write after its (static) call returned
func systematicTrees(r *Rng, emit func(tcase)) {
	for depth := 3; depth <= 4; depth++ {
		for lvl := 1; lvl < depth; lvl++ {
			for w := 0; w < nWrites; w++ {
				sp := treeSpec{leaf: (w + lvl) % 4, leafKind: 0xfa}
				for i := 0; i < depth-1; i++ {
					sp.kinds = append(sp.kinds, 0xfa)
				}
				if depth == 4 && lvl%2 == 0 {
					sp.kinds[1] = []byte{0xf1, 0xf4, 0xf2}[w%3] // the flag is inherited through a plain call
				}
				for i := 0; i < depth; i++ {
					sp.pre = append(sp.pre, -1)
					sp.keepFlag = append(sp.keepFlag, i == 0)
					if i == lvl {
						sp.writes = append(sp.writes, []int{w})
					} else {
						sp.writes = append(sp.writes, nil)
					}
				}
				emit(buildTree(r, sp))
			}
		}
	}
}

// ---------------------------------------------------------------------------
// (b) refund-counter sequences over committed storage.
//
// The storage context is always contract 0x1000 (slots 0..3 with committed values X, 0, Y, 0):
// the outer program is a sequence of SSTOREs and DELEGATECALLs into inner programs (0x1001,
// 0x1002, which may DELEGATECALL further down), every program ending in STOP / REVERT / INVALID /
// out of gas.  Values are drawn from {0, the committed value, two others}, so that every branch
// of the EIP-2200 / EIP-3529 refund logic (clear, un-clear, restore to original from zero /
// non-zero, dirty -> dirty) is taken in outer and inner frames, with reverts at every level.

type refundSpec struct {
	orig [4]uint64
	prog [][]int // prog[i]: items of program i; item = slot*8+valueIndex, or -1-j = delegatecall program j
	end  []int   // 0 stop 1 revert 2 invalid 3 out of gas (memory bomb)
}

func (sp refundSpec) value(slot, vi int) uint64 {
	switch vi {
	case 0:
		return 0
	case 1:
		if sp.orig[slot] != 0 {
			return sp.orig[slot]
		}
		return 9
	case 2:
		return 21 + uint64(slot)
	default:
		return 33
	}
}

func buildRefund(r *Rng, sp refundSpec) tcase {
	var t tcase
	origin := big.NewInt(0xee01)
	t.fork = []int{0, 0, 1, 2}[r.Intn(4)]
	t.env = []*big.Int{origin, big.NewInt(int64(r.Intn(100))), big.NewInt(0xcb01), big.NewInt(int64(1000 + r.Intn(1000))),
		big.NewInt(int64(r.Intn(600))), new(big.Int).SetBytes(r.Bytes(32)), big.NewInt(1),
		big.NewInt(int64(r.Intn(1000))), big.NewInt(int64(1 + r.Intn(50)))}
	t.pre = append(t.pre, acct{addr: origin, balance: pow2(70), nonce: 0})
	for i, items := range sp.prog {
		a := newAsm()
		for _, it := range items {
			if it < 0 {
				emitCall(a, 0xf4, big.NewInt(0x1000+int64(-1-it)), uint64(100000*(len(sp.prog)-i)), 0)
				a.op(0x50)
				continue
			}
			slot, vi := it/8, it%8
			a.pushU(sp.value(slot, vi))
			a.pushU(uint64(slot))
			a.op(0x55)
		}
		switch sp.end[i] {
		case 1:
			a.pushU(0)
			a.pushU(0)
			a.op(0xfd)
		case 2:
			a.op(0xfe)
		case 3:
			a.push(pow2(40))
			a.op(0x51)
		default:
			a.op(0x00)
		}
		ac := acct{addr: big.NewInt(0x1000 + int64(i)), balance: big.NewInt(5), nonce: 1, code: a.bytes()}
		if i == 0 {
			for k := 0; k < 4; k++ {
				if sp.orig[k] != 0 {
					ac.slots = append(ac.slots, [2]*big.Int{big.NewInt(int64(k)), big64(sp.orig[k])})
				}
			}
		}
		t.pre = append(t.pre, ac)
	}
	t.to = big.NewInt(0x1000)
	t.value = new(big.Int)
	t.gas = 100000*uint64(len(sp.prog)) + 600000
	return t
}

func randomRefund(r *Rng) refundSpec {
	sp := refundSpec{orig: [4]uint64{5, 0, 7, 0}}
	if r.Chance(1, 4) {
		sp.orig = [4]uint64{uint64(r.Intn(3)), uint64(r.Intn(2)), 7, 0}
	}
	n := 2 + r.Intn(2) // programs: outer + 1..2 inner levels
	for i := 0; i < n; i++ {
		var items []int
		k := 1 + r.Intn(5)
		for j := 0; j < k; j++ {
			slot := []int{0, 0, 0, 1, 2, 3}[r.Intn(6)] // concentrate on slot 0 (committed non-zero)
			items = append(items, slot*8+r.Intn(4))
			if i < n-1 && r.Chance(1, 3) {
				items = append(items, -1-(i+1+r.Intn(n-1-i)))
			}
		}
		if i < n-1 && r.Chance(2, 3) {
			items = append(items, -1-(i+1))
			if r.Chance(1, 2) { // and something after the inner frame came back
				items = append(items, 0*8+r.Intn(4))
			}
		}
		sp.prog = append(sp.prog, items)
		e := 0
		if i > 0 {
			e = []int{0, 1, 1, 2, 3}[r.Intn(5)]
		} else if r.Chance(1, 6) {
			e = 1 + r.Intn(2)
		}
		sp.end = append(sp.end, e)
	}
	return sp
}

// the refund branches one by one: outer brings slot 0 (committed X) into state S, the inner frame
// moves it to T and ends with E
func systematicRefunds(r *Rng, emit func(tcase)) {
	for s := 0; s < 4; s++ { // outer: leaves it X (vi 1) / 0 / Z / W
		for tv := 0; tv < 4; tv++ {
			for e := 0; e < 3; e++ {
				sp := refundSpec{orig: [4]uint64{5, 0, 7, 0}}
				outer := []int{}
				if s != 1 {
					outer = append(outer, 0*8+s)
				}
				outer = append(outer, -2)
				sp.prog = [][]int{outer, {0*8 + tv}}
				sp.end = []int{0, []int{1, 2, 0}[e]}
				emit(buildRefund(r, sp))
			}
		}
	}
	// the same on a slot whose committed value is zero (slot 1)
	for s := 0; s < 3; s++ {
		for tv := 0; tv < 3; tv++ {
			sp := refundSpec{orig: [4]uint64{5, 0, 7, 0}}
			sp.prog = [][]int{{1*8 + []int{0, 2, 3}[s], -2}, {1*8 + []int{0, 2, 3}[tv]}}
			sp.end = []int{0, 1}
			emit(buildRefund(r, sp))
		}
	}
	// two levels of inner frames, the deepest reverts, the middle one succeeds or reverts
	for e := 0; e < 2; e++ {
		sp := refundSpec{orig: [4]uint64{5, 0, 7, 0}}
		sp.prog = [][]int{{0*8 + 0, -2, 2*8 + 0}, {0*8 + 1, -3, 0*8 + 0}, {0*8 + 2, 2*8 + 0}}
		sp.end = []int{0, e, 1}
		emit(buildRefund(r, sp))
	}
}
