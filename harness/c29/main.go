// Family c29: static and reverted frames have no lasting effects.
//
// Implementation side: core/vm (evm.Call / CallCode / DelegateCall / StaticCall / create with
// their Snapshot / RevertToSnapshot, the readOnly flag) driven through runtime.Call /
// runtime.Create.  Compared with the EVM core model coq/EVM/{State,Step,Interp}.v under Cancun /
// Prague / Osaka (whole end-of-transaction world: accounts, storage, transient storage, logs,
// refund, warm sets, self-destruct marks), plus a model-independent oracle run under every rule
// set Frontier .. Bogota: with tracing.Hooks OnEnter/OnExit the full observable state is dumped
// through the StateDB getters at frame entry and at frame exit and must be equal for every
// reverted / failed frame (everything) and for every static frame (everything but warmth).
package main

import (
	"errors"
	"fmt"
	"math/big"
	"sort"
	"strings"
	"time"

	. "gethverif/harness/hxlib"
	"github.com/ethereum/go-ethereum/common"
	"github.com/ethereum/go-ethereum/core/state"
	"github.com/ethereum/go-ethereum/core/tracing"
	"github.com/ethereum/go-ethereum/core/types"
	"github.com/ethereum/go-ethereum/core/vm"
	"github.com/ethereum/go-ethereum/core/vm/runtime"
	"github.com/ethereum/go-ethereum/crypto"
	"github.com/ethereum/go-ethereum/params"
	"github.com/holiman/uint256"
)

// ---------------------------------------------------------------------------
// rule sets

var forkNames = []string{"Frontier", "Homestead", "TangerineWhistle", "SpuriousDragon", "Byzantium",
	"Constantinople", "Petersburg", "Istanbul", "Berlin", "London", "Shanghai", "Cancun", "Prague",
	"Osaka", "Amsterdam", "Bogota"}

const (
	lvBerlin    = 8
	lvCancun    = 11
	lvPrague    = 12
	lvOsaka     = 13
	lvAmsterdam = 14
)

// chainConfig activates the first level+1 forks at genesis. (With runtime's defaults Random is
// non-nil, so a London configuration selects the Merge table: London == Merge here.)
func chainConfig(level int) *params.ChainConfig {
	z := func() *big.Int { return new(big.Int) }
	t := func() *uint64 { v := uint64(0); return &v }
	c := &params.ChainConfig{ChainID: big.NewInt(1)}
	if level >= 1 {
		c.HomesteadBlock = z()
	}
	if level >= 2 {
		c.EIP150Block = z()
	}
	if level >= 3 {
		c.EIP155Block, c.EIP158Block = z(), z()
	}
	if level >= 4 {
		c.ByzantiumBlock = z()
	}
	if level >= 5 {
		c.ConstantinopleBlock = z()
		if level == 5 {
			c.PetersburgBlock = big.NewInt(1 << 40) // Constantinople proper (EIP-1283 metering)
		}
	}
	if level >= 6 {
		c.PetersburgBlock = z()
	}
	if level >= 7 {
		c.IstanbulBlock, c.MuirGlacierBlock = z(), z()
	}
	if level >= 8 {
		c.BerlinBlock = z()
	}
	if level >= 9 {
		c.LondonBlock = z()
		c.TerminalTotalDifficulty = z()
	}
	if level >= 10 {
		c.ShanghaiTime = t()
	}
	if level >= 11 {
		c.CancunTime = t()
		c.BlobScheduleConfig = &params.BlobScheduleConfig{Cancun: params.DefaultCancunBlobConfig, Prague: params.DefaultPragueBlobConfig}
	}
	if level >= 12 {
		c.PragueTime = t()
	}
	if level >= 13 {
		c.OsakaTime = t()
	}
	if level >= 14 {
		c.AmsterdamTime = t()
	}
	if level >= 15 {
		c.BogotaTime = t()
	}
	return c
}

// ---------------------------------------------------------------------------
// case (the format of family c27)

type acct struct {
	addr    *big.Int
	balance *big.Int
	nonce   uint64
	code    []byte
	slots   [][2]*big.Int
}

type tcase struct {
	kind  int // 0 call, 1 create
	fork  int // 0 Cancun 1 Prague 2 Osaka (rule set of the model comparison)
	env   []*big.Int
	blobs []*big.Int
	pre   []acct
	to    *big.Int
	value *big.Int
	data  []byte
	gas   uint64
}

func bi(s Sx) *big.Int { return AsBig(s) }

func parseCase(c Sx) tcase {
	l := AsList(c)
	var t tcase
	t.kind = int(AsInt(l[0]))
	t.fork = int(AsInt(l[1]))
	ev := AsList(l[2])
	for i := 0; i < 9; i++ {
		t.env = append(t.env, bi(ev[i]))
	}
	for _, b := range AsList(ev[9]) {
		t.blobs = append(t.blobs, bi(b))
	}
	for _, a := range AsList(l[3]) {
		al := AsList(a)
		x := acct{addr: bi(al[0]), balance: bi(al[1]), nonce: bi(al[2]).Uint64(), code: AsBytes(al[3])}
		for _, s := range AsList(al[4]) {
			sl := AsList(s)
			x.slots = append(x.slots, [2]*big.Int{bi(sl[0]), bi(sl[1])})
		}
		t.pre = append(t.pre, x)
	}
	tx := AsList(l[4])
	if t.kind == 0 {
		t.to, t.value, t.data, t.gas = bi(tx[0]), bi(tx[1]), AsBytes(tx[2]), bi(tx[3]).Uint64()
	} else {
		t.value, t.data, t.gas = bi(tx[0]), AsBytes(tx[1]), bi(tx[2]).Uint64()
	}
	if t.gas == 0 || t.gas > 1<<36 {
		// runtime.setDefaults turns a zero GasLimit into MaxUint64; huge limits make runs unbounded
		panic("hxlib: gas limit outside the generated range [1, 2^36]")
	}
	return t
}

func (t tcase) sx() Sx {
	var ev SL
	for _, e := range t.env {
		ev = append(ev, Big(e))
	}
	var bl SL
	for _, b := range t.blobs {
		bl = append(bl, Big(b))
	}
	ev = append(ev, bl)
	var pre SL
	for _, a := range t.pre {
		var sl SL
		for _, s := range a.slots {
			sl = append(sl, L(Big(s[0]), Big(s[1])))
		}
		pre = append(pre, L(Big(a.addr), Big(a.balance), U(a.nonce), B(a.code), sl))
	}
	var tx Sx
	if t.kind == 0 {
		tx = L(Big(t.to), Big(t.value), B(t.data), U(t.gas))
	} else {
		tx = L(Big(t.value), B(t.data), U(t.gas))
	}
	return L(I(int64(t.kind)), I(int64(t.fork)), ev, pre, tx)
}

func addrOf(b *big.Int) common.Address  { return common.BigToAddress(b) }
func addrBig(a common.Address) *big.Int { return new(big.Int).SetBytes(a.Bytes()) }

// ---------------------------------------------------------------------------
// running the implementation

func errClass(err error) int64 {
	var su *vm.ErrStackUnderflow
	var so *vm.ErrStackOverflow
	var io *vm.ErrInvalidOpCode
	switch {
	case err == nil:
		return 0
	case errors.Is(err, vm.ErrExecutionReverted):
		return 1
	case errors.Is(err, vm.ErrOutOfGas), errors.Is(err, vm.ErrGasUintOverflow):
		return 2
	case errors.As(err, &su):
		return 3
	case errors.As(err, &so):
		return 4
	case errors.Is(err, vm.ErrInvalidJump):
		return 5
	case errors.As(err, &io):
		return 6
	case errors.Is(err, vm.ErrWriteProtection):
		return 7
	case errors.Is(err, vm.ErrReturnDataOutOfBounds):
		return 8
	case errors.Is(err, vm.ErrDepth):
		return 9
	case errors.Is(err, vm.ErrInsufficientBalance):
		return 10
	case errors.Is(err, vm.ErrContractAddressCollision):
		return 11
	case errors.Is(err, vm.ErrMaxCodeSizeExceeded):
		return 12
	case errors.Is(err, vm.ErrInvalidCode):
		return 13
	case errors.Is(err, vm.ErrCodeStoreOutOfGas):
		return 14
	case errors.Is(err, vm.ErrNonceUintOverflow):
		return 15
	}
	return 16
}

var backing = state.NewDatabaseForTesting()

func buildState(t tcase) *state.StateDB {
	st, err := state.New(types.EmptyRootHash, backing)
	if err != nil {
		panic("hxlib: state.New: " + err.Error())
	}
	for _, a := range t.pre {
		ad := addrOf(a.addr)
		st.CreateAccount(ad)
		st.SetNonce(ad, a.nonce, tracing.NonceChangeUnspecified)
		st.SetBalance(ad, uint256.MustFromBig(a.balance), tracing.BalanceChangeUnspecified)
		if len(a.code) > 0 {
			st.SetCode(ad, a.code, tracing.CodeChangeUnspecified)
		}
		for _, s := range a.slots {
			st.SetState(ad, common.BigToHash(s[0]), common.BigToHash(s[1]))
		}
	}
	root, err := st.Commit(params.Rules{}, 0)
	if err != nil {
		panic("hxlib: commit: " + err.Error())
	}
	st2, err := state.New(root, backing)
	if err != nil {
		panic("hxlib: reopen: " + err.Error())
	}
	return st2
}

// ---------------------------------------------------------------------------
// the set of things worth observing: every address / storage key / transient key the run
// mentions (collected by a first, unchecked pass over the same deterministic execution)

type touched struct {
	addrs map[common.Address]bool
	skeys map[common.Address]map[common.Hash]bool
	tkeys map[common.Address]map[common.Hash]bool
	// sorted views, fixed after the first pass
	as []common.Address
	sk map[common.Address][]common.Hash
	tk map[common.Address][]common.Hash
}

func newTouched(t tcase) *touched {
	tc := &touched{addrs: map[common.Address]bool{}, skeys: map[common.Address]map[common.Hash]bool{},
		tkeys: map[common.Address]map[common.Hash]bool{}}
	tc.addrs[addrOf(t.env[0])] = true
	tc.addrs[addrOf(t.env[2])] = true
	for i := 1; i <= 17; i++ {
		tc.addrs[common.BytesToAddress([]byte{byte(i)})] = true
	}
	tc.addrs[common.BytesToAddress([]byte{1, 0})] = true
	for _, a := range t.pre {
		tc.addrs[addrOf(a.addr)] = true
		for _, s := range a.slots {
			tc.skey(addrOf(a.addr), common.BigToHash(s[0]))
		}
	}
	if t.kind == 0 {
		tc.addrs[addrOf(t.to)] = true
	}
	return tc
}

func (tc *touched) skey(a common.Address, k common.Hash) {
	tc.addrs[a] = true
	if tc.skeys[a] == nil {
		tc.skeys[a] = map[common.Hash]bool{}
	}
	tc.skeys[a][k] = true
}
func (tc *touched) tkey(a common.Address, k common.Hash) {
	tc.addrs[a] = true
	if tc.tkeys[a] == nil {
		tc.tkeys[a] = map[common.Hash]bool{}
	}
	tc.tkeys[a][k] = true
}

func sortedHashes(m map[common.Hash]bool) []common.Hash {
	var ks []common.Hash
	for k := range m {
		ks = append(ks, k)
	}
	sort.Slice(ks, func(i, j int) bool { return ks[i].Cmp(ks[j]) < 0 })
	return ks
}

func (tc *touched) freeze() {
	tc.as = nil
	for a := range tc.addrs {
		tc.as = append(tc.as, a)
	}
	sort.Slice(tc.as, func(i, j int) bool { return tc.as[i].Cmp(tc.as[j]) < 0 })
	tc.sk = map[common.Address][]common.Hash{}
	tc.tk = map[common.Address][]common.Hash{}
	for a, m := range tc.skeys {
		tc.sk[a] = sortedHashes(m)
	}
	for a, m := range tc.tkeys {
		tc.tk[a] = sortedHashes(m)
	}
}

// observe records what an opcode is about to touch (operands are read from the stack)
func (tc *touched) observe(op byte, scope tracing.OpContext) {
	sd := scope.StackData()
	n := len(sd)
	top := func(i int) *uint256.Int { return &sd[n-1-i] }
	switch vm.OpCode(op) {
	case vm.SLOAD, vm.SSTORE:
		if n >= 1 {
			tc.skey(scope.Address(), common.Hash(top(0).Bytes32()))
		}
	case vm.TLOAD, vm.TSTORE:
		if n >= 1 {
			tc.tkey(scope.Address(), common.Hash(top(0).Bytes32()))
		}
	case vm.BALANCE, vm.EXTCODESIZE, vm.EXTCODECOPY, vm.EXTCODEHASH, vm.SELFDESTRUCT:
		if n >= 1 {
			tc.addrs[common.Address(top(0).Bytes20())] = true
		}
	case vm.CALL, vm.CALLCODE, vm.DELEGATECALL, vm.STATICCALL:
		if n >= 2 {
			tc.addrs[common.Address(top(1).Bytes20())] = true
		}
	}
}

// ---------------------------------------------------------------------------
// the full observable state, through the StateDB getters only

type dump struct {
	bal    map[common.Address]string
	nonce  map[common.Address]uint64
	code   map[common.Address]common.Hash
	stor   map[common.Address]string // non-zero slots "k=v;"
	trans  map[common.Address]string
	dead   map[common.Address]bool
	warmA  map[common.Address]bool
	warmS  string
	logs   string
	nlogs  int
	refund uint64
}

func logString(l *types.Log) string {
	var sb strings.Builder
	sb.WriteString(l.Address.Hex())
	for _, t := range l.Topics {
		sb.WriteString("," + t.Hex())
	}
	sb.WriteString(":" + common.Bytes2Hex(l.Data) + ";")
	return sb.String()
}

func takeDump(st *state.StateDB, tc *touched) *dump {
	d := &dump{bal: map[common.Address]string{}, nonce: map[common.Address]uint64{}, code: map[common.Address]common.Hash{},
		stor: map[common.Address]string{}, trans: map[common.Address]string{}, dead: map[common.Address]bool{},
		warmA: map[common.Address]bool{}}
	var ws strings.Builder
	for _, a := range tc.as {
		d.bal[a] = st.GetBalance(a).String()
		d.nonce[a] = st.GetNonce(a)
		d.code[a] = crypto.Keccak256Hash(st.GetCode(a))
		var sb strings.Builder
		for _, k := range tc.sk[a] {
			if v := st.GetState(a, k); v != (common.Hash{}) {
				sb.WriteString(k.Hex() + "=" + v.Hex() + ";")
			}
			if _, ok := st.SlotInAccessList(a, k); ok {
				ws.WriteString(a.Hex() + "/" + k.Hex() + ";")
			}
		}
		d.stor[a] = sb.String()
		sb.Reset()
		for _, k := range tc.tk[a] {
			if v := st.GetTransientState(a, k); v != (common.Hash{}) {
				sb.WriteString(k.Hex() + "=" + v.Hex() + ";")
			}
		}
		d.trans[a] = sb.String()
		d.dead[a] = st.HasSelfDestructed(a)
		d.warmA[a] = st.AddressInAccessList(a)
	}
	d.warmS = ws.String()
	logs := st.Logs()
	d.nlogs = len(logs)
	var lb strings.Builder
	for _, l := range logs {
		lb.WriteString(logString(l))
	}
	d.logs = lb.String()
	d.refund = st.GetRefund()
	return d
}

// diff of two dumps; [all] = also refund, warm sets (a reverted frame), otherwise the static
// projection: balances, nonces, code, storage, transient storage, logs, self-destruct marks
func (tc *touched) diff(a, b *dump, all bool) string {
	for _, x := range tc.as {
		switch {
		case a.bal[x] != b.bal[x]:
			return fmt.Sprintf("balance of %s: %s -> %s", x.Hex(), a.bal[x], b.bal[x])
		case a.nonce[x] != b.nonce[x]:
			return fmt.Sprintf("nonce of %s: %d -> %d", x.Hex(), a.nonce[x], b.nonce[x])
		case a.code[x] != b.code[x]:
			return fmt.Sprintf("code of %s changed", x.Hex())
		case a.stor[x] != b.stor[x]:
			return fmt.Sprintf("storage of %s: [%s] -> [%s]", x.Hex(), a.stor[x], b.stor[x])
		case a.trans[x] != b.trans[x]:
			return fmt.Sprintf("transient storage of %s: [%s] -> [%s]", x.Hex(), a.trans[x], b.trans[x])
		case a.dead[x] != b.dead[x]:
			return fmt.Sprintf("self-destruct mark of %s: %v -> %v", x.Hex(), a.dead[x], b.dead[x])
		case all && a.warmA[x] != b.warmA[x]:
			return fmt.Sprintf("warmth of %s: %v -> %v", x.Hex(), a.warmA[x], b.warmA[x])
		}
	}
	if a.logs != b.logs {
		return fmt.Sprintf("logs: %d -> %d entries", a.nlogs, b.nlogs)
	}
	if a.refund != b.refund {
		return fmt.Sprintf("refund counter: %d -> %d", a.refund, b.refund)
	}
	if all && a.warmS != b.warmS {
		return fmt.Sprintf("warm slots: [%s] -> [%s]", a.warmS, b.warmS)
	}
	return ""
}

// isWriteOp: does this opcode, with the operands on the stack, modify state?
func isWriteOp(op vm.OpCode, scope tracing.OpContext) bool {
	switch op {
	case vm.SSTORE, vm.TSTORE, vm.LOG0, vm.LOG1, vm.LOG2, vm.LOG3, vm.LOG4, vm.CREATE, vm.CREATE2, vm.SELFDESTRUCT:
		return true
	case vm.CALL:
		sd := scope.StackData()
		return len(sd) >= 3 && !sd[len(sd)-3].IsZero()
	}
	return false
}

// ---------------------------------------------------------------------------

type frameRec struct {
	typ    vm.OpCode
	from   common.Address
	to     common.Address
	static bool
	sdepth int // number of STATICCALLs on the path to this frame
	entry  *dump
	moved  bool // the refund counter differed from its entry value at some opcode of this frame
}

type runOut struct {
	ret      []byte
	gasLeft  uint64
	err      error
	created  common.Address
	st       *state.StateDB
	viol     []string
	steps    int
	maxDepth int
	nFrames  int
	nFailed  int // frames that reverted / failed after touching state is not known here: all reverted frames
	nStatic  int
	nReject  int // write attempts in a static context that were rejected
	sDepth   int // deepest nesting of static frames (a STATICCALL issued from a static context counts 2, ...)
	refunds  int // frames at whose exit the refund counter differed from its value at entry (not reverted)
	kinds    map[string]bool
	panicked string
	overrun  bool
}

const stepBudget = 3000000

type budgetExceeded struct{}

// execute runs the case under rule set [level].  With check == false it only collects the
// touched set into tc; with check == true (tc frozen) it dumps the state at every frame entry
// and exit and applies the oracle.
func execute(t tcase, level int, tc *touched, check bool) (out runOut) {
	out.kinds = map[string]bool{}
	st := buildState(t)
	out.st = st
	var stack []frameRec
	// a state-writing opcode that started executing in a static context: the very next tracer
	// event must be the OnFault of that opcode with ErrWriteProtection
	var pending struct {
		active bool
		depth  int
		op     vm.OpCode
		pc     uint64
	}
	pendingBroken := func(what string) {
		if pending.active {
			pending.active = false
			if len(out.viol) < 3 {
				out.viol = append(out.viol, fmt.Sprintf("%s at pc %d depth %d executed in a static context without a write-protection fault (next event: %s)",
					pending.op, pending.pc, pending.depth, what))
			}
		}
	}
	bad := func(s string) {
		if len(out.viol) < 3 {
			out.viol = append(out.viol, s)
		}
	}
	hooks := &tracing.Hooks{
		OnEnter: func(depth int, typ byte, from, to common.Address, input []byte, gas uint64, value *big.Int) {
			op := vm.OpCode(typ)
			pendingBroken("OnEnter " + op.String())
			static := op == vm.STATICCALL
			sdepth := 0
			if len(stack) > 0 && stack[len(stack)-1].static {
				static = true
				sdepth = stack[len(stack)-1].sdepth
			}
			if op == vm.STATICCALL {
				sdepth++
			}
			if sdepth > out.sDepth {
				out.sDepth = sdepth
			}
			fr := frameRec{typ: op, from: from, to: to, static: static, sdepth: sdepth}
			if !check {
				tc.addrs[from] = true
				tc.addrs[to] = true
			} else if op != vm.SELFDESTRUCT {
				fr.entry = takeDump(st, tc)
			}
			stack = append(stack, fr)
			if depth+1 > out.maxDepth {
				out.maxDepth = depth + 1
			}
		},
		OnExit: func(depth int, output []byte, gasUsed uint64, err error, reverted bool) {
			if len(stack) == 0 {
				bad("OnExit without OnEnter")
				return
			}
			fr := stack[len(stack)-1]
			stack = stack[:len(stack)-1]
			if err == nil {
				pendingBroken("OnExit without error")
			} else if pending.active && pending.depth == depth+1 {
				pending.active = false // the frame failed right there
			}
			if !check || fr.typ == vm.SELFDESTRUCT {
				return
			}
			out.nFrames++
			cl := errClass(err)
			exit := takeDump(st, tc)
			if reverted {
				out.nFailed++
				out.kinds[fmt.Sprintf("fail%s-%d", strings.ToLower(fr.typ.String()), cl)] = true
				want := fr.entry
				if fr.typ == vm.CREATE || fr.typ == vm.CREATE2 {
					// evm.create bumps the creator's nonce and warms the new address before its
					// snapshot; only the precheck errors (pre-Amsterdam: checked inside create) precede that
					precheck := level < lvAmsterdam && (cl == 9 || cl == 10 || cl == 15)
					if !precheck {
						want.nonce[fr.from]++
						if level >= lvBerlin {
							want.warmA[fr.to] = true
						}
					}
				}
				if d := tc.diff(want, exit, true); d != "" {
					bad(fmt.Sprintf("%s frame at depth %d (to %s) failed with class %d but left a trace: %s",
						fr.typ, depth, fr.to.Hex(), cl, d))
				}
			}
			if !reverted && fr.entry != nil && exit.refund != fr.entry.refund {
				out.refunds++
			}
			if reverted && fr.moved {
				if exit.refund > 0 {
					out.kinds["revert-undoes-refund-nonzero"] = true
				} else {
					out.kinds["revert-undoes-refund"] = true
				}
			}
			if fr.moved && !reverted && len(stack) > 0 {
				stack[len(stack)-1].moved = true // the parent saw the counter away from its own entry value too (or not: harmless)
			}
			if fr.static {
				out.nStatic++
				out.kinds["static"+strings.ToLower(fr.typ.String())] = true
				if !reverted { // a reverted static frame is covered by the stronger check above
					if d := tc.diff(fr.entry, exit, false); d != "" {
						bad(fmt.Sprintf("static %s frame at depth %d (to %s) changed state: %s", fr.typ, depth, fr.to.Hex(), d))
					}
				}
			}
		},
		OnOpcode: func(pc uint64, op byte, gas, cost uint64, scope tracing.OpContext, rData []byte, depth int, err error) {
			out.steps++
			if out.steps > stepBudget {
				panic(budgetExceeded{})
			}
			if !check {
				tc.observe(op, scope)
				return
			}
			if pending.active {
				pendingBroken("opcode " + vm.OpCode(op).String())
			}
			if n := len(stack); n > 0 && !stack[n-1].moved && stack[n-1].entry != nil && st.GetRefund() != stack[n-1].entry.refund {
				stack[n-1].moved = true
			}
			if len(stack) > 0 && stack[len(stack)-1].static && isWriteOp(vm.OpCode(op), scope) {
				if err != nil {
					out.nReject++ // rejected by the gas function / before execution
				} else {
					pending.active, pending.depth, pending.op, pending.pc = true, depth, vm.OpCode(op), pc
				}
			}
		},
		OnFault: func(pc uint64, op byte, gas, cost uint64, scope tracing.OpContext, depth int, err error) {
			if !check || !pending.active {
				return
			}
			if pending.depth == depth && pending.pc == pc {
				pending.active = false
				out.nReject++
				// (an opcode that the rule set does not define yet fails as an invalid opcode)
				if err == nil || !(strings.Contains(err.Error(), "write protection") || strings.Contains(err.Error(), "invalid opcode")) {
					bad(fmt.Sprintf("%s in a static context failed with %v, want write protection", vm.OpCode(op), err))
				}
			}
		},
	}
	var blobs []common.Hash
	for _, b := range t.blobs {
		blobs = append(blobs, common.BigToHash(b))
	}
	rnd := common.BigToHash(t.env[5])
	cfg := &runtime.Config{
		ChainConfig: chainConfig(level),
		Origin:      addrOf(t.env[0]),
		GasPrice:    t.env[1],
		Coinbase:    addrOf(t.env[2]),
		Time:        t.env[3].Uint64(),
		BlockNumber: t.env[4],
		Random:      &rnd,
		BaseFee:     t.env[7],
		BlobBaseFee: t.env[8],
		BlobHashes:  blobs,
		GasLimit:    t.gas,
		Value:       t.value,
		State:       st,
		EVMConfig:   vm.Config{Tracer: hooks},
		GetHashFn: func(n uint64) common.Hash {
			return crypto.Keccak256Hash(common.BigToHash(new(big.Int).SetUint64(n)).Bytes())
		},
	}
	defer func() {
		if e := recover(); e != nil {
			if _, ok := e.(budgetExceeded); ok {
				out.overrun = true
				return
			}
			out.panicked = fmt.Sprint(e)
		}
	}()
	if t.kind == 0 {
		out.ret, out.gasLeft, out.err = runtime.Call(addrOf(t.to), t.data, cfg)
	} else {
		out.ret, out.created, out.gasLeft, out.err = runtime.Create(t.data, cfg)
	}
	return
}

// both passes under one rule set
func runLevel(t tcase, level int) (runOut, *touched) {
	tc := newTouched(t)
	o1 := execute(t, level, tc, false)
	if o1.overrun || o1.panicked != "" {
		return o1, tc
	}
	tc.freeze()
	o2 := execute(t, level, tc, true)
	if o2.steps != o1.steps && o2.panicked == "" && !o2.overrun {
		o2.viol = append(o2.viol, fmt.Sprintf("execution is not deterministic: %d vs %d steps", o1.steps, o2.steps))
	}
	return o2, tc
}

// observables of one run, in the model's canonical form (Run/C29.v)
func observe(t tcase, o runOut, tc *touched) Sx {
	st := o.st
	var accts, dead, trans, warmA, warmS SL
	for _, a := range tc.as {
		var slots SL
		for _, k := range tc.sk[a] {
			if v := st.GetState(a, k); v != (common.Hash{}) {
				slots = append(slots, L(Big(k.Big()), Big(v.Big())))
			}
			if _, ok := st.SlotInAccessList(a, k); ok {
				warmS = append(warmS, L(Big(addrBig(a)), Big(k.Big())))
			}
		}
		bal, nonce, code := st.GetBalance(a), st.GetNonce(a), st.GetCode(a)
		if !(bal.IsZero() && nonce == 0 && len(code) == 0 && len(slots) == 0) {
			accts = append(accts, L(Big(addrBig(a)), Big(bal.ToBig()), U(nonce), B(code), slots))
		}
		if st.HasSelfDestructed(a) {
			dead = append(dead, Big(addrBig(a)))
		}
		var tsl SL
		for _, k := range tc.tk[a] {
			if v := st.GetTransientState(a, k); v != (common.Hash{}) {
				tsl = append(tsl, L(Big(k.Big()), Big(v.Big())))
			}
		}
		if len(tsl) > 0 {
			trans = append(trans, L(Big(addrBig(a)), tsl))
		}
		if st.AddressInAccessList(a) {
			warmA = append(warmA, Big(addrBig(a)))
		}
	}
	var logs SL
	for _, l := range st.Logs() {
		var tp SL
		for _, x := range l.Topics {
			tp = append(tp, Big(x.Big()))
		}
		logs = append(logs, L(Big(addrBig(l.Address)), tp, B(l.Data)))
	}
	var created common.Address
	if t.kind == 0 {
		created = addrOf(t.to)
	} else {
		// the model reports the address it derived; geth reports the zero address on a failed precheck
		created = crypto.CreateAddress(addrOf(t.env[0]), nonceOf(t, addrOf(t.env[0])))
	}
	return L(I(errClass(o.err)), B(o.ret), U(o.gasLeft), Big(addrBig(created)),
		U(st.GetRefund()), logs, accts, dead, trans, warmA, warmS)
}

func nonceOf(t tcase, a common.Address) uint64 {
	for _, x := range t.pre {
		if addrOf(x.addr) == a {
			return x.nonce
		}
	}
	return 0
}

var modelFork = []int{lvCancun, lvPrague, lvOsaka}

func run(c Sx) Result {
	t := parseCase(c)
	res := Result{}
	var fails []string
	ml := modelFork[t.fork%3]
	var main runOut
	for level := range forkNames {
		o, tc := runLevel(t, level)
		if o.overrun {
			panic("hxlib: step budget exceeded")
		}
		nm := forkNames[level]
		if o.panicked != "" {
			fails = append(fails, "panic under "+nm+": "+o.panicked)
			if level == ml {
				res.Obs = L(I(-2))
				main = o
			}
			continue
		}
		for _, v := range o.viol {
			fails = append(fails, nm+": "+v)
		}
		if level == ml {
			main = o
			res.Obs = observe(t, o, tc)
		}
	}
	if len(fails) > 0 {
		if len(fails) > 3 {
			fails = fails[:3]
		}
		res.Oracle = strings.Join(fails, " | ")
	}
	res.Tags = append(res.Tags, fmt.Sprintf("status%d", errClass(main.err)), []string{"call", "create"}[t.kind],
		"fork"+forkNames[ml])
	for k := range main.kinds {
		res.Tags = append(res.Tags, k)
	}
	if main.maxDepth >= 3 {
		res.Tags = append(res.Tags, "depth3+")
	}
	if main.nFailed > 0 {
		res.Tags = append(res.Tags, "failedframes")
	}
	if main.nStatic > 0 {
		res.Tags = append(res.Tags, "staticframes")
	}
	if main.sDepth >= 2 {
		res.Tags = append(res.Tags, fmt.Sprintf("staticnest%d", main.sDepth))
	}
	if main.nReject > 0 {
		res.Tags = append(res.Tags, "staticwrite-rejected")
	}
	if main.refunds > 0 {
		res.Tags = append(res.Tags, "refundmoves")
	}
	res.NonTrivial = main.nFailed > 0 || main.nStatic > 0
	return res
}

func main() {
	Main(Family{
		ID: "C29",
		Rule: "pre-states with a caller contract (0x1000), a callee (0x1001), a third random contract and EOAs; the caller is [random block] + wrapper + [random block], " +
			"the wrapper invoking the callee by CALL / CALLCODE / DELEGATECALL / STATICCALL (to its address) or CREATE / CREATE2 (the callee program as init code), with all or little gas; " +
			"the callee is [state-writing block: SSTORE, TSTORE, LOGn, value transfers, nested calls and creates, SLOAD/BALANCE warming] + a forced ending: REVERT, INVALID, stack underflow, " +
			"stack overflow, out of gas (memory bomb or loop under a small gas cap), invalid jump, return-data out of bounds, a write attempted under static (SSTORE/TSTORE/LOG/CREATE/SELFDESTRUCT/value CALL), " +
			"or a normal RETURN/STOP/SELFDESTRUCT; programs from the grammar of family c27 (every modelled opcode, nested calls into the other contracts); plus an adversarial stream (random bytes, mutated programs) " +
			"and exact-gas +-1 variants; " +
			"structured streams: (a) call trees of 3-5 levels with nested static contexts (a STATICCALL and further STATICCALLs issued from an already static context, mixed with CALL / DELEGATECALL / CALLCODE levels inheriting the flag; leaf = contract / reverting contract / empty account / precompile) where every level attempts every state-writing opcode AFTER its inner call returned (systematic: write op x level x depth; and random); " +
			"(b) refund-counter sequences over committed storage (slots with non-zero original values): outer SSTOREs and DELEGATECALLed inner programs (up to 3 levels, one storage context), values from {0, original, two others}, every program ending in STOP / REVERT / INVALID / out of gas (systematic: state x target x ending; and random). " +
			"Oracle additions: a state-writing opcode that starts executing in a static context must be followed at once by its OnFault with ErrWriteProtection (or be rejected by its gas function); the refund counter is part of every entry / exit dump. Each case: model comparison under Cancun / Prague / Osaka (whole end-of-transaction world incl. transient storage, warm sets, refund, logs, self-destruct marks); " +
			"oracle under all 16 rule sets Frontier..Bogota (for rule sets other than Cancun/Prague/Osaka the oracle alone decides): two passes of the same execution, the first collects every address / storage key / transient key mentioned, " +
			"the second dumps balances, nonces, code hashes, storage, transient storage, logs, refund, warm addresses and slots, self-destruct marks through the StateDB getters at every OnEnter and OnExit and requires " +
			"equality for every frame reported reverted (create frames: modulo the creator nonce bump and the warming of the new address, which evm.create performs before its snapshot) and, without the warm sets, for every frame " +
			"in a static context. Non-trivial: the model-fork run contains at least one failed frame or one static frame; distinct = distinct case line.",
		Gen:         gen,
		CaseTimeout: 60 * time.Second,
		Run:         run,
	})
}
