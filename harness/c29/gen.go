package main

import (
	"math/big"

	. "gethverif/harness/hxlib"
)

// ---------------------------------------------------------------------------
// C29 specific program parts

// a statement that certainly writes state (when it is reached and affordable)
func (g *pgen) writeStmt() {
	r, a := g.r, g.a
	switch r.Intn(10) {
	case 0, 1, 2:
		a.push(big.NewInt(int64(1 + r.Intn(5))))
		a.push(g.key())
		a.op(0x55) // SSTORE non-zero
	case 3:
		a.pushU(0)
		a.push(g.key())
		a.op(0x55) // SSTORE zero (refunds)
	case 4, 5:
		a.push(big.NewInt(int64(1 + r.Intn(5))))
		a.push(g.key())
		a.op(0x5d) // TSTORE
	case 6:
		n := r.Intn(3)
		for i := 0; i < n; i++ {
			a.push(g.word())
		}
		a.pushU(uint64(r.Intn(40)))
		a.pushU(0)
		a.op(byte(0xa0 + n)) // LOGn
	case 7: // value transfer
		a.pushU(0)
		a.pushU(0)
		a.pushU(0)
		a.pushU(0)
		a.pushU(uint64(1 + r.Intn(5)))
		a.push(g.addr())
		a.op(0x5a, 0xf1, 0x50)
	case 8: // warm something: SLOAD of a fresh key / BALANCE of some address
		if r.Bool() {
			a.pushU(uint64(4 + r.Intn(4)))
			a.op(0x54, 0x50)
		} else {
			a.push(g.addr())
			a.op(0x31, 0x50)
		}
	default: // a small creation
		init := []byte{0x60, byte(1 + r.Intn(9)), 0x60, 0x00, 0x55, 0x00} // SSTORE(0, n) STOP -> empty code
		if r.Bool() {
			init = []byte{0x60, 0xfe, 0x60, 0x00, 0x53, 0x60, 0x01, 0x60, 0x00, 0xf3} // deploys INVALID
		}
		g.storeBlob(init)
		a.pushU(uint64(len(init)))
		a.pushU(0)
		a.pushU(uint64(r.Intn(3)))
		a.op(0xf0, 0x50)
	}
}

const (
	endRevert = iota
	endInvalid
	endUnderflow
	endOverflow
	endMemBomb
	endLoop
	endBadJump
	endRetOOB
	endStaticWrite
	endReturn
	endStop
	endSelfdestruct
	nEndings
)

var endingNames = []string{"revert", "invalid", "underflow", "overflow", "membomb", "loop", "badjump", "retoob",
	"staticwrite", "return", "stop", "selfdestruct"}

// the forced ending of a callee
func (g *pgen) ending(mode int) {
	r, a := g.r, g.a
	switch mode {
	case endRevert:
		a.pushU(uint64(r.Intn(40)))
		a.pushU(0)
		a.op(0xfd)
	case endInvalid:
		a.op(0xfe)
	case endUnderflow:
		for i := 0; i < 20; i++ {
			a.op(0x50)
		}
	case endOverflow:
		l := a.newLabel()
		a.label(l)
		a.op(0x5f)
		a.pushLabel(l)
		a.op(0x56)
	case endMemBomb:
		a.push(pow2(uint(34 + r.Intn(20))))
		a.op(0x51)
	case endLoop: // runs until the gas is gone: only used under a small gas cap
		l := a.newLabel()
		a.label(l)
		a.pushLabel(l)
		a.op(0x56)
	case endBadJump:
		a.pushU(uint64(1 + r.Intn(3)))
		a.op(0x56)
	case endRetOOB:
		a.pushU(uint64(1 + r.Intn(40)))
		a.pushU(uint64(r.Intn(3)))
		a.pushU(0)
		a.op(0x3e)
		a.op(0xfe) // if return data happened to be long enough
	case endStaticWrite: // fails only in a static context; otherwise writes and stops
		switch r.Intn(6) {
		case 0:
			a.pushU(1)
			a.push(g.key())
			a.op(0x55)
		case 1:
			a.pushU(1)
			a.push(g.key())
			a.op(0x5d)
		case 2:
			a.pushU(0)
			a.pushU(0)
			a.op(0xa0)
		case 3:
			a.pushU(0)
			a.pushU(0)
			a.pushU(0)
			a.op(0xf0)
		case 4:
			a.push(g.addr())
			a.op(0xff)
		default:
			a.pushU(0)
			a.pushU(0)
			a.pushU(0)
			a.pushU(0)
			a.pushU(1)
			a.push(g.addr())
			a.op(0x5a, 0xf1)
		}
		a.op(0x00)
	case endReturn:
		a.pushU(uint64(r.Intn(40)))
		a.pushU(0)
		a.op(0xf3)
	case endStop:
		a.op(0x00)
	default:
		a.push(g.addr())
		a.op(0xff)
	}
}

// callee: [writes and random statements] + forced ending
func calleeCode(r *Rng, w *world, mode int, wild bool) []byte {
	g := &pgen{r: r, a: newAsm(), w: w, wild: wild}
	n := 1 + r.Intn(6)
	for i := 0; i < n; i++ {
		if r.Chance(3, 5) {
			g.writeStmt()
		} else {
			g.stmt()
		}
	}
	g.ending(mode)
	return g.a.bytes()
}

// a statement that reads state but never writes it
func (g *pgen) readStmt() {
	r, a := g.r, g.a
	switch r.Intn(7) {
	case 0:
		a.push(g.key())
		a.op(0x54, 0x50) // SLOAD
	case 1:
		a.push(g.key())
		a.op(0x5c, 0x50) // TLOAD
	case 2:
		a.push(g.addr())
		a.op(0x31, 0x50) // BALANCE
	case 3:
		a.push(g.addr())
		a.op(0x3b, 0x50) // EXTCODESIZE
	case 4:
		a.pushU(uint64(r.Intn(200)))
		a.op(0x51, 0x50) // MLOAD
	case 5: // zero-value CALL / STATICCALL to another contract (static by inheritance)
		a.pushU(0)
		a.pushU(0)
		a.pushU(0)
		a.pushU(0)
		if r.Bool() {
			a.pushU(0)
			a.push(g.addr())
			a.op(0x5a, 0xf1, 0x50)
		} else {
			a.push(g.addr())
			a.op(0x5a, 0xfa, 0x50)
		}
	default:
		a.push(g.word())
		a.push(g.word())
		a.op(0x01, 0x50)
	}
}

func staticProbe(r *Rng, w *world) []byte {
	g := &pgen{r: r, a: newAsm(), w: w}
	for i := r.Intn(4); i > 0; i-- {
		g.readStmt()
	}
	g.ending(endStaticWrite)
	return g.a.bytes()
}

var wrapKinds = []byte{0xf1, 0xf2, 0xf4, 0xfa, 0xf0, 0xf5}

// the wrapper: invoke the callee (address [target], or [init] as init code) by [kind]
func (g *pgen) wrapper(kind byte, target *big.Int, init []byte, smallGas bool) {
	r, a := g.r, g.a
	switch kind {
	case 0xf0, 0xf5:
		g.storeBlob(init)
		if kind == 0xf5 {
			a.pushU(uint64(r.Intn(3)))
		}
		a.pushU(uint64(len(init)))
		a.pushU(0)
		a.push(g.value())
		a.op(kind)
	default:
		a.pushU(uint64(r.Intn(64))) // retSize
		a.pushU(uint64(r.Intn(64))) // retOffset
		a.pushU(uint64(r.Intn(40))) // inSize
		a.pushU(0)                  // inOffset
		if kind == 0xf1 || kind == 0xf2 {
			a.push(g.value())
		}
		a.push(target)
		if smallGas {
			a.pushU(uint64(3000 + r.Intn(40000)))
		} else {
			g.gasArg()
		}
		a.op(kind)
	}
	// keep the result on the stack sometimes, look at the return data sometimes
	g.settle(1)
	if r.Chance(1, 3) {
		a.op(0x3d)
		g.settle(1)
	}
}

// ---------------------------------------------------------------------------
// cases

func big64(v uint64) *big.Int { return new(big.Int).SetUint64(v) }

type genInfo struct {
	kind byte
	mode int
}

func genCase(r *Rng, wild bool) (tcase, genInfo) {
	var t tcase
	origin := big.NewInt(0xee01)
	coinbase := big.NewInt(0xcb01)
	caller, callee, third := big.NewInt(0x1000), big.NewInt(0x1001), big.NewInt(0x1002)
	w := &world{}
	w.addrs = append(w.addrs, caller, callee, third, callee, third, origin, coinbase, big.NewInt(4), big.NewInt(0x2222), big.NewInt(0x3333))
	t.fork = []int{0, 0, 0, 1, 2}[r.Intn(5)]
	t.env = []*big.Int{origin, big.NewInt(int64(r.Intn(100))), coinbase, big.NewInt(int64(1000 + r.Intn(1000))),
		big.NewInt(int64(r.Intn(600))), new(big.Int).SetBytes(r.Bytes(32)), big.NewInt(1),
		big.NewInt(int64(r.Intn(1000))), big.NewInt(int64(1 + r.Intn(50)))}
	t.pre = append(t.pre, acct{addr: origin, balance: new(big.Int).Add(pow2(70), big.NewInt(int64(r.Intn(1000)))), nonce: uint64(r.Intn(3))})

	kind := wrapKinds[r.Intn(len(wrapKinds))]
	mode := r.Intn(nEndings)
	if kind == 0xfa && r.Chance(1, 2) {
		mode = endStaticWrite
	}
	smallGas := mode == endLoop || r.Chance(1, 8)
	if mode == endLoop && (kind == 0xf0 || kind == 0xf5) {
		mode = endMemBomb // a creation gets 63/64 of everything: no endless loops there
	}
	calleeProg := calleeCode(r, w, mode, wild)
	if kind == 0xfa && mode == endStaticWrite && r.Chance(3, 4) {
		// a static probe: nothing but reads before the one write attempt, so that this very
		// opcode's write protection decides whether the static frame succeeds
		calleeProg = staticProbe(r, w)
	}

	// the third contract: a random program (may call back into caller / callee)
	g3 := &pgen{r: r, a: newAsm(), w: w, wild: wild}
	g3.program(1 + r.Intn(6))
	thirdProg := g3.a.bytes()
	if r.Chance(1, 6) {
		thirdProg = calleeCode(r, w, r.Intn(nEndings-1), wild) // a second failing contract, deeper in the tree
		if len(thirdProg) > 0 && r.Chance(1, 2) {
			// make sure it cannot loop for ever under a big gas allowance
			thirdProg = append([]byte{}, thirdProg...)
		}
	}

	gc := &pgen{r: r, a: newAsm(), w: w, wild: wild}
	gc.block(r.Intn(3))
	if r.Chance(1, 2) {
		gc.writeStmt()
	}
	gc.wrapper(kind, callee, calleeProg, smallGas)
	if r.Chance(1, 3) { // a second wrapper of another kind: e.g. STATICCALL after a reverted CALL
		k2 := wrapKinds[r.Intn(4)]
		gc.wrapper(k2, callee, nil, smallGas || mode == endLoop)
	}
	gc.block(r.Intn(3))
	if r.Chance(1, 2) {
		gc.writeStmt()
	}
	if r.Chance(1, 2) {
		gc.a.pushU(uint64(r.Intn(40)))
		gc.a.pushU(0)
		gc.a.op([]byte{0xf3, 0xf3, 0xf3, 0xfd}[r.Intn(4)])
	}
	callerProg := gc.a.bytes()
	if wild && r.Chance(1, 3) && len(callerProg) > 0 {
		callerProg[r.Intn(len(callerProg))] = byte(r.U64())
	}
	if mode == endLoop {
		// the third contract must not hand the looping callee a big allowance
		thirdProg = []byte{0x00}
	}

	mk := func(a *big.Int, code []byte) acct {
		ac := acct{addr: a, balance: big.NewInt(int64(r.Intn(200))), nonce: 1, code: code}
		for k := 0; k < 4; k++ {
			if r.Chance(1, 3) {
				ac.slots = append(ac.slots, [2]*big.Int{big.NewInt(int64(k)), big.NewInt(int64(1 + r.Intn(3)))})
			}
		}
		return ac
	}
	t.pre = append(t.pre, mk(caller, callerProg), mk(callee, calleeProg), mk(third, thirdProg))
	if r.Chance(1, 3) {
		t.pre = append(t.pre, acct{addr: big.NewInt(0x2222), balance: big.NewInt(int64(r.Intn(5))), nonce: uint64(r.Intn(2))})
	}
	if r.Chance(1, 5) {
		t.pre = append(t.pre, acct{addr: coinbase, balance: big.NewInt(7)})
	}
	t.value = new(big.Int)
	if r.Chance(1, 4) {
		t.value = big.NewInt(int64(r.Intn(1000)))
	}
	t.gas = uint64(150000 + r.Intn(1500000))
	if r.Chance(1, 10) {
		t.gas = uint64(r.Intn(90000) + 1)
	}
	switch r.Intn(10) {
	case 0: // top-level creation whose init code is the caller program
		t.kind = 1
		t.data = callerProg
	case 1: // the failing callee is the outermost frame
		t.to = callee
		t.data = r.Bytes(r.Intn(40))
		if mode == endLoop {
			t.gas = uint64(30000 + r.Intn(40000))
		}
	default:
		t.to = caller
		t.data = r.Bytes(r.Intn(40))
	}
	return t, genInfo{kind, mode}
}

func gen(r *Rng, tier string, emit func(Sx)) {
	r = NewRng(r.U64())
	n := 200
	nTree, nRefund := 60, 80
	if tier == "thorough" {
		n, nTree, nRefund = 6000, 2500, 2500
	}
	// structured streams first: nested static contexts and refund-counter sequences
	systematicTrees(r.Fork(), func(t tcase) { emit(t.sx()) })
	systematicRefunds(r.Fork(), func(t tcase) { emit(t.sx()) })
	for i := 0; i < nTree; i++ {
		rr := r.Fork()
		emit(buildTree(rr, randomTree(rr)).sx())
	}
	for i := 0; i < nRefund; i++ {
		rr := r.Fork()
		emit(buildRefund(rr, randomRefund(rr)).sx())
	}
	for i := 0; i < n; i++ {
		t, _ := genCase(r.Fork(), i%6 == 5)
		// one unchecked run of the implementation: cases that execute more than 150000
		// instructions (cheap endless loops under a large allowance) only cost time
		tc := newTouched(t)
		o := execute(t, modelFork[t.fork%3], tc, false)
		if o.overrun || o.steps > 150000 {
			continue
		}
		emit(t.sx())
		if i%4 == 0 && o.panicked == "" && o.gasLeft <= t.gas {
			// exact gas +-1: the outermost frame fails for lack of one unit of gas
			used := t.gas - o.gasLeft
			for _, d := range []int64{-1, 0} {
				g := int64(used) + d
				if g >= 1 {
					t2 := t
					t2.gas = uint64(g)
					emit(t2.sx())
				}
			}
		}
	}
}
