// Family c18: triedb/pathdb historical state reads (reader.go HistoricReader,
// history_reader.go, history_indexer.go extend / shorten / prune, history_index*.go)
// vs coq/PathDB/History.v.  Derived from harness/c17 (same transition builder and
// reference states); state history indexing is enabled and the harness waits until the
// indexer's initial phase is finished (hook VerifC18IndexerInited).
//
// A case is a configuration and a history of Update / Commit / cap / Recover operations,
// observation points and historical read batches (format: coq/Run/C18.v).  The real pathdb.Database is driven
// over a memory key-value store with a memory or file-based state freezer; every
// transition is built as a proper set of dirty trie nodes (account trie + storage
// tries) with the real trie package, so that execute.apply can rebuild and check the
// tries during a revert.  The oracle is an independent per-root reference: the flat
// state (slim account RLP / slot RLP) and trie content recorded by the harness when the
// root was created.
package main

import (
	"bytes"
	"encoding/binary"
	"errors"
	"fmt"
	"os"
	"runtime"
	"sort"
	"time"

	. "gethverif/harness/hxlib"
	"github.com/ethereum/go-ethereum/common"
	"github.com/ethereum/go-ethereum/core/rawdb"
	"github.com/ethereum/go-ethereum/core/types"
	"github.com/ethereum/go-ethereum/crypto"
	"github.com/ethereum/go-ethereum/ethdb"
	"github.com/ethereum/go-ethereum/rlp"
	"github.com/ethereum/go-ethereum/trie"
	"github.com/ethereum/go-ethereum/trie/trienode"
	"github.com/ethereum/go-ethereum/triedb/pathdb"
	"github.com/holiman/uint256"
)

// ---- identifiers and encodings -------------------------------------------------------

func addrOf(a int) common.Address { return common.Address{0xA0, byte(a >> 8), byte(a), 0x17} }
func slotKeyOf(s int) common.Hash { return common.Hash{0x50, byte(s >> 8), byte(s), 0x17} }

func slotBlob(v int64) []byte {
	if v == 0 {
		return nil
	}
	var be [8]byte
	binary.BigEndian.PutUint64(be[:], uint64(v))
	out, _ := rlp.EncodeToBytes(common.TrimLeftZeroes(be[:]))
	return out
}
func slotVal(blob []byte) int64 {
	if len(blob) == 0 {
		return 0
	}
	var raw []byte
	if err := rlp.DecodeBytes(blob, &raw); err != nil || len(raw) > 8 {
		return -1
	}
	var be [8]byte
	copy(be[8-len(raw):], raw)
	return int64(binary.BigEndian.Uint64(be[:]))
}
func acctOf(a int, v int64, sroot common.Hash) types.StateAccount {
	return types.StateAccount{Nonce: uint64(v), Balance: uint256.NewInt(uint64(1000 + a)), Root: sroot, CodeHash: types.EmptyCodeHash.Bytes()}
}
func acctVal(slim []byte) int64 {
	if len(slim) == 0 {
		return 0
	}
	acc, err := types.FullAccount(slim)
	if err != nil {
		return -1
	}
	return int64(acc.Nonce)
}

type skey struct{ a, s int } // s = -1: the account itself

// refState is the harness's own record of one state.
type refState struct {
	acct  map[int]int64
	slot  map[skey]int64
	sroot map[int]common.Hash
	flat  map[skey][]byte // slim account RLP / slot RLP
}

func newRef() *refState {
	return &refState{acct: map[int]int64{}, slot: map[skey]int64{}, sroot: map[int]common.Hash{}, flat: map[skey][]byte{}}
}
func (r *refState) copy() *refState {
	n := newRef()
	for k, v := range r.acct {
		n.acct[k] = v
	}
	for k, v := range r.slot {
		n.slot[k] = v
	}
	for k, v := range r.sroot {
		n.sroot[k] = v
	}
	for k, v := range r.flat {
		n.flat[k] = v
	}
	return n
}
func (r *refState) val(k skey) int64 {
	if k.s < 0 {
		return r.acct[k.a]
	}
	return r.slot[k]
}

type env struct {
	disk      ethdb.Database
	db        *pathdb.Database
	dir       string
	na, ns    int
	labelRoot map[int64]common.Hash
	rootLabel map[common.Hash]int64
	snaps     map[int64]*refState
	head      int64
	chain     []int64 // labels by state id: disk chain followed by the diff stack
	addrIdx   map[common.Hash]int
	slotIdx   map[common.Hash]int
	block     uint64
}

func (e *env) close() {
	e.db.Close()
	e.disk.Close()
	if e.dir != "" {
		os.RemoveAll(e.dir)
	}
}

func (e *env) rootOf(label int64) common.Hash {
	if h, ok := e.labelRoot[label]; ok {
		return h
	}
	return common.Hash{0xEE, byte(label >> 16), byte(label >> 8), byte(label)}
}
func (e *env) labelOf(h common.Hash) int64 {
	if l, ok := e.rootLabel[h]; ok {
		return l
	}
	return -1
}

type change struct {
	k         skey
	orig, new int64
}

func shape(msg string) { panic("hxlib: " + msg) }

// build turns an abstract transition on top of the head state into (root, nodes, states).
func (e *env) build(chs []change) (common.Hash, *trienode.MergedNodeSet, *pathdb.StateSetWithOrigin, *refState) {
	cur := e.snaps[e.head]
	parentRoot := e.rootOf(e.head)
	next := cur.copy()
	seen := map[skey]bool{}
	accts := map[int]change{}
	slots := map[int][]change{}
	var order []int
	for _, c := range chs {
		if seen[c.k] {
			shape("duplicate key in transition")
		}
		seen[c.k] = true
		if cur.val(c.k) != c.orig {
			shape("original value does not match the head state")
		}
		if c.orig == c.new {
			shape("change without effect")
		}
		if c.k.s < 0 {
			accts[c.k.a] = c
			order = append(order, c.k.a)
		} else {
			slots[c.k.a] = append(slots[c.k.a], c)
		}
	}
	if len(accts) == 0 {
		shape("transition without account change")
	}
	for a := range slots {
		if _, ok := accts[a]; !ok {
			shape("storage change without account change")
		}
	}
	sort.Ints(order)
	var (
		nodes         = trienode.NewMergedNodeSet()
		accounts      = map[common.Hash][]byte{}
		storages      = map[common.Hash]map[common.Hash][]byte{}
		accountOrigin = map[common.Address][]byte{}
		storageOrigin = map[common.Address]map[common.Hash][]byte{}
		trieVals      = map[common.Hash][]byte{}
	)
	for _, a := range order {
		c := accts[a]
		addr := addrOf(a)
		addrHash := crypto.Keccak256Hash(addr.Bytes())
		sroot := types.EmptyRootHash
		if r, ok := cur.sroot[a]; ok {
			sroot = r
		}
		if len(slots[a]) > 0 {
			st, err := trie.New(trie.StorageTrieID(parentRoot, addrHash, sroot), e.db)
			if err != nil {
				panic(fmt.Errorf("open storage trie: %w", err))
			}
			sset := map[common.Hash][]byte{}
			oset := map[common.Hash][]byte{}
			for _, sc := range slots[a] {
				key := slotKeyOf(sc.k.s)
				kh := crypto.Keccak256Hash(key.Bytes())
				blob := slotBlob(sc.new)
				if sc.new == 0 {
					st.Delete(kh.Bytes())
					delete(next.slot, sc.k)
					delete(next.flat, sc.k)
				} else {
					st.Update(kh.Bytes(), blob)
					next.slot[sc.k] = sc.new
					next.flat[sc.k] = blob
				}
				sset[kh] = blob
				oset[key] = slotBlob(sc.orig)
			}
			nr, set := st.Commit(false)
			if set != nil {
				if err := nodes.Merge(set); err != nil {
					panic(err)
				}
			}
			sroot = nr
			storages[addrHash] = sset
			storageOrigin[addr] = oset
		}
		if c.new == 0 {
			if sroot != types.EmptyRootHash {
				shape("account deleted with live storage")
			}
			delete(next.acct, a)
			delete(next.sroot, a)
			delete(next.flat, skey{a, -1})
			accounts[addrHash] = nil
			trieVals[addrHash] = nil
		} else {
			acc := acctOf(a, c.new, sroot)
			slim := types.SlimAccountRLP(acc)
			full, _ := rlp.EncodeToBytes(&acc)
			next.acct[a] = c.new
			next.sroot[a] = sroot
			next.flat[skey{a, -1}] = slim
			accounts[addrHash] = slim
			trieVals[addrHash] = full
		}
		if c.orig == 0 {
			for _, sc := range slots[a] {
				if sc.orig != 0 {
					shape("slot of an absent account")
				}
			}
			accountOrigin[addr] = nil
		} else {
			accountOrigin[addr] = cur.flat[skey{a, -1}]
		}
	}
	tr, err := trie.New(trie.StateTrieID(parentRoot), e.db)
	if err != nil {
		panic(fmt.Errorf("open account trie: %w", err))
	}
	for _, a := range order {
		h := crypto.Keccak256Hash(addrOf(a).Bytes())
		if v := trieVals[h]; len(v) == 0 {
			tr.Delete(h.Bytes())
		} else {
			tr.Update(h.Bytes(), v)
		}
	}
	root, set := tr.Commit(false)
	if set != nil {
		if err := nodes.Merge(set); err != nil {
			panic(err)
		}
	}
	states := pathdb.NewStateSetWithOrigin(accounts, storages, accountOrigin, storageOrigin, true)
	return root, nodes, states, next
}

// ---- observations ------------------------------------------------------------------------

func classOf(err error) int64 {
	switch {
	case err == nil:
		return 0
	case errors.Is(err, pathdb.VerifC17ErrWaitSync):
		return 1
	case errors.Is(err, pathdb.VerifC17ErrUnrecoverable):
		return 2
	}
	return 9
}

func (e *env) obsMut(err error) Sx {
	root, id, bl := e.db.VerifC17Disk()
	head, tail, ferr := e.db.VerifC17FreezerRange()
	if ferr != nil {
		panic(ferr)
	}
	return L(I(classOf(err)), I(e.labelOf(root)), U(id), U(bl), U(head), U(tail), I(int64(e.db.VerifC17Layers()-1)))
}

func (e *env) metaSx() Sx {
	if last, ok := e.db.VerifC18IndexMeta(); ok {
		return L(U(last))
	}
	return L()
}

// readAll reads every key of the universe through a historical reader; refused reads
// are -1.  A successful read is checked against the reference state of [label].
func (e *env) readAll(r *pathdb.HistoricalStateReader, label int64, failf func(string, ...any), diffReads *int) SL {
	var out SL
	ref := e.snaps[label]
	var cur *refState
	if droot, _, _ := e.db.VerifC17Disk(); true {
		cur = e.snaps[e.labelOf(droot)]
	}
	for _, k := range e.universe() {
		var blob []byte
		var err error
		if k.s < 0 {
			blob, err = r.AccountRLP(addrOf(k.a))
		} else {
			blob, err = r.Storage(addrOf(k.a), slotKeyOf(k.s))
		}
		if err != nil {
			out = append(out, I(-1))
			continue
		}
		if ref == nil {
			failf("historical read succeeded at root %d unknown to the harness", label)
		} else if !bytes.Equal(blob, ref.flat[k]) {
			failf("historical read at root %d key (%d,%d) = %x, the state had %x", label, k.a, k.s, blob, ref.flat[k])
		}
		if cur != nil && !bytes.Equal(blob, cur.flat[k]) {
			*diffReads++
		}
		if k.s < 0 {
			out = append(out, I(acctVal(blob)))
		} else {
			out = append(out, I(slotVal(blob)))
		}
	}
	return out
}

func (e *env) universe() []skey {
	var out []skey
	for a := 0; a < e.na; a++ {
		out = append(out, skey{a, -1})
		for s := 0; s < e.ns; s++ {
			out = append(out, skey{a, s})
		}
	}
	return out
}

type rlpReader interface {
	AccountRLP(hash common.Hash) ([]byte, error)
	Storage(accountHash, storageHash common.Hash) ([]byte, error)
}

// effDump reads every key of the universe through the disk layer.
func (e *env) effDump() (map[skey][]byte, error) {
	root, _, _ := e.db.VerifC17Disk()
	sr, err := e.db.StateReader(root)
	if err != nil {
		return nil, err
	}
	r := sr.(rlpReader)
	out := map[skey][]byte{}
	for _, k := range e.universe() {
		ah := crypto.Keccak256Hash(addrOf(k.a).Bytes())
		var blob []byte
		if k.s < 0 {
			blob, err = r.AccountRLP(ah)
		} else {
			blob, err = r.Storage(ah, crypto.Keccak256Hash(slotKeyOf(k.s).Bytes()))
		}
		if err != nil {
			return nil, err
		}
		if len(blob) > 0 {
			out[k] = append([]byte{}, blob...)
		}
	}
	return out, nil
}

// rawDump iterates the snapshot keyspace of the key-value store.
func (e *env) rawDump() (map[skey][]byte, string) {
	out := map[skey][]byte{}
	it := e.disk.NewIterator(rawdb.SnapshotAccountPrefix, nil)
	for it.Next() {
		k := it.Key()
		if len(k) != 1+common.HashLength {
			continue
		}
		a, ok := e.addrIdx[common.BytesToHash(k[1:])]
		if !ok {
			it.Release()
			return nil, fmt.Sprintf("foreign account %x in the snapshot keyspace", k[1:])
		}
		out[skey{a, -1}] = append([]byte{}, it.Value()...)
	}
	it.Release()
	it = e.disk.NewIterator(rawdb.SnapshotStoragePrefix, nil)
	for it.Next() {
		k := it.Key()
		if len(k) != 1+2*common.HashLength {
			continue
		}
		a, ok := e.addrIdx[common.BytesToHash(k[1:33])]
		s, ok2 := e.slotIdx[common.BytesToHash(k[33:])]
		if !ok || !ok2 {
			it.Release()
			return nil, fmt.Sprintf("foreign slot %x in the snapshot keyspace", k[1:])
		}
		out[skey{a, s}] = append([]byte{}, it.Value()...)
	}
	it.Release()
	return out, ""
}

func (e *env) dumpSx(m map[skey][]byte) Sx {
	var items SL
	for _, k := range e.universe() {
		if k.s < 0 {
			items = append(items, I(acctVal(m[k])))
		} else {
			items = append(items, I(slotVal(m[k])))
		}
	}
	return items
}

func sameDump(a, b map[skey][]byte) string {
	for k, v := range a {
		if !bytes.Equal(v, b[k]) {
			return fmt.Sprintf("key (%d,%d): %x vs %x", k.a, k.s, v, b[k])
		}
	}
	for k, v := range b {
		if _, ok := a[k]; !ok {
			return fmt.Sprintf("key (%d,%d): absent vs %x", k.a, k.s, v)
		}
	}
	return ""
}

// checkTries verifies that the tries of the disk layer hold exactly the reference state.
func (e *env) checkTries(root common.Hash, ref *refState) string {
	tr, err := trie.New(trie.StateTrieID(root), e.db)
	if err != nil {
		return "account trie of the recovered root cannot be opened: " + err.Error()
	}
	for a := 0; a < e.na; a++ {
		ah := crypto.Keccak256Hash(addrOf(a).Bytes())
		blob, err := tr.Get(ah.Bytes())
		if err != nil {
			return "account trie read failed: " + err.Error()
		}
		v, ok := ref.acct[a]
		if !ok {
			if len(blob) != 0 {
				return fmt.Sprintf("account %d present in the trie of the recovered root", a)
			}
			continue
		}
		acc := acctOf(a, v, ref.sroot[a])
		full, _ := rlp.EncodeToBytes(&acc)
		if !bytes.Equal(full, blob) {
			return fmt.Sprintf("account %d differs in the trie of the recovered root", a)
		}
		st, err := trie.New(trie.StorageTrieID(root, ah, ref.sroot[a]), e.db)
		if err != nil {
			return "storage trie of the recovered root cannot be opened: " + err.Error()
		}
		for s := 0; s < e.ns; s++ {
			sb, err := st.Get(crypto.Keccak256Hash(slotKeyOf(s).Bytes()).Bytes())
			if err != nil {
				return "storage trie read failed: " + err.Error()
			}
			if !bytes.Equal(sb, ref.flat[skey{a, s}]) {
				return fmt.Sprintf("slot (%d,%d) differs in the trie of the recovered root", a, s)
			}
		}
	}
	return ""
}

// ---- running one case ----------------------------------------------------------------------

func run(c Sx) Result {
	l := AsList(c)
	cf := AsList(l[0])
	limit, full, maxdiff, async, mem := AsU64(cf[0]), AsBool(cf[1]), AsInt(cf[2]), AsBool(cf[3]), AsBool(cf[4])
	na, ns := AsInt(cf[5]), AsInt(cf[6])
	if na > 64 || ns > 64 || maxdiff < 1 {
		shape("configuration out of range")
	}
	e := &env{na: na, ns: ns, labelRoot: map[int64]common.Hash{0: types.EmptyRootHash}, rootLabel: map[common.Hash]int64{types.EmptyRootHash: 0},
		snaps: map[int64]*refState{0: newRef()}, chain: []int64{0}, addrIdx: map[common.Hash]int{}, slotIdx: map[common.Hash]int{}}
	for a := 0; a < na; a++ {
		e.addrIdx[crypto.Keccak256Hash(addrOf(a).Bytes())] = a
	}
	for s := 0; s < ns; s++ {
		e.slotIdx[crypto.Keccak256Hash(slotKeyOf(s).Bytes())] = s
	}
	if !mem {
		base := "/dev/shm"
		if _, err := os.Stat(base); err != nil {
			base = ""
		}
		dir, err := os.MkdirTemp(base, "hx_c18_")
		if err != nil {
			panic(err)
		}
		e.dir = dir
	}
	wb := 64 * 1024 * 1024
	if full {
		wb = 0
	}
	pathdb.VerifC17SetMaxDiffLayers(maxdiff)
	// The initer's first heartbeat can fire before its state goroutine has marked the
	// chain as synced; it then sleeps 15 s.  Nothing has happened to the database yet,
	// so it is simply re-created until the initial phase finishes promptly.
	for attempt := 0; ; attempt++ {
		disk, err := rawdb.Open(rawdb.NewMemoryDatabase(), rawdb.OpenOptions{Ancient: e.dir})
		if err != nil {
			panic(err)
		}
		e.disk = disk
		e.db = pathdb.New(disk, &pathdb.Config{StateHistory: limit, WriteBufferSize: wb, NoAsyncFlush: !async,
			NoAsyncGeneration: true, TrienodeHistory: -1, TrieCleanSize: 0, StateCleanSize: 0,
			EnableStateIndexing: true, NoHistoryIndexDelay: true}, false)
		// busy poll with a wall-clock bound: time.Sleep has millisecond granularity here
		ok := false
		for deadline := time.Now().Add(4 * time.Millisecond); !ok && time.Now().Before(deadline); {
			ok = e.db.VerifC18IndexerInited()
			if !ok {
				runtime.Gosched()
			}
		}
		if ok {
			break
		}
		e.db.Close()
		e.disk.Close()
		if attempt > 100 {
			panic("state indexer does not finish its initial phase")
		}
	}
	defer e.close()
	// retained reports whether label is a canonical ancestor of the disk layer whose
	// history is retained, in the CURRENT canonical chain
	retained := func(label int64) bool {
		_, did, _ := e.db.VerifC17Disk()
		_, tail, _ := e.db.VerifC17FreezerRange()
		for i := int(tail); i < int(did) && i < len(e.chain); i++ {
			if e.chain[i] == label {
				return true
			}
		}
		return false
	}
	answered := func(items SL) bool {
		for _, it := range items {
			if si, ok := it.(SI); !ok || si.V.Sign() >= 0 {
				return true
			}
		}
		return false
	}
	var readRoot func(label int64) Sx
	held := map[int]*pathdb.HistoricalStateReader{}
	heldLabel := map[int]int64{}
	diffReads := 0

	var (
		res    Result
		obs    SL
		fails  []string
		tags   = map[string]bool{}
		failf  = func(f string, a ...any) { fails = append(fails, fmt.Sprintf(f, a...)) }
		maxRec uint64
	)
	readRoot = func(label int64) Sx {
		r, err := e.db.HistoricReader(e.rootOf(label))
		if err != nil {
			tags["reader-refused"] = true
			return L(I(1))
		}
		if !retained(label) {
			_, did, _ := e.db.VerifC17Disk()
			_, tail, _ := e.db.VerifC17FreezerRange()
			failf("historical reader granted for root %d which is not a retained canonical ancestor (disk id %d, tail %d)", label, did, tail)
		}
		tags["reader-ok"] = true
		return append(SL{I(0)}, e.readAll(r, label, failf, &diffReads)...)
	}
	tags[fmt.Sprintf("limit%d", min(limit, 9))] = true
	tags[fmt.Sprintf("full%v", full)] = true
	for _, opx := range l[1:] {
		op := AsList(opx)
		switch AsInt(op[0]) {
		case 0: // Update
			label := int64(AsInt(op[1]))
			var chs []change
			for _, cx := range AsList(op[2]) {
				cl := AsList(cx)
				if len(cl) == 3 {
					chs = append(chs, change{skey{AsInt(cl[0]), -1}, int64(AsInt(cl[1])), int64(AsInt(cl[2]))})
				} else {
					chs = append(chs, change{skey{AsInt(cl[0]), AsInt(cl[1])}, int64(AsInt(cl[2])), int64(AsInt(cl[3]))})
				}
			}
			for _, ch := range chs {
				if ch.k.a >= na || ch.k.s >= ns {
					shape("key outside the universe")
				}
			}
			root, nodes, states, next := e.build(chs)
			if known, ok := e.labelRoot[label]; ok {
				if known != root {
					shape("root label reused for a different state")
				}
			} else if _, dup := e.rootLabel[root]; dup {
				shape("two labels for one root")
			}
			if _, err := e.db.NodeReader(root); err == nil {
				shape("root is still live")
			}
			e.block++
			err := e.db.Update(root, e.rootOf(e.head), e.block, nodes, states)
			if err == nil {
				e.labelRoot[label], e.rootLabel[root] = root, label
				e.snaps[label] = next
				e.head = label
				e.chain = append(e.chain, label)
			}
			obs = append(obs, L(e.obsMut(err), e.metaSx()))
		case 1: // Commit
			label := int64(AsInt(op[1]))
			err := e.db.Commit(e.rootOf(label), false)
			if err == nil {
				for i := len(e.chain) - 1; i >= 0; i-- {
					if e.chain[i] == label {
						e.chain = e.chain[:i+1]
						break
					}
				}
				e.head = label
			}
			obs = append(obs, L(e.obsMut(err), e.metaSx()))
		case 2: // cap
			err := e.db.VerifC17Cap(e.rootOf(e.head), AsInt(op[1]))
			obs = append(obs, L(e.obsMut(err), e.metaSx()))
		case 3: // Recover
			label := int64(AsInt(op[1]))
			root := e.rootOf(label)
			oroot, oid, obl := e.db.VerifC17Disk()
			ohead, otail, _ := e.db.VerifC17FreezerRange()
			olayers := e.db.VerifC17Layers()
			before, derr := e.effDump()
			if derr != nil {
				failf("disk layer unreadable before Recover: %v", derr)
			}
			rec := e.db.Recoverable(root)
			err := e.db.Recover(root)
			nroot, nid, nbl := e.db.VerifC17Disk()
			nhead, ntail, _ := e.db.VerifC17FreezerRange()
			after, derr := e.effDump()
			if derr != nil {
				failf("disk layer unreadable after Recover: %v", derr)
			}
			if err != nil {
				tags["recover-refused"] = true
				if rec {
					failf("Recoverable(root %d) = true but Recover failed: %v", label, err)
				}
				if nroot != oroot || nid != oid || nbl != obl || nhead != ohead || ntail != otail || e.db.VerifC17Layers() != olayers {
					failf("failed Recover changed the database: disk %d/%d/%d -> %d/%d/%d, freezer %d/%d -> %d/%d", e.labelOf(oroot), oid, obl, e.labelOf(nroot), nid, nbl, ohead, otail, nhead, ntail)
				}
				if d := sameDump(before, after); d != "" {
					failf("failed Recover changed the flat state: %s", d)
				}
			} else {
				tags["recover-ok"] = true
				if !rec {
					failf("Recover succeeded on a root reported unrecoverable")
				}
				want := -1
				for i := int(oid) - 1; i >= 0 && i < len(e.chain); i-- {
					if e.chain[i] == label {
						want = i
						break
					}
				}
				ref := e.snaps[label]
				switch {
				case ref == nil || want < 0:
					failf("Recover succeeded on a root that is not a canonical ancestor of the disk layer")
				default:
					if nroot != root {
						failf("disk root after Recover is %d, want %d", e.labelOf(nroot), label)
					}
					if nid != uint64(want) || nhead != uint64(want) {
						failf("after Recover: state id %d, freezer head %d, want %d", nid, nhead, want)
					}
					if ntail != otail {
						failf("Recover moved the freezer tail %d -> %d", otail, ntail)
					}
					if d := sameDump(ref.flat, after); d != "" {
						failf("flat state after Recover differs from the state of root %d: %s", label, d)
					}
					if e.db.VerifC17Layers() != 1 {
						failf("diff layers survive Recover")
					}
					if err := e.db.VerifC17WaitFlush(); err != nil {
						failf("flush: %v", err)
					}
					if nbl == 0 {
						raw, bad := e.rawDump()
						if bad != "" {
							failf("%s", bad)
						} else if d := sameDump(ref.flat, raw); d != "" {
							failf("persistent flat state after Recover differs from the state of root %d: %s", label, d)
						}
						if p := rawdb.ReadPersistentStateID(e.disk); p != nid {
							failf("persistent state id %d, disk layer id %d with an empty buffer", p, nid)
						}
					}
					if t := e.checkTries(root, ref); t != "" {
						failf("%s", t)
					}
					e.chain = e.chain[:want+1]
					e.head = label
					depth := oid - nid
					if depth > maxRec {
						maxRec = depth
					}
					if obl > 0 && uint64(obl) < depth {
						tags["across-buffer"] = true
					}
					if obl > 0 {
						tags["in-buffer"] = true
					}
				}
			}
			obs = append(obs, L(e.obsMut(err), e.metaSx()))
		case 4: // observe
			var bits SL
			_, did, _ := e.db.VerifC17Disk()
			_, tail, _ := e.db.VerifC17FreezerRange()
			for _, lx := range AsList(op[1]) {
				label := int64(AsInt(lx))
				rec := e.db.Recoverable(e.rootOf(label))
				bits = append(bits, Bool(rec))
				if rec {
					ok := false
					for i := int(tail); i < int(did) && i < len(e.chain); i++ {
						if e.chain[i] == label {
							ok = true
						}
					}
					if !ok {
						failf("root %d reported recoverable but it is not a retained canonical ancestor (disk id %d, tail %d)", label, did, tail)
					}
				}
			}
			if err := e.db.VerifC17WaitFlush(); err != nil {
				failf("flush: %v", err)
			}
			effm, err := e.effDump()
			if err != nil {
				failf("disk layer unreadable: %v", err)
				effm = map[skey][]byte{}
			}
			raw, bad := e.rawDump()
			if bad != "" {
				failf("%s", bad)
				raw = map[skey][]byte{}
			}
			// the disk layer must always show the state of its root
			droot, _, _ := e.db.VerifC17Disk()
			if ref := e.snaps[e.labelOf(droot)]; ref == nil {
				failf("disk root unknown to the harness")
			} else if d := sameDump(ref.flat, effm); d != "" {
				failf("disk layer view differs from the state of its root: %s", d)
			}
			obs = append(obs, L(L(bits, U(rawdb.ReadPersistentStateID(e.disk)), e.dumpSx(effm), e.dumpSx(raw)), e.metaSx()))
		case 5: // historical reads at the listed roots
			var items SL
			for _, lx := range AsList(op[1]) {
				items = append(items, readRoot(int64(AsInt(lx))))
			}
			obs = append(obs, items)
		case 6: // keep a reader
			slot, label := AsInt(op[1]), int64(AsInt(op[2]))
			r, err := e.db.HistoricReader(e.rootOf(label))
			if err != nil {
				obs = append(obs, L(I(1)))
			} else {
				held[slot], heldLabel[slot] = r, label
				obs = append(obs, L(I(0)))
			}
		case 7: // read through a kept reader
			slot := AsInt(op[1])
			if r, ok := held[slot]; ok {
				tags["held-reader"] = true
				items := e.readAll(r, heldLabel[slot], failf, &diffReads)
				if answered(items) {
					tags["held-reader-answered"] = true
					if !retained(heldLabel[slot]) {
						failf("a kept reader for root %d answered although the root is no longer a retained canonical ancestor of the disk layer", heldLabel[slot])
					}
				} else {
					tags["held-reader-refused"] = true
				}
				obs = append(obs, items)
			} else {
				obs = append(obs, L(I(1)))
			}
		case 8: // one synchronous pass of the index pruner with the real tail, then every key
			// is read at the oldest retained root
			head, tail, _ := e.db.VerifC17FreezerRange()
			if err := e.db.VerifC18PruneIndex(tail + 1); err != nil {
				failf("index pruner: %v", err)
			}
			tags["pruner"] = true
			if tail < head && int(tail) < len(e.chain) {
				obs = append(obs, readRoot(e.chain[tail]))
			} else {
				obs = append(obs, L(I(1)))
			}
		default:
			shape("unknown op")
		}
	}
	res.Obs = obs
	if len(fails) > 0 {
		res.Oracle = fmt.Sprint(fails)
	}
	res.NonTrivial = diffReads > 0
	tags[fmt.Sprintf("depth%d", min(maxRec, 9))] = true
	for t := range tags {
		res.Tags = append(res.Tags, t)
	}
	return res
}

// ---- generator ---------------------------------------------------------------------------------

type gstate struct {
	acct map[int]int64
	slot map[skey]int64
}

func (g gstate) copy() gstate {
	n := gstate{map[int]int64{}, map[skey]int64{}}
	for k, v := range g.acct {
		n.acct[k] = v
	}
	for k, v := range g.slot {
		n.slot[k] = v
	}
	return n
}
func (g gstate) key() string {
	var parts []string
	for a, v := range g.acct {
		parts = append(parts, fmt.Sprintf("a%d=%d", a, v))
	}
	for k, v := range g.slot {
		parts = append(parts, fmt.Sprintf("s%d.%d=%d", k.a, k.s, v))
	}
	sort.Strings(parts)
	return fmt.Sprint(parts)
}

type gsim struct {
	r              *Rng
	na, ns         int
	limit          int
	maxdiff        int
	labels         map[string]int64
	states         map[int64]gstate
	chain          []int64
	did            int
	idmap          map[int64]int
	fresh          int64
	nextLabel      int64
	ops            SL
	outcomeUnknown bool
	tailUB         int // upper bound of the freezer tail
	slots          []int
	nslot          int
}

func (g *gsim) head() gstate { return g.states[g.chain[len(g.chain)-1]] }
func (g *gsim) live(label int64) bool {
	for _, l := range g.chain[g.did:] {
		if l == label {
			return true
		}
	}
	return false
}
func (g *gsim) advance(to int) { // the disk layer moves up to chain index [to]
	if to <= g.did {
		return
	}
	if g.did == 0 {
		g.idmap[g.chain[0]] = 0
	}
	for j := g.did + 1; j <= to; j++ {
		g.idmap[g.chain[j]] = j
		if g.limit > 0 && j-g.limit > g.tailUB {
			g.tailUB = j - g.limit
		}
	}
	g.did = to
}
func (g *gsim) val() int64 { g.fresh++; return g.fresh }

func diffChanges(from, to gstate, na, ns int) SL {
	var out SL
	for a := 0; a < na; a++ {
		touched := false
		var sl SL
		for s := 0; s < ns; s++ {
			k := skey{a, s}
			if from.slot[k] != to.slot[k] {
				sl = append(sl, L(I(int64(a)), I(int64(s)), I(from.slot[k]), I(to.slot[k])))
				touched = true
			}
		}
		if from.acct[a] != to.acct[a] {
			touched = true
		}
		if touched {
			if from.acct[a] == to.acct[a] {
				return nil // storage changed under an unchanged account value: not expressible
			}
			out = append(out, L(I(int64(a)), I(from.acct[a]), I(to.acct[a])))
			out = append(out, sl...)
		}
	}
	return out
}

// emitTransition registers the transition head -> to and emits the Update op.
func (g *gsim) emitTransition(to gstate) bool {
	chs := diffChanges(g.head(), to, g.na, g.ns)
	if len(chs) == 0 {
		return false
	}
	k := to.key()
	label, ok := g.labels[k]
	if !ok {
		g.nextLabel++
		label = g.nextLabel
	}
	if g.live(label) {
		return false
	}
	g.labels[k] = label
	g.states[label] = to
	g.ops = append(g.ops, L(I(0), I(label), chs))
	g.chain = append(g.chain, label)
	if nd := len(g.chain) - 1 - g.did; nd > g.maxdiff {
		g.advance(len(g.chain) - 1 - g.maxdiff)
	}
	return true
}

func (g *gsim) randomTransition() {
	r := g.r
	to := g.head().copy()
	n := 1 + r.Intn(3)
	for i := 0; i < n; i++ {
		a := r.Intn(g.na)
		_, exists := to.acct[a]
		switch {
		case !exists: // creation (possibly a re-creation of a destructed account)
			to.acct[a] = g.val()
			for j, m := 0, r.Intn(4); j < m; j++ {
				to.slot[skey{a, r.Intn(g.ns)}] = g.val()
			}
		case r.Chance(1, 5): // deletion with its storage
			delete(to.acct, a)
			for s := 0; s < g.ns; s++ {
				delete(to.slot, skey{a, s})
			}
		case r.Chance(1, 4): // destruct and re-create within one transition
			to.acct[a] = g.val()
			for s := 0; s < g.ns; s++ {
				delete(to.slot, skey{a, s})
			}
			for j, m := 0, r.Intn(3); j < m; j++ {
				to.slot[skey{a, r.Intn(g.ns)}] = g.val()
			}
		default: // modification
			to.acct[a] = g.val()
			for j, m := 0, r.Intn(4); j < m; j++ {
				k := skey{a, r.Intn(g.ns)}
				if _, ok := to.slot[k]; ok && r.Bool() {
					delete(to.slot, k)
				} else {
					to.slot[k] = g.val()
				}
			}
		}
	}
	g.emitTransition(to)
}

func (g *gsim) observe() {
	var ls SL
	seen := map[int64]bool{}
	for _, l := range g.chain {
		if !seen[l] {
			seen[l] = true
			ls = append(ls, I(l))
		}
	}
	// some roots of abandoned forks and an unknown one
	for l := int64(1); l <= g.nextLabel && len(ls) < 48; l++ {
		if !seen[l] && g.r.Chance(1, 3) {
			seen[l] = true
			ls = append(ls, I(l))
		}
	}
	ls = append(ls, I(900000))
	g.ops = append(g.ops, L(I(4), ls))
}

// reads emits a historical read batch: the canonical roots (sampled when many), some
// roots of abandoned forks and an unknown root.
func (g *gsim) reads() {
	var ls SL
	seen := map[int64]bool{}
	step := 1 + len(g.chain)/16
	off := g.r.Intn(step)
	for i, l := range g.chain {
		if (i%step == off || i+2 >= g.did && i <= g.did+1 || i <= g.tailUB+1 && i+1 >= g.tailUB) && !seen[l] {
			seen[l] = true
			ls = append(ls, I(l))
		}
	}
	for l := int64(1); l <= g.nextLabel && len(ls) < 24; l++ {
		if !seen[l] && g.r.Chance(1, 6) {
			seen[l] = true
			ls = append(ls, I(l))
		}
	}
	if g.r.Chance(1, 4) {
		ls = append(ls, I(900000))
	}
	g.ops = append(g.ops, L(I(5), ls))
}

// readHeld emits a read through every kept reader.
func (g *gsim) readHeld() {
	for _, sl := range g.slots {
		g.ops = append(g.ops, L(I(7), I(int64(sl))))
	}
}

// openReader keeps a reader for a root of the disk chain (mostly a retained one).
func (g *gsim) openReader() {
	if g.did == 0 || len(g.slots) >= 6 {
		return
	}
	lo := 0
	if g.r.Chance(4, 5) && g.tailUB < g.did {
		lo = g.tailUB
	}
	i := lo + g.r.Intn(g.did-lo+1)
	g.nslot++
	g.slots = append(g.slots, g.nslot)
	g.ops = append(g.ops, L(I(6), I(int64(g.nslot)), I(g.chain[i])))
}

// commitHead emits Commit(head) when there are diff layers.
func (g *gsim) commitHead() {
	if len(g.chain)-1 > g.did {
		g.ops = append(g.ops, L(I(1), I(g.chain[len(g.chain)-1])))
		g.advance(len(g.chain) - 1)
	}
}

// recoverTo emits a Recover to a certainly recoverable ancestor; lowest = prefer deep.
func (g *gsim) recoverSure(deep bool) bool {
	var cands []int
	for i := g.tailUB; i < g.did; i++ {
		if v, ok := g.idmap[g.chain[i]]; ok && v == i {
			cands = append(cands, i)
		}
	}
	if len(cands) == 0 {
		return false
	}
	i := cands[g.r.Intn(len(cands))]
	if deep {
		i = cands[g.r.Intn(1+len(cands)/2)]
	}
	g.ops = append(g.ops, L(I(3), I(g.chain[i])))
	g.chain = g.chain[:i+1]
	g.did = i
	return true
}

// genReaderCase: long-lived reader handles.  Readers are opened at several points and
// used at arbitrary later points: after every movement of the disk layer, across
// rollbacks and forks regrown (with different contents) to exactly the previous length,
// to shorter and to longer ones, across tail pruning and index-pruner passes.
func genReaderCase(r *Rng, maxTr int) Sx {
	g := &gsim{r: r, na: 2 + r.Intn(3), ns: 2 + r.Intn(2), labels: map[string]int64{}, states: map[int64]gstate{}, idmap: map[int64]int{}}
	g.states[0] = gstate{map[int]int64{}, map[skey]int64{}}
	g.labels[g.states[0].key()] = 0
	g.chain = []int64{0}
	limits := []int{0, 0, 0, 4, 6, 9}
	g.limit = limits[r.Intn(len(limits))]
	maxdiffs := []int{1, 2, 128}
	g.maxdiff = maxdiffs[r.Intn(len(maxdiffs))]
	cfg := L(I(int64(g.limit)), Bool(r.Chance(1, 2)), I(int64(g.maxdiff)), Bool(false), Bool(r.Chance(3, 4)), I(int64(g.na)), I(int64(g.ns)))
	budget := 8 + r.Intn(maxTr)
	grow := func(n int, readEach bool) {
		for j := 0; j < n && budget > 0; j++ {
			budget--
			g.randomTransition()
			if g.maxdiff > 2 || r.Chance(2, 3) {
				g.commitHead()
			}
			if readEach && r.Chance(3, 4) {
				g.readHeld()
			}
			if g.limit > 0 && r.Chance(1, 4) {
				g.ops = append(g.ops, L(I(8)))
			}
		}
		g.commitHead()
	}
	grow(3+r.Intn(6), false)
	for round := 0; round < 1+r.Intn(3) && budget > 0; round++ {
		for j, m := 0, 1+r.Intn(3); j < m; j++ {
			g.openReader()
		}
		if r.Bool() {
			g.readHeld() // a successful use before the rollback
		}
		if r.Chance(1, 3) {
			grow(1+r.Intn(2), true)
			g.openReader()
		}
		before := g.did
		if !g.recoverSure(r.Bool()) {
			grow(2, true)
			continue
		}
		if r.Chance(1, 2) {
			g.readHeld()
		}
		// regrow a different fork: to exactly the old length, shorter or longer
		deltas := []int{0, 0, 0, -1, 1, 2, -2, 3}
		target := before + deltas[r.Intn(len(deltas))]
		if target <= g.did {
			target = g.did + 1
		}
		for g.did < target && budget > 0 {
			budget--
			n0 := len(g.chain)
			g.randomTransition()
			if len(g.chain) == n0 {
				continue
			}
			g.commitHead()
			g.readHeld()
			if g.limit > 0 && r.Chance(1, 3) {
				g.ops = append(g.ops, L(I(8)))
			}
		}
		g.reads()
	}
	g.readHeld()
	if g.limit > 0 {
		g.ops = append(g.ops, L(I(8)))
	}
	g.reads()
	g.observe()
	return append(SL{cfg}, g.ops...)
}

func genCase(r *Rng, maxTr int) Sx {
	g := &gsim{r: r, na: 2 + r.Intn(4), ns: 2 + r.Intn(3), labels: map[string]int64{}, states: map[int64]gstate{}, idmap: map[int64]int{}}
	g.states[0] = gstate{map[int]int64{}, map[skey]int64{}}
	g.labels[g.states[0].key()] = 0
	g.chain = []int64{0}
	limits := []int{0, 0, 1, 2, 3, 5, 8}
	g.limit = limits[r.Intn(len(limits))]
	maxdiffs := []int{1, 2, 3, 5, 128}
	g.maxdiff = maxdiffs[r.Intn(len(maxdiffs))]
	full := r.Chance(1, 3)
	// async flush only without a history limit: with a limit, writeHistory reads the persistent
	// state id while the previous flush may still be running (schedule dependent tail pruning)
	async := r.Chance(1, 2) && g.limit == 0
	cfg := L(I(int64(g.limit)), Bool(full), I(int64(g.maxdiff)), Bool(async), Bool(r.Chance(3, 4)), I(int64(g.na)), I(int64(g.ns)))
	nops := 5 + r.Intn(maxTr)
	for i := 0; i < nops && !g.outcomeUnknown; i++ {
		nd := len(g.chain) - 1 - g.did
		switch x := r.Intn(100); {
		case x < 50:
			g.randomTransition()
		case x < 56: // undo the last one or two transitions (an earlier root re-appears)
			back := 1 + r.Intn(2)
			if len(g.chain) > back {
				g.emitTransition(g.states[g.chain[len(g.chain)-1-back]].copy())
			}
		case x < 66: // Commit(head) or Commit of a middle layer
			if nd == 0 {
				if r.Chance(1, 4) {
					g.ops = append(g.ops, L(I(1), I(g.chain[len(g.chain)-1])))
				}
				continue
			}
			p := len(g.chain) - 1
			if r.Chance(1, 5) {
				p = g.did + 1 + r.Intn(nd)
			}
			g.ops = append(g.ops, L(I(1), I(g.chain[p])))
			g.chain = g.chain[:p+1]
			g.advance(p)
			if r.Chance(1, 2) {
				g.readHeld()
			}
		case x < 73: // cap
			k := r.Intn(4)
			g.ops = append(g.ops, L(I(2), I(int64(k))))
			if nd > k {
				g.advance(len(g.chain) - 1 - k)
				if k == 0 {
					// cap(root, 0) keeps only the disk layer; the head is unchanged here
				}
			}
		case x < 76: // observe
			g.observe()
		case x < 87: // historical reads
			g.reads()
		case x < 92: // keep a reader / read through the kept ones (also across Recover and new forks)
			switch {
			case len(g.slots) > 0 && r.Chance(1, 2):
				g.readHeld()
			case g.limit > 0 && r.Chance(1, 4):
				g.ops = append(g.ops, L(I(8))) // index pruner pass + reads at the oldest retained root
			default:
				g.openReader()
			}
		default: // Recover
			if r.Chance(3, 4) {
				// a target that is certainly recoverable
				var cands []int
				// state id 0 included: unindexing history 1 deletes the index metadata and the
				// next commit must index history 1 again (repaired finding, corpus/C18)
				for i := g.tailUB; i < g.did; i++ {
					if v, ok := g.idmap[g.chain[i]]; ok && v == i {
						cands = append(cands, i)
					}
				}
				if len(cands) == 0 {
					continue
				}
				i := cands[r.Intn(len(cands))]
				g.ops = append(g.ops, L(I(3), I(g.chain[i])))
				g.chain = g.chain[:i+1]
				g.did = i
				if r.Chance(1, 2) {
					g.readHeld()
				}
			} else {
				// any root: pruned, live, the disk root, of an abandoned fork, unknown
				var label int64
				switch r.Intn(4) {
				case 0:
					label = 900001
				case 1:
					label = g.chain[r.Intn(len(g.chain))]
				default:
					label = int64(r.Intn(int(g.nextLabel) + 1))
				}
				g.ops = append(g.ops, L(I(3), I(label)))
				g.outcomeUnknown = true
			}
		}
	}
	g.readHeld()
	g.reads()
	g.observe()
	return append(SL{cfg}, g.ops...)
}

func gen(r *Rng, tier string, emit func(Sx)) {
	r = NewRng(r.U64())
	n, maxTr := 1200, 60
	if tier == "thorough" {
		n, maxTr = 10000, 200
	}
	for i := 0; i < n; i++ {
		m := maxTr
		if i%3 != 0 {
			m = maxTr / 3
		}
		if i%3 == 1 {
			emit(genReaderCase(r.Fork(), m))
		} else {
			emit(genCase(r.Fork(), m))
		}
	}
}

func main() {
	Main(Family{
		ID:   "C17",
		Rule: "the c17 generator (random linear histories of account creation / modification / deletion with storage / destruct-and-recreate / re-creation / undo transitions as real trie node sets over 2-5 accounts x 2-4 slots, up to 60 (quick) / 200 (thorough) operations; StateHistory limit 0..8 forcing tail pruning, WriteBufferSize 0 or 64 MiB, maxDiffLayers 1..128; Commit, cap, Recover followed by a different fork) with state history indexing enabled, plus historical read batches: HistoricReader at sampled canonical roots incl. the ones around the freezer tail and the disk layer, roots of abandoned forks and unknown roots, then AccountRLP / Storage of every key of the universe; long-lived reader handles: opened at several points and used at arbitrary later points - after every movement of the disk layer, across rollbacks and forks regrown with different contents to exactly the previous length, shorter and longer, across tail pruning - they must refuse or still answer for their own root, and answer only while that root is a retained canonical ancestor; a third of the cases is a dedicated reader-lifecycle scenario; synchronous index-pruner passes with the real tail followed by reads of every key at the oldest retained root; Recover down to state id 0 included. Volume: 1200 cases quick / 10000 thorough, every third a reader-lifecycle scenario. Non-trivial: some historical read succeeded with a value different from the disk layer's current value; distinct = distinct case line.",
		Gen:  gen,
		Run:  run,
	})
}
