// initrace: stand-alone reproduction attempt for the C18 observation about
// indexIniter.run (history_indexer.go): the interrupt branch stores i.last BEFORE it
// evaluates checkDone(), so a shorten() that arrives while the initial indexing has
// indexed everything but the newest history calls unindexSingle(old) with
// metadata.Last == old-1.  Not part of the check (timing dependent; it retries until the
// window state is observed through the verif hooks).
//
//	go run -tags verif ./c18/initrace [N]
package main

import (
	"fmt"
	"os"
	"strconv"
	"time"

	"github.com/ethereum/go-ethereum/common"
	"github.com/ethereum/go-ethereum/core/rawdb"
	"github.com/ethereum/go-ethereum/core/types"
	"github.com/ethereum/go-ethereum/crypto"
	"github.com/ethereum/go-ethereum/ethdb"
	"github.com/ethereum/go-ethereum/rlp"
	"github.com/ethereum/go-ethereum/trie"
	"github.com/ethereum/go-ethereum/trie/trienode"
	"github.com/ethereum/go-ethereum/triedb/pathdb"
	"github.com/holiman/uint256"
)

var addr = common.Address{0xA0, 0x18}

func acct(nonce uint64) types.StateAccount {
	return types.StateAccount{Nonce: nonce, Balance: uint256.NewInt(7), Root: types.EmptyRootHash, CodeHash: types.EmptyCodeHash.Bytes()}
}

// step builds and adds the transition nonce-1 -> nonce on top of parent.
func step(db *pathdb.Database, parent common.Hash, nonce uint64) common.Hash {
	ah := crypto.Keccak256Hash(addr.Bytes())
	tr, err := trie.New(trie.StateTrieID(parent), db)
	if err != nil {
		panic(err)
	}
	a := acct(nonce)
	full, _ := rlp.EncodeToBytes(&a)
	tr.Update(ah.Bytes(), full)
	root, set := tr.Commit(false)
	nodes := trienode.NewMergedNodeSet()
	nodes.Merge(set)
	var orig []byte
	if nonce > 1 {
		orig = types.SlimAccountRLP(acct(nonce - 1))
	}
	states := pathdb.NewStateSetWithOrigin(map[common.Hash][]byte{ah: types.SlimAccountRLP(a)}, map[common.Hash]map[common.Hash][]byte{},
		map[common.Address][]byte{addr: orig}, map[common.Address]map[common.Hash][]byte{}, true)
	if err := db.Update(root, parent, nonce, nodes, states); err != nil {
		panic(err)
	}
	return root
}

func attempt(n uint64) (bool, string) {
	dir, _ := os.MkdirTemp("/dev/shm", "hx_c18_race_")
	defer os.RemoveAll(dir)
	var disk ethdb.Database
	disk, err := rawdb.Open(rawdb.NewMemoryDatabase(), rawdb.OpenOptions{Ancient: dir})
	if err != nil {
		panic(err)
	}
	cfg := &pathdb.Config{WriteBufferSize: 0, NoAsyncFlush: true, NoAsyncGeneration: true, TrienodeHistory: -1}
	db := pathdb.New(disk, cfg, false)
	roots := []common.Hash{types.EmptyRootHash}
	for i := uint64(1); i <= n; i++ {
		roots = append(roots, step(db, roots[i-1], i))
		if i%100 == 0 || i == n {
			if err := db.Commit(roots[i], false); err != nil {
				panic(err)
			}
		}
	}
	db.Close()
	cfg2 := *cfg
	cfg2.EnableStateIndexing, cfg2.NoHistoryIndexDelay = true, true
	db = pathdb.New(disk, &cfg2, false)
	defer db.Close()
	// a commit while the initial indexing runs
	roots = append(roots, step(db, roots[n], n+1))
	if err := db.Commit(roots[n+1], false); err != nil {
		return false, "commit during initial indexing failed: " + err.Error()
	}
	deadline := time.Now().Add(5 * time.Second)
	for time.Now().Before(deadline) {
		last, _ := db.VerifC18IniterProgress()
		meta, ok := db.VerifC18IndexMeta()
		if db.VerifC18IndexerInited() {
			return false, "indexer finished its initial phase (no window)"
		}
		if ok && meta == n && last == n+1 {
			// the window: everything but the newest history is indexed, initer not done
			rec := db.Recoverable(roots[n])
			err := db.Recover(roots[n])
			msg := fmt.Sprintf("WINDOW reached (meta.Last=%d, initer.last=%d, inited=false): Recoverable(root %d)=%v, Recover -> %v", meta, last, n, rec, err)
			droot, did, _ := db.VerifC17Disk()
			msg += fmt.Sprintf("; disk layer afterwards id=%d root-is-target=%v", did, droot == roots[n])
			if sr, e := db.StateReader(droot); e == nil {
				_, e2 := sr.Account(crypto.Keccak256Hash(addr.Bytes()))
				msg += fmt.Sprintf("; read through the disk layer -> err=%v", e2)
			}
			done := make(chan error, 1)
			go func() {
				defer func() { recover() }()
				r := step(db, droot, 900000)
				done <- db.Commit(r, false)
			}()
			select {
			case e := <-done:
				msg += fmt.Sprintf("; next commit -> %v", e)
			case <-time.After(3 * time.Second):
				msg += "; next commit BLOCKS (no receiver on the initer's interrupt channel)"
			}
			return true, msg
		}
		if ok && meta >= n+1 {
			return false, "index caught up with the new history (no window)"
		}
		time.Sleep(200 * time.Microsecond)
	}
	return false, "timeout waiting for the indexer"
}

func main() {
	n := uint64(1500)
	if len(os.Args) > 1 {
		if v, err := strconv.Atoi(os.Args[1]); err == nil {
			n = uint64(v)
		}
	}
	for i := 0; i < 40; i++ {
		ok, msg := attempt(n)
		fmt.Printf("attempt %d: %s\n", i, msg)
		if ok {
			return
		}
	}
	fmt.Println("window not reached")
	os.Exit(1)
}
