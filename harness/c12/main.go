// Family c12: trie.Sync (trie/sync.go) driven through state.NewStateSync's account
// callback and through the snap healing delivery path (OnTrieNodes / OnByteCodes ->
// process*HealResponse -> commitHealer; hook eth/protocols/snap/verif_export_c12.go)
// vs coq/Trie/Sync.v.
//
// case = ( scheme root ((key value)..) (src blob..) (op..) )   see coq/Run/C12.v
//
// Gen builds a random account trie with storage tries and code, a destination
// database (empty / closed partial copy / stale full copy / arbitrary subset / garbage),
// and then RUNS the real scheduler to write a script: Missing(k) rounds, requests cut
// into random chunks, answered in random order, partially, twice, corrupted,
// reordered, with foreign blobs, with empty responses, with commits in between.
// Run replays the script on the real code and evaluates the property directly.
package main

import (
	"bytes"
	"fmt"
	"os"
	"sort"
	"time"

	"github.com/ethereum/go-ethereum/common"
	"github.com/ethereum/go-ethereum/core/rawdb"
	"github.com/ethereum/go-ethereum/core/state"
	"github.com/ethereum/go-ethereum/core/types"
	"github.com/ethereum/go-ethereum/crypto"
	"github.com/ethereum/go-ethereum/eth/protocols/snap"
	"github.com/ethereum/go-ethereum/ethdb"
	"github.com/ethereum/go-ethereum/log"
	"github.com/ethereum/go-ethereum/rlp"
	"github.com/ethereum/go-ethereum/trie"
	"github.com/ethereum/go-ethereum/triedb"
	"github.com/ethereum/go-ethereum/triedb/pathdb"
	"github.com/holiman/uint256"
	. "gethverif/harness/hxlib"
)

// ---------------------------------------------------------------- target

type tnode struct {
	owner common.Hash
	path  []byte
	hash  common.Hash
	blob  []byte
}

type tacct struct {
	key   common.Hash
	leaf  []byte
	root  common.Hash
	code  common.Hash
	slots map[string][]byte
}

type target struct {
	root     common.Hash
	nodes    []tnode
	index    map[string]*tnode // owner|path -> node
	codes    map[common.Hash][]byte
	accounts []tacct
	complete bool // every node, leaf and code could be enumerated from src
	missing  bool // a referenced node or code is not among the serving side's blobs
	have     map[common.Hash]bool // hashes of the serving side's blobs
}

func nkey(owner common.Hash, path []byte) string { return string(owner[:]) + "|" + string(path) }

func hexToBytes32(nib []byte) common.Hash {
	var h common.Hash
	for i := 0; i < 32; i++ {
		h[i] = nib[2*i]<<4 | nib[2*i+1]
	}
	return h
}

// splitPath mirrors the path convention of the scheduler: 64 nibbles of account hash, then the inner path.
func splitPath(p []byte) (common.Hash, []byte) {
	if len(p) >= 64 {
		return hexToBytes32(p[:64]), p[64:]
	}
	return common.Hash{}, p
}

func hashDB(src [][]byte) ethdb.Database {
	mdb := rawdb.NewMemoryDatabase()
	for _, b := range src {
		h := crypto.Keccak256Hash(b)
		rawdb.WriteLegacyTrieNode(mdb, h, b)
		rawdb.WriteCode(mdb, h, b)
	}
	return mdb
}

func iterTrie(tr *trie.Trie, owner common.Hash, t *target, leaf func(key, val []byte)) {
	it, err := tr.NodeIterator(nil)
	if err != nil {
		t.complete, t.missing = false, true
		return
	}
	for it.Next(true) {
		if h := it.Hash(); h != (common.Hash{}) {
			t.nodes = append(t.nodes, tnode{owner, common.CopyBytes(it.Path()), h, common.CopyBytes(it.NodeBlob())})
		}
		if it.Leaf() {
			leaf(common.CopyBytes(it.LeafKey()), common.CopyBytes(it.LeafBlob()))
		}
	}
	if it.Error() != nil {
		t.complete, t.missing = false, true
	}
}

// enumerate walks the target state out of the serving side's blobs with the real trie reader.
func enumerate(root common.Hash, src [][]byte) *target {
	t := &target{root: root, index: map[string]*tnode{}, codes: map[common.Hash][]byte{}, complete: true}
	mdb := hashDB(src)
	t.have = map[common.Hash]bool{}
	for _, b := range src {
		t.have[crypto.Keccak256Hash(b)] = true
	}
	tdb := triedb.NewDatabase(mdb, triedb.HashDefaults)
	tr, err := trie.New(trie.StateTrieID(root), tdb)
	if err != nil || root == (common.Hash{}) { // (trie.New treats the zero hash as the empty trie; the scheduler does not)
		t.complete, t.missing = false, true
		return t
	}
	iterTrie(tr, common.Hash{}, t, func(key, val []byte) {
		var acc types.StateAccount
		if len(key) != 32 || rlp.DecodeBytes(val, &acc) != nil {
			t.complete = false
			return
		}
		a := tacct{key: common.BytesToHash(key), leaf: val, root: acc.Root, code: common.BytesToHash(acc.CodeHash), slots: map[string][]byte{}}
		if a.root != types.EmptyRootHash {
			st, err := trie.New(trie.StorageTrieID(root, a.key, a.root), tdb)
			if err != nil {
				t.complete, t.missing = false, true
			} else {
				iterTrie(st, a.key, t, func(k, v []byte) { a.slots[string(k)] = v })
			}
		}
		if a.code != types.EmptyCodeHash {
			if c := rawdb.ReadCode(mdb, a.code); c != nil {
				t.codes[a.code] = c
			} else {
				t.complete, t.missing = false, true
			}
		}
		t.accounts = append(t.accounts, a)
	})
	for i := range t.nodes {
		n := &t.nodes[i]
		t.index[nkey(n.owner, n.path)] = n
	}
	return t
}

// entries = the destination-database image of the whole target in the given scheme
func (t *target) entries(scheme string) map[string][]byte {
	mdb := rawdb.NewMemoryDatabase()
	for _, n := range t.nodes {
		rawdb.WriteTrieNode(mdb, n.owner, n.path, n.hash, n.blob, scheme)
	}
	for h, c := range t.codes {
		rawdb.WriteCode(mdb, h, c)
	}
	return dumpMap(mdb)
}

func dump(db ethdb.Database) [][2][]byte {
	var out [][2][]byte
	it := db.NewIterator(nil, nil)
	defer it.Release()
	for it.Next() {
		out = append(out, [2][]byte{common.CopyBytes(it.Key()), common.CopyBytes(it.Value())})
	}
	return out
}
func dumpMap(db ethdb.Database) map[string][]byte {
	m := map[string][]byte{}
	for _, e := range dump(db) {
		m[string(e[0])] = e[1]
	}
	return m
}
func dumpSx(db ethdb.Database) Sx {
	var l SL
	for _, e := range dump(db) {
		l = append(l, L(B(e[0]), B(e[1])))
	}
	if l == nil {
		l = SL{}
	}
	return l
}
func dumpString(db ethdb.Database) string { return String(dumpSx(db)) }

// present reports whether target node n is "already there" in a database image of the scheme
func present(img map[string][]byte, scheme string, n *tnode, key func(*tnode) string) bool {
	v, ok := img[key(n)]
	if !ok {
		return false
	}
	if scheme == rawdb.HashScheme {
		return true
	}
	return crypto.Keccak256Hash(v) == n.hash
}

func nodeDBKey(scheme string) func(*tnode) string {
	return func(n *tnode) string {
		mdb := rawdb.NewMemoryDatabase()
		rawdb.WriteTrieNode(mdb, n.owner, n.path, n.hash, []byte{1}, scheme)
		for k := range dumpMap(mdb) {
			return k
		}
		return ""
	}
}
func codeDBKey(h common.Hash) string { return "c" + string(h[:]) }

// parentOf: the nearest hashed ancestor of (owner, path) in the target; for a storage
// root the account-trie node holding the account leaf.
func (t *target) parentOf(owner common.Hash, path []byte) *tnode {
	for l := len(path) - 1; l >= 0; l-- {
		if n, ok := t.index[nkey(owner, path[:l])]; ok {
			return n
		}
	}
	if owner != (common.Hash{}) {
		return t.leafHolder(owner)
	}
	return nil
}
func (t *target) leafHolder(acct common.Hash) *tnode {
	full := make([]byte, 64)
	for i, b := range acct {
		full[2*i], full[2*i+1] = b>>4, b&15
	}
	for l := 63; l >= 0; l-- {
		if n, ok := t.index[nkey(common.Hash{}, full[:l])]; ok {
			return n
		}
	}
	return nil
}

// closed: whenever a target node is present in the image, so are its children, and the
// storage tries and codes of the accounts stored in it (the assumption under which
// "present => whole subtree present" lets the scheduler skip it).
func (t *target) closed(img map[string][]byte, scheme string) bool {
	key := nodeDBKey(scheme)
	for i := range t.nodes {
		n := &t.nodes[i]
		if p := t.parentOf(n.owner, n.path); p != nil && present(img, scheme, p, key) && !present(img, scheme, n, key) {
			return false
		}
	}
	for _, a := range t.accounts {
		if a.code == types.EmptyCodeHash {
			continue
		}
		if p := t.leafHolder(a.key); p != nil && present(img, scheme, p, key) {
			if _, ok := img[codeDBKey(a.code)]; !ok {
				return false
			}
		}
	}
	return true
}

// ---------------------------------------------------------------- engine (real code)

type engine struct {
	scheme   string
	db       ethdb.Database
	sched    *trie.Sync
	healer   *snap.VerifC12Healer
	obs      SL
	pre      map[string][]byte
	tgt      *target
	tkey     func(*tnode) string
	oracle   []string
	tags     map[string]bool
	panicked bool
	reqNodes int
	okFills  int
	undeliv  map[string]bool // requested and not yet answered with the right blob
}

func schemeName(s int) string {
	if s == 1 {
		return rawdb.PathScheme
	}
	return rawdb.HashScheme
}

func newEngine(scheme int, root common.Hash, pre [][2][]byte, tgt *target) *engine {
	e := &engine{scheme: schemeName(scheme), db: rawdb.NewMemoryDatabase(), tgt: tgt, tags: map[string]bool{}, undeliv: map[string]bool{}}
	for _, kv := range pre {
		e.db.Put(kv[0], kv[1])
	}
	e.pre = dumpMap(e.db)
	e.tkey = nodeDBKey(e.scheme)
	e.sched = state.NewStateSync(root, e.db, nil, e.scheme)
	e.healer = snap.NewVerifC12Healer(e.db, e.scheme, e.sched)
	return e
}

func (e *engine) fail(f string, a ...any) {
	if len(e.oracle) < 4 {
		e.oracle = append(e.oracle, fmt.Sprintf(f, a...))
	}
}

// missing drives Missing(k) closed under equal priorities (see coq/Run/C12.v missing_closed)
func (e *engine) missing(k int) (paths []string, hashes []common.Hash, codes []common.Hash) {
	add := func(p []string, h []common.Hash, c []common.Hash) {
		paths, hashes, codes = append(paths, p...), append(hashes, h...), append(codes, c...)
	}
	if k == 0 {
		add(e.sched.Missing(0))
	} else {
		if k >= 2 {
			add(e.sched.Missing(k - 1))
		}
		if p, size := trie.VerifC12Peek(e.sched); size > 0 {
			add(e.sched.Missing(1))
			for {
				p2, size2 := trie.VerifC12Peek(e.sched)
				if size2 == 0 || p2 != p {
					break
				}
				n, h, c := e.sched.Missing(1)
				if _, size3 := trie.VerifC12Peek(e.sched); size3 == size2 {
					break
				}
				add(n, h, c)
			}
		}
	}
	// observation: sorted
	idx := make([]int, len(paths))
	for i := range idx {
		idx[i] = i
	}
	sort.Slice(idx, func(a, b int) bool { return paths[idx[a]] < paths[idx[b]] })
	var ns SL = SL{}
	for _, i := range idx {
		ns = append(ns, L(B([]byte(paths[i])), B(hashes[i][:])))
	}
	cs := append([]common.Hash{}, codes...)
	sort.Slice(cs, func(a, b int) bool { return bytes.Compare(cs[a][:], cs[b][:]) < 0 })
	var csx SL = SL{}
	for _, c := range cs {
		csx = append(csx, B(c[:]))
	}
	e.obs = append(e.obs, L(I(0), ns, csx))
	for i := range paths {
		e.undeliv["n"+paths[i]+string(hashes[i][:])] = true
	}
	for _, c := range codes {
		e.undeliv["c"+string(c[:])] = true
	}
	// oracle: only nodes of the target that are not already there are ever requested
	e.reqNodes += len(paths)
	if e.tgt != nil {
		for i, p := range paths {
			owner, inner := splitPath([]byte(p))
			n, ok := e.tgt.index[nkey(owner, inner)]
			if !ok || n.hash != hashes[i] {
				if !e.tgt.missing {
					e.fail("requested a node outside the target: path %x hash %x", p, hashes[i])
				}
				continue
			}
			if present(e.pre, e.scheme, n, e.tkey) {
				e.fail("requested a node that was already present: path %x hash %x", p, hashes[i])
			}
		}
		for _, c := range codes {
			if _, ok := e.tgt.codes[c]; !ok && e.tgt.complete {
				e.fail("requested a code outside the target: %x", c)
			}
			if _, ok := e.pre[codeDBKey(c)]; ok {
				e.fail("requested a code that was already present: %x", c)
			}
		}
	}
	return
}

// filledSlots: which request slots a response fills (bookkeeping of the harness only:
// responses are matched to the requested hashes in order, so with equal hashes in one
// request a partial response fills the FIRST of them)
func filledSlots(hashes []common.Hash, blobs [][]byte) []bool {
	out := make([]bool, len(hashes))
	j := 0
	for _, b := range blobs {
		h := crypto.Keccak256Hash(b)
		for j < len(hashes) && hashes[j] != h {
			j++
		}
		if j >= len(hashes) {
			return make([]bool, len(hashes))
		}
		out[j] = true
		j++
	}
	return out
}

type snapshot struct {
	db      string
	pending int
	mem     uint64
}

func (e *engine) snap() snapshot {
	return snapshot{dumpString(e.db), e.sched.Pending(), e.sched.MemSize()}
}

// deliver: kind 1 = trie nodes, 2 = byte codes
func (e *engine) deliver(kind int, paths []string, hashes []common.Hash, blobs [][]byte) {
	before := e.snap()
	st0 := e.healer.Stats()
	var (
		delivered bool
		err       error
		pan       any
	)
	func() {
		defer func() { pan = recover() }()
		if kind == 1 {
			delivered, err = e.healer.DeliverTrieNodes(paths, hashes, blobs)
		} else {
			delivered, err = e.healer.DeliverByteCodes(hashes, blobs)
		}
	}()
	if pan != nil {
		e.panicked = true
		e.tags["panic"] = true
		e.obs = append(e.obs, L(I(int64(kind)), I(3)))
		return
	}
	st1 := e.healer.Stats()
	o := 0
	if kind == 2 {
		o = 3
	}
	fills, dups, nops := st1[o]-st0[o], st1[o+1]-st0[o+1], st1[o+2]-st0[o+2]
	class := 2
	switch {
	case delivered:
	case len(blobs) == 0 && err == nil:
		class = 0
	case err != nil:
		class = 1
	default:
		e.fail("response neither delivered nor rejected")
	}
	e.tags[fmt.Sprintf("resp%d", class)] = true
	if dups > 0 {
		e.tags["dup"] = true
	}
	if nops > 0 {
		e.tags["nop"] = true
	}
	e.obs = append(e.obs, L(I(int64(kind)), I(int64(class)), U(fills), U(dups), U(nops), I(int64(e.sched.Pending())), U(e.sched.MemSize())))
	after := e.snap()
	// oracle: a response containing a blob whose hash is not among the requested ones
	// changes nothing; neither do duplicates / unrequested deliveries
	bad := false
	want := map[common.Hash]bool{}
	for _, h := range hashes {
		want[h] = true
	}
	for _, b := range blobs {
		if !want[crypto.Keccak256Hash(b)] {
			bad = true
		}
	}
	if bad {
		e.tags["corrupt"] = true
		if class == 2 {
			e.fail("a response with a blob whose hash was not requested was accepted")
		}
		if before != after {
			e.fail("a rejected response changed the scheduler or the database")
		}
	}
	if class != 2 && before != after {
		e.fail("a rejected response changed the scheduler or the database")
	}
	if class == 2 && fills == dups+nops && before != after {
		e.fail("duplicate/unrequested deliveries changed the scheduler or the database")
	}
	if class == 2 {
		e.okFills += int(fills - dups - nops)
		filled := filledSlots(hashes, blobs)
		for i, h := range hashes {
			if filled[i] {
				if kind == 1 {
					delete(e.undeliv, "n"+paths[i]+string(h[:]))
				} else {
					delete(e.undeliv, "c"+string(h[:]))
				}
			}
		}
	}
}

func (e *engine) commit() {
	before := dumpMap(e.db)
	e.healer.ForceCommit()
	e.obs = append(e.obs, L(I(3), I(1), I(int64(e.sched.Pending())), U(e.sched.MemSize())))
	_ = before
}

// final evaluates the end-state part of the property.
func (e *engine) final() {
	if e.tgt == nil {
		return
	}
	fin := dumpMap(e.db)
	ent := e.tgt.entries(e.scheme)
	// nothing but target nodes/codes is ever written (judged only when the target could
	// be enumerated completely from the serving side's blobs)
	for k, v := range fin {
		if e.tgt.missing {
			break
		}
		if pv, ok := e.pre[k]; ok && bytes.Equal(pv, v) {
			continue
		}
		if tv, ok := ent[k]; !ok || !bytes.Equal(tv, v) {
			e.fail("database entry %x is neither initial content nor a target node/code", k)
		}
	}
	// progress: with every requested item answered and the target well formed, pending
	// requests must leave something to fetch
	if !e.panicked && e.sched.Pending() != 0 && len(e.undeliv) == 0 && e.tgt.complete {
		if n, _, c := e.sched.Missing(0); len(n)+len(c) == 0 {
			e.fail("scheduler stuck: %d requests pending, everything requested was delivered, nothing left to fetch", e.sched.Pending())
		}
	}
	if e.panicked || e.sched.Pending() != 0 || e.sched.MemSize() != 0 {
		return
	}
	e.tags["complete"] = true
	// path scheme: no foreign node is left on the path above a node written by this sync
	if e.scheme == rawdb.PathScheme && e.tgt.complete {
		written := map[string]bool{}
		for k, v := range ent {
			if pv, ok := e.pre[k]; (!ok || !bytes.Equal(pv, v)) && (k[0] == 'A' || k[0] == 'O') {
				written[k] = true
			}
		}
		for k := range fin {
			if _, isT := ent[k]; isT || (k[0] != 'A' && k[0] != 'O') || (k[0] == 'O' && len(k) < 33) {
				continue
			}
			for w := range written {
				if len(w) > len(k) && w[:len(k)] == k && (k[0] == 'A' || len(k) >= 33) {
					e.fail("dangling node %x left above the synced node %x", k, w)
					break
				}
			}
		}
	}
	if !e.tgt.complete {
		e.tags["target-malformed"] = true
		return
	}
	if !e.tgt.closed(e.pre, e.scheme) {
		e.tags["pre-not-closed"] = true
		return
	}
	e.tags["complete-checked"] = true
	for k, v := range ent {
		if fv, ok := fin[k]; !ok || !bytes.Equal(fv, v) {
			e.fail("sync complete but target entry %x is missing or different", k)
			return
		}
	}
	// reopen with the real reader and read every account, slot and code
	cp := rawdb.NewMemoryDatabase()
	for k, v := range fin {
		cp.Put([]byte(k), v)
	}
	var cfg *triedb.Config
	if e.scheme == rawdb.PathScheme {
		pc := *pathdb.Defaults
		pc.NoAsyncFlush, pc.NoAsyncGeneration = true, true
		pc.SnapshotNoBuild = true
		cfg = &triedb.Config{PathDB: &pc}
	} else {
		cfg = triedb.HashDefaults
	}
	tdb := triedb.NewDatabase(cp, cfg)
	defer tdb.Close()
	tr, err := trie.New(trie.StateTrieID(e.tgt.root), tdb)
	if err != nil {
		e.fail("reopen failed: %v", err)
		return
	}
	for _, a := range e.tgt.accounts {
		v, err := tr.Get(a.key[:])
		if err != nil || !bytes.Equal(v, a.leaf) {
			e.fail("account %x not readable after sync: %v", a.key, err)
			return
		}
		if a.root != types.EmptyRootHash {
			st, err := trie.New(trie.StorageTrieID(e.tgt.root, a.key, a.root), tdb)
			if err != nil {
				e.fail("storage trie of %x not openable after sync: %v", a.key, err)
				return
			}
			for k, want := range a.slots {
				v, err := st.Get([]byte(k))
				if err != nil || !bytes.Equal(v, want) {
					e.fail("slot %x of %x not readable after sync: %v", k, a.key, err)
					return
				}
			}
		}
		if a.code != types.EmptyCodeHash && !bytes.Equal(rawdb.ReadCode(cp, a.code), e.tgt.codes[a.code]) {
			e.fail("code %x not readable after sync", a.code)
			return
		}
	}
}

// ---------------------------------------------------------------- Run

func asHashes(l SL) []common.Hash {
	out := make([]common.Hash, len(l))
	for i, x := range l {
		out[i] = common.BytesToHash(AsBytes(x))
	}
	return out
}

func blobOf(src [][]byte, x Sx) []byte {
	if b, ok := x.(SB); ok {
		return []byte(b)
	}
	i := AsInt(x)
	if i < 0 || i >= len(src) {
		panic("hxlib: blob index out of range")
	}
	return src[i]
}

func decodeCase(c Sx) (scheme int, root common.Hash, pre [][2][]byte, src [][]byte, ops SL) {
	l := AsList(c)
	if len(l) != 5 {
		panic("hxlib: case shape")
	}
	scheme = AsInt(l[0])
	rb := AsBytes(l[1])
	if len(rb) != 32 || (scheme != 0 && scheme != 1) {
		panic("hxlib: case shape")
	}
	root = common.BytesToHash(rb)
	for _, e := range AsList(l[2]) {
		p := AsList(e)
		pre = append(pre, [2][]byte{AsBytes(p[0]), AsBytes(p[1])})
	}
	for _, e := range AsList(l[3]) {
		src = append(src, AsBytes(e))
	}
	ops = AsList(l[4])
	return
}

func run(c Sx) Result {
	if l, ok := c.(SL); ok && len(l) == 6 {
		if t, ok := l[0].(SI); ok && t.V.Int64() == 9 {
			return runBig(l)
		}
	}
	scheme, root, pre, src, ops := decodeCase(c)
	tgt := enumerate(root, src)
	e := newEngine(scheme, root, pre, tgt)
	for _, o := range ops {
		if e.panicked {
			break
		}
		p := AsList(o)
		switch AsInt(p[0]) {
		case 0:
			e.missing(AsInt(p[1]))
		case 1:
			ps := AsList(p[1])
			hs := asHashes(AsList(p[2]))
			if len(ps) != len(hs) {
				panic("hxlib: paths/hashes length")
			}
			paths := make([]string, len(ps))
			for i, x := range ps {
				paths[i] = string(AsBytes(x))
			}
			var blobs [][]byte
			for _, x := range AsList(p[3]) {
				blobs = append(blobs, blobOf(src, x))
			}
			e.deliver(1, paths, hs, blobs)
		case 2:
			var blobs [][]byte
			for _, x := range AsList(p[2]) {
				blobs = append(blobs, blobOf(src, x))
			}
			e.deliver(2, nil, asHashes(AsList(p[1])), blobs)
		case 3:
			e.commit()
		default:
			panic("hxlib: op")
		}
	}
	e.final()
	if e.obs == nil {
		e.obs = SL{}
	}
	res := Result{Obs: L(I(0), e.obs, dumpSx(e.db))}
	if len(e.oracle) > 0 {
		res.Oracle = e.oracle[0]
	}
	e.tags[e.scheme] = true
	e.tags[fmt.Sprintf("nodes<=%d", bucket(len(tgt.nodes)))] = true
	if len(pre) > 0 {
		e.tags["prepopulated"] = true
	}
	for t := range e.tags {
		res.Tags = append(res.Tags, t)
	}
	// non-trivial: at least one node was requested and one delivery was processed
	res.NonTrivial = e.reqNodes > 0 && e.okFills > 0
	return res
}

func bucket(n int) int {
	for _, b := range []int{0, 4, 16, 64, 256} {
		if n <= b {
			return b
		}
	}
	return 100000
}

// ---------------------------------------------------------------- Gen

type acctSpec struct {
	key     common.Hash
	nonce   uint64
	balance uint64
	slots   [][2][]byte // 32-byte hashed key, raw value (will be RLP-encoded)
	code    []byte
	rawLeaf []byte // if non-nil: stored instead of the account RLP (malformed leaf)
}

func emptyTrie() *trie.Trie {
	return trie.NewEmpty(triedb.NewDatabase(rawdb.NewMemoryDatabase(), nil))
}

type blobset struct {
	list [][]byte
	seen map[string]int
}

func (s *blobset) add(b []byte) int {
	if i, ok := s.seen[string(b)]; ok {
		return i
	}
	s.seen[string(b)] = len(s.list)
	s.list = append(s.list, common.CopyBytes(b))
	return len(s.list) - 1
}

// buildState commits the account trie and the storage tries and returns the root and
// every node/code blob.
func buildState(specs []acctSpec, bs *blobset) common.Hash {
	at := emptyTrie()
	for _, a := range specs {
		sroot := types.EmptyRootHash
		if len(a.slots) > 0 {
			st := emptyTrie()
			for _, kv := range a.slots {
				v, _ := rlp.EncodeToBytes(bytes.TrimLeft(kv[1], "\x00"))
				st.MustUpdate(kv[0], v)
			}
			r, ns := st.Commit(false)
			sroot = r
			if ns != nil {
				for _, n := range ns.Nodes {
					if len(n.Blob) > 0 {
						bs.add(n.Blob)
					}
				}
			}
		}
		ch := types.EmptyCodeHash
		if len(a.code) > 0 {
			ch = crypto.Keccak256Hash(a.code)
			bs.add(a.code)
		}
		leaf := a.rawLeaf
		if leaf == nil {
			leaf, _ = rlp.EncodeToBytes(&types.StateAccount{Nonce: a.nonce, Balance: uint256.NewInt(a.balance), Root: sroot, CodeHash: ch[:]})
		}
		at.MustUpdate(a.key[:], leaf)
	}
	root, ns := at.Commit(false)
	if ns != nil {
		for _, n := range ns.Nodes {
			if len(n.Blob) > 0 {
				bs.add(n.Blob)
			}
		}
	}
	return root
}

// maxShare bounds the shared nibble prefix: account keys share at most 62 nibbles, so
// that no account-trie node sits at depth 64, where its path would clash with the
// path of the storage root request (the clash acknowledged in trie.NewSyncPath: it
// needs a 252-bit Keccak prefix collision between two addresses).
func randKey(r *Rng, pool []common.Hash, maxShare int) common.Hash {
	for {
		k := randKey1(r, pool, maxShare)
		ok := true
		for _, o := range pool {
			n := 0
			for n < 64 && (k[n/2]>>(4*uint(1-n%2)))&15 == (o[n/2]>>(4*uint(1-n%2)))&15 {
				n++
			}
			if n > maxShare {
				ok = false
			}
		}
		if ok {
			return k
		}
	}
}

func randKey1(r *Rng, pool []common.Hash, maxShare int) common.Hash {
	var k common.Hash
	copy(k[:], r.Bytes(32))
	if len(pool) > 0 && r.Chance(1, 2) {
		// share a nibble prefix with an existing key: extension nodes, deep branches
		o := pool[r.Intn(len(pool))]
		n := []int{1, 2, 3, 4, 5, 6, 8, 15, 16, 40, 62, 63}[r.Intn(12)]
		if n > maxShare {
			n = maxShare
		}
		for i := 0; i < n; i++ {
			if i%2 == 0 {
				k[i/2] = k[i/2]&0x0f | o[i/2]&0xf0
			} else {
				k[i/2] = k[i/2]&0xf0 | o[i/2]&0x0f
			}
		}
		// differ at nibble n, so that exactly n nibbles are shared
		if n%2 == 0 {
			if k[n/2]&0xf0 == o[n/2]&0xf0 {
				k[n/2] ^= 0x10
			}
		} else if k[n/2]&0x0f == o[n/2]&0x0f {
			k[n/2] ^= 0x01
		}
	}
	return k
}

func randSlots(r *Rng, n int) [][2][]byte {
	var pool []common.Hash
	var out [][2][]byte
	for i := 0; i < n; i++ {
		k := randKey(r, pool, 63)
		pool = append(pool, k)
		vl := []int{1, 1, 2, 8, 20, 32}[r.Intn(6)]
		v := r.Bytes(vl)
		v[0] |= 1
		out = append(out, [2][]byte{k[:], v})
	}
	return out
}

func randSpecs(r *Rng, n int, big bool, malformed bool) []acctSpec {
	var specs []acctSpec
	var pool []common.Hash
	for i := 0; i < n; i++ {
		a := acctSpec{key: randKey(r, pool, 62), nonce: uint64(r.Intn(3)), balance: r.U64() >> uint(r.Intn(64))}
		pool = append(pool, a.key)
		switch r.Intn(6) {
		case 0, 1:
			a.slots = randSlots(r, r.Range(1, 3))
		case 2:
			a.slots = randSlots(r, r.Range(4, 14))
		case 3:
			if len(specs) > 0 { // identical storage trie under another account
				a.slots = specs[r.Intn(len(specs))].slots
			}
		}
		switch r.Intn(5) {
		case 0:
			a.code = r.Bytes(r.Range(1, 80))
		case 1:
			if len(specs) > 0 { // shared code
				a.code = specs[r.Intn(len(specs))].code
			}
		case 2:
			if big {
				a.code = r.Bytes(r.Range(30000, 50000))
			}
		}
		if malformed && r.Chance(1, 4) {
			switch r.Intn(5) {
			case 0:
				a.rawLeaf = r.Bytes(r.Range(1, 40))
			case 1: // three fields
				a.rawLeaf, _ = rlp.EncodeToBytes([]any{uint64(1), uint64(2), types.EmptyRootHash[:]})
			case 2: // short root
				a.rawLeaf, _ = rlp.EncodeToBytes([]any{uint64(1), uint64(2), r.Bytes(31), types.EmptyCodeHash[:]})
			case 3: // nonce with a leading zero
				a.rawLeaf, _ = rlp.EncodeToBytes([]any{[]byte{0, 1}, uint64(2), types.EmptyRootHash[:], types.EmptyCodeHash[:]})
			case 4: // odd code hash length, trailing garbage possible
				a.rawLeaf, _ = rlp.EncodeToBytes([]any{uint64(1), r.Bytes(r.Range(0, 33)), types.EmptyRootHash[:], r.Bytes(r.Range(0, 40))})
				if r.Bool() {
					a.rawLeaf = append(a.rawLeaf, 0)
				}
			}
		}
		specs = append(specs, a)
	}
	return specs
}

// mutate returns an older/other version of the state (for stale copies)
func mutate(r *Rng, specs []acctSpec) []acctSpec {
	var out []acctSpec
	var pool []common.Hash
	for _, a := range specs {
		pool = append(pool, a.key)
	}
	for _, a := range specs {
		switch r.Intn(6) {
		case 0:
			continue // absent in the old state
		case 1:
			a.balance++
		case 2:
			if len(a.slots) > 0 {
				s := append([][2][]byte{}, a.slots...)
				i := r.Intn(len(s))
				if r.Bool() {
					s = append(s[:i], s[i+1:]...)
				} else {
					s[i] = [2][]byte{s[i][0], []byte{byte(r.Range(1, 255))}}
				}
				a.slots = s
			}
		}
		out = append(out, a)
	}
	for i := r.Intn(4); i > 0; i-- {
		out = append(out, acctSpec{key: randKey(r, pool, 62), balance: uint64(r.Intn(100)), slots: randSlots(r, r.Intn(3))})
	}
	return out
}

func imageOf(t *target, scheme string, keep func(*tnode) bool, keepCode func(common.Hash) bool) [][2][]byte {
	mdb := rawdb.NewMemoryDatabase()
	for i := range t.nodes {
		n := &t.nodes[i]
		if keep(n) {
			rawdb.WriteTrieNode(mdb, n.owner, n.path, n.hash, n.blob, scheme)
		}
	}
	for h, c := range t.codes {
		if keepCode(h) {
			rawdb.WriteCode(mdb, h, c)
		}
	}
	return dump(mdb)
}

func hasPrefix(p, pre []byte) bool { return len(p) >= len(pre) && bytes.Equal(p[:len(pre)], pre) }

// closedPartial: a few whole subtrees of the target (with the storage tries and codes
// of the accounts below an account-trie node)
func closedPartial(r *Rng, t *target, scheme string) [][2][]byte {
	keepN := map[string]bool{}
	keepC := map[common.Hash]bool{}
	if len(t.nodes) == 0 {
		return nil
	}
	for c := r.Range(1, 4); c > 0; c-- {
		top := t.nodes[r.Intn(len(t.nodes))]
		for i := range t.nodes {
			n := &t.nodes[i]
			if n.owner == top.owner && hasPrefix(n.path, top.path) {
				keepN[nkey(n.owner, n.path)] = true
			}
		}
		if top.owner == (common.Hash{}) {
			for _, a := range t.accounts {
				full := make([]byte, 64)
				for i, b := range a.key {
					full[2*i], full[2*i+1] = b>>4, b&15
				}
				if hasPrefix(full, top.path) {
					for i := range t.nodes {
						if t.nodes[i].owner == a.key {
							keepN[nkey(a.key, t.nodes[i].path)] = true
						}
					}
					keepC[a.code] = true
				}
			}
		}
	}
	// the hash scheme identifies nodes by hash: close under equal hashes by keeping whole subtrees per hash
	return imageOf(t, scheme, func(n *tnode) bool { return keepN[nkey(n.owner, n.path)] }, func(h common.Hash) bool { return keepC[h] })
}

type outreq struct {
	kind   int
	paths  []string
	hashes []common.Hash
}

func genCase(r *Rng, mode int) Sx {
	scheme := r.Intn(2)
	sname := schemeName(scheme)
	nacc := []int{0, 1, 2, 3, 5, 8, 12, 20, 30}[r.Intn(9)]
	big := mode == 3
	if big {
		nacc = r.Range(4, 8)
	}
	specs := randSpecs(r, nacc, big, mode == 2)
	bs := &blobset{seen: map[string]int{}}
	root := buildState(specs, bs)
	tgt := enumerate(root, bs.list)

	// destination database
	var pre [][2][]byte
	switch r.Intn(7) {
	case 0, 1: // empty
	case 2: // closed partial copy
		pre = closedPartial(r, tgt, sname)
	case 3, 4: // stale full copy of another version
		obs := &blobset{seen: map[string]int{}}
		oroot := buildState(mutate(r, specs), obs)
		old := enumerate(oroot, obs.list)
		pre = imageOf(old, sname, func(*tnode) bool { return true }, func(common.Hash) bool { return true })
	case 5: // arbitrary subset (not closed)
		pre = imageOf(tgt, sname, func(*tnode) bool { return r.Chance(1, 3) }, func(common.Hash) bool { return r.Chance(1, 3) })
	case 6: // garbage on node paths / empty values
		pre = closedPartial(r, tgt, sname)
		for i := r.Range(1, 4); i > 0 && len(tgt.nodes) > 0; i-- {
			n := tgt.nodes[r.Intn(len(tgt.nodes))]
			p := append(common.CopyBytes(n.path), byte(r.Intn(16)))
			v := r.Bytes(r.Range(0, 40))
			mdb := rawdb.NewMemoryDatabase()
			rawdb.WriteTrieNode(mdb, n.owner, p, crypto.Keccak256Hash(v), v, sname)
			for _, e := range dump(mdb) {
				pre = append(pre, [2][]byte{e[0], v})
			}
		}
	}

	e := newEngine(scheme, root, pre, tgt)
	var ops SL = SL{}
	blobRef := func(h common.Hash) Sx {
		for i, b := range bs.list {
			if crypto.Keccak256Hash(b) == h {
				return I(int64(i))
			}
		}
		return B([]byte{})
	}
	blobBytes := func(x Sx) []byte { return blobOf(bs.list, x) }
	var outstanding, history []outreq
	emitDeliver := func(q outreq, refs []Sx) {
		var bl SL = SL{}
		var blobs [][]byte
		for _, x := range refs {
			bl = append(bl, x)
			blobs = append(blobs, blobBytes(x))
		}
		var hs SL = SL{}
		for _, h := range q.hashes {
			hs = append(hs, B(h[:]))
		}
		if q.kind == 1 {
			var ps SL = SL{}
			for _, p := range q.paths {
				ps = append(ps, B([]byte(p)))
			}
			ops = append(ops, L(I(1), ps, hs, bl))
		} else {
			ops = append(ops, L(I(2), hs, bl))
		}
		e.deliver(q.kind, q.paths, q.hashes, blobs)
	}
	adversarial := mode != 0
	rounds := 0
	for ; rounds < 400 && !e.panicked; rounds++ {
		if e.sched.Pending() == 0 && len(outstanding) == 0 {
			break
		}
		// a Missing round
		if len(outstanding) == 0 || r.Chance(1, 2) {
			k := []int{0, 0, 1, 2, 3, 5, 8, 16, 64}[r.Intn(9)]
			ops = append(ops, L(I(0), I(int64(k))))
			paths, hashes, codes := e.missing(k)
			for len(paths) > 0 {
				n := r.Range(1, len(paths))
				if r.Chance(1, 3) {
					n = len(paths)
				}
				outstanding = append(outstanding, outreq{1, paths[:n], hashes[:n]})
				paths, hashes = paths[n:], hashes[n:]
			}
			for len(codes) > 0 {
				n := r.Range(1, len(codes))
				outstanding = append(outstanding, outreq{2, nil, codes[:n]})
				codes = codes[n:]
			}
		}
		if len(outstanding) == 0 {
			continue
		}
		// answer some outstanding requests in random order
		for cnt := r.Range(1, 3); cnt > 0 && len(outstanding) > 0 && !e.panicked; cnt-- {
			i := r.Intn(len(outstanding))
			q := outstanding[i]
			outstanding = append(outstanding[:i], outstanding[i+1:]...)
			refs := make([]Sx, len(q.hashes))
			for j, h := range q.hashes {
				refs[j] = blobRef(h)
			}
			if adversarial && r.Chance(1, 4) {
				// a bad response first; the request stays outstanding
				bad := append([]Sx{}, refs...)
				switch r.Intn(6) {
				case 0: // corrupted blob
					j := r.Intn(len(bad))
					b := common.CopyBytes(blobBytes(bad[j]))
					if len(b) == 0 {
						b = []byte{0}
					}
					b[r.Intn(len(b))] ^= byte(1 << uint(r.Intn(8)))
					bad[j] = B(b)
				case 1: // foreign blob
					if len(bs.list) > 0 {
						bad[r.Intn(len(bad))] = I(int64(r.Intn(len(bs.list))))
					}
				case 2: // reordered
					if len(bad) >= 2 {
						a, b := r.Intn(len(bad)), r.Intn(len(bad))
						bad[a], bad[b] = bad[b], bad[a]
					}
				case 3: // duplicated blob inside the response
					bad = append(bad, bad[r.Intn(len(bad))])
				case 4: // empty response
					bad = nil
				case 5: // truncated blob
					j := r.Intn(len(bad))
					b := blobBytes(bad[j])
					bad[j] = B(b[:len(b)/2])
				}
				emitDeliver(q, bad)
				if e.panicked {
					break
				}
			}
			// honest (possibly partial) response
			var keep []Sx
			var rest outreq
			rest.kind = q.kind
			for j := range q.hashes {
				if len(q.hashes) > 1 && r.Chance(1, 5) {
					if q.kind == 1 {
						rest.paths = append(rest.paths, q.paths[j])
					}
					rest.hashes = append(rest.hashes, q.hashes[j])
					continue
				}
				keep = append(keep, refs[j])
			}
			if len(keep) == 0 {
				outstanding = append(outstanding, q)
				continue
			}
			var keepBlobs [][]byte
			for _, x := range keep {
				keepBlobs = append(keepBlobs, blobBytes(x))
			}
			filled := filledSlots(q.hashes, keepBlobs)
			rest = outreq{kind: q.kind}
			for j := range q.hashes {
				if !filled[j] {
					if q.kind == 1 {
						rest.paths = append(rest.paths, q.paths[j])
					}
					rest.hashes = append(rest.hashes, q.hashes[j])
				}
			}
			emitDeliver(q, keep)
			history = append(history, q)
			if len(rest.hashes) > 0 {
				outstanding = append(outstanding, rest)
			}
			// replay an answered request: duplicates / no longer requested
			if r.Chance(1, 6) && !e.panicked {
				h := history[r.Intn(len(history))]
				hr := make([]Sx, len(h.hashes))
				for j, x := range h.hashes {
					hr[j] = blobRef(x)
				}
				emitDeliver(h, hr)
			}
		}
		if r.Chance(1, 5) && !e.panicked {
			ops = append(ops, L(I(3)))
			e.commit()
		}
		if adversarial && r.Chance(1, 60) {
			break // leave the sync unfinished
		}
	}
	if !e.panicked && r.Chance(9, 10) {
		ops = append(ops, L(I(3)))
	}
	var preSx SL = SL{}
	for _, kv := range pre {
		preSx = append(preSx, L(B(kv[0]), B(kv[1])))
	}
	var srcSx SL = SL{}
	for _, b := range bs.list {
		srcSx = append(srcSx, B(b))
	}
	return L(I(int64(scheme)), B(root[:]), preSx, srcSx, ops)
}

func gen(r *Rng, tier string, emit func(Sx)) {
	r = NewRng(r.U64())
	n := 480
	if tier == "thorough" {
		n = 4000
	}
	for i := 0; i < n; i++ {
		mode := 0 // honest peers
		switch {
		case i%40 == 39:
			mode = 3 // large codes: commitHealer flushes by size
		case i%4 == 1:
			mode = 1 // adversarial responses
		case i%8 == 3:
			mode = 2 // adversarial responses + malformed account leaves
		}
		emit(genCase(r.Fork(), mode))
	}
	// large-scale stream: wide tries that put more than maxFetchesPerDepth (16384)
	// requests of one depth in flight
	nb := 2
	if tier == "thorough" {
		nb = 8
	}
	for i := 0; i < nb; i++ {
		emit(L(I(9), I(int64(r.Intn(2))), U(r.U64()>>1), I(int64(30000+r.Intn(6000))), I(int64(i%2)), I(int64((i/2+i)%2))))
	}
}

// ---------------------------------------------------------------- large-scale cases
//
// case = (9 scheme seed naccounts kind mode): a wide account trie of naccounts random
// hashed keys (kind 1: a tenth of the accounts carry a small storage trie, a tenth a
// code), synced into an empty destination.  mode 0: Missing(0) every round, everything
// delivered, commit per round; mode 1: Missing(k) with mixed k, several calls before
// anything is delivered, random partial deliveries in random order.  More than
// maxFetchesPerDepth requests of one depth are in flight, so the throttle of
// Sync.Missing engages.  observation = (9 completed missing-target-entries); the model
// side answers the property's value (9 1 0) without simulating the 50k requests.
var shrinkBigSeen bool

func runBig(l SL) Result {
	if len(os.Args) > 1 && os.Args[1] == "shrink" {
		// the shrinker cannot make such a case smaller and keep it failing: judge the
		// original only, skip the candidates
		if shrinkBigSeen {
			return Result{Obs: L(I(9), I(1), I(0))}
		}
		shrinkBigSeen = true
	}
	scheme, seed, n, kind, mode := AsInt(l[1]), AsU64(l[2]), AsInt(l[3]), AsInt(l[4]), AsInt(l[5])
	if (scheme != 0 && scheme != 1) || n < 0 || n > 200000 {
		panic("hxlib: case shape")
	}
	r := NewRng(seed)
	specs := make([]acctSpec, 0, n)
	seen := map[common.Hash]bool{}
	for len(specs) < n {
		var k common.Hash
		copy(k[:], r.Bytes(32))
		if seen[k] {
			continue
		}
		seen[k] = true
		a := acctSpec{key: k, nonce: uint64(r.Intn(4)), balance: r.U64() >> 8}
		if kind == 1 {
			switch r.Intn(10) {
			case 0:
				a.slots = randSlots(r, r.Range(1, 3))
			case 1:
				a.code = r.Bytes(r.Range(20, 60))
			}
		}
		specs = append(specs, a)
	}
	bs := &blobset{seen: map[string]int{}}
	root := buildState(specs, bs)
	tgt := enumerate(root, bs.list)
	blobs := make(map[common.Hash][]byte, len(bs.list))
	for _, b := range bs.list {
		blobs[crypto.Keccak256Hash(b)] = b
	}
	e := newEngine(scheme, root, nil, tgt)
	res := Result{Tags: []string{"big", e.scheme, fmt.Sprintf("bigkind%d", kind), fmt.Sprintf("bigmode%d", mode)}}
	type nreq struct {
		path string
		hash common.Hash
	}
	var (
		inN      []nreq
		inC      []common.Hash
		rounds   int
		stall    int
		throttle bool
		oracle   string
		maxIn    int
	)
	deliver := func(all bool) int {
		nn, nc := len(inN), len(inC)
		if !all {
			for i := len(inN) - 1; i > 0; i-- {
				j := r.Intn(i + 1)
				inN[i], inN[j] = inN[j], inN[i]
			}
			nn = len(inN) * r.Range(30, 100) / 100
			nc = len(inC) * r.Range(30, 100) / 100
		}
		for i := 0; i < nn; {
			j := i + r.Range(1, 3000)
			if j > nn {
				j = nn
			}
			ps := make([]string, 0, j-i)
			hs := make([]common.Hash, 0, j-i)
			bl := make([][]byte, 0, j-i)
			for _, q := range inN[i:j] {
				ps, hs, bl = append(ps, q.path), append(hs, q.hash), append(bl, blobs[q.hash])
			}
			if ok, err := e.healer.DeliverTrieNodes(ps, hs, bl); !ok || err != nil {
				oracle = fmt.Sprintf("honest trienode response rejected: %v", err)
			}
			i = j
		}
		inN = inN[nn:]
		if nc > 0 {
			bl := make([][]byte, 0, nc)
			for _, h := range inC[:nc] {
				bl = append(bl, blobs[h])
			}
			if ok, err := e.healer.DeliverByteCodes(inC[:nc], bl); !ok || err != nil {
				oracle = fmt.Sprintf("honest bytecode response rejected: %v", err)
			}
			inC = inC[nc:]
		}
		return nn + nc
	}
	for e.sched.Pending() > 0 && oracle == "" {
		rounds++
		k := 0
		if mode == 1 {
			k = []int{0, 0, 1, 3000, 20000, 50000}[r.Intn(6)]
		}
		paths, hashes, codes := e.sched.Missing(k)
		if _, size := trie.VerifC12Peek(e.sched); size > 0 && (k == 0 || len(paths)+len(codes) < k) {
			throttle = true // Missing stopped although the queue is not empty and the batch is not full
		}
		for i, p := range paths {
			owner, inner := splitPath([]byte(p))
			if nd, ok := tgt.index[nkey(owner, inner)]; !ok || nd.hash != hashes[i] {
				oracle = fmt.Sprintf("requested a node outside the target: path %x hash %x", p, hashes[i])
			}
			inN = append(inN, nreq{p, hashes[i]})
		}
		inC = append(inC, codes...)
		if len(inN)+len(inC) > maxIn {
			maxIn = len(inN) + len(inC)
		}
		got := len(paths) + len(codes)
		done := 0
		switch {
		case mode == 0 || got == 0:
			done = deliver(true)
		case !throttle || (r.Chance(1, 2) && len(inN) < 60000):
			// let requests pile up (always until the throttle has engaged once)
		default:
			done = deliver(false)
		}
		if mode == 0 || r.Chance(1, 4) {
			e.healer.ForceCommit()
		}
		if got+done == 0 {
			stall++
		} else {
			stall = 0
		}
		if stall >= 3 || rounds > 20000 {
			oracle = fmt.Sprintf("sync does not terminate: %d requests pending, %d in flight, Missing returns nothing (round %d, at most %d in flight)",
				e.sched.Pending(), len(inN)+len(inC), rounds, maxIn)
		}
	}
	e.healer.ForceCommit()
	completed := e.sched.Pending() == 0 && oracle == ""
	missing := 0
	fin := dumpMap(e.db)
	for k, v := range tgt.entries(e.scheme) {
		if fv, ok := fin[k]; !ok || !bytes.Equal(fv, v) {
			missing++
		}
	}
	if oracle == "" && missing > 0 {
		oracle = fmt.Sprintf("sync finished but %d target entries are missing from the store", missing)
	}
	if oracle == "" && !tgt.complete {
		oracle = "harness: target could not be enumerated"
	}
	if throttle {
		res.Tags = append(res.Tags, "throttle")
	}
	res.Obs = L(I(9), Bool(completed), I(int64(missing)))
	res.Oracle = oracle
	res.NonTrivial = throttle
	return res
}

func main() {
	if os.Getenv("C12_LOG") != "" {
		log.SetDefault(log.NewLogger(log.NewTerminalHandlerWithLevel(os.Stderr, log.LevelError, false)))
	}
	Main(Family{
		ID: "C12",
		Rule: "random account tries (0..30 accounts, clustered key prefixes, storage tries incl. identical ones, shared/large codes, " +
			"optionally malformed account leaves) synced by the real trie.Sync (state.NewStateSync) through the snap heal delivery path " +
			"into a destination that is empty / a closed partial copy / a stale full copy / an arbitrary subset / has garbage, hash and path scheme; " +
			"scripts of Missing(k) rounds, chunked requests answered in random order, partially, twice, corrupted, reordered, foreign, empty, with commits; " +
			"non-trivial = at least one node requested and one delivery processed",
		Gen:         gen,
		Run:         run,
		CaseTimeout: 1500 * time.Second,
	})
}
