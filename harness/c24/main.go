// Family c24: one freezer table (core/rawdb/freezer_table.go, freezer_batch.go,
// freezer_meta.go) under crashes vs coq/Storage/FreezerTable.v.
//
// A case is a history of append-batch / truncateHead / truncateTail / Sync
// operations on a table with a tiny maxFileSize, plus a list of crash cuts.  The
// history is run once on the real table in a temp directory; the harness records
// the durable length of every file by stat-ing it right after each point where
// the table code has just fsync'ed it (explicit Sync, the roll-over inside
// AppendRaw, an effective truncateHead/truncateTail); every cut then copies the
// directory, cuts index/data files between durable and current length (with an
// optional zero-filled extension), picks the last-synced or the current metadata
// file, reopens the table and observes it.
package main

import (
	"bytes"
	"errors"
	"fmt"
	"os"
	"path/filepath"
	"sort"
	"strings"

	"github.com/ethereum/go-ethereum/core/rawdb"
	"github.com/ethereum/go-ethereum/rlp"
	"github.com/golang/snappy"
	. "gethverif/harness/hxlib"
)

const tname = "t"

type names struct{ snappy bool }

func (n names) index() string {
	if n.snappy {
		return tname + ".cidx"
	}
	return tname + ".ridx"
}
func (n names) data(id uint32) string {
	if n.snappy {
		return fmt.Sprintf("%s.%04d.cdat", tname, id)
	}
	return fmt.Sprintf("%s.%04d.rdat", tname, id)
}
func (n names) meta() string { return tname + ".meta" }

// dataFiles lists the data files of a table directory, sorted by number.
func (n names) dataFiles(dir string) []uint32 {
	es, _ := os.ReadDir(dir)
	var ids []uint32
	suffix := ".rdat"
	if n.snappy {
		suffix = ".cdat"
	}
	for _, e := range es {
		nm := e.Name()
		if strings.HasPrefix(nm, tname+".") && strings.HasSuffix(nm, suffix) {
			var id uint32
			if _, err := fmt.Sscanf(nm[len(tname)+1:len(nm)-len(suffix)], "%d", &id); err == nil {
				ids = append(ids, id)
			}
		}
	}
	sort.Slice(ids, func(i, j int) bool { return ids[i] < ids[j] })
	return ids
}

func fsz(path string) int64 {
	st, err := os.Stat(path)
	if err != nil {
		return -1
	}
	return st.Size()
}

type metaRec struct {
	Version uint16
	Tail    uint64
	Offset  uint64
}

func readMeta(b []byte) (m metaRec, ok bool) {
	if err := rlp.Decode(bytes.NewReader(b), &m); err != nil {
		return m, false
	}
	return m, true
}

func errClass(err error) int64 {
	switch {
	case err == nil:
		return 0
	case strings.Contains(err.Error(), "truncation below tail"):
		return 1
	case errors.Is(err, rawdb.VerifErrOutOfBounds):
		return 3
	case errors.Is(err, snappy.ErrCorrupt) || errors.Is(err, snappy.ErrTooLarge) || errors.Is(err, snappy.ErrUnsupported):
		return 4
	default:
		return 2
	}
}

type cut struct {
	ai, bi, ad, bd int
	cm             bool
}

func selCut(dur, ln int64, a, b int) (int64, int64) {
	c := dur + int64(a)%(ln-dur+1)
	p := int64(b) % (ln - c + 1)
	return c, p
}

func cutBytes(b []byte, c, p int64) []byte {
	out := append([]byte{}, b[:c]...)
	return append(out, make([]byte, p)...)
}

func scratchBase() string {
	if st, e := os.Stat("/dev/shm"); e == nil && st.IsDir() {
		return "/dev/shm"
	}
	return ""
}

func run(c Sx) Result {
	l := AsList(c)
	if AsInt(l[0]) == 9 {
		return runFreezer(c)
	}
	if AsInt(l[0]) == 8 {
		return runTornMeta(c)
	}
	isSnappy := AsBool(l[0])
	maxsz := uint32(AsU64(l[1]))
	ops := AsList(l[2])
	cutsSx := AsList(l[3])
	nm := names{isSnappy}
	res := Result{}
	seenTag := map[string]bool{}
	tag := func(s string) {
		if !seenTag[s] {
			seenTag[s] = true
			res.Tags = append(res.Tags, s)
		}
	}
	if isSnappy {
		tag("snappy")
	} else {
		tag("raw")
	}

	// a memory-backed directory when there is one (fsync is the dominant cost); the crash
	// states are built by the harness, so the durability of the scratch directory is irrelevant
	base := ""
	if st, e := os.Stat("/dev/shm"); e == nil && st.IsDir() {
		base = "/dev/shm"
	}
	root, err := os.MkdirTemp(base, "c24-")
	if err != nil {
		panic("hxlib: cannot create temp dir: " + err.Error())
	}
	defer os.RemoveAll(root)
	dir := filepath.Join(root, "live")
	t, err := rawdb.VerifNewTable(dir, tname, maxsz, !isSnappy, false)
	if err != nil {
		return Result{Obs: L(I(-2), I(errClass(err))), Oracle: "fresh table does not open: " + err.Error()}
	}
	closed := false
	defer func() {
		if !closed {
			t.Close()
		}
	}()

	// durable bookkeeping
	dur := map[string]int64{}
	var metaSyn []byte
	syncPoint := func(files ...string) {
		for _, f := range files {
			dur[f] = fsz(filepath.Join(dir, f))
		}
	}
	metaSynced := func() { metaSyn, _ = os.ReadFile(filepath.Join(dir, nm.meta())) }
	settle := func() { // truncations lower the watermark; vanished files are forgotten; new files start at 0
		live := map[string]bool{nm.index(): true}
		for _, id := range nm.dataFiles(dir) {
			live[nm.data(id)] = true
		}
		for f := range dur {
			if !live[f] {
				delete(dur, f)
			}
		}
		for f := range live {
			sz := fsz(filepath.Join(dir, f))
			if d, ok := dur[f]; !ok {
				dur[f] = 0
			} else if d > sz {
				dur[f] = sz
			}
		}
	}
	// newTable's repair() fsyncs index, head and metadata
	syncPoint(nm.index(), nm.data(t.HeadId()))
	metaSynced()

	// items stored with zero length while the head file was already over maxFileSize: their index
	// entry is (file+1, offset 0), which checkIndexItems rule 3 rejects (known finding)
	zeroOff := map[uint64]bool{}
	appended := map[uint64][]byte{} // what was last appended at each item number
	syncedHead := uint64(0)         // items covered by the last completed Sync and not truncated since
	var codes []Sx
	rollovers, resets, tailDrops := 0, 0, 0
	for _, o := range ops {
		ol := AsList(o)
		var opErr error
		switch AsInt(ol[0]) {
		case 0: // append batch
			b := t.NewBatch()
			cur := t.Items()
			pending := int64(0)
			for _, bl := range ol[1:] {
				blob := AsBytes(bl)
				h0 := t.HeadId()
				stored := int64(len(blob))
				if isSnappy {
					stored = int64(len(snappy.Encode(nil, blob)))
				}
				delete(zeroOff, cur)
				if stored == 0 && t.HeadBytes()+pending > int64(maxsz) {
					zeroOff[cur] = true
				}
				if err := b.AppendRaw(cur, blob); err != nil {
					opErr = err
					break
				}
				appended[cur] = blob
				cur++
				pending += stored
				if t.HeadId() != h0 {
					pending = stored
					// appendItem committed the pending buffers and advanceHead ran doSync:
					// everything written so far is what was fsync'ed
					rollovers++
					syncPoint(nm.index(), nm.data(h0))
					dur[nm.data(t.HeadId())] = 0
					metaSynced()
				}
			}
			if opErr == nil {
				opErr = b.Commit()
			}
		case 1: // truncateHead
			n := AsU64(ol[1])
			items0, hidden0, flush0 := t.Items(), t.ItemHidden(), t.FlushOffset()
			opErr = t.TruncateHead(n)
			if opErr == nil && items0 > n {
				if n < hidden0 { // resetTo
					resets++
					dur = map[string]int64{}
					syncPoint(nm.index())
					dur[nm.data(t.HeadId())] = 0
					metaSynced()
				} else {
					syncPoint(nm.index(), nm.data(t.HeadId()))
					if t.FlushOffset() != flush0 {
						metaSynced()
					}
				}
			}
		case 2: // truncateTail
			n := AsU64(ol[1])
			items0, hidden0, tail0 := t.Items(), t.ItemHidden(), t.TailId()
			opErr = t.TruncateTail(n)
			if opErr == nil && hidden0 < n {
				if items0 < n { // resetTo
					resets++
					dur = map[string]int64{}
					syncPoint(nm.index())
					dur[nm.data(t.HeadId())] = 0
					metaSynced()
				} else if t.TailId() != tail0 {
					tailDrops++
					syncPoint(nm.index(), nm.data(t.HeadId()))
					metaSynced()
				}
				// otherwise only the virtual tail was written, without fsync
			}
		case 3:
			opErr = t.Sync()
			if opErr == nil {
				syncPoint(nm.index(), nm.data(t.HeadId()))
				metaSynced()
				syncedHead = t.Items()
			}
		case 4:
			opErr = t.SyncIndexOnly()
			syncPoint(nm.index())
		case 5:
			opErr = t.SyncIndexOnly()
			if opErr == nil {
				opErr = t.SyncHeadOnly()
			}
			syncPoint(nm.index(), nm.data(t.HeadId()))
		default:
			panic("hxlib: unknown op")
		}
		settle()
		if t.Items() < syncedHead {
			syncedHead = t.Items()
		}
		codes = append(codes, I(errClass(opErr)))
	}
	if rollovers > 0 {
		tag("rollover")
	}
	if resets > 0 {
		tag("reset")
	}
	if tailDrops > 0 {
		tag("taildrop")
	}

	// state at the crash point
	idxBytes, _ := os.ReadFile(filepath.Join(dir, nm.index()))
	ids := nm.dataFiles(dir)
	dataBytes := map[uint32][]byte{}
	var dataObs []Sx
	for _, id := range ids {
		b, _ := os.ReadFile(filepath.Join(dir, nm.data(id)))
		dataBytes[id] = b
		dataObs = append(dataObs, L(U(uint64(id)), I(dur[nm.data(id)]), I(int64(len(b)))))
	}
	metaCur, _ := os.ReadFile(filepath.Join(dir, nm.meta()))
	ms, ok1 := readMeta(metaSyn)
	mc, ok2 := readMeta(metaCur)
	if !ok1 || !ok2 {
		return Result{Obs: L(I(-3)), Oracle: "metadata file of the live table does not decode"}
	}
	itemsPre, hiddenPre, offsetPre := t.Items(), t.ItemHidden(), t.ItemOffset()
	pre := L(U(itemsPre), U(hiddenPre), U(offsetPre), U(uint64(t.TailId())), U(uint64(t.HeadId())), I(t.HeadBytes()))
	if len(ids) > 2 {
		tag("files>2")
	}
	if hiddenPre > offsetPre {
		tag("hidden-items")
	}
	if ms.Tail != mc.Tail {
		tag("meta-unsynced")
	}
	t.Close()
	closed = true

	var fails []string
	known := ""
	addFail := func(s string) {
		for _, f := range fails {
			if f == s {
				return
			}
		}
		fails = append(fails, s)
	}
	var cutObs []Sx
	for k, cs := range cutsSx {
		cl := AsList(cs)
		cu := cut{AsInt(cl[0]), AsInt(cl[1]), AsInt(cl[2]), AsInt(cl[3]), AsBool(cl[4])}
		cdir := filepath.Join(root, fmt.Sprintf("crash%d", k))
		os.MkdirAll(cdir, 0755)
		ci, pi := selCut(dur[nm.index()], int64(len(idxBytes)), cu.ai, cu.bi)
		os.WriteFile(filepath.Join(cdir, nm.index()), cutBytes(idxBytes, ci, pi), 0644)
		if ci > dur[nm.index()] && ci < int64(len(idxBytes)) {
			res.NonTrivial = true
			if ci%6 != 0 {
				tag("cut-mid-entry")
			}
		}
		if pi > 0 {
			tag("zero-pad-index")
		}
		var dcuts []Sx
		for _, id := range ids {
			b := dataBytes[id]
			d := dur[nm.data(id)]
			cd, pd := selCut(d, int64(len(b)), cu.ad, cu.bd)
			os.WriteFile(filepath.Join(cdir, nm.data(id)), cutBytes(b, cd, pd), 0644)
			dcuts = append(dcuts, L(U(uint64(id)), I(cd), I(pd)))
			if cd > d && cd < int64(len(b)) {
				res.NonTrivial = true
				tag("cut-data")
			}
			if pd > 0 {
				tag("zero-pad-data")
			}
		}
		chosen := ms
		if cu.cm {
			os.WriteFile(filepath.Join(cdir, nm.meta()), metaCur, 0644)
			chosen = mc
		} else {
			os.WriteFile(filepath.Join(cdir, nm.meta()), metaSyn, 0644)
		}

		t2, err := rawdb.VerifNewTable(cdir, tname, maxsz, !isSnappy, false)
		var ro Sx
		if err != nil {
			cls := int64(2)
			if strings.Contains(err.Error(), "failed to decode metadata") {
				cls = 1
			}
			ro = L(I(1), I(cls))
			tag("reopen-error")
			// the one situation recorded as a known finding: the chosen metadata hides items
			// beyond the head that the flush offset recovers
			if chosen.Offset >= 6 && chosen.Tail > offsetPre+chosen.Offset/6-1 {
				known = fmt.Sprintf("reopen failed class=%d hidden>head: virtualTail %d beyond recovered head %d (cut %d: %v)", cls, chosen.Tail, offsetPre+chosen.Offset/6-1, k, err)
			} else {
				addFail(fmt.Sprintf("reopen failed class=%d (cut %d): %v", cls, k, err))
			}
		} else {
			items2, hidden2 := t2.Items(), t2.ItemHidden()
			lo := hidden2
			if lo > 0 {
				lo--
			}
			var rs []Sx
			for i := lo; i <= items2 && items2-lo < 100000; i++ {
				blob, rerr := t2.Retrieve(i)
				inRange := i >= hidden2 && i < items2
				if rerr != nil {
					rs = append(rs, L(I(errClass(rerr))))
					if inRange {
						addFail(fmt.Sprintf("item %d in [%d,%d) is not readable after reopen: class %d", i, hidden2, items2, errClass(rerr)))
					} else if errClass(rerr) != 3 {
						addFail(fmt.Sprintf("item %d outside [%d,%d): error is not out-of-bounds", i, hidden2, items2))
					}
					continue
				}
				rs = append(rs, L(I(0), B(blob)))
				if !inRange {
					addFail(fmt.Sprintf("item %d outside [%d,%d) is readable: range not contiguous", i, hidden2, items2))
				} else if want, ok := appended[i]; !ok || !bytes.Equal(want, blob) {
					addFail(fmt.Sprintf("item %d reads %x, appended %x", i, blob, want))
				}
			}
			if hidden2 > items2 {
				addFail(fmt.Sprintf("tail %d above head %d after reopen", hidden2, items2))
			}
			if hiddenPre < syncedHead && (items2 < syncedHead || hidden2 > hiddenPre) {
				// the known finding, verified: the first lost item was stored with zero length while the head
				// file was over maxFileSize, and its index entry is (previous file + 1, offset 0)
				isKnown := false
				if hidden2 <= hiddenPre && items2 < syncedHead && zeroOff[items2] && items2 >= offsetPre {
					k := int(items2-offsetPre) * 6
					if k+12 <= len(idxBytes) {
						pf := uint32(idxBytes[k])<<8 | uint32(idxBytes[k+1])
						ef := uint32(idxBytes[k+6])<<8 | uint32(idxBytes[k+7])
						eo := uint32(idxBytes[k+8])<<24 | uint32(idxBytes[k+9])<<16 | uint32(idxBytes[k+10])<<8 | uint32(idxBytes[k+11])
						isKnown = eo == 0 && ef == pf+1 && k > 0
					}
				}
				if isKnown {
					if known == "" {
						known = "synced items lost oversized-item: the first lost item is an empty item appended while headBytes > maxFileSize; its index entry (file+1, offset 0) is rejected by checkIndexItems at reopen"
					}
				} else {
					addFail(fmt.Sprintf("synced items [%d,%d) not all present after reopen: range [%d,%d)", hiddenPre, syncedHead, hidden2, items2))
				}
			}
			if items2 < itemsPre {
				tag("items-lost")
			}
			var dl []Sx
			for _, id := range nm.dataFiles(cdir) {
				dl = append(dl, L(U(uint64(id)), I(fsz(filepath.Join(cdir, nm.data(id))))))
			}
			ro = L(I(0), U(items2), U(hidden2), U(t2.ItemOffset()), U(uint64(t2.TailId())), U(uint64(t2.HeadId())),
				I(t2.HeadBytes()), I(t2.FlushOffset()), SL(dl), SL(rs))
			t2.Close()
		}
		cutObs = append(cutObs, L(L(I(ci), I(pi)), SL(dcuts), ro))
		os.RemoveAll(cdir)
	}

	res.Obs = L(SL(codes), L(I(dur[nm.index()]), I(int64(len(idxBytes)))), SL(dataObs),
		L(U(ms.Tail), U(ms.Offset), U(mc.Tail), U(mc.Offset)), pre, SL(cutObs))
	if len(fails) > 0 {
		res.Oracle = strings.Join(fails, " | ")
		if known != "" {
			res.Oracle += " | " + known
		}
	} else if known != "" {
		res.Oracle = known
	}
	return res
}

// ---------- generator ----------

func genBlob(r *Rng, maxsz int, adversarial bool) []byte {
	var n int
	switch r.Intn(10) {
	case 0:
		n = 0
	case 1:
		n = maxsz + r.Intn(20) - 10 // around the file size limit
		if n < 0 {
			n = 0
		}
	case 2:
		n = maxsz / 2
	default:
		n = r.Range(1, 40)
	}
	if adversarial && r.Chance(1, 3) {
		n = 0
	}
	b := r.Bytes(n)
	if r.Chance(1, 3) { // compressible
		for i := range b {
			b[i] = byte(i / 7)
		}
		if n > 0 {
			b[0] = byte(r.U64())
		}
	}
	return b
}

func genCase(r *Rng, ncuts int, adversarial bool) Sx {
	isSnappy := r.Bool()
	maxsz := r.Range(50, 200)
	nops := r.Range(3, 22)
	var ops []Sx
	items, hidden := 0, 0
	blobs := map[string][]byte{}
	allEmpty := adversarial && !isSnappy && r.Chance(1, 4) // the all-zero index case
	for i := 0; i < nops; i++ {
		k := r.Intn(100)
		switch {
		case k < 45 || items == 0 && k < 70:
			n := r.Range(1, 6)
			op := SL{I(0)}
			for j := 0; j < n; j++ {
				b := genBlob(r, maxsz, adversarial)
				if allEmpty {
					b = []byte{}
				}
				blobs[string(b)] = b
				op = append(op, B(b))
			}
			items += n
			ops = append(ops, op)
		case k < 62:
			ops = append(ops, L(I(3)))
		case k < 80: // truncateHead
			var n int
			switch {
			case adversarial && r.Chance(1, 4):
				n = r.Intn(items + 3) // possibly below the tail or above the head
			case items > hidden:
				n = r.Range(hidden, items)
			default:
				n = items
			}
			if n < items {
				if n >= hidden {
					items = n
				} else if items == hidden {
					items, hidden = n, n
				}
			}
			ops = append(ops, L(I(1), I(int64(n))))
		case k < 96: // truncateTail
			var n int
			switch {
			case r.Chance(1, 12):
				n = items + r.Intn(3) // beyond the head: resetTo
			case items > hidden:
				n = r.Range(hidden, items)
			default:
				n = hidden
			}
			if n > hidden {
				hidden = n
				if n > items {
					items = n
				}
			}
			ops = append(ops, L(I(2), I(int64(n))))
		case k < 98:
			ops = append(ops, L(I(4)))
		default:
			ops = append(ops, L(I(5)))
		}
	}
	// most histories end with unsynced appends, so that the cuts have something to cut
	if r.Chance(3, 4) {
		for k := r.Range(1, 3); k > 0; k-- {
			op := SL{I(0)}
			for j := r.Range(1, 4); j > 0; j-- {
				b := genBlob(r, maxsz/4, adversarial)
				if allEmpty {
					b = []byte{}
				}
				blobs[string(b)] = b
				op = append(op, B(b))
				items++
			}
			ops = append(ops, op)
		}
		if r.Chance(1, 6) {
			ops = append(ops, L(I(int64(r.Range(4, 5)))))
		} else if r.Chance(1, 5) && items > hidden {
			ops = append(ops, L(I(2), I(int64(r.Range(hidden, items)))))
		}
	}
	var cuts []Sx
	for i := 0; i < ncuts; i++ {
		var ai, ad int
		switch i % 3 {
		case 0: // sweep the index cut
			ai, ad = i/3, r.Intn(400)
		case 1: // sweep the data cut
			ai, ad = r.Intn(400), i/3*3+r.Intn(3)
		default:
			ai, ad = r.Intn(400), r.Intn(400)
		}
		bi, bd := 0, 0
		if r.Bool() {
			bi = r.Intn(400)
		}
		if r.Bool() {
			bd = r.Intn(400)
		}
		cuts = append(cuts, L(I(int64(ai)), I(int64(bi)), I(int64(ad)), I(int64(bd)), Bool(r.Bool())))
	}
	var pairs []Sx
	if isSnappy {
		keys := make([]string, 0, len(blobs))
		for k := range blobs {
			keys = append(keys, k)
		}
		sort.Strings(keys)
		for _, k := range keys {
			pairs = append(pairs, L(B(blobs[k]), B(snappy.Encode(nil, blobs[k]))))
		}
	}
	return L(Bool(isSnappy), I(int64(maxsz)), SL(ops), SL(cuts), SL(pairs))
}

func gen(r *Rng, tier string, emit func(c Sx)) {
	// hxlib's streams for seeds s and s+1 are shifts of one another; re-key on the first output
	r = NewRng(r.U64())
	nh, ncuts := 200, 48
	if tier == "thorough" {
		nh, ncuts = 1500, 90
	}
	for i := 0; i < nh; i++ {
		emit(genCase(r.Fork(), ncuts, false))
	}
	for i := 0; i < nh/3; i++ {
		emit(genCase(r.Fork(), ncuts, true))
	}
	for i := 0; i < nh; i++ {
		emit(genFreezerCase(r.Fork()))
	}
	for i := 0; i < nh/5; i++ {
		emit(genTornMeta(r.Fork()))
	}
}

func main() {
	Main(Family{
		ID: "c24",
		Rule: "case = random history (append batches of 1-6 items of 0..maxFileSize+10 bytes, truncateHead, truncateTail, Sync, partial syncs) on one " +
			"freezer table with maxFileSize 50-200, raw or snappy, plus 48 (quick) / 90 (thorough) crash cuts: index and data files cut at " +
			"durable + selector mod (current-durable+1) bytes, optional zero-filled extension, last-synced or current metadata file; an adversarial " +
			"stream adds truncations below the tail / above the head, empty items and the all-empty-items (all-zero index) table. " +
			"Non-trivial = at least one cut falls strictly between the durable and the current length of a file. " +
			"A second stream (kind 9, Go oracle only, no Coq model) runs ModifyAncients/SyncAncient/TruncateTail/TruncateHead histories on a Freezer with 2-3 tables " +
			"in one tail group and reopens it from cross-table crash states (each table as on disk, or as at the last SyncAncient when that is still a possible state); " +
			"non-trivial there = the tables' index lengths differ in the crash state. " +
			"A third stream (kind 8, Go oracle only) tears the metadata file: 130-400 one-byte items, Sync, truncateTail (in-place rewrite without fsync), then t.meta = the written record cut to " +
			"every length between the fsynced record's length and its own, with and without zero fill; non-trivial there = the record length changed.",
		Gen: gen,
		Run: run,
	})
}
