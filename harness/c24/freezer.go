// Freezer-level cases of family c24 (Go-oracle only; the Coq model covers one table):
// several tables in one tail group, ModifyAncients / SyncAncient / TruncateTail /
// TruncateHead histories, and cross-table crash states: every table is taken
// independently either as it is on disk, or as it was at the last SyncAncient
// (with its metadata file of then or of now).  The older state is used for a table
// only when it is certainly still a possible crash state of that table: its
// metadata flush offset has not moved since (no doSync inside the table since the
// snapshot) and every file of the snapshot is still a prefix of the current file.
package main

import (
	"bytes"
	"fmt"
	"os"
	"path/filepath"
	"strings"

	"github.com/ethereum/go-ethereum/core/rawdb"
	"github.com/ethereum/go-ethereum/ethdb"
	. "gethverif/harness/hxlib"
)

var fzTables = []string{"a", "b", "c"}

func fzBlob(k int, i uint64, size int) []byte {
	b := make([]byte, size)
	for j := range b {
		b[j] = byte(int(i)*7 + k*31 + j)
	}
	return b
}

func readDirFiles(dir string) map[string][]byte {
	out := map[string][]byte{}
	es, _ := os.ReadDir(dir)
	for _, e := range es {
		if e.IsDir() || e.Name() == "FLOCK" {
			continue
		}
		b, _ := os.ReadFile(filepath.Join(dir, e.Name()))
		out[e.Name()] = b
	}
	return out
}

func tableFiles(all map[string][]byte, kind string) map[string][]byte {
	out := map[string][]byte{}
	for n, b := range all {
		if strings.HasPrefix(n, kind+".") {
			out[n] = b
		}
	}
	return out
}

// snapshotStillPossible: the table's state at the snapshot is still a possible crash state.
func snapshotStillPossible(snap, cur map[string][]byte, kind string) bool {
	ms, ok1 := readMeta(snap[kind+".meta"])
	mc, ok2 := readMeta(cur[kind+".meta"])
	if !ok1 || !ok2 || ms.Offset != mc.Offset {
		return false
	}
	for n, sb := range snap {
		if strings.HasSuffix(n, ".meta") {
			continue
		}
		cb, ok := cur[n]
		if !ok || len(cb) < len(sb) || !bytes.Equal(cb[:len(sb)], sb) {
			return false
		}
	}
	return true
}

func runFreezer(c Sx) Result {
	l := AsList(c)
	maxsz := uint32(AsU64(l[1]))
	nt := AsInt(l[2])
	if nt < 2 || nt > len(fzTables) {
		panic("hxlib: bad table count")
	}
	kinds := fzTables[:nt]
	cfg := map[string]bool{}
	for i, k := range kinds {
		cfg[k] = i != 1 // table b is snappy-compressed
	}
	res := Result{Obs: L(I(9))}
	seenTag := map[string]bool{}
	tag := func(s string) {
		if !seenTag[s] {
			seenTag[s] = true
			res.Tags = append(res.Tags, s)
		}
	}
	tag("freezer-level")
	root, err := os.MkdirTemp(scratchBase(), "c24f-")
	if err != nil {
		panic("hxlib: cannot create temp dir: " + err.Error())
	}
	defer os.RemoveAll(root)
	live := filepath.Join(root, "live")
	f, err := rawdb.VerifNewFreezer(live, maxsz, cfg)
	if err != nil {
		return Result{Obs: L(I(9)), Oracle: "fresh freezer does not open: " + err.Error()}
	}
	appended := make([]map[uint64][]byte, nt)
	for k := range appended {
		appended[k] = map[uint64][]byte{}
	}
	snap := readDirFiles(live)
	syncedHead, tailPre := uint64(0), uint64(0)
	for _, o := range AsList(l[3]) {
		ol := AsList(o)
		switch AsInt(ol[0]) {
		case 0:
			n := AsU64(ol[1])
			head, _ := f.Ancients()
			f.ModifyAncients(func(op ethdb.AncientWriteOp) error {
				for i := head; i < head+n; i++ {
					for k, kind := range kinds {
						b := fzBlob(k, i, AsInt(ol[2+k%(len(ol)-2)]))
						if err := op.AppendRaw(kind, i, b); err != nil {
							return err
						}
						appended[k][i] = b
					}
				}
				return nil
			})
		case 1:
			f.TruncateHead(AsU64(ol[1]))
		case 2:
			f.TruncateTail("g", AsU64(ol[1]))
			tag("tail")
		case 3:
			if f.SyncAncient() == nil {
				snap = readDirFiles(live)
				syncedHead, _ = f.Ancients()
			}
		}
		if h, _ := f.Ancients(); h < syncedHead {
			syncedHead = h
		}
	}
	tailPre, _ = f.Tail("g")
	cur := readDirFiles(live)
	var fails []string
	for ci, cs := range AsList(l[4]) {
		sel := AsList(cs)
		cdir := filepath.Join(root, fmt.Sprintf("crash%d", ci))
		os.MkdirAll(cdir, 0755)
		skew := false
		for k, kind := range kinds {
			s := AsInt(sel[k%len(sel)])
			ts, tc := tableFiles(snap, kind), tableFiles(cur, kind)
			files := tc
			if s != 0 && snapshotStillPossible(ts, tc, kind) {
				files = map[string][]byte{}
				for n, b := range ts {
					files[n] = b
				}
				if s == 2 {
					files[kind+".meta"] = tc[kind+".meta"]
				}
				if len(ts[kind+".ridx"])+len(ts[kind+".cidx"]) != len(tc[kind+".ridx"])+len(tc[kind+".cidx"]) {
					skew = true
				}
			}
			for n, b := range files {
				os.WriteFile(filepath.Join(cdir, n), b, 0644)
			}
		}
		if skew {
			tag("cross-table-skew")
			res.NonTrivial = true
		}
		f2, err := rawdb.VerifNewFreezer(cdir, maxsz, cfg)
		if err != nil {
			fails = append(fails, fmt.Sprintf("freezer reopen failed (crash %d): %v", ci, err))
			os.RemoveAll(cdir)
			continue
		}
		head, _ := f2.Ancients()
		tail, _ := f2.Tail("g")
		if tail > head {
			fails = append(fails, fmt.Sprintf("freezer tail %d above head %d", tail, head))
		}
		lo := tail
		if lo > 0 {
			lo--
		}
		for k, kind := range kinds {
			for i := lo; i <= head; i++ {
				b, err := f2.Ancient(kind, i)
				in := i >= tail && i < head
				if in && (err != nil || !bytes.Equal(b, appended[k][i])) {
					fails = append(fails, fmt.Sprintf("table %s item %d in shared range [%d,%d): err=%v, equal=%v", kind, i, tail, head, err, bytes.Equal(b, appended[k][i])))
				}
				if !in && err == nil {
					fails = append(fails, fmt.Sprintf("table %s item %d readable outside the shared range [%d,%d)", kind, i, tail, head))
				}
			}
		}
		if tailPre < syncedHead && (head < syncedHead || tail > tailPre) {
			fails = append(fails, fmt.Sprintf("synced items [%d,%d) not all present after freezer reopen: [%d,%d)", tailPre, syncedHead, tail, head))
		}
		f2.Close()
		os.RemoveAll(cdir)
		if len(fails) > 3 {
			break
		}
	}
	f.Close()
	if len(fails) > 0 {
		res.Oracle = fails[0]
	}
	return res
}

func genFreezerCase(r *Rng) Sx {
	maxsz := r.Range(60, 200)
	nt := r.Range(2, 3)
	var ops []Sx
	items, tail := 0, 0
	for i, n := 0, r.Range(3, 12); i < n; i++ {
		switch k := r.Intn(100); {
		case k < 50 || items == 0:
			cnt := r.Range(1, 6)
			op := SL{I(0), I(int64(cnt))}
			for t := 0; t < nt; t++ {
				op = append(op, I(int64(r.Range(1, maxsz/2))))
			}
			items += cnt
			ops = append(ops, op)
		case k < 65:
			ops = append(ops, L(I(3)))
		case k < 80 && items > tail:
			n := r.Range(tail, items)
			items = n
			ops = append(ops, L(I(1), I(int64(n))))
		default:
			if items > tail {
				tail = r.Range(tail, items)
			}
			ops = append(ops, L(I(2), I(int64(tail))))
		}
	}
	var crashes []Sx
	for i := 0; i < 9; i++ {
		crashes = append(crashes, L(I(int64(r.Intn(3))), I(int64(r.Intn(3))), I(int64(r.Intn(3)))))
	}
	return L(I(9), I(int64(maxsz)), I(int64(nt)), SL(ops), SL(crashes))
}
