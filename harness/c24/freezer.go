// Freezer-level cases of family c24 (kind 9; model: coq/Storage/Freezer.v on top of the table model):
// several tables in one tail group, ModifyAncients / SyncAncient / TruncateTail /
// TruncateHead histories, and cross-table crash states: every table is taken
// independently either as it is on disk, or as it was at the last SyncAncient
// (with its metadata file of then or of now).  The older state is used for a table
// only when it is certainly still a possible crash state of that table: its
// metadata flush offset has not moved since (no doSync inside the table since the
// snapshot) and every file of the snapshot is still a prefix of the current file.
package main

import (
	"bytes"
	"fmt"
	"os"
	"path/filepath"
	"strings"

	"github.com/ethereum/go-ethereum/core/rawdb"
	"github.com/ethereum/go-ethereum/ethdb"
	. "gethverif/harness/hxlib"
)

var fzTables = []string{"a", "b", "c"}

func fzBlob(k int, i uint64, size int) []byte {
	b := make([]byte, size)
	for j := range b {
		b[j] = byte(int(i)*7 + k*31 + j)
	}
	return b
}

func readDirFiles(dir string) map[string][]byte {
	out := map[string][]byte{}
	es, _ := os.ReadDir(dir)
	for _, e := range es {
		if e.IsDir() || e.Name() == "FLOCK" {
			continue
		}
		b, _ := os.ReadFile(filepath.Join(dir, e.Name()))
		out[e.Name()] = b
	}
	return out
}

func tableFiles(all map[string][]byte, kind string) map[string][]byte {
	out := map[string][]byte{}
	for n, b := range all {
		if strings.HasPrefix(n, kind+".") {
			out[n] = b
		}
	}
	return out
}

// snapshotStillPossible: the table's state at the snapshot is still a possible crash state.
func snapshotStillPossible(snap, cur map[string][]byte, kind string) bool {
	ms, ok1 := readMeta(snap[kind+".meta"])
	mc, ok2 := readMeta(cur[kind+".meta"])
	if !ok1 || !ok2 || ms.Offset != mc.Offset {
		return false
	}
	for n, sb := range snap {
		if strings.HasSuffix(n, ".meta") {
			continue
		}
		cb, ok := cur[n]
		if !ok || len(cb) < len(sb) || !bytes.Equal(cb[:len(sb)], sb) {
			return false
		}
	}
	return true
}

func runFreezer(c Sx) Result {
	l := AsList(c)
	maxsz := uint32(AsU64(l[1]))
	nt := AsInt(l[2])
	if nt < 2 || nt > len(fzTables) {
		panic("hxlib: bad table count")
	}
	kinds := fzTables[:nt]
	cfg := map[string]bool{}
	for _, k := range kinds {
		cfg[k] = true // all raw: the model's codec is the identity
	}
	res := Result{}
	seenTag := map[string]bool{}
	tag := func(s string) {
		if !seenTag[s] {
			seenTag[s] = true
			res.Tags = append(res.Tags, s)
		}
	}
	tag("freezer-level")
	root, err := os.MkdirTemp(scratchBase(), "c24f-")
	if err != nil {
		panic("hxlib: cannot create temp dir: " + err.Error())
	}
	defer os.RemoveAll(root)
	live := filepath.Join(root, "live")
	f, err := rawdb.VerifNewFreezer(live, maxsz, cfg)
	if err != nil {
		return Result{Obs: L(I(9), I(-2)), Oracle: "fresh freezer does not open: " + err.Error()}
	}
	appended := make([]map[uint64][]byte, nt)
	for k := range appended {
		appended[k] = map[uint64][]byte{}
	}
	sizeOf := func(ol SL, k int) int { return AsInt(ol[2+k%(len(ol)-2)]) }
	snap := readDirFiles(live)
	syncedHead, tailPre := uint64(0), uint64(0)
	var codes []Sx
	for _, o := range AsList(l[3]) {
		ol := AsList(o)
		var opErr error
		switch AsInt(ol[0]) {
		case 0:
			n := AsU64(ol[1])
			head, _ := f.Ancients()
			_, opErr = f.ModifyAncients(func(op ethdb.AncientWriteOp) error {
				for i := head; i < head+n; i++ {
					for k, kind := range kinds {
						b := fzBlob(k, i, sizeOf(ol, k))
						if err := op.AppendRaw(kind, i, b); err != nil {
							return err
						}
						appended[k][i] = b
					}
				}
				return nil
			})
		case 1:
			_, opErr = f.TruncateHead(AsU64(ol[1]))
		case 2:
			h0, _ := f.Ancients()
			if AsU64(ol[1]) > h0 {
				tag("fast-forward")
			}
			_, opErr = f.TruncateTail("g", AsU64(ol[1]))
			tag("tail")
		case 3:
			if opErr = f.SyncAncient(); opErr == nil {
				snap = readDirFiles(live)
				syncedHead, _ = f.Ancients()
			}
		}
		codes = append(codes, I(errClass(opErr)))
		if h, _ := f.Ancients(); h < syncedHead {
			syncedHead = h
		}
	}
	tailPre, _ = f.Tail("g")
	if tailPre > 0 {
		tag("offset>0")
	}
	cur := readDirFiles(live)
	var fails []string
	addFail := func(s string) {
		if len(fails) < 4 {
			fails = append(fails, s)
		}
	}
	var crashObs []Sx
	for ci, cs := range AsList(l[4]) {
		sel := AsList(cs)
		cdir := filepath.Join(root, fmt.Sprintf("crash%d", ci))
		os.MkdirAll(cdir, 0755)
		for k, kind := range kinds {
			s := AsInt(sel[k%len(sel)])
			ts, tc := tableFiles(snap, kind), tableFiles(cur, kind)
			files := tc
			if s != 0 && snapshotStillPossible(ts, tc, kind) {
				files = map[string][]byte{}
				for n, b := range ts {
					files[n] = b
				}
				if s == 2 {
					files[kind+".meta"] = tc[kind+".meta"]
				}
			}
			for n, b := range files {
				os.WriteFile(filepath.Join(cdir, n), b, 0644)
			}
		}
		f2, err := rawdb.VerifNewFreezer(cdir, maxsz, cfg)
		if err != nil {
			cls := int64(2)
			if strings.Contains(err.Error(), "truncation below tail") {
				cls = 1
			}
			crashObs = append(crashObs, L(I(1), I(cls)))
			addFail(fmt.Sprintf("freezer reopen failed (crash %d): %v", ci, err))
			os.RemoveAll(cdir)
			continue
		}
		head, _ := f2.Ancients()
		tail, _ := f2.Tail("g")
		if tail > head {
			addFail(fmt.Sprintf("freezer tail %d above head %d", tail, head))
		}
		lo := tail
		if lo > 0 {
			lo--
		}
		var tabObs, retObs []Sx
		skew := false
		for k, kind := range kinds {
			vt := rawdb.VerifFreezerTable(f2, kind)
			tabObs = append(tabObs, L(U(vt.Items()), U(vt.ItemHidden())))
			if vt.Items() != head || vt.ItemHidden() != tail {
				addFail(fmt.Sprintf("table %s is at [%d,%d) but the freezer reports [%d,%d)", kind, vt.ItemHidden(), vt.Items(), tail, head))
			}
			var rs []Sx
			for i := lo; i <= head && head-lo < 100000; i++ {
				b, err := f2.Ancient(kind, i)
				in := i >= tail && i < head
				if err != nil {
					rs = append(rs, L(I(errClass(err))))
				} else {
					rs = append(rs, L(I(0), B(b)))
				}
				if in && (err != nil || !bytes.Equal(b, appended[k][i])) {
					addFail(fmt.Sprintf("table %s item %d in shared range [%d,%d): err=%v, equal=%v", kind, i, tail, head, err, bytes.Equal(b, appended[k][i])))
				}
				if !in && err == nil {
					addFail(fmt.Sprintf("table %s item %d readable outside the shared range [%d,%d)", kind, i, tail, head))
				}
			}
			retObs = append(retObs, SL(rs))
			_ = skew
		}
		crashObs = append(crashObs, L(I(0), U(head), U(tail), SL(tabObs), SL(retObs)))
		if tailPre < syncedHead && (head < syncedHead || tail > tailPre) {
			addFail(fmt.Sprintf("synced items [%d,%d) not all present after freezer reopen: [%d,%d)", tailPre, syncedHead, tail, head))
		}
		if head < syncedHead+1 || true {
			// a further append must work on every table of the recovered freezer
			_, aerr := f2.ModifyAncients(func(op ethdb.AncientWriteOp) error {
				for k, kind := range kinds {
					if err := op.AppendRaw(kind, head, fzBlob(k, head, 3)); err != nil {
						return err
					}
				}
				return nil
			})
			if aerr != nil {
				addFail(fmt.Sprintf("append of item %d after recovery failed: %v", head, aerr))
			} else {
				for k, kind := range kinds {
					if b, err := f2.Ancient(kind, head); err != nil || !bytes.Equal(b, fzBlob(k, head, 3)) {
						addFail(fmt.Sprintf("table %s: item %d appended after recovery reads %x err=%v", kind, head, b, err))
					}
				}
			}
		}
		f2.Close()
		os.RemoveAll(cdir)
	}
	// non-trivial: the tables hold different numbers of index entries on disk at the crash
	first := -1
	for _, kind := range kinds {
		n := len(cur[kind+".ridx"])
		if ms, ok := readMeta(cur[kind+".meta"]); ok && int(ms.Offset) < n {
			res.NonTrivial = true
			tag("unflushed-index")
		}
		if first >= 0 && n != first {
			tag("index-skew")
		}
		first = n
	}
	f.Close()
	res.Obs = L(I(9), SL(codes), SL(crashObs))
	if len(fails) > 0 {
		res.Oracle = fails[0]
	}
	return res
}

func genFreezerCase(r *Rng) Sx {
	maxsz := r.Range(60, 200)
	nt := r.Range(2, 3)
	// per-table item-size profile: some tables get items close to the file limit (they roll over,
	// and every roll-over flushes that table), others tiny items (they stay unflushed)
	profile := make([]int, nt)
	for t := range profile {
		switch r.Intn(3) {
		case 0:
			profile[t] = r.Range(1, 4)
		case 1:
			profile[t] = r.Range(maxsz/3, maxsz/2+5)
		default:
			profile[t] = r.Range(1, maxsz/2)
		}
	}
	var ops []Sx
	items, tail := 0, 0
	appendOp := func() {
		cnt := r.Range(1, 8)
		op := SL{I(0), I(int64(cnt))}
		for t := 0; t < nt; t++ {
			sz := profile[t]
			if r.Chance(1, 4) {
				sz = r.Range(1, maxsz/2)
			}
			op = append(op, I(int64(sz)))
		}
		items += cnt
		ops = append(ops, op)
	}
	if r.Chance(1, 3) { // start the empty freezer at a non-zero offset
		tail = r.Range(1, 300)
		items = tail
		ops = append(ops, L(I(2), I(int64(tail))))
	}
	for i, n := 0, r.Range(2, 12); i < n; i++ {
		switch k := r.Intn(100); {
		case k < 50 || items == tail && k < 70:
			appendOp()
		case k < 64:
			ops = append(ops, L(I(3)))
		case k < 78 && items > tail:
			n := r.Range(tail, items)
			items = n
			ops = append(ops, L(I(1), I(int64(n))))
		case k < 84: // fast-forward: a tail beyond the head empties every table at the new position
			tail = items + r.Range(0, 20)
			items = tail
			ops = append(ops, L(I(2), I(int64(tail))))
		default:
			if items > tail {
				tail = r.Range(tail, items)
			}
			ops = append(ops, L(I(2), I(int64(tail))))
		}
	}
	if r.Chance(2, 3) { // end with unsynced appends
		for k := r.Range(1, 2); k > 0; k-- {
			appendOp()
		}
	}
	var crashes []Sx
	crashes = append(crashes, L(I(0)))
	for i := 0; i < 8; i++ {
		crashes = append(crashes, L(I(int64(r.Intn(3))), I(int64(r.Intn(3))), I(int64(r.Intn(3)))))
	}
	return L(I(9), I(int64(maxsz)), I(int64(nt)), SL(ops), SL(crashes))
}
