// Torn-metadata cases of family c24 (kind 8, Go-oracle only): the metadata file is
// rewritten in place, and truncateTail does so without fsync.  A case appends n
// one-byte items to a raw table with a large maxFileSize (one data file, so every
// truncateTail only rewrites the metadata), syncs, optionally moves the tail and
// syncs again, then moves the tail without fsync.  Crash states: index/data files
// untouched, t.meta = the last written record cut to every length between the
// length of the last fsync'ed record and its own, with and without zero fill up to
// its own length.
package main

import (
	"bytes"
	"fmt"
	"os"
	"path/filepath"
	"strings"

	"github.com/ethereum/go-ethereum/core/rawdb"
	. "gethverif/harness/hxlib"
)

func runTornMeta(c Sx) Result {
	l := AsList(c)
	n, a, b := AsU64(l[1]), AsU64(l[2]), AsU64(l[3])
	res := Result{Obs: L(I(8)), Tags: []string{"torn-metadata"}}
	root, err := os.MkdirTemp(scratchBase(), "c24m-")
	if err != nil {
		panic("hxlib: cannot create temp dir: " + err.Error())
	}
	defer os.RemoveAll(root)
	live := filepath.Join(root, "live")
	t, err := rawdb.VerifNewTable(live, tname, 1<<20, true, false)
	if err != nil {
		return Result{Obs: L(I(8)), Oracle: "fresh table does not open: " + err.Error()}
	}
	bt := t.NewBatch()
	for i := uint64(0); i < n; i++ {
		bt.AppendRaw(i, []byte{byte(i)})
	}
	bt.Commit()
	if a > 0 {
		t.TruncateTail(a)
	}
	t.Sync()
	metaPath := filepath.Join(live, tname+".meta")
	syn, _ := os.ReadFile(metaPath)
	t.TruncateTail(b) // rewrites the record without fsync
	cur, _ := os.ReadFile(metaPath)
	ms, _ := readMeta(syn)
	mc, ok := readMeta(cur)
	hiddenPre, itemsPre := t.ItemHidden(), t.Items()
	t.Close()
	if !ok {
		res.Oracle = "current metadata of the live table does not decode"
		return res
	}
	if len(cur) != len(syn) {
		res.NonTrivial = true
		res.Tags = append(res.Tags, "record-length-changes")
	}
	var states [][]byte
	for k := len(syn); k <= len(cur); k++ {
		states = append(states, append([]byte{}, cur[:k]...))
		states = append(states, append(append([]byte{}, cur[:k]...), make([]byte, len(cur)-k)...))
	}
	if len(cur) < len(syn) { // the record shrank: the old tail bytes stay behind it
		states = append(states, append(append([]byte{}, cur...), syn[len(cur):]...))
	}
	var other []string
	torn := ""
	for si, st := range states {
		d := filepath.Join(root, fmt.Sprintf("s%d", si))
		os.MkdirAll(d, 0755)
		es, _ := os.ReadDir(live)
		for _, e := range es {
			bb, _ := os.ReadFile(filepath.Join(live, e.Name()))
			os.WriteFile(filepath.Join(d, e.Name()), bb, 0644)
		}
		os.WriteFile(filepath.Join(d, tname+".meta"), st, 0644)
		dec, decOK := readMeta(st)
		foreign := !decOK || !((dec.Tail == ms.Tail && dec.Offset == ms.Offset) || (dec.Tail == mc.Tail && dec.Offset == mc.Offset))
		t2, err := rawdb.VerifNewTable(d, tname, 1<<20, true, false)
		var fails []string
		if err != nil {
			if strings.Contains(err.Error(), "failed to decode metadata") && !bytes.Equal(st, cur) && !bytes.Equal(st, syn) {
				torn = fmt.Sprintf("C24-torn-metadata: t.meta=%x (fsynced %x, written %x): newTable fails 'failed to decode metadata'", st, syn, cur)
			} else if decOK && foreign {
				torn = fmt.Sprintf("C24-torn-metadata: t.meta=%x (fsynced %x, written %x) decodes to a record that was never written (tail %d, flushOffset %d): newTable fails: %v", st, syn, cur, dec.Tail, dec.Offset, err)
			} else {
				fails = append(fails, fmt.Sprintf("reopen failed with t.meta=%x: %v", st, err))
			}
		} else {
			items2, hidden2 := t2.Items(), t2.ItemHidden()
			if hidden2 > items2 {
				fails = append(fails, fmt.Sprintf("tail %d above head %d", hidden2, items2))
			}
			for i := hidden2; i < items2 && i < hidden2+400; i++ {
				bb, rerr := t2.Retrieve(i)
				if rerr != nil || !bytes.Equal(bb, []byte{byte(i)}) {
					fails = append(fails, fmt.Sprintf("item %d in range reads %x err=%v", i, bb, rerr))
					break
				}
			}
			if items2 < itemsPre || hidden2 > hiddenPre {
				fails = append(fails, fmt.Sprintf("synced items [%d,%d) not all present after reopen: [%d,%d)", hiddenPre, itemsPre, hidden2, items2))
			}
			t2.Close()
			if len(fails) > 0 && foreign {
				torn = fmt.Sprintf("C24-torn-metadata: t.meta=%x (fsynced %x, written %x) decodes to a record that was never written (tail %d, flushOffset %d): %s", st, syn, cur, dec.Tail, dec.Offset, fails[0])
				fails = nil
			}
		}
		other = append(other, fails...)
		os.RemoveAll(d)
	}
	switch {
	case len(other) > 0:
		res.Oracle = other[0]
		if torn != "" {
			res.Oracle += " | " + torn
		}
	case torn != "":
		res.Oracle = torn
	}
	return res
}

func genTornMeta(r *Rng) Sx {
	n := r.Range(130, 400)
	a := 0
	if r.Chance(1, 2) {
		a = r.Range(1, n-2)
	}
	b := r.Range(a+1, n)
	switch r.Intn(4) { // aim at the RLP length boundaries
	case 0:
		if a < 128 {
			b = r.Range(128, n)
		}
	case 1:
		if n > 256 && a < 256 {
			b = r.Range(256, n)
		}
	}
	return L(I(8), I(int64(n)), I(int64(a)), I(int64(b)))
}
