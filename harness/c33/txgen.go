// Family c33, block content: transactions whose behaviour depends on ONE kind of
// mutation an earlier transaction of the same block made to an account that is not a
// transaction sender — nonce only, balance only, code (7702 delegation, deployed
// contract), storage only — and combinations.  The parallel processor serves those
// mutations to later transactions from the block access list only, so each kind that
// the overlay (bal.Lookup / ReaderWithBlockLevelAccessList) fails to serve shows up as
// parallel != sequential.
package main

import (
	"crypto/ecdsa"
	"fmt"
	"math/big"

	"github.com/ethereum/go-ethereum/common"
	"github.com/ethereum/go-ethereum/core"
	"github.com/ethereum/go-ethereum/core/types"
	"github.com/ethereum/go-ethereum/crypto"
	"github.com/holiman/uint256"

	. "gethverif/harness/hxlib"
)

const (
	nAuth    = 2   // EIP-7702 authorities (never transaction senders)
	nScen    = 14  // hand-built scenarios, selected by seeds < scenSeeds
	scenSeeds = 1000
)

var (
	// nonce-only accounts: factories that only CREATE / CREATE2 (no value, no storage)
	nfac  = common.HexToAddress("0x0fac000000000000000000000000000000000006")
	nfac2 = common.HexToAddress("0x0fac200000000000000000000000000000000007")
	// balance-only account with code: accepts value on empty calldata, otherwise
	// CALL(addr=cd[32], value=cd[0]) and LOG0(success)
	purse = common.HexToAddress("0x9a75e00000000000000000000000000000000008")
	// stores EXTCODEHASH(cd[32]) into slot cd[0]
	hashrd = common.HexToAddress("0x4a54ed0000000000000000000000000000000009")
	// balance-only accounts without code (never senders)
	sinks = []common.Address{
		common.HexToAddress("0x51a4000000000000000000000000000000000001"),
		common.HexToAddress("0x51a4000000000000000000000000000000000002"),
	}

	nfacCode  = []byte{0x60, 0x00, 0x60, 0x00, 0x60, 0x00, 0xf0, 0x50, 0x00}
	nfac2Code = []byte{0x60, 0x00, 0x35, 0x60, 0x00, 0x60, 0x00, 0x60, 0x00, 0xf5, 0x50, 0x00}
	purseCode = []byte{0x36, 0x60, 0x05, 0x57, 0x00, 0x5b,
		0x60, 0x00, 0x60, 0x00, 0x60, 0x00, 0x60, 0x00, 0x60, 0x00, 0x35, 0x60, 0x20, 0x35, 0x5a, 0xf1,
		0x60, 0x00, 0x52, 0x60, 0x20, 0x60, 0x00, 0xa0, 0x00}
	hashrdCode = []byte{0x60, 0x20, 0x35, 0x3f, 0x60, 0x00, 0x35, 0x55, 0x00}
	// top-level create deploying the adder runtime (no storage written by the init code):
	// CODECOPY(0, 12, 13); RETURN(0, 13); <adder runtime>
	bumperInit = append([]byte{0x60, 0x0d, 0x60, 0x0c, 0x60, 0x00, 0x39, 0x60, 0x0d, 0x60, 0x00, 0xf3}, adderCode...)

	authKeys []*ecdsa.PrivateKey
	auths    []common.Address
)

func extraAlloc(alloc types.GenesisAlloc) {
	alloc[nfac] = types.Account{Nonce: 1, Code: nfacCode, Balance: common.Big0}
	alloc[nfac2] = types.Account{Nonce: 1, Code: nfac2Code, Balance: common.Big0}
	alloc[purse] = types.Account{Nonce: 1, Code: purseCode, Balance: big.NewInt(3)}
	alloc[hashrd] = types.Account{Nonce: 1, Code: hashrdCode, Balance: common.Big0}
	alloc[sinks[0]] = types.Account{Balance: big.NewInt(7)}
	for i := 0; i < nAuth; i++ {
		k, _ := crypto.ToECDSA(crypto.Keccak256([]byte(fmt.Sprintf("c33-authority-%d", i))))
		authKeys = append(authKeys, k)
		auths = append(auths, crypto.PubkeyToAddress(k.PublicKey))
	}
	// authority 0 exists (funded), authority 1 does not exist before the block
	alloc[auths[0]] = types.Account{Balance: big.NewInt(11)}
}

// tx kinds
const (
	kTransfer = iota
	kAdder
	kCopier
	kCond
	kBalrd
	kFactorySD
	kCreateV1
	kNfac
	kNfac2
	kSetCode
	kCallAuth
	kPurseFund
	kPurseFwd
	kCreateBumper
	kCallBumper
	kHashrd
	kSinkPay
	nKinds
)

type txgen struct {
	r         *Rng
	g         *core.BlockGen
	tags      map[string]bool
	nonces    [nEOA]uint64
	authNonce [nAuth]uint64
	delegated [nAuth]bool
	created   []common.Address
	hot       int
	count     int
	// scenario pins: a fixed authority / delegation target / account looked at by readers
	pinAuth   int
	pinTarget *common.Address
	pinAcct   *common.Address
}

func (t *txgen) sender() int { return t.r.Intn(t.hot) }

func (t *txgen) send(si int, to *common.Address, value *big.Int, gas uint64, data []byte) {
	tx := types.MustSignNewTx(keys[si], signer, &types.DynamicFeeTx{
		ChainID: cfg.ChainID, Nonce: t.nonces[si], To: to, Value: value, Gas: gas,
		GasFeeCap: gwei(10), GasTipCap: gwei(int64(t.r.Intn(3))), Data: data,
	})
	t.nonces[si]++
	t.g.AddTx(tx)
	t.count++
}

func addrWord(a common.Address) []byte { return common.LeftPadBytes(a[:], 32) }

// anyAccount picks an account whose balance / code a reader contract may look at
func (t *txgen) anyAccount() common.Address {
	r := t.r
	if t.pinAcct != nil {
		return *t.pinAcct
	}
	switch r.Intn(9) {
	case 0:
		return coinbase
	case 1:
		return eoas[r.Intn(nEOA)]
	case 2:
		return purse
	case 3:
		return sinks[r.Intn(len(sinks))]
	case 4:
		return auths[r.Intn(nAuth)]
	case 5:
		return nfac
	case 6:
		if len(t.created) > 0 {
			return t.created[r.Intn(len(t.created))]
		}
		return factory
	case 7:
		return crypto.CreateAddress(nfac, uint64(1+r.Intn(3)))
	}
	return factory
}

func (t *txgen) emit(kind int) {
	r := t.r
	slot := func() uint64 { return uint64(r.Intn(4)) }
	zero := big.NewInt(0)
	switch kind {
	case kTransfer:
		var to common.Address
		switch r.Intn(4) {
		case 0:
			to = coinbase
			t.tags["to-coinbase"] = true
		case 1:
			to = common.BytesToAddress(append([]byte{0xfe}, r.Bytes(3)...))
			t.tags["to-fresh"] = true
		default:
			to = eoas[r.Intn(nEOA)]
		}
		t.send(t.sender(), &to, big.NewInt(int64(r.Range(0, 1000))), 600_000, nil)
		t.tags["transfer"] = true
	case kAdder:
		t.send(t.sender(), &adder, zero, 600_000, append(word(slot()), word(uint64(r.Range(0, 3)))...))
		t.tags["adder"] = true
	case kCopier:
		t.send(t.sender(), &copier, zero, 600_000, append(word(slot()), word(slot())...))
		t.tags["copier"] = true
	case kCond:
		t.send(t.sender(), &condc, zero, 600_000, append(word(uint64(r.Intn(2))), word(uint64(r.Intn(2)))...))
		t.tags["cond"] = true
	case kBalrd:
		t.send(t.sender(), &balrd, zero, 600_000, append(word(slot()), addrWord(t.anyAccount())...))
		t.tags["balrd"] = true
	case kFactorySD:
		t.send(t.sender(), &factory, big.NewInt(int64(r.Range(0, 50))), 1_500_000, nil)
		t.tags["selfdestruct"] = true
	case kCreateV1:
		t.send(t.sender(), nil, big.NewInt(int64(r.Range(0, 9))), 1_500_000, createInit)
		t.tags["create"] = true
	case kNfac: // nonce-only: the created address depends on the factory's nonce
		t.send(t.sender(), &nfac, zero, 1_500_000, nil)
		t.tags["nonce-only:create"] = true
	case kNfac2:
		t.send(t.sender(), &nfac2, zero, 1_500_000, word(uint64(r.Intn(3))))
		t.tags["nonce-only:create2"] = true
	case kSetCode: // 7702: authority (not the sender) delegates, re-delegates or clears
		ai := r.Intn(nAuth)
		if t.pinAuth >= 0 {
			ai = t.pinAuth
		}
		var target common.Address
		pick := r.Intn(5)
		if t.pinTarget != nil {
			pick = 5
			target = *t.pinTarget
		}
		switch pick {
		case 5:
		case 0:
			target = common.Address{} // clear
			t.tags["7702-clear"] = true
		case 1:
			target = copier
		default:
			target = adder // repeated delegation to the same target: nonce-only change
		}
		nonce := t.authNonce[ai]
		valid := true
		if t.pinTarget == nil && r.Chance(1, 8) {
			nonce += uint64(r.Range(1, 2)) // stale / future authorization: skipped by the EVM
			valid = false
			t.tags["7702-bad-nonce"] = true
		}
		auth, err := types.SignSetCode(authKeys[ai], types.SetCodeAuthorization{
			ChainID: *uint256.MustFromBig(cfg.ChainID), Address: target, Nonce: nonce,
		})
		if err != nil {
			panic(err)
		}
		si := t.sender()
		to := eoas[r.Intn(nEOA)]
		tx := types.MustSignNewTx(keys[si], signer, &types.SetCodeTx{
			ChainID: uint256.MustFromBig(cfg.ChainID), Nonce: t.nonces[si], To: to, Value: uint256.NewInt(0),
			Gas: 1_500_000, GasFeeCap: uint256.MustFromBig(gwei(10)), GasTipCap: uint256.MustFromBig(gwei(int64(r.Intn(3)))),
			AuthList: []types.SetCodeAuthorization{auth},
		})
		t.nonces[si]++
		t.g.AddTx(tx)
		t.count++
		if valid {
			t.authNonce[ai]++
			t.delegated[ai] = target != (common.Address{})
		}
		t.tags["7702-setcode"] = true
	case kCallAuth: // runs the delegated code (adder/copier calldata) in the authority's storage
		a := auths[r.Intn(nAuth)]
		if t.pinAuth >= 0 {
			a = auths[t.pinAuth]
		}
		t.send(t.sender(), &a, zero, 600_000, append(word(slot()), word(uint64(r.Range(1, 3)))...))
		t.tags["call-authority"] = true
	case kPurseFund:
		t.send(t.sender(), &purse, big.NewInt(int64(r.Range(1, 5))), 600_000, nil)
		t.tags["balance-only:purse-fund"] = true
	case kPurseFwd: // succeeds iff the purse's balance (changed by earlier txs only) suffices
		to := sinks[r.Intn(len(sinks))]
		t.send(t.sender(), &purse, zero, 1_500_000, append(word(uint64(r.Range(1, 6))), addrWord(to)...))
		t.tags["balance-only:purse-forward"] = true
	case kCreateBumper:
		si := t.sender()
		addr := crypto.CreateAddress(eoas[si], t.nonces[si])
		t.send(si, nil, big.NewInt(int64(r.Intn(2))), 1_500_000, bumperInit)
		t.created = append(t.created, addr)
		t.tags["code:create-contract"] = true
	case kCallBumper:
		if len(t.created) == 0 {
			t.emit(kCreateBumper)
			return
		}
		a := t.created[r.Intn(len(t.created))]
		t.send(t.sender(), &a, zero, 600_000, append(word(slot()), word(uint64(r.Range(1, 3)))...))
		t.tags["code:call-created"] = true
	case kHashrd:
		t.send(t.sender(), &hashrd, zero, 600_000, append(word(slot()), addrWord(t.anyAccount())...))
		t.tags["code:extcodehash"] = true
	case kSinkPay:
		to := sinks[r.Intn(len(sinks))]
		t.send(t.sender(), &to, big.NewInt(int64(r.Range(1, 9))), 600_000, nil)
		t.tags["balance-only:sink"] = true
	}
}

func (t *txgen) withdrawal() {
	r := t.r
	if r.Chance(1, 3) {
		var a common.Address
		switch r.Intn(4) {
		case 0:
			a = eoas[r.Intn(nEOA)]
		case 1:
			a = adder
		case 2:
			a = purse
		default:
			a = sinks[r.Intn(len(sinks))]
		}
		t.g.AddWithdrawal(&types.Withdrawal{Validator: 1, Address: a, Amount: uint64(r.Intn(3))})
		t.tags["withdrawal"] = true
	}
}

// randomTxsV2: all kinds; half of the blocks have a focus kind family so that several
// transactions of the block hit the same non-sender account.
func randomTxsV2(t *txgen) {
	r := t.r
	n := r.Range(2, 9)
	families := [][]int{
		{kNfac, kNfac, kNfac2, kHashrd},
		{kSetCode, kSetCode, kCallAuth, kHashrd, kBalrd},
		{kPurseFund, kPurseFwd, kPurseFwd, kBalrd, kSinkPay},
		{kCreateBumper, kCallBumper, kCallBumper, kHashrd},
		{kAdder, kCopier, kCond},
		{kSinkPay, kBalrd, kTransfer},
	}
	var focus []int
	if r.Bool() {
		focus = families[r.Intn(len(families))]
	}
	for i := 0; i < n; i++ {
		if focus != nil && r.Chance(2, 3) {
			t.emit(focus[r.Intn(len(focus))])
		} else {
			t.emit(r.Intn(nKinds))
		}
	}
	t.withdrawal()
}

// scenario builds one of the hand-picked dependency chains, followed by a few random
// transactions chosen by the variant.
func scenario(t *txgen, id int, variant int) {
	var ks []int
	switch id {
	case 0: // nonce-only account (CREATE-only factory) called by several txs
		ks = []int{kNfac, kNfac, kNfac, kHashrd}
	case 1: // nonce-only account (CREATE2-only factory)
		ks = []int{kNfac2, kNfac2, kNfac2}
	case 2: // 7702: delegate, call, re-delegate (nonce-only when the target repeats), call
		ks = []int{kSetCode, kCallAuth, kSetCode, kSetCode, kCallAuth, kHashrd}
	case 3: // balance-only contract: fund, forward twice, read
		ks = []int{kPurseFund, kPurseFwd, kPurseFwd, kBalrd, kPurseFwd}
	case 4: // code: deploy, call twice, read code hash
		ks = []int{kCreateBumper, kCallBumper, kCallBumper, kHashrd}
	case 5: // storage-only chain
		ks = []int{kAdder, kAdder, kCopier, kCond, kAdder}
	case 6: // balance-only accounts without code
		ks = []int{kSinkPay, kBalrd, kSinkPay, kBalrd, kTransfer}
	case 7: // mix of all
		ks = []int{kNfac, kSetCode, kPurseFund, kNfac, kCallAuth, kPurseFwd, kCreateBumper, kCallBumper}
	case 8: // nonce-only + selfdestructing factory + creates
		ks = []int{kNfac, kFactorySD, kNfac, kCreateV1, kFactorySD}
	case 9: // 7702 only (two authorities, clear and re-delegate)
		ks = []int{kSetCode, kSetCode, kSetCode, kCallAuth, kSetCode, kCallAuth}
	case 10: // authority with nonce+code changes only: delegate, read its code hash,
		// re-delegate to the same target (a nonce-only change at that index), read again
		t.pinAuth, t.pinTarget, t.pinAcct = variant%nAuth, &copier, &auths[variant%nAuth]
		ks = []int{kSetCode, kHashrd, kSetCode, kHashrd, kSetCode, kBalrd}
	case 12: // empty block: system-call phases only
	case 13: // a single transaction
		ks = []int{kAdder}
	case 11: // balance-only contract read by balance readers between fundings
		t.pinAcct = &purse
		ks = []int{kPurseFund, kBalrd, kPurseFwd, kBalrd, kPurseFund, kPurseFwd}
	}
	for _, k := range ks {
		t.emit(k)
	}
	t.tags[fmt.Sprintf("scenario-%d", id)] = true
	if id >= 12 {
		return
	}
	for i := 0; i < variant%3; i++ {
		t.emit(t.r.Intn(nKinds))
	}
	t.tags[fmt.Sprintf("scenario-%d", id)] = true
}

func fillBlock(seed uint64, r *Rng, g *core.BlockGen, tags map[string]bool) {
	t := &txgen{r: r, g: g, tags: tags, pinAuth: -1}
	t.hot = r.Range(1, nEOA)
	if seed < scenSeeds {
		t.hot = nEOA
		scenario(t, int(seed%nScen), int(seed/nScen))
		return
	}
	if r.Chance(1, 3) {
		randomTxsV1(r, g, tags)
		return
	}
	randomTxsV2(t)
}
