// Family c33: BAL-driven parallel block execution (core/state_processor_parallel.go,
// core/state/reader_eip_7928.go, core/state/statedb_eip_7928.go, core/types/bal,
// core/block_validator.go) vs coq/State/Parallel.v.
//
// A case is one random Amsterdam block on a fixed genesis.  Gen executes the block once
// with the exported pieces of the sequential processor to derive, per block-access
// index, the abstract transaction the Coq model replays: the keys it touched with the
// values it saw, its recordable reads, its net writes, its gas figures.  Run rebuilds the
// block from the seed, re-derives the tables (they must reproduce), executes the block
// through the real sequential and parallel processors and pushes every mutated access
// list through the real validation pipeline.
package main

import (
	"bytes"
	"context"
	"crypto/ecdsa"
	"fmt"
	"math/big"
	"os"
	"runtime"
	"sort"
	"strings"
	"sync"
	"sync/atomic"
	"time"

	"github.com/ethereum/go-ethereum/common"
	"github.com/ethereum/go-ethereum/consensus/beacon"
	"github.com/ethereum/go-ethereum/consensus/ethash"
	"github.com/ethereum/go-ethereum/core"
	"github.com/ethereum/go-ethereum/core/rawdb"
	"github.com/ethereum/go-ethereum/core/state"
	"github.com/ethereum/go-ethereum/core/types"
	"github.com/ethereum/go-ethereum/core/types/bal"
	"github.com/ethereum/go-ethereum/core/vm"
	"github.com/ethereum/go-ethereum/crypto"
	"github.com/ethereum/go-ethereum/params"
	"github.com/ethereum/go-ethereum/rlp"
	"github.com/ethereum/go-ethereum/trie"
	"github.com/holiman/uint256"

	. "gethverif/harness/hxlib"
)

// ---------------------------------------------------------------- fixed world

const nEOA = 5

var (
	cfg      *params.ChainConfig
	signer   types.Signer
	keys     []*ecdsa.PrivateKey
	eoas     []common.Address
	gspec    *core.Genesis
	coinbase = common.HexToAddress("0xc01babe000000000000000000000000000000001")

	adder   = common.HexToAddress("0xadde000000000000000000000000000000000001")
	copier  = common.HexToAddress("0xc091000000000000000000000000000000000002")
	condc   = common.HexToAddress("0xc09d000000000000000000000000000000000003")
	balrd   = common.HexToAddress("0xba1a000000000000000000000000000000000004")
	factory = common.HexToAddress("0xfac7000000000000000000000000000000000005")

	adderCode  = []byte{0x60, 0x20, 0x35, 0x60, 0x00, 0x35, 0x54, 0x01, 0x60, 0x00, 0x35, 0x55, 0x00}
	copierCode = []byte{0x60, 0x00, 0x35, 0x54, 0x60, 0x20, 0x35, 0x55, 0x00}
	condCode   = []byte{0x60, 0x00, 0x35, 0x54, 0x80, 0x60, 0x01, 0x16, 0x60, 0x10, 0x57,
		0x60, 0x00, 0x60, 0x00, 0xfd, 0x5b, 0x60, 0x77, 0x01, 0x60, 0x20, 0x35, 0x55, 0x00}
	balrdCode = []byte{0x60, 0x20, 0x35, 0x31, 0x60, 0x00, 0x35, 0x55, 0x00}
	// child init code ORIGIN SELFDESTRUCT; factory: create(callvalue, 0, 2); sstore(0, addr)
	factoryCode = []byte{0x60, 0x32, 0x60, 0x00, 0x53, 0x60, 0xff, 0x60, 0x01, 0x53,
		0x60, 0x02, 0x60, 0x00, 0x34, 0xf0, 0x60, 0x00, 0x55, 0x00}
	// top-level create: sstore(1,0x42); return 1-byte runtime [STOP]
	createInit = []byte{0x60, 0x42, 0x60, 0x01, 0x55, 0x60, 0x00, 0x60, 0x00, 0x53, 0x60, 0x01, 0x60, 0x00, 0xf3}

	worldOnce sync.Once
	chainMu   sync.Mutex
	chain     *core.BlockChain
)

func gwei(n int64) *big.Int { return new(big.Int).Mul(big.NewInt(n), big.NewInt(params.GWei)) }

func world() {
	worldOnce.Do(func() {
		c := *params.MergedTestChainConfig
		c.AmsterdamTime = new(uint64)
		cfg = &c
		signer = types.LatestSigner(cfg)
		alloc := types.GenesisAlloc{
			params.BeaconRootsAddress:        {Nonce: 1, Code: params.BeaconRootsCode, Balance: common.Big0},
			params.HistoryStorageAddress:     {Nonce: 1, Code: params.HistoryStorageCode, Balance: common.Big0},
			params.WithdrawalQueueAddress:    {Nonce: 1, Code: params.WithdrawalQueueCode, Balance: common.Big0},
			params.ConsolidationQueueAddress: {Nonce: 1, Code: params.ConsolidationQueueCode, Balance: common.Big0},
			params.BuilderDepositAddress:     {Nonce: 1, Code: params.BuilderDepositCode, Balance: common.Big0},
			params.BuilderExitAddress:        {Nonce: 1, Code: params.BuilderExitCode, Balance: common.Big0},
			adder: {Nonce: 1, Code: adderCode, Balance: common.Big0, Storage: map[common.Hash]common.Hash{
				common.BigToHash(big.NewInt(1)): common.BigToHash(big.NewInt(5)),
				common.BigToHash(big.NewInt(2)): common.BigToHash(big.NewInt(1)),
			}},
			copier: {Nonce: 1, Code: copierCode, Balance: common.Big0, Storage: map[common.Hash]common.Hash{
				common.BigToHash(big.NewInt(0)): common.BigToHash(big.NewInt(9)),
			}},
			condc: {Nonce: 1, Code: condCode, Balance: common.Big0, Storage: map[common.Hash]common.Hash{
				common.BigToHash(big.NewInt(0)): common.BigToHash(big.NewInt(3)),
			}},
			balrd:   {Nonce: 1, Code: balrdCode, Balance: common.Big0},
			factory: {Nonce: 1, Code: factoryCode, Balance: big.NewInt(1000)},
		}
		extraAlloc(alloc)
		for i := 0; i < nEOA; i++ {
			k, _ := crypto.ToECDSA(crypto.Keccak256([]byte(fmt.Sprintf("c33-eoa-%d", i))))
			keys = append(keys, k)
			a := crypto.PubkeyToAddress(k.PublicKey)
			eoas = append(eoas, a)
			alloc[a] = types.Account{Balance: gwei(1_000_000_000)}
		}
		gspec = &core.Genesis{Config: cfg, Alloc: alloc, GasLimit: 60_000_000}
	})
}

func getChain() *core.BlockChain {
	chainMu.Lock()
	defer chainMu.Unlock()
	if chain == nil {
		bc, err := core.NewBlockChain(rawdb.NewMemoryDatabase(), gspec, beacon.New(ethash.NewFaker()), nil)
		if err != nil {
			panic("hxlib: cannot create chain: " + err.Error())
		}
		chain = bc
	}
	return chain
}
func dropChain() {
	chainMu.Lock()
	defer chainMu.Unlock()
	if chain != nil {
		chain.Stop()
		chain = nil
	}
}

// ---------------------------------------------------------------- flattened keys

const (
	tagTouch = 0
	tagBal   = 1
	tagNonce = 2
	tagCode  = 3
	tagSlot  = 4
)

func mkKey(a common.Address, tag byte, slot common.Hash) string {
	b := append(append([]byte{}, a[:]...), tag)
	if tag == tagSlot {
		b = append(b, slot[:]...)
	}
	return string(b)
}
func keyAddr(k string) common.Address { return common.BytesToAddress([]byte(k[:20])) }
func keyTag(k string) byte            { return k[20] }
func keySlot(k string) common.Hash    { return common.BytesToHash([]byte(k[21:])) }

func u64b(v uint64) []byte {
	return []byte{byte(v >> 56), byte(v >> 48), byte(v >> 40), byte(v >> 32), byte(v >> 24), byte(v >> 16), byte(v >> 8), byte(v)}
}
func u256b(v *uint256.Int) []byte { b := v.Bytes32(); return b[:] }

// value of a flattened key in a StateDB
func stateVal(s *state.StateDB, k string) []byte {
	a := keyAddr(k)
	switch keyTag(k) {
	case tagBal:
		return u256b(s.GetBalance(a))
	case tagNonce:
		return u64b(s.GetNonce(a))
	case tagCode:
		return append([]byte{}, s.GetCode(a)...)
	case tagSlot:
		h := s.GetState(a, keySlot(k))
		return h[:]
	}
	return nil
}

type kv struct {
	k string
	v []byte
}

// flattened BlockAccessList: changes in list order, reads in list order
type fbal struct {
	w []struct {
		k  string
		es []struct {
			idx uint32
			v   []byte
		}
	}
	r []string
}

func flatten(l *bal.BlockAccessList) *fbal {
	f := &fbal{}
	addW := func(k string) int {
		f.w = append(f.w, struct {
			k  string
			es []struct {
				idx uint32
				v   []byte
			}
		}{k: k})
		return len(f.w) - 1
	}
	addE := func(i int, idx uint32, v []byte) {
		f.w[i].es = append(f.w[i].es, struct {
			idx uint32
			v   []byte
		}{idx, v})
	}
	for i := range *l {
		a := &(*l)[i]
		f.r = append(f.r, mkKey(a.Address, tagTouch, common.Hash{}))
		for _, s := range a.StorageReads {
			f.r = append(f.r, mkKey(a.Address, tagSlot, s.Bytes32()))
		}
		if len(a.BalanceChanges) > 0 {
			j := addW(mkKey(a.Address, tagBal, common.Hash{}))
			for _, c := range a.BalanceChanges {
				addE(j, c.BlockAccessIndex, u256b(c.PostBalance))
			}
		}
		if len(a.NonceChanges) > 0 {
			j := addW(mkKey(a.Address, tagNonce, common.Hash{}))
			for _, c := range a.NonceChanges {
				addE(j, c.BlockAccessIndex, u64b(c.PostNonce))
			}
		}
		if len(a.CodeChanges) > 0 {
			j := addW(mkKey(a.Address, tagCode, common.Hash{}))
			for _, c := range a.CodeChanges {
				addE(j, c.BlockAccessIndex, c.NewCode)
			}
		}
		for _, sc := range a.StorageChanges {
			j := addW(mkKey(a.Address, tagSlot, sc.Slot.Bytes32()))
			for _, c := range sc.SlotChanges {
				addE(j, c.BlockAccessIndex, u256b(c.PostValue))
			}
		}
	}
	return f
}

func (f *fbal) sx() Sx {
	var ws, rs []Sx
	for _, w := range f.w {
		var es []Sx
		for _, e := range w.es {
			es = append(es, L(U(uint64(e.idx)), B(e.v)))
		}
		ws = append(ws, L(B([]byte(w.k)), L(es...)))
	}
	for _, r := range f.r {
		rs = append(rs, B([]byte(r)))
	}
	return L(L(ws...), L(rs...))
}
func (f *fbal) keys() []string {
	var ks []string
	for _, w := range f.w {
		ks = append(ks, w.k)
	}
	for _, r := range f.r {
		if keyTag(r) == tagSlot {
			ks = append(ks, r)
		}
	}
	return ks
}

func kvsSx(l []kv) Sx {
	var out []Sx
	for _, e := range l {
		out = append(out, L(B([]byte(e.k)), B(e.v)))
	}
	return L(out...)
}

// ---------------------------------------------------------------- block construction

type phase struct {
	dep    []kv     // keys touched, with the value before the phase
	reads  []string // recordable keys accessed (touch keys, slots read or written)
	writes []kv     // net changes with post values
	ok     bool
	gl     uint64
	exec   uint64
	sgas   uint64
	used   uint64
	nlogs  uint64
	out    []byte
}

type mutation struct {
	adj  int // 0: body only; 1: header BlockAccessListHash follows the mutated list; 2: hash and state root follow it
	kind string
	list *bal.BlockAccessList
}

type built struct {
	seed    uint64
	block   *types.Block
	n       int
	phases  []phase
	pre     []kv
	post    []kv // derived sequential post-state values on the pre keys
	trueBal *bal.BlockAccessList
	muts    []mutation
	workers int
	sched   [][2]int
	tags    []string
}

func word(v uint64) []byte { h := common.BigToHash(new(big.Int).SetUint64(v)); return h[:] }

func randomTxsV1(r *Rng, g *core.BlockGen, tags map[string]bool) {
	n := r.Range(2, 9)
	if r.Chance(1, 12) {
		n = r.Range(0, 1)
	}
	nonces := make([]uint64, nEOA)
	// a few hot senders
	hot := r.Range(1, nEOA)
	for i := 0; i < n; i++ {
		si := r.Intn(hot)
		var (
			to    *common.Address
			value = big.NewInt(0)
			data  []byte
			gas   = uint64(600_000)
			tip   = int64(r.Intn(3))
		)
		slot := func() uint64 { return uint64(r.Intn(4)) }
		switch r.Intn(10) {
		case 0, 1: // value transfer: other EOA, coinbase, or a fresh account
			var t common.Address
			switch r.Intn(4) {
			case 0:
				t = coinbase
				tags["to-coinbase"] = true
			case 1:
				t = common.BytesToAddress(append([]byte{0xfe}, r.Bytes(3)...))
				tags["to-fresh"] = true
			default:
				t = eoas[r.Intn(nEOA)]
			}
			to = &t
			value = big.NewInt(int64(r.Range(0, 1000)))
			tags["transfer"] = true
		case 2, 3, 4: // adder: slot += v  (read-write conflicts)
			to = &adder
			data = append(word(slot()), word(uint64(r.Range(0, 3)))...)
			tags["adder"] = true
		case 5: // copier between slots of one contract
			to = &copier
			data = append(word(slot()), word(slot())...)
			tags["copier"] = true
		case 6: // conditional on parity of a slot of the adder? no: own slot 0/1
			to = &condc
			data = append(word(uint64(r.Intn(2))), word(uint64(r.Intn(2)))...)
			tags["cond"] = true
		case 7: // store the balance of some account
			to = &balrd
			var t common.Address
			switch r.Intn(3) {
			case 0:
				t = coinbase
			case 1:
				t = eoas[r.Intn(nEOA)]
			default:
				t = factory
			}
			data = append(word(slot()), common.LeftPadBytes(t[:], 32)...)
			tags["balrd"] = true
		case 8: // factory: create + selfdestruct in the same tx
			to = &factory
			value = big.NewInt(int64(r.Range(0, 50)))
			gas = 1_500_000
			tags["selfdestruct"] = true
		case 9: // top-level create
			data = createInit
			value = big.NewInt(int64(r.Range(0, 9)))
			gas = 1_500_000
			tags["create"] = true
		}
		tx := types.MustSignNewTx(keys[si], signer, &types.DynamicFeeTx{
			ChainID: cfg.ChainID, Nonce: nonces[si], To: to, Value: value, Gas: gas,
			GasFeeCap: gwei(10), GasTipCap: gwei(tip), Data: data,
		})
		nonces[si]++
		g.AddTx(tx)
	}
	if r.Chance(1, 3) {
		var t common.Address
		if r.Bool() {
			t = eoas[r.Intn(nEOA)]
		} else {
			t = adder
		}
		g.AddWithdrawal(&types.Withdrawal{Validator: 1, Address: t, Amount: uint64(r.Intn(3))})
		tags["withdrawal"] = true
	}
}

func logsDigest(logs []*types.Log) []byte {
	type lg struct {
		A common.Address
		T []common.Hash
		D []byte
	}
	var l []lg
	for _, x := range logs {
		l = append(l, lg{x.Address, x.Topics, x.Data})
	}
	enc, _ := rlp.EncodeToBytes(l)
	return crypto.Keccak256(enc)[:8]
}
func receiptOut(rc *types.Receipt) []byte {
	out := append([]byte{byte(rc.Status)}, logsDigest(rc.Logs)...)
	return append(out, rc.ContractAddress[:]...)
}
func requestsOut(reqs [][]byte) []byte {
	if reqs == nil {
		return []byte{0xff}
	}
	h := types.CalcRequestsHash(reqs)
	return h[:8]
}

// keys and tables of one phase from its construction access list
func phaseTables(cb *bal.ConstructionBlockAccessList, idx uint32, before *state.StateDB) (dep []kv, reads []string, writes []kv) {
	if cb == nil {
		return
	}
	var addrs []common.Address
	for a := range cb.Accounts {
		addrs = append(addrs, a)
	}
	sort.Slice(addrs, func(i, j int) bool { return bytes.Compare(addrs[i][:], addrs[j][:]) < 0 })
	for _, a := range addrs {
		acc := cb.Accounts[a]
		reads = append(reads, mkKey(a, tagTouch, common.Hash{}))
		for _, t := range []byte{tagBal, tagNonce, tagCode} {
			k := mkKey(a, t, common.Hash{})
			dep = append(dep, kv{k, stateVal(before, k)})
		}
		if v, ok := acc.BalanceChanges[idx]; ok {
			writes = append(writes, kv{mkKey(a, tagBal, common.Hash{}), u256b(v)})
		}
		if v, ok := acc.NonceChanges[idx]; ok {
			writes = append(writes, kv{mkKey(a, tagNonce, common.Hash{}), u64b(v)})
		}
		if v, ok := acc.CodeChange[idx]; ok {
			writes = append(writes, kv{mkKey(a, tagCode, common.Hash{}), append([]byte{}, v...)})
		}
		var slots []common.Hash
		for s := range acc.StorageReads {
			slots = append(slots, s)
		}
		for s := range acc.StorageWrites {
			slots = append(slots, s)
		}
		sort.Slice(slots, func(i, j int) bool { return bytes.Compare(slots[i][:], slots[j][:]) < 0 })
		for _, s := range slots {
			k := mkKey(a, tagSlot, s)
			reads = append(reads, k)
			dep = append(dep, kv{k, stateVal(before, k)})
			if m, ok := acc.StorageWrites[s]; ok {
				if v, ok := m[idx]; ok {
					writes = append(writes, kv{k, append([]byte{}, v[:]...)})
				}
			}
		}
	}
	return
}

// derive re-executes the block with the exported pieces of the sequential processor
// (PreExecution, ApplyTransactionWithEVM, PostExecution, Finalize) and records the
// per-index tables.  It returns the merged construction list for cross-checking.
func derive(bc *core.BlockChain, block *types.Block) ([]phase, *state.StateDB, *bal.ConstructionBlockAccessList, error) {
	parent := bc.GetHeader(block.ParentHash(), block.NumberU64()-1)
	statedb, err := bc.StateAt(parent)
	if err != nil {
		return nil, nil, nil, err
	}
	var (
		header  = block.Header()
		ectx    = core.NewEVMBlockContext(header, bc, nil)
		sgn     = types.MakeSigner(cfg, header.Number, header.Time)
		evm     = vm.NewEVM(ectx, statedb, cfg, vm.Config{})
		gp      = core.NewGasPool(block.GasLimit())
		merged  = bal.NewConstructionBlockAccessList()
		phases  []phase
		allLogs []*types.Log
		n       = len(block.Transactions())
	)
	defer evm.Release()
	before := statedb.Copy()
	cb := core.PreExecution(context.Background(), block.BeaconRoot(), parent, cfg, evm, block.Number(), block.Time())
	dep, reads, writes := phaseTables(cb, 0, before)
	phases = append(phases, phase{dep: dep, reads: reads, writes: writes, ok: true})
	merged.Merge(cb)
	for i, tx := range block.Transactions() {
		msg, err := core.TransactionToMessage(tx, sgn, header.BaseFee)
		if err != nil {
			return nil, nil, nil, err
		}
		before = statedb.Copy()
		statedb.SetTxContext(tx.Hash(), i, uint32(i+1))
		e0, s0 := gp.CumulativeExecution(), gp.CumulativeState()
		rc, cb, err := core.ApplyTransactionWithEVM(msg, gp, statedb, block.Number(), block.Hash(), block.Time(), tx, evm)
		if err != nil {
			return nil, nil, nil, err
		}
		dep, reads, writes := phaseTables(cb, uint32(i+1), before)
		phases = append(phases, phase{dep: dep, reads: reads, writes: writes, ok: true, gl: tx.Gas(),
			exec: gp.CumulativeExecution() - e0, sgas: gp.CumulativeState() - s0, used: rc.GasUsed,
			nlogs: uint64(len(rc.Logs)), out: receiptOut(rc)})
		allLogs = append(allLogs, rc.Logs...)
		merged.Merge(cb)
	}
	before = statedb.Copy()
	reqs, pcb, err := core.PostExecution(context.Background(), cfg, block.Number(), block.Time(), allLogs, evm, uint32(n+1))
	if err != nil {
		return nil, nil, nil, err
	}
	pl := bal.NewConstructionBlockAccessList()
	pl.Merge(pcb)
	bc.Engine().Finalize(bc, header, statedb, block.Body(), uint32(n+1), pl)
	dep, reads, writes = phaseTables(pl, uint32(n+1), before)
	phases = append(phases, phase{dep: dep, reads: reads, writes: writes, ok: true, out: requestsOut(reqs)})
	merged.Merge(pl)
	return phases, statedb, merged, nil
}

func cloneBig(v *uint256.Int) *uint256.Int { return new(uint256.Int).Set(v) }

// mutate returns a structurally different copy of the list (or an identical copy for
// kind "identity").
func mutate(r *Rng, orig *bal.BlockAccessList, n int) (*bal.BlockAccessList, string) {
	l := orig.Copy()
	L := *l
	pickAcc := func(pred func(*bal.AccountAccess) bool) *bal.AccountAccess {
		var c []int
		for i := range L {
			if pred(&L[i]) {
				c = append(c, i)
			}
		}
		if len(c) == 0 {
			return nil
		}
		return &L[c[r.Intn(len(c))]]
	}
	any := func(*bal.AccountAccess) bool { return true }
	idx := func() uint32 { return uint32(r.Intn(n + 2)) }
	op := r.Intn(22)
	switch op {
	case 0:
		return l, "identity"
	case 1: // drop an account
		if len(L) == 0 {
			break
		}
		i := r.Intn(len(L))
		L = append(L[:i], L[i+1:]...)
		*l = L
		return l, "drop-account"
	case 2: // swap two accounts
		if len(L) < 2 {
			break
		}
		i := r.Intn(len(L) - 1)
		L[i], L[i+1] = L[i+1], L[i]
		return l, "swap-accounts"
	case 3: // duplicate an account
		if len(L) == 0 {
			break
		}
		i := r.Intn(len(L))
		L = append(L[:i+1], append([]bal.AccountAccess{L[i].Copy()}, L[i+1:]...)...)
		*l = L
		return l, "dup-account"
	case 4, 5: // add a fresh account: empty, or with a balance change
		a := bal.AccountAccess{Address: common.BytesToAddress(append([]byte{0xee}, r.Bytes(5)...))}
		kind := "add-empty-account"
		if op == 5 {
			a.BalanceChanges = []bal.C33BalanceChange{{BlockAccessIndex: idx(), PostBalance: uint256.NewInt(uint64(r.Range(1, 99)))}}
			kind = "add-account-balance"
		}
		L = append(L, a)
		sort.Slice(L, func(i, j int) bool { return bytes.Compare(L[i].Address[:], L[j].Address[:]) < 0 })
		*l = L
		return l, kind
	case 6: // drop a whole slot's changes
		a := pickAcc(func(a *bal.AccountAccess) bool { return len(a.StorageChanges) > 0 })
		if a == nil {
			break
		}
		i := r.Intn(len(a.StorageChanges))
		a.StorageChanges = append(a.StorageChanges[:i], a.StorageChanges[i+1:]...)
		return l, "drop-slot"
	case 7: // drop one storage write entry
		a := pickAcc(func(a *bal.AccountAccess) bool { return len(a.StorageChanges) > 0 })
		if a == nil {
			break
		}
		sc := &a.StorageChanges[r.Intn(len(a.StorageChanges))]
		i := r.Intn(len(sc.SlotChanges))
		sc.SlotChanges = append(sc.SlotChanges[:i], sc.SlotChanges[i+1:]...)
		return l, "drop-storage-write"
	case 8: // alter a storage post value
		a := pickAcc(func(a *bal.AccountAccess) bool { return len(a.StorageChanges) > 0 })
		if a == nil {
			break
		}
		sc := &a.StorageChanges[r.Intn(len(a.StorageChanges))]
		e := &sc.SlotChanges[r.Intn(len(sc.SlotChanges))]
		e.PostValue = new(uint256.Int).AddUint64(e.PostValue, uint64(r.Range(1, 3)))
		return l, "alter-storage-value"
	case 9: // alter a balance
		a := pickAcc(func(a *bal.AccountAccess) bool { return len(a.BalanceChanges) > 0 })
		if a == nil {
			break
		}
		e := &a.BalanceChanges[r.Intn(len(a.BalanceChanges))]
		e.PostBalance = new(uint256.Int).AddUint64(e.PostBalance, 1)
		return l, "alter-balance"
	case 10: // alter a nonce
		a := pickAcc(func(a *bal.AccountAccess) bool { return len(a.NonceChanges) > 0 })
		if a == nil {
			break
		}
		a.NonceChanges[r.Intn(len(a.NonceChanges))].PostNonce++
		return l, "alter-nonce"
	case 11: // alter or drop code
		a := pickAcc(func(a *bal.AccountAccess) bool { return len(a.CodeChanges) > 0 })
		if a == nil {
			break
		}
		if r.Bool() {
			a.CodeChanges[0].NewCode = append(append([]byte{}, a.CodeChanges[0].NewCode...), 0x00)
			return l, "alter-code"
		}
		a.CodeChanges = nil
		return l, "drop-code"
	case 12: // shift the index of a storage write
		a := pickAcc(func(a *bal.AccountAccess) bool { return len(a.StorageChanges) > 0 })
		if a == nil {
			break
		}
		sc := &a.StorageChanges[r.Intn(len(a.StorageChanges))]
		e := &sc.SlotChanges[r.Intn(len(sc.SlotChanges))]
		if r.Bool() || e.BlockAccessIndex == 0 {
			e.BlockAccessIndex++
		} else {
			e.BlockAccessIndex--
		}
		return l, "shift-storage-index"
	case 13: // shift the index of a balance / nonce change
		a := pickAcc(func(a *bal.AccountAccess) bool { return len(a.BalanceChanges) > 0 })
		if a == nil {
			break
		}
		if len(a.NonceChanges) > 0 && r.Bool() {
			e := &a.NonceChanges[r.Intn(len(a.NonceChanges))]
			if e.BlockAccessIndex > 0 && r.Bool() {
				e.BlockAccessIndex--
			} else {
				e.BlockAccessIndex++
			}
			return l, "shift-nonce-index"
		}
		e := &a.BalanceChanges[r.Intn(len(a.BalanceChanges))]
		if e.BlockAccessIndex > 0 && r.Bool() {
			e.BlockAccessIndex--
		} else {
			e.BlockAccessIndex++
		}
		return l, "shift-balance-index"
	case 14: // index beyond n+1
		a := pickAcc(func(a *bal.AccountAccess) bool { return len(a.BalanceChanges) > 0 })
		if a == nil {
			break
		}
		a.BalanceChanges[len(a.BalanceChanges)-1].BlockAccessIndex = uint32(n + 2 + r.Intn(3))
		return l, "index-out-of-range"
	case 15: // extra storage write entry on an existing slot (value = a neighbour's, or new)
		a := pickAcc(func(a *bal.AccountAccess) bool { return len(a.StorageChanges) > 0 })
		if a == nil {
			break
		}
		sc := &a.StorageChanges[r.Intn(len(a.StorageChanges))]
		ni := idx()
		for _, e := range sc.SlotChanges {
			if e.BlockAccessIndex == ni {
				ni = uint32(n + 1)
			}
		}
		v := cloneBig(sc.SlotChanges[r.Intn(len(sc.SlotChanges))].PostValue)
		if r.Bool() {
			v.AddUint64(v, 7)
		}
		sc.SlotChanges = append(sc.SlotChanges, bal.C33StorageWrite{BlockAccessIndex: ni, PostValue: v})
		sort.SliceStable(sc.SlotChanges, func(i, j int) bool { return sc.SlotChanges[i].BlockAccessIndex < sc.SlotChanges[j].BlockAccessIndex })
		return l, "add-storage-write"
	case 16: // a read slot becomes a write (with an arbitrary small value)
		a := pickAcc(func(a *bal.AccountAccess) bool { return len(a.StorageReads) > 0 && len(a.CodeChanges) == 0 })
		if a == nil {
			break
		}
		i := r.Intn(len(a.StorageReads))
		s := a.StorageReads[i]
		a.StorageReads = append(a.StorageReads[:i], a.StorageReads[i+1:]...)
		a.StorageChanges = append(a.StorageChanges, bal.C33SlotChanges{Slot: s, SlotChanges: []bal.C33StorageWrite{{BlockAccessIndex: idx(), PostValue: uint256.NewInt(uint64(r.Intn(4)))}}})
		sort.Slice(a.StorageChanges, func(i, j int) bool { return a.StorageChanges[i].Slot.Cmp(a.StorageChanges[j].Slot) < 0 })
		return l, "read-to-write"
	case 17: // drop a storage read
		a := pickAcc(func(a *bal.AccountAccess) bool { return len(a.StorageReads) > 0 })
		if a == nil {
			break
		}
		i := r.Intn(len(a.StorageReads))
		a.StorageReads = append(a.StorageReads[:i], a.StorageReads[i+1:]...)
		return l, "drop-read"
	case 18: // add a storage read on a contract
		a := pickAcc(func(a *bal.AccountAccess) bool {
			return a.Address == adder || a.Address == copier || a.Address == condc || a.Address == balrd
		})
		if a == nil {
			break
		}
		s := uint256.NewInt(uint64(100 + r.Intn(50)))
		a.StorageReads = append(a.StorageReads, s)
		sort.Slice(a.StorageReads, func(i, j int) bool { return a.StorageReads[i].Cmp(a.StorageReads[j]) < 0 })
		return l, "add-read"
	case 19: // drop a balance or nonce change
		a := pickAcc(func(a *bal.AccountAccess) bool { return len(a.BalanceChanges) > 0 })
		if a == nil {
			break
		}
		if len(a.NonceChanges) > 0 && r.Bool() {
			i := r.Intn(len(a.NonceChanges))
			a.NonceChanges = append(a.NonceChanges[:i], a.NonceChanges[i+1:]...)
			return l, "drop-nonce"
		}
		i := r.Intn(len(a.BalanceChanges))
		a.BalanceChanges = append(a.BalanceChanges[:i], a.BalanceChanges[i+1:]...)
		return l, "drop-balance"
	case 20: // reorder two entries of a change list
		a := pickAcc(func(a *bal.AccountAccess) bool { return len(a.BalanceChanges) > 1 })
		if a == nil {
			break
		}
		i := r.Intn(len(a.BalanceChanges) - 1)
		a.BalanceChanges[i], a.BalanceChanges[i+1] = a.BalanceChanges[i+1], a.BalanceChanges[i]
		return l, "reorder-balance"
	case 21: // extra balance change repeating the previous value (no net change)
		a := pickAcc(func(a *bal.AccountAccess) bool { return len(a.BalanceChanges) > 0 })
		if a == nil {
			break
		}
		last := a.BalanceChanges[len(a.BalanceChanges)-1]
		if int(last.BlockAccessIndex) >= n+1 {
			break
		}
		a.BalanceChanges = append(a.BalanceChanges, bal.C33BalanceChange{BlockAccessIndex: last.BlockAccessIndex + 1, PostBalance: cloneBig(last.PostBalance)})
		return l, "repeat-balance"
	}
	_ = any
	// fallback: add an empty fresh account
	a := bal.AccountAccess{Address: common.BytesToAddress(append([]byte{0xed}, r.Bytes(5)...))}
	L = append(L, a)
	sort.Slice(L, func(i, j int) bool { return bytes.Compare(L[i].Address[:], L[j].Address[:]) < 0 })
	*l = L
	return l, "add-empty-account"
}

func build(seed uint64, nmut int) (res *built, err error) {
	world()
	defer func() {
		if e := recover(); e != nil {
			err = fmt.Errorf("build panic: %v", e)
		}
	}()
	r := NewRng(seed)
	tags := map[string]bool{}
	engine := beacon.New(ethash.NewFaker())
	_, blocks, _ := core.GenerateChainWithGenesis(gspec, engine, 1, func(_ int, g *core.BlockGen) {
		g.SetCoinbase(coinbase)
		fillBlock(seed, r, g, tags)
	})
	block := blocks[0]
	if block.AccessList() == nil {
		return nil, fmt.Errorf("generated block has no access list")
	}
	bc := getChain()
	phases, post, merged, err := derive(bc, block)
	if err != nil {
		return nil, err
	}
	if merged.ToEncodingObj().Hash() != block.AccessList().Hash() {
		return nil, fmt.Errorf("derived access list differs from the block's")
	}
	b := &built{seed: seed, block: block, n: len(block.Transactions()), phases: phases, trueBal: block.AccessList()}
	// mutations
	mr := r.Fork()
	for len(b.muts) < nmut {
		l, kind := mutate(mr, b.trueBal, b.n)
		adj := 0
		if !mr.Chance(1, 8) {
			adj = 1 + mr.Intn(2)
		}
		b.muts = append(b.muts, mutation{adj: adj, kind: kind, list: l})
	}
	// key universe: everything touched + everything a mutated list mentions
	seen := map[string]bool{}
	var ks []string
	add := func(k string) {
		if keyTag(k) != tagTouch && !seen[k] {
			seen[k] = true
			ks = append(ks, k)
		}
	}
	for _, p := range phases {
		for _, d := range p.dep {
			add(d.k)
		}
		for _, w := range p.writes {
			add(w.k)
		}
	}
	for _, k := range flatten(b.trueBal).keys() {
		add(k)
	}
	for _, m := range b.muts {
		for _, k := range flatten(m.list).keys() {
			add(k)
		}
	}
	sort.Strings(ks)
	parent, err := bc.StateAt(bc.GetHeader(block.ParentHash(), 0))
	if err != nil {
		return nil, err
	}
	for _, k := range ks {
		b.pre = append(b.pre, kv{k, stateVal(parent, k)})
		b.post = append(b.post, kv{k, stateVal(post, k)})
	}
	// schedule of the model's workers
	b.workers = r.Range(1, 16)
	cursor, holding, done := 0, map[int]int{}, 0
	for done < b.n {
		w := r.Intn(b.workers)
		if i, ok := holding[w]; ok {
			_ = i
			delete(holding, w)
			b.sched = append(b.sched, [2]int{w, 1})
			done++
		} else if cursor < b.n {
			holding[w] = cursor
			cursor++
			b.sched = append(b.sched, [2]int{w, 0})
		}
	}
	for t := range tags {
		b.tags = append(b.tags, t)
	}
	sort.Strings(b.tags)
	return b, nil
}

func (b *built) caseSx(nmut int) Sx {
	var steps []Sx
	for _, p := range b.phases {
		var rd []Sx
		for _, k := range p.reads {
			rd = append(rd, B([]byte(k)))
		}
		steps = append(steps, L(kvsSx(p.dep), L(rd...), kvsSx(p.writes),
			L(Bool(p.ok), U(p.gl), U(p.exec), U(p.sgas), U(p.used), U(p.nlogs)), B(p.out)))
	}
	var sch []Sx
	for _, s := range b.sched {
		sch = append(sch, L(I(int64(s[0])), I(int64(s[1]))))
	}
	var ms []Sx
	for _, m := range b.muts {
		ms = append(ms, L(I(int64(m.adj)), flatten(m.list).sx()))
	}
	return L(U(b.seed), I(int64(nmut)), U(b.block.GasLimit()), kvsSx(b.pre), L(steps...), L(sch...),
		flatten(b.trueBal).sx(), L(ms...))
}

// ---------------------------------------------------------------- running the real thing

// jitterCache is a thread-safe JumpDestCache that yields/sleeps pseudo-randomly: the
// only seam through which the harness can perturb the workers' interleaving.
type jitterCache struct {
	mu  sync.Mutex
	m   map[common.Hash]vm.BitVec
	ctr atomic.Uint64
	on  bool
}

func (j *jitterCache) jitter() {
	if !j.on {
		return
	}
	c := j.ctr.Add(1) * 0x9E3779B97F4A7C15
	switch (c >> 60) & 7 {
	case 0, 1:
		runtime.Gosched()
	case 2:
		time.Sleep(time.Duration((c>>50)&63) * time.Microsecond)
	}
}
func (j *jitterCache) Load(h common.Hash) (vm.BitVec, bool) {
	j.jitter()
	j.mu.Lock()
	defer j.mu.Unlock()
	v, ok := j.m[h]
	return v, ok
}
func (j *jitterCache) Store(h common.Hash, v vm.BitVec) {
	j.jitter()
	j.mu.Lock()
	defer j.mu.Unlock()
	j.m[h] = v
}

type outcome struct {
	err      error
	res      *core.ProcessResult
	st       *state.StateDB
	root     common.Hash
	rcRoot   common.Hash
	bloom    types.Bloom
	balHash  common.Hash
	reqHash  common.Hash
	gas      uint64
}

func process(bc *core.BlockChain, block *types.Block, parallel bool, workers int, jit bool) *outcome {
	st, err := bc.StateAt(bc.GetHeader(block.ParentHash(), block.NumberU64()-1))
	if err != nil {
		return &outcome{err: err}
	}
	old := runtime.GOMAXPROCS(0)
	if parallel {
		runtime.GOMAXPROCS(workers)
		defer runtime.GOMAXPROCS(old)
	}
	jc := &jitterCache{m: map[common.Hash]vm.BitVec{}, on: jit}
	res, err := core.NewStateProcessor(bc).Process(context.Background(), block, st, jc, nil, vm.Config{DisableParallelExecution: !parallel}, nil)
	if err != nil {
		return &outcome{err: err}
	}
	o := &outcome{res: res, st: st, gas: res.GasUsed}
	o.root = st.IntermediateRoot(cfg.Rules(block.Number(), true, block.Time()))
	o.rcRoot = types.DeriveSha(res.Receipts, trie.NewStackTrie(nil))
	o.bloom = types.MergeBloom(res.Receipts)
	o.balHash = res.Bal.ToEncodingObj().Hash()
	if res.Requests != nil {
		o.reqHash = types.CalcRequestsHash(res.Requests)
	}
	return o
}

func (o *outcome) obs(pre []kv) Sx {
	if o.err != nil {
		return L()
	}
	var rcs []Sx
	for _, rc := range o.res.Receipts {
		var li []Sx
		for _, lg := range rc.Logs {
			li = append(li, U(uint64(lg.Index)))
		}
		rcs = append(rcs, L(B(receiptOut(rc)), U(rc.GasUsed), U(rc.CumulativeGasUsed), L(li...)))
	}
	var vals []Sx
	for _, e := range pre {
		vals = append(vals, B(stateVal(o.st, e.k)))
	}
	return L(L(L(rcs...), U(o.gas), flatten(o.res.Bal.ToEncodingObj()).sx(), B(requestsOut(o.res.Requests)), L(vals...)))
}

func errClass(err error) int {
	s := err.Error()
	switch {
	case strings.HasPrefix(s, "invalid gas used"):
		return 3
	case strings.HasPrefix(s, "invalid bloom"), strings.HasPrefix(s, "invalid receipt root"):
		return 4
	case strings.HasPrefix(s, "invalid requests hash"), strings.HasPrefix(s, "block has requests"):
		return 5
	case strings.HasPrefix(s, "access list hash mismatch"), strings.HasPrefix(s, "invalid block access list"),
		strings.HasPrefix(s, "block access list"):
		return 6
	case strings.HasPrefix(s, "invalid merkle root"):
		return 7
	}
	return 8
}

// the validation pipeline of BlockChain.ProcessBlock: ValidateBody, Process, ValidateState
func pipeline(bc *core.BlockChain, blk *types.Block, workers int) int {
	if err := bc.Validator().ValidateBody(blk); err != nil {
		return 1
	}
	st, err := bc.StateAt(bc.GetHeader(blk.ParentHash(), blk.NumberU64()-1))
	if err != nil {
		return 8
	}
	old := runtime.GOMAXPROCS(workers)
	res, err := bc.Processor().Process(context.Background(), blk, st, nil, nil, vm.Config{}, nil)
	runtime.GOMAXPROCS(old)
	if err != nil {
		return 2
	}
	if err := bc.Validator().ValidateState(blk, st, res, false); err != nil {
		return errClass(err)
	}
	return 0
}

// withList attaches the list; adj >= 1: the header commits to it; adj == 2: the header's
// state root is the root ApplyBlockAccessList derives from it (a fully self-consistent lie)
func withList(bc *core.BlockChain, block *types.Block, l *bal.BlockAccessList, adj int, valid bool) *types.Block {
	h := block.Header()
	if adj >= 1 {
		hash := l.Hash()
		h.BlockAccessListHash = &hash
	}
	if adj == 2 && valid {
		if st, err := bc.StateAt(bc.GetHeader(block.ParentHash(), block.NumberU64()-1)); err == nil {
			if err := st.ApplyBlockAccessList(l); err == nil {
				h.Root = st.IntermediateRoot(cfg.Rules(block.Number(), true, block.Time()))
			}
		}
	}
	return types.NewBlockWithHeader(h).WithBody(*block.Body()).WithAccessListUnsafe(l)
}

// first block-access index whose recorded reads see a different value through the real
// ReaderWithBlockLevelAccessList built on the mutated list; -1 if none
func affected(base state.Reader, b *built, l *bal.BlockAccessList) int {
	lookup := l.Lookup()
	for i, p := range b.phases {
		rd := state.NewReaderWithBlockLevelAccessList(base, lookup, i)
		accs := map[common.Address]*types.StateAccount{}
		for _, d := range p.dep {
			a := keyAddr(d.k)
			if keyTag(d.k) == tagSlot {
				v, err := rd.Storage(a, keySlot(d.k))
				if err != nil || !bytes.Equal(v[:], d.v) {
					return i
				}
				continue
			}
			acc, ok := accs[a]
			if !ok {
				var err error
				acc, err = rd.Account(a)
				if err != nil {
					return i
				}
				if acc == nil {
					acc = types.NewEmptyStateAccount()
				}
				accs[a] = acc
			}
			switch keyTag(d.k) {
			case tagBal:
				if !bytes.Equal(u256b(acc.Balance), d.v) {
					return i
				}
			case tagNonce:
				if !bytes.Equal(u64b(acc.Nonce), d.v) {
					return i
				}
			case tagCode:
				want := types.EmptyCodeHash
				if len(d.v) > 0 {
					want = crypto.Keccak256Hash(d.v)
				}
				if !bytes.Equal(acc.CodeHash, want[:]) {
					return i
				}
				if code := rd.Code(a, common.BytesToHash(acc.CodeHash)); !bytes.Equal(code, d.v) {
					return i
				}
			}
		}
	}
	return -1
}

// balShapeTags describes which kinds of mutation the accounts of the true access list
// carry ("acct:nonce" = an account whose only changes are nonce changes), and which of
// them change at two or more block-access indices ("multi:..."): the accounts through
// which a later transaction can depend on an earlier one.
func balShapeTags(l *bal.BlockAccessList) []string {
	seen := map[string]bool{}
	isSender := map[common.Address]bool{}
	for _, a := range eoas {
		isSender[a] = true
	}
	for i := range *l {
		a := &(*l)[i]
		var ks []string
		idx := map[uint32]bool{}
		if len(a.BalanceChanges) > 0 {
			ks = append(ks, "balance")
			for _, c := range a.BalanceChanges {
				idx[c.BlockAccessIndex] = true
			}
		}
		if len(a.NonceChanges) > 0 {
			ks = append(ks, "nonce")
			for _, c := range a.NonceChanges {
				idx[c.BlockAccessIndex] = true
			}
		}
		if len(a.CodeChanges) > 0 {
			ks = append(ks, "code")
			for _, c := range a.CodeChanges {
				idx[c.BlockAccessIndex] = true
			}
		}
		if len(a.StorageChanges) > 0 {
			ks = append(ks, "storage")
			for _, sc := range a.StorageChanges {
				for _, c := range sc.SlotChanges {
					idx[c.BlockAccessIndex] = true
				}
			}
		}
		if len(ks) == 0 || isSender[a.Address] {
			continue
		}
		k := strings.Join(ks, "+")
		seen["acct:"+k] = true
		if len(idx) >= 2 {
			seen["multi:"+k] = true
		}
	}
	var out []string
	for k := range seen {
		out = append(out, k)
	}
	return out
}

var lastBuilt *built // the most recent build (shrinking re-runs the same seed many times)

func run(c Sx) Result {
	// A case is either the full form emitted by Gen, or the short form (seed nmut), which
	// carries no tables for the model and is what failing cases shrink to in replays.
	cl := AsList(c)
	if len(cl) != 2 && len(cl) != 8 {
		panic("hxlib: a c33 case has 2 or 8 elements")
	}
	seed, nmut := AsU64(cl[0]), AsInt(cl[1])
	if nmut < 0 || nmut > 256 {
		panic("hxlib: bad mutation count")
	}
	var b *built
	if lastBuilt != nil && lastBuilt.seed == seed && len(lastBuilt.muts) == nmut {
		b = lastBuilt
	} else {
		var err error
		b, err = build(seed, nmut)
		if err != nil {
			if len(cl) == 2 {
				panic("hxlib: seed does not build a block: " + err.Error())
			}
			return Result{Obs: L(), Oracle: "cannot rebuild the block: " + err.Error()}
		}
		lastBuilt = b
	}
	if len(cl) == 8 && String(b.caseSx(nmut)) != String(c) {
		// a hand-edited / shrunk case, or an implementation whose execution is not a
		// function of the block: not a case this harness can judge
		panic("hxlib: the tables of the case are not the ones its seed derives from the implementation")
	}
	bc := getChain()
	block := b.block
	var oracle []string
	fail := func(f string, a ...any) { oracle = append(oracle, fmt.Sprintf(f, a...)) }

	// sequential and parallel processors
	seq := process(bc, block, false, 1, false)
	if seq.err != nil {
		fail("sequential processor failed: %v", seq.err)
	} else {
		if seq.root != block.Root() || seq.gas != block.GasUsed() || seq.rcRoot != block.ReceiptHash() ||
			seq.balHash != *block.BlockAccessListHash() || seq.bloom != block.Bloom() {
			fail("sequential re-execution does not reproduce the generated block")
		}
	}
	counts := []int{1, b.workers}
	if nmut >= 48 { // thorough
		counts = nil
		for w := 1; w <= 16; w++ {
			counts = append(counts, w)
		}
	} else {
		r := NewRng(seed ^ 0xabcdef)
		counts = append(counts, r.Range(2, 16), r.Range(2, 16))
	}
	var parObs Sx = L()
	captured := false
	for ci, w := range counts {
		par := process(bc, block, true, w, ci != 0)
		if w == b.workers && !captured { // the observation compared with the model
			parObs = par.obs(b.pre)
			captured = true
		}
		if (par.err == nil) != (seq.err == nil) {
			fail("workers=%d: parallel err=%v sequential err=%v", w, par.err, seq.err)
			continue
		}
		if par.err != nil {
			continue
		}
		if par.root != seq.root {
			fail("workers=%d: state root parallel %x != sequential %x", w, par.root, seq.root)
		}
		if par.gas != seq.gas {
			fail("workers=%d: gas used parallel %d != sequential %d", w, par.gas, seq.gas)
		}
		if par.rcRoot != seq.rcRoot || par.bloom != seq.bloom {
			fail("workers=%d: receipts differ", w)
		}
		if par.balHash != seq.balHash {
			fail("workers=%d: rebuilt access list differs", w)
		}
		if par.reqHash != seq.reqHash || (par.res.Requests == nil) != (seq.res.Requests == nil) {
			fail("workers=%d: requests differ", w)
		}
		if String(par.obs(b.pre)) != String(seq.obs(b.pre)) {
			fail("workers=%d: receipts / access list / post-state values differ", w)
		}
	}
	if c := pipeline(bc, block, b.workers); c != 0 {
		fail("the unmodified block is rejected (class %d)", c)
	}

	// mutated access lists
	parentState, _ := bc.StateAt(bc.GetHeader(block.ParentHash(), 0))
	base := parentState.Reader()
	var mobs []Sx
	rejected, affectedN := 0, 0
	kinds := map[string]bool{}
	for mi, m := range b.muts {
		same := m.list.Hash() == b.trueBal.Hash()
		valid := m.list.Validate(block.GasLimit(), b.n) == nil
		blk := withList(bc, block, m.list, m.adj, valid)
		class := pipeline(bc, blk, 1+mi%16)
		if same {
			if class != 0 {
				fail("mutation %d (%s): an unchanged access list is rejected (class %d)", mi, m.kind, class)
			}
		} else {
			if class == 0 {
				fail("mutation %d (%s, header adjustment=%d): a block with a wrong access list is ACCEPTED", mi, m.kind, m.adj)
			} else {
				rejected++
			}
			if mi%3 == 0 {
				if _, err := bc.InsertChain(types.Blocks{blk}); err == nil {
					fail("mutation %d (%s): InsertChain accepted a block with a wrong access list", mi, m.kind)
					dropChain()
					bc = getChain()
				}
			}
		}
		kinds[m.kind] = true
		if !valid {
			if class != 1 {
				fail("mutation %d (%s): list fails Validate but ValidateBody let it through (class %d)", mi, m.kind, class)
			}
			mobs = append(mobs, L(I(0)))
			continue
		}
		aff := affected(base, b, m.list)
		// state installed by ApplyBlockAccessList(mutated list)
		rootEq := false
		if st, err := bc.StateAt(bc.GetHeader(block.ParentHash(), 0)); err == nil {
			if err := st.ApplyBlockAccessList(m.list); err == nil {
				rootEq = st.IntermediateRoot(cfg.Rules(block.Number(), true, block.Time())) == block.Root()
			}
		}
		if aff >= 0 {
			affectedN++
			if class != 0 && class != 1 {
				class = 9
			}
		}
		mobs = append(mobs, L(I(1), I(int64(aff)), I(int64(class)), Bool(rootEq)))
	}
	tags := append([]string{}, b.tags...)
	tags = append(tags, fmt.Sprintf("txs=%d", b.n), fmt.Sprintf("workers=%d", b.workers))
	tags = append(tags, balShapeTags(b.trueBal)...)
	for k := range kinds {
		tags = append(tags, "mut:"+k)
	}
	sort.Strings(tags)
	obs := L(seq.obs(b.pre), parObs, L(mobs...))
	return Result{Obs: obs, Oracle: strings.Join(oracle, "; "), Tags: tags,
		NonTrivial: b.n >= 2 && rejected >= 5 && rejected*3 >= 2*len(b.muts) && affectedN >= 1}
}

func gen(r *Rng, tier string, emit func(Sx)) {
	world()
	r = NewRng(r.U64())
	ncases, nmut, nvar, smut := 6, 32, 1, 16
	if tier == "thorough" {
		ncases, nmut, nvar, smut = 80, 48, 5, 48
	}
	one := func(seed uint64, nm int) {
		b, err := build(seed, nm)
		if err != nil {
			return
		}
		emit(b.caseSx(nm))
	}
	// C33_SEEDS=s1,s2,...: emit exactly these seeds (used to (re)build corpus/C33)
	if env := os.Getenv("C33_SEEDS"); env != "" {
		for _, f := range strings.Split(env, ",") {
			var sd uint64
			fmt.Sscan(f, &sd)
			one(sd, 8)
		}
		return
	}
	// the hand-built dependency scenarios (seed = id + nScen*variant), then random blocks
	for v := 0; v < nvar; v++ {
		for id := 0; id < nScen; id++ {
			one(uint64(id+nScen*r.Intn(scenSeeds/nScen)), smut)
		}
	}
	for i := 0; i < ncases; i++ {
		one(scenSeeds+r.U64()>>1, nmut)
	}
}

func main() {
	Main(Family{
		ID: "c33",
		Rule: "Amsterdam blocks on a fixed genesis: 14 hand-built dependency scenarios through accounts that are not " +
			"senders (nonce-only CREATE / CREATE2 factories, EIP-7702 authorities delegating / re-delegating / clearing, " +
			"a balance-only contract that forwards from its balance, code deployed then called / hashed, storage-only " +
			"chains, balance-only sinks, mixes, an empty block, a single tx) with random variants, and random blocks of " +
			"2-9 txs over 17 transaction kinds (plus selfdestruct factory, creates, transfers to the coinbase / fresh " +
			"accounts, withdrawals); per block 16-32 mutated access lists (48 thorough); non-trivial: >= 2 txs, >= 2/3 of " +
			"the mutations rejected (>= 5), >= 1 mutation that changes a view a transaction reads",
		Gen:         gen,
		Run:         run,
		CaseTimeout: 300 * time.Second,
	})
}
