// Family c25: migration of chain data from the key-value store into the chain
// freezer (core/rawdb/chain_freezer.go, accessors_chain.go, database.go) vs
// coq/Storage/ChainFreezer.v.
//
// A case is a block tree (canonical chain + side branches, written with
// rawdb.Write*) and a list of events: move the head/finalized markers, run one
// iteration of the freezer loop, or interrupt an iteration at one of its
// persistence actions and crash + reopen.  The real database is
// rawdb.Open(memory KV, temp ancient dir); the freezer goroutine is stopped
//   - at the start of every iteration (its first key-value read, "LastBlock"),
//   - after ModifyAncients and after SyncAncient (the ancient store behind the
//     database is wrapped through rawdb.VerifWrapAncientStore),
//   - before and after every batch.Write() of the key-value store (wrapped),
//
// and at every stop every chain accessor is read for every block of the tree.
// A crash copies the key-value store as it is (batches are atomic) and the
// freezer directory either as it is, or as it was at the last SyncAncient (for
// all tables or for a random non-empty subset of them), and reopens.
package main

import (
	"bytes"
	"encoding/binary"
	"errors"
	"fmt"
	"io"
	"math/big"
	"os"
	"path/filepath"
	"runtime"
	"strings"
	"sync/atomic"
	"time"

	. "gethverif/harness/hxlib"
	"github.com/ethereum/go-ethereum/common"
	"github.com/ethereum/go-ethereum/core/rawdb"
	"github.com/ethereum/go-ethereum/core/types"
	"github.com/ethereum/go-ethereum/crypto"
	"github.com/ethereum/go-ethereum/ethdb"
	"github.com/ethereum/go-ethereum/ethdb/memorydb"
	"github.com/ethereum/go-ethereum/ethdb/pebble"
	"github.com/ethereum/go-ethereum/rlp"
)

// ---------------------------------------------------------------- blocks

const (
	fCanon   = 1
	fNoHdr   = 2
	fNoBody  = 4
	fNoRcpt  = 8
	fBal     = 16
	fTxl     = 32
	fGarbage = 64 // the stored header is not a decodable header
)

type blk struct {
	num       uint64
	parentIdx int
	seed      uint64
	ntx       int
	flags     int

	hash     common.Hash
	hdrRLP   []byte
	parent   *common.Hash // decoded parent hash (nil if undecodable)
	body     *types.Body
	receipts types.Receipts
	bal      []byte
	txs      []common.Hash
}

func build(bs []*blk) {
	for i, b := range bs {
		var ph common.Hash
		if b.parentIdx >= 0 && b.parentIdx < i {
			ph = bs[b.parentIdx].hash
		} else if b.num > 0 {
			binary.BigEndian.PutUint64(ph[:8], b.seed^0xabcdef)
			ph[31] = 1
		}
		var ext [8]byte
		binary.BigEndian.PutUint64(ext[:], b.seed)
		if b.flags&fGarbage != 0 {
			b.hdrRLP = append([]byte{0xc9, 0x88}, ext[:]...) // a list holding one string
			b.hash = crypto.Keccak256Hash(b.hdrRLP)
			b.parent = nil
		} else {
			h := &types.Header{ParentHash: ph, Number: new(big.Int).SetUint64(b.num), Extra: ext[:],
				Difficulty: big.NewInt(1), GasLimit: 1000000, Time: b.num}
			b.hdrRLP, _ = rlp.EncodeToBytes(h)
			b.hash = h.Hash()
			p := ph
			b.parent = &p
		}
		var txs types.Transactions
		b.txs = nil
		to := common.Address{1}
		for j := 0; j < b.ntx; j++ {
			tx := types.NewTx(&types.LegacyTx{Nonce: b.seed*16 + uint64(j), Gas: 21000, GasPrice: big.NewInt(1), To: &to, Value: new(big.Int)})
			txs = append(txs, tx)
			b.txs = append(b.txs, tx.Hash())
		}
		b.body = &types.Body{Transactions: txs, Withdrawals: []*types.Withdrawal{{Index: b.seed}}}
		b.receipts = nil
		for j := 0; j < b.ntx; j++ {
			b.receipts = append(b.receipts, &types.Receipt{Status: 1, CumulativeGasUsed: uint64(j+1)*21000 + b.seed%1000, Logs: []*types.Log{}})
		}
		b.bal = nil
		if b.flags&fBal != 0 {
			b.bal = append([]byte{0xc9, 0x88}, ext[:]...)
		}
	}
}

// writeBlock performs the rawdb.Write* calls for one block (block order = case order).
func writeBlock(db ethdb.KeyValueWriter, b *blk) {
	if b.flags&fCanon != 0 {
		rawdb.WriteCanonicalHash(db, b.hash, b.num)
	}
	if b.flags&fNoHdr == 0 {
		if b.flags&fGarbage != 0 {
			rawdb.WriteHeaderNumber(db, b.hash, b.num)
			db.Put(rawdb.VerifHeaderKey(b.num, b.hash), b.hdrRLP)
		} else {
			var h types.Header
			rlp.DecodeBytes(b.hdrRLP, &h)
			rawdb.WriteHeader(db, &h)
		}
	}
	if b.flags&fNoBody == 0 {
		rawdb.WriteBody(db, b.hash, b.num, b.body)
	}
	if b.flags&fNoRcpt == 0 {
		rawdb.WriteReceipts(db, b.hash, b.num, b.receipts)
	}
	if b.flags&fBal != 0 {
		rawdb.WriteAccessListRLP(db, b.hash, b.num, b.bal)
	}
	if b.flags&fTxl != 0 && b.num != 0 {
		rawdb.WriteTxLookupEntries(db, b.num, b.txs)
	}
}

func hashN(h common.Hash) uint64 { return binary.BigEndian.Uint64(h[:8]) }
func tok(b []byte, n int) []byte {
	if len(b) == 0 {
		return []byte{}
	}
	return crypto.Keccak256(b)[:n]
}

// ---------------------------------------------------------------- gates

// goid returns the id of the calling goroutine (the gates apply to the freezer
// goroutine only; Open's error path reads the head block key on the caller's).
func goid() string {
	var buf [64]byte
	n := runtime.Stack(buf[:], false)
	f := strings.Fields(string(buf[:n]))
	if len(f) >= 2 {
		return f[1]
	}
	return ""
}

type driver struct {
	owner  string
	ev     chan string
	res    chan struct{}
	free   atomic.Bool
	dead   atomic.Bool
	writes int
}

func newDriver() *driver {
	return &driver{owner: goid(), ev: make(chan string), res: make(chan struct{})}
}

func (d *driver) gate(name string) {
	if d.free.Load() {
		return
	}
	d.ev <- name
	<-d.res
}

var errDead = errors.New("instance crashed")

type gateKV struct {
	ethdb.KeyValueStore
	d *driver
}

func (g *gateKV) Get(key []byte) ([]byte, error) {
	if bytes.Equal(key, rawdb.VerifHeadBlockKey()) && goid() != g.d.owner {
		g.d.writes = 0
		g.d.gate("start")
	}
	if g.d.dead.Load() {
		return nil, errDead
	}
	return g.KeyValueStore.Get(key)
}
func (g *gateKV) NewBatch() ethdb.Batch {
	return &gateBatch{Batch: g.KeyValueStore.NewBatch(), d: g.d}
}
func (g *gateKV) NewBatchWithSize(size int) ethdb.Batch {
	return &gateBatch{Batch: g.KeyValueStore.NewBatchWithSize(size), d: g.d}
}
func (g *gateKV) Close() error { return nil } // the inner store outlives the instance

type gateBatch struct {
	ethdb.Batch
	d *driver
}

func (b *gateBatch) Write() error {
	b.d.writes++
	n := b.d.writes
	b.d.gate(fmt.Sprintf("w%dpre", n))
	var err error
	if !b.d.dead.Load() {
		err = b.Batch.Write()
	}
	b.d.gate(fmt.Sprintf("w%dpost", n))
	return err
}

type gateAnc struct {
	ethdb.AncientStore
	d *driver
}

func (a *gateAnc) ModifyAncients(fn func(ethdb.AncientWriteOp) error) (int64, error) {
	n, err := a.AncientStore.ModifyAncients(fn)
	if err == nil {
		a.d.gate("append")
	} else {
		a.d.gate("appenderr")
	}
	return n, err
}
func (a *gateAnc) SyncAncient() error {
	err := a.AncientStore.SyncAncient()
	a.d.gate("sync")
	return err
}

// ---------------------------------------------------------------- instance

type inst struct {
	d     *driver
	db    ethdb.Database
	root  string
	tdone chan struct{} // pending Freeze() call, if any
}

func tmpRoot() string {
	base := ""
	if st, err := os.Stat("/dev/shm"); err == nil && st.IsDir() {
		base = "/dev/shm"
	}
	dir, err := os.MkdirTemp(base, "c25-")
	if err != nil {
		dir, err = os.MkdirTemp("", "c25-")
		if err != nil {
			panic("hxlib: cannot create temp dir: " + err.Error())
		}
	}
	return dir
}

// open opens the database over the shared inner store and waits until the
// freezer goroutine is parked at the start of its first iteration.
func open(inner ethdb.KeyValueStore, root string) (*inst, error) {
	d := newDriver()
	// Open prints a "Chain metadata" table to os.Stderr on its error paths
	saved := os.Stderr
	if null, e := os.OpenFile(os.DevNull, os.O_WRONLY, 0); e == nil {
		os.Stderr = null
		defer func() { os.Stderr = saved; null.Close() }()
	}
	db, err := rawdb.Open(&gateKV{KeyValueStore: inner, d: d}, rawdb.OpenOptions{Ancient: root})
	if err != nil {
		return nil, err
	}
	if g := <-d.ev; g != "start" {
		panic("hxlib: unexpected first gate " + g)
	}
	if !rawdb.VerifWrapAncientStore(db, func(s ethdb.AncientStore) ethdb.AncientStore { return &gateAnc{AncientStore: s, d: d} }) {
		panic("hxlib: not a freezer database")
	}
	return &inst{d: d, db: db, root: root}, nil
}

func (in *inst) resume() { in.d.res <- struct{}{} }

// runCycle: precondition parked at "start". Runs the iteration, calling at(g) at
// every gate; stops (staying parked) when at returns true. Returns true if the
// iteration completed (the goroutine is then parked at the next "start").
func (in *inst) runCycle(at func(g string) bool) bool {
	done := make(chan struct{})
	prev := in.tdone
	go func() {
		in.db.(interface{ Freeze() error }).Freeze()
		close(done)
	}()
	in.tdone = done
	_ = prev
	in.resume()
	for {
		g := <-in.d.ev
		if g == "start" {
			return true
		}
		if at(g) {
			return false
		}
		in.resume()
	}
}

// kill abandons the instance (it is parked at some gate): all further effects on
// the key-value store are dropped, its goroutines are drained and it is closed.
func (in *inst) kill() {
	in.d.dead.Store(true)
	in.d.free.Store(true)
	in.resume()
	if in.tdone != nil {
		<-in.tdone
	}
	in.db.Close()
}

func copyTree(src, dst string) {
	filepath.Walk(src, func(p string, info os.FileInfo, err error) error {
		if err != nil {
			return nil
		}
		rel, _ := filepath.Rel(src, p)
		t := filepath.Join(dst, rel)
		if info.IsDir() {
			os.MkdirAll(t, 0o755)
			return nil
		}
		if info.Name() == "FLOCK" {
			return nil
		}
		in, err := os.Open(p)
		if err != nil {
			return nil
		}
		defer in.Close()
		out, err := os.Create(t)
		if err != nil {
			return nil
		}
		io.Copy(out, in)
		out.Close()
		return nil
	})
}

var tables = []string{"headers", "hashes", "bodies", "receipts", "bals"}

// crashDir builds the freezer directory found after a crash.
func crashDir(cur, dur string, mode int, sel uint64) string {
	dst := tmpRoot()
	switch mode {
	case 0:
		copyTree(cur, dst)
	case 1:
		copyTree(dur, dst)
	default:
		copyTree(cur, dst)
		mask := int((sel-2)%31) + 1 // non-empty subset of the five tables
		for i, t := range tables {
			if mask&(1<<i) == 0 {
				continue
			}
			chain := filepath.Join(dst, "chain")
			es, _ := os.ReadDir(chain)
			for _, e := range es {
				if strings.HasPrefix(e.Name(), t+".") {
					os.Remove(filepath.Join(chain, e.Name()))
				}
			}
			des, _ := os.ReadDir(filepath.Join(dur, "chain"))
			for _, e := range des {
				if strings.HasPrefix(e.Name(), t+".") {
					b, _ := os.ReadFile(filepath.Join(dur, "chain", e.Name()))
					os.WriteFile(filepath.Join(chain, e.Name()), b, 0o644)
				}
			}
		}
	}
	return dst
}

func openClass(err error) int64 {
	s := err.Error()
	switch {
	case strings.Contains(s, "failed to retrieve genesis"):
		return 1
	case strings.Contains(s, "genesis mismatch"):
		return 2
	case strings.Contains(s, "could not read header number"):
		return 3
	case strings.Contains(s, "gap in the chain"):
		return 4
	case strings.Contains(s, "ancient chain segments already extracted"):
		return 5
	}
	return 77
}

// ---------------------------------------------------------------- observation

func optN(ok bool, v uint64) Sx { return Opt(ok, U(v)) }

func readView(db ethdb.Database, b *blk) Sx {
	h, n := b.hash, b.num
	hdr := rawdb.ReadHeaderRLP(db, h, n)
	dec := rawdb.ReadHeader(db, h, n)
	var par Sx = SL{}
	if dec != nil {
		par = SL{U(hashN(dec.ParentHash))}
	}
	num, ok := rawdb.ReadHeaderNumber(db, h)
	return SL{
		U(hashN(rawdb.ReadCanonicalHash(db, n))), B(tok(hdr, 8)), Bool(rawdb.HasHeader(db, h, n)), par,
		B(tok(rawdb.ReadBodyRLP(db, h, n), 6)), B(tok(rawdb.ReadCanonicalBodyRLP(db, n, &h), 6)),
		B(tok(rawdb.ReadCanonicalBodyRLP(db, n, nil), 6)), Bool(rawdb.HasBody(db, h, n)),
		B(tok(rawdb.ReadReceiptsRLP(db, h, n), 6)), B(tok(rawdb.ReadCanonicalReceiptsRLP(db, n, &h), 6)),
		B(tok(rawdb.ReadCanonicalReceiptsRLP(db, n, nil), 6)), Bool(rawdb.HasReceipts(db, h, n)),
		B(tok(rawdb.ReadAccessListRLP(db, h, n), 6)), optN(ok, num),
	}
}

type state struct {
	frozen uint64
	views  []Sx
	hasbal []Sx
	txs    []Sx
}

func observe(db ethdb.Database, bs []*blk) state {
	var s state
	s.frozen, _ = db.Ancients()
	for _, b := range bs {
		s.views = append(s.views, readView(db, b))
		s.hasbal = append(s.hasbal, Bool(rawdb.HasAccessList(db, b.hash, b.num)))
	}
	for _, b := range bs {
		for _, th := range b.txs {
			tx, bh, bn, idx := rawdb.ReadCanonicalTransaction(db, th)
			if tx == nil {
				s.txs = append(s.txs, SL{})
			} else {
				if tx.Hash() != th {
					s.txs = append(s.txs, SL{I(-7)})
					continue
				}
				s.txs = append(s.txs, SL{SL{U(hashN(bh)), U(bn), U(idx)}})
			}
		}
	}
	return s
}

func (s state) sx(tag int64) Sx {
	return SL{I(tag), U(s.frozen), SL(s.views), SL(s.hasbal), SL(s.txs)}
}

// ---------------------------------------------------------------- run

var postGate = map[int]string{1: "append", 2: "sync", 3: "w1post", 4: "w2post", 5: "w3post"}
var lateGate = map[int]string{2: "w1pre", 3: "w2pre", 4: "w3pre"}
var gateIdx = map[string]int{"append": 1, "sync": 2, "w1post": 3, "w2post": 4, "w3post": 5}

func decodeCase(c Sx) (bs []*blk, evs []SL) {
	top := AsList(c)
	if len(top) != 2 {
		panic("hxlib: case shape")
	}
	for _, x := range AsList(top[0]) {
		f := AsList(x)
		if len(f) < 12 {
			panic("hxlib: block shape")
		}
		bs = append(bs, &blk{num: AsU64(f[0]), flags: AsInt(f[2]), parentIdx: AsInt(f[9]), seed: AsU64(f[10]), ntx: AsInt(f[11]) % 4})
	}
	for _, x := range AsList(top[1]) {
		evs = append(evs, AsList(x))
	}
	return
}

func run(c Sx) Result {
	if top := AsList(c); len(top) > 0 {
		if k, ok := top[0].(SI); ok && k.V.Int64() == 7 {
			return runBig(top)
		}
	}
	bs, evs := decodeCase(c)
	build(bs)
	var roots []string
	defer func() {
		for _, r := range roots {
			os.RemoveAll(r)
		}
	}()
	inner := memorydb.New()
	root := tmpRoot()
	roots = append(roots, root)
	in, err := open(inner, root)
	if err != nil {
		return Result{Obs: SL{I(-3)}, Oracle: "initial open failed: " + err.Error()}
	}
	defer func() {
		if in != nil {
			in.kill()
		}
	}()
	dur := tmpRoot()
	roots = append(roots, dur)
	copyTree(root, dur)

	for _, b := range bs {
		writeBlock(inner, b)
	}
	var (
		obs    SL
		oracle string
		tags   = map[string]bool{}
		fail   = func(f string, a ...interface{}) {
			if oracle == "" {
				oracle = fmt.Sprintf(f, a...)
			}
		}
		frozeAny = false
		known    string      // the recorded finding C25-leftover-below-boundary-after-crash
		torn     [][2]uint64 // ranges [first, frozen) whose iteration was crashed after SyncAncient, before its KV deletions completed
	)
	ref := observe(in.db, bs)
	obs = append(obs, ref.sx(0))

	// the precondition of the property (see coq/Storage/ChainFreezerProofs.v: Inv):
	// canonical headers are decodable and linked to the canonical parent
	wf := true
	canon := make([]bool, len(bs))
	hasSide := false
	for i, b := range bs {
		canon[i] = rawdb.ReadCanonicalHash(in.db, b.num) == b.hash
		if !canon[i] {
			hasSide = true
			continue
		}
		if b.num >= 1 && b.flags&fNoHdr == 0 {
			if b.parent == nil || *b.parent != rawdb.ReadCanonicalHash(in.db, b.num-1) {
				wf = false
			}
		}
	}
	if !wf {
		tags["nonwf"] = true
	}
	var last state = ref
	check := func(s state, where string) {
		if !wf {
			return
		}
		for i := range bs {
			if !canon[i] {
				continue
			}
			if String(s.views[i]) != String(ref.views[i]) {
				fail("accessors of canonical block #%d (index %d) changed at %s: before %s now %s", bs[i].num, i, where, String(ref.views[i]), String(s.views[i]))
			}
		}
		// a non-canonical block is either answered as before or gone, never altered
		for i := range bs {
			if canon[i] {
				continue
			}
			now, was := AsList(s.views[i]), AsList(ref.views[i])
			for _, j := range []int{1, 2, 3, 4, 7, 8, 11, 12, 13} {
				a, b := String(now[j]), String(was[j])
				if a != b && a != "x" && a != "()" && a != "0" {
					fail("accessor %d of side block #%d (index %d) altered at %s: before %s now %s", j, bs[i].num, i, where, b, a)
				}
			}
			if String(now[0]) != String(was[0]) {
				fail("canonical hash at height %d changed at %s", bs[i].num, where)
			}
		}
		if String(SL(s.txs)) != String(SL(ref.txs)) {
			fail("ReadCanonicalTransaction changed at %s", where)
		}
		// the frozen prefix is the canonical chain
		for n := uint64(0); n < s.frozen; n++ {
			h, err := in.db.Ancient(rawdb.ChainFreezerHashTable, n)
			want := common.Hash{}
			for i, b := range bs {
				if canon[i] && b.num == n {
					want = b.hash
				}
			}
			if err != nil || !bytes.Equal(h, want[:]) || want == (common.Hash{}) {
				fail("frozen item %d is not the canonical block at %s", n, where)
			}
		}
	}
	for ei, ev := range evs {
		if len(ev) == 0 {
			panic("hxlib: event shape")
		}
		switch AsInt(ev[0]) {
		case 0:
			if len(ev) != 4 {
				panic("hxlib: event shape")
			}
			set := func(x Sx, key string, wr func(common.Hash)) {
				v := AsU64(x)
				if v == 0 {
					inner.Delete([]byte(key))
					return
				}
				for _, b := range bs {
					if hashN(b.hash) == v {
						wr(b.hash)
						return
					}
				}
				var h common.Hash // unknown hash
				binary.BigEndian.PutUint64(h[:8], v)
				wr(h)
			}
			set(ev[1], "LastBlock", func(h common.Hash) { rawdb.WriteHeadBlockHash(inner, h) })
			set(ev[2], "LastHeader", func(h common.Hash) { rawdb.WriteHeadHeaderHash(inner, h) })
			set(ev[3], "LastFinalized", func(h common.Hash) { rawdb.WriteFinalizedBlockHash(inner, h) })
			s := observe(in.db, bs)
			obs = append(obs, s.sx(0))
			check(s, fmt.Sprintf("event %d (markers)", ei))
			last = s
		case 1, 2:
			stop, mode, late := -1, 0, false
			firstBefore := last.frozen
			tag := int64(1)
			if AsInt(ev[0]) == 2 {
				if len(ev) != 4 {
					panic("hxlib: event shape")
				}
				stop, mode, late = AsInt(ev[1]), AsInt(ev[2]), AsInt(ev[3])&1 == 1
				tag = 2
				if stop < 0 || stop > 5 || mode < 0 {
					panic("hxlib: event shape")
				}
			}
			stopGate := ""
			if stop > 0 {
				stopGate = postGate[stop]
				if g, ok := lateGate[stop]; ok && late {
					stopGate = g
				}
			}
			completed := true
			reached := 0
			appendErr := false
			if stop != 0 {
				completed = in.runCycle(func(g string) bool {
					if g == "appenderr" {
						appendErr = true
						return false
					}
					s := observe(in.db, bs)
					if idx, ok := gateIdx[g]; ok {
						if g == "sync" {
							os.RemoveAll(dur)
							copyTree(in.root, dur)
						}
						reached = idx
						obs = append(obs, s.sx(tag))
						check(s, fmt.Sprintf("event %d gate %s", ei, g))
						last = s
					} else if String(s.sx(0)) != String(last.sx(0)) {
						fail("state changed before %s without a persistence action (event %d)", g, ei)
					}
					return g == stopGate
				})
			}
			if reached >= 2 {
				frozeAny = true
				tags[fmt.Sprintf("froze%d", min(int(last.frozen), 9))] = true
			}
			if tag == 1 {
				// outcome class of the iteration
				cls := int64(0)
				switch {
				case reached > 0:
					cls = 0
				case appendErr:
					cls = 10 // freezeRange error (class not observable from outside)
				default:
					cls = 1 // backoff without touching anything
				}
				obs = append(obs, SL{I(9), I(cls)})
				tags[fmt.Sprintf("cycle-class%d", cls)] = true
				if reached > 0 {
					// side chains are removed below the boundary (C25_side_chains_removed_below) --
					// except in a range whose iteration was interrupted between SyncAncient and the
					// end of its deletions (C25_side_chains_survive_crash_refuted): known finding
					for n := uint64(1); n < last.frozen; n++ {
						hs := rawdb.ReadAllHashes(inner, n)
						if len(hs) == 0 {
							continue
						}
						inTorn := false
						for _, t := range torn {
							if t[0] <= n && n < t[1] {
								inTorn = true
							}
						}
						if inTorn {
							tags["leftover-below-boundary-after-crash"] = true
							if known == "" {
								known = fmt.Sprintf("C25-leftover-below-boundary-after-crash: %d block(s) left in the key-value store at height %d < frozen boundary %d after a completed iteration (event %d); the iteration that migrated this height was crashed after SyncAncient and before its deletions", len(hs), n, last.frozen, ei)
							}
						} else {
							fail("block data left in the key-value store below the frozen boundary at height %d after a completed iteration (event %d), not explained by an interrupted iteration", n, ei)
						}
					}
				}
				continue
			}
			// crash + reopen
			if !completed && (reached == 2 || reached == 3) && last.frozen > firstBefore {
				torn = append(torn, [2]uint64{firstBefore, last.frozen})
			}
			tags[fmt.Sprintf("crash-stop%d-mode%d", min(reached, stop), min(mode, 2))] = true
			nd := crashDir(in.root, dur, mode, uint64(mode))
			roots = append(roots, nd)
			in.kill()
			in = nil
			ni, err := open(inner, nd)
			if err != nil {
				obs = append(obs, SL{I(8), I(openClass(err))})
				tags["open-error"] = true
				if wf {
					// reopening must succeed when the head header marker is a canonical block
					hh := rawdb.ReadHeadHeaderHash(inner)
					for i, b := range bs {
						if canon[i] && b.hash == hh {
							fail("reopen after crash failed (event %d): %v", ei, err)
						}
					}
				}
				goto done
			}
			in = ni
			s := observe(in.db, bs)
			obs = append(obs, s.sx(2), SL{I(8), I(0)})
			check(s, fmt.Sprintf("event %d after crash+reopen", ei))
			last = s
		default:
			panic("hxlib: event kind")
		}
	}
done:
	if oracle == "" {
		oracle = known
	}
	var tl []string
	for t := range tags {
		tl = append(tl, t)
	}
	if hasSide {
		tl = append(tl, "side")
	}
	tl = append(tl, fmt.Sprintf("blocks%d", min(len(bs)/8, 5)))
	return Result{Obs: obs, Oracle: oracle, Tags: tl, NonTrivial: frozeAny && last.frozen > 1}
}

// ---------------------------------------------------------------- large-scale stream

// freezerBatchLimit of core/rawdb/chain_freezer.go (a constant of the implementation);
// the Coq model runs the same scenario with the limit 64 and both sides report block
// numbers relative to the limit (see coq/Run/C25.v, kind 7).
const bigL = 30000

func bigWindow(q, f, h uint64) []uint64 {
	var w []uint64
	for m := uint64(0); m <= q; m++ {
		if m == 0 {
			w = append(w, 0, 1, 2)
		} else {
			w = append(w, m*bigL-2, m*bigL-1, m*bigL, m*bigL+1, m*bigL+2)
		}
	}
	return append(w, f-1, f, f+1, f+2, h-1, h)
}

func runBig(top SL) Result {
	if len(top) != 6 {
		panic("hxlib: big case shape")
	}
	q, r, a, cycles := AsU64(top[1]), AsU64(top[2]), AsU64(top[3]), AsInt(top[4])
	if q < 1 || q > 3 || r+a >= 40 || a < 3 || cycles < 0 || cycles > 6 {
		return Result{Obs: SL{I(-1), I(2)}}
	}
	f := q*bigL + r - 1
	h := f + a
	var bs []*blk
	for n := uint64(0); n <= h; n++ {
		bs = append(bs, &blk{num: n, parentIdx: int(n) - 1, seed: n + 1, flags: fCanon})
	}
	nCanon := len(bs)
	for i, x := range AsList(top[5]) {
		sp := AsList(x)
		if len(sp) != 3 {
			panic("hxlib: big case shape")
		}
		p := int64(AsU64(sp[0]))*bigL + AsBig(sp[1]).Int64()
		if p < 0 || p > int64(h) {
			panic("hxlib: big case shape")
		}
		par := int(p)
		for j := 0; j < AsInt(sp[2])%8; j++ {
			bs = append(bs, &blk{num: uint64(p) + 1 + uint64(j), parentIdx: par, seed: 1<<40 + uint64(i)*1000 + uint64(j)})
			par = len(bs) - 1
		}
	}
	build(bs)
	// pebble, not memorydb: the freeze loop calls ReadAllHashes once per height and a
	// memorydb iterator copies and sorts the whole store each time
	kvdir := tmpRoot()
	defer os.RemoveAll(kvdir)
	inner, err := pebble.New(kvdir, 64, 64, "", false)
	if err != nil {
		panic("hxlib: cannot open pebble: " + err.Error())
	}
	defer inner.Close()
	root := tmpRoot()
	defer os.RemoveAll(root)
	in, err := open(inner, root)
	if err != nil {
		return Result{Obs: SL{I(-3)}, Oracle: "initial open failed: " + err.Error()}
	}
	defer in.kill()
	wb := inner.NewBatch()
	for _, b := range bs {
		writeBlock(wb, b)
		if wb.ValueSize() > 1<<20 {
			wb.Write()
			wb.Reset()
		}
	}
	wb.Write()
	rawdb.WriteHeadBlockHash(inner, bs[h].hash)
	rawdb.WriteHeadHeaderHash(inner, bs[h].hash)
	rawdb.WriteFinalizedBlockHash(inner, bs[f].hash)

	var oracle string
	fail := func(f string, a ...interface{}) {
		if oracle == "" {
			oracle = fmt.Sprintf(f, a...)
		}
	}
	ref := make([]string, len(bs))
	for i, b := range bs {
		ref[i] = String(readView(in.db, b))
	}
	nf := rawdb.NewDatabase(inner) // key-value store only
	win := bigWindow(q, f, h)
	var obs SL
	prevFrozen := uint64(0)
	for c := 0; c < cycles; c++ {
		reached, appendErr := false, false
		in.runCycle(func(g string) bool {
			if g == "appenderr" {
				appendErr = true
			} else {
				reached = true
			}
			return false
		})
		cls := int64(1)
		if reached {
			cls = 0
		} else if appendErr {
			cls = 10
		}
		frozen, _ := in.db.Ancients()
		// every block is re-read after a cycle that did something; after a no-op cycle only
		// the window, the side blocks and a sample are
		inWin := map[uint64]bool{}
		for _, w := range bigWindow(q, f, h) {
			inWin[w] = true
		}
		same := make([]bool, len(bs))
		for i, b := range bs {
			if reached || i >= nCanon || inWin[b.num] || i%97 == 0 {
				same[i] = String(readView(in.db, b)) == ref[i]
			} else {
				same[i] = true
			}
		}
		// ---- the property, checked directly
		thr := f
		want := prevFrozen
		if prevFrozen == 0 || prevFrozen-1 < thr {
			want = thr + 1
			if want-prevFrozen > bigL {
				want = prevFrozen + bigL
			}
		}
		if frozen != want {
			fail("Ancients() = %d after cycle %d, want min(threshold+1, first+limit) = %d", frozen, c+1, want)
		}
		for i := 0; i < nCanon; i++ {
			if !same[i] {
				fail("accessors of canonical block #%d changed by freeze cycle %d (frozen %d, threshold %d): before %s now %s", bs[i].num, c+1, frozen, thr, ref[i], String(readView(in.db, bs[i])))
				break
			}
		}
		for n := uint64(0); n < frozen && n <= h; n += 1 + frozen/64 {
			hh, err := in.db.Ancient(rawdb.ChainFreezerHashTable, n)
			if err != nil || !bytes.Equal(hh, bs[n].hash[:]) {
				fail("frozen item %d is not the canonical block after cycle %d", n, c+1)
			}
		}
		for i := nCanon; i < len(bs); i++ {
			b := bs[i]
			if b.num < frozen && len(rawdb.ReadHeaderRLP(nf, b.hash, b.num)) != 0 {
				fail("side block at height %d left in the key-value store below the frozen boundary %d after cycle %d", b.num, frozen, c+1)
			}
			if String(readView(in.db, b)) != ref[i] && rawdb.HasHeader(in.db, b.hash, b.num) {
				fail("side block at height %d altered by freeze cycle %d", b.num, c+1)
			}
		}
		for n := uint64(1); n < frozen; n++ {
			if c == cycles-1 || n+4 > frozen || n < 4 {
				if hs := rawdb.ReadAllHashes(inner, n); len(hs) != 0 {
					fail("block data left in the key-value store below the frozen boundary at height %d after cycle %d", n, c+1)
					break
				}
			}
		}
		prevFrozen = frozen
		// ---- the summary compared with the model
		var ws, ss SL
		for _, w := range win {
			ws = append(ws, SL{Bool(len(rawdb.ReadHeaderRLP(nf, bs[w].hash, w)) != 0), Bool(w < frozen), Bool(same[w])})
		}
		for i := nCanon; i < len(bs); i++ {
			b := bs[i]
			_, okn := rawdb.ReadHeaderNumber(nf, b.hash)
			ss = append(ss, SL{Bool(len(rawdb.ReadHeaderRLP(nf, b.hash, b.num)) != 0), Bool(len(rawdb.ReadBodyRLP(nf, b.hash, b.num)) != 0),
				Bool(len(rawdb.ReadReceiptsRLP(nf, b.hash, b.num)) != 0), Bool(okn)})
		}
		obs = append(obs, SL{I(cls), U(frozen / bigL), U(frozen % bigL), ws, ss})
	}
	if cycles >= 2 && oracle == "" && prevFrozen != f+1 && uint64(cycles)*bigL >= f+1 {
		fail("the freezer did not resume: %d frozen after %d cycles, threshold %d", prevFrozen, cycles, f)
	}
	return Result{Obs: obs, Oracle: oracle, Tags: []string{"big", fmt.Sprintf("big-q%d-r%d", q, min(int(r), 9))}, NonTrivial: prevFrozen > bigL}
}

// ---------------------------------------------------------------- generation

func emitCase(bs []*blk, evs []Sx, emit func(Sx)) {
	build(bs)
	// fingerprints of the stored blobs, read back from a scratch database
	mem := rawdb.NewMemoryDatabase()
	var bl SL
	for _, b := range bs {
		writeBlock(mem, b)
	}
	for _, b := range bs {
		var par Sx = SL{}
		if b.parent != nil {
			par = SL{U(hashN(*b.parent))}
		}
		var txs SL
		for _, t := range b.txs {
			txs = append(txs, U(hashN(t)))
		}
		var bodyRLP, rcptRLP []byte
		bodyRLP, _ = rlp.EncodeToBytes(b.body)
		sr := make([]*types.ReceiptForStorage, len(b.receipts))
		for i, r := range b.receipts {
			sr[i] = (*types.ReceiptForStorage)(r)
		}
		rcptRLP, _ = rlp.EncodeToBytes(sr)
		bl = append(bl, SL{U(b.num), U(hashN(b.hash)), I(int64(b.flags)), B(tok(b.hdrRLP, 8)), par,
			B(tok(bodyRLP, 6)), B(tok(rcptRLP, 6)), B(tok(b.bal, 6)), txs,
			I(int64(b.parentIdx)), U(b.seed), I(int64(b.ntx))})
	}
	mem.Close()
	emit(SL{bl, SL(evs)})
}

func hashOf(bs []*blk, i int) Sx {
	if i < 0 || i >= len(bs) {
		return U(0)
	}
	return U(hashN(bs[i].hash))
}

func gen(r *Rng, tier string, emit func(Sx)) {
	r = NewRng(r.U64())
	n := 110
	if tier == "thorough" {
		n = 1500
	}
	// the large-scale stream: a cycle capped by the real freezerBatchLimit
	bigCase := func(q, rr, a, cycles int) {
		sides := SL{
			SL{I(0), I(int64(r.Intn(3))), I(int64(r.Range(1, 3)))},                         // near genesis
			SL{I(int64(r.Range(1, q))), I(int64(-3 + r.Intn(3))), I(int64(r.Range(1, 2)))}, // just below a cap boundary
			SL{I(int64(r.Range(1, q))), I(int64(-2 + r.Intn(2))), I(int64(r.Range(3, 5)))}, // straddling a cap boundary
			SL{I(int64(q)), I(int64(r.Intn(3))), I(int64(r.Range(1, 3)))},                  // between the boundary and the threshold
		}
		emit(SL{I(7), I(int64(q)), I(int64(rr)), I(int64(a)), I(int64(cycles)), sides})
	}
	bigCase(1, r.Range(1, 8), r.Range(3, 10), 2)
	if tier == "thorough" {
		bigCase(1, 0, r.Range(3, 10), 2) // exactly the cap: not capped
		bigCase(1, 1, r.Range(3, 10), 3) // cap + 1
		bigCase(1, r.Range(9, 25), 4, 3)
		bigCase(2, 5, r.Range(3, 10), 4) // 2*cap + 5: two capped cycles
	}
	seedCtr := uint64(1)
	for ci := 0; ci < n; ci++ {
		adversarial := r.Chance(1, 5)
		mainLen := r.Range(2, 12)
		if r.Chance(1, 8) {
			mainLen = r.Range(12, 28)
		}
		var bs []*blk
		mk := func(num uint64, parent int, flags int) int {
			seedCtr++
			fl := flags
			if r.Chance(1, 3) {
				fl |= fBal
			}
			bs = append(bs, &blk{num: num, parentIdx: parent, seed: seedCtr*7919 + r.U64()%1000, ntx: r.Intn(3), flags: fl})
			return len(bs) - 1
		}
		main := make([]int, 0, mainLen)
		prev := -1
		for i := 0; i < mainLen; i++ {
			fl := fCanon
			if i > 0 && r.Bool() {
				fl |= fTxl
			}
			prev = mk(uint64(i), prev, fl)
			main = append(main, prev)
		}
		// side branches, possibly off other side blocks, possibly taller than the main chain
		nside := r.Intn(5)
		for s := 0; s < nside; s++ {
			p := r.Intn(len(bs))
			l := r.Range(1, 4)
			for j := 0; j < l; j++ {
				fl := 0
				if r.Chance(1, 6) {
					fl |= fTxl
				}
				if adversarial && r.Chance(1, 6) {
					fl |= fGarbage
				}
				if adversarial && r.Chance(1, 10) {
					fl |= []int{fNoHdr, fNoBody, fNoRcpt}[r.Intn(3)]
				}
				p = mk(bs[p].num+1, p, fl)
			}
		}
		if adversarial {
			switch r.Intn(6) {
			case 0: // a canonical block with a piece missing: freezeRange must refuse
				i := main[r.Intn(len(main))]
				bs[i].flags |= []int{fNoHdr, fNoBody, fNoRcpt}[r.Intn(3)]
			case 1: // an orphan side block
				mk(uint64(r.Range(1, mainLen)), -1, 0)
			case 2: // canonical mapping moved to a side block (breaks the precondition)
				for i := range bs {
					if bs[i].flags&fCanon == 0 && int(bs[i].num) < mainLen && r.Bool() {
						bs[i].flags |= fCanon // written later: overrides the mapping
						break
					}
				}
			case 3: // undecodable canonical header (breaks the precondition)
				bs[main[r.Intn(len(main))]].flags |= fGarbage
			case 4: // a gap in the canonical mapping
				bs[main[r.Intn(len(main))]].flags &^= fCanon
			}
		}
		build(bs)
		// events
		var evs []Sx
		pick := func() int {
			if r.Chance(1, 6) {
				return r.Intn(len(bs))
			}
			return main[r.Intn(len(main))]
		}
		fin := 0
		nev := r.Range(2, 5)
		if r.Chance(1, 10) {
			evs = append(evs, SL{I(1)}) // iteration before any marker: threshold unavailable
		}
		for e := 0; e < nev; e++ {
			// move the finalized marker forward (mostly)
			lo := 1
			if r.Chance(1, 5) {
				lo = 0
			}
			f := main[min(len(main)-1, fin+r.Range(lo, 1+len(main)/2))]
			if r.Chance(1, 8) {
				f = pick()
			}
			if int(bs[f].num) > fin {
				fin = int(bs[f].num)
			}
			hb, hh := main[len(main)-1], main[len(main)-1]
			if r.Chance(1, 8) {
				hb = pick()
			}
			if r.Chance(1, 10) {
				hh = pick()
			}
			finSx := hashOf(bs, f)
			if r.Chance(1, 15) {
				finSx = U(0)
			}
			hhSx := hashOf(bs, hh)
			if r.Chance(1, 20) {
				hhSx = U(0)
			}
			evs = append(evs, SL{I(0), hashOf(bs, hb), hhSx, finSx})
			if r.Chance(2, 5) {
				evs = append(evs, SL{I(2), I(int64(r.Intn(6))), I(int64([]int{0, 1, 2 + r.Intn(31)}[r.Intn(3)])), I(int64(r.Intn(2)))})
				if r.Bool() {
					evs = append(evs, SL{I(1)})
				}
			} else {
				evs = append(evs, SL{I(1)})
			}
			if r.Chance(1, 6) {
				evs = append(evs, SL{I(1)}) // nothing new to freeze
			}
		}
		emitCase(bs, evs, emit)
	}
}

func main() {
	Main(Family{
		ID: "c25",
		Rule: "block trees (2-28 canonical blocks, 0-4 side branches of 1-4 blocks forking anywhere, bodies with 0-2 txs, optional access lists and tx lookups) " +
			"with 2-5 rounds of marker moves + freezer iterations, 40% of them interrupted at a random persistence action (after append / sync / each of the three batch writes, " +
			"or right before a batch write) followed by crash+reopen with nothing lost, all unsynced freezer data lost, or lost for a random subset of tables; " +
			"20% adversarial trees (missing header/body/receipts, undecodable headers, orphan blocks, broken canonical mapping, gaps). " +
			"Non-trivial: some iteration migrated at least one block beyond genesis into the freezer.",
		Gen: gen,
		Run: run,
		// the large-scale cases write and read back 30000-60000 blocks on a loaded machine
		CaseTimeout: 20 * time.Minute,
	})
}
