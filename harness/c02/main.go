package main

import (
	"fmt"

	"github.com/ethereum/go-ethereum/common"
	"github.com/ethereum/go-ethereum/core/types"
	"github.com/holiman/uint256"
)

func main() {
	inner := &types.BlobTx{
		ChainID: uint256.NewInt(1), Nonce: 1, GasTipCap: uint256.NewInt(1), GasFeeCap: uint256.NewInt(1),
		Gas: 21000, To: common.Address{1}, Value: uint256.NewInt(0), Data: make([]byte, 40),
		BlobFeeCap: uint256.NewInt(1), V: uint256.NewInt(0), R: uint256.NewInt(1), S: uint256.NewInt(1),
		Sidecar: &types.BlobTxSidecar{},
	}
	tx := types.NewTx(inner)
	b, err := tx.MarshalBinary()
	fmt.Println("fresh: len", len(b), "Size", tx.Size(), err)
	var tx2 types.Transaction
	err = tx2.UnmarshalBinary(b)
	fmt.Println("decoded: err", err, "Size", tx2.Size(), "sidecar", tx2.BlobTxSidecar() != nil)
	b2, _ := tx2.MarshalBinary()
	fmt.Println("remarshal equal", string(b2) == string(b))
	ws := tx2.WithoutBlobTxSidecar()
	b3, _ := ws.MarshalBinary()
	fmt.Println("without sidecar (from decoded): len", len(b3), "Size", ws.Size())
	ws2 := tx.WithoutBlobTxSidecar()
	b4, _ := ws2.MarshalBinary()
	fmt.Println("without sidecar (from fresh): len", len(b4), "Size", ws2.Size())
	fmt.Println(tx.Hash() == ws.Hash(), tx.Hash() == tx2.Hash())
}
