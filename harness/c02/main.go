// Family c02: core/types transaction envelopes (MarshalBinary / UnmarshalBinary /
// EncodeRLP / DecodeRLP / Hash / Size / WithoutBlobTxSidecar / JSON) vs
// coq/EVM/TxEnvelope.v.
package main

import (
	"bytes"
	"errors"
	"fmt"
	"math/big"
	"strings"

	"github.com/ethereum/go-ethereum/common"
	"github.com/ethereum/go-ethereum/core/types"
	"github.com/ethereum/go-ethereum/crypto"
	"github.com/ethereum/go-ethereum/crypto/kzg4844"
	"github.com/ethereum/go-ethereum/rlp"
	"github.com/holiman/uint256"
	. "gethverif/harness/hxlib"
)

const blobLen = 131072

func shape(format string, a ...any) { panic("hxlib: " + fmt.Sprintf(format, a...)) }

// ---------- observation helpers (must mirror coq/Run/C02.v) ----------

func obBytes(b []byte) Sx {
	if len(b) <= 300 {
		return B(b)
	}
	var s1, s2 uint64
	for _, x := range b {
		s1 += uint64(x)
		s2 += s1
	}
	return L(U(uint64(len(b))), U(s1), U(s2))
}

func errClass(err error) int64 {
	switch {
	case err == nil:
		return 0
	case errors.Is(err, types.VerifErrShortTypedTx):
		return 1
	case errors.Is(err, types.ErrTxTypeNotSupported):
		return 2
	case strings.HasPrefix(err.Error(), "unsupported blob tx version"),
		strings.HasPrefix(err.Error(), "unsupported sidecar version"):
		return 4
	default:
		return 3
	}
}

func obRes(b []byte, err error) Sx {
	if err != nil {
		return L(I(errClass(err)))
	}
	return L(I(0), obBytes(b))
}

func obTx(tx *types.Transaction, extra ...Sx) Sx {
	m, merr := tx.MarshalBinary()
	h := tx.Hash()
	sz := tx.Size()
	ver := I(-1)
	if sc := tx.BlobTxSidecar(); sc != nil {
		ver = U(uint64(sc.Version))
	}
	ws := tx.WithoutBlobTxSidecar()
	wm, werr := ws.MarshalBinary()
	items := []Sx{I(0), U(uint64(tx.Type())), obRes(m, merr), B(h[:]), U(sz), ver, U(ws.Size()), obRes(wm, werr)}
	return L(append(items, extra...)...)
}

// ---------- direct property oracle on the implementation ----------

// hashPreimage computes, from an ACCEPTED binary envelope alone, the bytes whose
// Keccak-256 the transaction hash must be: the envelope itself, or for the blob
// network wrapper  0x03 || first element of the outer list.
func hashPreimage(b []byte) ([]byte, bool) {
	if len(b) == 0 {
		return nil, false
	}
	if b[0] > 0x7f || b[0] != types.BlobTxType {
		return b, true
	}
	content, _, err := rlp.SplitList(b[1:])
	if err != nil {
		return nil, false
	}
	k, _, rest, err := rlp.Split(content)
	if err != nil {
		return nil, false
	}
	if k != rlp.List {
		return b, true
	}
	first := content[:len(content)-len(rest)]
	return append([]byte{types.BlobTxType}, first...), true
}

var secpN, _ = new(big.Int).SetString("fffffffffffffffffffffffffffffffebaaedce6af48a03bbfd25e8cd0364141", 16)

// jsonEligible: the conditions under which UnmarshalJSON(MarshalJSON(tx)) is required to
// succeed (evaluated independently of transaction_marshalling.go).
func jsonEligible(tx *types.Transaction) bool {
	fits := func(x *big.Int) bool { return x.Sign() >= 0 && x.BitLen() <= 256 }
	v, r, s := tx.RawSignatureValues()
	for _, x := range []*big.Int{tx.ChainId(), tx.GasPrice(), tx.GasTipCap(), tx.GasFeeCap(), tx.Value(), v, r, s} {
		if !fits(x) {
			return false
		}
	}
	zero := v.Sign() == 0 && r.Sign() == 0 && s.Sign() == 0
	sigRS := r.Sign() > 0 && s.Sign() > 0 && r.Cmp(secpN) < 0 && s.Cmp(secpN) < 0
	switch tx.Type() {
	case types.LegacyTxType:
		if !zero {
			if !sigRS || !v.IsUint64() {
				return false
			}
			vv := v.Uint64()
			if vv != 27 && vv != 28 && vv < 35 {
				return false
			}
			// protected: v = 35 + 2*chainid + {0,1} always has a plain v in {0,1}
		}
	default:
		if !zero && !(sigRS && v.IsUint64() && v.Uint64() <= 1) {
			return false
		}
		if zero {
			// yParity = 0 and v = 0 agree
		}
	}
	if tx.Type() == types.BlobTxType && len(tx.BlobHashes()) == 0 {
		return false
	}
	if tx.Type() == types.SetCodeTxType && len(tx.SetCodeAuthorizations()) == 0 {
		return false
	}
	return true
}

// checkTx evaluates the property on one decoded transaction whose canonical envelope
// (MarshalBinary form) must be [want].
func checkTx(tx *types.Transaction, want []byte, where string, fails *[]string) {
	fail := func(f string, a ...any) { *fails = append(*fails, where+": "+fmt.Sprintf(f, a...)) }
	m, err := tx.MarshalBinary()
	if err != nil {
		fail("MarshalBinary of an accepted tx failed: %v", err)
		return
	}
	if !bytes.Equal(m, want) {
		fail("re-marshalled bytes differ from the accepted input (len %d vs %d)", len(m), len(want))
	}
	wantType := want[0]
	if wantType > 0x7f {
		wantType = 0
	}
	if tx.Type() != wantType {
		fail("Type()=%d but the envelope says %d", tx.Type(), wantType)
	}
	if pre, ok := hashPreimage(want); !ok {
		fail("cannot split the accepted envelope")
	} else if h := tx.Hash(); h != common.BytesToHash(crypto.Keccak256(pre)) {
		fail("Hash() is not keccak of the canonical sidecar-less envelope")
	} else {
		ws := tx.WithoutBlobTxSidecar()
		wm, err := ws.MarshalBinary()
		if err != nil || !bytes.Equal(wm, pre) {
			fail("WithoutBlobTxSidecar().MarshalBinary() is not the hash preimage")
		}
		if ws.Hash() != h {
			fail("hash changes when the sidecar is dropped")
		}
		if ws.Size() != uint64(len(wm)) {
			fail("size-mismatch: WithoutBlobTxSidecar().Size()=%d, encoded length %d", ws.Size(), len(wm))
		}
	}
	if tx.Size() != uint64(len(m)) {
		fail("size-mismatch: Size()=%d, encoded length %d", tx.Size(), len(m))
	}
	// a second decode of the re-marshalled bytes gives the same transaction
	var tx2 types.Transaction
	if err := tx2.UnmarshalBinary(m); err != nil {
		fail("re-marshalled bytes are rejected: %v", err)
	} else if tx2.Hash() != tx.Hash() {
		fail("re-decoded tx has another hash")
	}
	// JSON
	js, err := tx.MarshalJSON()
	if err != nil {
		fail("MarshalJSON failed: %v", err)
		return
	}
	var tx3 types.Transaction
	if err := tx3.UnmarshalJSON(js); err != nil {
		if jsonEligible(tx) {
			fail("JSON round trip rejected an eligible tx: %v", err)
		}
	} else {
		if tx3.Hash() != tx.Hash() || tx3.Type() != tx.Type() {
			fail("JSON round trip changes the hash/type")
		}
		wm, _ := tx.WithoutBlobTxSidecar().MarshalBinary()
		m3, _ := tx3.WithoutBlobTxSidecar().MarshalBinary()
		if !bytes.Equal(wm, m3) {
			fail("JSON round trip changes the canonical encoding")
		}
	}
}

// ---------- raw-bytes case ----------

func decodeElem(b []byte) (*types.Transaction, int, error) {
	r := bytes.NewReader(b)
	s := rlp.NewStream(r, 0)
	var tx types.Transaction
	if err := s.Decode(&tx); err != nil {
		return nil, 0, err
	}
	return &tx, r.Len(), nil
}

func obUnmarshal(b []byte, res *Result, fails *[]string, where string) {
	var tx types.Transaction
	err := tx.UnmarshalBinary(b)
	res.Tags = append(res.Tags, fmt.Sprintf("%s.class%d", where, errClass(err)))
	if err != nil {
		res.Obs = L(append(AsList(res.Obs), L(I(errClass(err))))...)
		return
	}
	res.Tags = append(res.Tags, fmt.Sprintf("%s.ok.type%d", where, tx.Type()))
	if sc := tx.BlobTxSidecar(); sc != nil {
		res.Tags = append(res.Tags, fmt.Sprintf("%s.sidecar.v%d.blobs%d", where, sc.Version, len(sc.Blobs)))
	}
	checkTx(&tx, b, where, fails)
	var fresh types.Transaction
	fresh.UnmarshalBinary(b) // observe on an untouched object (caches)
	res.Obs = L(append(AsList(res.Obs), obTx(&fresh))...)
}

func obElem(b []byte, res *Result, fails *[]string, where string) {
	tx, rest, err := decodeElem(b)
	res.Tags = append(res.Tags, fmt.Sprintf("%s.class%d", where, errClass(err)))
	if err != nil {
		var one types.Transaction
		if rlp.DecodeBytes(b, &one) == nil {
			*fails = append(*fails, where+": rlp.DecodeBytes accepts what Stream.Decode rejects")
		}
		res.Obs = L(append(AsList(res.Obs), L(I(errClass(err))))...)
		return
	}
	res.Tags = append(res.Tags, fmt.Sprintf("%s.ok.type%d", where, tx.Type()))
	consumed := b[:len(b)-rest]
	enc, eerr := rlp.EncodeToBytes(tx)
	if eerr != nil || !bytes.Equal(enc, consumed) {
		*fails = append(*fails, where+": EncodeRLP of the decoded element differs from the consumed input")
	}
	// the canonical envelope of an element: the list itself (legacy) or the string content
	var want []byte
	if k, c, _, serr := rlp.Split(consumed); serr != nil {
		*fails = append(*fails, where+": cannot split the accepted element")
	} else if k == rlp.List {
		want = consumed
	} else {
		want = c
	}
	if want != nil {
		// a list element is a legacy tx; a string element is type||payload with a supported type <= 0x7f
		if len(want) == len(consumed) {
			if tx.Type() != types.LegacyTxType {
				*fails = append(*fails, fmt.Sprintf("%s: list element decoded as type %d", where, tx.Type()))
			}
		} else if len(want) == 0 || want[0] > 0x7f || want[0] < types.AccessListTxType || want[0] > types.SetCodeTxType || tx.Type() != want[0] {
			first := -1
			if len(want) > 0 {
				first = int(want[0])
			}
			*fails = append(*fails, fmt.Sprintf("%s: string element accepted whose payload starts with %#x (not a supported type byte) as type %d", where, first, tx.Type()))
		}
		checkTx(tx, want, where, fails)
	}
	// rlp.DecodeBytes(x, &tx): exactly one element; accept => byte-identical re-encoding
	var one types.Transaction
	if derr := rlp.DecodeBytes(b, &one); derr == nil {
		if rest != 0 {
			*fails = append(*fails, where+": rlp.DecodeBytes accepts input with trailing bytes")
		}
		if e1, err := rlp.EncodeToBytes(&one); err != nil || !bytes.Equal(e1, b) {
			*fails = append(*fails, where+": rlp.DecodeBytes accepted an element that re-encodes differently")
		}
		if one.Hash() != tx.Hash() {
			*fails = append(*fails, where+": rlp.DecodeBytes and Stream.Decode give different transactions")
		}
		if m1, err := one.MarshalBinary(); err != nil || one.Size() != uint64(len(m1)) {
			*fails = append(*fails, fmt.Sprintf("%s: size-mismatch after rlp.DecodeBytes: Size()=%d, envelope %d", where, one.Size(), len(m1)))
		}
	} else if rest == 0 {
		*fails = append(*fails, where+": Stream.Decode accepts the whole input but rlp.DecodeBytes rejects it: "+derr.Error())
	}
	fresh, _, _ := decodeElem(b)
	e2, e2err := rlp.EncodeToBytes(fresh)
	res.Obs = L(append(AsList(res.Obs), obTx(fresh, obRes(e2, e2err), U(uint64(rest))))...)
}

// ---------- structured case: Sx description -> Go transaction ----------

func asBigNN(v Sx) *big.Int {
	b := AsBig(v)
	if b.Sign() < 0 {
		shape("negative number")
	}
	return b
}
func asU64(v Sx) uint64 {
	b := asBigNN(v)
	if !b.IsUint64() {
		shape("uint64 out of range")
	}
	return b.Uint64()
}
func asU256(v Sx) *uint256.Int {
	x, over := uint256.FromBig(asBigNN(v))
	if over {
		shape("uint256 out of range")
	}
	return x
}
func asFixed(v Sx, n int) []byte {
	b := AsBytes(v)
	if len(b) != n {
		shape("byte array of length %d, want %d", len(b), n)
	}
	return b
}
func asAddr(v Sx) common.Address { return common.BytesToAddress(asFixed(v, 20)) }
func asAddrOpt(v Sx) *common.Address {
	if i, ok := v.(SI); ok {
		if i.V.Sign() >= 0 {
			shape("nil address must be -1")
		}
		return nil
	}
	a := asAddr(v)
	return &a
}
func asAccessList(v Sx) types.AccessList {
	al := types.AccessList{}
	for _, t := range AsList(v) {
		tl := AsList(t)
		if len(tl) != 2 {
			shape("access tuple arity")
		}
		tup := types.AccessTuple{Address: asAddr(tl[0]), StorageKeys: []common.Hash{}}
		for _, k := range AsList(tl[1]) {
			tup.StorageKeys = append(tup.StorageKeys, common.BytesToHash(asFixed(k, 32)))
		}
		al = append(al, tup)
	}
	return al
}
func asHashes(v Sx) []common.Hash {
	hs := []common.Hash{}
	for _, k := range AsList(v) {
		hs = append(hs, common.BytesToHash(asFixed(k, 32)))
	}
	return hs
}
func asAuthList(v Sx) []types.SetCodeAuthorization {
	out := []types.SetCodeAuthorization{}
	for _, a := range AsList(v) {
		al := AsList(a)
		if len(al) != 6 {
			shape("authorization arity")
		}
		v8 := asU64(al[3])
		if v8 > 255 {
			shape("uint8 out of range")
		}
		out = append(out, types.SetCodeAuthorization{
			ChainID: *asU256(al[0]), Address: asAddr(al[1]), Nonce: asU64(al[2]), V: uint8(v8),
			R: *asU256(al[4]), S: *asU256(al[5]),
		})
	}
	return out
}

func asSidecar(v Sx) *types.BlobTxSidecar {
	l := AsList(v)
	if len(l) == 0 {
		return nil
	}
	if len(l) != 4 {
		shape("sidecar arity")
	}
	ver := asU64(l[0])
	if ver > 255 {
		shape("sidecar version")
	}
	sc := &types.BlobTxSidecar{Version: byte(ver), Blobs: []kzg4844.Blob{}, Commitments: []kzg4844.Commitment{}, Proofs: []kzg4844.Proof{}}
	for _, bd := range AsList(l[1]) {
		bl := AsList(bd)
		if len(bl) != 2 {
			shape("blob descriptor arity")
		}
		fill := asU64(bl[0])
		pre := AsBytes(bl[1])
		if fill > 255 || len(pre) > blobLen {
			shape("blob descriptor")
		}
		var blob kzg4844.Blob
		for i := range blob {
			blob[i] = byte(fill)
		}
		copy(blob[:], pre)
		sc.Blobs = append(sc.Blobs, blob)
	}
	for _, c := range AsList(l[2]) {
		var x kzg4844.Commitment
		copy(x[:], asFixed(c, 48))
		sc.Commitments = append(sc.Commitments, x)
	}
	for _, c := range AsList(l[3]) {
		var x kzg4844.Proof
		copy(x[:], asFixed(c, 48))
		sc.Proofs = append(sc.Proofs, x)
	}
	return sc
}

func buildTx(ty int, fields Sx, sidecar Sx) *types.Transaction {
	f := AsList(fields)
	need := func(n int) {
		if len(f) != n {
			shape("type %d needs %d fields, got %d", ty, n, len(f))
		}
	}
	if ty != 3 && len(AsList(sidecar)) != 0 {
		shape("sidecar on a non-blob tx")
	}
	switch ty {
	case 0:
		need(9)
		return types.NewTx(&types.LegacyTx{Nonce: asU64(f[0]), GasPrice: asBigNN(f[1]), Gas: asU64(f[2]), To: asAddrOpt(f[3]),
			Value: asBigNN(f[4]), Data: AsBytes(f[5]), V: asBigNN(f[6]), R: asBigNN(f[7]), S: asBigNN(f[8])})
	case 1:
		need(11)
		return types.NewTx(&types.AccessListTx{ChainID: asBigNN(f[0]), Nonce: asU64(f[1]), GasPrice: asBigNN(f[2]), Gas: asU64(f[3]),
			To: asAddrOpt(f[4]), Value: asBigNN(f[5]), Data: AsBytes(f[6]), AccessList: asAccessList(f[7]),
			V: asBigNN(f[8]), R: asBigNN(f[9]), S: asBigNN(f[10])})
	case 2:
		need(12)
		return types.NewTx(&types.DynamicFeeTx{ChainID: asBigNN(f[0]), Nonce: asU64(f[1]), GasTipCap: asBigNN(f[2]), GasFeeCap: asBigNN(f[3]),
			Gas: asU64(f[4]), To: asAddrOpt(f[5]), Value: asBigNN(f[6]), Data: AsBytes(f[7]), AccessList: asAccessList(f[8]),
			V: asBigNN(f[9]), R: asBigNN(f[10]), S: asBigNN(f[11])})
	case 3:
		need(14)
		return types.NewTx(&types.BlobTx{ChainID: asU256(f[0]), Nonce: asU64(f[1]), GasTipCap: asU256(f[2]), GasFeeCap: asU256(f[3]),
			Gas: asU64(f[4]), To: asAddr(f[5]), Value: asU256(f[6]), Data: AsBytes(f[7]), AccessList: asAccessList(f[8]),
			BlobFeeCap: asU256(f[9]), BlobHashes: asHashes(f[10]), Sidecar: asSidecar(sidecar),
			V: asU256(f[11]), R: asU256(f[12]), S: asU256(f[13])})
	case 4:
		need(13)
		return types.NewTx(&types.SetCodeTx{ChainID: asU256(f[0]), Nonce: asU64(f[1]), GasTipCap: asU256(f[2]), GasFeeCap: asU256(f[3]),
			Gas: asU64(f[4]), To: asAddr(f[5]), Value: asU256(f[6]), Data: AsBytes(f[7]), AccessList: asAccessList(f[8]),
			AuthList: asAuthList(f[9]), V: asU256(f[10]), R: asU256(f[11]), S: asU256(f[12])})
	}
	shape("unknown tx type %d", ty)
	return nil
}

func run(c Sx) Result {
	l := AsList(c)
	if len(l) < 2 {
		shape("case arity")
	}
	res := Result{Obs: L()}
	var fails []string
	switch AsInt(l[0]) {
	case 0:
		if len(l) != 2 {
			shape("case arity")
		}
		b := AsBytes(l[1])
		res.NonTrivial = len(b) >= 2
		res.Tags = append(res.Tags, "raw")
		obUnmarshal(b, &res, &fails, "bin")
		obElem(b, &res, &fails, "elem")
	case 1:
		if len(l) != 4 {
			shape("case arity")
		}
		ty := AsInt(l[1])
		build := func() *types.Transaction { return buildTx(ty, l[2], l[3]) }
		tx := build()
		res.NonTrivial = true
		res.Tags = append(res.Tags, fmt.Sprintf("tx.type%d", ty))
		if sc := tx.BlobTxSidecar(); sc != nil {
			res.Tags = append(res.Tags, fmt.Sprintf("tx.sidecar.v%d.blobs%d", sc.Version, len(sc.Blobs)))
		}
		if jsonEligible(tx) {
			res.Tags = append(res.Tags, "tx.json-eligible")
		}
		m, merr := tx.MarshalBinary()
		el, eerr := rlp.EncodeToBytes(tx)
		h := tx.Hash()
		items := []Sx{obRes(m, merr), obRes(el, eerr), B(h[:]), U(build().Size())}
		res.Obs = L(items...)
		if merr == nil {
			// property on the locally built transaction: Size of a fresh object, hash, round trip
			if sz := build().Size(); sz != uint64(len(m)) {
				fails = append(fails, fmt.Sprintf("fresh: size-mismatch: Size()=%d, encoded length %d", sz, len(m)))
			}
			checkTx(build(), m, "fresh", &fails)
			obUnmarshal(m, &res, &fails, "bin")
			if len(AsList(res.Obs)) == 5 {
				if first := AsList(AsList(res.Obs)[4]); len(first) == 1 {
					fails = append(fails, "MarshalBinary output of a well-formed tx is rejected by UnmarshalBinary")
				}
			}
		} else {
			res.Tags = append(res.Tags, "tx.marshal-error")
			res.Obs = L(append(AsList(res.Obs), L())...)
		}
		if eerr == nil {
			in := append(append([]byte{}, el...), 1)
			n0 := len(AsList(res.Obs))
			obElem(in, &res, &fails, "elem")
			if first := AsList(AsList(res.Obs)[n0]); len(first) == 1 {
				fails = append(fails, "EncodeRLP output of a well-formed tx is rejected by DecodeRLP")
			}
		} else {
			res.Obs = L(append(AsList(res.Obs), L())...)
		}
	default:
		shape("unknown case kind")
	}
	if len(fails) > 0 {
		res.Oracle = strings.Join(fails, " | ")
		if len(res.Oracle) > 600 {
			res.Oracle = res.Oracle[:600]
		}
	}
	return res
}

func main() {
	Main(Family{
		ID: "c02",
		Rule: "structured stream: random transactions of all five types (boundary values 0, 2^64-1, 2^256-1, >2^256 for big.Int fields, nil/non-nil To, " +
			"empty/large access lists, 0-3 blob hashes, authorization lists, sidecars v0/v1/(2) with zero blobs, mismatched counts and a few real 131072-byte blobs, " +
			"valid-signature 'JSON eligible' txs) run through NewTx: MarshalBinary, EncodeRLP, Hash, Size, then decoded again; adversarial stream: " +
			"binary and list-element encodings mutated (type byte, truncation, trailing bytes, non-canonical integers/sizes, wrong arity, wrong kinds, " +
			"field size off by one, wrapper/sidecar tampering, string elements wrapping a legacy list / a nested element / empty / single bytes, byte flips, random bytes). Non-trivial: every structured case; raw inputs of >= 2 bytes.",
		Gen: gen,
		Run: run,
	})
}
