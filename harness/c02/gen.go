package main

import (
	"math/big"

	"github.com/ethereum/go-ethereum/rlp"
	. "gethverif/harness/hxlib"
)

// ---------- random field values (as Sx descriptions, see coq/Run/C02.v) ----------

var (
	two64  = new(big.Int).Lsh(big.NewInt(1), 64)
	two256 = new(big.Int).Lsh(big.NewInt(1), 256)
)

func sub1(x *big.Int) *big.Int { return new(big.Int).Sub(x, big.NewInt(1)) }

func genU64(r *Rng) Sx {
	switch r.Intn(10) {
	case 0:
		return U(0)
	case 1:
		return U(1)
	case 2:
		return U(uint64(r.Range(126, 129)))
	case 3:
		return U(uint64(r.Range(254, 257)))
	case 4:
		return U(^uint64(0))
	case 5:
		return U(1 << 63)
	case 6:
		return U(r.U64() >> uint(r.Intn(64)))
	default:
		return U(r.U64())
	}
}

// big: unbounded (*big.Int fields) when u256 is false
func genBig(r *Rng, u256 bool) Sx {
	switch r.Intn(12) {
	case 0:
		return U(0)
	case 1:
		return U(uint64(r.Range(1, 129)))
	case 2:
		return Big(sub1(two64))
	case 3:
		return Big(two64)
	case 4:
		return Big(sub1(two256))
	case 5:
		if u256 {
			return Big(sub1(two256))
		}
		return Big(two256)
	case 6:
		if u256 {
			return Big(new(big.Int).Lsh(big.NewInt(1), 255))
		}
		return Big(new(big.Int).SetBytes(append([]byte{byte(r.Range(1, 255))}, r.Bytes(r.Range(32, 40))...)))
	default:
		n := r.Range(1, 32)
		return Big(new(big.Int).SetBytes(r.Bytes(n)))
	}
}

func genFixed(r *Rng, n int) Sx {
	b := r.Bytes(n)
	switch r.Intn(6) {
	case 0:
		for i := range b {
			b[i] = 0
		}
	case 1:
		b[0] = 0
	case 2:
		for i := range b {
			b[i] = 0xff
		}
	}
	return B(b)
}

func genAddrOpt(r *Rng) Sx {
	if r.Chance(1, 3) {
		return I(-1)
	}
	return genFixed(r, 20)
}

func genData(r *Rng, tier string) Sx {
	switch r.Intn(14) {
	case 0:
		return B(nil)
	case 1:
		return B([]byte{byte(r.Intn(128))})
	case 2:
		return B([]byte{byte(128 + r.Intn(128))})
	case 3:
		return B(r.Bytes(r.Range(54, 57)))
	case 4:
		return B(r.Bytes(r.Range(254, 258)))
	case 5:
		return B(r.Bytes(r.Range(300, 3000)))
	case 6:
		if r.Chance(1, 12) {
			return B(r.Bytes(r.Range(65530, 65540)))
		}
		return B(r.Bytes(r.Range(1, 40)))
	default:
		return B(r.Bytes(r.Range(1, 80)))
	}
}

func genKeys(r *Rng, n int) Sx {
	ks := make([]Sx, n)
	for i := range ks {
		ks[i] = genFixed(r, 32)
	}
	return L(ks...)
}

func genAccessList(r *Rng) Sx {
	n := 0
	switch r.Intn(8) {
	case 0, 1, 2:
		n = 0
	case 3:
		n = 1
	case 4:
		n = r.Range(2, 5)
	case 5:
		if r.Chance(1, 6) {
			n = r.Range(100, 300) // large list
		} else {
			n = 2
		}
	default:
		n = r.Range(1, 3)
	}
	ts := make([]Sx, n)
	for i := range ts {
		k := r.Intn(4)
		if n < 10 && r.Chance(1, 25) {
			k = r.Range(50, 400) // many keys in one tuple
		}
		ts[i] = L(genFixed(r, 20), genKeys(r, k))
	}
	return L(ts...)
}

func genAuthList(r *Rng) Sx {
	n := r.Intn(4)
	as := make([]Sx, n)
	for i := range as {
		v := uint64(r.Intn(2))
		if r.Chance(1, 4) {
			v = uint64(r.Intn(256))
		}
		as[i] = L(genBig(r, true), genFixed(r, 20), genU64(r), U(v), genBig(r, true), genBig(r, true))
	}
	return L(as...)
}

// signature values: arbitrary, all zero, or valid for JSON (r, s in [1, N-1], v as the type demands)
func genSig(r *Rng, ty int, u256 bool) (Sx, Sx, Sx) {
	switch r.Intn(4) {
	case 0:
		return U(0), U(0), U(0)
	case 1:
		return genBig(r, u256), genBig(r, u256), genBig(r, u256)
	default:
		rs := func() Sx {
			x := new(big.Int).SetBytes(r.Bytes(32))
			x.Mod(x, sub1(secpN))
			x.Add(x, big.NewInt(1))
			return Big(x)
		}
		var v Sx
		if ty == 0 {
			switch r.Intn(3) {
			case 0:
				v = U(uint64(27 + r.Intn(2)))
			case 1:
				v = U(35 + 2*uint64(r.Intn(100000)) + uint64(r.Intn(2)))
			default:
				cid := new(big.Int).SetBytes(r.Bytes(r.Range(1, 20)))
				vv := new(big.Int).Mul(cid, big.NewInt(2))
				vv.Add(vv, big.NewInt(int64(35+r.Intn(2))))
				v = Big(vv)
			}
		} else {
			v = U(uint64(r.Intn(2)))
		}
		return v, rs(), rs()
	}
}

func genSidecar(r *Rng, tier string, allowBig bool) Sx {
	if r.Chance(1, 2) {
		return L()
	}
	ver := uint64(r.Intn(2))
	if r.Chance(1, 16) {
		ver = uint64(r.Range(2, 255))
	}
	nb := 0
	if allowBig {
		nb = 1
		if tier == "thorough" && r.Chance(1, 3) {
			nb = r.Range(2, 3)
		}
	}
	blobs := make([]Sx, nb)
	for i := range blobs {
		blobs[i] = L(U(uint64(r.Intn(256))), B(r.Bytes(r.Intn(40))))
	}
	cnt := func() int {
		if r.Chance(2, 3) {
			return nb * (1 + 127*int(ver&1)*r.Intn(2)) % 200 // matching, or cell-proof sized
		}
		return r.Intn(4)
	}
	fixed := func(n int) Sx {
		xs := make([]Sx, n)
		for i := range xs {
			xs[i] = genFixed(r, 48)
		}
		return L(xs...)
	}
	nc := nb
	if r.Chance(1, 3) {
		nc = r.Intn(4)
	}
	return L(U(ver), L(blobs...), fixed(nc), fixed(cnt()))
}

// genTx returns (type, fields, sidecar)
func genTx(r *Rng, tier string, allowBigBlobs bool) (int, Sx, Sx) {
	ty := r.Intn(5)
	sc := L()
	var f []Sx
	switch ty {
	case 0:
		v, rr, s := genSig(r, ty, false)
		f = []Sx{genU64(r), genBig(r, false), genU64(r), genAddrOpt(r), genBig(r, false), genData(r, tier), v, rr, s}
	case 1:
		v, rr, s := genSig(r, ty, false)
		f = []Sx{genBig(r, false), genU64(r), genBig(r, false), genU64(r), genAddrOpt(r), genBig(r, false), genData(r, tier), genAccessList(r), v, rr, s}
	case 2:
		v, rr, s := genSig(r, ty, false)
		f = []Sx{genBig(r, false), genU64(r), genBig(r, false), genBig(r, false), genU64(r), genAddrOpt(r), genBig(r, false), genData(r, tier), genAccessList(r), v, rr, s}
	case 3:
		v, rr, s := genSig(r, ty, true)
		f = []Sx{genBig(r, true), genU64(r), genBig(r, true), genBig(r, true), genU64(r), genFixed(r, 20), genBig(r, true), genData(r, tier), genAccessList(r),
			genBig(r, true), genKeys(r, r.Intn(4)), v, rr, s}
		sc = genSidecar(r, tier, allowBigBlobs)
	case 4:
		v, rr, s := genSig(r, ty, true)
		f = []Sx{genBig(r, true), genU64(r), genBig(r, true), genBig(r, true), genU64(r), genFixed(r, 20), genBig(r, true), genData(r, tier), genAccessList(r),
			genAuthList(r), v, rr, s}
	}
	return ty, L(f...), sc
}

// ---------- a raw RLP tree for structure-aware mutations ----------

type node struct {
	list bool
	data []byte
	kids []*node
	mode int // 0 canonical header; 1 long form for a short size; 2 leading zero in the size; 3 single byte wrapped as 0x81 b
}

func parseNode(b []byte) (*node, []byte, bool) {
	k, c, rest, err := rlp.Split(b)
	if err != nil {
		return nil, nil, false
	}
	if k != rlp.List {
		return &node{data: append([]byte{}, c...)}, rest, true
	}
	n := &node{list: true}
	for len(c) > 0 {
		kid, r2, ok := parseNode(c)
		if !ok {
			return nil, nil, false
		}
		n.kids = append(n.kids, kid)
		c = r2
	}
	return n, rest, true
}

func beBytes(n uint64) []byte {
	var out []byte
	for n > 0 {
		out = append([]byte{byte(n)}, out...)
		n >>= 8
	}
	return out
}

func header(small, large byte, size int, mode int) []byte {
	switch {
	case mode == 0 && size < 56:
		return []byte{small + byte(size)}
	case mode == 2:
		sb := append([]byte{0}, beBytes(uint64(size))...)
		return append([]byte{large + byte(len(sb))}, sb...)
	default:
		sb := beBytes(uint64(size))
		if len(sb) == 0 {
			sb = []byte{0}
		}
		return append([]byte{large + byte(len(sb))}, sb...)
	}
}

func (n *node) enc() []byte {
	if !n.list {
		if len(n.data) == 1 && n.data[0] < 0x80 && n.mode != 3 && n.mode != 1 && n.mode != 2 {
			return []byte{n.data[0]}
		}
		m := n.mode
		if m == 3 {
			m = 0
		}
		return append(header(0x80, 0xb7, len(n.data), m), n.data...)
	}
	var c []byte
	for _, k := range n.kids {
		c = append(c, k.enc()...)
	}
	return append(header(0xc0, 0xf7, len(c), n.mode), c...)
}

func (n *node) all(out *[]*node) {
	*out = append(*out, n)
	for _, k := range n.kids {
		k.all(out)
	}
}

// mutateTree applies one structure-aware mutation and returns a description tag
func mutateTree(r *Rng, root *node) {
	var ns []*node
	root.all(&ns)
	n := ns[r.Intn(len(ns))]
	if r.Chance(1, 3) {
		n = root // arity / kind of the top-level struct
		if len(root.kids) > 0 && r.Chance(1, 2) {
			n = root.kids[r.Intn(len(root.kids))] // a direct field
		}
	}
	if n.list {
		switch r.Intn(7) {
		case 0: // drop a child (arity)
			if len(n.kids) > 0 {
				i := r.Intn(len(n.kids))
				n.kids = append(n.kids[:i:i], n.kids[i+1:]...)
			} else {
				n.kids = append(n.kids, &node{data: []byte{1}})
			}
		case 1: // add a child
			n.kids = append(n.kids, &node{data: r.Bytes(r.Intn(3))})
		case 2: // duplicate a child
			if len(n.kids) > 0 {
				i := r.Intn(len(n.kids))
				n.kids = append(n.kids[:i+1:i+1], n.kids[i:]...)
			}
		case 3: // list -> string of its content
			var c []byte
			for _, k := range n.kids {
				c = append(c, k.enc()...)
			}
			n.list, n.data, n.kids = false, c, nil
		case 4: // empty list <-> empty string
			n.list, n.data, n.kids = false, nil, nil
		case 5:
			n.mode = 1 + r.Intn(2)
		default: // swap two children
			if len(n.kids) >= 2 {
				i, j := r.Intn(len(n.kids)), r.Intn(len(n.kids))
				n.kids[i], n.kids[j] = n.kids[j], n.kids[i]
			}
		}
		return
	}
	switch r.Intn(10) {
	case 0: // leading zero (non-canonical integer)
		n.data = append([]byte{0}, n.data...)
	case 1: // single zero byte for the integer 0
		n.data = []byte{0}
	case 2: // one byte longer / shorter (address 19/21, hash 31/33, uint64 9 bytes, u256 33 bytes)
		if r.Bool() || len(n.data) == 0 {
			n.data = append([]byte{byte(1 + r.Intn(255))}, n.data...)
		} else {
			n.data = n.data[1:]
		}
	case 3: // too long for any integer type
		n.data = append([]byte{1}, r.Bytes(r.Range(8, 33))...)
	case 4: // string -> empty list (wrong kind of empty value) or list around it
		if r.Bool() {
			n.list, n.data = true, nil
		} else {
			n.kids = []*node{{data: n.data}}
			n.list, n.data = true, nil
		}
	case 5: // non-canonical size header
		n.mode = 1 + r.Intn(2)
	case 6: // single byte wrapped
		n.data = []byte{byte(r.Intn(128))}
		n.mode = 3
	case 7: // empty
		n.data = nil
	case 8: // version-like small values
		n.data = []byte{byte(r.Intn(3))}
		if n.data[0] == 0 {
			n.data = nil
		}
	default:
		n.data = r.Bytes(r.Range(1, 34))
	}
}

// ---------- raw mutations ----------

func cpy(b []byte) []byte { return append([]byte{}, b...) }

func mutateRaw(r *Rng, b []byte) []byte {
	b = cpy(b)
	switch r.Intn(9) {
	case 0: // type byte / first byte
		if len(b) > 0 {
			vals := []byte{0, 1, 2, 3, 4, 5, 6, 0x7e, 0x7f, 0x80, 0x81, 0xb7, 0xb8, 0xbf, 0xc0, 0xf7, 0xf8, 0xff}
			b[0] = vals[r.Intn(len(vals))]
		}
	case 1: // truncation
		if len(b) > 0 {
			b = b[:r.Intn(len(b))]
		}
	case 2: // short truncation at the end
		if len(b) > 2 {
			b = b[:len(b)-r.Range(1, 2)]
		}
	case 3: // trailing bytes
		b = append(b, r.Bytes(r.Range(1, 3))...)
	case 4: // byte flip
		if len(b) > 0 {
			i := r.Intn(len(b))
			if r.Bool() && len(b) > 12 {
				i = r.Intn(12)
			}
			b[i] ^= byte(1 << uint(r.Intn(8)))
		}
	case 5: // byte replace near the front (headers)
		if len(b) > 0 {
			i := r.Intn(min(len(b), 8))
			b[i] = byte(r.U64())
		}
	case 6: // insert a byte
		i := r.Intn(len(b) + 1)
		b = append(b[:i:i], append([]byte{byte(r.U64())}, b[i:]...)...)
	case 7: // delete a byte
		if len(b) > 0 {
			i := r.Intn(len(b))
			b = append(b[:i:i], b[i+1:]...)
		}
	default: // prepend a type byte to a legacy list / strip it from a typed one
		if len(b) > 0 && b[0] > 0x7f {
			b = append([]byte{byte(r.Intn(6))}, b...)
		} else if len(b) > 0 {
			b = b[1:]
		}
	}
	return b
}

func elemOf(bin []byte) []byte {
	if len(bin) > 0 && bin[0] > 0x7f {
		return cpy(bin)
	}
	e, _ := rlp.EncodeToBytes(bin)
	return e
}

func gen(r0 *Rng, tier string, emit func(c Sx)) {
	r := NewRng(r0.U64())
	nTx, nBig := 700, 3
	if tier == "thorough" {
		nTx, nBig = 5000, 10
	}
	raw := func(b []byte) { emit(L(I(0), B(b))) }

	// fixed edge inputs
	for _, b := range [][]byte{{}, {0}, {1}, {3}, {4}, {5}, {0x7f}, {0x80}, {0xc0}, {0xff}, {1, 0xc0}, {3, 0xc0}, {3, 0xc1, 0xc0}, {3, 0xc2, 0xc0, 0xc0},
		{3, 0xc2, 0xc0, 0x80}, {3, 0xc2, 0xc0, 0x01}, {0x81, 0x01}, {0x81, 0x80}, {0x82, 0x01, 0xc0}, {0x82, 0x05, 0xc0}, {0xb8, 0x02, 0x01, 0xc0}, {0xc1, 0x80}} {
		raw(b)
	}
	for i := 0; i < nTx; i++ {
		ty, fields, sc := genTx(r, tier, false)
		emit(L(I(1), I(int64(ty)), fields, sc))
		// the same transaction's encodings, mutated (only for sidecars the implementation can encode)
		func() {
			defer func() { recover() }()
			tx := buildTx(ty, fields, sc)
			bin, err := tx.MarshalBinary()
			if err != nil {
				return
			}
			nm := 3
			for k := 0; k < nm; k++ {
				var m []byte
				if r.Chance(1, 2) {
					// structure-aware: tamper with the RLP tree of the payload
					off := 0
					if bin[0] <= 0x7f {
						off = 1
					}
					root, rest, ok := parseNode(bin[off:])
					if !ok || len(rest) != 0 {
						continue
					}
					mutateTree(r, root)
					m = append(cpy(bin[:off]), root.enc()...)
				} else {
					m = mutateRaw(r, bin)
				}
				if r.Chance(1, 2) {
					raw(m)
				} else {
					// as a list element, optionally followed by more input; sometimes mutate the outer form instead
					e := elemOf(m)
					switch r.Intn(4) {
					case 0:
						e = append(e, r.Bytes(r.Range(1, 4))...)
					case 1:
						e = mutateRaw(r, elemOf(bin))
					}
					raw(e)
				}
			}
			if r.Chance(1, 6) {
				raw(bin)
				raw(elemOf(bin))
			}
		}()
	}
	// a few transactions with real-size blobs (large cases)
	for i := 0; i < nBig; i++ {
		var ty int
		var fields, sc Sx
		for {
			ty, fields, sc = genTx(r, tier, true)
			if ty == 3 && len(AsList(sc)) > 0 && len(AsList(AsList(sc)[1])) > 0 {
				break
			}
		}
		emit(L(I(1), I(int64(ty)), fields, sc))
		if i%3 == 0 {
			func() {
				defer func() { recover() }()
				bin, err := buildTx(ty, fields, sc).MarshalBinary()
				if err != nil {
					return
				}
				// blob length off by one inside the wrapper, and a truncated wrapper
				root, _, ok := parseNode(bin[1:])
				if ok && len(root.kids) >= 3 {
					bl := root.kids[len(root.kids)-3]
					if len(bl.kids) > 0 {
						bl.kids[0].data = bl.kids[0].data[1:]
						raw(append([]byte{3}, root.enc()...))
					}
				}
				raw(bin[:len(bin)-1])
			}()
		}
	}
	// targeted tampering with the sidecar wrapper of zero-blob network encodings
	for i := 0; i < nTx/6; i++ {
		var ty int
		var fields, sc Sx
		for {
			ty, fields, sc = genTx(r, tier, false)
			if ty == 3 && len(AsList(sc)) > 0 {
				break
			}
		}
		func() {
			defer func() { recover() }()
			bin, err := buildTx(ty, fields, sc).MarshalBinary()
			if err != nil {
				return
			}
			root, _, ok := parseNode(bin[1:])
			if !ok || len(root.kids) < 4 {
				return
			}
			switch r.Intn(8) {
			case 0: // version value
				vals := [][]byte{nil, {0}, {1}, {2}, {0x7f}, {0x80}, {0xff}, {1, 0}, {0, 1}}
				v := &node{data: vals[r.Intn(len(vals))]}
				if len(root.kids) == 5 {
					root.kids[1] = v
				} else {
					root.kids = append([]*node{root.kids[0], v}, root.kids[1:]...)
				}
			case 1: // drop the version / one of the lists
				i := r.Range(1, len(root.kids)-1)
				root.kids = append(root.kids[:i:i], root.kids[i+1:]...)
			case 2: // the tx part becomes a string (canonical form + extras) or an empty list
				if r.Bool() {
					root.kids[0] = &node{list: true}
				} else {
					root.kids[0] = &node{data: root.kids[0].enc()}
				}
			case 3: // wrong element sizes in commitments / proofs
				k := root.kids[len(root.kids)-1-r.Intn(2)]
				k.kids = append(k.kids, &node{data: r.Bytes(r.Range(46, 50))})
			case 4: // a short fake blob
				k := root.kids[len(root.kids)-3]
				k.kids = append(k.kids, &node{data: r.Bytes(r.Range(0, 64))})
			case 5: // extra trailing element in the wrapper
				root.kids = append(root.kids, &node{list: r.Bool()})
			case 6: // lists replaced by strings
				k := root.kids[r.Range(1, len(root.kids)-1)]
				k.list, k.kids, k.data = false, nil, nil
			default: // mutate inside the inner tx
				mutateTree(r, root.kids[0])
			}
			m := append([]byte{3}, root.enc()...)
			if r.Bool() {
				raw(m)
			} else {
				raw(elemOf(m))
			}
		}()
	}
	// list-element spellings that must be rejected: an RLP string wrapping a legacy tx list, a
	// nested element (string of a string element), the empty string, single bytes
	wrap := func(b []byte) []byte { e, _ := rlp.EncodeToBytes(b); return e }
	for _, b := range [][]byte{{0x80}, {0x81, 0x80}, {0x81, 0xc0}, {0x81, 0xff}, {0x00}, {0x7f}, {0x82, 0xc1, 0x80}, {0x82, 0x80, 0x80},
		{0x83, 0xc2, 0x80, 0x80}, {0x8a, 0xc9, 0x80, 0x80, 0x80, 0x80, 0x80, 0x80, 0x80, 0x80, 0x80}} {
		raw(b)
	}
	for i := 0; i < nTx/5; i++ {
		ty, fields, sc := genTx(r, tier, false)
		func() {
			defer func() { recover() }()
			bin, err := buildTx(ty, fields, sc).MarshalBinary()
			if err != nil {
				return
			}
			var e []byte
			switch {
			case ty == 0 && r.Chance(3, 4):
				e = wrap(bin) // string around the legacy list
			case ty == 0:
				e = wrap(append([]byte{byte(r.Intn(5))}, bin...)) // type byte in front of a legacy list
			case r.Chance(1, 2):
				e = wrap(elemOf(bin)) // nested element
			default:
				e = wrap(wrap(append([]byte{0xc0 + byte(r.Intn(8))}, bin[1:]...))) // garbage with a list-like first byte
			}
			switch r.Intn(4) {
			case 0:
				e = append(e, r.Bytes(r.Range(1, 3))...)
			case 1:
				raw(e[1:]) // also the unwrapped inside as a binary envelope / element
			}
			raw(e)
		}()
	}
	// random bytes
	for i := 0; i < nTx/4; i++ {
		b := r.Bytes(r.Range(1, 40))
		if r.Bool() {
			b[0] = byte(r.Intn(6))
		}
		raw(b)
	}
}
