package main

// The SOURCE state of a C47 case: the target the snap syncer has to reconstruct.
// Accounts and slots are raw (hash key -> value) trie entries, as in
// eth/protocols/snap/sync_test.go, held in a hash-scheme trie database from which
// the scripted peers answer (range proofs via trie.Prove, heal nodes by hash).

import (
	"bytes"
	"fmt"
	"math/big"
	"sort"

	"github.com/ethereum/go-ethereum/common"
	"github.com/ethereum/go-ethereum/core/rawdb"
	"github.com/ethereum/go-ethereum/core/types"
	"github.com/ethereum/go-ethereum/crypto"
	"github.com/ethereum/go-ethereum/ethdb"
	"github.com/ethereum/go-ethereum/rlp"
	"github.com/ethereum/go-ethereum/trie"
	"github.com/ethereum/go-ethereum/trie/trienode"
	"github.com/ethereum/go-ethereum/triedb"
	. "gethverif/harness/hxlib"
)

type slot struct {
	Key common.Hash
	Val []byte
}

type account struct {
	Key      common.Hash
	Blob     []byte // full RLP of types.StateAccount
	Root     common.Hash
	CodeHash common.Hash
	Slots    []slot // sorted by key
	slotIdx  map[common.Hash]int
	stTrie   *trie.Trie
}

type source struct {
	Accounts []*account // sorted by key
	byKey    map[common.Hash]int
	Codes    [][]byte
	CodeHash []common.Hash
	codeIdx  map[common.Hash]int
	root     common.Hash
	accTrie  *trie.Trie
	disk     ethdb.Database
}

func hashSx(h common.Hash) Sx { return Big(new(big.Int).SetBytes(h[:])) }

func sxHash(x Sx) common.Hash {
	v, ok := x.(SI)
	if !ok || v.V.Sign() < 0 || v.V.BitLen() > 256 {
		panic("hxlib: bad hash")
	}
	return common.BigToHash(v.V)
}

func sxInt(x Sx) int {
	v, ok := x.(SI)
	if !ok || !v.V.IsInt64() {
		panic("hxlib: bad int")
	}
	return int(v.V.Int64())
}
func sxList(x Sx) SL {
	v, ok := x.(SL)
	if !ok {
		panic("hxlib: bad list")
	}
	return v
}
func sxBytes(x Sx) []byte {
	v, ok := x.(SB)
	if !ok {
		panic("hxlib: bad bytes")
	}
	return []byte(v)
}

// sx: ( (key blob root codehash ((slotkey val)...))...  ) ( (hash code)... )
func (s *source) sx() (Sx, Sx) {
	accs := SL{}
	for _, a := range s.Accounts {
		sl := SL{}
		for _, st := range a.Slots {
			sl = append(sl, L(hashSx(st.Key), B(st.Val)))
		}
		accs = append(accs, L(hashSx(a.Key), B(a.Blob), hashSx(a.Root), hashSx(a.CodeHash), sl))
	}
	codes := SL{}
	for i, c := range s.Codes {
		codes = append(codes, L(hashSx(s.CodeHash[i]), B(c)))
	}
	return accs, codes
}

// buildSource (re)constructs the tries. Inconsistent cases (unsorted keys, a blob whose
// root/code hash differ from the declared ones or from the slots) are shape errors.
func buildSource(accs, codes Sx) *source {
	s := &source{byKey: map[common.Hash]int{}, codeIdx: map[common.Hash]int{}}
	s.disk = rawdb.NewMemoryDatabase()
	tdb := triedb.NewDatabase(s.disk, triedb.HashDefaults)
	nodes := trienode.NewMergedNodeSet()
	accTrie := trie.NewEmpty(tdb)
	var prev *common.Hash
	for _, ax := range sxList(accs) {
		f := sxList(ax)
		if len(f) != 5 {
			panic("hxlib: account shape")
		}
		a := &account{Key: sxHash(f[0]), Blob: sxBytes(f[1]), Root: sxHash(f[2]), CodeHash: sxHash(f[3]), slotIdx: map[common.Hash]int{}}
		if prev != nil && bytes.Compare(prev[:], a.Key[:]) >= 0 {
			panic("hxlib: accounts not sorted")
		}
		k := a.Key
		prev = &k
		var dec types.StateAccount
		if err := rlp.DecodeBytes(a.Blob, &dec); err != nil {
			panic("hxlib: account blob")
		}
		if dec.Root != a.Root || common.BytesToHash(dec.CodeHash) != a.CodeHash {
			panic("hxlib: account attrs")
		}
		if re, _ := rlp.EncodeToBytes(&dec); !bytes.Equal(re, a.Blob) {
			panic("hxlib: account blob not canonical")
		}
		var pk *common.Hash
		st := trie.NewEmpty(tdb)
		for _, sx := range sxList(f[4]) {
			g := sxList(sx)
			if len(g) != 2 {
				panic("hxlib: slot shape")
			}
			sl := slot{Key: sxHash(g[0]), Val: sxBytes(g[1])}
			if len(sl.Val) == 0 || (pk != nil && bytes.Compare(pk[:], sl.Key[:]) >= 0) {
				panic("hxlib: slots")
			}
			kk := sl.Key
			pk = &kk
			a.slotIdx[sl.Key] = len(a.Slots)
			a.Slots = append(a.Slots, sl)
			st.MustUpdate(sl.Key[:], sl.Val)
		}
		sroot, set := st.Commit(false)
		if sroot != a.Root {
			panic("hxlib: storage root mismatch")
		}
		if set != nil {
			// one Update/Commit per storage trie: all tries here have the zero owner
			if err := tdb.Update(sroot, types.EmptyRootHash, 0, trienode.NewWithNodeSet(set), triedb.NewStateSet()); err != nil {
				panic("hxlib: triedb update " + err.Error())
			}
			if err := tdb.Commit(sroot, false); err != nil {
				panic("hxlib: triedb commit " + err.Error())
			}
		}
		accTrie.MustUpdate(a.Key[:], a.Blob)
		s.byKey[a.Key] = len(s.Accounts)
		s.Accounts = append(s.Accounts, a)
	}
	root, set := accTrie.Commit(true)
	if set != nil {
		if err := nodes.Merge(set); err != nil {
			panic("hxlib: merge " + err.Error())
		}
	}
	if err := tdb.Update(root, types.EmptyRootHash, 0, nodes, triedb.NewStateSet()); err != nil {
		panic("hxlib: triedb update " + err.Error())
	}
	if root != types.EmptyRootHash {
		if err := tdb.Commit(root, false); err != nil {
			panic("hxlib: triedb commit " + err.Error())
		}
	}
	s.root = root
	var err error
	if s.accTrie, err = trie.New(trie.StateTrieID(root), tdb); err != nil {
		panic("hxlib: reopen " + err.Error())
	}
	for _, a := range s.Accounts {
		if a.Root == types.EmptyRootHash {
			continue
		}
		if a.stTrie, err = trie.New(trie.StorageTrieID(root, a.Key, a.Root), tdb); err != nil {
			panic("hxlib: reopen storage " + err.Error())
		}
	}
	for _, cx := range sxList(codes) {
		f := sxList(cx)
		if len(f) != 2 {
			panic("hxlib: code shape")
		}
		h, c := sxHash(f[0]), sxBytes(f[1])
		if crypto.Keccak256Hash(c) != h {
			panic("hxlib: code hash")
		}
		if _, dup := s.codeIdx[h]; dup {
			panic("hxlib: dup code")
		}
		s.codeIdx[h] = len(s.Codes)
		s.Codes = append(s.Codes, c)
		s.CodeHash = append(s.CodeHash, h)
	}
	for _, a := range s.Accounts {
		if a.CodeHash != types.EmptyCodeHash {
			if _, ok := s.codeIdx[a.CodeHash]; !ok {
				panic("hxlib: account code missing")
			}
		}
	}
	return s
}

// firstGE is the index of the first account with key >= h.
func (s *source) firstGE(h common.Hash) int {
	return sort.Search(len(s.Accounts), func(i int) bool { return bytes.Compare(s.Accounts[i].Key[:], h[:]) >= 0 })
}
func (a *account) firstGE(h common.Hash) int {
	return sort.Search(len(a.Slots), func(i int) bool { return bytes.Compare(a.Slots[i].Key[:], h[:]) >= 0 })
}

func proofList(t *trie.Trie, keys ...[]byte) [][]byte {
	set := trienode.NewProofSet()
	for _, k := range keys {
		if err := t.Prove(k, set); err != nil {
			panic(fmt.Sprintf("prove: %v", err))
		}
	}
	return set.List()
}

func incHash(h common.Hash) common.Hash {
	for i := len(h) - 1; i >= 0; i-- {
		h[i]++
		if h[i] != 0 {
			break
		}
	}
	return h
}
