// Family c47: the snap/1 state syncer (eth/protocols/snap/sync.go: Sync, assign*Tasks,
// OnAccounts/OnStorage/OnByteCodes, process*Response, forwardAccountTask, save/loadSyncStatus)
// run in-process over a destination memory database against scripted peers, vs the model
// coq/Net/SnapSync.v.
//
// A case is ( cfg accounts codes events script ):
//   cfg      (scheme accountConcurrency storageConcurrency)
//   accounts ((key blob root codehash ((slotkey val)...))...)   the target state, sorted
//   codes    ((hash code)...)
//   events   the model-facing trace RECORDED from the real run at generation time: per
//            delivered response the explicit items, the verifier's verdict and `more`
//   script   the same run as behaviours (kind request-number behaviour p1 p2) which Run
//            replays against the real syncer; Run re-derives every event and a case whose
//            events differ from the re-derived ones is reported (replay desync).
// Observables: per event a digest of the task list (outstanding requests, tasks, sum of all
// Next markers mod 2^64, sum of pend), at every restart the persisted progress and the flat
// state, at the end the Sync error class and the flat state at the end of the snap phase.
package main

import (
	"bytes"
	"fmt"
	"sort"

	"github.com/ethereum/go-ethereum/common"
	"github.com/ethereum/go-ethereum/core/rawdb"
	"github.com/ethereum/go-ethereum/core/types"
	"github.com/ethereum/go-ethereum/crypto"
	"github.com/ethereum/go-ethereum/eth/protocols/snap"
	"github.com/ethereum/go-ethereum/rlp"
	"github.com/ethereum/go-ethereum/trie"
	"github.com/holiman/uint256"
	. "gethverif/harness/hxlib"
)

type config struct{ scheme, accConc, stoConc int }

func schemeName(i int) string {
	if i == 1 {
		return rawdb.PathScheme
	}
	return rawdb.HashScheme
}

// session runs a whole script (live: chosen by next(); replay: from the case).
type session struct {
	d      *driver
	cfg    config
	events SL
	script SL
	final  Sx
}

func (s *session) restart(e desc) Sx {
	d := s.d
	d.stop()
	if d.panicMsg != "" {
		d.fail("Sync panicked: %s", d.panicMsg)
	}
	f := d.dump()
	d.checkSubset(f, "restart")
	d.saves = append(d.saves, L(I(errClass(d.syncErr, d.panicMsg)), d.savedProgress(), d.dumpSx(f)))
	if e.p1%2 == 1 {
		// a fresh syncer object over the same database (process restart)
		d.v = snap.NewVerifC47Syncer(d.db, d.scheme)
		d.peers = map[string]*dummyPeer{}
		for i := 0; i < nPeers; i++ {
			d.addPeer()
		}
		d.tags["restart-fresh-syncer"] = true
	}
	d.tags["restart"] = true
	d.start(d.src.root)
	d.events++
	return L(I(4), hashSx(d.src.root))
}

func (s *session) finish(kind int) Sx {
	d := s.d
	if kind == 6 {
		if d.running && !d.v.Snapped() {
			desync("completion event but the snap phase is not done")
		}
		f := d.dump()
		d.checkSubset(f, "end of snap phase")
		snapSx := d.dumpSx(f)
		if d.running {
			d.serveHeal()
		}
		ec := errClass(d.syncErr, d.panicMsg)
		if d.panicMsg != "" {
			d.fail("Sync panicked: %s", d.panicMsg)
		}
		if ec == 0 {
			d.checkEqual(d.dump(), "after Sync returned nil")
			d.checkTrie()
			d.tags["complete"] = true
		} else {
			d.fail("Sync ended with error class %d (%v) although every task completed", ec, d.syncErr)
		}
		s.final = L(I(ec), d.savedProgress(), snapSx)
		return L(I(6))
	}
	d.stop()
	if d.panicMsg != "" {
		d.fail("Sync panicked: %s", d.panicMsg)
	}
	f := d.dump()
	d.checkSubset(f, "final cancel")
	ec := errClass(d.syncErr, d.panicMsg)
	if ec == 0 {
		d.fail("Sync returned nil on cancellation before completion")
	}
	d.tags["cancelled"] = true
	s.final = L(I(ec), d.savedProgress(), d.dumpSx(f))
	return L(I(5))
}

// step performs one script entry; returns true when the session is over.
func (s *session) step(e desc) bool {
	var ev Sx
	over := false
	switch e.kind {
	case 0, 1, 2:
		ev = s.d.apply(e)
	case 4:
		ev = s.restart(e)
	case 5, 6:
		ev = s.finish(e.kind)
		over = true
	default:
		panic("hxlib: script kind")
	}
	s.events = append(s.events, ev)
	s.script = append(s.script, e.sx())
	return over
}

func (s *session) snapDone() bool {
	return !s.d.running || len(s.d.heal) > 0 || (len(s.d.out) == 0 && s.d.v.Snapped())
}

// ---- live choice of the next script entry

type profile struct {
	misbehave int // percent of responses that misbehave
	maxItems  int
	restarts  int
	maxSteps  int
}

func (s *session) choose(r *Rng, p *profile, steps int) desc {
	d := s.d
	if s.snapDone() {
		return desc{kind: 6}
	}
	if steps >= p.maxSteps {
		return desc{kind: 5}
	}
	if p.restarts > 0 && r.Chance(1, 12) {
		p.restarts--
		return desc{kind: 4, p1: r.Intn(2)}
	}
	if len(d.out) == 0 {
		desync("no outstanding request but the snap phase is not done")
	}
	// stale delivery to a consumed request
	if r.Chance(p.misbehave, 600) && len(d.byNum) > len(d.out) {
		for try := 0; try < 8; try++ {
			n := r.Intn(len(d.byNum))
			live := false
			for _, o := range d.out {
				if o.ID == d.byNum[n].ID {
					live = true
				}
			}
			if !live {
				return desc{kind: d.byNum[n].Kind, num: n, beh: behStale, p1: r.Range(1, p.maxItems), p2: r.Intn(1000)}
			}
		}
	}
	q := d.out[r.Intn(len(d.out))]
	e := desc{kind: q.Kind, num: d.num[q.ID], beh: behHonest, p1: r.Range(1, p.maxItems), p2: r.Intn(100000)}
	if r.Chance(1, 4) {
		e.p1 = r.Range(1, 4)
	}
	if r.Chance(1, 5) {
		e.p1 = 1000
	}
	if !r.Chance(p.misbehave, 100) {
		if q.Kind == 2 && r.Chance(1, 6) {
			e.beh = behAlwaysPr
		}
		return e
	}
	var menu []int
	switch q.Kind {
	case 0:
		menu = []int{behBeyond, behBeyond, behEmptyAll, behNoItems, behCorrupt, behDrop, behNoNode, behSkip, behBefore, behSwap, behTimeout, behForge}
	case 2:
		menu = []int{behEmptyAll, behNoItems, behCorrupt, behDrop, behNoNode, behSwap, behTimeout, behForge, behAlwaysPr, behFewer, behLenMis, behTooMany, behBeyond, behBeyond}
		if q.Sub {
			menu = append(menu, behWhole, behWhole, behBeyond)
		}
	case 1:
		menu = []int{behEmptyAll, behCorrupt, behSwap, behTimeout, behForge, behFewer, behFewer}
	}
	e.beh = menu[r.Intn(len(menu))]
	return e
}

// ---- random targets

func randKey(r *Rng, conc int) common.Hash {
	var h common.Hash
	switch r.Intn(14) {
	case 0:
		// zero
	case 1:
		h = common.MaxHash
	case 2, 3:
		// a chunk boundary of the account task split, or next to one
		step := new(uint256.Int).Div(new(uint256.Int).SetAllOne(), uint256.NewInt(uint64(conc)))
		b := new(uint256.Int).Mul(step, uint256.NewInt(uint64(r.Intn(conc+1))))
		switch r.Intn(3) {
		case 0:
			b.SubUint64(b, 1)
		case 1:
			b.AddUint64(b, 1)
		}
		h = b.Bytes32()
	case 4:
		h[30] = byte(1 + r.Intn(3)) // tiny key
	default:
		copy(h[:], r.Bytes(32))
	}
	return h
}

func pfx63(h common.Hash) common.Hash {
	h[31] &= 0xf0
	return h
}

func genSource(r *Rng, tier string, cfg config) *source {
	maxAcc := 40
	if tier == "thorough" {
		maxAcc = 60
	}
	n := 1 + r.Intn(maxAcc)
	if r.Chance(1, 3) {
		n = 1 + r.Intn(8)
	}
	// code pool (shared codes)
	ncode := r.Intn(5)
	var codes [][]byte
	for i := 0; i < ncode; i++ {
		codes = append(codes, r.Bytes(1+r.Intn(40)))
	}
	// storage pool: some slot lists are shared between accounts (equal storage roots)
	type slotList []slot
	mkSlots := func(large bool) slotList {
		m := 1 + r.Intn(6)
		if large {
			m = 12 + r.Intn(50)
		}
		seen := map[common.Hash]bool{}
		var out slotList
		for len(out) < m {
			k := randKey(r, cfg.stoConc)
			if seen[pfx63(k)] {
				continue
			}
			seen[pfx63(k)] = true
			v, _ := rlp.EncodeToBytes(bytes.TrimLeft(r.Bytes(1+r.Intn(32)), "\x00"))
			if len(v) == 0 || (len(v) == 1 && v[0] == 0x80) {
				v = []byte{0x01}
			}
			out = append(out, slot{k, v})
		}
		sort.Slice(out, func(i, j int) bool { return bytes.Compare(out[i].Key[:], out[j].Key[:]) < 0 })
		return out
	}
	var pool []slotList
	for i := 0; i < 3; i++ {
		pool = append(pool, mkSlots(i == 0))
	}
	seen := map[common.Hash]bool{}
	var keys []common.Hash
	for len(keys) < n {
		// no zero account hash (the zero owner denotes the account trie itself) and no two
		// keys sharing 63 nibbles (leaf nodes at depth 64 are not representable in the path
		// scheme key space; neither is reachable with Keccak-256 images)
		k := randKey(r, cfg.accConc)
		if !seen[pfx63(k)] && k != (common.Hash{}) {
			seen[pfx63(k)] = true
			keys = append(keys, k)
		}
	}
	sort.Slice(keys, func(i, j int) bool { return bytes.Compare(keys[i][:], keys[j][:]) < 0 })
	accs := SL{}
	used := map[int]bool{}
	for _, k := range keys {
		var sl slotList
		switch r.Intn(10) {
		case 0, 1:
			sl = pool[r.Intn(len(pool))]
		case 2:
			sl = mkSlots(false)
		case 3:
			if r.Chance(1, 2) {
				sl = mkSlots(true)
			}
		}
		tr := trie.NewEmpty(nil)
		ssx := SL{}
		for _, s := range sl {
			tr.MustUpdate(s.Key[:], s.Val)
			ssx = append(ssx, L(hashSx(s.Key), B(s.Val)))
		}
		root := tr.Hash()
		ch := types.EmptyCodeHash
		if len(codes) > 0 && r.Chance(1, 3) {
			ci := r.Intn(len(codes))
			used[ci] = true
			ch = crypto.Keccak256Hash(codes[ci])
		}
		blob, _ := rlp.EncodeToBytes(&types.StateAccount{Nonce: uint64(r.Intn(1000)), Balance: uint256.NewInt(r.U64() >> uint(r.Intn(64))), Root: root, CodeHash: ch[:]})
		accs = append(accs, L(hashSx(k), B(blob), hashSx(root), hashSx(ch), ssx))
	}
	csx := SL{}
	dup := map[common.Hash]bool{}
	for i, c := range codes {
		h := crypto.Keccak256Hash(c)
		if !used[i] && r.Chance(1, 2) || dup[h] {
			continue
		}
		dup[h] = true
		csx = append(csx, L(hashSx(h), B(c)))
	}
	return buildSource(accs, csx)
}

func cfgSx(c config) Sx { return L(I(int64(c.scheme)), I(int64(c.accConc)), I(int64(c.stoConc))) }

func gen(r *Rng, tier string, emit func(Sx)) {
	r = NewRng(r.U64())
	n := 36
	if tier == "thorough" {
		n = 360
	}
	for i := 0; i < n; i++ {
		cr := r.Fork()
		cfg := config{scheme: cr.Intn(2), accConc: []int{1, 2, 3, 4, 16}[cr.Intn(5)], stoConc: []int{2, 3, 4, 16}[cr.Intn(4)]}
		if cfg.accConc == 16 && !cr.Chance(1, 4) {
			cfg.accConc = 2
		}
		src := genSource(cr, tier, cfg)
		p := &profile{misbehave: []int{0, 10, 30, 60}[cr.Intn(4)], maxItems: []int{3, 8, 30}[cr.Intn(3)], restarts: cr.Intn(4), maxSteps: 400}
		if cr.Chance(1, 8) {
			p.maxSteps = 5 + cr.Intn(40)
		}
		var c Sx
		for attempt := 0; attempt < 3 && c == nil; attempt++ {
			c = genCase(cr.Fork(), cfg, src, p)
		}
		if c != nil {
			emit(c)
		}
	}
}

// genCase runs the real syncer live and records events + script.
func genCase(r *Rng, cfg config, src *source, p0 *profile) (c Sx) {
	defer func() {
		if e := recover(); e != nil {
			if _, ok := e.(desyncError); ok {
				c = nil
				return
			}
			panic(e)
		}
	}()
	p := *p0
	s := &session{cfg: cfg, d: newDriver(src, schemeName(cfg.scheme), cfg.accConc, cfg.stoConc)}
	defer func() { s.d.stop() }()
	s.d.start(src.root)
	for steps := 0; ; steps++ {
		if s.step(s.choose(r, &p, steps)) {
			break
		}
	}
	a, cs := src.sx()
	return L(cfgSx(cfg), a, cs, s.events, s.script)
}

func run(c Sx) Result {
	f := sxList(c)
	if len(f) != 5 {
		panic("hxlib: case shape")
	}
	cf := sxList(f[0])
	if len(cf) != 3 {
		panic("hxlib: cfg shape")
	}
	cfg := config{sxInt(cf[0]), sxInt(cf[1]), sxInt(cf[2])}
	if cfg.scheme < 0 || cfg.scheme > 1 || cfg.accConc < 1 || cfg.accConc > 64 || cfg.stoConc < 2 || cfg.stoConc > 64 {
		panic("hxlib: cfg range")
	}
	src := buildSource(f[1], f[2])
	events, script := sxList(f[3]), sxList(f[4])
	if len(script) == 0 || len(events) == 0 {
		panic("hxlib: events/script length")
	}
	if src.root == types.EmptyRootHash {
		panic("hxlib: empty target")
	}
	var res Result
	for attempt := 0; attempt < 3; attempt++ {
		var retry bool
		res, retry = runOnce(cfg, src, events, script)
		if !retry {
			return res
		}
	}
	// the recorded trace does not fit the real run (three attempts): a shape error, so that the
	// shrinker does not take a malformed candidate for a failing one; in run mode it is reported
	panic("hxlib: " + res.Oracle)
}

func runOnce(cfg config, src *source, events, script SL) (res Result, retry bool) {
	s := &session{cfg: cfg, d: newDriver(src, schemeName(cfg.scheme), cfg.accConc, cfg.stoConc)}
	defer func() {
		s.d.stop()
		if e := recover(); e != nil {
			if de, ok := e.(desyncError); ok {
				// the recorded trace does not fit the real run: a malformed (e.g. shrunk)
				// case, or harness nondeterminism
				if len(s.d.oracle) > 0 {
					// the property already failed on the real code before the trace stopped fitting
					res = Result{Obs: L(I(-8)), Oracle: s.d.oracle[0], Tags: []string{"failed-before-desync"}, NonTrivial: true}
					return
				}
				// the recorded trace no longer fits: let the real syncer run on, honestly served, and
				// judge the property itself on the outcome; only if that holds is it a mere desync
				if msg := s.freeRun(); msg != "" {
					res = Result{Obs: L(I(-8)), Oracle: msg + " (honest free run after replay desync: " + de.msg + ")",
						Tags: []string{"failed-after-desync"}, NonTrivial: true}
					return
				}
				res = Result{Obs: L(I(-9)), Oracle: "harness shape error: replay desync: " + de.msg}
				retry = true
				return
			}
			panic(e)
		}
	}()
	s.d.start(src.root)
	over := false
	for i, sx := range script {
		if over {
			panic("hxlib: script continues after its end")
		}
		e := sxDesc(sx)
		if (e.kind == 6) != s.snapDone() && e.kind != 5 && e.kind != 4 {
			desync("entry %d: completion mismatch (script kind %d, snap done %v)", i, e.kind, s.snapDone())
		}
		if i >= len(events) {
			panic("hxlib: events shorter than script")
		}
		over = s.step(e)
		if String(s.events[i]) != String(events[i]) {
			desync("entry %d: recorded event %s, re-derived %s", i, trunc(String(events[i])), trunc(String(s.events[i])))
		}
		if len(s.d.oracle) > 0 && !over {
			// stop at the first direct oracle failure: whatever follows in the case is irrelevant
			// (lets the shrinker cut the tails of events and script independently)
			return Result{Obs: L(I(-8)), Oracle: s.d.oracle[0], Tags: []string{"stopped-at-first-failure"}, NonTrivial: true}, false
		}
	}
	if !over {
		panic("hxlib: script has no end")
	}
	if len(events) != len(script) {
		panic("hxlib: events/script length")
	}
	d := s.d
	tags := []string{fmt.Sprintf("scheme=%s", d.scheme), fmt.Sprintf("accounts<=%d", bucket(len(src.Accounts))), fmt.Sprintf("events<=%d", bucket(len(script))),
		fmt.Sprintf("conc=%d/%d", cfg.accConc, cfg.stoConc)}
	large := false
	for _, a := range src.Accounts {
		if len(a.Slots) > 8 {
			large = true
		}
	}
	if large {
		tags = append(tags, "large-storage")
	}
	for t := range d.tags {
		tags = append(tags, t)
	}
	oracle := ""
	if len(d.oracle) > 0 {
		oracle = d.oracle[0]
	}
	return Result{Obs: L(d.digests, d.saves, s.final), Oracle: oracle, Tags: tags,
		NonTrivial: len(script) >= 4 && (d.tags["acc-accepted"] || d.tags["sto-accepted"])}, false
}

// freeRun serves every outstanding request honestly until the snap phase is over, completes the
// sync and returns the first direct oracle failure ("" if the property holds on this run).
func (s *session) freeRun() (msg string) {
	defer func() {
		if e := recover(); e != nil {
			if len(s.d.oracle) > 0 {
				msg = s.d.oracle[0]
			} else {
				msg = ""
			}
		}
	}()
	d := s.d
	if !d.running {
		return ""
	}
	d.settle()
	for steps := 0; steps < 3000 && !s.snapDone(); steps++ {
		if len(d.out) == 0 {
			return ""
		}
		q := d.out[0]
		d.apply(desc{kind: q.Kind, num: d.num[q.ID], beh: behHonest, p1: 1000})
		if len(d.oracle) > 0 {
			return d.oracle[0]
		}
	}
	if !s.snapDone() {
		return ""
	}
	s.finish(6)
	if len(d.oracle) > 0 {
		return d.oracle[0]
	}
	return ""
}

func trunc(s string) string {
	if len(s) > 200 {
		return s[:200] + "..."
	}
	return s
}

func bucket(n int) int {
	for _, b := range []int{1, 4, 16, 64, 256, 1024} {
		if n <= b {
			return b
		}
	}
	return 1 << 20
}

func main() {
	Main(Family{
		ID: "C47",
		Rule: "random target states (1-40 accounts quick / 1-300 thorough; keys include 0, 2^256-1, task-chunk boundaries; small, large and shared storage tries with tiny slot keys forcing chunking; shared codes), " +
			"account/storage concurrency 1-16, hash and path scheme; the real syncer is driven event by event (honest, truncated, beyond-limit, empty, proof-only, corrupted, gapped, reordered, forged, " +
			"proof-node-missing, before-origin, whole-trie-without-proof, length-mismatch, stale and timed-out responses; restarts with the same or a fresh syncer object; final cancel). " +
			"Non-trivial: at least 4 events and at least one accepted account or storage response.",
		Gen: gen,
		Run: run,
	})
}
