package main

// Peer behaviours.  A script entry (kind num beh p1 p2) names a tracked request by its
// harness number and a behaviour; materialising it against the source state gives the
// concrete response sent through the real On* handler AND the model-facing event
// (explicit items, the verifier's verdict and `more`).

import (
	"bytes"

	"github.com/ethereum/go-ethereum/common"
	"github.com/ethereum/go-ethereum/core/types"
	"github.com/ethereum/go-ethereum/crypto"
	"github.com/ethereum/go-ethereum/eth/protocols/snap"
	. "gethverif/harness/hxlib"
)

type desc struct{ kind, num, beh, p1, p2 int }

func (e desc) sx() Sx {
	return L(I(int64(e.kind)), I(int64(e.num)), I(int64(e.beh)), I(int64(e.p1)), I(int64(e.p2)))
}
func sxDesc(x Sx) desc {
	f := sxList(x)
	if len(f) != 5 {
		panic("hxlib: script entry shape")
	}
	return desc{sxInt(f[0]), sxInt(f[1]), sxInt(f[2]), sxInt(f[3]), sxInt(f[4])}
}

const (
	behHonest   = 0
	behBeyond   = 1
	behEmptyAll = 2
	behNoItems  = 3
	behCorrupt  = 4
	behDrop     = 5
	behNoNode   = 6
	behSkip     = 7
	behBefore   = 8
	behSwap     = 9
	behStale    = 10
	behTimeout  = 11
	behForge    = 12
	behAlwaysPr = 13
	behFewer    = 14
	behLenMis   = 15
	behTooMany  = 16
	behWhole    = 17
)

func mod(a, n int) int {
	if n <= 0 {
		return 0
	}
	if a < 0 {
		a = -a
	}
	return a % n
}

type item struct {
	key common.Hash
	val []byte
	ref int // index into the target list, or -1
}

func flip(b []byte, p int) []byte {
	c := common.CopyBytes(b)
	if len(c) == 0 {
		return []byte{1}
	}
	c[mod(p, len(c))] ^= 0x01
	return c
}

// ---- accounts

func (d *driver) accountItems(r snap.VerifC47Req, e desc) (items []item, proof [][]byte) {
	src := d.src
	n := len(src.Accounts)
	take := func(from, max, beyond int) []item {
		var out []item
		extra := -1
		for i := from; i < n; i++ {
			if len(out) >= max && extra < 0 {
				break
			}
			a := src.Accounts[i]
			out = append(out, item{a.Key, a.Blob, i})
			if extra >= 0 {
				extra++
				if extra >= beyond {
					break
				}
			} else if bytes.Compare(a.Key[:], r.Limit[:]) >= 0 {
				if beyond <= 0 {
					break
				}
				extra = 0
			}
		}
		return out
	}
	first := src.firstGE(r.Origin)
	max := e.p1
	if max < 1 {
		max = 1
	}
	switch e.beh {
	case behEmptyAll:
		return nil, nil
	case behNoItems:
		return nil, proofList(src.accTrie, r.Origin[:])
	case behBeyond:
		items = take(first, max, 1+mod(e.p2, 4))
	case behSkip:
		items = take(first+1+mod(e.p2, 3), max, 0)
	case behBefore:
		if first > 0 {
			items = take(first-1, max+1, 0)
		} else {
			items = take(first, max, 0)
		}
	default:
		items = take(first, max, 0)
	}
	switch e.beh {
	case behCorrupt:
		if len(items) > 0 {
			j := mod(e.p2, len(items))
			items[j] = item{items[j].key, flip(items[j].val, e.p2/7), -1}
		}
	case behDrop:
		if len(items) > 1 {
			j := mod(e.p2, len(items)-1)
			items = append(items[:j:j], items[j+1:]...)
		}
	case behSwap:
		if len(items) > 1 {
			j := mod(e.p2, len(items)-1)
			items[j], items[j+1] = items[j+1], items[j]
		}
	case behForge:
		k := crypto.Keccak256Hash([]byte{byte(e.p2), byte(e.p2 >> 8), 0x47})
		if _, exists := src.byKey[k]; !exists {
			blob := []byte{0xc4, 0x01, 0x02, 0x80, 0x80}
			if len(src.Accounts) > 0 {
				blob = src.Accounts[mod(e.p2, len(src.Accounts))].Blob
			}
			pos := 0
			for pos < len(items) && bytes.Compare(items[pos].key[:], k[:]) < 0 {
				pos++
			}
			items = append(items[:pos:pos], append([]item{{k, blob, -1}}, items[pos:]...)...)
		}
	}
	keys := [][]byte{r.Origin[:]}
	if len(items) > 0 {
		keys = append(keys, items[len(items)-1].key[:])
	}
	proof = proofList(src.accTrie, keys...)
	if e.beh == behNoNode && len(proof) > 0 {
		j := mod(e.p2, len(proof))
		proof = append(proof[:j:j], proof[j+1:]...)
	}
	return items, proof
}

func (d *driver) accountItemSx(it item) Sx {
	if it.ref >= 0 {
		return I(int64(it.ref))
	}
	root, code, _ := decodeAttrs(it.val)
	return L(hashSx(it.key), B(it.val), hashSx(root), hashSx(code))
}

// ---- storage

type sset struct {
	items []item
}

func (d *driver) storageSets(r snap.VerifC47Req, e desc) (sets []sset, proof [][]byte, lenMis bool) {
	src := d.src
	budget := e.p1
	if budget < 1 {
		budget = 1
	}
	accOf := func(i int) *account {
		if j, ok := src.byKey[r.Accounts[i]]; ok {
			return src.Accounts[j]
		}
		return nil
	}
	slotsOf := func(a *account, from int, origin common.Hash, limit common.Hash, max int, beyond int) (out []item, partial bool) {
		extra := -1
		for i := from; i < len(a.Slots); i++ {
			if len(out) >= max && extra < 0 {
				return out, true
			}
			s := a.Slots[i]
			out = append(out, item{s.Key, s.Val, i})
			if extra >= 0 {
				extra++
				if extra >= beyond {
					return out, i+1 < len(a.Slots)
				}
			} else if bytes.Compare(s.Key[:], limit[:]) >= 0 {
				if beyond <= 0 {
					return out, i+1 < len(a.Slots)
				}
				extra = 0
			}
		}
		return out, false
	}
	prove := func(a *account, origin common.Hash, its []item) [][]byte {
		if a == nil || a.stTrie == nil {
			return nil
		}
		keys := [][]byte{origin[:]}
		if len(its) > 0 {
			keys = append(keys, its[len(its)-1].key[:])
		}
		return proofList(a.stTrie, keys...)
	}
	limit := common.MaxHash
	if r.Sub {
		limit = r.Limit
	}
	switch e.beh {
	case behEmptyAll:
		return nil, nil, false
	case behNoItems:
		a := accOf(0)
		return nil, prove(a, r.Origin, nil), false
	case behWhole:
		a := accOf(0)
		if a != nil {
			its, _ := slotsOf(a, 0, common.Hash{}, common.MaxHash, 1<<30, 0)
			return []sset{{its}}, nil, false
		}
		return nil, nil, false
	}
	// honest-shaped walk over the requested accounts
	fewer := -1
	if e.beh == behFewer {
		fewer = mod(e.p2, len(r.Accounts)+1)
	}
	var lastAcc *account
	var lastOrigin common.Hash
	proved := false
	for i := range r.Accounts {
		if fewer >= 0 && i >= fewer {
			break
		}
		a := accOf(i)
		if a == nil {
			break
		}
		origin := common.Hash{}
		from := 0
		if i == 0 && r.Sub {
			origin = r.Origin
			from = a.firstGE(origin)
		}
		beyond := 0
		if e.beh == behBeyond && r.Sub {
			beyond = 1 + mod(e.p2, 3)
		}
		its, partial := slotsOf(a, from, origin, limit, budget, beyond)
		budget -= len(its)
		sets = append(sets, sset{its})
		lastAcc, lastOrigin = a, origin
		if partial || origin != (common.Hash{}) || (r.Sub && !partial) {
			proof = prove(a, origin, its)
			proved = true
			break
		}
		if budget <= 0 {
			break
		}
	}
	if e.beh == behAlwaysPr && !proved && lastAcc != nil && len(sets) > 0 {
		proof = prove(lastAcc, lastOrigin, sets[len(sets)-1].items)
	}
	switch e.beh {
	case behCorrupt:
		if len(sets) > 0 {
			s := &sets[mod(e.p2, len(sets))]
			if len(s.items) > 0 {
				j := mod(e.p2/3, len(s.items))
				s.items[j] = item{s.items[j].key, flip(s.items[j].val, e.p2/11), -1}
			}
		}
	case behDrop:
		if len(sets) > 0 {
			s := &sets[mod(e.p2, len(sets))]
			if len(s.items) > 1 {
				j := mod(e.p2/3, len(s.items)-1)
				s.items = append(s.items[:j:j], s.items[j+1:]...)
			}
		}
	case behSwap:
		if len(sets) > 0 {
			s := &sets[mod(e.p2, len(sets))]
			if len(s.items) > 1 {
				j := mod(e.p2/3, len(s.items)-1)
				s.items[j], s.items[j+1] = s.items[j+1], s.items[j]
			}
		}
	case behNoNode:
		if len(proof) > 0 {
			j := mod(e.p2, len(proof))
			proof = append(proof[:j:j], proof[j+1:]...)
		}
	case behLenMis:
		lenMis = true
	case behTooMany:
		for len(sets) <= len(r.Accounts) {
			sets = append(sets, sset{})
		}
	case behForge:
		if len(sets) > 0 {
			s := &sets[len(sets)-1]
			k := crypto.Keccak256Hash([]byte{byte(e.p2), 0x48})
			pos := 0
			for pos < len(s.items) && bytes.Compare(s.items[pos].key[:], k[:]) < 0 {
				pos++
			}
			if pos == len(s.items) || s.items[pos].key != k {
				s.items = append(s.items[:pos:pos], append([]item{{k, []byte{0x2a}, -1}}, s.items[pos:]...)...)
			}
		}
	}
	return sets, proof, lenMis
}

func slotItemSx(it item) Sx {
	if it.ref >= 0 {
		return I(int64(it.ref))
	}
	return L(hashSx(it.key), B(it.val))
}

// ---- codes

func (d *driver) codeBlobs(r snap.VerifC47Req, e desc) [][]byte {
	var out [][]byte
	for i, h := range r.Hashes {
		if e.beh == behFewer && (e.p1>>uint(i%16))&1 == 1 {
			continue
		}
		if j, ok := d.src.codeIdx[h]; ok {
			out = append(out, d.src.Codes[j])
		}
	}
	switch e.beh {
	case behEmptyAll:
		return nil
	case behSwap:
		if len(out) > 1 {
			out[0], out[1] = out[1], out[0]
		}
	case behCorrupt:
		if len(out) > 0 {
			j := mod(e.p2, len(out))
			out[j] = flip(out[j], e.p2/5)
		}
	case behForge:
		extra := []byte{0x60, byte(e.p2), 0x47}
		if len(d.src.Codes) > 0 && e.p2%2 == 0 {
			extra = d.src.Codes[mod(e.p2/2, len(d.src.Codes))]
		}
		out = append(out, extra)
	}
	return out
}

func (d *driver) codeItemSx(c []byte) Sx {
	h := crypto.Keccak256Hash(c)
	if j, ok := d.src.codeIdx[h]; ok {
		return I(int64(j))
	}
	return L(hashSx(h), B(c))
}

// apply materialises one script entry, performs it on the real syncer, settles, checks the
// direct oracles for this event and returns the model-facing event.
func (d *driver) apply(e desc) Sx {
	if e.num < 0 || e.num >= len(d.byNum) {
		desync("script names request %d, only %d known", e.num, len(d.byNum))
	}
	r := d.byNum[e.num]
	if r.Kind != e.kind {
		desync("request %d has kind %d, script says %d", e.num, r.Kind, e.kind)
	}
	live := false
	for _, o := range d.out {
		if o.ID == r.ID {
			live = true
		}
	}
	if (e.beh == behStale) == live {
		desync("request %d liveness %v does not fit behaviour %d", e.num, live, e.beh)
	}
	peer := d.peers[r.Peer]
	if peer == nil {
		peer = &dummyPeer{id: r.Peer, log: d.peers[firstKey(d.peers)].log}
	}
	before := d.fingerprint()
	mustKeep := false
	var ev Sx
	var herr error
	num := I(int64(e.num))
	if e.beh == behTimeout {
		if !d.v.FireTimeout(r.Kind, r.ID) {
			desync("timeout: request %d not tracked", e.num)
		}
		for guard := 0; ; guard++ {
			gone := true
			for _, o := range d.v.VerifC47Requests(d.seen) {
				if o.ID == r.ID {
					gone = false
				}
			}
			if gone {
				break
			}
			if guard > 200000 {
				desync("timeout of request %d never processed", e.num)
			}
			d.v.Kick(d.done)
		}
		mustKeep = true
		ev = L(I(3), num)
		d.tags["timeout"] = true
	} else {
		switch r.Kind {
		case 0:
			items, proof := d.accountItems(r, e)
			keys := make([]common.Hash, len(items))
			vals := make([][]byte, len(items))
			its := SL{}
			for i, it := range items {
				keys[i], vals[i] = it.key, it.val
				its = append(its, d.accountItemSx(it))
			}
			ok, more := false, false
			if len(items) > 0 || len(proof) > 0 {
				m, err := verifyAccounts(d.root, r.Origin, keys, vals, proof)
				ok, more = err == nil, m && err == nil
			}
			herr = d.v.OnAccounts(peer, r.ID, keys, vals, proof)
			if live && (len(items) > 0 || len(proof) > 0) && (herr == nil) != ok {
				d.fail("OnAccounts verdict %v differs from VerifyRangeProof verdict %v", herr, ok)
			}
			mustKeep = !live || !ok
			if ok && e.beh != behHonest && e.beh != behBeyond && e.beh != behStale {
				d.checkAcceptedAccounts(r, items, e)
			}
			ev = L(I(0), num, its, Bool(len(proof) > 0), Bool(ok), Bool(more))
			d.tagResp("acc", e.beh, ok, live)
		case 2:
			sets, proof, lenMis := d.storageSets(r, e)
			hashes := make([][]common.Hash, len(sets))
			slots := make([][][]byte, len(sets))
			sx := SL{}
			for i, s := range sets {
				hashes[i] = make([]common.Hash, len(s.items))
				slots[i] = make([][]byte, len(s.items))
				ss := SL{}
				for j, it := range s.items {
					hashes[i][j], slots[i][j] = it.key, it.val
					ss = append(ss, slotItemSx(it))
				}
				sx = append(sx, ss)
			}
			ok, more := false, false
			if !lenMis && len(hashes) <= len(r.Accounts) && (len(hashes) > 0 || len(proof) > 0) {
				vh, vs := hashes, slots
				if len(vh) == 0 {
					vh, vs = [][]common.Hash{{}}, [][][]byte{{}}
				}
				m, err := verifyStorage(r.Roots, r.Origin, vh, vs, proof)
				ok, more = err == nil, m && err == nil
			}
			sendSlots := slots
			if lenMis {
				sendSlots = append(append([][][]byte{}, slots...), [][]byte{})
			}
			herr = d.v.OnStorage(peer, r.ID, hashes, sendSlots, proof)
			if live && (len(hashes) > 0 || len(proof) > 0) && (herr == nil) != ok {
				d.fail("OnStorage verdict %v differs from VerifyRangeProof verdict %v", herr, ok)
			}
			mustKeep = !live || !ok
			if ok && e.beh != behHonest && e.beh != behStale && e.beh != behAlwaysPr && e.beh != behFewer && e.beh != behBeyond && e.beh != behWhole && e.beh != behNoItems {
				d.checkAcceptedSlots(r, sets, e)
			}
			ev = L(I(1), num, sx, Bool(len(proof) > 0), Bool(lenMis), Bool(ok), Bool(more))
			d.tagResp("sto", e.beh, ok, live)
		case 1:
			blobs := d.codeBlobs(r, e)
			cs := SL{}
			for _, c := range blobs {
				cs = append(cs, d.codeItemSx(c))
			}
			herr = d.v.OnByteCodes(peer, r.ID, blobs)
			mustKeep = !live || len(blobs) == 0 || herr != nil
			ev = L(I(2), num, cs)
			d.tagResp("code", e.beh, herr == nil && len(blobs) > 0, live)
		}
	}
	d.warm(r.Peer)
	d.settle()
	// a peer that sent an invalid response is dropped (when it owns nothing else)
	if herr != nil {
		owns := false
		for _, o := range d.out {
			if o.Peer == r.Peer {
				owns = true
			}
		}
		if !owns {
			d.replacePeer(r.Peer)
			d.tags["peer-dropped"] = true
		}
	} else if e.beh == behEmptyAll && live {
		owns := false
		for _, o := range d.out {
			if o.Peer == r.Peer {
				owns = true
			}
		}
		if !owns {
			d.replacePeer(r.Peer)
		}
	}
	after := d.fingerprint()
	if mustKeep && before != after {
		d.fail("flat state changed by a rejected/stale/empty/timed-out response (request %d, behaviour %d)", e.num, e.beh)
	}
	d.events++
	return ev
}

func firstKey(m map[string]*dummyPeer) string {
	for k := range m {
		return k
	}
	return ""
}

func (d *driver) tagResp(kind string, beh int, ok, live bool) {
	switch {
	case !live:
		d.tags[kind+"-stale"] = true
	case ok:
		d.tags[kind+"-accepted"] = true
	default:
		d.tags[kind+"-rejected"] = true
	}
	if beh != behHonest {
		d.tags["misbehaviour"] = true
	}
}

// checkAcceptedAccounts: an ACCEPTED response built by a misbehaviour must still be exactly the
// target's accounts in [origin, last key] (soundness of the range verification as used here).
func (d *driver) checkAcceptedAccounts(r snap.VerifC47Req, items []item, e desc) {
	first := d.src.firstGE(r.Origin)
	for i, it := range items {
		j := first + i
		if j >= len(d.src.Accounts) || d.src.Accounts[j].Key != it.key || !bytes.Equal(d.src.Accounts[j].Blob, it.val) {
			d.fail("accepted account response (behaviour %d) is not the target's range from the origin %x", e.beh, r.Origin)
			return
		}
	}
}

func (d *driver) checkAcceptedSlots(r snap.VerifC47Req, sets []sset, e desc) {
	for i, s := range sets {
		if i >= len(r.Accounts) {
			return
		}
		ai, ok := d.src.byKey[r.Accounts[i]]
		if !ok {
			return
		}
		a := d.src.Accounts[ai]
		origin := common.Hash{}
		if i == 0 && r.Sub {
			origin = r.Origin
		}
		first := a.firstGE(origin)
		for k, it := range s.items {
			j := first + k
			if j >= len(a.Slots) || a.Slots[j].Key != it.key || !bytes.Equal(a.Slots[j].Val, it.val) {
				d.fail("accepted storage response (behaviour %d) is not the target's slot range", e.beh)
				return
			}
		}
	}
}

var _ = types.EmptyRootHash
