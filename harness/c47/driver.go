package main

// Synchronous driver of the REAL snap/1 syncer (eth/protocols/snap/sync.go) against
// scripted peers.  The peers are dummies: every request the syncer tracks is read through
// the verif hook, answered (or not) by the driver on its single goroutine through the real
// OnAccounts / OnStorage / OnByteCodes / OnTrieNodes, and after every event the run loop is
// pumped (blocking sends on its update channel) until the request set is stable.

import (
	"bytes"
	"encoding/json"
	"fmt"
	"hash/fnv"
	"math/big"
	"runtime"
	"sort"
	"strings"
	"time"

	"github.com/ethereum/go-ethereum/common"
	"github.com/ethereum/go-ethereum/core/rawdb"
	"github.com/ethereum/go-ethereum/core/types"
	"github.com/ethereum/go-ethereum/crypto"
	"github.com/ethereum/go-ethereum/eth/protocols/snap"
	"github.com/ethereum/go-ethereum/ethdb"
	"github.com/ethereum/go-ethereum/log"
	"github.com/ethereum/go-ethereum/rlp"
	"github.com/ethereum/go-ethereum/trie"
	"github.com/ethereum/go-ethereum/trie/trienode"
	"github.com/ethereum/go-ethereum/triedb"
	"github.com/ethereum/go-ethereum/triedb/pathdb"
	. "gethverif/harness/hxlib"
)

const nPeers = 48

type dummyPeer struct {
	id  string
	log log.Logger
}

func (p *dummyPeer) ID() string { return p.id }
func (p *dummyPeer) RequestAccountRange(id uint64, root, origin, limit common.Hash, bytes int) error {
	return nil
}
func (p *dummyPeer) RequestStorageRanges(id uint64, root common.Hash, accounts []common.Hash, origin, limit []byte, bytes int) error {
	return nil
}
func (p *dummyPeer) RequestByteCodes(id uint64, hashes []common.Hash, bytes int) error { return nil }
func (p *dummyPeer) RequestTrieNodes(id uint64, root common.Hash, count int, paths []snap.TrieNodePathSet, bytes int) error {
	return nil
}
func (p *dummyPeer) Log() log.Logger { return p.log }

type desyncError struct{ msg string }

func desync(f string, a ...interface{}) { panic(desyncError{fmt.Sprintf(f, a...)}) }

type driver struct {
	src    *source
	scheme string
	db     ethdb.Database
	v      *snap.VerifC47Syncer
	peers  map[string]*dummyPeer
	npeer  int
	root   common.Hash

	cancel   chan struct{}
	done     chan struct{}
	syncErr  error
	panicMsg string
	running  bool

	num     map[uint64]int // go request id -> harness number
	seen    map[uint64]bool
	byNum   []snap.VerifC47Req // every numbered request, index = number
	out     []snap.VerifC47Req // outstanding snap-phase requests after the last settle
	heal    []snap.VerifC47Req
	digests SL
	saves   SL
	oracle  []string
	tags    map[string]bool
	lastNext map[common.Hash]common.Hash // task Last -> last seen Next (progress oracle)
	events  int
}

func newDriver(src *source, scheme string, accConc, stoConc int) *driver {
	snap.VerifC47SetConcurrency(accConc, stoConc)
	d := &driver{src: src, scheme: scheme, db: rawdb.NewMemoryDatabase(), peers: map[string]*dummyPeer{},
		num: map[uint64]int{}, seen: map[uint64]bool{}, tags: map[string]bool{}, lastNext: map[common.Hash]common.Hash{}}
	d.v = snap.NewVerifC47Syncer(d.db, scheme)
	for i := 0; i < nPeers; i++ {
		d.addPeer()
	}
	return d
}

func (d *driver) fail(f string, a ...interface{}) {
	if len(d.oracle) < 4 {
		d.oracle = append(d.oracle, fmt.Sprintf(f, a...))
	}
}

func (d *driver) warm(id string) {
	r := d.v.Rates()
	for _, k := range []uint64{snap.AccountRangeMsg, snap.StorageRangesMsg, snap.ByteCodesMsg, snap.TrieNodesMsg} {
		r.Update(id, k, 20*time.Second, 1<<50)
	}
}

func (d *driver) addPeer() {
	d.npeer++
	p := &dummyPeer{id: fmt.Sprintf("p%d", d.npeer), log: log.New()}
	d.peers[p.id] = p
	if err := d.v.Register(p); err != nil {
		panic(err)
	}
	d.warm(p.id)
}

func (d *driver) replacePeer(id string) {
	if _, ok := d.peers[id]; !ok {
		return
	}
	d.v.Unregister(id)
	delete(d.peers, id)
	d.addPeer()
}

// start launches Sync(root) and settles.
func (d *driver) start(root common.Hash) {
	d.root = root
	d.cancel = make(chan struct{})
	d.done = make(chan struct{})
	d.running = true
	d.syncErr, d.panicMsg = nil, ""
	go func(cancel, done chan struct{}) {
		defer close(done)
		defer func() {
			if e := recover(); e != nil {
				d.panicMsg = fmt.Sprint(e)
			}
		}()
		d.syncErr = d.v.Sync(root, cancel)
	}(d.cancel, d.done)
	d.settle()
}

func (d *driver) finished() bool {
	select {
	case <-d.done:
		d.running = false
		return true
	default:
		return false
	}
}

func reqKeyLess(a, b snap.VerifC47Req) bool {
	if a.Kind != b.Kind {
		return a.Kind < b.Kind
	}
	if c := bytes.Compare(a.TaskLast[:], b.TaskLast[:]); c != 0 {
		return c < 0
	}
	if a.Sub != b.Sub {
		return a.Sub
	}
	var x, y common.Hash
	if len(a.Accounts) > 0 {
		x = a.Accounts[0]
	}
	if len(b.Accounts) > 0 {
		y = b.Accounts[0]
	}
	if c := bytes.Compare(x[:], y[:]); c != 0 {
		return c < 0
	}
	return bytes.Compare(a.Origin[:], b.Origin[:]) < 0
}

func idSet(rs []snap.VerifC47Req) string {
	ids := make([]uint64, len(rs))
	for i, r := range rs {
		ids[i] = r.ID
	}
	sort.Slice(ids, func(i, j int) bool { return ids[i] < ids[j] })
	return fmt.Sprint(ids)
}

// settle pumps the run loop until the tracked request set is stable across a full loop
// iteration, numbers the new requests in canonical order and records the digest.
func (d *driver) settle() {
	prev := ""
	var rs []snap.VerifC47Req
	for round := 0; ; round++ {
		alive := true
		for i := 0; i < 3 && alive; i++ {
			alive = d.v.Kick(d.done)
		}
		rs = d.v.VerifC47Requests(d.seen)
		for _, r := range rs {
			d.seen[r.ID] = true
		}
		cur := idSet(rs)
		if !alive {
			d.running = false
			break
		}
		if round > 0 && cur == prev {
			break
		}
		prev = cur
		if round > 200 {
			desync("settle does not converge")
		}
	}
	if !d.running {
		<-d.done
		rs = d.v.VerifC47Requests(d.seen)
	}
	var fresh []snap.VerifC47Req
	d.out, d.heal = nil, nil
	for _, r := range rs {
		if r.Kind >= 3 {
			d.heal = append(d.heal, r)
			continue
		}
		if _, ok := d.num[r.ID]; !ok {
			fresh = append(fresh, r)
		}
	}
	sort.Slice(fresh, func(i, j int) bool { return reqKeyLess(fresh[i], fresh[j]) })
	for _, r := range fresh {
		d.num[r.ID] = len(d.byNum)
		d.byNum = append(d.byNum, r)
	}
	for _, r := range rs {
		if r.Kind < 3 {
			d.out = append(d.out, r)
		}
	}
	sort.Slice(d.out, func(i, j int) bool { return d.num[d.out[i].ID] < d.num[d.out[j].ID] })
	if _, _, st := d.v.IdleCounts(); st == 0 && d.running {
		desync("storage idle pool exhausted")
	}
	d.quiesce()
	d.observeTasks()
}

// quiesce waits until the run loop is parked in its select with no wake-up pending (or Sync
// has returned): only then may run-loop owned fields (the task list) be read.  The goroutine
// state is taken from runtime.Stack: the Sync goroutine must be in state "select" with Sync
// itself as the innermost frame.
func (d *driver) quiesce() {
	buf := make([]byte, 1<<16)
	for spins := 0; ; spins++ {
		select {
		case <-d.done:
			d.running = false
			return
		default:
		}
		if d.v.UpdatePending() == 0 {
			n := runtime.Stack(buf, true)
			for n == len(buf) {
				buf = make([]byte, 2*len(buf))
				n = runtime.Stack(buf, true)
			}
			if syncParked(string(buf[:n])) {
				return
			}
		}
		if spins > 5000000 {
			desync("run loop never parks")
		}
		runtime.Gosched()
	}
}

func syncParked(stacks string) bool {
	const fn = "github.com/ethereum/go-ethereum/eth/protocols/snap.(*syncer).Sync("
	for _, blk := range strings.Split(stacks, "\n\n") {
		if !strings.Contains(blk, fn) {
			continue
		}
		lines := strings.Split(blk, "\n")
		if len(lines) < 2 {
			return false
		}
		return strings.Contains(lines[0], "[select") && strings.HasPrefix(lines[1], fn)
	}
	return false
}

var two64 = new(big.Int).Lsh(big.NewInt(1), 64)

// observeTasks records the per-event digest and checks range/progress invariants directly.
func (d *driver) observeTasks() {
	ts := d.v.Tasks()
	sum := new(big.Int)
	pend := int64(0)
	var prevLast *common.Hash
	for _, t := range ts {
		sum.Add(sum, t.Next.Big())
		pend += int64(t.Pend)
		for _, subs := range t.Subs {
			for _, st := range subs {
				sum.Add(sum, st.Next.Big())
			}
		}
		// ranges: sorted, pairwise disjoint, Next within [.., Last]
		if d.running && !t.Done && t.Next.Cmp(t.Last) > 0 {
			d.fail("task range inverted: next %x > last %x", t.Next, t.Last)
		}
		if prevLast != nil && prevLast.Cmp(t.Next) >= 0 && !t.Done {
			d.fail("task ranges overlap: prev last %x >= next %x", *prevLast, t.Next)
		}
		l := t.Last
		prevLast = &l
		if old, ok := d.lastNext[t.Last]; ok && !t.Done && t.Next.Cmp(old) < 0 {
			d.fail("progress not monotone: task last %x next went %x -> %x", t.Last, old, t.Next)
		}
		if !t.Done {
			d.lastNext[t.Last] = t.Next
		}
		for acc, subs := range t.Subs {
			var pl *common.Hash
			for _, st := range subs {
				if pl != nil && pl.Cmp(st.Next) >= 0 && !st.Done {
					d.fail("storage chunk ranges overlap for %x", acc)
				}
				sl := st.Last
				pl = &sl
			}
		}
	}
	sum.Mod(sum, two64)
	d.digests = append(d.digests, L(I(int64(len(d.out))), I(int64(len(ts))), Big(sum), I(pend)))
}

// ---- flat state dumps

type flatDump struct {
	accounts map[common.Hash][]byte // full RLP
	slots    map[common.Hash]map[common.Hash][]byte
	codes    map[common.Hash][]byte
}

func (d *driver) dump() *flatDump {
	f := &flatDump{accounts: map[common.Hash][]byte{}, slots: map[common.Hash]map[common.Hash][]byte{}, codes: map[common.Hash][]byte{}}
	it := d.db.NewIterator(nil, nil)
	defer it.Release()
	for it.Next() {
		k, v := it.Key(), it.Value()
		switch {
		case len(k) == 33 && k[0] == 'a':
			full, err := types.FullAccountRLP(v)
			if err != nil {
				full = append([]byte{0xff}, v...)
			}
			f.accounts[common.BytesToHash(k[1:])] = full
		case len(k) == 65 && k[0] == 'o':
			a := common.BytesToHash(k[1:33])
			if f.slots[a] == nil {
				f.slots[a] = map[common.Hash][]byte{}
			}
			f.slots[a][common.BytesToHash(k[33:])] = common.CopyBytes(v)
		case len(k) == 33 && k[0] == 'c':
			f.codes[common.BytesToHash(k[1:])] = common.CopyBytes(v)
		}
	}
	return f
}

func (d *driver) fingerprint() uint64 {
	h := fnv.New64a()
	it := d.db.NewIterator(nil, nil)
	defer it.Release()
	for it.Next() {
		k := it.Key()
		if (len(k) == 33 && (k[0] == 'a' || k[0] == 'c')) || (len(k) == 65 && k[0] == 'o') {
			h.Write(k)
			h.Write(it.Value())
			h.Write([]byte{0})
		}
	}
	return h.Sum64()
}

func sortedHashes(m map[common.Hash]bool) []common.Hash {
	var ks []common.Hash
	for k := range m {
		ks = append(ks, k)
	}
	sort.Slice(ks, func(i, j int) bool { return bytes.Compare(ks[i][:], ks[j][:]) < 0 })
	return ks
}

// sx of a dump: entries equal to the target's are printed as their index, others explicitly.
func (d *driver) dumpSx(f *flatDump) Sx {
	ak := map[common.Hash]bool{}
	for k := range f.accounts {
		ak[k] = true
	}
	accs := SL{}
	for _, k := range sortedHashes(ak) {
		if i, ok := d.src.byKey[k]; ok && bytes.Equal(d.src.Accounts[i].Blob, f.accounts[k]) {
			accs = append(accs, I(int64(i)))
		} else {
			accs = append(accs, L(hashSx(k), B(f.accounts[k])))
		}
	}
	sk := map[common.Hash]bool{}
	for k := range f.slots {
		sk[k] = true
	}
	slots := SL{}
	for _, a := range sortedHashes(sk) {
		kk := map[common.Hash]bool{}
		for k := range f.slots[a] {
			kk[k] = true
		}
		ai, known := d.src.byKey[a]
		ents := SL{}
		for _, k := range sortedHashes(kk) {
			v := f.slots[a][k]
			if known {
				if si, ok := d.src.Accounts[ai].slotIdx[k]; ok && bytes.Equal(d.src.Accounts[ai].Slots[si].Val, v) {
					ents = append(ents, I(int64(si)))
					continue
				}
			}
			ents = append(ents, L(hashSx(k), B(v)))
		}
		slots = append(slots, L(hashSx(a), ents))
	}
	ck := map[common.Hash]bool{}
	for k := range f.codes {
		ck[k] = true
	}
	codes := SL{}
	for _, k := range sortedHashes(ck) {
		if i, ok := d.src.codeIdx[k]; ok && bytes.Equal(d.src.Codes[i], f.codes[k]) {
			codes = append(codes, I(int64(i)))
		} else {
			codes = append(codes, L(hashSx(k), B(f.codes[k])))
		}
	}
	return L(accs, slots, codes)
}

// checkSubset: everything in the flat state is target data (only verified data stored).
func (d *driver) checkSubset(f *flatDump, when string) {
	for k, v := range f.accounts {
		i, ok := d.src.byKey[k]
		if !ok || !bytes.Equal(d.src.Accounts[i].Blob, v) {
			d.fail("%s: flat account %x is not target data", when, k)
			return
		}
	}
	for a, m := range f.slots {
		i, ok := d.src.byKey[a]
		if !ok {
			d.fail("%s: flat storage for unknown account %x", when, a)
			return
		}
		for k, v := range m {
			si, ok := d.src.Accounts[i].slotIdx[k]
			if !ok || !bytes.Equal(d.src.Accounts[i].Slots[si].Val, v) {
				d.fail("%s: flat slot %x/%x is not target data", when, a, k)
				return
			}
		}
	}
	for h, c := range f.codes {
		if crypto.Keccak256Hash(c) != h {
			d.fail("%s: code stored under a wrong hash %x", when, h)
			return
		}
		if _, ok := d.src.codeIdx[h]; !ok {
			d.fail("%s: unrequested code %x stored", when, h)
			return
		}
	}
}

// checkEqual: the flat state is exactly the target (accounts, storage; every referenced code).
func (d *driver) checkEqual(f *flatDump, when string) {
	d.checkSubset(f, when)
	if len(f.accounts) != len(d.src.Accounts) {
		d.fail("%s: %d flat accounts, target has %d", when, len(f.accounts), len(d.src.Accounts))
	}
	for _, a := range d.src.Accounts {
		if len(f.slots[a.Key]) != len(a.Slots) {
			d.fail("%s: account %x has %d flat slots, target %d", when, a.Key, len(f.slots[a.Key]), len(a.Slots))
			break
		}
		if a.CodeHash != types.EmptyCodeHash {
			if _, ok := f.codes[a.CodeHash]; !ok {
				d.fail("%s: code %x of account %x missing", when, a.CodeHash, a.Key)
				break
			}
		}
	}
}

// checkTrie: a trie opened at the root on (a copy of) the destination iterates to the target.
func (d *driver) checkTrie() {
	cp := rawdb.NewMemoryDatabase()
	it := d.db.NewIterator(nil, nil)
	for it.Next() {
		cp.Put(common.CopyBytes(it.Key()), common.CopyBytes(it.Value()))
	}
	it.Release()
	var cfg *triedb.Config
	if d.scheme == rawdb.PathScheme {
		pc := *pathdb.Defaults
		pc.NoAsyncFlush, pc.NoAsyncGeneration, pc.SnapshotNoBuild = true, true, true
		cfg = &triedb.Config{PathDB: &pc}
	} else {
		cfg = triedb.HashDefaults
	}
	tdb := triedb.NewDatabase(cp, cfg)
	defer tdb.Close()
	tr, err := trie.New(trie.StateTrieID(d.root), tdb)
	if err != nil {
		d.fail("final: cannot open account trie at the root: %v", err)
		return
	}
	nit, err := tr.NodeIterator(nil)
	if err != nil {
		d.fail("final: account trie iterator: %v", err)
		return
	}
	ai := trie.NewIterator(nit)
	n := 0
	for ai.Next() {
		if n >= len(d.src.Accounts) || !bytes.Equal(ai.Key, d.src.Accounts[n].Key[:]) || !bytes.Equal(ai.Value, d.src.Accounts[n].Blob) {
			d.fail("final: account trie leaf %d differs from target", n)
			return
		}
		a := d.src.Accounts[n]
		n++
		if a.Root == types.EmptyRootHash {
			continue
		}
		st, err := trie.New(trie.StorageTrieID(d.root, a.Key, a.Root), tdb)
		if err != nil {
			d.fail("final: cannot open storage trie of %x: %v", a.Key, err)
			return
		}
		snit, err := st.NodeIterator(nil)
		if err != nil {
			d.fail("final: storage iterator: %v", err)
			return
		}
		si := trie.NewIterator(snit)
		m := 0
		for si.Next() {
			if m >= len(a.Slots) || !bytes.Equal(si.Key, a.Slots[m].Key[:]) || !bytes.Equal(si.Value, a.Slots[m].Val) {
				d.fail("final: storage trie of %x leaf %d differs", a.Key, m)
				return
			}
			m++
		}
		if si.Err != nil || m != len(a.Slots) {
			d.fail("final: storage trie of %x incomplete (%d of %d, err %v)", a.Key, m, len(a.Slots), si.Err)
			return
		}
	}
	if ai.Err != nil || n != len(d.src.Accounts) {
		d.fail("final: account trie incomplete (%d of %d, err %v)", n, len(d.src.Accounts), ai.Err)
	}
}

// savedProgress parses the persisted sync status into the observable
// ((next last ((account ((next last)...))...) (completed...))...)
func (d *driver) savedProgress() Sx {
	raw := rawdb.ReadSnapshotSyncStatus(d.db)
	if raw == nil {
		return L(I(-2))
	}
	var p struct {
		Tasks []struct {
			Next, Last       common.Hash
			SubTasks         map[common.Hash][]struct{ Next, Last common.Hash }
			StorageCompleted []common.Hash
		}
	}
	if err := json.Unmarshal(raw, &p); err != nil {
		return L(I(-3))
	}
	out := SL{}
	for _, t := range p.Tasks {
		sk := map[common.Hash]bool{}
		for k := range t.SubTasks {
			sk[k] = true
		}
		subs := SL{}
		for _, a := range sortedHashes(sk) {
			ch := SL{}
			for _, st := range t.SubTasks[a] {
				ch = append(ch, L(hashSx(st.Next), hashSx(st.Last)))
			}
			subs = append(subs, L(hashSx(a), ch))
		}
		ck := map[common.Hash]bool{}
		for _, h := range t.StorageCompleted {
			ck[h] = true
		}
		comp := SL{}
		for _, h := range sortedHashes(ck) {
			comp = append(comp, hashSx(h))
		}
		out = append(out, L(hashSx(t.Next), hashSx(t.Last), subs, comp))
	}
	return out
}

// stop cancels the running cycle and waits for Sync to return.
func (d *driver) stop() {
	if d.running {
		close(d.cancel)
		<-d.done
		d.running = false
	}
}

func errClass(err error, panicMsg string) int64 {
	switch {
	case panicMsg != "":
		return 3
	case err == nil:
		return 0
	case err == snap.ErrCancelled:
		return 1
	default:
		return 2
	}
}

// serveHeal answers the healing phase honestly until Sync returns.
func (d *driver) serveHeal() {
	for guard := 0; d.running; guard++ {
		if guard > 100000 {
			d.fail("healing does not terminate")
			d.stop()
			return
		}
		for _, r := range d.heal {
			p := d.peers[r.Peer]
			if p == nil {
				continue
			}
			switch r.Kind {
			case 3:
				var nodes [][]byte
				for _, h := range r.Hashes {
					if blob := rawdb.ReadLegacyTrieNode(d.src.disk, h); len(blob) > 0 {
						nodes = append(nodes, blob)
					}
				}
				if err := d.v.OnTrieNodes(p, r.ID, nodes); err != nil {
					d.fail("honest heal response rejected: %v", err)
				}
			case 4:
				var codes [][]byte
				for _, h := range r.Hashes {
					if i, ok := d.src.codeIdx[h]; ok {
						codes = append(codes, d.src.Codes[i])
					}
				}
				if err := d.v.OnByteCodes(p, r.ID, codes); err != nil {
					d.fail("honest heal code response rejected: %v", err)
				}
			}
			d.warm(r.Peer)
		}
		d.settleHeal()
	}
}

func (d *driver) settleHeal() {
	alive := true
	for i := 0; i < 3 && alive; i++ {
		alive = d.v.Kick(d.done)
	}
	if !alive {
		<-d.done
		d.running = false
		d.heal = nil
		return
	}
	d.heal = nil
	for _, r := range d.v.VerifC47Requests(d.seen) {
		d.seen[r.ID] = true
		if r.Kind >= 3 {
			d.heal = append(d.heal, r)
		}
	}
}

// ---- verification replicas (to learn `cont`, which the syncer keeps internal)

func verifyAccounts(root, origin common.Hash, keys []common.Hash, vals [][]byte, proof [][]byte) (bool, error) {
	ks := make([][]byte, len(keys))
	for i, k := range keys {
		ks[i] = common.CopyBytes(k[:])
	}
	nodes := make(trienode.ProofList, len(proof))
	for i, n := range proof {
		nodes[i] = n
	}
	return trie.VerifyRangeProof(root, origin[:], ks, vals, nodes.Set())
}

func verifyStorage(roots []common.Hash, origin common.Hash, hashes [][]common.Hash, slots [][][]byte, proof [][]byte) (cont bool, err error) {
	defer func() {
		if e := recover(); e != nil {
			err = fmt.Errorf("panic: %v", e)
		}
	}()
	for i := 0; i < len(hashes); i++ {
		keys := make([][]byte, len(hashes[i]))
		for j, k := range hashes[i] {
			keys[j] = common.CopyBytes(k[:])
		}
		nodes := make(trienode.ProofList, 0, len(proof))
		if i == len(hashes)-1 {
			for _, n := range proof {
				nodes = append(nodes, n)
			}
		}
		if len(nodes) == 0 {
			if _, err = trie.VerifyRangeProof(roots[i], nil, keys, slots[i], nil); err != nil {
				return false, err
			}
		} else {
			if cont, err = trie.VerifyRangeProof(roots[i], origin[:], keys, slots[i], nodes.Set()); err != nil {
				return false, err
			}
		}
	}
	return cont, nil
}

func decodeAttrs(blob []byte) (root, code common.Hash, ok bool) {
	var acc types.StateAccount
	if err := rlp.DecodeBytes(blob, &acc); err != nil {
		return common.Hash{}, common.Hash{}, false
	}
	return acc.Root, common.BytesToHash(acc.CodeHash), true
}
