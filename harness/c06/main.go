// Family c06: trie/trie.go Update/Delete/UpdateBatch/Get/Hash and trie/iterator.go
// (in-memory trie) vs coq/Trie/Ops.v + coq/Trie/Hash.v (root hash through the Coq
// Keccak) + coq/Trie/Iter.v + coq/Trie/Stack.v (trie/stacktrie.go).
package main

import (
	"bytes"
	"fmt"
	"sort"

	"github.com/ethereum/go-ethereum/common"
	"github.com/ethereum/go-ethereum/core/rawdb"
	"github.com/ethereum/go-ethereum/core/types"
	"github.com/ethereum/go-ethereum/trie"
	"github.com/ethereum/go-ethereum/triedb"
	. "gethverif/harness/hxlib"
)

func newTrie() *trie.Trie {
	db := triedb.NewDatabase(rawdb.NewMemoryDatabase(), nil)
	return trie.NewEmpty(db)
}

// rootOf builds a fresh trie from a key-value set in the given key order.
func rootOf(m map[string][]byte, keys []string) common.Hash {
	t := newTrie()
	for _, k := range keys {
		t.MustUpdate([]byte(k), m[k])
	}
	return t.Hash()
}

// checkRoot is the direct oracle applied after every mutation: the root equals the root
// of a fresh trie built (in sorted key order) from the reference map.
func checkRoot(got common.Hash, ref map[string][]byte, at int) string {
	if len(ref) == 0 {
		if got != types.EmptyRootHash {
			return fmt.Sprintf("op %d: empty set but root %x", at, got)
		}
		return ""
	}
	keys := make([]string, 0, len(ref))
	for k := range ref {
		keys = append(keys, k)
	}
	sort.Strings(keys)
	if want := rootOf(ref, keys); got != want {
		return fmt.Sprintf("op %d: root %x differs from root %x of a fresh trie built from the current set", at, got, want)
	}
	return ""
}

func run(c Sx) Result {
	ops := AsList(c)
	t := newTrie()
	ref := map[string][]byte{}
	var obs SL
	var fails []string
	res := Result{}
	nbatch, ndel, nget, niter, nstack := 0, 0, 0, 0, 0
	for opi, o := range ops {
		l := AsList(o)
		switch AsInt(l[0]) {
		case 0:
			k, v := AsBytes(l[1]), AsBytes(l[2])
			if err := t.Update(k, v); err != nil {
				obs = append(obs, L(I(-2), I(1)))
				fails = append(fails, "Update error: "+err.Error())
				break
			}
			if len(v) == 0 {
				delete(ref, string(k))
				ndel++
			} else {
				ref[string(k)] = v
			}
			h := t.Hash()
			obs = append(obs, B(h.Bytes()))
			if f := checkRoot(h, ref, opi); f != "" && len(fails) == 0 {
				fails = append(fails, f)
			}
		case 1:
			kvs := AsList(l[2])
			var keys, vals [][]byte
			for _, kv := range kvs {
				p := AsList(kv)
				keys = append(keys, AsBytes(p[0]))
				vals = append(vals, AsBytes(p[1]))
			}
			if err := t.UpdateBatch(keys, vals); err != nil {
				obs = append(obs, L(I(-2), I(1)))
				fails = append(fails, "UpdateBatch error: "+err.Error())
				break
			}
			for i := range keys {
				if len(vals[i]) == 0 {
					delete(ref, string(keys[i]))
				} else {
					ref[string(keys[i])] = vals[i]
				}
			}
			nbatch++
			h := t.Hash()
			obs = append(obs, B(h.Bytes()))
			if f := checkRoot(h, ref, opi); f != "" && len(fails) == 0 {
				fails = append(fails, f)
			}
		case 2:
			k := AsBytes(l[1])
			v, err := t.Get(k)
			if err != nil {
				obs = append(obs, L(I(-2), I(1)))
				fails = append(fails, "Get error: "+err.Error())
				break
			}
			nget++
			obs = append(obs, Opt(len(v) > 0, B(v)))
			if !bytes.Equal(v, ref[string(k)]) {
				fails = append(fails, fmt.Sprintf("Get(%x)=%x, reference map has %x", k, v, ref[string(k)]))
			}
		case 4:
			// a fresh StackTrie fed with the given pairs in order
			kvs := AsList(l[1])
			st := trie.NewStackTrie(nil)
			var codes SL
			panicked := false
			allOK := true
			sameLen := true
			sref := map[string][]byte{}
			var skeys []string
			func() {
				defer func() {
					if r := recover(); r != nil {
						panicked = true
					}
				}()
				for _, kv := range kvs {
					p := AsList(kv)
					k, v := AsBytes(p[0]), AsBytes(p[1])
					err := st.Update(k, v)
					switch {
					case err == nil:
						codes = append(codes, I(0))
						sref[string(k)] = v
						skeys = append(skeys, string(k))
						if len(k) != len(skeys[0]) {
							sameLen = false
						}
					case len(v) == 0:
						codes = append(codes, I(1))
						allOK = false
					default:
						codes = append(codes, I(2))
						allOK = false
					}
				}
			}()
			if panicked {
				obs = append(obs, L(codes, L(I(-2), I(2))))
				res.Tags = append(res.Tags, "stack-panic")
				break
			}
			var sroot common.Hash
			func() {
				defer func() {
					if r := recover(); r != nil {
						panicked = true
					}
				}()
				sroot = st.Hash()
			}()
			if panicked {
				obs = append(obs, L(codes, L(I(-2), I(2))))
				break
			}
			obs = append(obs, L(codes, B(sroot.Bytes())))
			nstack++
			// direct oracle: same root as the ordinary trie over the accepted pairs
			if sameLen && len(skeys) > 0 {
				if want := rootOf(sref, skeys); want != sroot {
					fails = append(fails, fmt.Sprintf("op %d: stack trie root %x differs from trie root %x", opi, sroot, want))
				}
			}
			_ = allOK
		case 3:
			// drain a key/value iterator over the whole trie
			it := trie.NewIterator(t.MustNodeIterator(nil))
			var l SL
			for it.Next() {
				l = append(l, L(B(common.CopyBytes(it.Key)), B(common.CopyBytes(it.Value))))
			}
			if it.Err != nil {
				obs = append(obs, L(I(-2), I(1)))
				fails = append(fails, "iterator error: "+it.Err.Error())
				break
			}
			niter++
			obs = append(obs, l)
		default:
			panic("hxlib: unknown op")
		}
	}
	res.Obs = obs
	// direct oracle: the root depends only on the final key-value set
	got := t.Hash()
	keys := make([]string, 0, len(ref))
	for k := range ref {
		keys = append(keys, k)
	}
	sort.Strings(keys)
	if len(ref) == 0 {
		if got != types.EmptyRootHash {
			fails = append(fails, fmt.Sprintf("empty final set but root %x", got))
		}
	} else {
		want := rootOf(ref, keys)
		if got != want {
			fails = append(fails, fmt.Sprintf("root %x differs from root %x of a fresh trie built from the final set (sorted order)", got, want))
		}
		rev := make([]string, len(keys))
		for i, k := range keys {
			rev[len(keys)-1-i] = k
		}
		if w2 := rootOf(ref, rev); w2 != want {
			fails = append(fails, "fresh tries built in sorted and reverse order disagree")
		}
		// stack trie over the sorted set
		// (StackTrie drops the terminator, so it only supports prefix-free key sets: equal-length keys)
		sameLen := true
		for _, k := range keys {
			if len(k) != len(keys[0]) {
				sameLen = false
			}
		}
		// (and not the empty key: StackTrie.Update panics in writeHexKey on it; that
		// behaviour is compared with the model by op 4)
		if sameLen && len(keys[0]) > 0 {
			st := trie.NewStackTrie(nil)
			for _, k := range keys {
				st.Update([]byte(k), ref[k])
			}
			if sr := st.Hash(); sr != want {
				fails = append(fails, fmt.Sprintf("stack trie root %x differs from trie root %x", sr, want))
			}
			res.Tags = append(res.Tags, "stacktrie")
		}
		// every key readable, iterator yields exactly the set in order
		it := trie.NewIterator(t.MustNodeIterator(nil))
		i := 0
		for it.Next() {
			if i >= len(keys) || string(it.Key) != keys[i] || !bytes.Equal(it.Value, ref[keys[i]]) {
				fails = append(fails, fmt.Sprintf("iterator entry %d = (%x,%x) unexpected", i, it.Key, it.Value))
				break
			}
			i++
		}
		if i != len(keys) && len(fails) == 0 {
			fails = append(fails, fmt.Sprintf("iterator yielded %d of %d entries", i, len(keys)))
		}
	}
	if len(fails) > 0 {
		res.Oracle = fmt.Sprint(fails)
	}
	res.Tags = append(res.Tags, fmt.Sprintf("ops%d", min(len(ops)/5*5, 40)), fmt.Sprintf("final%d", min(len(ref), 12)))
	if nbatch > 0 {
		res.Tags = append(res.Tags, "batch")
	}
	if ndel > 0 {
		res.Tags = append(res.Tags, "delete")
	}
	if niter > 0 {
		res.Tags = append(res.Tags, "iterate")
	}
	if nstack > 0 {
		res.Tags = append(res.Tags, "stackop")
	}
	_ = nget
	res.NonTrivial = len(ops) >= 4 && (ndel > 0 || nbatch > 0) && len(ref) >= 1
	return res
}

func genKey(r *Rng, style int) []byte {
	switch style {
	case 0: // 1-3 byte keys over a 4-symbol alphabet: dense shared prefixes, keys that are prefixes of others
		n := 1 + r.Intn(3)
		k := make([]byte, n)
		al := []byte{0x00, 0x01, 0x10, 0x11}
		for i := range k {
			k[i] = al[r.Intn(4)]
		}
		return k
	case 2: // 1-2 byte keys with many different first nibbles (wide root branch, batch groups)
		n := 1 + r.Intn(2)
		k := make([]byte, n)
		al := []byte{0x00, 0x01, 0x10, 0x20, 0x30, 0x31, 0xf0}
		for i := range k {
			k[i] = al[r.Intn(len(al))]
		}
		return k
	default: // 32-byte keys sharing long prefixes
		k := make([]byte, 32)
		base := []byte{0x00, 0x01, 0x10, 0x22, 0xf0}[r.Intn(5)] // 4 different first nibbles: the root is a branch
		for i := range k {
			k[i] = base
		}
		// diverge at a random late position
		p := 28 + r.Intn(4)
		k[p] = byte(r.Intn(4)) << uint(4*r.Intn(2))
		if r.Chance(1, 3) {
			k[31] = byte(r.Intn(256))
		}
		return k
	}
}

func genVal(r *Rng) []byte {
	switch r.Intn(6) {
	case 0:
		return nil // delete
	case 1:
		return r.Bytes(1 + r.Intn(3))
	case 2:
		return r.Bytes(32 + r.Intn(9))
	default:
		return r.Bytes(1 + r.Intn(40))
	}
}

// exhaustive emits every sequence of exactly n updates over the 6-key universe
// (put of a per-key value, or delete), as single Update ops.
func exhaustive(n int, emit func(Sx)) {
	keys := [][]byte{{0x12}, {0x12, 0x34}, {0x12, 0x35}, {0x13}, {0x21}, {0x12, 0x34, 0x56}}
	nops := 2 * len(keys)
	idx := make([]int, n)
	for {
		var ops SL
		for _, o := range idx {
			k := keys[o/2]
			var v []byte
			if o%2 == 0 {
				v = []byte{byte(0xa0 + o/2), byte(n)}
			}
			ops = append(ops, L(I(0), B(k), B(v)))
		}
		emit(ops)
		i := n - 1
		for i >= 0 {
			idx[i]++
			if idx[i] < nops {
				break
			}
			idx[i] = 0
			i--
		}
		if i < 0 {
			return
		}
	}
}

// genStackOp: a list of pairs for a fresh StackTrie: mostly strictly ascending
// equal-length keys; sometimes unsorted/duplicate keys, empty values, or keys of
// different lengths (a key that extends an earlier one makes the Go code panic).
func genStackOp(r *Rng) Sx {
	n := 1 + r.Intn(12)
	ks := r.Intn(3)
	fixedLen := 1 + r.Intn(3)
	seen := map[string]bool{}
	var keys []string
	for len(keys) < n {
		var k []byte
		switch ks {
		case 1:
			k = genKey(r, 1)
		default:
			k = make([]byte, fixedLen)
			al := []byte{0x00, 0x01, 0x10, 0x11, 0x20, 0xf0, 0xff}
			for i := range k {
				k[i] = al[r.Intn(len(al))]
			}
			if r.Chance(1, 12) {
				k = k[:1+r.Intn(len(k))] // different length
			}
		}
		if seen[string(k)] && !r.Chance(1, 10) {
			if len(seen) >= 40 {
				break
			}
			continue
		}
		seen[string(k)] = true
		keys = append(keys, string(k))
	}
	if r.Chance(1, 15) {
		keys = append(keys, "") // the empty key: writeHexKey panics (index out of range [-1])
	}
	if !r.Chance(1, 8) {
		sort.Strings(keys)
	}
	var kvs SL
	for _, k := range keys {
		v := genVal(r)
		if len(v) == 0 && !r.Chance(1, 6) {
			v = r.Bytes(1 + r.Intn(40))
		}
		kvs = append(kvs, L(B([]byte(k)), B(v)))
	}
	return L(I(4), kvs)
}


// applyRef applies an update list to the generator's own copy of the key-value set
// (last write wins, empty value = deletion) so that later ops can be shaped by it.
func applyRef(cur map[string][]byte, k, v []byte) {
	if len(v) == 0 {
		delete(cur, string(k))
	} else {
		cur[string(k)] = v
	}
}

type kvEnt struct{ k, v []byte }

// freshVal is a non-empty value (embedded or hashed leaf encodings).
func freshVal(r *Rng) []byte {
	if r.Chance(1, 4) {
		return r.Bytes(32 + r.Intn(9))
	}
	return r.Bytes(1 + r.Intn(6))
}

// repeatSeq emits 2-3 entries for ONE key in a fixed relative order: put/put,
// put/erase, erase/put, put/erase/put, erase/erase, put/put/erase, put/same-put.
func repeatSeq(r *Rng, k []byte) []kvEnt {
	v1, v2 := freshVal(r), freshVal(r)
	switch r.Intn(7) {
	case 0:
		return []kvEnt{{k, v1}, {k, v2}}
	case 1:
		return []kvEnt{{k, v1}, {k, nil}}
	case 2:
		return []kvEnt{{k, nil}, {k, v1}}
	case 3:
		return []kvEnt{{k, v1}, {k, nil}, {k, v2}}
	case 4:
		return []kvEnt{{k, nil}, {k, nil}}
	case 5:
		return []kvEnt{{k, v1}, {k, v2}, {k, nil}}
	default:
		return []kvEnt{{k, v1}, {k, v1}}
	}
}

// shapedBatch builds an UpdateBatch from the CURRENT key set: it keeps 0, 1 or 2 of
// the populated root positions (first nibbles) and deletes every key of the other
// positions (sometimes all but one key: a near miss), adds 0-3 repeated-key
// sequences (on surviving keys, on keys being deleted, on fresh keys, on fresh keys
// in positions that end up empty) and 0-3 random entries; the per-key streams are
// merged in random order (relative order inside a stream kept).  A quarter of the
// batches are cut below the parallel threshold (4), the others padded above it.
func shapedBatch(r *Rng, ks int, cur map[string][]byte) []kvEnt {
	byPos := map[byte][]string{}
	var poss []int
	for k := range cur {
		if len(k) == 0 {
			continue
		}
		p := k[0] >> 4
		if len(byPos[p]) == 0 {
			poss = append(poss, int(p))
		}
		byPos[p] = append(byPos[p], k)
	}
	sort.Ints(poss)
	for _, p := range poss {
		sort.Strings(byPos[byte(p)])
	}
	// choose survivors
	keep := map[int]bool{}
	nkeep := r.Intn(3)
	for i := 0; i < nkeep && len(poss) > 0; i++ {
		keep[poss[r.Intn(len(poss))]] = true
	}
	var streams [][]kvEnt
	var emptied []int
	for _, p := range poss {
		if keep[p] {
			continue
		}
		keys := byPos[byte(p)]
		spare := -1
		if r.Chance(1, 6) {
			spare = r.Intn(len(keys)) // near miss: one key of the position survives
		} else {
			emptied = append(emptied, p)
		}
		for i, k := range keys {
			if i == spare {
				continue
			}
			if r.Chance(1, 4) { // the deletion is itself part of a repeated-key sequence ending in erase
				streams = append(streams, []kvEnt{{[]byte(k), freshVal(r)}, {[]byte(k), nil}})
			} else {
				streams = append(streams, []kvEnt{{[]byte(k), nil}})
			}
		}
	}
	// repeated-key sequences
	nrep := r.Intn(4)
	for i := 0; i < nrep; i++ {
		var k []byte
		switch r.Intn(4) {
		case 0: // an existing key
			if len(cur) > 0 {
				all := make([]string, 0, len(cur))
				for kk := range cur {
					all = append(all, kk)
				}
				sort.Strings(all)
				k = []byte(all[r.Intn(len(all))])
			}
		case 1: // a fresh key in a position that the batch empties (or that is empty)
			k = genKey(r, ks)
			if len(emptied) > 0 && len(k) > 0 {
				k[0] = byte(emptied[r.Intn(len(emptied))])<<4 | k[0]&0x0f
			} else if len(k) > 0 {
				k[0] = byte(r.Intn(16))<<4 | k[0]&0x0f
			}
		}
		if k == nil {
			k = genKey(r, ks)
		}
		seq := repeatSeq(r, k)
		if len(emptied) > 0 && r.Chance(1, 2) {
			// make sure the position stays/gets empty: the sequence ends with an erase
			seq = append(seq, kvEnt{k, nil})
		}
		streams = append(streams, seq)
	}
	for i, n := 0, r.Intn(4); i < n; i++ {
		streams = append(streams, []kvEnt{{genKey(r, ks), genVal(r)}})
	}
	// streams for the same key must stay in order relative to each other: merge
	// streams of equal keys first
	merged := map[string]int{}
	var ss [][]kvEnt
	for _, st := range streams {
		if idx, ok := merged[string(st[0].k)]; ok {
			ss[idx] = append(ss[idx], st...)
		} else {
			merged[string(st[0].k)] = len(ss)
			ss = append(ss, st)
		}
	}
	var out []kvEnt
	for len(ss) > 0 {
		i := r.Intn(len(ss))
		out = append(out, ss[i][0])
		ss[i] = ss[i][1:]
		if len(ss[i]) == 0 {
			ss[i] = ss[len(ss)-1]
			ss = ss[:len(ss)-1]
		}
	}
	if r.Chance(1, 4) {
		if len(out) > 3 {
			out = out[:1+r.Intn(3)]
		}
	} else {
		for len(out) < 4 { // pad above the threshold with no-op erasures / re-erasures
			if len(out) > 0 && r.Chance(1, 2) {
				e := out[r.Intn(len(out))]
				out = append(out, kvEnt{e.k, nil})
				if len(e.v) != 0 { // keep the shape: the appended erase may undo a put, re-put afterwards
					out = append(out, kvEnt{e.k, e.v})
				}
			} else {
				out = append(out, kvEnt{genKey(r, ks), nil})
			}
		}
	}
	return out
}

func randOrder(r *Rng) SL {
	// application order used by the MODEL: a random permutation of 0..16 (the result is
	// order independent: C06_batch_eq_sequential); the Go side runs the real goroutines
	perm := make([]int, 17)
	for nb := range perm {
		perm[nb] = nb
	}
	for nb := 16; nb > 0; nb-- {
		o := r.Intn(nb + 1)
		perm[nb], perm[o] = perm[o], perm[nb]
	}
	var order SL
	for _, nb := range perm {
		order = append(order, I(int64(nb)))
	}
	return order
}

// batchExhaustive: every initial subset (>= 2 keys) of three one-byte keys in three
// different root positions, followed by EVERY batch of exactly n entries over
// {put, erase} x the three keys (so: all repeated-key patterns, all ways of emptying
// 0-3 root children), then the iteration.  step/pick select a 1/step slice.
func batchExhaustive(n int, step, pick int, emit func(Sx)) {
	keys := [][]byte{{0x00}, {0x10}, {0x20}}
	cnt := 0
	for init := 0; init < 8; init++ {
		if init&(init-1) == 0 { // fewer than two keys: the root is not a branch
			continue
		}
		idx := make([]int, n)
		for {
			if cnt%step == pick {
				var ops SL
				for i, k := range keys {
					if init>>uint(i)&1 == 1 {
						ops = append(ops, L(I(0), B(k), B([]byte{0x01, byte(i)})))
					}
				}
				var kvs SL
				for _, o := range idx {
					var v []byte
					if o%2 == 0 {
						v = []byte{byte(0xb0 + o/2), 0x02}
					}
					kvs = append(kvs, L(B(keys[o/2]), B(v)))
				}
				var order SL
				for nb := 16; nb >= 0; nb-- {
					order = append(order, I(int64(nb)))
				}
				ops = append(ops, L(I(1), order, kvs), L(I(3)))
				emit(ops)
			}
			cnt++
			i := n - 1
			for i >= 0 {
				idx[i]++
				if idx[i] < 6 {
					break
				}
				idx[i] = 0
				i--
			}
			if i < 0 {
				break
			}
		}
	}
}

func gen(r *Rng, tier string, emit func(Sx)) {
	n := 500
	if tier == "thorough" {
		n = 6000
		// exhaustive sequences of length <= 4 over a 6-key universe (put/delete), and a
		// seed-dependent 1/8 slice of the length-5 sequences
		for l := 1; l <= 4; l++ {
			exhaustive(l, emit)
		}
		pick := r.Intn(8)
		cnt := 0
		exhaustive(5, func(c Sx) {
			if cnt%8 == pick {
				emit(c)
			}
			cnt++
		})
	} else {
		for l := 1; l <= 2; l++ {
			exhaustive(l, emit)
		}
	}
	// every batch of 4 entries over 3 keys x {put, erase} on every branch-rooted initial
	// set (quick: all 5184; thorough: also 1/4 of the batches of 5 entries)
	batchExhaustive(4, 1, 0, emit)
	if tier == "thorough" {
		batchExhaustive(5, 4, r.Intn(4), emit)
	}
	for i := 0; i < n; i++ {
		ks := r.Intn(3) // 0: dense 4-symbol keys, 1: 32-byte keys, 2: wide first nibbles
		nops := 1 + r.Intn(30)
		cur := map[string][]byte{}
		var ops SL
		for j := 0; j < nops; j++ {
			switch r.Intn(10) {
			case 0, 1, 2: // batch
				var ents []kvEnt
				if len(cur) >= 2 && r.Chance(1, 2) {
					ents = shapedBatch(r, ks, cur)
				} else {
					sz := 1 + r.Intn(10)
					if r.Chance(1, 4) {
						sz = 3 + r.Intn(38)
					}
					delHeavy := r.Chance(1, 3)
					for q := 0; q < sz; q++ {
						v := genVal(r)
						if delHeavy && r.Chance(1, 2) {
							v = nil
						}
						k := genKey(r, ks)
						if len(ents) > 0 && r.Chance(1, 5) { // repeat a key of this batch
							k = ents[r.Intn(len(ents))].k
						}
						ents = append(ents, kvEnt{k, v})
					}
				}
				var kvs SL
				for _, e := range ents {
					kvs = append(kvs, L(B(e.k), B(e.v)))
					applyRef(cur, e.k, e.v)
				}
				ops = append(ops, L(I(1), randOrder(r), kvs))
			case 3:
				if r.Chance(1, 3) {
					ops = append(ops, L(I(3)))
				} else {
					ops = append(ops, L(I(2), B(genKey(r, ks))))
				}
			default:
				k, v := genKey(r, ks), genVal(r)
				if len(cur) > 0 && len(v) == 0 && r.Chance(1, 2) {
					// delete an existing key rather than (mostly) an absent one
					all := make([]string, 0, len(cur))
					for kk := range cur {
						all = append(all, kk)
					}
					sort.Strings(all)
					k = []byte(all[r.Intn(len(all))])
				}
				applyRef(cur, k, v)
				ops = append(ops, L(I(0), B(k), B(v)))
			}
		}
		ops = append(ops, L(I(3)))
		if r.Chance(1, 2) {
			ops = append(ops, genStackOp(r))
		}
		emit(ops)
	}
}

func main() {
	Main(Family{
		ID:   "C06",
		Rule: "random histories (1-30 ops) of Update/Delete (empty value)/UpdateBatch (1-40 entries, real goroutines; the model applies the per-nibble groups in a random order; half of the batches on a populated trie are SHAPED by the generator's own copy of the key set: they keep 0/1/2 populated root positions and erase every key of the others (1/6 near misses), contain 0-3 repeated-key sequences put/put, put/erase, erase/put, put/erase/put, erase/erase, put/put/erase, put/same-put on existing, doomed and fresh keys incl. fresh keys in emptied positions, merged in random order, a quarter cut below the parallel threshold 4; random batches repeat a key with probability 1/5 per entry and a third are deletion-heavy)/Get on an in-memory trie; keys 1-3 bytes over a 4-symbol alphabet (dense shared prefixes, keys that are prefixes of other keys), 1-2 bytes over a 7-symbol alphabet with 5 different first nibbles (wide root branch), or 32-byte keys sharing 28+ byte prefixes with 4 different first nibbles (branch root); values 1-40 bytes (embedded < 32 and hashed >= 32 node encodings); plus every put/delete sequence of length <= 2 (quick) / <= 4 and 1/8 of length 5 (thorough) over a 6-key universe; plus, on every branch-rooted subset of three one-byte keys in three root positions, EVERY batch of 4 entries over {put, erase} x the three keys (thorough: and 1/4 of the 5-entry batches). Root hash observed after every op, the full key/value iteration at random points and at the end of every random history; half of the random histories end with a fresh StackTrie fed 1-12 pairs (mostly strictly ascending equal-length keys; 1/8 unsorted, occasional duplicates, empty values and keys of different lengths, where the Go code returns errors or panics), per-Update result and Hash compared. Non-trivial: >= 4 ops including a delete or a batch, non-empty final set; distinct = distinct case line.",
		Gen:  gen,
		Run:  run,
	})
}
