package main

import (
	"fmt"

	"github.com/ethereum/go-ethereum/log"
	. "gethverif/harness/hxlib"
)

func main() {
	log.SetDefault(log.NewLogger(log.DiscardHandler()))
	r := NewRng(3)
	bad := 0
	tags := map[string]int{}
	for i := 0; i < 3000; i++ {
		c := genTxs(r)
		res := runTxs(AsList(c))
		for _, t := range res.Tags {
			tags[t]++
		}
		if res.Oracle != "" && bad < 8 {
			bad++
			fmt.Println(String(c), res.Oracle)
		}
	}
	fmt.Println(tags)
}
