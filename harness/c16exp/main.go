package main

import (
	"fmt"

	"github.com/ethereum/go-ethereum/common"
	"github.com/ethereum/go-ethereum/core/rawdb"
	"github.com/ethereum/go-ethereum/crypto"
	"github.com/ethereum/go-ethereum/core/types"
	"github.com/ethereum/go-ethereum/trie/trienode"
	"github.com/ethereum/go-ethereum/triedb/pathdb"
)

func h(i byte) common.Hash { return common.Hash{i} }

func upd(db *pathdb.Database, root, parent common.Hash, acct map[common.Hash][]byte, nodes map[string][]byte) error {
	ns := trienode.NewNodeSet(common.Hash{})
	for p, b := range nodes {
		ns.AddNode([]byte(p), trienode.NewNodeWithPrev(crypto.Keccak256Hash(b), b, nil))
	}
	m := trienode.NewMergedNodeSet()
	m.Merge(ns)
	return db.Update(root, parent, 0, m, pathdb.NewStateSetWithOrigin(acct, nil, nil, nil, false))
}

func main() {
	for _, wb := range []int{0, 1 << 20} {
		fmt.Println("=== write buffer", wb)
		func() {
			defer func() {
				if e := recover(); e != nil {
					fmt.Println("PANIC:", e)
				}
			}()
			db := pathdb.New(rawdb.NewMemoryDatabase(), &pathdb.Config{WriteBufferSize: wb, NoAsyncFlush: true, NoAsyncGeneration: true, TrienodeHistory: -1}, false)
			e := types.EmptyRootHash
			fmt.Println(upd(db, h(1), e, map[common.Hash][]byte{h(0xa): {1}}, map[string][]byte{"n1": {1, 1}}))
			fmt.Println(upd(db, h(2), h(1), map[common.Hash][]byte{h(0xb): {2}}, map[string][]byte{"n2": {2, 2}}))  // A = P
			fmt.Println(upd(db, h(3), h(2), map[common.Hash][]byte{h(0xc): {3}}, map[string][]byte{"n3": {3, 3}}))  // B1
			fmt.Println(upd(db, h(4), h(2), map[common.Hash][]byte{h(0xd): {4}}, map[string][]byte{"n4": {4, 4}}))  // B2 sibling
			fmt.Println("cap", db.VerifC16Cap(h(3), 1), "base", db.VerifC16BaseRoot(), "live4", db.VerifC16Live(h(4)), db.VerifC16Len())
			sr0, err := db.StateReader(h(4)); sr := sr0.(interface{ AccountRLP(common.Hash) ([]byte, error) })
			fmt.Println(err)
			for _, k := range []byte{0xa, 0xb, 0xc, 0xd} {
				v, err := sr.AccountRLP(h(k))
				fmt.Println("acct", k, v, err)
			}
			nr, err := db.NodeReader(h(4))
			fmt.Println(err)
			for _, p := range []string{"n1", "n2", "n3", "n4"} {
				var exp []byte
				switch p {
				case "n1": exp = []byte{1, 1}
				case "n2": exp = []byte{2, 2}
				case "n4": exp = []byte{4, 4}
				}
				v, err := nr.Node(common.Hash{}, []byte(p), crypto.Keccak256Hash(exp))
				fmt.Println("node", p, v, err)
			}
			fmt.Println(upd(db, h(5), h(4), map[common.Hash][]byte{h(0xe): {5}}, map[string][]byte{"n5": {5, 5}}))
			fmt.Println("cap2", db.VerifC16Cap(h(5), 1), "base", db.VerifC16BaseRoot(), db.VerifC16Len())
			sr0, err = db.StateReader(h(5)); sr = sr0.(interface{ AccountRLP(common.Hash) ([]byte, error) })
			fmt.Println(err)
			for _, k := range []byte{0xa, 0xb, 0xc, 0xd, 0xe} {
				v, err := sr.AccountRLP(h(k))
				fmt.Println("acct", k, v, err)
			}
			fmt.Println(upd(db, h(6), h(5), map[common.Hash][]byte{h(0xf): {6}}, nil))
			fmt.Println("commit", db.Commit(h(6), false))
			sr0, err = db.StateReader(h(6)); if err == nil { sr = sr0.(interface{ AccountRLP(common.Hash) ([]byte, error) }) }
			fmt.Println(err)
			if err == nil {
			for _, k := range []byte{0xa, 0xb, 0xc, 0xd, 0xe,0xf} {
				v, err := sr.AccountRLP(h(k))
				fmt.Println("acct", k, v, err)
			}}
		}()
	}
}
