// Multi-session format of family c39: several runs of the node on one database, each ended
// by a crash, a clean Stop or an image cut inside an import, with a restart and a re-import of
// what the crash lost after every one of them.
//
//	( (scheme archive snaps) (C J S) SESSIONS )
//
//	C up to 200 (beyond the 128 diff layers / TriesInMemory, so the persisted state lags the
//	head), the side chain has ids 1001..1000+S on canonical block J
//	SESSION = ( OPS (cutKind cutBlock) (DUR SNAPROOT) ): OPS as in the single-crash format, the
//	cut applies to the last operation (no operation: the node is just stopped again)
//
// After every session: rawdb.Open + NewBlockChain on the image and the same ancient dir,
// observation, then InsertChain of the blocks the crash lost (the path from the restart head to
// the head block marker found in the image), observation; the next session continues on that
// chain.  After the last one the remaining canonical blocks are imported.
//
//	obs = ( data_ok SESSOBS ... (class OBS (disk_id history_head)) )
//	SESSOBS = ( ERRS frozen 0 OBS (disk_id history_head) class OBS (disk_id history_head) )
//	        | ( ERRS frozen 50|51 )    start-up failed: the run ends
//
// disk_id / history_head: state id of pathdb's disk layer and item count of the state history
// freezer (0 0 in the hash scheme), predicted by the model's journal / history counters.
package main

import (
	"fmt"
	"os"
	"sort"
	"strings"

	. "gethverif/harness/hxlib"
	"github.com/ethereum/go-ethereum/common"
	"github.com/ethereum/go-ethereum/core/rawdb"
	"github.com/ethereum/go-ethereum/core/types"
	"github.com/ethereum/go-ethereum/ethdb/memorydb"
)

type sessSpec struct {
	ops               []opSpec
	cutKind, cutBlock int
	dur               []int
	snaproot          int
	reimp             int // how many of the blocks lost by the crash are re-imported after the restart (reimpAll: all)
}

const reimpAll = 4095

func parseCaseV2(top SL) *caseSpec {
	cfg, tr := AsList(top[0]), AsList(top[1])
	if len(cfg) != 3 || len(tr) != 3 {
		bad("arity")
	}
	cs := &caseSpec{scheme: AsInt(cfg[0]), archive: AsInt(cfg[1]) == 1, snaps: AsInt(cfg[2]) == 1,
		C: AsInt(tr[0]), J: AsInt(tr[1]), S: AsInt(tr[2]), snaproot: -1, sb: 1000, v2: true}
	if cs.scheme < 0 || cs.scheme > 1 || AsInt(cfg[1]) < 0 || AsInt(cfg[1]) > 1 || AsInt(cfg[2]) < 0 || AsInt(cfg[2]) > 1 {
		bad("cfg")
	}
	if cs.scheme == 1 && (cs.archive || cs.snaps) {
		bad("path scheme has neither archive mode nor legacy snapshots here")
	}
	if cs.C < 1 || cs.C > maxC2 || cs.J < 0 || cs.J > cs.C || cs.S < 0 || cs.S > 30 {
		bad("tree")
	}
	ss := AsList(top[2])
	if len(ss) < 1 || len(ss) > 8 {
		bad("sessions")
	}
	for _, x := range ss {
		f := AsList(x)
		if len(f) != 3 {
			bad("session arity")
		}
		cut, data := AsList(f[1]), AsList(f[2])
		if (len(cut) != 2 && len(cut) != 3) || len(data) != 2 {
			bad("session cut/data")
		}
		s := sessSpec{ops: parseOps(f[0]), cutKind: AsInt(cut[0]), cutBlock: AsInt(cut[1]), snaproot: -1, reimp: reimpAll}
		if len(cut) == 3 {
			s.reimp = AsInt(cut[2])
			if s.reimp < 0 || s.reimp > reimpAll {
				bad("reimp")
			}
		}
		if s.cutKind < 0 || s.cutKind > 3 || s.cutBlock < 0 {
			bad("cut")
		}
		for _, d := range AsList(data[0]) {
			s.dur = append(s.dur, AsInt(d))
		}
		if sr := AsList(data[1]); len(sr) == 1 {
			s.snaproot = AsInt(sr[0])
		} else if len(sr) != 0 {
			bad("snaproot")
		}
		cs.sessions = append(cs.sessions, s)
	}
	ensureBlocks(cs.C, cs.J, cs.S)
	return cs
}

func (cs *caseSpec) sxV2() Sx {
	ss := SL{}
	for _, s := range cs.sessions {
		cut := SL{I(int64(s.cutKind)), I(int64(s.cutBlock))}
		if s.reimp != reimpAll {
			cut = append(cut, I(int64(s.reimp)))
		}
		ss = append(ss, L(opsSx(s.ops), cut, L(intsSx(s.dur), Opt(s.snaproot >= 0, I(int64(s.snaproot))))))
	}
	return L(L(I(int64(cs.scheme)), Bool(cs.archive), Bool(cs.snaps)), L(I(int64(cs.C)), I(int64(cs.J)), I(int64(cs.S))), ss)
}

// runV2 executes a multi-session case; it also returns the DATA recomputed per session.
func (cs *caseSpec) runV2() (Result, []sessSpec) {
	res := Result{}
	dir := mkScratch()
	defer os.RemoveAll(dir)
	idOf := map[common.Hash]int{}
	for _, id := range cs.ids() {
		idOf[cs.block(id).Hash()] = id
	}
	id := func(h common.Hash) int64 {
		if i, ok := idOf[h]; ok {
			return int64(i)
		}
		return -2
	}
	parentOf := func(x int) (int, bool) {
		p, ok := idOf[cs.block(x).ParentHash()]
		return p, ok
	}
	maxn := cs.maxn()
	e, _, err := cs.openEnv(dir, memorydb.New())
	if err != nil {
		panic("fresh chain: " + err.Error())
	}
	var fails []string
	fail := func(f string, a ...interface{}) { fails = append(fails, fmt.Sprintf(f, a...)) }
	tag := map[string]bool{}

	observe := func() Sx {
		bc, db := e.bc, e.db
		cb, ch, csn := bc.CurrentBlock(), bc.CurrentHeader(), bc.CurrentSnapBlock()
		canon := SL{}
		for n := 0; n <= maxn+1; n++ {
			h := rawdb.ReadCanonicalHash(db, uint64(n))
			canon = append(canon, Opt(h != (common.Hash{}), I(id(h))))
		}
		known := SL{}
		for _, i := range cs.ids() {
			b := cs.block(i)
			known = append(known, Bool(bc.GetBlock(b.Hash(), b.NumberU64()) != nil))
		}
		fr, _ := db.(freezerI).Ancients()
		return L(L(I(id(cb.Hash())), I(id(ch.Hash())), I(id(csn.Hash()))), Bool(bc.HasState(cb.Root)), U(fr), canon, known)
	}
	// pathdb: disk layer id vs state history head
	var g0 uint64
	align := func(when string) Sx {
		pdb := e.bc.TrieDB().VerifC39PathDB()
		if pdb == nil {
			return L(I(0), I(0))
		}
		disk, pers, head, ok := pdb.VerifC39HistoryAlignment()
		if !ok {
			fail("%s: state history freezer not available", when)
			return L(U(disk), I(0))
		}
		if head != disk {
			fail("%s: state history head %d is not the disk layer id %d", when, head, disk)
		}
		if pers > disk {
			fail("%s: persistent state id %d above the disk layer id %d", when, pers, disk)
		}
		if disk > pers {
			tag["unflushed-buffer"] = true
		}
		// relative to the state id of the genesis state (1 with a non-empty alloc), so that
		// the id of a block's state is the block's number
		rel := func(x uint64) Sx {
			if x < g0 {
				return I(-1)
			}
			return U(x - g0)
		}
		return L(rel(disk), rel(head))
	}
	if pdb := e.bc.TrieDB().VerifC39PathDB(); pdb != nil {
		g0, _, _, _ = pdb.VerifC39HistoryAlignment()
	}
	checkChain := func(when string) {
		bc, db := e.bc, e.db
		cb, ch := bc.CurrentBlock(), bc.CurrentHeader()
		if !bc.HasState(cb.Root) && cb.Number.Uint64() != 0 {
			fail("%s: head block #%d has no state", when, cb.Number)
		}
		if ch.Number.Uint64() < cb.Number.Uint64() {
			fail("%s: head header #%d below head block #%d", when, ch.Number, cb.Number)
		}
		want := ch.Hash()
		onChain := false
		n0 := len(fails)
		for n := int64(ch.Number.Uint64()); n >= 0; n-- {
			h := rawdb.ReadCanonicalHash(db, uint64(n))
			if h != want {
				fail("%s: canonical index at %d is not the ancestor of head header #%d", when, n, ch.Number)
				break
			}
			hd := bc.GetHeader(h, uint64(n))
			if hd == nil {
				fail("%s: canonical header %d missing", when, n)
				break
			}
			if uint64(n) == cb.Number.Uint64() && h == cb.Hash() {
				onChain = true
			}
			if n > 0 && bc.GetBlock(h, uint64(n)) == nil {
				fail("%s: canonical block %d missing", when, n)
				break
			}
			want = hd.ParentHash
		}
		if !onChain && len(fails) == n0 {
			fail("%s: head block is not an ancestor of the head header", when)
		}
		if msg, known := markersAbove(db, bc, maxn); msg != "" {
			fail("%s: %s", when, msg)
		} else if known {
			tag["C38-linked-canon-above-head-header"] = true
		}
	}
	e.check = checkChain

	dataOK := true
	top := SL{}
	var recomputed []sessSpec
	dead := false
	cleanBefore := false
	for si, s := range cs.sessions {
		when := fmt.Sprintf("session %d", si)
		cr := cs.runOps(e, s.ops, len(s.ops)-1, s.cutKind, s.cutBlock)
		recomputed = append(recomputed, sessSpec{dur: cr.dur, snaproot: cr.snaproot})
		if !eqInts(cr.dur, s.dur) || cr.snaproot != s.snaproot {
			dataOK = false
		}
		errs := SL{}
		for _, x := range cr.opErrs {
			errs = append(errs, I(x))
		}
		tag[fmt.Sprintf("cut%d", s.cutKind)] = true
		if cr.cutHit {
			tag["cut-hit"] = true
		}
		if cr.clean {
			cleanBefore = true
		} else if cleanBefore {
			tag["crash-after-clean-stop"] = true
		}
		if len(s.ops) == 0 {
			tag["empty-session"] = true
		}
		durable := map[int]bool{}
		for _, d := range cr.dur {
			durable[d] = true
		}
		// restart
		var code int64
		e, code, err = cs.openEnv(dir, cr.image)
		if err != nil {
			top = append(top, L(errs, U(cr.frozen), I(code)))
			fail("%s: start-up on the database left behind failed (%d): %v", when, code, err)
			dead = true
			break
		}
		e.check = checkChain
		checkChain(when + " restart")
		obs1 := observe()
		al1 := align(when + " restart")
		cb := e.bc.CurrentBlock()
		preHeadID := id(e.preHead)
		if cb.Hash() != e.preHead {
			tag["repaired"] = true
			if cb.Number.Uint64() == 0 {
				tag["to-genesis"] = true
			}
		}
		// nothing at or below the newest persisted state on the old head's path is lost
		var lost types.Blocks
		if preHeadID >= 0 {
			path := []int{}
			for x := int(preHeadID); ; {
				path = append(path, x)
				if x == 0 {
					break
				}
				p, ok := parentOf(x)
				if !ok {
					break
				}
				x = p
			}
			P := 0
			for _, x := range path {
				if durable[x] {
					P = int(cs.block(x).NumberU64())
					break
				}
			}
			if cs.snaps && cr.snaproot >= 0 {
				onPath := false
				for _, x := range path {
					if x == cr.snaproot {
						onPath = true
					}
				}
				if b := cs.block(cr.snaproot); b == nil || !onPath {
					P = 0
				} else if sn := int(b.NumberU64()); sn < P {
					P = sn
				}
			}
			for n := 0; n <= P && n < len(e.preCanon); n++ {
				if e.preCanon[n] == (common.Hash{}) {
					continue
				}
				if h := rawdb.ReadCanonicalHash(e.db, uint64(n)); h != e.preCanon[n] {
					fail("%s: block %d (canonical before the crash, at or below the persisted state #%d) is no longer canonical", when, n, P)
					break
				}
				if n > 0 && e.bc.GetBlock(e.preCanon[n], uint64(n)) == nil {
					fail("%s: block %d (canonical before the crash, at or below the persisted state #%d) is lost", when, n, P)
					break
				}
			}
			if int(cb.Number.Uint64()) < P {
				fail("%s: head block #%d rewound below the newest persisted state #%d", when, cb.Number, P)
			}
			if cr.clean && cb.Hash() != e.preHead {
				fail("%s: head block changed across a clean Stop", when)
			}
			// the blocks the crash lost: from the restart head up to the old head
			if rh, ok := idOf[cb.Hash()]; ok {
				var up []int
				found := false
				for _, x := range path { // newest first
					if x == rh {
						found = true
						break
					}
					up = append(up, x)
				}
				if found {
					for i := len(up) - 1; i >= 0; i-- {
						lost = append(lost, cs.block(up[i]))
					}
				}
			}
		}
		var class2 int64
		if s.reimp < len(lost) {
			lost = lost[:s.reimp]
			tag["partial-reimport"] = true
		}
		if len(lost) > 0 {
			tag["reimport-lost"] = true
			_, err := e.bc.InsertChain(lost)
			class2 = errClass(err)
			if class2 != 0 {
				fail("%s: re-import of the %d blocks lost by the crash failed: %v", when, len(lost), err)
			} else if h, want := e.bc.CurrentBlock(), lost[len(lost)-1]; h.Hash() != want.Hash() {
				fail("%s: after re-importing the lost blocks the head is block %d, not %d", when, id(h.Hash()), id(want.Hash()))
			}
			checkChain(when + " re-import")
		}
		obs2 := observe()
		al2 := align(when + " re-import")
		top = append(top, L(errs, U(cr.frozen), I(0), obs1, al1, I(class2), obs2, al2))
	}
	if !dead {
		// finally: the remaining canonical blocks
		cb := e.bc.CurrentBlock()
		a, ok := idOf[cb.Hash()]
		if !ok {
			a = 0
		}
		if a > cs.sb {
			a = cs.J
		}
		var rest types.Blocks
		for i := a + 1; i <= cs.C; i++ {
			rest = append(rest, canonBlk[i])
		}
		var class3 int64
		if len(rest) > 0 {
			_, err := e.bc.InsertChain(rest)
			class3 = errClass(err)
			if class3 != 0 {
				fail("final import of blocks %d..%d failed: %v", a+1, cs.C, err)
			}
			cb2, ch2 := e.bc.CurrentBlock(), e.bc.CurrentHeader()
			if cb2.Hash() != canonBlk[cs.C].Hash() || ch2.Hash() != canonBlk[cs.C].Hash() {
				fail("after the final import the head is block %d / header %d, not %d", id(cb2.Hash()), id(ch2.Hash()), cs.C)
			}
			for n := 0; n <= cs.C; n++ {
				if rawdb.ReadCanonicalHash(e.db, uint64(n)) != canonBlk[n].Hash() {
					fail("after the final import canonical block %d is not the original one", n)
					break
				}
			}
			checkChain("final import")
		}
		top = append(top, L(I(class3), observe(), align("final import")))
		e.bc.Stop()
		e.db.Close()
	}
	res.Obs = append(SL{Bool(dataOK)}, top...)
	res.Oracle = strings.Join(fails, " | ")
	sch := "hash"
	if cs.scheme == 1 {
		sch = "path"
	}
	tag[sch], tag["multi"] = true, true
	if cs.C > 128 {
		tag["long"] = true
	}
	if cs.S > 0 {
		tag["sidechain"] = true
	}
	if !dataOK {
		tag["data-stale"] = true
	}
	for t := range tag {
		res.Tags = append(res.Tags, t)
	}
	sort.Strings(res.Tags)
	res.NonTrivial = tag["repaired"] || tag["crash-after-clean-stop"]
	return res, recomputed
}

// ---------------------------------------------------------------- generator

func genCaseV2(r *Rng) *caseSpec {
	cs := &caseSpec{snaproot: -1, sb: 1000, v2: true}
	if r.Chance(7, 10) {
		cs.scheme = 1
	} else {
		cs.archive = r.Chance(1, 6)
		cs.snaps = r.Chance(1, 8)
	}
	if r.Chance(4, 5) {
		cs.C = r.Range(129, 175)
	} else {
		cs.C = r.Range(20, 128)
	}
	if r.Chance(1, 4) {
		cs.J = r.Range(max(1, cs.C-40), cs.C-1)
		cs.S = r.Range(1, 6)
	}
	ensureBlocks(cs.C, cs.J, cs.S)
	rng := func(a, b int) []int {
		var l []int
		for i := a; i <= b; i++ {
			l = append(l, i)
		}
		return l
	}
	// one long first import, then small steps (0 / 1 / many blocks between shutdowns)
	var ops []opSpec
	head, onSide := 0, false
	commit := func() {
		if !onSide && head >= 1 && r.Chance(1, 10) {
			ops = append(ops, opSpec{kind: 1, arg: head})
		}
	}
	seg := func(ids []int) {
		for len(ids) > 0 {
			n := 1
			switch {
			case len(ops) == 0 && r.Chance(3, 4):
				n = min(len(ids), r.Range(100, 150))
			case r.Chance(1, 3):
				n = 1
			case r.Chance(1, 2):
				n = r.Range(2, 6)
			default:
				n = r.Range(5, 40)
			}
			n = min(n, len(ids))
			ops = append(ops, opSpec{kind: 0, ids: ids[:n]})
			if ids[0] <= cs.C {
				head = ids[n-1]
			}
			ids = ids[n:]
			commit()
		}
	}
	first := cs.C
	if cs.S > 0 {
		first = cs.J
	}
	seg(rng(1, first))
	if cs.S > 0 {
		onSide = true
		seg(rng(cs.sb+1, cs.sb+cs.S))
		onSide = false
		seg(rng(cs.J+1, cs.C))
	}
	// split into sessions
	ns := r.Range(2, 5)
	cutAt := map[int]bool{}
	for i := 0; i < ns-1; i++ {
		cutAt[r.Intn(len(ops))] = true
	}
	var cur []opSpec
	// clean shutdowns and hard crashes alternate in half of the cases
	alternate, phase := r.Chance(1, 2), r.Intn(2)
	flush := func(last bool) {
		s := sessSpec{ops: cur, snaproot: -1, reimp: reimpAll}
		switch k := r.Intn(20); {
		case k < 8:
			s.cutKind = 0
		case k < 15:
			s.cutKind = 1
		case k < 17:
			s.cutKind = 2
		default:
			s.cutKind = 3
		}
		if alternate {
			s.cutKind = (len(cs.sessions) + phase + 1) % 2 // 1 = clean Stop, 0 = crash
			if s.cutKind == 0 && r.Chance(1, 4) {
				s.cutKind = r.Range(2, 3)
			}
		}
		if s.cutKind >= 2 {
			if len(cur) == 0 || cur[len(cur)-1].kind != 0 {
				s.cutKind = 0
			} else {
				ids := cur[len(cur)-1].ids
				s.cutBlock = ids[r.Intn(len(ids))]
			}
		}
		cs.sessions = append(cs.sessions, s)
		cur = nil
		if s.cutKind >= 2 {
			// the interrupted import is issued again by the next run
			cur = append(cur, s.ops[len(s.ops)-1])
		}
		if !last && r.Chance(1, 5) {
			// a run that imports nothing
			e := sessSpec{snaproot: -1, cutKind: r.Intn(2), reimp: reimpAll}
			cs.sessions = append(cs.sessions, e)
		}
	}
	for i, o := range ops {
		cur = append(cur, o)
		if cutAt[i] {
			flush(false)
		}
	}
	if len(cur) > 0 || len(cs.sessions) == 0 {
		flush(true)
	}
	if len(cs.sessions) > 8 {
		cs.sessions = cs.sessions[:8]
	}
	return cs
}

// genForkCase: state flushed at block c below the head, crash; the restart repairs the head
// block to c (head header and markers above survive); only a PART of the lost chain is
// re-imported (up to k < C), then a competing block on k arrives, and the node goes down again.
func genForkCase(r *Rng) *caseSpec {
	cs := &caseSpec{snaproot: -1, sb: 1000, v2: true}
	if r.Chance(1, 2) {
		cs.scheme = 1
	}
	cs.C = r.Range(4, 30)
	c := r.Range(1, cs.C-2)
	k := r.Range(c+1, cs.C-1)
	cs.J, cs.S = k, r.Range(1, 3)
	ensureBlocks(cs.C, cs.J, cs.S)
	rng := func(a, b int) []int {
		var l []int
		for i := a; i <= b; i++ {
			l = append(l, i)
		}
		return l
	}
	s0 := sessSpec{snaproot: -1, reimp: k - c}
	for _, seg := range segments(r, rng(1, c)) {
		s0.ops = append(s0.ops, opSpec{kind: 0, ids: seg})
	}
	s0.ops = append(s0.ops, opSpec{kind: 1, arg: c})
	for _, seg := range segments(r, rng(c+1, cs.C)) {
		s0.ops = append(s0.ops, opSpec{kind: 0, ids: seg})
	}
	s1 := sessSpec{snaproot: -1, reimp: reimpAll, cutKind: r.Intn(2)}
	for _, seg := range segments(r, rng(cs.sb+1, cs.sb+cs.S)) {
		s1.ops = append(s1.ops, opSpec{kind: 0, ids: seg})
	}
	cs.sessions = []sessSpec{s0, s1}
	if r.Chance(1, 3) {
		cs.sessions = append(cs.sessions, sessSpec{snaproot: -1, reimp: reimpAll, cutKind: r.Intn(2)})
	}
	return cs
}

func emitV2(cs *caseSpec, emit func(c Sx)) {
	_, data := cs.runV2()
	for i := range cs.sessions {
		if i < len(data) {
			cs.sessions[i].dur, cs.sessions[i].snaproot = data[i].dur, data[i].snaproot
		}
	}
	emit(cs.sxV2())
}
