// Family c39: core.NewBlockChain on a database left behind by a crash (loadLastState,
// setHeadBeyondRoot / rewindHashHead / rewindPathHead, the ancient-store boundary) vs
// coq/Chain/Restart.v.
//
// A case is a scenario in the style of core/blockchain_repair_test.go, generalised:
//
//	( (scheme archive snaps) (C J S) OPS (cutOp cutKind cutBlock) (DUR SNAPROOT) )
//
//	scheme 0 = hash, 1 = path; archive: ArchiveMode (hash only); snaps: state snapshots (hash only)
//	C = canonical chain length (block ids 1..C), the side chain has ids 101..100+S and forks
//	    off canonical block J (0 = genesis): side block k has number J+k
//	OPS  = (0 IDS) InsertChain | (1 id) triedb.Commit(root(id)) [+ snaps.Cap(root,0)] |
//	       (2 f) SetFinalized(canonical block at height f) + Freeze()
//	cut  = the crash: the scenario stops at op cutOp; kind 0 = stopWithoutSaving after the op,
//	       1 = clean Stop() after the op, 2 = (inside an InsertChain) the database image taken
//	       right after the block-data batch of block cutBlock, 3 = the image taken right before
//	       the head-marker batch (writeHeadBlock) of block cutBlock.  If the point of kind 2/3 is
//	       never reached the crash is kind 0.
//	DATA = DUR: the ids of the blocks whose state can be opened on the crashed database image (by a
//	       throw-away trie database over a copy of it: what is durable is decided by the commit
//	       policy of the trie database, not modelled), SNAPROOT: () or (id) the block whose root is
//	       the persisted snapshot root (hash scheme with snapshots).  DATA is computed by the
//	       generator by running the real scenario; Run recomputes it and reports data_ok.
//
// Everything else (which blocks are stored, canonical index, head markers, frozen count at the
// crash; heads / index / stored blocks / frozen count after NewBlockChain; the re-import) is
// predicted by the model.
package main

import (
	"bytes"
	"encoding/binary"
	"errors"
	"fmt"
	"math/big"
	"os"
	"sort"
	"strings"
	"sync"
	"time"

	. "gethverif/harness/hxlib"
	"github.com/ethereum/go-ethereum/common"
	"github.com/ethereum/go-ethereum/consensus"
	"github.com/ethereum/go-ethereum/consensus/ethash"
	"github.com/ethereum/go-ethereum/core"
	"github.com/ethereum/go-ethereum/core/rawdb"
	"github.com/ethereum/go-ethereum/core/types"
	"github.com/ethereum/go-ethereum/ethdb"
	"github.com/ethereum/go-ethereum/ethdb/memorydb"
	"github.com/ethereum/go-ethereum/params"
	"github.com/ethereum/go-ethereum/triedb"
	"github.com/ethereum/go-ethereum/triedb/hashdb"
	"github.com/ethereum/go-ethereum/triedb/pathdb"
)

const (
	maxC  = 40  // single-crash format
	maxC2 = 200 // multi-session format
)

var chainCfg = params.AllEthashProtocolChanges

func bad(msg string) { panic("hxlib: bad case: " + msg) }

// ---------------------------------------------------------------- blocks (cached per process)

var (
	blkMu    sync.Mutex
	gendb    ethdb.Database
	gblock   *types.Block
	canonBlk []*types.Block            // index = id (0 = genesis)
	sideBlk  = map[int][]*types.Block{} // fork point J -> side blocks k = 1.. (index k-1)
)

func genesisSpec() *core.Genesis {
	return &core.Genesis{Config: chainCfg, BaseFee: big.NewInt(params.InitialBaseFee), GasLimit: 30_000_000, Difficulty: big.NewInt(131072),
		Alloc: types.GenesisAlloc{common.HexToAddress("0x00000000000000000000000000000000000c3900"): {Balance: big.NewInt(1)}}}
}

func extend(parent *types.Block, id int) *types.Block {
	bs, _ := core.GenerateChain(chainCfg, parent, ethash.NewFaker(), gendb, 1, func(i int, g *core.BlockGen) {
		g.SetCoinbase(common.BigToAddress(big.NewInt(int64(0xC3900000 + id))))
		g.SetExtra([]byte{byte(id >> 8), byte(id)})
	})
	return bs[0]
}

func ensureBlocks(C, J, S int) {
	blkMu.Lock()
	defer blkMu.Unlock()
	if gendb == nil {
		gendb = rawdb.NewMemoryDatabase()
		tdb := triedb.NewDatabase(gendb, triedb.HashDefaults)
		gblock = genesisSpec().MustCommit(gendb, tdb)
		tdb.Close()
		canonBlk = []*types.Block{gblock}
	}
	for len(canonBlk) <= C {
		canonBlk = append(canonBlk, extend(canonBlk[len(canonBlk)-1], len(canonBlk)))
	}
	if S > 0 {
		l := sideBlk[J]
		for len(l) < S {
			p := canonBlk[J]
			if len(l) > 0 {
				p = l[len(l)-1]
			}
			l = append(l, extend(p, 0x100000+J*64+len(l)+1))
		}
		sideBlk[J] = l
	}
}

// ---------------------------------------------------------------- case

type opSpec struct {
	kind int
	ids  []int
	arg  int
}

type caseSpec struct {
	scheme         int
	archive, snaps bool
	C, J, S        int
	ops            []opSpec
	cutOp, cutKind int
	cutBlock       int
	dur            []int
	snaproot       int // -1 none
	sb             int // id base of the side chain: 100 (single-crash format) or 1000 (multi-session format)
	sessions       []sessSpec
	v2             bool
}

func (cs *caseSpec) block(id int) *types.Block {
	switch {
	case id >= 0 && id <= cs.C:
		return canonBlk[id]
	case id > cs.sb && id <= cs.sb+cs.S:
		return sideBlk[cs.J][id-cs.sb-1]
	}
	return nil
}

func (cs *caseSpec) ids() []int {
	out := []int{}
	for i := 0; i <= cs.C; i++ {
		out = append(out, i)
	}
	for k := 1; k <= cs.S; k++ {
		out = append(out, cs.sb+k)
	}
	return out
}

func (cs *caseSpec) maxn() int {
	if cs.S > 0 && cs.J+cs.S > cs.C {
		return cs.J + cs.S
	}
	return cs.C
}

func parseCase(c Sx) *caseSpec {
	top := AsList(c)
	if len(top) == 3 {
		return parseCaseV2(top)
	}
	if len(top) != 5 {
		bad("top")
	}
	cfg, tr, cut, data := AsList(top[0]), AsList(top[1]), AsList(top[3]), AsList(top[4])
	if len(cfg) != 3 || len(tr) != 3 || len(cut) != 3 || len(data) != 2 {
		bad("arity")
	}
	cs := &caseSpec{scheme: AsInt(cfg[0]), archive: AsInt(cfg[1]) == 1, snaps: AsInt(cfg[2]) == 1,
		C: AsInt(tr[0]), J: AsInt(tr[1]), S: AsInt(tr[2]), cutOp: AsInt(cut[0]), cutKind: AsInt(cut[1]), cutBlock: AsInt(cut[2]), snaproot: -1, sb: 100}
	if cs.scheme < 0 || cs.scheme > 1 || AsInt(cfg[1]) < 0 || AsInt(cfg[1]) > 1 || AsInt(cfg[2]) < 0 || AsInt(cfg[2]) > 1 {
		bad("cfg")
	}
	if cs.scheme == 1 && (cs.archive || cs.snaps) {
		bad("path scheme has neither archive mode nor legacy snapshots here")
	}
	if cs.C < 1 || cs.C > maxC || cs.J < 0 || cs.J > cs.C || cs.S < 0 || cs.S > 30 || cs.J+cs.S > 62 {
		bad("tree")
	}
	if cs.cutKind < 0 || cs.cutKind > 3 || cs.cutOp < 0 || cs.cutBlock < 0 {
		bad("cut")
	}
	cs.ops = parseOps(top[2])
	for _, x := range AsList(data[0]) {
		cs.dur = append(cs.dur, AsInt(x))
	}
	if sr := AsList(data[1]); len(sr) == 1 {
		cs.snaproot = AsInt(sr[0])
	} else if len(sr) != 0 {
		bad("snaproot")
	}
	ensureBlocks(cs.C, cs.J, cs.S)
	return cs
}

func parseOps(x Sx) []opSpec {
	var ops []opSpec
	for _, o := range AsList(x) {
		f := AsList(o)
		if len(f) != 2 {
			bad("op arity")
		}
		op := opSpec{kind: AsInt(f[0])}
		switch op.kind {
		case 0:
			for _, x := range AsList(f[1]) {
				id := AsInt(x)
				if id < 0 || id > 4096 {
					bad("block id")
				}
				op.ids = append(op.ids, id)
			}
		case 1, 2:
			op.arg = AsInt(f[1])
			if op.arg < 0 || op.arg > 4096 {
				bad("op arg")
			}
		default:
			bad("op kind")
		}
		ops = append(ops, op)
	}
	if len(ops) > 64 {
		bad("too many ops")
	}
	return ops
}

func opsSx(list []opSpec) Sx {
	ops := SL{}
	for _, o := range list {
		if o.kind == 0 {
			l := SL{}
			for _, x := range o.ids {
				l = append(l, I(int64(x)))
			}
			ops = append(ops, L(I(0), l))
		} else {
			ops = append(ops, L(I(int64(o.kind)), I(int64(o.arg))))
		}
	}
	return ops
}

func intsSx(l []int) Sx {
	d := SL{}
	for _, x := range l {
		d = append(d, I(int64(x)))
	}
	return d
}

func (cs *caseSpec) sx(dur []int, snaproot int) Sx {
	ops := opsSx(cs.ops)
	d := intsSx(dur)
	return L(L(I(int64(cs.scheme)), Bool(cs.archive), Bool(cs.snaps)), L(I(int64(cs.C)), I(int64(cs.J)), I(int64(cs.S))), ops,
		L(I(int64(cs.cutOp)), I(int64(cs.cutKind)), I(int64(cs.cutBlock))), L(d, Opt(snaproot >= 0, I(int64(snaproot)))))
}

// ---------------------------------------------------------------- the tapped key-value store

// tapKV passes everything to the in-memory store and lets the harness look at every atomic
// write (a direct Put/Delete or one batch) before and after it is applied.  Close is a
// no-op: the store outlives the "process" that crashes.
type tapKV struct {
	ethdb.KeyValueStore
	before func(puts map[string][]byte, dels []string)
	after  func(puts map[string][]byte, dels []string)
}

func (t *tapKV) Close() error { return nil }
func (t *tapKV) Put(k, v []byte) error {
	p := map[string][]byte{string(k): v}
	if t.before != nil {
		t.before(p, nil)
	}
	err := t.KeyValueStore.Put(k, v)
	if t.after != nil {
		t.after(p, nil)
	}
	return err
}
func (t *tapKV) Delete(k []byte) error {
	if t.before != nil {
		t.before(nil, []string{string(k)})
	}
	err := t.KeyValueStore.Delete(k)
	if t.after != nil {
		t.after(nil, []string{string(k)})
	}
	return err
}
func (t *tapKV) NewBatch() ethdb.Batch {
	return &tapBatch{Batch: t.KeyValueStore.NewBatch(), t: t, puts: map[string][]byte{}}
}
func (t *tapKV) NewBatchWithSize(n int) ethdb.Batch {
	return &tapBatch{Batch: t.KeyValueStore.NewBatchWithSize(n), t: t, puts: map[string][]byte{}}
}

type tapBatch struct {
	ethdb.Batch
	t    *tapKV
	puts map[string][]byte
	dels []string
}

func (b *tapBatch) Put(k, v []byte) error {
	b.puts[string(k)] = append([]byte{}, v...)
	return b.Batch.Put(k, v)
}
func (b *tapBatch) Delete(k []byte) error {
	b.dels = append(b.dels, string(k))
	return b.Batch.Delete(k)
}
func (b *tapBatch) Write() error {
	if b.t.before != nil {
		b.t.before(b.puts, b.dels)
	}
	err := b.Batch.Write()
	if b.t.after != nil {
		b.t.after(b.puts, b.dels)
	}
	return err
}
func (b *tapBatch) Reset() {
	b.puts, b.dels = map[string][]byte{}, nil
	b.Batch.Reset()
}

func copyKV(src ethdb.KeyValueStore) ethdb.KeyValueStore {
	dst := memorydb.New()
	it := src.NewIterator(nil, nil)
	defer it.Release()
	for it.Next() {
		dst.Put(append([]byte{}, it.Key()...), append([]byte{}, it.Value()...))
	}
	return dst
}

func headerKey(num uint64, h common.Hash) string {
	var n [8]byte
	binary.BigEndian.PutUint64(n[:], num)
	return "h" + string(n[:]) + string(h.Bytes())
}

// ---------------------------------------------------------------- running a scenario

func (cs *caseSpec) chainConfig() *core.BlockChainConfig {
	cfg := core.DefaultConfig()
	cfg.StateScheme = rawdb.HashScheme
	if cs.scheme == 1 {
		cfg.StateScheme = rawdb.PathScheme
	}
	cfg.ArchiveMode = cs.archive
	cfg.SnapshotLimit = 0
	if cs.snaps {
		cfg.SnapshotLimit = 256
	}
	cfg.SnapshotWait = true
	cfg.TxLookupLimit = -1
	cfg.NoPrefetch = true
	cfg.TrieNoAsyncFlush = true
	return cfg
}

func (cs *caseSpec) probeConfig() *triedb.Config {
	if cs.scheme == 1 {
		pc := *pathdb.Defaults
		pc.NoAsyncFlush = true
		return &triedb.Config{PathDB: &pc}
	}
	return &triedb.Config{HashDB: hashdb.Defaults}
}

func errClass(err error) int64 {
	switch {
	case err == nil:
		return 0
	case errors.Is(err, consensus.ErrUnknownAncestor):
		return 4
	case errors.Is(err, consensus.ErrPrunedAncestor):
		return 5
	}
	s := err.Error()
	switch {
	case strings.HasPrefix(s, "invalid old chain"):
		return 2
	case strings.HasPrefix(s, "invalid new chain"):
		return 3
	case strings.HasPrefix(s, "missing parent"):
		return 6
	case strings.HasPrefix(s, "non contiguous insert"):
		return 7
	case strings.HasPrefix(s, "current block missing"):
		return 10
	}
	return 99
}

type crashed struct {
	image    ethdb.KeyValueStore
	dir      string
	opErrs   []int64
	frozen   uint64
	dur      []int
	snaproot int
	cutHit   bool // a kind 2/3 crash point was reached
	clean    bool
}

type freezerI interface {
	Freeze() error
	Ancients() (uint64, error)
}

func mkScratch() string {
	dir, err := os.MkdirTemp("/dev/shm", "c39-")
	if err != nil {
		dir, err = os.MkdirTemp("", "c39-")
		if err != nil {
			panic("hxlib: cannot create temp dir")
		}
	}
	return dir
}

// env is one running "process": the chain over the tapped key-value store and the ancient dir.
type env struct {
	dir      string
	live     ethdb.KeyValueStore
	tap      *tapKV
	db       ethdb.Database
	bc       *core.BlockChain
	preHead  common.Hash   // head block marker found in the database before NewBlockChain
	preCanon []common.Hash // canonical hashes 0..maxn+1 found before NewBlockChain
	check    func(when string) // the direct oracle, evaluated after every operation (may be nil)
}

// openEnv opens the database (key-value image + ancient dir) and starts the chain on it.
// code 50: rawdb.Open failed, 51: NewBlockChain failed.
func (cs *caseSpec) openEnv(dir string, kv ethdb.KeyValueStore) (*env, int64, error) {
	e := &env{dir: dir, live: kv, tap: &tapKV{KeyValueStore: kv}}
	db, err := rawdb.Open(e.tap, rawdb.OpenOptions{Ancient: dir})
	if err != nil {
		return nil, 50, err
	}
	e.db = db
	e.preCanon = make([]common.Hash, cs.maxn()+2)
	for n := range e.preCanon {
		e.preCanon[n] = rawdb.ReadCanonicalHash(db, uint64(n))
	}
	e.preHead = rawdb.ReadHeadBlockHash(db)
	bc, err := core.NewBlockChain(db, genesisSpec(), ethash.NewFaker(), cs.chainConfig())
	if err != nil {
		db.Close()
		return nil, 51, err
	}
	e.bc = bc
	return e, 0, nil
}

// execute runs the scenario up to the crash and returns the database image left behind.
func (cs *caseSpec) execute() *crashed {
	dir := mkScratch()
	e, _, err := cs.openEnv(dir, memorydb.New())
	if err != nil {
		panic("fresh chain: " + err.Error())
	}
	return cs.runOps(e, cs.ops, cs.cutOp, cs.cutKind, cs.cutBlock)
}

// runOps runs ops[0..cutOp] on the running chain, ends the process as the cut says and
// returns the database image left behind (and the DATA computed from it).
func (cs *caseSpec) runOps(e *env, ops []opSpec, cutOp, cutKind, cutBlock int) *crashed {
	dir, live, tap, db, bc := e.dir, e.live, e.tap, e.db, e.bc
	cr := &crashed{dir: dir, snaproot: -1}
	var image ethdb.KeyValueStore
	for i, o := range ops {
		if i > cutOp {
			break
		}
		var class int64
		switch o.kind {
		case 0:
			var blocks types.Blocks
			ok := true
			for _, id := range o.ids {
				b := cs.block(id)
				if b == nil || id == 0 {
					ok = false
					break
				}
				blocks = append(blocks, b)
			}
			if !ok {
				class = 8
				break
			}
			if i == cutOp && (cutKind == 2 || cutKind == 3) {
				if cb := cs.block(cutBlock); cb != nil && cutBlock != 0 {
					hk := headerKey(cb.NumberU64(), cb.Hash())
					if cutKind == 2 {
						tap.after = func(puts map[string][]byte, dels []string) {
							if _, ok := puts[hk]; ok && image == nil {
								if _, hd := puts["LastBlock"]; !hd {
									image = copyKV(live)
								}
							}
						}
					} else {
						tap.before = func(puts map[string][]byte, dels []string) {
							if v, ok := puts["LastBlock"]; ok && image == nil && bytes.Equal(v, cb.Hash().Bytes()) {
								image = copyKV(live)
							}
						}
					}
				}
			}
			_, err := bc.InsertChain(blocks)
			tap.after, tap.before = nil, nil
			class = errClass(err)
		case 1:
			b := cs.block(o.arg)
			if b == nil {
				class = 8
				break
			}
			if !bc.HasBlock(b.Hash(), b.NumberU64()) || !bc.HasState(b.Root()) {
				break // nothing to commit; what is durable is data, so the model does not need to know
			}
			// errors (e.g. an already flattened snapshot layer) only mean nothing was persisted
			bc.TrieDB().Commit(b.Root(), false)
			if cs.snaps && bc.Snapshots() != nil {
				bc.Snapshots().Cap(b.Root(), 0)
			}
		case 2:
			h := bc.GetHeaderByNumber(uint64(o.arg))
			if h == nil {
				class = 8
				break
			}
			bc.SetFinalized(h)
			db.(freezerI).Freeze()
		}
		cr.opErrs = append(cr.opErrs, class)
		if e.check != nil {
			e.check(fmt.Sprintf("op %d", i))
		}
		if image != nil {
			break
		}
	}
	cr.frozen, _ = db.(freezerI).Ancients()
	if image != nil {
		cr.cutHit = true
	}
	if cutKind == 1 && image == nil {
		bc.Stop()
		cr.clean = true
	} else {
		bc.TrieDB().Close()
		bc.VerifStopWithoutSaving()
	}
	db.Close()
	if image == nil {
		image = live
	}
	cr.image = image
	// DATA: which states can be opened on the image, and the persisted snapshot root
	probe := rawdb.NewDatabase(copyKV(image))
	tdb := triedb.NewDatabase(probe, cs.probeConfig())
	for _, id := range cs.ids() {
		if _, err := tdb.NodeReader(cs.block(id).Root()); err == nil {
			cr.dur = append(cr.dur, id)
		}
	}
	tdb.Close()
	if cs.snaps {
		if sr := rawdb.ReadSnapshotRoot(image); sr != (common.Hash{}) {
			cr.snaproot = 4095 // a root that is the state of no block of the case
			for _, id := range cs.ids() {
				if cs.block(id).Root() == sr {
					cr.snaproot = id
					break
				}
			}
		}
	}
	return cr
}

// markersAbove looks at the canonical markers above the head header's number: there must be
// none.  The one recorded deviation is tolerated by its own shape only (C38's open finding
// C38-linked-canon-above-head-header: a re-import of the SAME chain on a rewound head block
// pulls the head header down and leaves the chain's own markers above it): every marker
// above is then a parent-linked DESCENDANT of the head header, without a gap.  Anything else
// (a marker that is not a descendant of the head: the index ends in blocks of an abandoned
// chain) is a failure.
func markersAbove(db ethdb.Database, bc *core.BlockChain, maxn int) (string, bool) {
	ch := bc.CurrentHeader()
	prev, gap, seen := ch.Hash(), false, false
	for n := ch.Number.Uint64() + 1; n <= uint64(maxn)+2; n++ {
		h := rawdb.ReadCanonicalHash(db, n)
		if h == (common.Hash{}) {
			gap = true
			continue
		}
		seen = true
		hd := rawdb.ReadHeader(db, h, n)
		if gap || hd == nil || hd.ParentHash != prev {
			return fmt.Sprintf("canonical marker at %d above the head header #%d is not a descendant of it (number index ends in an abandoned chain)", n, ch.Number), false
		}
		prev = h
	}
	return "", seen
}

func eqInts(a, b []int) bool {
	if len(a) != len(b) {
		return false
	}
	for i := range a {
		if a[i] != b[i] {
			return false
		}
	}
	return true
}

func run(c Sx) Result {
	cs := parseCase(c)
	if cs.v2 {
		res, _ := cs.runV2()
		return res
	}
	res := Result{}
	cr := cs.execute()
	defer os.RemoveAll(cr.dir)
	idOf := map[common.Hash]int{}
	for _, id := range cs.ids() {
		idOf[cs.block(id).Hash()] = id
	}
	id := func(h common.Hash) int64 {
		if i, ok := idOf[h]; ok {
			return int64(i)
		}
		return -2
	}
	dataOK := eqInts(cr.dur, cs.dur) && cr.snaproot == cs.snaproot
	durable := map[int]bool{}
	for _, d := range cr.dur {
		durable[d] = true
	}

	// the database as the new process finds it
	tap2 := &tapKV{KeyValueStore: cr.image}
	db2, err := rawdb.Open(tap2, rawdb.OpenOptions{Ancient: cr.dir})
	if err != nil {
		res.Obs = L(Bool(dataOK), I(50))
		res.Oracle = "rawdb.Open on the crashed database failed: " + err.Error()
		return res
	}
	defer db2.Close()
	maxn := cs.maxn()
	preCanon := make([]common.Hash, maxn+2)
	for n := range preCanon {
		preCanon[n] = rawdb.ReadCanonicalHash(db2, uint64(n))
	}
	preHead := rawdb.ReadHeadBlockHash(db2)
	preHeadID := id(preHead)

	bc, err := core.NewBlockChain(db2, genesisSpec(), ethash.NewFaker(), cs.chainConfig())
	if err != nil {
		res.Obs = L(Bool(dataOK), I(51))
		res.Oracle = "NewBlockChain on the crashed database failed: " + err.Error()
		return res
	}
	defer bc.Stop()

	var fails []string
	fail := func(f string, a ...interface{}) { fails = append(fails, fmt.Sprintf(f, a...)) }

	observe := func() (Sx, *types.Header, *types.Header) {
		cb, ch, csn := bc.CurrentBlock(), bc.CurrentHeader(), bc.CurrentSnapBlock()
		canon := SL{}
		for n := 0; n <= maxn+1; n++ {
			h := rawdb.ReadCanonicalHash(db2, uint64(n))
			canon = append(canon, Opt(h != (common.Hash{}), I(id(h))))
		}
		known := SL{}
		for _, i := range cs.ids() {
			b := cs.block(i)
			known = append(known, Bool(bc.GetBlock(b.Hash(), b.NumberU64()) != nil))
		}
		fr, _ := db2.(freezerI).Ancients()
		return L(L(I(id(cb.Hash())), I(id(ch.Hash())), I(id(csn.Hash()))), Bool(bc.HasState(cb.Root)), U(fr), canon, known), cb, ch
	}

	// the direct oracle on the reopened chain
	checkChain := func(when string) {
		cb, ch := bc.CurrentBlock(), bc.CurrentHeader()
		if !bc.HasState(cb.Root) && cb.Number.Uint64() != 0 {
			fail("%s: head block #%d has no state", when, cb.Number)
		}
		if ch.Number.Uint64() < cb.Number.Uint64() {
			fail("%s: head header #%d below head block #%d", when, ch.Number, cb.Number)
		}
		// canonical index parent-linked from the head header down, head block on it
		want := ch.Hash()
		onChain := false
		for n := int64(ch.Number.Uint64()); n >= 0; n-- {
			h := rawdb.ReadCanonicalHash(db2, uint64(n))
			if h != want {
				fail("%s: canonical index at %d is not the ancestor of head header #%d", when, n, ch.Number)
				break
			}
			hd := bc.GetHeader(h, uint64(n))
			if hd == nil {
				fail("%s: canonical header %d missing", when, n)
				break
			}
			if uint64(n) == cb.Number.Uint64() && h == cb.Hash() {
				onChain = true
			}
			if n > 0 && bc.GetBlock(h, uint64(n)) == nil {
				fail("%s: canonical block %d missing", when, n)
				break
			}
			want = hd.ParentHash
		}
		if !onChain && len(fails) == 0 {
			fail("%s: head block is not an ancestor of the head header", when)
		}
		if msg, known := markersAbove(db2, bc, maxn); msg != "" {
			fail("%s: %s", when, msg)
		} else if known {
			res.Tags = append(res.Tags, "C38-linked-canon-above-head-header")
		}
	}
	checkChain("after restart")
	obs1, cb, _ := observe()

	// nothing at or below the newest persisted state is lost: P = the newest block on the
	// pre-crash head's ancestor path whose state is durable (and, with snapshots, not above the
	// persisted snapshot root when that lies on the path)
	if preHeadID >= 0 {
		path := []int{}
		for x := int(preHeadID); ; {
			path = append(path, x)
			if x == 0 {
				break
			}
			p, ok := idOf[cs.block(x).ParentHash()]
			if !ok {
				break
			}
			x = p
		}
		P := 0
		for _, x := range path { // newest first
			if durable[x] {
				P = int(cs.block(x).NumberU64())
				break
			}
		}
		if cs.snaps && cr.snaproot >= 0 {
			// the rewind has to pass the persisted snapshot root; a root that is not the state
			// of a block on the path is never passed (the chain goes back to genesis)
			onPath := false
			for _, x := range path {
				if x == cr.snaproot {
					onPath = true
				}
			}
			if b := cs.block(cr.snaproot); b == nil || !onPath {
				P = 0
			} else if sn := int(b.NumberU64()); sn < P {
				P = sn
			}
		}
		for n := 0; n <= P && n < len(preCanon); n++ {
			if preCanon[n] == (common.Hash{}) {
				continue
			}
			if h := rawdb.ReadCanonicalHash(db2, uint64(n)); h != preCanon[n] {
				fail("block %d (canonical before the crash, at or below the persisted state #%d) is no longer canonical", n, P)
				break
			}
			if n > 0 && bc.GetBlock(preCanon[n], uint64(n)) == nil {
				fail("block %d (canonical before the crash, at or below the persisted state #%d) is lost", n, P)
				break
			}
		}
		if int(cb.Number.Uint64()) < P {
			fail("head block #%d rewound below the newest persisted state #%d", cb.Number, P)
		}
		if cr.clean && cb.Hash() != preHead {
			fail("head block changed across a clean Stop")
		}
	}

	// re-import the remaining canonical blocks
	a, ok := idOf[cb.Hash()]
	if !ok {
		a = 0
	}
	if a > cs.sb {
		a = cs.J
	}
	var rest types.Blocks
	for i := a + 1; i <= cs.C; i++ {
		rest = append(rest, canonBlk[i])
	}
	var class2 int64
	if len(rest) > 0 {
		_, err := bc.InsertChain(rest)
		class2 = errClass(err)
	}
	obs2, cb2, ch2 := observe()
	if len(rest) > 0 {
		if class2 != 0 {
			fail("re-import of blocks %d..%d failed (class %d)", a+1, cs.C, class2)
		}
		if cb2.Hash() != canonBlk[cs.C].Hash() || ch2.Hash() != canonBlk[cs.C].Hash() {
			fail("after re-import the head is block %d / header %d, not %d", id(cb2.Hash()), id(ch2.Hash()), cs.C)
		}
		for n := 0; n <= cs.C; n++ {
			if rawdb.ReadCanonicalHash(db2, uint64(n)) != canonBlk[n].Hash() {
				fail("after re-import canonical block %d is not the original one", n)
				break
			}
		}
		checkChain("after re-import")
	}

	errs := SL{}
	for _, e := range cr.opErrs {
		errs = append(errs, I(e))
	}
	res.Obs = L(Bool(dataOK), I(0), errs, U(cr.frozen), obs1, I(class2), obs2)
	res.Oracle = strings.Join(fails, " | ")

	// tags
	sch := "hash"
	if cs.scheme == 1 {
		sch = "path"
	}
	res.Tags = append(res.Tags, sch, fmt.Sprintf("cut%d", cs.cutKind))
	if cs.archive {
		res.Tags = append(res.Tags, "archive")
	}
	if cs.snaps {
		res.Tags = append(res.Tags, "snapshots")
	}
	if cs.S > 0 {
		res.Tags = append(res.Tags, "sidechain")
	}
	if cr.cutHit {
		res.Tags = append(res.Tags, "cut-hit")
	}
	if cr.frozen > 1 {
		res.Tags = append(res.Tags, "frozen")
	}
	if !dataOK {
		res.Tags = append(res.Tags, "data-stale")
	}
	repaired := cb.Hash() != preHead
	if repaired {
		res.Tags = append(res.Tags, "repaired")
		if cb.Number.Uint64() == 0 {
			res.Tags = append(res.Tags, "to-genesis")
		}
		if fr, _ := db2.(freezerI).Ancients(); fr < cr.frozen {
			res.Tags = append(res.Tags, "ancients-truncated")
		}
	}
	if preHeadID > int64(cs.sb) {
		res.Tags = append(res.Tags, "crash-on-sidechain")
	}
	res.Tags = append(res.Tags, fmt.Sprintf("len%d", (cs.C+9)/10*10))
	res.NonTrivial = repaired || cr.cutHit
	sort.Strings(res.Tags)
	return res
}

func main() {
	// rawdb.Open prints the chain metadata to os.Stderr on its error paths
	if f, err := os.OpenFile(os.DevNull, os.O_WRONLY, 0); err == nil {
		os.Stderr = f
	}
	Main(Family{
		ID: "c39",
		Rule: "random crash scenarios generalising core/blockchain_repair_test.go: canonical chain 1..40 blocks, optional side chain (1..12 blocks, any fork point) " +
			"imported before the canonical chain passes the fork point, InsertChain in random segments, explicit trie commits (and snapshot flattening) of random blocks, " +
			"freezes at random finality heights into a real ancient store (temp dir), hash scheme (archive or not, snapshots on/off) and path scheme; the crash is " +
			"stopWithoutSaving after a random operation, a clean Stop, or a database image cut inside an import (after a block's data batch / before its head-marker batch); " +
			"then NewBlockChain on the image + ancient dir and re-import of the remaining canonical blocks. A malformed stream has unknown-ancestor imports, absent blocks, " +
			"freezes above the head and cut points that are never reached. Non-trivial = the restart repaired the head (head block after restart differs from the stored marker) " +
			"or the crash image was cut inside an import. A multi-session stream runs the node 2..8 times on one database over chains of 20..175 blocks (mostly beyond the 128 " +
			"in-memory layers), each run importing 0/1/many blocks and ending in a clean Stop, a crash or an image cut (clean and crash alternating in half of the cases), with a " +
			"restart, pathdb's disk-layer-id / state-history-head check and a re-import of the lost blocks after every run; non-trivial there = a repair happened or a crash followed a clean shutdown.",
		Gen:         gen,
		Run:         run,
		CaseTimeout: 120 * time.Second,
	})
}
