package main

import (
	"os"

	. "gethverif/harness/hxlib"
)

// split ids a..b (inclusive) into random contiguous InsertChain segments
func segments(r *Rng, ids []int) [][]int {
	var out [][]int
	for len(ids) > 0 {
		n := 1
		switch {
		case r.Chance(1, 4):
			n = len(ids)
		case r.Chance(1, 2):
			n = r.Range(1, 3)
		default:
			n = r.Range(1, 12)
		}
		if n > len(ids) {
			n = len(ids)
		}
		out = append(out, ids[:n])
		ids = ids[n:]
	}
	return out
}

func genCase(r *Rng, adversarial bool) *caseSpec {
	cs := &caseSpec{snaproot: -1, sb: 100}
	if r.Chance(2, 5) {
		cs.scheme = 1
	} else {
		cs.archive = r.Chance(1, 4)
		cs.snaps = r.Chance(1, 3)
	}
	switch {
	case r.Chance(1, 5):
		cs.C = r.Range(1, 4)
	case r.Chance(1, 2):
		cs.C = r.Range(3, 16)
	default:
		cs.C = r.Range(8, maxC)
	}
	if r.Chance(1, 2) {
		cs.J = r.Range(0, cs.C-1)
		if r.Chance(1, 3) {
			cs.J = 0
		}
		cs.S = r.Range(1, 12)
	}
	ensureBlocks(cs.C, cs.J, cs.S)

	// the three import phases, with commits and freezes sprinkled in between
	canonHead, onSide, sideDone := 0, false, cs.S == 0
	frozenTo := 0 // highest frozen height
	var imported []int
	sprinkle := func() {
		for r.Chance(1, 3) {
			if len(imported) == 0 {
				return
			}
			if r.Chance(3, 5) {
				// commit: any imported block (hash scheme); path scheme: a canonical block every later import descends from
				var id int
				if cs.scheme == 0 {
					id = imported[r.Intn(len(imported))]
					if r.Chance(1, 2) {
						id = imported[len(imported)-1-r.Intn(min(3, len(imported)))]
					}
				} else {
					// layerTree.cap(root, 0) keeps the single new disk layer only: commit the
					// head, and only while every later import descends from it
					if onSide || canonHead < 1 {
						continue
					}
					id = canonHead
				}
				cs.ops = append(cs.ops, opSpec{kind: 1, arg: id})
			} else {
				lim := canonHead
				if onSide || (!sideDone && cs.J < lim) {
					lim = min(lim, cs.J)
				}
				if lim < 1 {
					continue
				}
				f := r.Range(max(frozenTo, 1), lim)
				if r.Chance(1, 4) {
					f = r.Range(0, lim)
				}
				if f > frozenTo {
					frozenTo = f
				}
				cs.ops = append(cs.ops, opSpec{kind: 2, arg: f})
			}
		}
	}
	rng := func(a, b int) []int {
		var l []int
		for i := a; i <= b; i++ {
			l = append(l, i)
		}
		return l
	}
	first := cs.C
	if cs.S > 0 {
		first = cs.J
	}
	for _, seg := range segments(r, rng(1, first)) {
		cs.ops = append(cs.ops, opSpec{kind: 0, ids: seg})
		imported = append(imported, seg...)
		canonHead = seg[len(seg)-1]
		sprinkle()
	}
	if cs.S > 0 {
		onSide = true
		for _, seg := range segments(r, rng(cs.sb+1, cs.sb+cs.S)) {
			cs.ops = append(cs.ops, opSpec{kind: 0, ids: seg})
			imported = append(imported, seg...)
			sprinkle()
		}
		for _, seg := range segments(r, rng(cs.J+1, cs.C)) {
			cs.ops = append(cs.ops, opSpec{kind: 0, ids: seg})
			imported = append(imported, seg...)
			canonHead = seg[len(seg)-1]
			onSide, sideDone = false, true
			sprinkle()
		}
	}
	if adversarial {
		// damage one operation
		i := r.Intn(len(cs.ops))
		switch o := &cs.ops[i]; {
		case o.kind == 0 && r.Chance(1, 2) && len(o.ids) > 0:
			o.ids = o.ids[min(len(o.ids)-1, r.Range(1, 2)):] // a gap: unknown ancestor
		case o.kind == 0:
			o.ids = append(o.ids, 99) // a block that is not in the tree
		case o.kind == 1:
			o.arg = 99
		default:
			o.arg = cs.C + r.Range(1, 3)
		}
	}
	// the crash
	cs.cutOp = len(cs.ops) - 1
	if r.Chance(3, 5) {
		cs.cutOp = r.Intn(len(cs.ops))
	}
	switch k := r.Intn(20); {
	case k < 7:
		cs.cutKind = 0
	case k < 10:
		cs.cutKind = 1
	case k < 14:
		cs.cutKind = 2
	default:
		cs.cutKind = 3
	}
	if cs.cutKind >= 2 {
		// move the cut to an import operation
		var imps []int
		for i, o := range cs.ops {
			if o.kind == 0 && len(o.ids) > 0 {
				imps = append(imps, i)
			}
		}
		cs.cutOp = imps[r.Intn(len(imps))]
		if cs.S > 0 && r.Chance(1, 3) {
			// prefer the import that overtakes the side chain (a reorg)
			for _, i := range imps {
				if cs.ops[i].ids[0] == cs.J+1 {
					cs.cutOp = i
				}
			}
		}
		ids := cs.ops[cs.cutOp].ids
		cs.cutBlock = ids[r.Intn(len(ids))]
		if r.Chance(1, 3) {
			cs.cutBlock = ids[0]
		}
		if adversarial && r.Chance(1, 3) {
			cs.cutBlock = 98 // never reached
		}
	}
	cs.ops = cs.ops[:cs.cutOp+1]
	return cs
}

func gen(r *Rng, tier string, emit func(c Sx)) {
	r = NewRng(r.U64())
	n := 110
	if tier == "thorough" {
		n = 1500
	}
	for i := 0; i < n; i++ {
		cs := genCase(r, i%10 == 9)
		cr := cs.execute()
		os.RemoveAll(cr.dir)
		emit(cs.sx(cr.dur, cr.snaproot))
	}
	// multi-session histories on long chains (clean shutdowns and crashes alternating)
	r2 := r.Fork()
	m := 22
	if tier == "thorough" {
		m = 260
	}
	for i := 0; i < m; i++ {
		emitV2(genCaseV2(r2), emit)
	}
	// partial re-import after a restart, then a competing block
	for i := 0; i < m/2+1; i++ {
		emitV2(genForkCase(r2), emit)
	}
}
