//go:build c19finding

// Replay of the candidate finding reported by C19 (not part of the check):
//
//	go test -tags "verif c19finding" ./c19 -run TestCorruptBlockPopHangs -timeout 10s
//
// A block whose data section is the single continuation byte 0x80 passes
// parseIndexBlock; a writer opened on it (descriptor: max 5, entries 2) never
// returns from pop(5): scanSection does not check binary.Uvarint's n <= 0.
package main

import (
	"math"
	"testing"
	"time"

	"github.com/ethereum/go-ethereum/core/rawdb"
	"github.com/ethereum/go-ethereum/ethdb"
	"github.com/ethereum/go-ethereum/triedb/pathdb"
)

func TestCorruptBlockPopHangs(t *testing.T) {
	blob := []byte{0x80, 0x00, 0x00, 0x01}
	if _, _, err := pathdb.VerifC19ParseIndexBlock(blob); err != nil {
		t.Fatalf("blob rejected: %v", err)
	}
	w, err := pathdb.VerifC19NewBlockWriter(blob, 5, 2, 0, 0, math.MaxUint64)
	if err != nil {
		t.Fatalf("writer rejected the blob: %v", err)
	}
	done := make(chan error, 1)
	go func() { done <- w.Pop(5) }()
	select {
	case err := <-done:
		t.Logf("pop returned: %v", err)
	case <-time.After(2 * time.Second):
		t.Fatalf("pop(5) did not return within 2s: scanSection spins on a lone continuation byte")
	}
}

// Candidate: a block with ONE restart section opened with a descriptor claiming
// entries = 257 (entries%256 == 1, entries != 1): pop(max) drops the only
// restart and then indexes restarts[-1].
func TestLyingDescPopPanics(t *testing.T) {
	w0, _ := pathdb.VerifC19NewBlockWriter(nil, 0, 0, 0, 0, 0)
	w0.Append(7, nil)
	w0.Append(9, nil)
	blob := append([]byte{}, w0.Finish()...)
	w, err := pathdb.VerifC19NewBlockWriter(blob, 9, 257, 0, 0, math.MaxUint64)
	if err != nil {
		t.Fatalf("writer rejected the blob: %v", err)
	}
	defer func() {
		if e := recover(); e != nil {
			t.Fatalf("pop(9) panicked: %v", e)
		}
	}()
	t.Logf("pop returned: %v", w.Pop(9))
}

// two blocks A (full) and B (short): ids 1000, 2000, ... with 2-byte deltas; A.max < B.min.
func twoBlocks(t *testing.T) (ethdb.Database, []uint64, uint64, uint64) {
	db := rawdb.NewMemoryDatabase()
	w, _ := pathdb.VerifC19NewIndexWriter(db, addr, 0, 0)
	var all []uint64
	for i := 1; ; i++ {
		id := uint64(i) * 1000
		if err := w.Append(id, nil); err != nil {
			t.Fatal(err)
		}
		all = append(all, id)
		b := db.NewBatch()
		w.Finish(b)
		b.Write()
		if _, _, order := dumpDB(db); len(order) == 2 && i%7 == 0 {
			break
		}
		w, _ = pathdb.VerifC19NewIndexWriter(db, addr, math.MaxUint64, 0)
	}
	meta, _, _ := dumpDB(db)
	descs, _ := pathdb.VerifC19ParseIndex(meta, 0)
	if len(descs) != 2 {
		t.Fatalf("expected 2 blocks, got %d", len(descs))
	}
	aMax := descs[0].Max
	bMin := aMax + 1000
	t.Logf("blocks: A max=%d entries=%d | B min=%d max=%d entries=%d", aMax, descs[0].Entries, bMin, descs[1].Max, descs[1].Entries)
	return db, all, aMax, bMin
}

// Finding 2a: newIndexWriter with a limit strictly between A.max and B.min
func TestLimitBetweenBlocksWriter(t *testing.T) {
	db, _, aMax, _ := twoBlocks(t)
	limit := aMax + 5
	w, err := pathdb.VerifC19NewIndexWriter(db, addr, limit, 0)
	if err != nil {
		t.Fatal(err)
	}
	t.Logf("writer opened with limit %d: lastID=%d (A.max=%d)", limit, w.LastID(), aMax)
	err = w.Append(500, nil) // far below A.max: must be refused by a sorted set
	t.Logf("append(500) -> %v", err)
	b := db.NewBatch()
	w.Finish(b)
	b.Write()
	el, derr := dbElems(db)
	t.Logf("stored index after finish: %d elements, err=%v, strictly sorted=%v", len(el), derr, strictlySorted(el))
	if err == nil {
		t.Errorf("append(500) accepted although %d is stored", aMax)
	}
}

// Finding 2b: newIndexDeleter with a limit strictly between A.max and B.min
func TestLimitBetweenBlocksDeleter(t *testing.T) {
	db, _, aMax, _ := twoBlocks(t)
	limit := aMax + 5
	d, err := pathdb.VerifC19NewIndexDeleter(db, addr, limit, 0)
	if err != nil {
		t.Fatal(err)
	}
	t.Logf("deleter opened with limit %d: lastID=%d empty=%v (A.max=%d)", limit, d.LastID(), d.Empty(), aMax)
	perr := d.Pop(aMax)
	t.Logf("pop(A.max=%d) -> %v", aMax, perr)
	b := db.NewBatch()
	d.Finish(b)
	b.Write()
	_, rerr := pathdb.VerifC19NewIndexReader(db, addr, 0)
	t.Logf("newIndexReader after finish -> %v", rerr)
	_, werr := pathdb.VerifC19NewIndexWriter(db, addr, math.MaxUint64, 0)
	t.Logf("newIndexWriter after finish -> %v", werr)
	if perr != nil || rerr != nil {
		t.Errorf("deleter recovery corner: pop err=%v, index unreadable afterwards=%v", perr, rerr)
	}
}

// Finding 3: a trimming writer session with no appends leaves the trimmed ids stored
func TestTrimWithoutAppend(t *testing.T) {
	db, all, aMax, _ := twoBlocks(t)
	limit := aMax + 5
	w, _ := pathdb.VerifC19NewIndexWriter(db, addr, limit, 0)
	b := db.NewBatch()
	w.Finish(b)
	b.Write()
	el, _ := dbElems(db)
	t.Logf("limit %d, no appends: stored %d elements (before: %d), last=%d", limit, len(el), len(all), el[len(el)-1])
	if el[len(el)-1] > limit {
		t.Errorf("ids above the limit are still stored after the session")
	}
}
