//go:build c19finding

// Replay of the candidate finding reported by C19 (not part of the check):
//   go test -tags "verif c19finding" ./c19 -run TestCorruptBlockPopHangs -timeout 10s
// A block whose data section is the single continuation byte 0x80 passes
// parseIndexBlock; a writer opened on it (descriptor: max 5, entries 2) never
// returns from pop(5): scanSection does not check binary.Uvarint's n <= 0.
package main

import (
	"math"
	"testing"
	"time"

	"github.com/ethereum/go-ethereum/triedb/pathdb"
)

func TestCorruptBlockPopHangs(t *testing.T) {
	blob := []byte{0x80, 0x00, 0x00, 0x01}
	if _, _, err := pathdb.VerifC19ParseIndexBlock(blob); err != nil {
		t.Fatalf("blob rejected: %v", err)
	}
	w, err := pathdb.VerifC19NewBlockWriter(blob, 5, 2, 0, 0, math.MaxUint64)
	if err != nil {
		t.Fatalf("writer rejected the blob: %v", err)
	}
	done := make(chan error, 1)
	go func() { done <- w.Pop(5) }()
	select {
	case err := <-done:
		t.Logf("pop returned: %v", err)
	case <-time.After(2 * time.Second):
		t.Fatalf("pop(5) did not return within 2s: scanSection spins on a lone continuation byte")
	}
}

// Candidate: a block with ONE restart section opened with a descriptor claiming
// entries = 257 (entries%256 == 1, entries != 1): pop(max) drops the only
// restart and then indexes restarts[-1].
func TestLyingDescPopPanics(t *testing.T) {
	w0, _ := pathdb.VerifC19NewBlockWriter(nil, 0, 0, 0, 0, 0)
	w0.Append(7, nil)
	w0.Append(9, nil)
	blob := append([]byte{}, w0.Finish()...)
	w, err := pathdb.VerifC19NewBlockWriter(blob, 9, 257, 0, 0, math.MaxUint64)
	if err != nil {
		t.Fatalf("writer rejected the blob: %v", err)
	}
	defer func() {
		if e := recover(); e != nil {
			t.Fatalf("pop(9) panicked: %v", e)
		}
	}()
	t.Logf("pop returned: %v", w.Pop(9))
}
